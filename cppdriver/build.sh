#!/bin/sh
# build.sh <repo-root> <out-dir>: compile /repo/cpp and the driver (parallel), link <out-dir>/cppdriver
set -e
R=$1; O=$2; D=$(cd "$(dirname "$0")" && pwd)
rm -rf "$O"; mkdir -p "$O"
ls $R/cpp/*.cpp $R/cpp/private/*.cpp $R/cpp/ranges/*.cpp $D/main.cpp | \
  xargs -P 16 -I{} sh -c "g++ -std=c++11 -O1 -DHAVE_REGEX=1 -I$R/cpp -w -c {} -o $O/\$(echo {} | tr / _).o"
g++ -o $O/cppdriver $O/*.o
