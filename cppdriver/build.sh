#!/bin/sh
# build.sh <repo-root> <out-dir>: compile /repo/cpp and the driver (parallel), link <out-dir>/cppdriver
set -e
R=$1; O=$2; D=$(cd "$(dirname "$0")" && pwd)
rm -rf "$O"; mkdir -p "$O"
ls $R/cpp/*.cpp $R/cpp/private/*.cpp $R/cpp/ranges/*.cpp $D/main.cpp | \
  xargs -P 16 -I{} sh -c "g++ -std=c++11 -O1 -g -fsanitize=undefined -fno-sanitize-recover=all -DHAVE_REGEX=1 -I$R/cpp -w -c {} -o $O/\$(echo {} | tr / _).o"
# (UBSan: undefined behaviour in the port — signed overflow, labs(LONG_MIN), bad shifts, … — stops
#  the driver, which the runner reports as a crash of the operation being answered)
# (the driver object first: its statics are then initialised before the library's)
M=$O/$(echo $D/main.cpp | tr / _).o
g++ -fsanitize=undefined -o $O/cppdriver $M $(ls $O/*.o | grep -v -F "$M")
