// cppdriver — answers the x.* operations of the line protocol with the C++ port in /repo/cpp.
// One operation per input line, one observation per output line; the observation format is the
// one written by /verif/harness/cmd/gfsharness/impl_x.go for the Go library.
//
// Every call into the library runs under try/catch: an exception becomes "exc=<what>".

#include "fileseq.h"
#include "pad.h"
#include "private/frameset_p.h"
#include "private/sequence_p.h"

#include <algorithm>
#include <cerrno>
#include <cstdio>
#include <cstdlib>
#include <cstring>
#include <dirent.h>
#include <iostream>
#include <sstream>
#include <string>
#include <sys/stat.h>
#include <unistd.h>
#include <csignal>
#include <vector>

using std::string;
using std::vector;

// ---- protocol helpers ----

static int hexVal(char c) {
    if (c >= '0' && c <= '9') return c - '0';
    if (c >= 'a' && c <= 'f') return c - 'a' + 10;
    return 0;
}

static string unhx(const string &s) {
    if (s == "-") return "";
    string out;
    for (size_t i = 0; i + 1 < s.size(); i += 2) {
        out.push_back(char(hexVal(s[i]) * 16 + hexVal(s[i + 1])));
    }
    return out;
}

static string hx(const string &s) {
    if (s.empty()) return "-";
    static const char *d = "0123456789abcdef";
    string out;
    for (unsigned char c : s) {
        out.push_back(d[c >> 4]);
        out.push_back(d[c & 15]);
    }
    return out;
}

static vector<string> split(const string &s, char sep) {
    vector<string> out;
    size_t start = 0;
    while (true) {
        size_t p = s.find(sep, start);
        if (p == string::npos) {
            out.push_back(s.substr(start));
            return out;
        }
        out.push_back(s.substr(start, p - start));
        start = p + 1;
    }
}

static string join(const vector<string> &v, const string &sep) {
    string out;
    for (size_t i = 0; i < v.size(); ++i) {
        if (i) out += sep;
        out += v[i];
    }
    return out;
}

static vector<long> ints(const string &s) {
    vector<long> out;
    if (s == "-" || s.empty()) return out;
    for (const string &p : split(s, ',')) out.push_back(std::strtol(p.c_str(), nullptr, 10));
    return out;
}

static string showInts(const vector<long> &l) {
    if (l.empty()) return "-";
    std::ostringstream ss;
    for (size_t i = 0; i < l.size(); ++i) {
        if (i) ss << ",";
        ss << l[i];
    }
    return ss.str();
}

static string summarize(const vector<long> &l) {
    if (l.size() <= 64) return showInts(l);
    const unsigned long long m = 1000000007ULL;
    unsigned long long acc = 7;
    for (long v : l) {
        long r = v % (long)m;
        if (r < 0) r += (long)m;
        acc = (acc * 1000003ULL + (unsigned long long)r) % m;
    }
    std::ostringstream ss;
    ss << "#" << l.size() << ":" << l.front() << ":" << l.back() << ":" << acc;
    return ss.str();
}

static string hexList(const vector<string> &l) {
    if (l.empty()) return "-";
    vector<string> h;
    for (const string &s : l) h.push_back(hx(s));
    return join(h, ",");
}

struct Obs {
    string b;
    void add(const string &k, const string &v) {
        if (!b.empty()) b.push_back(';');
        b += k;
        b.push_back('=');
        b += v;
    }
    void add(const string &k, long v) { add(k, std::to_string(v)); }
    string str() const { return b.empty() ? "-" : b; }
};

// ---- mirrors of the derived observations in impl_seq.go ----

static bool takeNum(const string &s, string &tok, string &rest) {
    size_t i = 0;
    if (i < s.size() && s[i] == '-') i++;
    size_t j = i;
    while (j < s.size() && s[j] >= '0' && s[j] <= '9') j++;
    if (j == i) return false;
    tok = s.substr(0, j);
    rest = s.substr(j);
    return true;
}

static int matchPart(const string &p, string &a, string &b, string &m, string &n) {
    string r1, r3, r5;
    if (!takeNum(p, a, r1)) return 0;
    if (r1.empty()) return 1;
    if (r1[0] != '-') return 0;
    if (!takeNum(r1.substr(1), b, r3)) return 0;
    if (r3.empty()) return 2;
    char mc = r3[0];
    if (mc != ':' && mc != 'x' && mc != 'y') return 0;
    if (!takeNum(r3.substr(1), n, r5) || !r5.empty()) return 0;
    m = string(1, mc);
    return 4;
}

static bool numeralsPadded(const string &s, long z) {
    for (const string &part : split(s, ',')) {
        string a, b, m, n;
        int kind = matchPart(part, a, b, m, n);
        if (kind == 1 && (long)a.size() < z) return false;
        if ((kind == 2 || kind == 4) && ((long)a.size() < z || (long)b.size() < z)) return false;
    }
    return true;
}

static string stripZerosNum(string a) {
    string sign;
    if (!a.empty() && a[0] == '-') {
        sign = "-";
        a = a.substr(1);
    }
    size_t p = a.find_first_not_of('0');
    a = (p == string::npos) ? "0" : a.substr(p);
    return sign + a;
}

static string xNum(const string &a) {
    string r = stripZerosNum(a);
    return r == "-0" ? "0" : r;
}

// every numeral of a range text (frames and steps) as the number it denotes
static string xStrip(const string &s) {
    vector<string> parts = split(s, ',');
    for (string &part : parts) {
        string a, b, m, n;
        int kind = matchPart(part, a, b, m, n);
        if (kind == 1) part = xNum(a);
        else if (kind == 2) part = xNum(a) + "-" + xNum(b);
        else if (kind == 4) part = xNum(a) + "-" + xNum(b) + m + xNum(n);
    }
    return join(parts, ",");
}

// ---- operations ----

static string framesOf(const fileseq::FrameSet &fs) {
    if (fs.length() > 20000) return "big";
    fileseq::Frames fr;
    fs.frames(fr);
    return summarize(vector<long>(fr.begin(), fr.end()));
}

static void addQueries(Obs &o, const fileseq::FrameSet &fs, const vector<long> &qi, const vector<long> &qv) {
    vector<string> vals;
    for (long q : qi) {
        fileseq::Status st;
        // a negative index has no representation in size_t: it is out of range
        if (q < 0) {
            vals.push_back("err");
            continue;
        }
        long v = fs.frame((size_t)q, &st);
        vals.push_back(st ? std::to_string(v) : "err");
    }
    o.add("val", join(vals, ","));
    vector<long> idx;
    vector<string> has;
    for (long q : qv) {
        idx.push_back((long)(ssize_t)fs.index(q));
        has.push_back(fs.hasFrame(q) ? "1" : "0");
    }
    o.add("idx", showInts(idx));
    o.add("has", join(has, ","));
}

static string opXFs(const vector<string> &f) {
    string txt = unhx(f[1]);
    vector<long> qi = ints(f[3]), qv = ints(f[4]);
    Obs o;
    o.add("isfr", fileseq::isFrameRange(txt) ? "1" : "0");
    fileseq::Status st;
    fileseq::FrameSet fs(txt, &st);
    if (!st || !fs.isValid()) {
        o.add("valid", "0");
        return o.str();
    }
    o.add("valid", "1");
    o.add("len", (long)fs.length());
    o.add("start", fs.start());
    o.add("fin", fs.end());
    o.add("iter", framesOf(fs));
    addQueries(o, fs, qi, qv);
    fileseq::FrameSet n = fs.normalized();
    fileseq::FrameSet i = fs.inverted();
    o.add("nstr", hx(n.frameRange()));
    o.add("nframes", framesOf(n));
    o.add("istr", hx(i.frameRange()));
    o.add("iframes", framesOf(i));
    {
        // membership asked of the DERIVED sets (and of a copy of one)
        string nh, ih;
        fileseq::FrameSet icopy(i);
        for (size_t k = 0; k < qv.size(); ++k) {
            if (k) { nh += ","; ih += ","; }
            nh += n.hasFrame(qv[k]) ? "1" : "0";
            ih += icopy.hasFrame(qv[k]) ? "1" : "0";
        }
        o.add("nhas", nh);
        o.add("ihas", ih);
    }
    string frp = fs.frameRange(3);
    o.add("frp", hx(xStrip(frp)));
    o.add("frpw", numeralsPadded(frp, 3) ? "1" : "0");
    string invp = fs.invertedFrameRange(3);
    o.add("invp", hx(xStrip(invp)));
    o.add("invpw", numeralsPadded(invp, 3) ? "1" : "0");
    return o.str();
}

static string opXBig(const vector<string> &f) {
    string txt = unhx(f[1]);
    vector<long> qi = ints(f[2]), qv = ints(f[3]);
    Obs o;
    fileseq::Status st;
    fileseq::FrameSet fs(txt, &st);
    if (!st || !fs.isValid()) {
        o.add("valid", "0");
        return o.str();
    }
    o.add("valid", "1");
    o.add("len", (long)fs.length());
    o.add("start", fs.start());
    o.add("fin", fs.end());
    addQueries(o, fs, qi, qv);
    return o.str();
}

static string opXF2R(const vector<string> &f) {
    vector<long> fr = ints(f[1]);
    fileseq::Frames frames(fr.begin(), fr.end());
    Obs o;
    o.add("str", hx(fileseq::framesToFrameRange(frames, f[2] == "1", (int)std::strtol(f[3].c_str(), nullptr, 10))));
    return o.str();
}

static string opXPadRange(const vector<string> &f) {
    string txt = unhx(f[1]);
    long w = std::strtol(f[2].c_str(), nullptr, 10);
    // the Go signature takes an int; a negative width means "no padding" there, size_t here
    string out = (w < 0) ? txt : fileseq::padFrameRange(txt, (size_t)w);
    Obs o;
    o.add("strip", hx(xStrip(out)));
    o.add("wok", numeralsPadded(out, w) ? "1" : "0");
    return o.str();
}

static fileseq::PadStyle styleOf(const string &s) {
    return s == "1" ? fileseq::PadStyleHash1 : fileseq::PadStyleHash4;
}

static string opXPad(const vector<string> &f) {
    long n = std::strtol(f[2].c_str(), nullptr, 10);
    Obs o;
    o.add("chars", hx(fileseq::internal::getPadMapperForStyle(styleOf(f[1])).getPaddingChars(n)));
    return o.str();
}

static string opXPadSize(const vector<string> &f) {
    fileseq::FileSequence s("x.1@.y", styleOf(f[1]));
    s.setPadding(unhx(f[2]));
    Obs o;
    o.add("size", (long)s.zfill());
    return o.str();
}

static void seqObs(Obs &o, fileseq::FileSequence &s, const vector<long> &qf, const vector<long> &qi) {
    o.add("dir", hx(s.dirname()));
    o.add("base", hx(s.basename()));
    o.add("rng", hx(s.frameRange()));
    o.add("pad", hx(s.padding()));
    o.add("ext", hx(s.ext()));
    o.add("zfill", (long)s.zfill());
    o.add("hasfs", s.frameSet().isValid() ? "1" : "0");
    o.add("len", (long)s.length());
    o.add("start", s.start());
    o.add("fin", s.end());
    o.add("str", hx(s.string()));
    vector<string> fr, ix;
    for (long q : qf) fr.push_back(s.frame((fileseq::Frame)q));
    o.add("fr", hexList(fr));
    // a negative index has no representation in size_t; it wraps to an index beyond any range
    for (long q : qi) ix.push_back(s.index((size_t)q));
    o.add("ix", hexList(ix));
}

// sequences constructed during static initialisation (this translation unit is linked FIRST, so
// that happens before the statics of the library's own translation units are set up): the library
// may not depend on the order in which translation units are initialised
static fileseq::FileSequence kGlobals[] = {
    fileseq::FileSequence("/proj/shot/beauty.1-10#.exr"),
    fileseq::FileSequence("/proj/shot/beauty.0101.exr"),
    fileseq::FileSequence("rel/v2_take.5-9@@.tif"),
};

// x.global <k> <qf> <qi>
static string opXGlobal(const vector<string> &f) {
    size_t k = (size_t)std::atoi(f[1].c_str());
    vector<long> qf = ints(f[2]), qi = ints(f[3]);
    Obs o;
    if (k >= sizeof(kGlobals) / sizeof(kGlobals[0]) || !kGlobals[k].isValid()) {
        o.add("valid", "0");
        return o.str();
    }
    o.add("valid", "1");
    seqObs(o, kGlobals[k], qf, qi);
    return o.str();
}

static string opXSeq(const vector<string> &f) {
    string txt = unhx(f[2]);
    vector<long> qf = ints(f[3]), qi = ints(f[4]);
    Obs o;
    fileseq::Status st;
    fileseq::FileSequence s(txt, styleOf(f[1]), &st);
    if (!st || !s.isValid()) {
        o.add("valid", "0");
        return o.str();
    }
    o.add("valid", "1");
    seqObs(o, s, qf, qi);
    return o.str();
}

// ---- directories ----

struct Entry {
    string name;
    char kind;
};

static vector<Entry> parseEntries(const string &s) {
    vector<Entry> out;
    if (s == "~") return out;
    for (const string &t : split(s, ',')) {
        vector<string> p = split(t, ':');
        if (p.size() != 2 || p[1].empty()) continue;
        out.push_back(Entry{unhx(p[0]), p[1][0]});
    }
    return out;
}

static void touch(const string &p) {
    FILE *fh = std::fopen(p.c_str(), "w");
    if (fh) std::fclose(fh);
}

static void removeTree(const string &p) {
    DIR *d = opendir(p.c_str());
    if (d) {
        struct dirent *e;
        while ((e = readdir(d)) != nullptr) {
            string n = e->d_name;
            if (n == "." || n == "..") continue;
            string c = p + "/" + n;
            struct stat st{};
            if (lstat(c.c_str(), &st) == 0 && S_ISDIR(st.st_mode)) removeTree(c);
            else unlink(c.c_str());
        }
        closedir(d);
    }
    rmdir(p.c_str());
}

static bool materialise(const vector<Entry> &ents, string &root) {
    const char *tmp = std::getenv("TMPDIR");
    string tpl = string(tmp && *tmp ? tmp : "/tmp") + "/gfsXXXXXXXX";
    tpl.replace(tpl.size() - 8, 8, "T_XXXXXX");
    vector<char> buf(tpl.begin(), tpl.end());
    buf.push_back(0);
    if (mkdtemp(buf.data()) == nullptr) return false;
    root = buf.data();
    string d = root + "/d";
    if (mkdir(d.c_str(), 0755) != 0) return false;
    touch(root + "/tfile");
    mkdir((root + "/tdir").c_str(), 0755);
    for (const Entry &e : ents) {
        string p = d + "/" + e.name;
        int rc = 0;
        switch (e.kind) {
        case 'd': rc = mkdir(p.c_str(), 0755); break;
        case 'l': rc = symlink((root + "/tfile").c_str(), p.c_str()); break;
        case 'L': rc = symlink((root + "/tdir").c_str(), p.c_str()); break;
        case 'x': rc = symlink((root + "/does-not-exist").c_str(), p.c_str()); break;
        default: touch(p); break;
        }
        if (rc != 0) return false;
    }
    return true;
}

static string canon(const string &root, string s) {
    size_t pos = 0;
    while ((pos = s.find(root, pos)) != string::npos) {
        s.replace(pos, root.size(), "/T");
        pos += 2;
    }
    return s;
}

static void seqsObs(Obs &o, const string &root, fileseq::FileSequences &seqs) {
    vector<string> lines, cover;
    size_t total = 0;
    for (fileseq::FileSequence &s : seqs) {
        lines.push_back(canon(root, s.string()) + "|" + std::to_string(s.zfill()) + "|" + std::to_string(s.length()));
        total += s.length();
    }
    std::sort(lines.begin(), lines.end());
    o.add("seqs", hexList(lines));
    if (total > 3000) {
        o.add("cover", "big");
        return;
    }
    for (fileseq::FileSequence &s : seqs) {
        for (size_t i = 0; i < s.length(); ++i) cover.push_back(canon(root, s.index(i)));
    }
    std::sort(cover.begin(), cover.end());
    o.add("cover", hexList(cover));
}

// the scanned directory is T/d unless the op names it (optional last field)
static bool dirName(const vector<string> &f, size_t at, const string &root, string &name) {
    name = "d";
    if (f.size() <= at) return true;
    string n = unhx(f[at]);
    if (n.empty() || n == "d") return true;
    name = n;
    return rename((root + "/d").c_str(), (root + "/" + n).c_str()) == 0;
}

static string opXScan(const vector<string> &f) {
    long mask = std::strtol(f[1].c_str(), nullptr, 10);
    string root;
    bool ok = materialise(parseEntries(f[3]), root);
    string dn;
    if (ok) ok = dirName(f, 4, root, dn);
    if (!ok) {
        if (!root.empty()) removeTree(root);
        return "setup=err";
    }
    Obs o;
    try {
        fileseq::FindSequenceOpts opts = fileseq::kNoOpt;
        if (mask % 2 == 1) opts = opts | fileseq::kOptSingleFiles;
        if ((mask / 2) % 2 == 1) opts = opts | fileseq::kOptHiddenFiles;
        fileseq::FileSequences seqs;
        fileseq::Status st = fileseq::findSequencesOnDisk(seqs, root + "/" + dn, opts, styleOf(f[2]));
        if (!st) {
            o.add("err", "err");
        } else {
            o.add("err", "ok");
            seqsObs(o, root, seqs);
        }
    } catch (...) {
        removeTree(root);
        throw;
    }
    removeTree(root);
    return o.str();
}

static string opXFind(const vector<string> &f) {
    string root;
    bool ok = materialise(parseEntries(f[3]), root);
    string dn;
    if (ok) ok = dirName(f, 4, root, dn);
    if (!ok) {
        if (!root.empty()) removeTree(root);
        return "setup=err";
    }
    Obs o;
    try {
        fileseq::Status st;
        // style "1c" / "4c": the pattern has no directory part and is looked up in the working directory
        const bool cwdMode = f[1].size() > 1 && f[1][1] == 'c';
        string pattern = root + "/" + dn + "/" + unhx(f[2]);
        if (cwdMode) {
            if (chdir((root + "/" + dn).c_str()) != 0) { removeTree(root); return "setup=err"; }
            pattern = unhx(f[2]);
        }
        fileseq::FileSequence s = fileseq::findSequenceOnDisk(pattern, styleOf(f[1].substr(0, 1)), &st);
        if (cwdMode) { if (chdir("/") != 0) { /* keep going */ } }
        if (!st) {
            o.add("err", "err");
        } else {
            o.add("err", "ok");
            if (!s.isValid()) {
                o.add("found", "0");
            } else {
                o.add("found", "1");
                fileseq::FileSequences one;
                one.push_back(s);
                seqsObs(o, root, one);
            }
        }
    } catch (...) {
        removeTree(root);
        throw;
    }
    removeTree(root);
    return o.str();
}

static string sanitize(string s) {
    for (char &c : s) {
        if (c == ';' || c == '=' || c == '\n' || c == '\t') c = ' ';
    }
    return s;
}

static string runOp(const string &line) {
    vector<string> f = split(line, ' ');
    try {
        if (f[0] == "x.fs" && f.size() == 5) return opXFs(f);
        if (f[0] == "x.f2r" && f.size() == 4) return opXF2R(f);
        if (f[0] == "x.big" && f.size() == 4) return opXBig(f);
        if (f[0] == "x.padrange" && f.size() == 3) return opXPadRange(f);
        if (f[0] == "x.pad" && f.size() == 3) return opXPad(f);
        if (f[0] == "x.padsize" && f.size() == 3) return opXPadSize(f);
        if (f[0] == "x.seq" && f.size() >= 5) return opXSeq(f);
        if (f[0] == "x.global" && f.size() == 4) return opXGlobal(f);
        if (f[0] == "x.scan" && (f.size() == 4 || f.size() == 5)) return opXScan(f);
        if (f[0] == "x.find" && (f.size() == 4 || f.size() == 5)) return opXFind(f);
    } catch (const std::exception &e) {
        return "exc=" + sanitize(e.what());
    } catch (...) {
        return "exc=unknown";
    }
    return "bad-op=1";
}

// every operation runs under a deadline (GFS_OP_DEADLINE seconds, default 120): an operation that
// does not return is reported as such and the process ends (the check re-runs the remaining lines)
static void onAlarm(int) {
    static const char msg[] = "panic=operation did not return within the deadline\n";
    ssize_t ignored = write(1, msg, sizeof(msg) - 1);
    (void)ignored;
    _exit(3);
}

int main() {
    std::ios::sync_with_stdio(false);
    unsigned deadline = 120;
    if (const char *e = std::getenv("GFS_OP_DEADLINE")) {
        int v = std::atoi(e);
        if (v > 0) deadline = (unsigned)v;
    }
    signal(SIGALRM, onAlarm);
    // the library prints diagnostics for unparsable patterns on stderr; keep them out of the way
    string line;
    while (std::getline(std::cin, line)) {
        if (line.empty()) continue;
        alarm(deadline);
        std::cout << runOp(line) << "\n";
        std::cout.flush();
        alarm(0);
    }
    return 0;
}
