#!/bin/sh
# Build the framework from files on disk only (offline).
set -e
cd "$(dirname "$0")"
export GOFLAGS=-mod=mod GOPROXY=off GOSUMDB=off GOTOOLCHAIN=local
mkdir -p build evidence replays
(cd tools/gofacts && go build -o ../../build/gofacts . && ../../build/gofacts /repo ../../lean/GfsGen/Facts.lean)
(cd lean && lake build)
cp /repo/go.sum harness/go.sum
(cd harness && go build -tags verif -o ../build/gfsharness ./cmd/gfsharness)
echo setup-ok
