#!/bin/sh
# Build the framework from files on disk only (offline).
set -e
cd "$(dirname "$0")"
export GOFLAGS=-mod=mod GOPROXY=off GOSUMDB=off GOTOOLCHAIN=local
mkdir -p build evidence replays
(cd lean && lake build)
cp /repo/go.sum harness/go.sum
(cd harness && go build -tags verif -o ../build/gfsharness ./cmd/gfsharness)
echo setup-ok
