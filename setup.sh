#!/bin/sh
# Build the framework from files on disk only (offline).
# The checks build what they need themselves (each one its own GfsProps.<id> and the driver);
# this script only warms the caches, so a problem in one proof module must not stop the rest.
cd "$(dirname "$0")" || exit 1
export GOFLAGS=-mod=mod GOPROXY=off GOSUMDB=off GOTOOLCHAIN=local
mkdir -p build evidence replays
(cd tools/gofacts && go build -o ../../build/gofacts . && ../../build/gofacts /repo ../../lean/GfsGen/Facts.lean ../../build/fingerprints.json) || exit 1
if ! (cd lean && lake build); then
  echo "setup: whole-project lake build failed; building the targets one by one" >&2
  for i in 01 02 03 04 05 06 07 08 09 10 11 12 13 14 15 16 17 18 19 20; do
    (cd lean && lake build GfsProps.C$i) || echo "setup: GfsProps.C$i does not build" >&2
  done
fi
(cd lean && lake build gfsdriver) || exit 1
cp /repo/go.sum harness/go.sum
(cd harness && go build -tags verif -o ../build/gfsharness ./cmd/gfsharness) || exit 1
echo setup-ok
