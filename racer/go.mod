module gfsverif/racer

go 1.13

require github.com/justinfx/gofileseq/v2 v2.0.0

replace github.com/justinfx/gofileseq/v2 => /repo
