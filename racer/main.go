// racer — C16: independent library calls from several goroutines, starting with the very
// first call in the process. Built with -race.
//
//	racer run            protocol mode: one "race <seed> <goroutines> <calls>" op per line; each op is
//	                     executed in a FRESH child process (cold package-level caches)
//	racer child s g c    the child: prints "same=1" when every goroutine's results equal a
//	                     sequential re-computation; the race detector aborts it with exit code 66
package main

import (
	"bufio"
	"fmt"
	"hash/fnv"
	"math/rand"
	"os"
	"os/exec"
	"sort"
	"strconv"
	"strings"
	"sync"

	fileseq "github.com/justinfx/gofileseq/v2"
)

// mkdir creates the goroutine's own directory: two sequences, a plain file, links to files and
// to a directory (every scan of it goes through the symlink branch more than once)
func mkdir(root string, i int) string {
	d := fmt.Sprintf("%s/g%02d", root, i)
	os.MkdirAll(d+"/sub", 0o755)
	for _, n := range []string{"a.0001.exr", "a.0002.exr", "a.0004.exr", "b.7.jpg", "b.8.jpg", "notes.txt", ".hid.1.x"} {
		os.WriteFile(d+"/"+n, nil, 0o644)
	}
	os.Symlink(d+"/a.0001.exr", d+"/a.0005.exr")
	os.Symlink(d+"/notes.txt", d+"/l.1.txt")
	os.Symlink(d+"/b.7.jpg", d+"/l.2.txt")
	os.Symlink(d+"/sub", d+"/sublink")
	return d
}

// sharedOpts: built once, with spare capacity, never written by this program
var sharedOpts = append(make([]fileseq.FileOption, 0, 8), fileseq.HiddenFiles, fileseq.FileOptPadStyleHash1, fileseq.StrictPadding)

func workload(seed int64, calls int, dir string) uint64 {
	r := rand.New(rand.NewSource(seed))
	h := fnv.New64a()
	add := func(s string) { h.Write([]byte(s)); h.Write([]byte{0}) }
	ranges := []string{"1-10", "10-1x3", "1-20y3,30", "5,4,3", "1-9:3", " 1 - 5 #", "bad", "1-5x0",
		"99999999999999999999", "1-5,7-99999999999999999999999", "-99999999999999999999-3x2"}
	ranges[8] = fmt.Sprintf("%d9999999999999999999", seed%9+1) // every goroutine fails on its own number
	seqs := []string{"/a/b.1-10#.exr", "c.%04d.jpg", "x.$F3.tif", "u.<UDIM>.tx", "/d/e.0012.png", "plain.txt", "f.1-3@@.e",
		"/w/wide.5-9#####.exr", "/w/p.1-3%018d.tif", "/w/t.1712345678001234567.exr", "/w/h.2-4$F21.bgeo"}
	for i := 0; i < calls; i++ {
		switch r.Intn(8) {
		case 0:
			fs, err := fileseq.NewFrameSet(ranges[r.Intn(len(ranges))])
			if err != nil {
				add("err")
			} else {
				add(fs.String() + fmt.Sprint(fs.Len(), fs.Start(), fs.End()))
				add(fs.Normalize().String() + "|" + fs.InvertedFrameRange(3))
			}
		case 1:
			st := fileseq.PadStyle(r.Intn(2))
			s, err := fileseq.NewFileSequencePad(seqs[r.Intn(len(seqs))], st)
			if err != nil {
				add("err")
			} else {
				add(s.String() + s.Index(0) + fmt.Sprint(s.ZFill()))
				fr, _ := s.Frame(r.Intn(100000))
				add(fr + s.FrameRangePadded())
				s.SetPaddingStyle(fileseq.PadStyle(1 - int(st)))
				add(s.String())
				f, _ := s.Format("{{dir}}{{base}}{{frange}}{{pad}}{{ext}} {{len}}")
				add(f)
				c := s.Copy()
				add(c.String())
				for _, p := range s.Split() {
					add(p.String())
				}
			}
		case 2:
			add(fmt.Sprint(fileseq.IsFrameRange(ranges[r.Intn(len(ranges))])))
		case 3:
			add(fileseq.PadFrameRange(ranges[r.Intn(len(ranges))], r.Intn(6)))
		case 4:
			add(fileseq.FramesToFrameRange([]int{r.Intn(5), 7 + r.Intn(3), 20, 22, 24}, r.Intn(2) == 0, []int{0, 1, 2, 3, 4, 9, 16, 17, 18, 23, 40}[r.Intn(11)]))
			if r.Intn(3) == 0 {
				// a long private list, sorted by the library (scratch buffers must be private too)
				ln := 200 + r.Intn(1300)
				base := r.Intn(1000000)
				long := make([]int, ln)
				for j := range long {
					long[j] = base + (ln-j)*3
				}
				add(fileseq.FramesToFrameRange(long, true, 0))
			}
		case 5:
			paths := []string{"/x/a.1.exr", "/x/a.2.exr", "/x/a.03.exr", "/x/b.txt", "/x/.h.1.exr"}
			opts := []fileseq.FileOption{fileseq.SingleFiles}
			if r.Intn(2) == 0 {
				opts = append(opts, fileseq.FileOptPadStyleHash1)
			}
			l, err := fileseq.FindSequencesInList(paths, opts...)
			if err != nil {
				add("err")
			}
			var ss []string
			for _, s := range l {
				ss = append(ss, s.String())
			}
			// map iteration order is random: sort
			for a := 0; a < len(ss); a++ {
				for b := a + 1; b < len(ss); b++ {
					if ss[b] < ss[a] {
						ss[a], ss[b] = ss[b], ss[a]
					}
				}
			}
			add(strings.Join(ss, ","))
		case 6:
			add(fileseq.PaddingChars(r.Intn(26)))
		default:
			if dir != "" {
				l, err := fileseq.FindSequencesOnDisk(dir, fileseq.SingleFiles)
				var ss []string
				for _, s := range l {
					ss = append(ss, s.String())
				}
				sort.Strings(ss)
				add(strings.Join(ss, ",") + fmt.Sprint(err == nil))
				s, err := fileseq.FindSequenceOnDisk(dir + "/a.#.exr")
				if err == nil && s != nil {
					add(s.String())
				}
				// the option list is an input the caller may share between goroutines (seqls does):
				// one slice with spare capacity, read by everybody
				s, err = fileseq.FindSequenceOnDiskPad(dir+"/b.@.jpg", fileseq.PadStyleHash1, sharedOpts[:r.Intn(len(sharedOpts)+1)]...)
				if err == nil && s != nil {
					add(s.String() + fmt.Sprint(s.ZFill()))
				} else {
					add(fmt.Sprint(err == nil))
				}
				lf, err := fileseq.ListFiles(dir)
				add(fmt.Sprint(len(lf), err == nil))
			}
		}
	}
	return h.Sum64()
}

func child(seed int64, g, calls int) {
	// the parent owns the scratch directory (a child stopped by the race detector cannot clean up)
	root := os.Getenv("GFS_RACER_ROOT")
	if root == "" {
		var err error
		root, err = os.MkdirTemp("", "gfsR")
		if err != nil {
			fmt.Println("same=setup-failed")
			return
		}
		defer os.RemoveAll(root)
	}
	dirs := make([]string, g)
	for i := range dirs {
		dirs[i] = mkdir(root, i) // plain os calls only: the library is still cold
	}
	results := make([]uint64, g)
	start := make(chan struct{})
	var wg sync.WaitGroup
	for i := 0; i < g; i++ {
		wg.Add(1)
		go func(i int) {
			defer wg.Done()
			<-start
			results[i] = workload(seed+int64(i)*104729, calls, dirs[i])
		}(i)
	}
	close(start) // the very first library calls of the process happen concurrently
	wg.Wait()
	same := 1
	for i := 0; i < g; i++ {
		if workload(seed+int64(i)*104729, calls, dirs[i]) != results[i] {
			same = 0
		}
	}
	// copies and parts of one value are separate values: each goroutine gets its own, made by
	// the library from a master nobody has queried yet, and asks its first questions at once
	masters := []string{"/m/beauty.1-100x7#.exr", "/m/x.90-10x4@@.tif", "/m/y.1-20y3#.exr", "/m/z.-50--8x5#.exr"}
	for round := 0; round < 2*len(masters); round++ {
		txt := masters[round%len(masters)]
		m, err := fileseq.NewFileSequence(txt)
		if err != nil {
			same = 0
			break
		}
		copies := make([]*fileseq.FileSequence, g)
		for i := range copies {
			if i%2 == 0 {
				copies[i] = m.Copy()
			} else {
				copies[i] = m.Split()[0]
			}
		}
		ask := func(c *fileseq.FileSequence) string {
			return fmt.Sprint(c.End(), c.Len(), c.Start(), c.Index(c.Len()-1), c.FrameRange(), c.FrameSet().HasFrame(c.End()))
		}
		res := make([]string, g)
		start2 := make(chan struct{})
		for i := 0; i < g; i++ {
			wg.Add(1)
			go func(i int) {
				defer wg.Done()
				<-start2
				res[i] = ask(copies[i])
			}(i)
		}
		close(start2)
		wg.Wait()
		fresh, _ := fileseq.NewFileSequence(txt)
		want := ask(fresh)
		for i := range res {
			if res[i] != want {
				same = 0
			}
		}
	}
	fmt.Printf("same=%d\n", same)
}

func main() {
	if len(os.Args) >= 5 && os.Args[1] == "child" {
		seed, _ := strconv.ParseInt(os.Args[2], 10, 64)
		g, _ := strconv.Atoi(os.Args[3])
		c, _ := strconv.Atoi(os.Args[4])
		child(seed, g, c)
		return
	}
	w := bufio.NewWriter(os.Stdout)
	defer w.Flush()
	sc := bufio.NewScanner(os.Stdin)
	for sc.Scan() {
		f := strings.Split(sc.Text(), " ")
		if len(f) != 4 || f[0] != "race" {
			w.WriteString("bad-op=1\n")
			continue
		}
		cmd := exec.Command(os.Args[0], "child", f[1], f[2], f[3])
		cmd.Env = append(os.Environ(), "GORACE=halt_on_error=1 exitcode=66")
		scratch, serr := os.MkdirTemp("", "gfsR")
		if serr == nil {
			cmd.Env = append(cmd.Env, "GFS_RACER_ROOT="+scratch)
		}
		out, err := cmd.CombinedOutput()
		if serr == nil {
			os.RemoveAll(scratch)
		}
		so := string(out)
		switch {
		case strings.Contains(so, "DATA RACE"):
			loc := ""
			for _, l := range strings.Split(so, "\n") {
				if strings.Contains(l, "/repo/") && loc == "" {
					loc = strings.TrimSpace(l)
				}
			}
			loc = strings.NewReplacer(";", " ", "=", " ", "\t", " ").Replace(loc)
			fmt.Fprintf(w, "race=1 %s;same=?\n", loc)
		case err != nil:
			fmt.Fprintf(w, "race=0;same=crash\n")
		default:
			fmt.Fprintf(w, "race=0;%s\n", strings.TrimSpace(so))
		}
	}
}
