package main

import (
	"sort"
	"strconv"
	"strings"

	fileseq "github.com/justinfx/gofileseq/v2"
)

func styleOf(s string) fileseq.PadStyle {
	if s == "1" {
		return fileseq.PadStyleHash1
	}
	return fileseq.PadStyleHash4
}

func showStyle(st fileseq.PadStyle) string {
	if st == fileseq.PadStyleHash1 {
		return "1"
	}
	return "4"
}

func hexList(l []string) string {
	if len(l) == 0 {
		return "-"
	}
	out := make([]string, len(l))
	for i, s := range l {
		out[i] = hx(s)
	}
	return strings.Join(out, ",")
}

// a sequence whose only purpose is to reach the pad mapper of a style
func padProbe(st fileseq.PadStyle) *fileseq.FileSequence {
	s, err := fileseq.NewFileSequencePad("x.1@.y", st)
	if err != nil {
		panic(err)
	}
	return s
}

func opPadChars(f []string) string {
	st := styleOf(f[1])
	n := atoi(f[2])
	var chars string
	if st == fileseq.PadStyleHash4 {
		chars = fileseq.PaddingChars(n)
	} else {
		// reach the hash1 mapper's PaddingChars through SetPaddingStyle
		s := padProbe(fileseq.PadStyleHash4)
		if n >= 1 {
			s.SetPadding("%0" + strconv.Itoa(n) + "d")
		} else {
			s.SetPadding("")
		}
		s.SetPaddingStyle(st)
		chars = s.Padding()
	}
	p := padProbe(st)
	p.SetPadding(chars)
	var o Obs
	o.Add("chars", hx(chars))
	o.Add("back", strconv.Itoa(p.ZFill()))
	return o.String()
}

func opPadSize(f []string) string {
	p := padProbe(styleOf(f[1]))
	p.SetPadding(unhx(f[2]))
	var o Obs
	o.Add("size", strconv.Itoa(p.ZFill()))
	return o.String()
}

// ---- helpers mirroring the derived observations of GfsModel.OpsSeq ----

func isDigitB(c byte) bool { return c >= '0' && c <= '9' }

// takeNum mirrors Gfs.takeNum
func takeNum(s string) (tok, rest string, ok bool) {
	i := 0
	if i < len(s) && s[i] == '-' {
		i++
	}
	j := i
	for j < len(s) && isDigitB(s[j]) {
		j++
	}
	if j == i {
		return "", "", false
	}
	return s[:j], s[j:], true
}

// matchPart mirrors Gfs.matchPart; kind 0 none, 1 single, 2 range, 4 complex
func matchPart(p string) (kind int, a, b, mod, n string) {
	a, r1, ok := takeNum(p)
	if !ok {
		return 0, "", "", "", ""
	}
	if r1 == "" {
		return 1, a, "", "", ""
	}
	if r1[0] != '-' {
		return 0, "", "", "", ""
	}
	b, r3, ok := takeNum(r1[1:])
	if !ok {
		return 0, "", "", "", ""
	}
	if r3 == "" {
		return 2, a, b, "", ""
	}
	m := r3[0]
	if m != ':' && m != 'x' && m != 'y' {
		return 0, "", "", "", ""
	}
	n, r5, ok := takeNum(r3[1:])
	if !ok || r5 != "" {
		return 0, "", "", "", ""
	}
	return 4, a, b, string(m), n
}

func numeralsPadded(s string, z int) bool {
	for _, part := range strings.Split(s, ",") {
		kind, a, b, _, _ := matchPart(part)
		switch kind {
		case 1:
			if len(a) < z {
				return false
			}
		case 2, 4:
			if len(a) < z || len(b) < z {
				return false
			}
		}
	}
	return true
}

func stripZerosNum(a string) string {
	sign := ""
	if strings.HasPrefix(a, "-") {
		sign, a = "-", a[1:]
	}
	a = strings.TrimLeft(a, "0")
	if a == "" {
		a = "0"
	}
	return sign + a
}

func stripZeros(s string) string {
	parts := strings.Split(s, ",")
	for i, part := range parts {
		kind, a, b, m, n := matchPart(part)
		switch kind {
		case 1:
			parts[i] = stripZerosNum(a)
		case 2:
			parts[i] = stripZerosNum(a) + "-" + stripZerosNum(b)
		case 4:
			parts[i] = stripZerosNum(a) + "-" + stripZerosNum(b) + m + n
		}
	}
	return strings.Join(parts, ",")
}

func opF2R(f []string) string {
	fr := ints(f[1])
	sorted := f[2] == "1"
	z := atoi(f[3])
	in := make([]int, len(fr))
	copy(in, fr)
	out := fileseq.FramesToFrameRange(in, sorted, z)
	var o Obs
	o.Add("str", hx(out))
	if len(fr) == 0 {
		o.Add("reparse", "-")
	} else {
		o.Add("reparse", framesOrErr(out))
	}
	o.Add("zok", showBool(numeralsPadded(out, z)))
	return o.String()
}

func opPadRange(f []string) string {
	txt := unhx(f[1])
	w := atoi(f[2])
	out := fileseq.PadFrameRange(txt, w)
	var o Obs
	o.Add("out", hx(out))
	o.Add("parts", strconv.Itoa(len(strings.Split(out, ","))))
	o.Add("same", showBool(framesOrErr(out) == framesOrErr(txt)))
	o.Add("idem", showBool(fileseq.PadFrameRange(out, w) == out))
	o.Add("wok", showBool(numeralsPadded(out, w)))
	o.Add("strip", showBool(stripZeros(out) == stripZeros(txt)))
	return o.String()
}

func framesOf(fs *fileseq.FrameSet) string {
	if fs.Len() > 20000 {
		return "big"
	}
	return summarize(fs.Frames())
}

func opFsNorm(f []string) string {
	txt := unhx(f[1])
	pad := atoi(f[2])
	var o Obs
	fs, err := fileseq.NewFrameSet(txt)
	if err != nil {
		o.Add("err", "err")
		return o.String()
	}
	n := fs.Normalize()
	i := fs.Invert()
	inv0 := fs.InvertedFrameRange(0)
	invp := fs.InvertedFrameRange(pad)
	parts := strings.Split(txt, ",")
	for a, b := 0, len(parts)-1; a < b; a, b = a+1, b-1 {
		parts[a], parts[b] = parts[b], parts[a]
	}
	nperm := false
	if fs2, err := fileseq.NewFrameSet(strings.Join(parts, ",")); err == nil {
		nperm = framesOf(fs2.Normalize()) == framesOf(n)
	}
	nn := n.Normalize()
	o.Add("err", "ok")
	o.Add("nstr", hx(n.FrameRange()))
	o.Add("nframes", framesOf(n))
	o.Add("nre", framesOrErr(n.FrameRange()))
	o.Add("nidem", showBool(nn.FrameRange() == n.FrameRange() && framesOf(nn) == framesOf(n)))
	o.Add("nperm", showBool(nperm))
	o.Add("istr", hx(i.FrameRange()))
	o.Add("iframes", framesOf(i))
	if i.Len() == 0 {
		o.Add("ire", "-")
	} else {
		o.Add("ire", framesOrErr(i.FrameRange()))
	}
	o.Add("inv0", hx(inv0))
	o.Add("invp", hx(invp))
	o.Add("inv0eq", showBool(inv0 == i.FrameRange()))
	o.Add("invstrip", showBool(stripZeros(invp) == inv0))
	return o.String()
}

func seqObs(o *Obs, s *fileseq.FileSequence, qf, qi []int) {
	ln := s.Len()
	nodup := "skip"
	if ln <= 300 {
		seen := map[string]bool{}
		ok := true
		for i := 0; i < ln; i++ {
			p := s.Index(i)
			if seen[p] {
				ok = false
			}
			seen[p] = true
		}
		nodup = showBool(ok)
	}
	o.Add("dir", hx(s.Dirname()))
	o.Add("base", hx(s.Basename()))
	o.Add("rng", hx(s.FrameRange()))
	o.Add("pad", hx(s.Padding()))
	o.Add("ext", hx(s.Ext()))
	o.Add("zfill", strconv.Itoa(s.ZFill()))
	o.Add("hasfs", showBool(s.FrameSet() != nil))
	o.Add("style", showStyle(s.PaddingStyle()))
	o.Add("len", strconv.Itoa(ln))
	o.Add("start", strconv.Itoa(s.Start()))
	o.Add("fin", strconv.Itoa(s.End()))
	o.Add("str", hx(s.String()))
	if f, err := s.Format("{{dir}}{{base}}{{frange}}{{pad}}{{ext}}"); err == nil {
		o.Add("fmt", hx(f))
	} else {
		o.Add("fmt", "err")
	}
	o.Add("i0", hx(s.Index(0)))
	// paths are a function of the sequence's own components: changing a copy changes nothing here
	// a frame of a type the method rejects leaves nothing behind either
	_, _ = s.Frame(3.5)
	_, _ = s.Frame(nil)
	_, _ = s.Frame(int64(7))
	if c := s.Copy(); c != nil {
		c.SetDirname("/zz")
		c.SetBasename("q")
		c.SetExt(".e")
	}
	o.Add("i0b", hx(s.Index(0)))
	fr := make([]string, len(qf))
	for i, q := range qf {
		fr[i], _ = s.Frame(q)
	}
	o.Add("fr", hexList(fr))
	ix := make([]string, len(qi))
	for i, q := range qi {
		ix[i] = s.Index(q)
	}
	o.Add("ix", hexList(ix))
	o.Add("nodup", nodup)
	var fss []string
	for _, t := range []string{"5", "-5", "#", "abc", "007", "+3"} {
		p, _ := s.Frame(t)
		fss = append(fss, p)
	}
	o.Add("fs", hexList(fss))
	// a template that parses but fails while executing, after it has written text; whatever it
	// left behind must not show up in later answers
	_, _ = s.Format("{{dir}}{{base}}{{slice base 0 4000}}")
	_, _ = s.Format("{{dir}}{{index base 4000}}")
	o.Add("str2", hx(s.String()))
	if f, err := s.Format("{{dir}}{{base}}{{frange}}{{pad}}{{ext}}"); err == nil {
		o.Add("fmt2", hx(f))
	} else {
		o.Add("fmt2", "err")
	}
}

func opSeq(f []string) string {
	st := styleOf(f[1])
	txt := unhx(f[2])
	qf, qi := ints(f[3]), ints(f[4])
	var o Obs
	s, err := fileseq.NewFileSequencePad(txt, st)
	if err != nil {
		o.Add("err", "err")
		return o.String()
	}
	o.Add("err", "ok")
	seqObs(&o, s, qf, qi)
	return o.String()
}

func sortedCopy(ss []string) []string {
	out := append([]string(nil), ss...)
	sort.Strings(out)
	return out
}

func fileseqParse(s, style string) (*fileseq.FileSequence, error) {
	return fileseq.NewFileSequencePad(s, styleOf(style))
}
