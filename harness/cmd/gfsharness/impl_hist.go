package main

import (
	"strconv"
	"strings"

	fileseq "github.com/justinfx/gofileseq/v2"
)

func snap(s *fileseq.FileSequence) string {
	ln := s.Len()
	return strings.Join([]string{hx(s.String()), hx(s.Dirname()), hx(s.Basename()), hx(s.FrameRange()), hx(s.Padding()),
		hx(s.Ext()), strconv.Itoa(s.ZFill()), showStyle(s.PaddingStyle()), strconv.Itoa(ln), hx(s.Index(0)), hx(s.Index(ln - 1))}, "|")
}

func strOk(s *fileseq.FileSequence) bool {
	return s.String() == s.Dirname()+s.Basename()+s.FrameRange()+s.Padding()+s.Ext()
}

func paths(s *fileseq.FileSequence) []string {
	ln := s.Len()
	out := make([]string, 0, ln)
	for i := 0; i < ln; i++ {
		out = append(out, s.Index(i))
	}
	return out
}

func eqStrings(a, b []string) bool {
	if len(a) != len(b) {
		return false
	}
	for i := range a {
		if a[i] != b[i] {
			return false
		}
	}
	return true
}

func dedupStrings(l []string) []string {
	seen := map[string]bool{}
	var out []string
	for _, s := range l {
		if !seen[s] {
			seen[s] = true
			out = append(out, s)
		}
	}
	return out
}

type comps struct {
	dir, base, ext, pad, rng string
	zfill                    int
}

func compsOf(s *fileseq.FileSequence) comps {
	return comps{s.Dirname(), s.Basename(), s.Ext(), s.Padding(), s.FrameRange(), s.ZFill()}
}

func opSeqOps(f []string) string {
	st := styleOf(f[1])
	var o Obs
	s, err := fileseq.NewFileSequencePad(unhx(f[2]), st)
	if err != nil {
		o.Add("err", "err")
		return o.String()
	}
	snaps := []string{snap(s)}
	chk := []byte{showBool(strOk(s))[0]}
	for _, tok := range f[3:] {
		kind, arg := tok, ""
		if i := strings.IndexByte(tok, ':'); i >= 0 {
			kind, arg = tok[:i], tok[i+1:]
		}
		before := compsOf(s)
		beforeSnap := snap(s)
		ok := true
		switch kind {
		case "D":
			d := unhx(arg)
			s.SetDirname(d)
			a := compsOf(s)
			// '\\' as soon as the directory contains one, else '/'
			sep := "/"
			if strings.Contains(d, "\\") {
				sep = "\\"
			}
			want := d
			if !strings.HasSuffix(d, sep) {
				want += sep
			}
			ok = strOk(s) && (d == "" || a.dir == want) && a.base == before.base && a.ext == before.ext &&
				a.pad == before.pad && a.zfill == before.zfill && a.rng == before.rng
		case "B":
			b := unhx(arg)
			s.SetBasename(b)
			a := compsOf(s)
			ok = strOk(s) && a.base == b && a.dir == before.dir && a.ext == before.ext &&
				a.pad == before.pad && a.zfill == before.zfill && a.rng == before.rng
		case "E":
			e := unhx(arg)
			s.SetExt(e)
			a := compsOf(s)
			want := e
			if !strings.HasPrefix(e, ".") {
				want = "." + e
			}
			ok = strOk(s) && (e == "" || a.ext == want) && a.base == before.base && a.dir == before.dir &&
				a.pad == before.pad && a.zfill == before.zfill && a.rng == before.rng
		case "P":
			p := unhx(arg)
			s.SetPadding(p)
			a := compsOf(s)
			ok = strOk(s) && a.pad == p && a.base == before.base && a.dir == before.dir &&
				a.ext == before.ext && a.rng == before.rng
		case "Y":
			i0, il := s.Index(0), s.Index(s.Len()-1)
			s.SetPaddingStyle(styleOf(arg))
			a := compsOf(s)
			ok = strOk(s) && s.PaddingStyle() == styleOf(arg) &&
				(before.zfill < 1 || (a.zfill == before.zfill && (s.FrameSet() == nil || (s.Index(0) == i0 && s.Index(s.Len()-1) == il)))) &&
				a.base == before.base && a.dir == before.dir && a.ext == before.ext && a.rng == before.rng
		case "R":
			r := unhx(arg)
			err := s.SetFrameRange(r)
			a := compsOf(s)
			ok = strOk(s) && a.base == before.base && a.dir == before.dir && a.ext == before.ext &&
				a.pad == before.pad && a.zfill == before.zfill
			if err == nil {
				ok = ok && a.rng == r
			} else {
				ok = ok && snap(s) == beforeSnap
			}
		case "F":
			r := unhx(arg)
			fs, err := fileseq.NewFrameSet(r)
			want := r
			if err != nil {
				fs = nil
				want = ""
			}
			s.SetFrameSet(fs)
			a := compsOf(s)
			ok = strOk(s) && a.rng == want && a.base == before.base && a.dir == before.dir && a.ext == before.ext &&
				a.pad == before.pad && a.zfill == before.zfill
		case "N":
			if fs := s.FrameSet(); fs != nil {
				s.SetFrameSet(fs.Normalize())
			}
			a := compsOf(s)
			ok = strOk(s) && a.base == before.base && a.dir == before.dir && a.ext == before.ext &&
				a.pad == before.pad && a.zfill == before.zfill
		case "V":
			// install the inverted frame set (possibly the empty one)
			wantLen, check := 0, false
			if fs := s.FrameSet(); fs != nil {
				if n := fs.Len(); n > 0 && n <= 5000 {
					fr := fs.Frames()
					mn, mx := fr[0], fr[0]
					distinct := map[int]bool{}
					for _, v := range fr {
						distinct[v] = true
						if v < mn {
							mn = v
						}
						if v > mx {
							mx = v
						}
					}
					wantLen, check = (mx-mn+1)-len(distinct), true
				}
				s.SetFrameSet(fs.Invert())
			} else {
				check = false
			}
			a := compsOf(s)
			ok = strOk(s) && a.base == before.base && a.dir == before.dir && a.ext == before.ext &&
				a.pad == before.pad && a.zfill == before.zfill && (!check || s.Len() == wantLen)
			if before.rng == "" && s.FrameSet() == nil {
				ok = ok && snap(s) == beforeSnap
			}
		case "C":
			var origPaths []string
			small := s.Len() <= 300
			if small {
				origPaths = paths(s)
			}
			c := s.Copy()
			ok = c != nil && strOk(c) && snap(c) == beforeSnap && (!small || eqStrings(paths(c), origPaths))
			if c != nil {
				// independence: changing the copy must not change the original
				c.SetBasename("zz")
				c.SetFrameRange("7")
				c.SetPadding("@@")
				ok = ok && snap(s) == beforeSnap
				if c2 := s.Copy(); c2 != nil {
					s = c2
				}
			}
		case "S":
			parts := s.Split()
			ncomp := 1
			if s.FrameSet() != nil {
				ncomp = len(strings.Split(s.FrameRange(), ","))
			}
			ok = len(parts) == ncomp
			var cat []string
			for _, p := range parts {
				if p == nil {
					ok = false
					continue
				}
				ok = ok && p.Dirname() == before.dir && p.Basename() == before.base && p.Padding() == before.pad &&
					p.PaddingStyle() == s.PaddingStyle() && p.Ext() == before.ext && p.ZFill() == before.zfill && strOk(p)
				if s.Len() <= 300 {
					cat = append(cat, paths(p)...)
				}
			}
			if s.Len() <= 300 {
				ok = ok && eqStrings(dedupStrings(cat), paths(s))
			}
			ok = ok && snap(s) == beforeSnap
		default:
			return "bad-op=1"
		}
		snaps = append(snaps, snap(s))
		chk = append(chk, showBool(ok)[0])
	}
	o.Add("err", "ok")
	o.Add("chk", string(chk))
	o.Add("s", strings.Join(snaps, ","))
	return o.String()
}
