package main

import (
	"strings"

	fileseq "github.com/justinfx/gofileseq/v2"
)

type strer string

func (s strer) String() string { return string(s) }

// exercise drives every query / formatter / mutator of a parsed sequence; a panic
// propagates to runOp's recover and fails the operation
func exercise(s *fileseq.FileSequence, in string) {
	_ = s.String()
	_ = s.Dirname() + s.Basename() + s.Padding() + s.Ext() + s.FrameRange() + s.FrameRangePadded()
	_ = s.InvertedFrameRange() + s.InvertedFrameRangePadded()
	_, _, _, _ = s.Start(), s.End(), s.ZFill(), s.Len()
	_ = s.PaddingStyle()
	for _, tpl := range []string{"{{dir}}{{base}}{{frange}}{{pad}}{{ext}}", in, "{{" + in + "}}", "{{startf}}-{{endf}} {{len}} {{zfill}} {{inverted}}",
		"{{dir", "{{nope}}", "{{len | printf \"%d\"}}", "{{template \"x\"}}", "{{index . \"dir\"}}", "{{if startf}}a{{end}}"} {
		_, _ = s.Format(tpl)
		_, _ = s.Format(tpl) // a second call with the same text on the same object (caches)
	}
	_, _ = s.Format("{{dir")
	_, _ = s.Format("{{dir")
	for _, fr := range []interface{}{1, -1, in, []byte(in), strer(in), 1.5, nil, "0007"} {
		_, _ = s.Frame(fr)
	}
	for _, i := range []int{-1, 0, 1, s.Len() - 1, s.Len()} {
		_ = s.Index(i)
	}
	if fs := s.FrameSet(); fs != nil {
		_, _ = fs.Frame(0)
		_, _ = fs.Frame(-1)
		_ = fs.Index(0)
		_ = fs.HasFrame(0)
		_ = fs.FrameRangePadded(3)
		_ = fs.InvertedFrameRange(3)
		if fs.Len() <= 5000 {
			_ = fs.Frames()
			_ = fs.Normalize().String()
			_ = fs.Invert().String()
		}
	}
	for _, p := range s.Split() {
		if p != nil {
			_ = p.String()
			_ = p.Index(0)
		}
	}
	c := s.Copy()
	if c != nil {
		c.SetDirname(in)
		c.SetBasename(in)
		c.SetExt(in)
		c.SetPadding(in)
		_ = c.SetFrameRange(in)
		c.SetPaddingStyle(fileseq.PadStyleHash1)
		c.SetPaddingStyle(fileseq.PadStyleHash4)
		_ = c.String()
		_ = c.Index(0)
		c.SetFrameSet(nil)
		_ = c.String()
		_ = c.Index(0)
		_ = c.Copy()
		_ = c.Split()
	}
}

func opFuzz(f []string) string {
	in := unhx(f[1])
	var o Obs
	fs, err := fileseq.NewFrameSet(in)
	o.Add("fsok", showBool(err == nil))
	isfr := fileseq.IsFrameRange(in)
	o.Add("isfr", showBool(isfr))
	o.Add("agree", showBool((err == nil) == isfr))
	if err == nil && fs.Len() <= 5000 {
		_ = fs.Frames()
		_ = fs.Normalize()
		_ = fs.Invert()
		_ = fs.InvertedFrameRange(4)
	}
	for _, st := range []fileseq.PadStyle{fileseq.PadStyleHash4, fileseq.PadStyleHash1} {
		key := "seq4"
		if st == fileseq.PadStyleHash1 {
			key = "seq1"
		}
		s, err := fileseq.NewFileSequencePad(in, st)
		if err != nil {
			o.Add(key, "err")
			continue
		}
		o.Add(key, hx(s.String()))
		exercise(s, in)
	}
	o.Add("padr", hx(fileseq.PadFrameRange(in, 4)))
	_ = fileseq.PaddingChars(len(in))
	seqs, err := fileseq.FindSequencesInList([]string{in}, fileseq.SingleFiles, fileseq.HiddenFiles)
	if err != nil {
		o.Add("list", "err")
	} else {
		o.Add("list", hexList(seqLines(seqs, nil)))
		for _, s := range seqs {
			exercise(s, in)
		}
	}
	// a second call on several variants of the input
	_, _ = fileseq.FindSequencesInList([]string{in, in + "1", "1" + in, in + ".1.exr", strings.ToUpper(in)})
	var nums []int
	for i := 0; i < len(in) && i < 12; i++ {
		nums = append(nums, int(in[i])-64)
	}
	_ = fileseq.FramesToFrameRange(nums, true, 3)
	_ = fileseq.FramesToFrameRange(nums, false, 0)
	return o.String()
}

func genFuzz(r *Rand, n int, thorough bool, emit func(string)) {
	corpus := []string{"", "1-10", "1-10x2,20-30y3,5:2", "/a/b/foo.1-10#.exr", "foo.%04d.exr", "x.$F4.jpg", "u.<UDIM>.tif",
		"u.%(UDIM)d.tif", "{{dir}}{{base}}", "a\nb.1.exr", "\xff\xfe.1#.\x80", "#", "@@@", "-", ",", ".", "..", "/", "//", "a.", ".a",
		"1", "-1", "-0", "1-", "-1--2", "1--", "1,,2", "1-2-3", "x", "1x", "1-2x", "1-2x0", "%d", "%", "$F", "$", "<UDIM", "%(UDIM)",
		"foo.1.2.3.exr", "foo1", "foo-1.exr", "foo.-1.exr", "foo.0001-0010#.exr", "a b.1 - 5 #.exr", "%04d", "name.%d%d.ext",
		"1-10,5-5x0", "7,7-7x0", "-5-5,-3--3:0", "--5.exr", "--5", "--", "---1.x", "/d/--12", "+5", "+0010", "+0", "+1-10", "1-+5", "1-5x+2", "/a/f.+5#.exr", "🎬.1-3#.exr", "a/b/../c.1@.x", "\x00.1#", "{{.}}", "{{", "}}"}
	for _, c := range corpus {
		emit("fuzz " + hx(c))
	}
	alphabet := "0123456789-+,xy:#@%d$F<UDIM>().{}/ \n\tab\xff\x80é"
	for i := 0; i < n; i++ {
		var s string
		switch r.Intn(5) {
		case 0: // random bytes from the structural alphabet
			k := r.Range(0, 24)
			b := make([]byte, k)
			for j := range b {
				b[j] = alphabet[r.Intn(len(alphabet))]
			}
			s = string(b)
		case 1: // mutated sequence string
			s = mutate(r, r.Pick(dirs)+r.Pick(bases)+genRangeText(r)+r.Pick(padToks)+r.Pick(exts))
			if r.Bool() {
				s = mutate(r, s)
			}
		case 2: // mutated range
			s = mutate(r, genRangeText(r))
		case 3: // splice two corpus entries
			a, b := r.Pick(corpus), r.Pick(corpus)
			s = a[:r.Intn(len(a)+1)] + b[r.Intn(len(b)+1):]
		default:
			s = mutate(r, r.Pick(corpus))
		}
		// '\\' is treated as a Windows separator on every OS and is not modelled (DESIGN §4)
		s = strings.Replace(s, "\\", "_", -1)
		if len(s) > 300 || !tame(s) {
			continue
		}
		emit("fuzz " + hx(s))
	}
}
