package main

import (
	"fmt"
	"path/filepath"
	"sort"
	"strconv"
	"strings"

	fileseq "github.com/justinfx/gofileseq/v2"
)

func parsePaths(s string) []string {
	if s == "~" {
		return nil
	}
	toks := strings.Split(s, ",")
	out := make([]string, len(toks))
	for i, t := range toks {
		out[i] = unhx(t)
	}
	return out
}

func listOpts(mask int, style string, single bool) []fileseq.FileOption {
	var o []fileseq.FileOption
	if single {
		o = append(o, fileseq.SingleFiles)
	}
	if (mask/2)%2 == 1 {
		o = append(o, fileseq.HiddenFiles)
	}
	if style == "1" {
		o = append(o, fileseq.FileOptPadStyleHash1)
	} else {
		o = append(o, fileseq.FileOptPadStyleHash4)
	}
	return o
}

func seqLine(s *fileseq.FileSequence) string {
	return s.String() + "|" + strconv.Itoa(s.ZFill()) + "|" + strconv.Itoa(s.Len())
}

func seqLines(seqs fileseq.FileSequences, filter func(*fileseq.FileSequence) bool) []string {
	var out []string
	for _, s := range seqs {
		if filter == nil || filter(s) {
			out = append(out, seqLine(s))
		}
	}
	sort.Strings(out)
	return out
}

func isNumbered(s *fileseq.FileSequence) bool {
	return s.FrameSet() != nil && !(s.Basename() == "" && s.Ext() == "")
}

func expandSeqs(seqs fileseq.FileSequences) ([]string, bool) {
	total := 0
	for _, s := range seqs {
		total += s.Len()
	}
	if total > 3000 {
		return nil, false
	}
	var out []string
	for _, s := range seqs {
		out = append(out, paths(s)...)
	}
	sort.Strings(out)
	return out, true
}

// crowded mirrors Gfs.Ops.crowded
func crowded(ps []string) bool {
	cnt := map[string]int{}
	for _, p := range ps {
		d, _ := filepath.Split(filepath.Clean(p))
		cnt[d]++
		if cnt[d] > 12 {
			return true
		}
	}
	return false
}

func listObs(o *Obs, seqs fileseq.FileSequences, hidden bool, isCrowded bool, again func(single bool, reverse bool) (fileseq.FileSequences, error)) {
	o.Add("err", "ok")
	lines := seqLines(seqs, nil)
	if isCrowded {
		o.Add("seqs", "skip")
	} else {
		o.Add("seqs", hexList(lines))
	}
	cover, small := expandSeqs(seqs)
	if small {
		o.Add("cover", hexList(cover))
	} else {
		o.Add("cover", "big")
	}
	ns, err1 := again(false, false)
	ws, err2 := again(true, false)
	nosingle := (err1 == nil) == (err2 == nil)
	if err1 == nil && err2 == nil {
		nosingle = eqStrings(seqLines(ns, nil), seqLines(ws, isNumbered))
	}
	o.Add("nosingle", showBool(nosingle))
	hiddenok := true
	if !hidden && small {
		for _, p := range cover {
			if strings.HasPrefix(filepath.Base(p), ".") && !strings.HasSuffix(p, "/") {
				hiddenok = false
			}
		}
	}
	o.Add("hiddenok", showBool(hiddenok))
	rev, err := again((func() bool { return false })(), true)
	_ = rev
	perm := false
	if err == nil {
		perm = eqStrings(seqLines(rev, nil), lines)
	}
	if isCrowded {
		o.Add("perm", "skip")
	} else {
		o.Add("perm", showBool(perm))
	}
}

func opList(f []string) string {
	mask := atoi(f[1])
	style := f[2]
	ps := parsePaths(f[3])
	single := mask%2 == 1
	hidden := (mask/2)%2 == 1
	var o Obs
	run := func(single bool, reverse bool) (fileseq.FileSequences, error) {
		in := append([]string(nil), ps...)
		if reverse {
			for a, b := 0, len(in)-1; a < b; a, b = a+1, b-1 {
				in[a], in[b] = in[b], in[a]
			}
		}
		return fileseq.FindSequencesInList(in, listOpts(mask, style, single)...)
	}
	seqs, err := run(single, false)
	if err != nil {
		o.Add("err", "err")
		return o.String()
	}
	listObs(&o, seqs, hidden, crowded(ps), func(s bool, reverse bool) (fileseq.FileSequences, error) {
		if reverse {
			return run(single, true)
		}
		return run(s, false)
	})
	return o.String()
}

// ---- generator ----

var listDirs = []string{"", "/", "/a/b/", "rel/", "./", "/proj/sh010.comp/", "/v1.2/", "/a b/", "../up/", "/a#/", "/p@@/", "/1/", "/x.1/", "/d%04d/", "/q/../r/", "//dbl//"}
var listBases = []string{"foo.", "foo_", "foo", "", "a.b.", "shot1-", "v2_", "img.v", "beauty_left.", "a1b", "x-", "name_15-14-", ".hid.", ".h", "take2"}
var listExts = []string{".exr", "", ".tar.gz", ".1x", ".jpg", ".a1", ".exr.tmp", ".v2.tif", ".7z"}

func genList(r *Rand, n int, thorough bool, emit func(string)) {
	emitList := func(paths []string, mask int, style string) {
		toks := make([]string, len(paths))
		for i, p := range paths {
			toks[i] = hx(p)
		}
		ps := "~"
		if len(toks) > 0 {
			ps = strings.Join(toks, ",")
		}
		emit(fmt.Sprintf("list %d %s %s", mask, style, ps))
	}
	if thorough {
		// all subsets of a 9-name universe for two key shapes (mixed widths, signs)
		universes := [][]string{
			{"f.1.e", "f.2.e", "f.03.e", "f.10.e", "f.010.e", "f.100.e", "f.-1.e", "f.-01.e", "f.e"},
			{"/d/a1.x", "/d/a2.x", "/d/a10.x", "/d/a01.x", "/d/a001.x", "/d/a.x", "/d/b1.x", "/d/1", "/d/.a3.x"},
		}
		for _, u := range universes {
			for mask := 0; mask < 1<<uint(len(u)); mask++ {
				var ps []string
				for b := range u {
					if mask&(1<<uint(b)) != 0 {
						ps = append(ps, u[b])
					}
				}
				emitList(ps, 1+2*(mask%2), []string{"1", "4"}[mask%2])
			}
		}
	}
	emitList(nil, 1, "4")
	for i := 0; i < n; i++ {
		nkeys := r.Range(1, 4)
		seen := map[string]bool{}
		var ps []string
		for k := 0; k < nkeys; k++ {
			d, b, e := r.Pick(listDirs), r.Pick(listBases), r.Pick(listExts)
			cnt := r.Range(1, 8)
			uniform := r.Chance(1, 2)
			w := r.Range(1, 6)
			crowd := r.Chance(1, 12)
			if crowd {
				// more than 12 files under one key, widths 1-4 mixed, zero-filled and plain numerals
				// of the same width side by side (sort.Slice is not stable beyond 12 elements)
				cnt = r.Range(13, 24)
				uniform = false
			}
			for j := 0; j < cnt; j++ {
				var name string
				switch r.Intn(12) {
				case 0:
					name = b + e // frameless
				case 1:
					name = r.Pick([]string{"123", "-0", "foo.-0.exr", "a\nb.1.exr", ".hidden", ".h.1.exr", "readme", "x.#.exr", "1-5", "2x", "a.1.b.2.c",
						"--5.exr", "--5", "-", "--", "0012", "shot1-001.exr", "a-0007"})
				default:
					v := r.Range(0, 1200)
					if crowd {
						v = r.Range(0, 130) * r.PickInt([]int{1, 1, 1, 10})
					}
					if r.Chance(1, 6) {
						v = -v
					}
					num := strconv.Itoa(v)
					ww := w
					if !uniform {
						ww = r.Range(1, 6)
					}
					if crowd {
						ww = r.Range(1, 4)
					}
					if r.Chance(2, 3) {
						neg := strings.HasPrefix(num, "-")
						digits := strings.TrimPrefix(num, "-")
						for len(digits)+map[bool]int{true: 1, false: 0}[neg] < ww {
							digits = "0" + digits
						}
						if neg {
							num = "-" + digits
						} else {
							num = digits
						}
					}
					name = b + num + e
				}
				p := d + name
				c := filepath.Clean(p)
				if !seen[c] {
					seen[c] = true
					ps = append(ps, p)
				}
			}
		}
		if r.Chance(1, 10) {
			// two (basename, extension) splits whose concatenation is the same text
			d := r.Pick(listDirs)
			b0, mid, e0 := r.Pick([]string{"img", "cache", "plate-"}), r.Pick([]string{".left", ".sim", ".tar"}), r.Pick([]string{".exr", ".bgeo", ".gz"})
			for j := r.Range(1, 3); j > 0; j-- {
				n1 := fmt.Sprintf("%s%02d%s%s", b0, r.Range(1, 30), mid, e0)
				n2 := fmt.Sprintf("%s%s%02d%s", b0, mid, r.Range(31, 60), e0)
				for _, nm := range []string{n1, n2} {
					if c := filepath.Clean(d + nm); !seen[c] {
						seen[c] = true
						ps = append(ps, d+nm)
					}
				}
			}
		}
		if r.Chance(1, 10) {
			// keys whose directory and basename only differ in where the separator (or a dot)
			// stands: D/<frame><ext> next to D<frame><ext>, and .<frame><ext> next to <frame><ext>
			D := r.Pick([]string{"beauty", "/shots/plates", "x/y", "a"})
			e0 := r.Pick([]string{".exr", ".jpg", ""})
			w := r.Range(1, 4)
			for j := r.Range(1, 3); j > 0; j-- {
				v := r.Range(1, 99)
				for _, nm := range []string{
					fmt.Sprintf("%s/%0*d%s", D, w, v, e0), fmt.Sprintf("%s%0*d%s", D, w, v+100, e0),
					fmt.Sprintf("%s/.%0*d%s", D, w, v+200, e0)} {
					if c := filepath.Clean(nm); !seen[c] && r.Chance(3, 4) {
						seen[c] = true
						ps = append(ps, nm)
					}
				}
			}
		}
		// shuffle
		for a := len(ps) - 1; a > 0; a-- {
			b := r.Intn(a + 1)
			ps[a], ps[b] = ps[b], ps[a]
		}
		emitList(ps, r.Intn(4), r.Pick([]string{"1", "4"}))
	}
}
