package main

import (
	"fmt"
	"runtime"
	"strconv"
	"strings"
	"time"

	fileseq "github.com/justinfx/gofileseq/v2"
)

// opHuge: one plain or stepped range answered arithmetically; `cheap` is 1 when the whole
// op allocated little memory and finished quickly (a re-introduced enumeration of 10^9..10^12
// frames cannot).
func opHuge(f []string) string {
	a, b, n := atoi(f[1]), atoi(f[2]), atoi(f[3])
	qi, qv := ints(f[4]), ints(f[5])
	txt := strconv.Itoa(a) + "-" + strconv.Itoa(b)
	if n != 0 {
		txt += "x" + strconv.Itoa(n)
	}
	// the pad token varies with the operands: width 4, 12 or 15 (mirrors GfsModel.OpsHuge)
	abs := func(v int) int {
		if v < 0 {
			return -v
		}
		return v
	}
	sq := "/d/f." + txt + []string{"#", "###", "%015d"}[(abs(a)+abs(b))%3] + ".exr"
	var ms0, ms1 runtime.MemStats
	runtime.GC()
	runtime.ReadMemStats(&ms0)
	t0 := time.Now()

	var o Obs
	fs, err := fileseq.NewFrameSet(txt)
	s, err2 := fileseq.NewFileSequence(sq)
	if err != nil || err2 != nil {
		o.Add("err", "err")
		return o.String()
	}
	o.Add("err", "ok")
	o.Add("len", strconv.Itoa(fs.Len()))
	o.Add("start", strconv.Itoa(fs.Start()))
	o.Add("fin", strconv.Itoa(fs.End()))
	addQueries(&o, frameSetView{fs}, qi, qv)
	o.Add("str", hx(s.String()))
	o.Add("slen", strconv.Itoa(s.Len()))
	ix := make([]string, len(qi))
	for i, q := range qi {
		ix[i] = s.Index(q)
	}
	o.Add("ix", hexList(ix))
	_ = fs.FrameRange()
	_ = s.FrameRangePadded()

	el := time.Since(t0)
	runtime.ReadMemStats(&ms1)
	bytes := ms1.TotalAlloc - ms0.TotalAlloc
	cheap := bytes < 256*1024 && el < 2*time.Second
	if !cheap {
		o.Add("cheap", fmt.Sprintf("0(bytes:%d,ms:%d)", bytes, el.Milliseconds()))
	} else {
		o.Add("cheap", "1")
	}
	return o.String()
}

func genHuge(r *Rand, n int, thorough bool, emit func(string)) {
	mags := []int{1000, 1000000, 1000000000, 1000000000000, 10000000000000}
	for i := 0; i < n; i++ {
		m := r.PickInt(mags)
		a := r.Range(-m, m)
		b := r.Range(-m, m)
		if r.Chance(1, 6) {
			b = a + r.Range(-3, 3)
		}
		step := 0
		if r.Chance(2, 3) {
			step = r.PickInt([]int{1, 2, 3, 7, 10, 999, 1000000, r.Range(1, 1000000)})
			if r.Chance(1, 5) {
				step = -step
			}
		}
		if step != 0 && r.Chance(1, 8) {
			// the step is exactly the span (two frames), one more, or one less; either direction
			k := step
			if k < 0 {
				k = -k
			}
			b = a + r.PickInt([]int{-1, 1})*(k+r.PickInt([]int{0, 0, 1, -1}))
		}
		mm := step
		if mm < 0 {
			mm = -mm
		}
		if mm == 0 {
			mm = 1
		}
		span := b - a
		if span < 0 {
			span = -span
		}
		ln := span/mm + 1
		dir := 1
		if a > b {
			dir = -1
		}
		last := a + dir*mm*(ln-1)
		qi := []int{-2, -1, 0, 1, 2, ln - 3, ln - 2, ln - 1, ln, ln + 1, ln + 2}
		var qv []int
		for k := 0; k < 6; k++ {
			i := r.Intn(ln)
			qi = append(qi, i)
			v := a + dir*mm*i
			qv = append(qv, v, v+1, v-1)
		}
		qv = append(qv, a, a-dir, a+dir, b, b+dir, b-dir, last, last+dir*mm, last-dir*mm, a-dir*mm)
		emit(fmt.Sprintf("huge %d %d %d %s %s", a, b, step, showInts(qi), showInts(qv)))
	}
}

// the inverse of one xorshift64 step (x ^= x<<13; x ^= x>>7; x ^= x<<17)
func unxor64(x uint64) uint64 {
	unl := func(x uint64, a uint) uint64 {
		y := x
		for s := a; s < 64; s += a {
			y ^= x << s
		}
		return y
	}
	unr := func(x uint64, a uint) uint64 {
		y := x
		for s := a; s < 64; s += a {
			y ^= x >> s
		}
		return y
	}
	return unl(unr(unl(x, 17), 7), 13)
}

func genHandles(r *Rand, n int, thorough bool, emit func(string)) {
	// generator states from which a small or extreme state is reached within a few creations
	for _, v := range []uint64{1, 2, 3, 4, 5, 7, 8, 255, 1 << 32, 1 << 63, 1<<63 + 1, 1<<64 - 1, 1<<64 - 2} {
		st := v
		for back := 0; back <= 5; back++ {
			emit(fmt.Sprintf("hseed %s %d %d", []string{"f", "s"}[back%2], st, 8))
			st = unxor64(st)
		}
	}
	emit("hseed f 0 4")
	for i := 0; i < n; i++ {
		sel := r.Pick([]string{"f", "s"})
		if r.Chance(1, 10) {
			emit(fmt.Sprintf("hseed %s %d %d", sel, uint64(r.Range(1, 1<<30))*uint64(r.Range(1, 1<<30)), r.Range(1, 12)))
			continue
		}
		if r.Chance(1, 12) {
			emit(fmt.Sprintf("hstress %s %d %d %d %d", sel, r.Range(2, 8), r.Range(1, 8), r.Range(50, 3000), r.Range(1, 1<<30)))
			continue
		}
		if r.Chance(1, 6) {
			emit(genHSched(r, thorough))
			continue
		}
		k := r.Range(1, 24)
		toks := make([]string, 0, k)
		created := 0
		for j := 0; j < k; j++ {
			switch r.Intn(8) {
			case 0, 1:
				if created < 8 {
					toks = append(toks, "A")
					created++
					continue
				}
				fallthrough
			case 2:
				toks = append(toks, "L")
			case 3:
				toks = append(toks, r.Pick([]string{"GX", "IX", "DX"}))
			default:
				if created == 0 {
					toks = append(toks, "G0")
					continue
				}
				toks = append(toks, r.Pick([]string{"I", "D", "D", "G"})+strconv.Itoa(r.Intn(created)))
			}
		}
		emit("handles " + sel + " " + joinSp(toks))
	}
}

// genHSched: a scenario for the deterministic scheduler — 2-4 threads, 1-2 shared handles,
// scripts of 0-5 owner operations (an empty script = only the final release), on one table or
// (sel b) alternating over both tables
func genHSched(r *Rand, thorough bool) string {
	threads := r.Range(2, 4)
	nh := r.Range(1, 2)
	var scripts []string
	for g := 0; g < threads; g++ {
		k := r.Range(0, 5)
		var ops []string
		for j := 0; j < k; j++ {
			switch r.Intn(6) {
			case 0:
				ops = append(ops, "A")
			case 1:
				ops = append(ops, "L")
			default:
				ops = append(ops, r.Pick([]string{"I", "D", "D", "G"})+strconv.Itoa(r.Intn(nh)))
			}
		}
		if len(ops) == 0 {
			ops = []string{""}
		}
		scripts = append(scripts, strings.Join(ops, "."))
	}
	ns := 150
	if thorough {
		ns = 1500
	}
	return fmt.Sprintf("hsched %s %d %d %s %d %d", r.Pick([]string{"f", "s", "b", "b"}), threads, nh, strings.Join(scripts, "/"), ns, r.Range(1, 1<<30))
}

func joinSp(ss []string) string {
	out := ""
	for i, s := range ss {
		if i > 0 {
			out += " "
		}
		out += s
	}
	return out
}

func genRace(r *Rand, n int, thorough bool, emit func(string)) {
	for i := 0; i < n; i++ {
		emit(fmt.Sprintf("race %d %d %d", r.Range(1, 1<<30), r.PickInt([]int{2, 4, 8, 16}), r.Range(5, 60)))
	}
}
