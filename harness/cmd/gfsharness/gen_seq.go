package main

import (
	"math"
	"fmt"
	"strconv"
	"strings"

	fileseq "github.com/justinfx/gofileseq/v2"
)

// ---- C10: pad characters and widths ----

func genC10(r *Rand, n int, thorough bool, emit func(string)) {
	maxW := 64
	maxL := 6
	if thorough {
		maxW = 4096
		maxL = 12
	}
	for w := -1; w <= maxW; w++ {
		emit(fmt.Sprintf("pad.chars 4 %d", w))
		emit(fmt.Sprintf("pad.chars 1 %d", w))
	}
	// every string over {#,@} up to length maxL
	var rec func(prefix []byte)
	rec = func(prefix []byte) {
		if len(prefix) > 0 {
			emit("pad.size 4 " + hx(string(prefix)))
			emit("pad.size 1 " + hx(string(prefix)))
		}
		if len(prefix) == maxL {
			return
		}
		rec(append(prefix, '#'))
		rec(append(prefix[:len(prefix):len(prefix)], '@'))
	}
	rec(nil)
	tokens := []string{"%d", "%0d", "%1d", "%01d", "%04d", "%4d", "%010d", "%12d", "%00d", "%007d", "$F", "$F0", "$F1", "$F4",
		"$F04", "$F12", "$F00", "<UDIM>", "%(UDIM)d", "", "abc", "%x", "#a", "%d#", "<UDIM>x", "x%(UDIM)d", "$f4", "%-4d",
		"%99999999999999999999d", "$F99999999999999999999", "\xff#", "é", "%4dd", "%%4d"}
	for _, t := range tokens {
		emit("pad.size 4 " + hx(t))
		emit("pad.size 1 " + hx(t))
	}
	for i := 0; i < n; i++ {
		switch r.Intn(5) {
		case 0:
			emit(fmt.Sprintf("pad.chars %s %d", r.Pick([]string{"1", "4"}), r.Range(1, 4096)))
		case 1:
			k := r.Range(1, 12)
			b := make([]byte, k)
			for j := range b {
				b[j] = "#@"[r.Intn(2)]
			}
			emit("pad.size " + r.Pick([]string{"1", "4"}) + " " + hx(string(b)))
		case 2:
			w := r.Range(0, 5000)
			form := r.Pick([]string{"%%0%dd", "%%%dd", "$F%d", "$F0%d"})
			emit("pad.size " + r.Pick([]string{"1", "4"}) + " " + hx(fmt.Sprintf(form, w)))
		default:
			// style switch histories: a sequence with padding, switched back and forth
			emit(genSeqOps(r, true))
		}
	}
}

// ---- C09: FramesToFrameRange ----

func distinctList(r *Rand, maxLen, scale int) []int {
	k := r.Range(0, maxLen)
	seen := map[int]bool{}
	var out []int
	for len(out) < k {
		switch r.Intn(3) {
		case 0: // planted run
			start := r.Range(-scale, scale)
			stride := r.Range(-6, 6)
			if stride == 0 {
				stride = 1
			}
			ln := r.Range(2, 7)
			for j := 0; j < ln && len(out) < k; j++ {
				v := start + j*stride
				if !seen[v] {
					seen[v] = true
					out = append(out, v)
				}
			}
		default:
			v := r.Range(-scale, scale)
			if !seen[v] {
				seen[v] = true
				out = append(out, v)
			}
		}
	}
	return out
}

func genC09(r *Rand, n int, thorough bool, emit func(string)) {
	if thorough {
		// all duplicate-free lists of length <= 5 over [-3..6]
		vals := []int{-3, -2, -1, 0, 1, 2, 3, 4, 5, 6}
		var rec func(cur []int, used uint)
		rec = func(cur []int, used uint) {
			emit(fmt.Sprintf("f2r %s 0 0", showInts(cur)))
			if len(cur) >= 3 {
				emit(fmt.Sprintf("f2r %s 1 %d", showInts(cur), len(cur)%4))
			}
			if len(cur) == 5 {
				return
			}
			for i, v := range vals {
				if used&(1<<uint(i)) == 0 {
					rec(append(cur[:len(cur):len(cur)], v), used|1<<uint(i))
				}
			}
		}
		rec(nil, 0)
	}
	emit("f2r - 0 0")
	emit("f2r - 1 4")
	for i := 0; i < n; i++ {
		scale := 12
		if r.Chance(1, 4) {
			scale = 2000
		}
		l := distinctList(r, 14, scale)
		z := r.Range(0, 6)
		if r.Chance(1, 10) {
			z = r.Range(7, 24)
		}
		emit(fmt.Sprintf("f2r %s %d %d", showInts(l), r.Intn(2), z))
		if i%25 == 3 {
			// a stepped run of 18-120 frames (step 2-9) with ONE frame moved off the line by less
			// than the step (still ascending, still duplicate-free), to be sorted by the library
			st := r.Range(2, 9)
			ln := r.Range(18, 120)
			a := r.Range(-50, 50)
			run := make([]int, ln)
			for j := range run {
				run[j] = a + j*st
			}
			k := r.Range(1, ln-2)
			run[k] += r.Range(1, st-1)
			if r.Bool() {
				// present it unsorted
				x, y := r.Intn(ln), r.Intn(ln)
				run[x], run[y] = run[y], run[x]
			}
			emit(fmt.Sprintf("f2r %s 1 %d", showInts(run), r.Range(0, 4)))
		}
		if i%25 == 17 {
			// a contiguous range presented with its two largest first and its two smallest last
			// (descending at both ends, hi-lo = count-1) and the middle in any order
			lo := r.Range(-20, 50)
			cnt := r.Range(6, 40)
			mid := make([]int, 0, cnt)
			for v := lo + 2; v <= lo+cnt-3; v++ {
				mid = append(mid, v)
			}
			switch r.Intn(3) {
			case 0: // ascending middle
			case 1: // shuffled middle
				for x := len(mid) - 1; x > 0; x-- {
					y := r.Intn(x + 1)
					mid[x], mid[y] = mid[y], mid[x]
				}
			default: // one swap
				if len(mid) > 2 {
					mid[0], mid[len(mid)-1] = mid[len(mid)-1], mid[0]
				}
			}
			l := append([]int{lo + cnt - 1, lo + cnt - 2}, mid...)
			l = append(l, lo+1, lo)
			emit(fmt.Sprintf("f2r %s 1 %d", showInts(l), r.Range(0, 3)))
		}
		if i%50 == 33 {
			// lists longer than any fixed-size scratch buffer (257-1500 frames), sorted or not
			ln := r.Range(257, 1500)
			a := r.Range(-100, 100)
			st := r.PickInt([]int{1, 1, 2, 3, -1})
			long := make([]int, ln)
			for j := range long {
				long[j] = a + j*st
			}
			// a few gaps and a shuffle of a window
			for g := r.Range(0, 4); g > 0; g-- {
				x := r.Range(1, ln-1)
				long[x] += 100000 + x
			}
			if r.Bool() {
				x := r.Range(0, ln-10)
				long[x], long[x+7] = long[x+7], long[x]
			}
			emit(fmt.Sprintf("f2r %s %d %d", showInts(long), r.Intn(2), r.Range(0, 5)))
		}
		if i%25 == 11 {
			// a contiguous run of 17-60 frames (either direction) with two interior frames swapped or
			// another run spliced into the middle: every 16th frame is where a sorted run would have it
			a := r.Range(-50, 50)
			ln := r.Range(17, 60)
			d := 1
			if r.Bool() {
				d = -1
			}
			run := make([]int, ln)
			for j := range run {
				run[j] = a + d*j
			}
			switch r.Intn(3) {
			case 0:
				x, y := r.Range(1, ln-2), r.Range(1, ln-2)
				run[x], run[y] = run[y], run[x]
			case 1:
				x := r.Range(1, 15)
				run[x], run[x+1] = run[x+1], run[x]
			default:
				at := r.Range(2, ln-2)
				ins := []int{1000, 1002, 1004}
				run = append(run[:at:at], append(ins, run[at:]...)...)
			}
			emit(fmt.Sprintf("f2r %s 0 %d", showInts(run), r.Range(0, 4)))
		}
	}
}

// ---- C11: PadFrameRange ----

func genC11(r *Rand, n int, thorough bool, emit func(string)) {
	fixed := []string{"1,foo,3", "1-5#", "", ",", "1,,2", "-1--5x2", "001-010y03", " 1 - 5 ", "1-5x", "a", "1-10:3,@", "-0", "-00-5"}
	for _, t := range fixed {
		for w := -1; w <= 8; w++ {
			emit(fmt.Sprintf("padrange %s %d", hx(t), w))
		}
	}
	for i := 0; i < n; i++ {
		k := r.Range(1, 5)
		parts := make([]string, k)
		for j := range parts {
			c := genComp(r, 120, true)
			parts[j] = c.text(r)
			if r.Chance(1, 8) {
				parts[j] = r.Pick([]string{"foo", "", "1-", "x2", " 3", "4 ", "#", "1-2-3", "1x2", "２０", "１-１０", "٣", "1-٣", "５x2"})
			}
		}
		txt := strings.Join(parts, ",")
		if r.Chance(1, 6) {
			txt = sprinkle(r, txt)
		}
		if r.Chance(1, 10) {
			txt = mutate(r, txt)
		}
		if !tame(txt) {
			continue
		}
		w := r.Range(-1, 8)
		if r.Chance(1, 8) {
			w = r.Range(9, 24)
			if r.Chance(1, 4) {
				w = r.Range(25, 70)
			}
		}
		emit(fmt.Sprintf("padrange %s %d", hx(txt), w))
		if i%60 == 13 {
			// numerals at the ends of the integer range, as single frames and as range ends
			ext := r.Pick([]string{"-9223372036854775808", "9223372036854775807", "-9223372036854775807"})
			// (spans stay small: the observation compares the frame lists)
			t := r.Pick([]string{ext, ext + ",7", "1-5," + ext, ext + "-" + ext + "x2",
				"-9223372036854775808--9223372036854775806", "9223372036854775805-9223372036854775807x2"})
			emit(fmt.Sprintf("padrange %s %d", hx(t), r.PickInt([]int{2, 3, 19, 20, 21, 24})))
		}
		if i%40 == 7 {
			// many components (13-40), every count in turn
			cnt := 13 + (i/40)%28
			many := make([]string, cnt)
			for j := range many {
				many[j] = genComp(r, 60, false).text(r)
			}
			emit(fmt.Sprintf("padrange %s %d", hx(strings.Join(many, ",")), r.Range(2, 6)))
		}
		if i%40 == 31 {
			// a long list (9-20 components) with empty components, straight after a long valid one
			cnt := r.Range(9, 20)
			full := make([]string, cnt)
			holes := make([]string, cnt)
			for j := range full {
				full[j] = strconv.Itoa(100 + j)
				holes[j] = genComp(r, 60, false).text(r)
				if r.Chance(1, 4) || j == cnt-1 && r.Bool() || j == 0 && r.Chance(1, 3) {
					holes[j] = ""
				}
			}
			ww := r.Range(2, 6)
			emit(fmt.Sprintf("padrange %s %d", hx(strings.Join(full, ",")), ww))
			emit(fmt.Sprintf("padrange %s %d", hx(strings.Join(holes, ",")), ww))
		}
		if i%40 == 23 {
			// two calls whose (text, width) pairs run into each other when written without a
			// separator: ("100", 12) and ("1001", 2)
			num := strconv.Itoa(r.Range(1, 999))
			w1 := r.Range(10, 24)
			ws := strconv.Itoa(w1)
			emit(fmt.Sprintf("padrange %s %d", hx(num), w1))
			emit(fmt.Sprintf("padrange %s %d", hx(num+ws[:1]), atoi(ws[1:])))
		}
	}
}

// ---- C08: Normalize / Invert ----

func genC08(r *Rand, n int, thorough bool, emit func(string)) {
	if thorough {
		// every non-empty subset of [0..11], ascending and descending presentation
		for mask := 1; mask < 1<<12; mask++ {
			var asc, desc []string
			for b := 0; b < 12; b++ {
				if mask&(1<<uint(b)) != 0 {
					asc = append(asc, strconv.Itoa(b-3))
				}
			}
			for i := len(asc) - 1; i >= 0; i-- {
				desc = append(desc, asc[i])
			}
			emit(fmt.Sprintf("fs.norm %s %d", hx(strings.Join(asc, ",")), mask%6))
			if mask%3 == 0 {
				emit(fmt.Sprintf("fs.norm %s %d", hx(strings.Join(desc, ",")), mask%5))
			}
		}
	}
	for i := 0; i < n; i++ {
		k := r.Range(1, 6)
		texts := make([]string, k)
		for j := range texts {
			texts[j] = genComp(r, 25, false).text(r)
		}
		txt := strings.Join(texts, ",")
		if r.Chance(1, 8) {
			txt = sprinkle(r, txt)
		}
		emit(fmt.Sprintf("fs.norm %s %d", hx(txt), r.Range(0, 6)))
		if i%200 == 57 {
			// hundreds of single-frame blocks (a fill component) whose max-min is a multiple of 64
			// (the fill skips its first value: start one below the wanted minimum, and keep the last
			// value off the skipped grid, so that max-min is the multiple of 64)
			a := r.Range(-100, 1100)
			span := 64 * r.Range(12, 40)
			nn := r.Range(3, 5)
			for (span+1)%nn == 0 {
				nn++
			}
			emit(fmt.Sprintf("fs.norm %s %d", hx(fmt.Sprintf("%d-%dy%d", a-1, a+span, nn)), r.Range(0, 4)))
		}
		if i%100 == 77 {
			// one stepped block over 4096-20000 values, either direction, alone or with neighbours
			a := r.Range(-50, 3000)
			span := r.Range(4096, 20000)
			st := r.Range(2, 9)
			t := fmt.Sprintf("%d-%dx%d", a, a+span, st)
			if r.Bool() {
				t = fmt.Sprintf("%d-%dx%d", a+span, a, st)
			}
			switch r.Intn(3) {
			case 1:
				t = fmt.Sprintf("%d-%d,%s", a+5, a+9, t)
			case 2:
				t = fmt.Sprintf("%s,%d-%dx%d", t, a+span+r.Range(1, 9), a+1, r.Range(2, 6))
			}
			emit(fmt.Sprintf("fs.norm %s %d", hx(t), r.Range(0, 5)))
		}
		if i%100 == 41 {
			// more than 64 blocks, with a stepped block whose frames have other blocks between them
			a := r.Range(-50, 3000)
			st := r.Range(5, 12)
			cnt := r.Range(65, 90)
			parts := []string{fmt.Sprintf("%d-%dx%d", a, a+cnt*st, st)}
			for j := 0; j < cnt; j++ {
				lo := a + j*st + 1 + r.Intn(2)
				parts = append(parts, fmt.Sprintf("%d-%d", lo, lo+r.Range(0, st-3)))
			}
			if r.Bool() {
				parts[0], parts[len(parts)-1] = parts[len(parts)-1], parts[0]
			}
			emit(fmt.Sprintf("fs.norm %s %d", hx(strings.Join(parts, ",")), r.Range(0, 4)))
			hi := r.Range(200, 400)
			n3 := r.Range(3, 5)
			emit(fmt.Sprintf("fs.norm %s %d", hx(fmt.Sprintf("1-%dx%d,1-%dy%d", hi, n3, hi, n3)), r.Range(0, 4)))
		}
		if i%50 == 31 {
			// strides and gaps beyond 1024 inside a block, with further blocks behind it
			a := r.Range(-20, 2000)
			st := r.Range(1025, 3000)
			k := r.Range(2, 4)
			t := fmt.Sprintf("%d-%dx%d,%d", a, a+k*st, st, a+k*st+r.Range(1, 2500))
			if r.Bool() {
				t = fmt.Sprintf("%d,%d,%d,%d", a, a+st, a+2*st+1, a+2*st+r.Range(2, 1500))
			}
			emit(fmt.Sprintf("fs.norm %s %d", hx(t), r.Range(0, 4)))
		}
	}
}

// ---- C03 / C04: sequence strings ----

var dirs = []string{"", "/", "/a/b/", "rel/", "./", "/proj/sh010.comp/", "/v1.2/", "/a b/", "/x_y-z/", "../up/", "/-/", "/1/",
	"/shots/010//", "//", "renders///", "/a//b/"}
var bases = []string{"foo.", "foo_", "foo", "", "a.b.", "shot_x", "shot_y", "take:", "list,", "name-", "v2_", "img.v", "é.", "beauty_left.", "a1b", "x",
	"Scene 3, ", "v2-, ", "take 7,  ", "C:\\renders\\beauty.", "a\\b_"}
var exts = []string{".exr", "", ".tar.gz", ".1x", ".jpg", ".a1", ".exr.tmp", ".v2.tif", ".", ".7z", ".e x", ".50%.jpg", ".a%b", ".tar%2Egz", ".bgeo/part.sc", ".d/x"}
var padToks = []string{"#", "@", "##", "@@@", "#@", "@#@", "####", "@@@@@@@", "%d", "%04d", "%02d", "%1d", "%010d", "%012d", "$F", "$F4", "$F2", "$F04",
	"$F12", "<UDIM>", "%(UDIM)d", "@@@@@@@@@@@@", "###"}

func genRangeText(r *Rand) string {
	if r.Chance(1, 8) {
		return ""
	}
	k := r.Range(1, 3)
	texts := make([]string, k)
	for j := range texts {
		texts[j] = genComp(r, 40, false).text(r)
	}
	return strings.Join(texts, ",")
}

func seqQueries(r *Rand, txt string, st fileseq.PadStyle) (qf, qi []int) {
	qf = []int{0, 1, -1, 7, -12, 123, 100000, -99999, r.Range(-2000, 2000)}
	if r.Chance(1, 6) {
		// the ends of the integer range (a sign that cannot be negated away)
		qf = append(qf, math.MinInt64, math.MaxInt64, math.MinInt64+1)
	}
	qi = []int{-1, 0, 1}
	if s, err := fileseq.NewFileSequencePad(txt, st); err == nil {
		ln := s.Len()
		qi = []int{-1, 0, ln - 1, ln}
		if ln <= 12 {
			for i := 1; i < ln-1; i++ {
				qi = append(qi, i)
			}
		} else {
			for k := 0; k < 4; k++ {
				qi = append(qi, r.Intn(ln))
			}
		}
	}
	return
}

func seqOp(r *Rand, style string, txt string, tuple []string) string {
	if !tame(txt) {
		// keep enumeration-based paths fast: fall back to a fixed tame string
		txt, tuple = "/d/b.1-3#.e", nil
	}
	qf, qi := seqQueries(r, txt, styleOf(style))
	op := fmt.Sprintf("seq %s %s %s %s", style, hx(txt), showInts(qf), showInts(qi))
	if len(tuple) == 1 {
		op += " " + tuple[0]
	} else if tuple != nil {
		for _, t := range tuple {
			op += " " + hx(t)
		}
	}
	return op
}

func genSeqStrings(r *Rand, n int, thorough bool, c04 bool, emit func(string)) {
	if thorough {
		// every string of length <= 4 over a 13-symbol alphabet (pins the regex character classes)
		alpha := "a1-x,#@%d$F.\n"
		var rec func(prefix []byte, depth int)
		rec = func(prefix []byte, depth int) {
			if len(prefix) > 0 {
				emit(fmt.Sprintf("seq 4 %s 1,-1 -1,0,1", hx(string(prefix))))
			}
			if depth == 4 {
				return
			}
			for i := 0; i < len(alpha); i++ {
				rec(append(prefix[:len(prefix):len(prefix)], alpha[i]), depth+1)
			}
		}
		rec(nil, 0)
		// every pad token x style x a few widths
		for _, p := range padToks {
			for _, st := range []string{"1", "4"} {
				emit(seqOp(r, st, "/d/b."+"1-3"+p+".e", []string{"/d/", "b.", "1-3", p, ".e"}))
			}
		}
	}
	for i := 0; i < n; i++ {
		style := r.Pick([]string{"1", "4"})
		d, b, rg, p, e := r.Pick(dirs), r.Pick(bases), genRangeText(r), r.Pick(padToks), r.Pick(exts)
		if r.Chance(1, 3) {
			// random basename from a wider alphabet
			k := r.Range(0, 6)
			bb := make([]byte, k)
			for j := range bb {
				bb[j] = "abz_.-x1:y,09 "[r.Intn(14)]
			}
			b = string(bb)
		}
		switch r.Intn(10) {
		case 0: // violate one hypothesis at a time (model and code must still agree)
			switch r.Intn(6) {
			case 0:
				b += r.Pick([]string{"1", "-", "12x", "3,", "#", "@", "%d", "$F", "\n", "<UDIM>"})
			case 1:
				d = r.Pick([]string{"/a#/", "/a@b/", "/a%04d/", "/a\n/", "noslash"})
			case 2:
				e = r.Pick([]string{"exr", "\n.exr", ".ex\nr", "#.exr", "1.exr"})
			case 3:
				rg = r.Pick([]string{"1-", "x2", "1--", "1-5x0", "99999999999999999999", "1,,2", ":3", "-"})
			case 4:
				p = r.Pick([]string{"%", "$", "<UDIM", "%(UDIM)", "%xd", "d"})
			default:
				rg = sprinkle(r, rg)
			}
			emit(seqOp(r, style, d+b+rg+p+e, []string{d, b, rg, p, e}))
		case 1: // concrete single-file paths: base+digits+ext with any zero padding and sign
			num := strconv.Itoa(r.Range(0, 99999))
			if r.Chance(1, 3) {
				num = strings.Repeat("0", r.Range(1, 4)) + num
			}
			if r.Chance(1, 4) {
				num = "-" + num
			}
			if r.Chance(1, 12) {
				num = r.Pick([]string{"-0", "-00", "0", "000", "99999999999999999999"})
			}
			path := d + b + num + e
			if r.Chance(1, 6) {
				path = d + b + e // no frame at all
			}
			if r.Chance(1, 14) {
				// an extension-less file below a directory whose name ends in a dotted number
				// (the extension pattern may run across the separator), digit runs beyond int64
				path = r.Pick([]string{"/usr/lib/python3.11/COPYING", "/home/u/site-1.2/LICENSE", "proj.v0012.bak/Makefile",
					"rel/v2.7/x", "/a/img_20240131123456789012.jpg", "scan.99999999999999999999.exr", "/d/f.9223372036854775808.e",
					"/d/f.9223372036854775807.e", "/d/take.-9223372036854775809"})
			}
			if c04 {
				emit(seqOp(r, style, path, []string{"single"}))
			} else {
				emit(seqOp(r, style, path, nil))
			}
		case 2: // mutated
			emit(seqOp(r, style, mutate(r, d+b+rg+p+e), nil))
		default:
			emit(seqOp(r, style, d+b+rg+p+e, []string{d, b, rg, p, e}))
		}
	}
}

// ---- C12 / C10: setter histories ----

func genSeqOps(r *Rand, styleOnly bool) string {
	style := r.Pick([]string{"1", "4"})
	d, b, rg, p, e := r.Pick(dirs), r.Pick(bases), genRangeText(r), r.Pick(padToks), r.Pick(exts)
	init := d + b + rg + p + e
	if r.Chance(1, 8) && !styleOnly {
		init = d + b + strconv.Itoa(r.Range(0, 500)) + e // single file
	}
	k := r.Range(1, 8)
	var ops []string
	for j := 0; j < k; j++ {
		if styleOnly {
			switch r.Intn(4) {
			case 0:
				ops = append(ops, "P:"+hx(r.Pick(padToks)))
			default:
				ops = append(ops, "Y:"+r.Pick([]string{"1", "4"}))
			}
			continue
		}
		switch r.Intn(12) {
		case 0:
			ops = append(ops, "D:"+hx(r.Pick([]string{"/new/dir", "/new/dir/", "", "rel", "/", "/a#b", "/sh010.comp",
				"C:\\shows\\abc", "C:\\shows\\abc\\", "C:\\shows/abc/renders", "\\\\srv\\share/x/", "a\\b/"})))
		case 1:
			ops = append(ops, "B:"+hx(r.Pick([]string{"other.", "other", "", "o1", "o-", "x#", "foo1.", "a,"})))
		case 2:
			ops = append(ops, "E:"+hx(r.Pick([]string{".jpg", "jpg", "", ".tar.gz", "1", ".#", "..bak", "...", ".", "a.b", ".x/y"})))
		case 3:
			ops = append(ops, "P:"+hx(r.Pick(append(padToks, "", "abc", "%d%d"))))
		case 4:
			ops = append(ops, "Y:"+r.Pick([]string{"1", "4"}))
		case 5:
			ops = append(ops, "R:"+hx(genRangeText(r)))
		case 6:
			ops = append(ops, "R:"+hx(r.Pick([]string{"bad", "1-", "1-5x0", "", "1,,2", "99999999999999999999"})))
		case 7:
			ops = append(ops, "F:"+hx(r.Pick([]string{genRangeText(r), "nope", "5", "1-3,10-8"})))
		case 8:
			ops = append(ops, r.Pick([]string{"N", "V", "V"}))
		case 9, 10:
			ops = append(ops, "C")
		default:
			ops = append(ops, "S")
		}
	}
	return fmt.Sprintf("seq.ops %s %s %s", style, hx(init), strings.Join(ops, " "))
}

func genC12(r *Rand, n int, thorough bool, emit func(string)) {
	for i := 0; i < n; i++ {
		emit(genSeqOps(r, false))
	}
}
