package main

import (
	"strconv"
	"strings"

	fileseq "github.com/justinfx/gofileseq/v2"
	"github.com/justinfx/gofileseq/v2/ranges"
)

type valuer interface {
	Value(int) (int, error)
	Index(int) int
	Contains(int) bool
}

func iterAll(it ranges.Iterator, cap int) []int {
	var out []int
	for !it.IsDone() {
		out = append(out, it.Next())
		if len(out) > cap {
			break
		}
	}
	return out
}

func addQueries(o *Obs, r valuer, qi, qv []int) {
	vals := make([]string, len(qi))
	for i, q := range qi {
		v, err := r.Value(q)
		if err != nil {
			vals[i] = "err"
		} else {
			vals[i] = strconv.Itoa(v)
		}
	}
	o.Add("val", joinStr(vals))
	idx := make([]int, len(qv))
	has := make([]string, len(qv))
	for i, q := range qv {
		idx[i] = r.Index(q)
		has[i] = showBool(r.Contains(q))
	}
	o.Add("idx", showInts(idx))
	o.Add("has", joinStr(has))
}

func opRng(f []string) string {
	s, e, st := atoi(f[1]), atoi(f[2]), atoi(f[3])
	qi, qv := ints(f[4]), ints(f[5])
	r := ranges.NewInclusiveRange(s, e, st)
	var o Obs
	o.Add("len", strconv.Itoa(r.Len()))
	o.Add("fin", strconv.Itoa(r.End()))
	o.Add("min", strconv.Itoa(r.Min()))
	o.Add("max", strconv.Itoa(r.Max()))
	o.Add("str", hx(r.String()))
	if r.Len() <= 20000 {
		o.Add("iter", summarize(iterAll(r.IterValues(), 20001)))
	} else {
		o.Add("iter", "big")
	}
	addQueries(&o, r, qi, qv)
	return o.String()
}

func parseHist(s string) [][3]int {
	if s == "-" {
		return nil
	}
	var out [][3]int
	for _, t := range strings.Split(s, "/") {
		p := strings.Split(t, ":")
		if len(p) != 3 {
			out = append(out, [3]int{})
			continue
		}
		out = append(out, [3]int{atoi(p[0]), atoi(p[1]), atoi(p[2])})
	}
	return out
}

type rangesLike interface {
	valuer
	Len() int
	Start() int
	End() int
	Min() int
	Max() int
	IterValues() ranges.Iterator
}

func obsRanges(o *Obs, l rangesLike, qi, qv []int) {
	o.Add("len", strconv.Itoa(l.Len()))
	o.Add("start", strconv.Itoa(l.Start()))
	o.Add("fin", strconv.Itoa(l.End()))
	o.Add("min", strconv.Itoa(l.Min()))
	o.Add("max", strconv.Itoa(l.Max()))
	if l.Len() <= 20000 {
		o.Add("iter", summarize(iterAll(l.IterValues(), 20001)))
	} else {
		o.Add("iter", "big")
	}
	addQueries(o, l, qi, qv)
}

func framesOrErr(s string) string {
	fs, err := fileseq.NewFrameSet(s)
	if err != nil {
		return "err"
	}
	if fs.Len() > 20000 {
		return "big"
	}
	return summarize(fs.Frames())
}

func opRngs(f []string) string {
	h := parseHist(f[1])
	qi, qv := ints(f[2]), ints(f[3])
	l := &ranges.InclusiveRanges{}
	for _, t := range h {
		l.AppendUnique(t[0], t[1], t[2])
		// pure observers between the appends (they may fill caches, they must not change anything)
		_ = l.Len()
		_ = l.End()
		_ = l.Min() + l.Max()
		_ = l.Index(t[1])
		_, _ = l.Value(l.Len() - 1)
		_ = l.Contains(t[0] + t[2])
	}
	var o Obs
	obsRanges(&o, l, qi, qv)
	o.Add("str", hx(l.String()))
	o.Add("reparse", framesOrErr(l.String()))
	// the normalised container is a value of its own: appending to it and to the receiver
	// afterwards must not disturb either (observed last; the receiver's answers are taken above)
	alias := true
	if ln := l.Len(); ln > 0 && ln <= 20000 {
		hi := l.Max()
		n := l.Normalized()
		n.AppendUnique(hi+1000, hi+1002, 1)
		nlen := n.Len()
		l.AppendUnique(hi+2000, hi+2005, 1)
		alias = n.Len() == nlen && n.Contains(hi+1001) && !n.Contains(hi+2001) && l.Contains(hi+2001) && !l.Contains(hi+1001) && l.Len() == ln+6
	}
	o.Add("alias", showBool(alias))
	return o.String()
}

// frameSetView adapts *FrameSet to the accessor names of the ranges package
type frameSetView struct{ fs *fileseq.FrameSet }

func (v frameSetView) Value(i int) (int, error) { return v.fs.Frame(i) }
func (v frameSetView) Index(f int) int          { return v.fs.Index(f) }
func (v frameSetView) Contains(f int) bool      { return v.fs.HasFrame(f) }

func obsFrameSet(o *Obs, fs *fileseq.FrameSet, qi, qv []int) {
	if fs.Len() <= 20000 {
		// Normalize / Invert / InvertedFrameRange answer about the set; they must leave it alone
		_ = fs.Normalize()
		_ = fs.Invert()
		_ = fs.InvertedFrameRange(0)
	}
	o.Add("len", strconv.Itoa(fs.Len()))
	o.Add("start", strconv.Itoa(fs.Start()))
	o.Add("fin", strconv.Itoa(fs.End()))
	norm := "big"
	if fs.Len() <= 20000 {
		frames := fs.Frames()
		mn, mx := 0, 0
		// min / max are not exported on FrameSet; derive them from Normalize-free data:
		// Start() of the first block is the fallback the library itself uses.
		if len(frames) > 0 {
			mn, mx = frames[0], frames[0]
			for _, v := range frames {
				if v < mn {
					mn = v
				}
				if v > mx {
					mx = v
				}
			}
		}
		o.Add("min", strconv.Itoa(mn))
		o.Add("max", strconv.Itoa(mx))
		norm = summarize(frames)
		// the caller owns the returned slice: scribbling on it must not change later answers
		keep := append([]int(nil), frames...)
		for i := range frames {
			frames[i] = -7777 - i
		}
		again := fs.Frames()
		same := len(again) == len(keep)
		for i := 0; same && i < len(keep); i++ {
			same = again[i] == keep[i]
		}
		o.Add("own", showBool(same))
	} else {
		o.Add("min", "big")
		o.Add("max", "big")
		o.Add("own", "1")
	}
	o.Add("iter", norm)
	addQueries(o, frameSetView{fs}, qi, qv)
}

func opFsParse(f []string) string {
	txt := unhx(f[1])
	qi, qv := ints(f[3]), ints(f[4])
	var o Obs
	fs, err := fileseq.NewFrameSet(txt)
	if err != nil {
		o.Add("err", "err")
		o.Add("isfr", showBool(fileseq.IsFrameRange(txt)))
		return o.String()
	}
	o.Add("err", "ok")
	o.Add("isfr", showBool(fileseq.IsFrameRange(txt)))
	obsFrameSet(&o, fs, qi, qv)
	return o.String()
}
