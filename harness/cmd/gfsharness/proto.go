package main

import (
	"encoding/hex"
	"fmt"
	"strconv"
	"strings"
)

// ---- PRNG: splitmix64, every random choice of a run derives from one state ----

type Rand struct{ s uint64 }

func NewRand(seed uint64) *Rand { return &Rand{s: seed*0x9E3779B97F4A7C15 + 0x1234567} }

func (r *Rand) U64() uint64 {
	r.s += 0x9E3779B97F4A7C15
	z := r.s
	z = (z ^ (z >> 30)) * 0xBF58476D1CE4E5B9
	z = (z ^ (z >> 27)) * 0x94D049BB133111EB
	return z ^ (z >> 31)
}

// Intn returns a value in [0,n)
func (r *Rand) Intn(n int) int {
	if n <= 0 {
		return 0
	}
	return int(r.U64() % uint64(n))
}

// Range returns a value in [lo,hi]
func (r *Rand) Range(lo, hi int) int { return lo + r.Intn(hi-lo+1) }

func (r *Rand) Bool() bool { return r.U64()&1 == 1 }

// Chance returns true with probability num/den
func (r *Rand) Chance(num, den int) bool { return r.Intn(den) < num }

func (r *Rand) Pick(ss []string) string { return ss[r.Intn(len(ss))] }

func (r *Rand) PickInt(ss []int) int { return ss[r.Intn(len(ss))] }

// ---- protocol encoding ----

func hx(s string) string {
	if s == "" {
		return "-"
	}
	return hex.EncodeToString([]byte(s))
}

func unhx(s string) string {
	if s == "-" {
		return ""
	}
	b, err := hex.DecodeString(s)
	if err != nil {
		return ""
	}
	return string(b)
}

func atoi(s string) int {
	v, _ := strconv.Atoi(s)
	return v
}

func ints(s string) []int {
	if s == "-" || s == "" {
		return nil
	}
	parts := strings.Split(s, ",")
	out := make([]int, len(parts))
	for i, p := range parts {
		out[i] = atoi(p)
	}
	return out
}

func showInts(l []int) string {
	if len(l) == 0 {
		return "-"
	}
	var b strings.Builder
	for i, v := range l {
		if i > 0 {
			b.WriteByte(',')
		}
		b.WriteString(strconv.Itoa(v))
	}
	return b.String()
}

func showBool(b bool) string {
	if b {
		return "1"
	}
	return "0"
}

// summarize mirrors Gfs.Proto.summarize
func summarize(l []int) string {
	if len(l) <= 64 {
		return showInts(l)
	}
	const m = 1000000007
	acc := uint64(7)
	for _, v := range l {
		r := v % m
		if r < 0 {
			r += m
		}
		acc = (acc*1000003 + uint64(r)) % m
	}
	return fmt.Sprintf("#%d:%d:%d:%d", len(l), l[0], l[len(l)-1], acc)
}

// Obs is an ordered key=value observation
type Obs struct{ b strings.Builder }

func (o *Obs) Add(k, v string) {
	if o.b.Len() > 0 {
		o.b.WriteByte(';')
	}
	o.b.WriteString(k)
	o.b.WriteByte('=')
	o.b.WriteString(v)
}

func (o *Obs) String() string {
	if o.b.Len() == 0 {
		return "-"
	}
	return o.b.String()
}

func joinStr(ss []string) string { return strings.Join(ss, ",") }
