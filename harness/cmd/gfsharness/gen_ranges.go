package main

import (
	"fmt"
	"os"
	"strconv"
	"strings"

	fileseq "github.com/justinfx/gofileseq/v2"
	"github.com/justinfx/gofileseq/v2/ranges"
)

// window returns the indices [-2,len+2] (sampled when long) and values [min-2,max+2]
func window(r *Rand, ln, mn, mx int, members []int) (qi, qv []int) {
	if ln <= 40 {
		for i := -2; i <= ln+2; i++ {
			qi = append(qi, i)
		}
	} else {
		qi = []int{-2, -1, 0, 1, 2, ln - 2, ln - 1, ln, ln + 1, ln + 2}
		for k := 0; k < 12; k++ {
			qi = append(qi, r.Intn(ln))
		}
	}
	if mx-mn <= 60 && mx >= mn {
		for v := mn - 2; v <= mx+2; v++ {
			qv = append(qv, v)
		}
	} else if mx >= mn {
		qv = []int{mn - 2, mn - 1, mn, mn + 1, mn + 2, mx - 2, mx - 1, mx, mx + 1, mx + 2}
		for k := 0; k < 8; k++ {
			qv = append(qv, mn+r.Intn(mx-mn+1))
		}
		for k := 0; k < 8 && len(members) > 0; k++ {
			m := members[r.Intn(len(members))]
			qv = append(qv, m, m+1, m-1)
		}
	}
	return
}

func rngOp(r *Rand, s, e, st int) string {
	x := ranges.NewInclusiveRange(s, e, st)
	ln := x.Len()
	var members []int
	if ln > 0 && ln < 1<<40 {
		for k := 0; k < 6; k++ {
			if v, err := x.Value(r.Intn(ln)); err == nil {
				members = append(members, v)
			}
		}
	}
	mn, mx := s, e
	if mn > mx {
		mn, mx = mx, mn
	}
	qi, qv := window(r, ln, mn, mx, members)
	return fmt.Sprintf("rng %d %d %d %s %s", s, e, st, showInts(qi), showInts(qv))
}

func histString(h [][3]int) string {
	if len(h) == 0 {
		return "-"
	}
	parts := make([]string, len(h))
	for i, t := range h {
		parts[i] = fmt.Sprintf("%d:%d:%d", t[0], t[1], t[2])
	}
	return strings.Join(parts, "/")
}

func rngsOp(r *Rand, h [][3]int) string {
	l := &ranges.InclusiveRanges{}
	mn, mx := 0, 0
	first := true
	for _, t := range h {
		l.AppendUnique(t[0], t[1], t[2])
		if t[2] == 0 {
			continue
		}
		a, b := t[0], t[1]
		if a > b {
			a, b = b, a
		}
		if first || a < mn {
			mn = a
		}
		if first || b > mx {
			mx = b
		}
		first = false
	}
	ln := l.Len()
	var members []int
	for k := 0; k < 6 && ln > 0; k++ {
		if v, err := l.Value(r.Intn(ln)); err == nil {
			members = append(members, v)
		}
	}
	qi, qv := window(r, ln, mn, mx, members)
	return fmt.Sprintf("rngs %s %s %s", histString(h), showInts(qi), showInts(qv))
}

var tripleAlphabet = [][3]int{
	{1, 10, 1}, {10, 1, -1}, {1, 10, 3}, {10, 1, 3}, {10, 1, -2}, {1, 10, -2},
	{5, 5, 1}, {-3, 4, 2}, {4, -3, 2}, {0, 12, 5}, {7, 20, 4}, {20, 7, -4},
}

func randTriple(r *Rand, scale int) [3]int {
	s := r.Range(-scale, scale)
	e := r.Range(-scale, scale)
	var st int
	switch r.Intn(6) {
	case 0:
		st = 1
	case 1:
		st = -1
	case 2:
		st = r.Range(-scale, scale)
	case 3:
		st = r.Range(2, 7)
	case 4:
		st = -r.Range(2, 7)
	default:
		st = r.Range(1, 3)
	}
	return [3]int{s, e, st}
}

func wellSigned(t [3]int) bool {
	return t[2] == 0 || t[0] == t[1] || (t[0] < t[1] && t[2] > 0) || (t[0] > t[1] && t[2] < 0)
}

// genC13 emits rng / rngs ops
func genC13(r *Rand, n int, thorough bool, emit func(string)) {
	if thorough {
		for s := -7; s <= 7; s++ {
			for e := -7; e <= 7; e++ {
				for st := -7; st <= 7; st++ {
					emit(rngOp(r, s, e, st))
				}
			}
		}
		A := tripleAlphabet
		for _, a := range A {
			emit(rngsOp(r, [][3]int{a}))
			for _, b := range A {
				emit(rngsOp(r, [][3]int{a, b}))
				for _, c := range A {
					emit(rngsOp(r, [][3]int{a, b, c}))
				}
			}
		}
	}
	offsets := []int{0, 0, 0, 1000000000, -1000000000, 1000000000000, -1000000000000, 1 << 60, -(1 << 60), 1712345678001234567, 9007199254740993}
	for i := 0; i < n; i++ {
		if i%83 == 20 {
			// 3, 5, 6, 7 or 9 ascending, non-touching unit-step runs of two or more values each (an
			// already normalised container whose block count is not a power of two)
			k := r.PickInt([]int{3, 5, 6, 7, 9})
			h := make([][3]int, k)
			at := r.Range(-30, 30)
			for j := range h {
				ln := r.Range(1, 5)
				h[j] = [3]int{at, at + ln, 1}
				at += ln + r.Range(2, 6)
			}
			emit(rngsOp(r, h))
			continue
		}
		if i%89 == 50 {
			// a step at the edge of int64: one value, whatever the span
			big := r.PickInt([]int{9223372036854775807, 9223372036854775806, 9223372036854775807 - 10, 1 << 62, 4611686018427387905})
			s, e := r.Range(-20, 20), r.Range(-20, 20)
			if s > e {
				big = -big
			}
			if r.Bool() {
				emit(rngOp(r, s, e, big))
			} else {
				emit(rngsOp(r, [][3]int{{s, e, big}, {s + 1, s + 3, 1}}))
			}
			continue
		}
		if i%97 == 96 {
			// a stepped block, then a long contiguous range (2049-6000 values) over it, either direction
			a := r.Range(-50, 50)
			ln := r.Range(2049, 6000)
			st := r.Range(2, 12)
			h := [][3]int{{a, a + r.Range(ln/2, ln+500), st}, {a + r.Range(-20, 20), a + ln, 1}}
			if r.Bool() {
				h[1] = [3]int{h[1][1], h[1][0], -1}
			}
			if r.Chance(1, 3) {
				h = append(h, [3]int{a - 5, a + 5, 1})
			}
			emit(rngsOp(r, h))
			continue
		}
		switch r.Intn(4) {
		case 0: // small cube, mostly well signed
			t := randTriple(r, 7)
			if !wellSigned(t) && r.Chance(2, 3) {
				t[2] = -t[2]
			}
			emit(rngOp(r, t[0], t[1], t[2]))
		case 1: // translated / larger
			t := randTriple(r, 40)
			if !wellSigned(t) && r.Chance(4, 5) {
				t[2] = -t[2]
			}
			off := r.PickInt(offsets)
			emit(rngOp(r, t[0]+off, t[1]+off, t[2]))
		case 2: // short histories over the alphabet and random triples
			k := r.Range(1, 4)
			h := make([][3]int, k)
			for j := range h {
				if r.Bool() {
					h[j] = tripleAlphabet[r.Intn(len(tripleAlphabet))]
				} else {
					h[j] = randTriple(r, 12)
				}
			}
			emit(rngsOp(r, h))
		default: // long histories, translated coordinates
			k := r.Range(4, 12)
			off := r.PickInt(offsets)
			h := make([][3]int, k)
			for j := range h {
				t := randTriple(r, 30)
				h[j] = [3]int{t[0] + off, t[1] + off, t[2]}
			}
			emit(rngsOp(r, h))
		}
	}
}

// ---- frame range grammar (C01 / C02) ----

type comp struct {
	kind    byte // 's','r','c'
	a, b, n string
	mod     byte
}

func (c comp) ast() string {
	switch c.kind {
	case 's':
		return "s:" + c.a
	case 'r':
		return "r:" + c.a + ":" + c.b
	}
	m := string(c.mod)
	if c.mod == ':' {
		m = "c"
	}
	return "c:" + c.a + ":" + c.b + ":" + m + ":" + c.n
}

func zeros(r *Rand, num string) string {
	if !r.Chance(1, 4) {
		return num
	}
	z := strings.Repeat("0", r.Range(1, 3))
	if strings.HasPrefix(num, "-") {
		return "-" + z + num[1:]
	}
	return z + num
}

func (c comp) text(r *Rand) string {
	switch c.kind {
	case 's':
		return zeros(r, c.a)
	case 'r':
		return zeros(r, c.a) + "-" + zeros(r, c.b)
	}
	return zeros(r, c.a) + "-" + zeros(r, c.b) + string(c.mod) + zeros(r, c.n)
}

func smallNum(r *Rand, scale int) string { return strconv.Itoa(r.Range(-scale, scale)) }

func genComp(r *Rand, scale int, allowBad bool) comp {
	switch r.Intn(8) {
	case 0, 1:
		return comp{kind: 's', a: smallNum(r, scale)}
	case 2, 3:
		return comp{kind: 'r', a: smallNum(r, scale), b: smallNum(r, scale)}
	}
	c := comp{kind: 'c', a: smallNum(r, scale), b: smallNum(r, scale)}
	c.mod = "xy:"[r.Intn(3)]
	switch r.Intn(10) {
	case 0:
		c.n = strconv.Itoa(-r.Range(1, 7))
	case 1:
		if c.mod == ':' {
			c.n = strconv.Itoa(r.Range(8, 30))
		} else {
			c.n = strconv.Itoa(r.Range(8, 3*scale+8))
		}
	case 2:
		if allowBad {
			c.n = "0"
		} else {
			c.n = "1"
		}
	default:
		c.n = strconv.Itoa(r.Range(1, 7))
	}
	return c
}

// oddSpace inserts white space that is not the plain space (tab, newline, CR, NBSP, thin space,
// form feed): it is not junk and must not be dropped, so the result is no text of the AST any more
func oddSpace(r *Rand, s string) string {
	ws := r.Pick([]string{"\t", "\n", "\r\n", "\u00a0", "\u2009", "\f", "\v"})
	k := r.Intn(len(s) + 1)
	return s[:k] + ws + s[k:]
}

func sprinkle(r *Rand, s string) string {
	if !r.Chance(1, 3) {
		return s
	}
	junk := " #@"
	var b strings.Builder
	for i := 0; i <= len(s); i++ {
		for r.Chance(1, 6) {
			b.WriteByte(junk[r.Intn(3)])
		}
		if i < len(s) {
			b.WriteByte(s[i])
		}
	}
	return b.String()
}

func fsOp(r *Rand, txt, ast string) string {
	if os.Getenv("GFS_DEBUG") != "" {
		fmt.Fprintf(os.Stderr, "fsOp %q\n", txt)
	}
	var qi, qv []int
	if fs, err := fileseq.NewFrameSet(txt); err == nil && fs.Len() <= 20000 {
		frames := fs.Frames()
		mn, mx := 0, -1
		if len(frames) > 0 {
			mn, mx = frames[0], frames[0]
			for _, v := range frames {
				if v < mn {
					mn = v
				}
				if v > mx {
					mx = v
				}
			}
		}
		qi, qv = window(r, len(frames), mn, mx, frames)
	} else {
		qi, qv = []int{-1, 0, 1}, []int{-1, 0, 1}
	}
	return fmt.Sprintf("fs.parse %s %s %s %s", hx(txt), ast, showInts(qi), showInts(qv))
}

// tame reports whether enumeration-based paths stay fast for this text: after junk
// stripping no digit run is longer than 4 digits (3 when a filled/staggered modifier is
// present), except numerals of >= 19 digits, which fail integer parsing before any work.
func tame(s string) bool {
	limit := 4
	if strings.ContainsAny(s, "y:") {
		limit = 3
	}
	run := 0
	ok := true
	flush := func() {
		if run > limit && run < 19 {
			ok = false
		}
		run = 0
	}
	for i := 0; i < len(s); i++ {
		c := s[i]
		switch {
		case c == ' ' || c == '#' || c == '@':
		case c >= '0' && c <= '9':
			run++
		default:
			flush()
		}
	}
	flush()
	return ok
}

func mutate(r *Rand, s string) string {
	b := []byte(s)
	alphabet := "xy:,-. a0#@\n1"
	for k := r.Range(1, 2); k > 0; k-- {
		switch r.Intn(4) {
		case 0:
			if len(b) > 0 {
				i := r.Intn(len(b))
				b = append(b[:i], b[i+1:]...)
			}
		case 1:
			i := r.Intn(len(b) + 1)
			c := alphabet[r.Intn(len(alphabet))]
			b = append(b[:i], append([]byte{c}, b[i:]...)...)
		case 2:
			if len(b) > 1 {
				i := r.Intn(len(b) - 1)
				b[i], b[i+1] = b[i+1], b[i]
			}
		default:
			if len(b) > 0 {
				i := r.Intn(len(b))
				b[i] = alphabet[r.Intn(len(alphabet))]
			}
		}
	}
	return string(b)
}

// genFrameRanges emits fs.parse ops; multi=true weights towards overlapping multi-block sets
func genFrameRanges(r *Rand, n int, thorough, multi bool, emit func(string)) {
	if thorough {
		// every string of length <= 5 over a 12-symbol alphabet (accept/reject + frames)
		alpha := "012-xy:, #a."
		var rec func(prefix []byte, depth int)
		maxLen := 5
		rec = func(prefix []byte, depth int) {
			emit(fsOp(r, string(prefix), "-"))
			if depth == maxLen {
				return
			}
			for i := 0; i < len(alpha); i++ {
				rec(append(prefix, alpha[i]), depth+1)
			}
		}
		rec(nil, 0)
	}
	for _, t := range []string{"1-10,5-5x0", "7,7-7x0", "-5-5,-3--3:0", "1-10,5-5y0", "3,3-3x0,4", "+5", "+0", "+0010", "+1-10", "1-+5", "1,+5", "+5#", " +5", "1-5x+2", "-+5", "+-5"} {
		emit(fsOp(r, t, "-"))
	}
	for i := 0; i < n; i++ {
		if i%61 == 17 {
			// frame numbers beyond 2^53 (nanosecond time stamps): float64 cannot tell neighbours apart
			B := r.PickInt([]int{1712345678001234000, 1 << 60, 9007199254740992, -(1 << 59)})
			k := r.Range(1, 4)
			var ts, as []string
			for j := 0; j < k; j++ {
				a, b := B+r.Range(0, 40), B+r.Range(0, 40)
				switch r.Intn(3) {
				case 0:
					ts = append(ts, strconv.Itoa(a))
					as = append(as, fmt.Sprintf("s:%d", a))
				case 1:
					ts = append(ts, fmt.Sprintf("%d-%d", a, b))
					as = append(as, fmt.Sprintf("r:%d:%d", a, b))
				default:
					st := r.Range(2, 5)
					ts = append(ts, fmt.Sprintf("%d-%dx%d", a, b, st))
					as = append(as, fmt.Sprintf("c:%d:%d:x:%d", a, b, st))
				}
			}
			emit(fsOp(r, strings.Join(ts, ","), strings.Join(as, "/")))
			continue
		}
		if i%97 == 41 {
			// two stepped components with the same step where the second starts exactly one step
			// after the WRITTEN end of the first, which is off the first one's grid
			s := r.Range(2, 12)
			a := r.Range(-40, 40)
			k := r.Range(1, 9)
			off := r.Range(1, s-1)
			d := 1
			if r.Bool() {
				d = -1
			}
			b := a + d*(k*s+off)
			c := b + d*s
			e := c + d*(r.Range(0, 6)*s+r.Range(0, s-1))
			mod := r.Pick([]string{"x", "x", ":"})
			m2 := map[string]string{"x": "x", ":": "c"}[mod]
			emit(fsOp(r, fmt.Sprintf("%d-%dx%d,%d-%d%s%d", a, b, s, c, e, mod, s), fmt.Sprintf("c:%d:%d:x:%d/c:%d:%d:%s:%d", a, b, s, c, e, m2, s)))
			continue
		}
		if i%83 == 7 {
			// a LATER component at the very end of the integer range (the first one is stored as
			// it is, later ones are walked value by value)
			hi := "9223372036854775807"
			lo := "-9223372036854775808"
			cands := [][2]string{
				{"1-5," + hi, "r:1:5/s:" + hi},
				{"1," + "9223372036854775806-" + hi, "s:1/r:9223372036854775806:" + hi},
				{"7," + lo, "s:7/s:" + lo},
				{"1,-9223372036854775807-" + lo, "s:1/r:-9223372036854775807:" + lo},
				{hi + ",1-3," + "9223372036854775805-" + hi + "x2", "s:" + hi + "/r:1:3/c:9223372036854775805:" + hi + ":x:2"},
				{"5," + hi + "-9223372036854775806", "s:5/r:" + hi + ":9223372036854775806"},
			}
			c := cands[r.Intn(len(cands))]
			emit(fsOp(r, c[0], c[1]))
			// steps next to the largest int (one frame), and short ranges of 19-digit negatives
			more := [][2]string{
				{"1-10x" + hi, "c:1:10:x:" + hi},
				{"5-1x" + hi, "c:5:1:x:" + hi},
				{"3-12x9223372036854775806", "c:3:12:x:9223372036854775806"},
				{"1-2x" + hi + ",7", "c:1:2:x:" + hi + "/s:7"},
				{lo + "--9223372036854775806", "r:" + lo + ":-9223372036854775806"},
				{"-1000000000000000005--1000000000000000001", "r:-1000000000000000005:-1000000000000000001"},
				{"-1000000000000000001,-1000000000000000003,-1000000000000000005", "s:-1000000000000000001/s:-1000000000000000003/s:-1000000000000000005"},
			}
			c = more[r.Intn(len(more))]
			emit(fsOp(r, c[0], c[1]))
			continue
		}
		if i%89 == 23 {
			// a single frame directly followed by a stepped run that starts exactly one step later
			// (either direction), optionally behind an unrelated component
			st := r.Range(2, 9)
			v := r.Range(-30, 60)
			d := 1
			if r.Bool() {
				d = -1
			}
			first := v + d*st
			last := first + d*(r.Range(1, 6)*st+r.Range(0, st-1))
			txt := fmt.Sprintf("%d,%d-%dx%d", v, first, last, st)
			ast := fmt.Sprintf("s:%d/c:%d:%d:x:%d", v, first, last, st)
			if r.Bool() {
				p0, p1 := v-d*100, v-d*98
				txt = fmt.Sprintf("%d-%d,", p0, p1) + txt
				ast = fmt.Sprintf("r:%d:%d/", p0, p1) + ast
			}
			emit(fsOp(r, txt, ast))
			continue
		}
		if i%499 == 498 {
			// a stepped component, then a long contiguous one (2049-5000 frames) over it
			a := r.Range(-40, 40)
			ln := r.Range(2049, 5000)
			st := r.Range(2, 12)
			b := a + r.Range(ln/2, ln+300)
			c, d := a+r.Range(-20, 20), a+ln
			if r.Bool() {
				c, d = d, c
			}
			emit(fsOp(r, fmt.Sprintf("%d-%dx%d,%d-%d", a, b, st, c, d), fmt.Sprintf("c:%d:%d:x:%d/r:%d:%d", a, b, st, c, d)))
			continue
		}
		k := r.Range(1, 6)
		if multi {
			k = r.Range(2, 7)
		}
		if thorough && r.Chance(1, 4) {
			k = r.Range(6, 12)
		}
		scale := 30
		if multi {
			scale = 15
		}
		if r.Chance(1, 10) {
			scale = 200
		}
		cs := make([]comp, k)
		texts := make([]string, k)
		asts := make([]string, k)
		for j := range cs {
			cs[j] = genComp(r, scale, r.Chance(1, 20))
			texts[j] = cs[j].text(r)
			asts[j] = cs[j].ast()
		}
		txt := sprinkle(r, strings.Join(texts, ","))
		ast := strings.Join(asts, "/")
		switch {
		case r.Chance(1, 8):
			if m := mutate(r, txt); tame(m) {
				emit(fsOp(r, m, "-"))
			}
		case r.Chance(1, 25):
			emit(fsOp(r, oddSpace(r, txt), "-"))
		case r.Chance(1, 40):
			// a numeral that does not fit an int
			big := []string{"9223372036854775808", "-9223372036854775809", "99999999999999999999"}
			t := txt + "," + big[r.Intn(3)]
			emit(fsOp(r, t, "-"))
		default:
			emit(fsOp(r, txt, ast))
		}
	}
}
