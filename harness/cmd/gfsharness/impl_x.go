package main

// Operations of the C19 check (Go library vs C++ port). The same operations are answered by
// /verif/cppdriver (linked against /repo/cpp) and by the Lean driver; the observation format
// below is the contract between the three.

import (
	"fmt"
	"os"
	"path/filepath"
	"sort"
	"strconv"
	"strings"

	fileseq "github.com/justinfx/gofileseq/v2"
)

func init() {
	operations["x.fs"] = opXFs
	operations["x.f2r"] = opXF2R
	operations["x.big"] = opXBig
	operations["x.padrange"] = opXPadRange
	operations["x.pad"] = opXPad
	operations["x.padsize"] = opXPadSize
	operations["x.seq"] = opXSeq
	operations["x.scan"] = opXScan
	operations["x.global"] = opXGlobal
	operations["x.find"] = opXFind
	generators["C19"] = genC19
}

// xNum: a numeral as the number it denotes (no redundant zeros, no negative zero)
func xNum(a string) string {
	a = stripZerosNum(a)
	if a == "-0" {
		return "0"
	}
	return a
}

// xStrip: every numeral of a range text (frames and steps) as the number it denotes; a padded
// range may differ from another one only in this respect
func xStrip(s string) string {
	parts := strings.Split(s, ",")
	for i, part := range parts {
		kind, a, b, m, n := matchPart(part)
		switch kind {
		case 1:
			parts[i] = xNum(a)
		case 2:
			parts[i] = xNum(a) + "-" + xNum(b)
		case 4:
			parts[i] = xNum(a) + "-" + xNum(b) + m + xNum(n)
		}
	}
	return strings.Join(parts, ",")
}

func xFramesOf(fs *fileseq.FrameSet) string {
	if fs == nil {
		return "-"
	}
	if fs.Len() > 20000 {
		return "big"
	}
	return summarize(fs.Frames())
}

// x.fs <hex text> <ast|-> <qi> <qv>
func opXFs(f []string) string {
	txt := unhx(f[1])
	qi, qv := ints(f[3]), ints(f[4])
	var o Obs
	o.Add("isfr", showBool(fileseq.IsFrameRange(txt)))
	fs, err := fileseq.NewFrameSet(txt)
	if err != nil || fs.Len() == 0 {
		o.Add("valid", "0")
		return o.String()
	}
	o.Add("valid", "1")
	o.Add("len", strconv.Itoa(fs.Len()))
	o.Add("start", strconv.Itoa(fs.Start()))
	o.Add("fin", strconv.Itoa(fs.End()))
	o.Add("iter", xFramesOf(fs))
	addQueries(&o, frameSetView{fs}, qi, qv)
	n := fs.Normalize()
	i := fs.Invert()
	o.Add("nstr", hx(n.FrameRange()))
	o.Add("nframes", xFramesOf(n))
	o.Add("istr", hx(i.FrameRange()))
	o.Add("iframes", xFramesOf(i))
	{
		// membership asked of the DERIVED sets
		nh := make([]string, len(qv))
		ih := make([]string, len(qv))
		for k, v := range qv {
			nh[k] = showBool(n.HasFrame(v))
			ih[k] = showBool(i.HasFrame(v))
		}
		o.Add("nhas", strings.Join(nh, ","))
		o.Add("ihas", strings.Join(ih, ","))
	}
	frp := fs.FrameRangePadded(3)
	o.Add("frp", hx(xStrip(frp)))
	o.Add("frpw", showBool(numeralsPadded(frp, 3)))
	invp := fs.InvertedFrameRange(3)
	o.Add("invp", hx(xStrip(invp)))
	o.Add("invpw", showBool(numeralsPadded(invp, 3)))
	return o.String()
}

// x.big <hex text> <qi> <qv>: a range of any size answered arithmetically (no enumeration, no
// Normalize / Invert): validity, length, start, end, frame at index, index of frame, membership
func opXBig(f []string) string {
	txt := unhx(f[1])
	qi, qv := ints(f[2]), ints(f[3])
	var o Obs
	fs, err := fileseq.NewFrameSet(txt)
	if err != nil || fs.Len() == 0 {
		o.Add("valid", "0")
		return o.String()
	}
	o.Add("valid", "1")
	o.Add("len", strconv.Itoa(fs.Len()))
	o.Add("start", strconv.Itoa(fs.Start()))
	o.Add("fin", strconv.Itoa(fs.End()))
	addQueries(&o, frameSetView{fs}, qi, qv)
	return o.String()
}

// x.f2r <ints> <sorted> <zfill>
func opXF2R(f []string) string {
	fr := ints(f[1])
	in := make([]int, len(fr))
	copy(in, fr)
	var o Obs
	o.Add("str", hx(fileseq.FramesToFrameRange(in, f[2] == "1", atoi(f[3]))))
	return o.String()
}

// x.padrange <hex text> <w>
func opXPadRange(f []string) string {
	txt := unhx(f[1])
	w := atoi(f[2])
	out := fileseq.PadFrameRange(txt, w)
	var o Obs
	o.Add("strip", hx(xStrip(out)))
	o.Add("wok", showBool(numeralsPadded(out, w)))
	return o.String()
}

// x.pad <style> <n>: padding characters for a width
func opXPad(f []string) string {
	chars := unhx(strings.SplitN(opPadChars([]string{"pad.chars", f[1], f[2]}), ";", 2)[0][len("chars="):])
	var o Obs
	o.Add("chars", hx(chars))
	return o.String()
}

// x.padsize <style> <hex token>
func opXPadSize(f []string) string {
	return opPadSize([]string{"pad.size", f[1], f[2]})
}

// x.seq <style> <hex text> <qf> <qi> ...
// the sequences the C++ driver constructs during static initialisation
var xGlobalTexts = []string{"/proj/shot/beauty.1-10#.exr", "/proj/shot/beauty.0101.exr", "rel/v2_take.5-9@@.tif"}

// x.global <k> <qf> <qi>
func opXGlobal(f []string) string {
	k := atoi(f[1])
	if k < 0 || k >= len(xGlobalTexts) {
		return "valid=0"
	}
	return opXSeq([]string{"x.seq", "4", hx(xGlobalTexts[k]), f[2], f[3]})
}

func opXSeq(f []string) string {
	st := styleOf(f[1])
	txt := unhx(f[2])
	qf, qi := ints(f[3]), ints(f[4])
	var o Obs
	s, err := fileseq.NewFileSequencePad(txt, st)
	if err != nil {
		o.Add("valid", "0")
		return o.String()
	}
	o.Add("valid", "1")
	xSeqObs(&o, s, qf, qi)
	return o.String()
}

func xSeqObs(o *Obs, s *fileseq.FileSequence, qf, qi []int) {
	o.Add("dir", hx(s.Dirname()))
	o.Add("base", hx(s.Basename()))
	o.Add("rng", hx(s.FrameRange()))
	o.Add("pad", hx(s.Padding()))
	o.Add("ext", hx(s.Ext()))
	o.Add("zfill", strconv.Itoa(s.ZFill()))
	o.Add("hasfs", showBool(s.FrameSet() != nil))
	o.Add("len", strconv.Itoa(s.Len()))
	o.Add("start", strconv.Itoa(s.Start()))
	o.Add("fin", strconv.Itoa(s.End()))
	o.Add("str", hx(s.String()))
	fr := make([]string, len(qf))
	for i, q := range qf {
		fr[i], _ = s.Frame(q)
	}
	o.Add("fr", hexList(fr))
	ix := make([]string, len(qi))
	for i, q := range qi {
		ix[i] = s.Index(q)
	}
	o.Add("ix", hexList(ix))
}

func xSeqLine(root string, s *fileseq.FileSequence) string {
	return canon(root, s.String()) + "|" + strconv.Itoa(s.ZFill()) + "|" + strconv.Itoa(s.Len())
}

func xSeqsObs(o *Obs, root string, seqs fileseq.FileSequences) {
	lines := make([]string, 0, len(seqs))
	var cover []string
	total := 0
	for _, s := range seqs {
		lines = append(lines, xSeqLine(root, s))
		total += s.Len()
	}
	sort.Strings(lines)
	o.Add("seqs", hexList(lines))
	if total > 3000 {
		o.Add("cover", "big")
		return
	}
	for _, s := range seqs {
		for i := 0; i < s.Len(); i++ {
			cover = append(cover, canon(root, s.Index(i)))
		}
	}
	sort.Strings(cover)
	o.Add("cover", hexList(cover))
}

// xDirName: the scanned directory is T/d unless the op names it (optional last field)
func xDirName(f []string, at int, root string) (string, bool) {
	if len(f) <= at {
		return "d", true
	}
	name := unhx(f[at])
	if name == "" || name == "d" {
		return "d", true
	}
	return name, os.Rename(filepath.Join(root, "d"), filepath.Join(root, name)) == nil
}

// x.scan <mask> <style> <entries> [dirname]: FindSequencesOnDisk(T/<dirname>, opts); mask bit0 = single, bit1 = hidden
func opXScan(f []string) string {
	mask := atoi(f[1])
	ents := parseEntries(f[3])
	root, err := materialise(ents)
	if root != "" {
		defer os.RemoveAll(root)
	}
	if err != nil {
		return "setup=err"
	}
	dn, ok := xDirName(f, 4, root)
	if !ok {
		return "setup=err"
	}
	var o Obs
	seqs, err := fileseq.FindSequencesOnDisk(filepath.Join(root, dn), listOpts(mask, f[2], mask%2 == 1)...)
	if err != nil {
		o.Add("err", "err")
		return o.String()
	}
	o.Add("err", "ok")
	xSeqsObs(&o, root, seqs)
	return o.String()
}

// x.find <style> <hex pattern (relative to T/d/)> <entries>
func opXFind(f []string) string {
	ents := parseEntries(f[3])
	root, err := materialise(ents)
	if root != "" {
		defer os.RemoveAll(root)
	}
	if err != nil {
		return "setup=err"
	}
	dn, ok := xDirName(f, 4, root)
	if !ok {
		return "setup=err"
	}
	var o Obs
	// style "1c" / "4c": the pattern has no directory part and is looked up in the working directory
	pattern := filepath.Join(root, dn) + "/" + unhx(f[2])
	if len(f[1]) > 1 && f[1][1] == 'c' {
		if os.Chdir(filepath.Join(root, dn)) != nil {
			return "setup=err"
		}
		defer os.Chdir("/")
		pattern = unhx(f[2])
	}
	s, err := fileseq.FindSequenceOnDiskPad(pattern, styleOf(f[1][:1]))
	if err != nil {
		o.Add("err", "err")
		return o.String()
	}
	o.Add("err", "ok")
	if s == nil {
		o.Add("found", "0")
		return o.String()
	}
	o.Add("found", "1")
	xSeqsObs(&o, root, fileseq.FileSequences{s})
	return o.String()
}

// ---- generator: the C01-C04, C08-C11 generators re-targeted at the x.* operations, plus
// directories of uniformly padded multi-frame sequences and frame-less files

func genC19(r *Rand, n int, thorough bool, emit func(string)) {
	rename := func(from, to string) func(string) {
		return func(s string) {
			if strings.HasPrefix(s, from+" ") {
				emit(to + s[len(from):])
			}
		}
	}
	for k := 0; k < 3; k++ {
		emit(fmt.Sprintf("x.global %d 0,1,-1,7,101,123,100000,-99999 -1,0,1,4,9,10", k))
	}
	per := n / 8
	// x.fs also normalises and inverts, which walk every value between the smallest and the
	// largest frame (documented as enumeration-based): texts whose frames lie more than 10^7 apart
	// are left to the operations that do not (fs.parse of C01 / C02)
	xfs := func(s string) {
		if !strings.HasPrefix(s, "fs.parse ") {
			return
		}
		p := strings.Split(s, " ")
		if fs, err := fileseq.NewFrameSet(unhx(p[1])); err == nil && fs.Len() > 0 && fs.Len() <= 20000 {
			mn, mx := fs.Start(), fs.Start()
			for _, v := range fs.Frames() {
				if v < mn {
					mn = v
				}
				if v > mx {
					mx = v
				}
			}
			if mx > 0 && mn < 0 && (mx > 10000000 || mn < -10000000) || mx-mn > 10000000 {
				return
			}
		}
		emit("x.fs" + s[len("fs.parse"):])
	}
	genFrameRanges(r, per, thorough, false, xfs)
	genFrameRanges(r, per, false, true, xfs)
	genC08(r, per/2, thorough, func(s string) {
		if strings.HasPrefix(s, "fs.norm ") {
			p := strings.Split(s, " ")
			emit("x.fs " + p[1] + " - -2,-1,0,1,2,3,5,8 -3,-1,0,1,2,3,4,5,7,10,11")
		}
	})
	genC09(r, per, thorough, rename("f2r", "x.f2r"))
	// huge single ranges (positions beyond 32 bits inside one block), queried at the boundaries,
	// at interior members and at their neighbours
	genHuge(r, per/4, thorough, func(s string) {
		p := strings.Split(s, " ")
		if len(p) == 6 && p[0] == "huge" {
			txt := p[1] + "-" + p[2]
			if p[3] != "0" {
				txt += "x" + p[3]
			}
			emit("x.big " + hx(txt) + " " + p[4] + " " + p[5])
		}
	})
	genC11(r, per, thorough, rename("padrange", "x.padrange"))
	genC10(r, per/2, thorough, func(s string) {
		if strings.HasPrefix(s, "pad.chars ") {
			emit("x.pad" + s[len("pad.chars"):])
		} else if strings.HasPrefix(s, "pad.size ") {
			emit("x.padsize" + s[len("pad.size"):])
		}
	})
	genSeqStrings(r, per, thorough, false, func(s string) {
		if strings.HasPrefix(s, "seq ") {
			p := strings.Split(s, " ")
			emit("x.seq " + strings.Join(p[1:5], " "))
		}
	})
	genSeqStrings(r, per/2, false, true, func(s string) {
		if strings.HasPrefix(s, "seq ") {
			p := strings.Split(s, " ")
			emit("x.seq " + strings.Join(p[1:5], " "))
		}
	})
	nd := per
	if nd > 400 && !thorough {
		nd = 400
	}
	for i := 0; i < nd; i++ {
		if r.Chance(1, 12) {
			// a failing call (a dangling link in the directory), then, in the same process, a directory
			// without any sequence member and a lookup that matches nothing: an earlier failure must
			// not leak into a later call
			st := r.Pick([]string{"1", "4"})
			bad := []entry{{"a.0001.exr", 'f'}, {"a.0002.exr", 'f'}, {"dead.lnk", 'x'}, {"notes.txt", 'f'}}
			plain := []entry{{"notes.txt", 'f'}, {"readme", 'f'}, {"sub", 'd'}}
			emit("x.scan " + strconv.Itoa(r.Intn(4)) + " " + st + " " + entsString(bad))
			emit("x.scan " + strconv.Itoa(r.Intn(4)) + " " + st + " " + entsString(plain))
			emit("x.find " + st + " " + hx("nomatch.#.exr") + " " + entsString(plain))
		}
		emit(genXDir(r))
	}
}

var xBases = []string{"foo.", "bar_", "shot_v", "a", "img.v2.", "take-", "x.y.", "comp", ".hid.", "beauty.", "B", "foo_",
	"a#b.", "x,1.", "y1-5.", "p@q_", "v%04d."}
var xExts = []string{".exr", ".tar.gz", ".jpg", "", ".tif", ".e", ".1a"}
var xPlain = []string{"readme", "notes.txt", ".hidden", ".cfg.ini", "Makefile", "a.b.c", "data.json", "LICENSE", ".x", "thumb.db"}

// genXDir: 1-4 uniformly zero-padded multi-frame sequences (>= 2 frames each, one width per
// (base, ext) key and no two keys that differ only in digits), frame-less files, hidden entries,
// sub-directories; op x.scan over every option subset or x.find with a pattern for one of them
func genXDir(r *Rand) string {
	var ents []entry
	used := map[string]bool{}
	type key struct {
		base, ext string
		w         int
		frames    []int
	}
	var keys []key
	nk := r.Range(1, 4)
	for k := 0; k < nk; k++ {
		b, e := r.Pick(xBases), r.Pick(xExts)
		if used[b+"|"+e] {
			continue
		}
		used[b+"|"+e] = true
		w := r.Range(1, 6)
		nf := r.Range(2, 7)
		start := r.Range(0, 40)
		if w >= 3 && r.Chance(1, 3) {
			start = r.Range(90, 1100)
		}
		if r.Chance(1, 10) {
			// frame numbers beyond 32 bits (epoch milliseconds)
			w = 13
			start = 1712345678000 + r.Range(0, 900)
		}
		step := r.PickInt([]int{1, 1, 2, 3, 5})
		var frames []int
		seen := map[int]bool{}
		for j := 0; j < nf; j++ {
			fr := start + j*step
			if r.Chance(1, 5) {
				fr += r.Range(1, 9)
			}
			// keep every numeral exactly w characters wide
			lim := 1
			for d := 0; d < w; d++ {
				lim *= 10
			}
			fr %= lim
			if seen[fr] {
				continue
			}
			seen[fr] = true
			frames = append(frames, fr)
		}
		if len(frames) < 2 {
			continue
		}
		keys = append(keys, key{b, e, w, frames})
		for _, fr := range frames {
			num := strconv.Itoa(fr)
			for len(num) < w {
				num = "0" + num
			}
			ents = append(ents, entry{b + num + e, 'f'})
		}
	}
	if len(keys) > 0 && r.Chance(1, 6) {
		// a second family whose basename is the first one's plus a space or a '+': a different key,
		// not frames of the first
		k0 := keys[0]
		sep := r.Pick([]string{" ", "+"})
		if !used[k0.base+sep+"|"+k0.ext] {
			used[k0.base+sep+"|"+k0.ext] = true
			for j := 1; j <= 3; j++ {
				num := strconv.Itoa(j)
				for len(num) < k0.w {
					num = "0" + num
				}
				ents = append(ents, entry{k0.base + sep + num + k0.ext, 'f'})
			}
		}
	}
	if r.Chance(1, 8) {
		// two keys whose basename + extension are the same text: shot<N>.comp.exr (basename
		// "shot", extension ".comp.exr") next to shot.comp<N>.exr (basename "shot.comp")
		b0, mid, e0 := r.Pick([]string{"shot", "a", "x_v2"}), r.Pick([]string{".comp", ".b", ".tar"}), r.Pick([]string{".exr", ".gz"})
		if !used[b0+"|"+mid+e0] && !used[b0+mid+"|"+e0] {
			used[b0+"|"+mid+e0] = true
			used[b0+mid+"|"+e0] = true
			w := r.Range(2, 4)
			for j := 1; j <= 3; j++ {
				ents = append(ents, entry{fmt.Sprintf("%s%0*d%s%s", b0, w, j, mid, e0), 'f'})
				ents = append(ents, entry{fmt.Sprintf("%s%s%0*d%s", b0, mid, w, j+6, e0), 'f'})
			}
		}
	}
	np := r.Range(0, 3)
	for k := 0; k < np; k++ {
		nme := r.Pick(xPlain)
		if used[nme] {
			continue
		}
		used[nme] = true
		ents = append(ents, entry{nme, 'f'})
	}
	if r.Chance(1, 3) {
		ents = append(ents, entry{"subdir", 'd'})
	}
	if r.Chance(1, 5) {
		ents = append(ents, entry{".git", 'd'})
	}
	// shuffle
	for i := len(ents) - 1; i > 0; i-- {
		j := r.Intn(i + 1)
		ents[i], ents[j] = ents[j], ents[i]
	}
	style := r.Pick([]string{"1", "4"})
	// the directory itself may carry pad characters, digits and dots
	dn := ""
	if r.Chance(1, 4) {
		dn = " " + hx(r.Pick([]string{"d#x", "sh010.comp", "v1.2", "a@b", "1-5", "d d", "%04d"}))
	}
	if len(keys) > 0 && r.Chance(2, 5) {
		k := keys[r.Intn(len(keys))]
		pads := []string{"#", "@", "@@@", "##", "%04d", "$F", "1-100#", "@@"}
		if r.Chance(1, 4) {
			style += "c" // looked up from inside the directory, the pattern has no directory part
		}
		return "x.find " + style + " " + hx(k.base+r.Pick(pads)+k.ext) + " " + entsString(ents) + dn
	}
	return "x.scan " + strconv.Itoa(r.Intn(4)) + " " + style + " " + entsString(ents) + dn
}
