// gfsharness — generates protocol operations and answers them with the real library.
//
//	gfsharness gen <property> -seed N -n COUNT [-thorough]   ops on stdout
//	gfsharness run                                            ops on stdin, observations on stdout
package main

import (
	"bufio"
	"flag"
	"fmt"
	"os"
	"strconv"
	"strings"
	"time"
)

var generators = map[string]func(r *Rand, n int, thorough bool, emit func(string)){}

var operations = map[string]func(f []string) string{}

func init() {
	generators["C13"] = genC13
	generators["C01"] = func(r *Rand, n int, t bool, emit func(string)) { genFrameRanges(r, n, t, false, emit) }
	generators["C02"] = func(r *Rand, n int, t bool, emit func(string)) { genFrameRanges(r, n, false, true, emit) }

	operations["rng"] = opRng
	operations["rngs"] = opRngs
	operations["fs.parse"] = opFsParse
	generators["C03"] = func(r *Rand, n int, t bool, emit func(string)) { genSeqStrings(r, n, t, false, emit) }
	generators["C04"] = func(r *Rand, n int, t bool, emit func(string)) { genSeqStrings(r, n, t, true, emit) }
	generators["C08"] = genC08
	generators["C09"] = genC09
	generators["C10"] = genC10
	generators["C11"] = genC11
	generators["C12"] = genC12
	operations["pad.chars"] = opPadChars
	operations["pad.size"] = opPadSize
	operations["f2r"] = opF2R
	operations["padrange"] = opPadRange
	operations["fs.norm"] = opFsNorm
	operations["seq"] = opSeq
	operations["seq.ops"] = opSeqOps
	generators["C05"] = genList
	generators["C15"] = genFuzz
	generators["C14"] = genHuge
	generators["C20"] = genHandles
	generators["C16"] = genRace
	generators["C18"] = genSeqinfo
	generators["C17"] = genSeqls
	operations["seqls"] = opSeqls
	operations["seqinfo"] = opSeqinfo
	operations["huge"] = opHuge
	generators["C06"] = genDiskScan
	generators["C07"] = genDiskFind
	operations["disk.scan"] = opDiskScan
	operations["disk.find"] = opDiskFind
	operations["fuzz"] = opFuzz
	operations["list"] = opList
}

func runOp(line string) (out string) {
	defer func() {
		if p := recover(); p != nil {
			msg := fmt.Sprint(p)
			msg = strings.Map(func(r rune) rune {
				if r == ';' || r == '=' || r == '\n' || r == '\t' {
					return ' '
				}
				return r
			}, msg)
			out = "panic=" + msg
		}
	}()
	f := strings.Split(line, " ")
	op, ok := operations[f[0]]
	if !ok {
		return "bad-op=1"
	}
	return op(f)
}

func main() {
	if len(os.Args) < 2 {
		fmt.Fprintln(os.Stderr, "usage: gfsharness gen|run …")
		os.Exit(2)
	}
	w := bufio.NewWriterSize(os.Stdout, 1<<20)
	defer w.Flush()
	switch os.Args[1] {
	case "gen":
		fs := flag.NewFlagSet("gen", flag.ExitOnError)
		seed := fs.Uint64("seed", 1, "PRNG seed")
		n := fs.Int("n", 1000, "number of random cases")
		thorough := fs.Bool("thorough", false, "include the bounded-exhaustive enumerators")
		if len(os.Args) < 3 {
			os.Exit(2)
		}
		prop := os.Args[2]
		fs.Parse(os.Args[3:])
		g, ok := generators[prop]
		if !ok {
			fmt.Fprintln(os.Stderr, "no generator for", prop)
			os.Exit(2)
		}
		g(NewRand(*seed), *n, *thorough, func(s string) { w.WriteString(s); w.WriteByte('\n') })
	case "run":
		// Every operation runs under a deadline (GFS_OP_DEADLINE seconds, default 120): an
		// operation that does not return is reported as such and the process ends, because
		// the runaway call cannot be stopped (the check re-runs the remaining lines).
		deadline := 120 * time.Second
		if v, err := strconv.Atoi(os.Getenv("GFS_OP_DEADLINE")); err == nil && v > 0 {
			deadline = time.Duration(v) * time.Second
		}
		sc := bufio.NewScanner(os.Stdin)
		sc.Buffer(make([]byte, 1<<20), 1<<26)
		for sc.Scan() {
			line := sc.Text()
			if line == "" {
				continue
			}
			done := make(chan string, 1)
			go func() { done <- runOp(line) }()
			select {
			case out := <-done:
				w.WriteString(out)
				w.WriteByte('\n')
			case <-time.After(deadline):
				w.WriteString(fmt.Sprintf("panic=operation did not return within %v\n", deadline))
				w.Flush()
				os.Exit(3)
			}
		}
	default:
		os.Exit(2)
	}
}
