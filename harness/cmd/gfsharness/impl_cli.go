package main

import (
	"bytes"
	"encoding/json"
	"fmt"
	"os"
	"os/exec"
	"path/filepath"
	"sort"
	"strconv"
	"strings"
	"time"
)

func cliBin(name string) string {
	if p := os.Getenv("GFS_BIN_DIR"); p != "" {
		return filepath.Join(p, name)
	}
	exe, _ := os.Executable()
	return filepath.Join(filepath.Dir(exe), name)
}

type infoResult struct {
	Error    string `json:"error"`
	String   string `json:"string"`
	Dirname  string `json:"dir"`
	Basename string `json:"base"`
	Range    string `json:"range"`
	Padding  string `json:"pad"`
	Ext      string `json:"ext"`
	Start    int    `json:"start"`
	End      int    `json:"end"`
	Len      int    `json:"length"`
	ZFill    int    `json:"zfill"`
	HasRange bool   `json:"hasRange"`
}

func runCmd(bin string, args []string, stdin string, env []string, timeout time.Duration) (string, string, int) {
	cmd := exec.Command(bin, args...)
	cmd.Env = append(os.Environ(), env...)
	if strings.HasPrefix(stdin, "\x00file") {
		// stdin redirected from a regular file ("prog < list.txt"), not a pipe
		tf, err := os.CreateTemp("", "gfsIn")
		if err != nil {
			return "", err.Error(), -1
		}
		defer os.Remove(tf.Name())
		tf.WriteString(stdin[len("\x00file"):])
		tf.Seek(0, 0)
		defer tf.Close()
		cmd.Stdin = tf
	} else if stdin != "\x00none" {
		cmd.Stdin = strings.NewReader(stdin)
	}
	var so, se bytes.Buffer
	cmd.Stdout, cmd.Stderr = &so, &se
	if err := cmd.Start(); err != nil {
		return "", err.Error(), -1
	}
	done := make(chan error, 1)
	go func() { done <- cmd.Wait() }()
	select {
	case err := <-done:
		code := 0
		if err != nil {
			code = 1
			if ee, ok := err.(*exec.ExitError); ok {
				code = ee.ExitCode()
			}
		}
		return so.String(), se.String(), code
	case <-time.After(timeout):
		cmd.Process.Kill()
		return so.String(), "timeout", -2
	}
}

func showInfo(orig string, r infoResult) string {
	return strings.Join([]string{hx(orig), showBool(r.Error != ""), hx(r.String), hx(r.Dirname), hx(r.Basename), hx(r.Range), hx(r.Padding),
		hx(r.Ext), strconv.Itoa(r.Start), strconv.Itoa(r.End), strconv.Itoa(r.Len), strconv.Itoa(r.ZFill), showBool(r.HasRange)}, ":")
}

// seqinfo <mode a|s> <flags> <d> <b> <r> <p> <e> <fmt> <i> <f> <patterns>
func opSeqinfo(f []string) string {
	mode, flags := f[1], f[2]
	var args []string
	add := func(flag, hexv string) {
		if v := unhx(hexv); v != "" {
			args = append(args, flag, v)
		}
	}
	add("-d", f[3])
	add("-b", f[4])
	add("-r", f[5])
	add("-p", f[6])
	add("-e", f[7])
	add("--format", f[8])
	if f[9] != "-" {
		args = append(args, "-i="+f[9])
	}
	if f[10] != "-" {
		args = append(args, "-f="+f[10])
	}
	if strings.Contains(flags, "1") {
		args = append(args, "--hash1")
	}
	if strings.Contains(flags, "v") {
		args = append(args, "--inverted")
	}
	pats := parsePaths(f[11])
	stdin := ""
	plainArgs := append([]string(nil), args...)
	jsonArgs := append(append([]string(nil), args...), "--json")
	if mode == "s" || mode == "f" {
		stdin = strings.Join(pats, "\n") + "\n"
		if mode == "f" {
			stdin = "\x00file" + stdin
		}
	} else {
		jsonArgs = append(jsonArgs, pats...)
		plainArgs = append(plainArgs, pats...)
	}
	bin := cliBin("seqinfo")
	var o Obs
	outs := map[string]bool{}
	var first string
	for _, procs := range []string{"1", "16", "4"} {
		so, se, code := runCmd(bin, jsonArgs, stdin, []string{"GOMAXPROCS=" + procs}, 20*time.Second)
		if code != 0 {
			return "crash=" + strings.Map(func(r rune) rune {
				if r == ';' || r == '=' || r == '\n' || r == '\t' {
					return ' '
				}
				return r
			}, fmt.Sprintf("exit %d %s", code, firstLine(se)))
		}
		outs[so] = true
		first = so
	}
	// once more confined to a single CPU (a 1-vCPU host): same answer, no deadlock
	if ts, err := exec.LookPath("taskset"); err == nil {
		so, se, code := runCmd(ts, append([]string{"-c", "0", bin}, jsonArgs...), stdin, nil, 20*time.Second)
		if code != 0 {
			return "crash=" + strings.Map(func(r rune) rune {
				if r == ';' || r == '=' || r == '\n' || r == '\t' {
					return ' '
				}
				return r
			}, fmt.Sprintf("one cpu: exit %d %s", code, firstLine(se)))
		}
		outs[so] = true
	}
	// and once under the race detector: the per-pattern goroutines share nothing they write
	// (every case in the thorough tier, one case in four otherwise, chosen by the arguments)
	sample := os.Getenv("VERIF_TIER") == "thorough"
	if !sample {
		hsum := 0
		for _, a := range jsonArgs {
			for _, c := range []byte(a) {
				hsum = (hsum*31 + int(c)) & 0xffffff
			}
		}
		sample = hsum%4 == 0
	}
	if rb := cliBin("seqinfo.race"); len(pats) >= 2 && sample {
		if _, err := os.Stat(rb); err == nil {
			so, se, code := runCmd(rb, jsonArgs, stdin, []string{"GOMAXPROCS=16", "GORACE=halt_on_error=1 exitcode=66"}, 40*time.Second)
			if strings.Contains(se, "DATA RACE") || code == 66 {
				loc := ""
				for _, l := range strings.Split(se, "\n") {
					if strings.Contains(l, "/repo/") && loc == "" {
						loc = strings.TrimSpace(l)
					}
				}
				return "crash=" + strings.Map(func(r rune) rune {
					if r == ';' || r == '=' || r == '\n' || r == '\t' {
						return ' '
					}
					return r
				}, "data race "+loc)
			}
			if code == 0 {
				outs[so] = true
			}
		}
	}
	var m map[string]infoResult
	if err := json.Unmarshal([]byte(first), &m); err != nil {
		return "badjson=1"
	}
	keys := make([]string, 0, len(m))
	for k := range m {
		keys = append(keys, k)
	}
	sort.Strings(keys)
	res := make([]string, len(keys))
	for i, k := range keys {
		res[i] = showInfo(k, m[k])
	}
	o.Add("n", strconv.Itoa(len(keys)))
	if len(res) == 0 {
		o.Add("res", "-")
	} else {
		o.Add("res", strings.Join(res, ","))
	}
	// plain output: every pattern appears as a "Source = " block whose String agrees
	so, _, code := runCmd(bin, plainArgs, stdin, nil, 20*time.Second)
	plain := code == 0
	for _, k := range keys {
		if strings.Contains(k, "\n") {
			continue
		}
		if !strings.Contains(so, "Source = "+k+"\n    String = "+m[k].String+"\n") {
			plain = false
		}
	}
	o.Add("plain", showBool(plain))
	o.Add("stable", showBool(len(outs) == 1))
	return o.String()
}

func firstLine(s string) string {
	s = strings.TrimSpace(s)
	if i := strings.IndexByte(s, '\n'); i >= 0 {
		// a Go panic: keep the message line
		for _, l := range strings.Split(s, "\n") {
			if strings.HasPrefix(l, "panic:") {
				return l
			}
		}
		return s[:i]
	}
	return s
}

func genSeqinfo(r *Rand, n int, thorough bool, emit func(string)) {
	fmts := []string{"", "", "", "{{dir}}{{base}}{{frange}}{{pad}}{{ext}}", "{{dir}}x_{{base}}{{frange}}{{pad}}{{ext}}", "/n/{{base}}{{startf}}-{{endf}}{{pad}}{{ext}}",
		"{{base}}{{pad}}{{ext}}", "{{dir}}{{base}}{{zfill}}_{{len}}"}
	for i := 0; i < n; i++ {
		k := r.Range(1, 8)
		if r.Chance(1, 10) {
			k = r.Range(20, 64)
		}
		pats := make([]string, 0, k)
		for j := 0; j < k; j++ {
			var p string
			switch r.Intn(8) {
			case 0:
				p = r.Pick([]string{"bad#\nname", "plain.txt", "foo.0010.exr", "é.1-3#.exr", "x.1-5x0#.e", "#", "a.1-1y1@.b",
					"a.1-3,7,5#.exr", "/d/b.1,5,3@.x", "s.2,6,4,3#.e", "u.10-8,4,6@@.x", "g.1-5#.exr", "g.5-1#.exr", "h.3,1,2#.e"})
			case 1:
				if len(pats) > 0 {
					p = pats[r.Intn(len(pats))] // duplicate
					break
				}
				fallthrough
			default:
				p = r.Pick(dirs) + r.Pick(bases) + genRangeText(r) + r.Pick(padToks) + r.Pick(exts)
			}
			if !tame(p) || strings.ContainsAny(p, "\\\x00") || p == "" || strings.HasPrefix(p, "-") {
				p = "/d/b.1-3#.e"
			}
			pats = append(pats, p)
		}
		if r.Chance(1, 12) {
			// a pattern longer than a 4096-byte read buffer (a heavily fragmented range)
			var fr []string
			for v, target := 1001, r.Range(4100, 9000); len(fr)*5 < target; v += 2 {
				fr = append(fr, strconv.Itoa(v))
			}
			pats[r.Intn(len(pats))] = "/d/long." + strings.Join(fr, ",") + "#.exr"
		}
		mode := "a"
		if r.Chance(1, 3) {
			mode = r.Pick([]string{"s", "f"}) // stdin through a pipe / redirected from a regular file
			for j, p := range pats {
				if strings.Contains(p, "\n") {
					pats[j] = "/d/b.1-3#.e"
				}
			}
		}
		flags := ""
		if r.Chance(1, 3) {
			flags += "1"
		}
		if r.Chance(1, 3) {
			flags += "v"
		}
		if flags == "" {
			flags = "-"
		}
		opt := func(p int, vals []string) string {
			if r.Chance(1, p) {
				return hx(r.Pick(vals))
			}
			return "-"
		}
		d := opt(4, []string{"/new/dir", "/nd/", "rel", "x\n#"})
		b := opt(4, []string{"nb.", "nb", "o1", "q-"})
		rg := opt(4, []string{"1-10", "5", "1-20x4,30", "bad", "10-1", "1-5x0"})
		p := opt(4, []string{"#", "@@", "%03d", "$F2", "##"})
		e := opt(4, []string{".jpg", "png", ".tar.gz"})
		fm := hx(r.Pick(fmts))
		ix, fr := "-", "-"
		if r.Chance(1, 5) {
			ix = strconv.Itoa(r.Range(-1, 12))
		}
		if r.Chance(1, 6) {
			fr = strconv.Itoa(r.Range(-5, 2000))
		}
		toks := make([]string, len(pats))
		for j, q := range pats {
			toks[j] = hx(q)
		}
		emit(fmt.Sprintf("seqinfo %s %s %s %s %s %s %s %s %s %s %s", mode, flags, d, b, rg, p, e, fm, ix, fr, strings.Join(toks, ",")))
	}
}

// ---- seqls (C17) ----

type treeNode struct {
	path   string
	kind   byte
	target string
}

func parseTree(s string) []treeNode {
	if s == "~" {
		return nil
	}
	var out []treeNode
	for _, t := range strings.Split(s, ",") {
		p := strings.Split(t, ":")
		n := treeNode{path: unhx(p[0]), kind: p[1][0]}
		if len(p) > 2 {
			n.target = unhx(p[2])
		}
		out = append(out, n)
	}
	return out
}

func materialiseTree(nodes []treeNode) (string, error) {
	outer, err := os.MkdirTemp("", "gfsT")
	if err != nil {
		return "", err
	}
	// the tree root is a sub-directory so that helper files stay outside the tree
	root := filepath.Join(outer, "t")
	os.Mkdir(root, 0o755)
	os.WriteFile(filepath.Join(outer, "tfile"), []byte("x"), 0o644)
	// directories first (parents before children), then files, then links
	sorted := append([]treeNode(nil), nodes...)
	sort.SliceStable(sorted, func(i, j int) bool { return len(sorted[i].path) < len(sorted[j].path) })
	for _, n := range sorted {
		if n.kind == 'd' {
			if err := os.MkdirAll(filepath.Join(root, n.path), 0o755); err != nil {
				return root, err
			}
		}
	}
	for _, n := range sorted {
		p := filepath.Join(root, n.path)
		os.MkdirAll(filepath.Dir(p), 0o755)
		var err error
		switch n.kind {
		case 'f':
			err = os.WriteFile(p, nil, 0o644)
		case 'l':
			err = os.Symlink(filepath.Join(outer, "tfile"), p)
		case 'L':
			if filepath.Dir(n.path) == filepath.Dir(n.target) {
				// a link to a sibling is created with a RELATIVE target ("latest -> v003"), as
				// such links are made in practice; two of them in different directories then
				// have the same link text
				err = os.Symlink(filepath.Base(n.target), p)
			} else {
				err = os.Symlink(filepath.Join(root, n.target), p)
			}
		}
		if err != nil {
			return root, err
		}
	}
	return root, nil
}

func opSeqls(f []string) string {
	flags := f[1]
	roots := parsePaths(f[2])
	nodes := parseTree(f[3])
	root, err := materialiseTree(nodes)
	defer func() {
		os.Chdir("/")
		if root != "" {
			os.RemoveAll(filepath.Dir(root))
		}
	}()
	if err != nil {
		return "harness-error=1"
	}
	// macOS-style /private symlinks do not exist here; EvalSymlinks(root) == root on this box
	os.Chdir(root)
	var args []string
	for _, c := range flags {
		switch c {
		case 'r', 'a', 's', 'f', 'S':
			args = append(args, "-"+string(c))
		case '1':
			args = append(args, "--hash1")
		}
	}
	for _, r := range roots {
		if strings.HasPrefix(r, "/T") {
			r = root + r[2:]
		}
		args = append(args, r)
	}
	bin := cliBin("seqls")
	style := "4"
	if strings.Contains(flags, "1") {
		style = "1"
	}
	outs := map[string]bool{}
	var lines []string
	nerr := 0
	timedOut := false
	for _, procs := range []string{"1", "2", "16"} {
		so, se, code := runCmd(bin, args, "\x00none", []string{"GOMAXPROCS=" + procs}, 20*time.Second)
		if code == -2 {
			timedOut = true
			break
		}
		if code == 2 || strings.Contains(se, "panic:") {
			return "crash=" + strings.Map(func(r rune) rune {
				if r == ';' || r == '=' || r == '\n' || r == '\t' {
					return ' '
				}
				return r
			}, firstLine(se))
		}
		ls := strings.Split(strings.TrimSuffix(so, "\n"), "\n")
		if so == "" {
			ls = nil
		}
		sort.Strings(ls)
		outs[strings.Join(ls, "\n")] = true
		lines = ls
		nerr = strings.Count(se, "Error: Failed")
	}
	// once more under the race detector (every case in the thorough tier, one in four otherwise):
	// the walkers, the workers and the printer share nothing they write without synchronisation
	if rb := cliBin("seqls.race"); !timedOut {
		sample := os.Getenv("VERIF_TIER") == "thorough"
		if !sample {
			hsum := 0
			for _, a := range f[1:] {
				for _, c := range []byte(a) {
					hsum = (hsum*31 + int(c)) & 0xffffff
				}
			}
			sample = hsum%4 == 0
		}
		if _, err := os.Stat(rb); err == nil && sample {
			so, se, code := runCmd(rb, args, "\x00none", []string{"GOMAXPROCS=16", "GORACE=halt_on_error=1 exitcode=66"}, 60*time.Second)
			if strings.Contains(se, "DATA RACE") || code == 66 {
				loc := ""
				for _, l := range strings.Split(se, "\n") {
					if strings.Contains(l, "/repo/") && loc == "" {
						loc = strings.TrimSpace(l)
					}
				}
				return "crash=" + strings.Map(func(r rune) rune {
					if r == ';' || r == '=' || r == '\n' || r == '\t' {
						return ' '
					}
					return r
				}, "data race "+loc)
			}
			if code != -2 && !strings.Contains(flags, "C") {
				ls := strings.Split(strings.TrimSuffix(so, "\n"), "\n")
				if so == "" {
					ls = nil
				}
				sort.Strings(ls)
				outs[strings.Join(ls, "\n")] = true
			}
		}
	}
	var o Obs
	names := make([]entry, len(nodes))
	for i, n := range nodes {
		names[i] = entry{filepath.Base(n.path), 'f'}
	}
	cl := make([]string, len(lines))
	var cover []string
	total := 0
	for i, l := range lines {
		cl[i] = canon(root, l)
		if s, err := fileseqParse(l, style); err == nil {
			total += s.Len()
			if total <= 3000 {
				for _, p := range paths(s) {
					cover = append(cover, canon(root, p))
				}
			}
		} else {
			cover = append(cover, "<unparsable:"+cl[i]+">")
		}
	}
	sort.Strings(cl)
	sort.Strings(cover)
	if strings.Contains(flags, "C") {
		// aliased / cyclic links: only termination is compared
		o.Add("timeout", showBool(timedOut))
		return o.String()
	}
	if !mixedShapes(names) {
		o.Add("lines", hexList(cl))
	}
	if total <= 3000 {
		o.Add("cover", hexList(cover))
	} else {
		o.Add("cover", "big")
	}
	o.Add("nerr", strconv.Itoa(nerr))
	o.Add("stable", showBool(len(outs) <= 1))
	o.Add("timeout", showBool(timedOut))
	return o.String()
}

// genSeqlsWide: a flat tree of 100-180 directories, all of them given as arguments (non
// recursive): many more work items than workers, so what is still queued when the inputs are
// closed matters
func genSeqlsWide(r *Rand) string {
	nd := r.Range(100, 180)
	var nodes, roots []string
	for d := 0; d < nd; d++ {
		dir := fmt.Sprintf("w%03d", d)
		nodes = append(nodes, hx(dir)+":d")
		roots = append(roots, hx(dir))
		nf := r.Range(1, 3)
		for j := 0; j < nf; j++ {
			nodes = append(nodes, hx(fmt.Sprintf("%s/f.%d.exr", dir, j+1))+":f")
		}
		if r.Chance(1, 6) {
			nodes = append(nodes, hx(dir+"/notes.txt")+":f")
		}
	}
	flags := ""
	for _, c := range "as1f" {
		if r.Chance(1, 2) {
			flags += string(c)
		}
	}
	if flags == "" {
		flags = "-"
	}
	return fmt.Sprintf("seqls %s %s %s", flags, strings.Join(roots, ","), strings.Join(nodes, ","))
}

// genSeqlsShots: 2-4 shot directories, each with version directories (that have sub-directories
// with files) and a relative link "latest" (or "cur") to one of its own versions: one link per
// target, no aliasing, but the same link text in every shot
func genSeqlsShots(r *Rand) string {
	var nodes []string
	ns := r.Range(2, 4)
	lname := r.Pick([]string{"latest", "cur", ".cur"})
	vname := r.Pick([]string{"v003", "v1", "take"})
	for s := 0; s < ns; s++ {
		shot := fmt.Sprintf("sh%02d", s)
		nodes = append(nodes, hx(shot)+":d")
		for _, v := range []string{vname, "old"} {
			vd := shot + "/" + v
			nodes = append(nodes, hx(vd)+":d")
			for _, sub := range []string{"beauty", "depth"} {
				sd := vd + "/" + sub
				nodes = append(nodes, hx(sd)+":d")
				nf := r.Range(1, 3)
				for j := 0; j < nf; j++ {
					nodes = append(nodes, hx(fmt.Sprintf("%s/%s_%s.%04d.exr", sd, sub, "x", j+1))+":f")
				}
			}
			nodes = append(nodes, hx(vd+"/notes.txt")+":f")
		}
		nodes = append(nodes, hx(shot+"/"+lname)+":L:"+hx(shot+"/"+vname))
	}
	flags := "r"
	for _, c := range "as1f" {
		if r.Chance(1, 2) {
			flags += string(c)
		}
	}
	root := r.Pick([]string{".", "/T", "sh00,sh01"})
	var roots []string
	for _, x := range strings.Split(root, ",") {
		roots = append(roots, hx(x))
	}
	return fmt.Sprintf("seqls %s %s %s", flags, strings.Join(roots, ","), strings.Join(nodes, ","))
}

// genSeqlsCycle: a cyclic directory link (shot/up -> its grandparent) next to 1-4 links to flat
// directories, one link per target. The walk passes through the cycle once; on the second pass
// every link is listed but not followed, whatever the schedule (all links of a directory are
// recorded while that directory is read, before anything below it is visited), so the exact
// listing is compared. A pattern argument with a 256-400 byte file name may ride along.
func genSeqlsCycle(r *Rand) string {
	var nodes []string
	top := r.Pick([]string{"show", "prj.v2"})
	nodes = append(nodes, hx(top)+":d", hx(top+"/shot")+":d", hx("pub")+":d")
	for j := 1; j <= r.Range(1, 3); j++ {
		nodes = append(nodes, hx(fmt.Sprintf("%s/r.%d.exr", top, j))+":f")
		nodes = append(nodes, hx(fmt.Sprintf("%s/shot/s_%02d.jpg", top, j))+":f")
	}
	nl := r.Range(1, 4)
	var links []string
	for k := 0; k < nl; k++ {
		tgt := fmt.Sprintf("pub/v%03d", k)
		nodes = append(nodes, hx(tgt)+":d")
		for j := 1; j <= r.Range(1, 3); j++ {
			nodes = append(nodes, hx(fmt.Sprintf("%s/e%d.%d.exr", tgt, k, j))+":f")
		}
		links = append(links, hx(fmt.Sprintf("%s/shot/ln%d", top, k))+":L:"+hx(tgt))
	}
	up := hx(top+"/shot/"+r.Pick([]string{"up", "aa_up", "zz_up"})) + ":L:" + hx(top)
	if r.Bool() {
		nodes = append(nodes, up)
		nodes = append(nodes, links...)
	} else {
		nodes = append(nodes, links...)
		nodes = append(nodes, up)
	}
	flags := "r"
	for _, c := range "as1f" {
		if r.Chance(1, 2) {
			flags += string(c)
		}
	}
	roots := []string{hx(top)}
	if r.Chance(1, 3) {
		roots = nil // the pattern alone
	}
	if roots == nil || r.Bool() {
		// a legal pattern whose file name is longer than NAME_MAX (a long list of frames)
		var nums []string
		for n := 1; len(strings.Join(nums, ",")) < r.Range(250, 400); n += 2 {
			nums = append(nums, strconv.Itoa(n))
		}
		roots = append(roots, hx(fmt.Sprintf("pub/v000/e0.%s#.exr", strings.Join(nums, ","))))
	}
	return fmt.Sprintf("seqls %s %s %s", flags, strings.Join(roots, ","), strings.Join(nodes, ","))
}

// genSeqlsLong: one directory with 30-45 sub-directories whose names are 237-255 bytes long (a
// directory entry near the maximum record size), each holding a short sequence
func genSeqlsLong(r *Rand) string {
	var nodes []string
	nodes = append(nodes, hx("big")+":d")
	ln := r.Range(237, 255)
	nd := r.Range(30, 45)
	for d := 0; d < nd; d++ {
		name := fmt.Sprintf("s%03d_", d)
		name += strings.Repeat("x", ln-len(name))
		nodes = append(nodes, hx("big/"+name)+":d")
		nodes = append(nodes, hx("big/"+name+"/f.1.exr")+":f")
		if r.Chance(1, 3) {
			nodes = append(nodes, hx("big/"+name+"/f.2.exr")+":f")
		}
	}
	flags := "r"
	for _, c := range "as1f" {
		if r.Chance(1, 2) {
			flags += string(c)
		}
	}
	return fmt.Sprintf("seqls %s %s %s", flags, hx(r.Pick([]string{"big", ".", "/T/big"})), strings.Join(nodes, ","))
}

func genSeqls(r *Rand, n int, thorough bool, emit func(string)) {
	for i := 0; i < n; i++ {
		if i%25 == 13 {
			emit(genSeqlsLong(r))
			continue
		}
		if i%10 == 9 {
			emit(genSeqlsWide(r))
			continue
		}
		if i%10 == 4 {
			emit(genSeqlsShots(r))
			continue
		}
		if i%10 == 6 {
			emit(genSeqlsCycle(r))
			continue
		}
		var nodes []string
		var dirs []string
		seen := map[string]bool{}
		addDir := func(p string) {
			if !seen[p] {
				seen[p] = true
				dirs = append(dirs, p)
				nodes = append(nodes, hx(p)+":d")
			}
		}
		ndirs := r.Range(1, 6)
		for d := 0; d < ndirs; d++ {
			parent := ""
			if len(dirs) > 0 && r.Chance(2, 3) {
				parent = dirs[r.Intn(len(dirs))]
			}
			if strings.Count(parent, "/") >= 3 {
				parent = ""
			}
			name := r.Pick([]string{"a", "b", "shots", "sh010.comp", ".hid", "v1.2", "x y", "d1", ".cache", "e", "..data", "...", "..2024_x"})
			p := name
			if parent != "" {
				p = parent + "/" + name
			}
			addDir(p)
		}
		linked := map[string]bool{}
		cyclic := r.Chance(1, 8)
		for _, d := range append([]string{""}, dirs...) {
			cnt := r.Range(0, 6)
			// basenames that do not end in a digit or '-': every printed line re-parses unambiguously
			b, e := r.Pick([]string{"foo.", "foo_", "a.b.", "img.v", "beauty_left.", ".hid.", "x", "shot_"}), r.Pick(listExts)
			w := r.Range(1, 4)
			for j := 0; j < cnt; j++ {
				var name string
				switch r.Intn(8) {
				case 0:
					name = r.Pick([]string{"readme", ".hidden", ".h.1.exr", "notes.txt", "123"})
				default:
					name = fmt.Sprintf("%s%0*d%s", b, w, r.Range(0, 150), e)
				}
				p := name
				if d != "" {
					p = d + "/" + name
				}
				if name == "" || seen[p] {
					continue
				}
				seen[p] = true
				kind := "f"
				if r.Chance(1, 10) {
					kind = "l"
				}
				nodes = append(nodes, hx(p)+":"+kind)
			}
			// at most one link per target directory; for the exact-listing clauses links live in
			// the tree root only and never point at an ancestor (no aliasing, no cycles)
			if d == "" && len(dirs) > 0 && r.Chance(1, 2) && !cyclic {
				tgt := dirs[r.Intn(len(dirs))]
				lp := r.Pick([]string{"lnk", ".hlnk", "link2", ".current", "..ln"})
				if !linked[tgt] && !seen[lp] {
					linked[tgt] = true
					seen[lp] = true
					nodes = append(nodes, hx(lp)+":L:"+hx(tgt))
				}
			}
			// termination clause: aliased and cyclic links anywhere (only termination is compared)
			if cyclic && d != "" && r.Chance(1, 2) {
				tgt := dirs[r.Intn(len(dirs))]
				lp := d + "/" + r.Pick([]string{"loop", "alias", ".l"})
				if !seen[lp] {
					seen[lp] = true
					nodes = append(nodes, hx(lp)+":L:"+hx(tgt))
				}
			}
		}
		flags := ""
		for _, c := range "ras1f" {
			if r.Chance(1, 2) {
				flags += string(c)
			}
		}
		if cyclic {
			flags += "C"
		}
		if flags == "" {
			flags = "-"
		}
		nroots := r.Range(1, 3)
		var roots []string
		// the tree root may be an argument only once when it holds a directory link: "." and "/T"
		// are two paths to the same link, i.e. aliasing, which the exact-listing clauses exclude
		// (which of the two walks descends below the link depends on the schedule)
		rootUsed := false
		for k := 0; k < nroots; k++ {
			c := r.Intn(8)
			if (c == 0 || c == 2) && len(linked) > 0 {
				if rootUsed {
					c = 4
				}
				rootUsed = true
			}
			switch c {
			case 0:
				roots = append(roots, hx("."))
			case 1:
				roots = append(roots, hx("nope/missing"))
			case 2:
				roots = append(roots, hx("/T"))
			case 3:
				d := ""
				if len(dirs) > 0 {
					d = dirs[r.Intn(len(dirs))] + "/"
				}
				roots = append(roots, hx(d+r.Pick([]string{"foo.", "foo_", "a.b.", "img.v", "x", "shot_"})+r.Pick([]string{"#", "@", "%03d", "1-5#"})+r.Pick(listExts)))
			default:
				if len(dirs) > 0 {
					d := dirs[r.Intn(len(dirs))]
					roots = append(roots, hx(r.Pick([]string{d, d + "/", "./" + d, "/T/" + d})))
				} else if !(rootUsed && len(linked) > 0) {
					roots = append(roots, hx("."))
					rootUsed = true
				}
			}
		}
		tree := "~"
		if len(nodes) > 0 {
			tree = strings.Join(nodes, ",")
		}
		emit(fmt.Sprintf("seqls %s %s %s", flags, strings.Join(roots, ","), tree))
	}
}
