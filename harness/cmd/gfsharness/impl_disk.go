package main

import (
	"strconv"
	"fmt"
	"os"
	"path/filepath"
	"sort"
	"strings"

	fileseq "github.com/justinfx/gofileseq/v2"
)

type entry struct {
	name string
	kind byte
}

func parseEntries(s string) []entry {
	if s == "~" {
		return nil
	}
	var out []entry
	for _, t := range strings.Split(s, ",") {
		p := strings.Split(t, ":")
		if len(p) != 2 {
			continue
		}
		out = append(out, entry{unhx(p[0]), p[1][0]})
	}
	return out
}

// materialise creates T/d with the entries, T/regfile, T/tdir (target of links to directories)
func materialise(ents []entry) (root string, err error) {
	root, err = os.MkdirTemp("", "gfsT")
	if err != nil {
		return "", err
	}
	d := filepath.Join(root, "d")
	if err = os.Mkdir(d, 0o755); err != nil {
		return root, err
	}
	os.WriteFile(filepath.Join(root, "regfile"), []byte("x"), 0o644)
	os.Mkdir(filepath.Join(root, "tdir"), 0o755)
	os.WriteFile(filepath.Join(root, "tfile"), []byte("x"), 0o644)
	for _, e := range ents {
		p := filepath.Join(d, e.name)
		switch e.kind {
		case 'd':
			err = os.Mkdir(p, 0o755)
		case 'l':
			err = os.Symlink(filepath.Join(root, "tfile"), p)
		case 'L':
			err = os.Symlink(filepath.Join(root, "tdir"), p)
		case 'x':
			// dangling in one of four ways, chosen by the name: the target does not exist
			// (ENOENT), lies "under" a regular file (ENOTDIR), has a component longer than
			// NAME_MAX (ENAMETOOLONG), or the link points at itself (ELOOP)
			hsum := 0
			for _, c := range []byte(e.name) {
				hsum = hsum*31 + int(c)
			}
			switch (hsum & 0x7fffffff) % 4 {
			case 0, 1:
				err = os.Symlink(filepath.Join(root, "does-not-exist"), p)
			case 2:
				err = os.Symlink(filepath.Join(root, "regfile", "below"), p)
			default:
				if len(e.name)%2 == 0 {
					err = os.Symlink(filepath.Join(root, strings.Repeat("n", 300)), p)
				} else {
					err = os.Symlink(p, p)
				}
			}
		case 'v':
			err = os.Symlink("/dev/null", p) // a link to something that is neither a file nor a directory
		default:
			err = os.WriteFile(p, nil, 0o644)
		}
		if err != nil {
			return root, fmt.Errorf("cannot create %q: %v", e.name, err)
		}
	}
	return root, nil
}

// realArg turns the protocol spelling (with /T for the temp root) into the argument to use
// and sets the working directory for relative spellings
// scanDirName is the name of the materialised directory under the temp root ("d" unless an op
// renamed it)
var scanDirName = "d"

func realArg(root, arg string) string {
	if strings.HasPrefix(arg, "/T") {
		return root + arg[2:]
	}
	if arg == "." || arg == "./" {
		os.Chdir(filepath.Join(root, scanDirName))
	} else {
		os.Chdir(root)
	}
	return arg
}

func canon(root, s string) string { return strings.Replace(s, root, "/T", -1) }

func canonLines(root string, seqs fileseq.FileSequences) []string {
	out := make([]string, 0, len(seqs))
	for _, s := range seqs {
		out = append(out, canon(root, seqLine(s)))
	}
	sort.Strings(out)
	return out
}

func shapeOf(n string) string {
	b := []byte(n)
	for i, c := range b {
		if c >= '0' && c <= '9' {
			b[i] = 'D'
		} else if c == '-' && i+1 < len(n) && n[i+1] >= '0' && n[i+1] <= '9' {
			b[i] = 'D'
		}
	}
	return string(b)
}

func collapseD(s string) string {
	var b strings.Builder
	for i := 0; i < len(s); i++ {
		if s[i] == 'D' && i+1 < len(s) && s[i+1] == 'D' {
			continue
		}
		b.WriteByte(s[i])
	}
	return b.String()
}

// mixedShapes mirrors Gfs.Ops.mixedShapes
func mixedShapes(ents []entry) bool {
	byCollapsed := map[string]string{}
	for _, e := range ents {
		sh := shapeOf(e.name)
		c := collapseD(sh)
		if prev, ok := byCollapsed[c]; ok && prev != sh {
			return true
		}
		byCollapsed[c] = sh
	}
	return false
}

func opDiskScan(f []string) string {
	mask := atoi(f[1])
	style := f[2]
	arg := unhx(f[3])
	ents := parseEntries(f[5])
	root, err := materialise(ents)
	defer func() {
		os.Chdir("/")
		if root != "" {
			os.RemoveAll(root)
		}
	}()
	if err != nil {
		return "harness-error=" + strings.Map(func(r rune) rune {
			if r == ';' || r == '=' {
				return ' '
			}
			return r
		}, err.Error())
	}
	// optional 7th field: the directory's own name (pad characters, digits, dots, spaces)
	scanDirName = "d"
	if len(f) > 6 {
		if n := unhx(f[6]); n != "" && n != "d" {
			if os.Rename(filepath.Join(root, "d"), filepath.Join(root, n)) != nil {
				return "harness-error=rename"
			}
			scanDirName = n
		}
	}
	defer func() { scanDirName = "d" }()
	// "dl" is a symlink to the scanned directory: an argument spelled through it is the same directory
	os.Symlink(filepath.Join(root, scanDirName), filepath.Join(root, "dl"))
	// "hop/../dm" names it too, for the operating system only (hop -> deep/inner, deep/dm -> the directory)
	os.MkdirAll(filepath.Join(root, "deep", "inner"), 0o755)
	os.Symlink(filepath.Join(root, "deep", "inner"), filepath.Join(root, "hop"))
	os.Symlink(filepath.Join(root, scanDirName), filepath.Join(root, "deep", "dm"))
	real := realArg(root, arg)
	var o Obs
	lf := "err"
	mixed := mixedShapes(ents)
	if l, err := fileseq.ListFiles(real); err == nil {
		if mixed {
			lf = "skip"
		} else {
			lf = hexList(canonLines(root, l))
		}
	}
	seqs, err := fileseq.FindSequencesOnDisk(real, listOpts(mask, style, mask%2 == 1)...)
	if err != nil {
		o.Add("err", "err")
		o.Add("lf", lf)
		return o.String()
	}
	o.Add("err", "ok")
	if !mixed {
		o.Add("seqs", hexList(canonLines(root, seqs)))
	}
	cover, small := expandSeqs(seqs)
	pre := filepath.Clean(real)
	if !strings.HasSuffix(pre, "/") {
		pre += "/"
	}
	under := true
	if small {
		c := make([]string, len(cover))
		for i, p := range cover {
			c[i] = canon(root, p)
			if !strings.HasPrefix(p, pre) || strings.Contains(p[len(pre):], "/") {
				under = false
			}
		}
		sort.Strings(c)
		o.Add("cover", hexList(c))
	} else {
		o.Add("cover", "big")
	}
	o.Add("under", showBool(under))
	o.Add("lf", lf)
	return o.String()
}

func opDiskFind(f []string) string {
	st := styleOf(f[1])
	// option mask: bit 0 StrictPadding, bit 1 SingleFiles, bit 2 HiddenFiles (the pattern
	// lookup only ever returns numbered sequences, so the last two must not change it)
	omask := atoi(f[2])
	strict := omask%2 == 1
	pat := unhx(f[3])
	ents := parseEntries(f[5])
	root, err := materialise(ents)
	defer func() {
		os.Chdir("/")
		if root != "" {
			os.RemoveAll(root)
		}
	}()
	if err != nil {
		return "harness-error=1"
	}
	// "hop" is a symlink to deep/inner, "deep/dm" a symlink to the directory: the spelling
	// hop/../dm/ names the directory for the operating system (and for nobody who reads it
	// lexically: there is no /T/dm)
	os.MkdirAll(filepath.Join(root, "deep", "inner"), 0o755)
	os.Symlink(filepath.Join(root, "deep", "inner"), filepath.Join(root, "hop"))
	os.Symlink(filepath.Join(root, "d"), filepath.Join(root, "deep", "dm"))
	real := realArg(root, pat)
	if !strings.Contains(pat, "/") {
		// a pattern without a directory part: looked up from inside the directory
		os.Chdir(filepath.Join(root, "d"))
	}
	var opts []fileseq.FileOption
	if strict {
		opts = append(opts, fileseq.StrictPadding)
	}
	if (omask/2)%2 == 1 {
		opts = append(opts, fileseq.SingleFiles)
	}
	stParam := st
	if (omask/4)%2 == 1 {
		// the style is given as an option; the parameter says the other one (the option wins)
		if st == fileseq.PadStyleHash1 {
			opts = append(opts, fileseq.FileOptPadStyleHash1)
			stParam = fileseq.PadStyleHash4
		} else {
			opts = append(opts, fileseq.FileOptPadStyleHash4)
			stParam = fileseq.PadStyleHash1
		}
	}
	var o Obs
	s, err := fileseq.FindSequenceOnDiskPad(real, stParam, opts...)
	if err != nil {
		o.Add("err", "err")
		return o.String()
	}
	o.Add("err", "ok")
	if s == nil {
		o.Add("found", "0")
		// nothing returned: the clauses about the result hold vacuously
		o.Add("be", "1")
		o.Add("exist", "1")
		o.Add("strictok", "1")
		o.Add("again", xAgain(real, st))
		o.Add("all", "-")
		return o.String()
	}
	o.Add("found", "1")
	mixed := mixedShapes(ents)
	if !mixed {
		o.Add("seq", hx(canon(root, seqLine(s))))
	}
	ps := paths(s)
	exist := true
	cps := make([]string, len(ps))
	for i, p := range ps {
		cps[i] = canon(root, p)
		if _, err := os.Lstat(p); err != nil {
			exist = false
		}
	}
	if !mixed {
		if s.Len() <= 3000 {
			o.Add("paths", hexList(cps))
		} else {
			o.Add("paths", "big")
		}
	}
	be := false
	strictok := true
	if t, err := fileseq.NewFileSequencePad(real, st); err == nil {
		be = t.Basename() == s.Basename() && t.Ext() == s.Ext()
		if strict && t.Padding() != "" && s.ZFill() != t.ZFill() {
			strictok = false
		}
	}
	o.Add("be", showBool(be))
	o.Add("exist", showBool(exist))
	o.Add("strictok", showBool(strictok))
	o.Add("again", xAgain(real, st))
	// every frame path of the result, in byte order (completeness: with one digit width on disk
	// these are all the files <basename><frame number><ext>)
	if mixed {
		// which width group comes first depends on map order: no exact prediction
	} else if s.Len() <= 3000 {
		sorted := append([]string(nil), cps...)
		sort.Strings(sorted)
		o.Add("all", hexList(sorted))
	} else {
		o.Add("all", "big")
	}
	return o.String()
}

// ---- generators ----

func entsString(ents []entry) string {
	if len(ents) == 0 {
		return "~"
	}
	toks := make([]string, len(ents))
	for i, e := range ents {
		toks[i] = hx(e.name) + ":" + string(e.kind)
	}
	return strings.Join(toks, ",")
}

func validName(n string) bool {
	return n != "" && n != "." && n != ".." && !strings.ContainsAny(n, "/\x00\\") && len(n) < 200
}

func genEntries(r *Rand, adversarial bool, base, ext string) []entry {
	seen := map[string]bool{}
	var ents []entry
	add := func(n string, k byte) {
		if validName(n) && !seen[n] {
			seen[n] = true
			ents = append(ents, entry{n, k})
		}
	}
	nkeys := r.Range(0, 3)
	for k := 0; k < nkeys; k++ {
		b, e := r.Pick(listBases), r.Pick(listExts)
		if adversarial && k == 0 {
			b, e = base, ext
		}
		w := r.Range(1, 5)
		uniform := r.Chance(2, 3)
		for j := r.Range(1, 7); j > 0; j-- {
			v := r.Range(0, 300)
			ww := w
			if !uniform {
				ww = r.Range(1, 5)
			}
			num := fmt.Sprintf("%0*d", ww, v)
			if r.Chance(1, 10) {
				num = "-" + num
			}
			kind := byte('f')
			if r.Chance(1, 8) {
				kind = 'l'
			}
			if r.Chance(1, 25) {
				kind = 'v'
			}
			add(b+num+e, kind)
		}
	}
	extras := []string{"readme", ".hidden", ".h.1.exr", "sub", "sub2.d", "123", "a b.txt", "x#y", "f@", "q%04d.e", "nl\nname.1.x", "-0", "z.-0.e"}
	for j := r.Range(0, 4); j > 0; j-- {
		n := r.Pick(extras)
		kind := byte("ffffdlLxv"[r.Intn(9)])
		if r.Chance(1, 3) {
			kind = 'f'
		}
		add(n, kind)
	}
	if adversarial {
		sib := []string{base + ext, base + "bar" + ext, base + "1-5" + ext, base + "1,2" + ext, base + "+5" + ext, base + "99999999999999999999" + ext,
			base + "-" + ext, base + "1x" + ext, base, ext, base + "0001", "0001" + ext, base + "#" + ext, base + "0001" + ext + "~"}
		if len(base) > 1 && len(ext) > 0 {
			// overlapping prefix / suffix: shorter than base+ext
			sib = append(sib, base[:len(base)-1]+ext, base+ext[1:])
			if base[len(base)-1] == ext[0] {
				sib = append(sib, base+ext[1:])
			}
		}
		for j := r.Range(1, 5); j > 0; j-- {
			add(r.Pick(sib), 'f')
		}
	}
	return ents
}

// disk.root <mask> <style> <hex spelling of "/">: the real root directory is scanned; its content is
// not known to the model, so only the shape of the results is observed: every sequence lies
// directly under "/" (Dirname "/", no doubled separator)
func opDiskRoot(f []string) string {
	mask := atoi(f[1])
	arg := unhx(f[3])
	under := true
	seqs, err := fileseq.FindSequencesOnDisk(arg, listOpts(mask, f[2], mask%2 == 1)...)
	if err == nil {
		for _, s := range seqs {
			p := s.Index(0)
			if s.Dirname() != "/" || !strings.HasPrefix(p, "/") || strings.HasPrefix(p, "//") || strings.Contains(p[1:], "/") {
				under = false
			}
		}
	}
	if lf, err := fileseq.ListFiles(arg); err == nil {
		for _, s := range lf {
			if s.Dirname() != "/" {
				under = false
			}
		}
	}
	return "under=" + showBool(under)
}

func init() { operations["disk.root"] = opDiskRoot }

func genDiskScan(r *Rand, n int, thorough bool, emit func(string)) {
	for _, sp := range []string{"/", "//", "/./", "/tmp/..", "/../"} {
		emit(fmt.Sprintf("disk.root %d %s %s", r.Intn(4), r.Pick([]string{"1", "4"}), hx(sp)))
	}
	args := []string{"/T/d", "/T/d/", "d", "./d", "d/", "./d/", ".", "/T/./d", "/T/d/../d", "/T//d", "/T/dl", "dl", "/T/dl/", "./dl", "/T/hop/../dm", "hop/../dm/"}
	for i := 0; i < n; i++ {
		ents := genEntries(r, false, "", "")
		arg := r.Pick(args)
		dirok := "1"
		if r.Chance(1, 15) {
			arg = r.Pick([]string{"/T/nope", "/T/regfile", "/T/d/nope/x", "nope"})
			dirok = "0"
		}
		dn := ""
		if dirok == "1" && r.Chance(1, 4) {
			// the directory's own name carries pad characters, digits, dots or a space
			name := r.Pick([]string{"d#x", "sh010.comp", "v1.2", "a@b", "1-5", "d d", "%04d", "x.0001"})
			comps := strings.Split(arg, "/")
			for j, c := range comps {
				if c == "d" {
					comps[j] = name
				}
			}
			arg = strings.Join(comps, "/")
			dn = " " + hx(name)
		}
		emit(fmt.Sprintf("disk.scan %d %s %s %s %s%s", r.Intn(4), r.Pick([]string{"1", "4"}), hx(arg), dirok, entsString(ents), dn))
	}
}

// xAgain: a strict lookup, a loose one through a PREFIX of the same option slice (spare capacity),
// the strict one again — the option list is the caller's, the library may not write to it, so the
// first and third answers are the same
func xAgain(pattern string, st fileseq.PadStyle) string {
	all := append(make([]fileseq.FileOption, 0, 8), fileseq.HiddenFiles, fileseq.StrictPadding)
	show := func(s *fileseq.FileSequence, err error) string {
		if err != nil {
			return "err"
		}
		if s == nil {
			return "nil"
		}
		return s.String() + "|" + strconv.Itoa(s.ZFill())
	}
	r1 := show(fileseq.FindSequenceOnDiskPad(pattern, st, all...))
	_, _ = fileseq.FindSequenceOnDiskPad(pattern, st, all[:1]...)
	r3 := show(fileseq.FindSequenceOnDiskPad(pattern, st, all...))
	// … and the same list twice with StrictPadding first and the style as an option behind it
	styleOpt := fileseq.FileOptPadStyleHash4
	if st == fileseq.PadStyleHash1 {
		styleOpt = fileseq.FileOptPadStyleHash1
	}
	all2 := []fileseq.FileOption{fileseq.StrictPadding, styleOpt, fileseq.HiddenFiles}
	q1 := show(fileseq.FindSequenceOnDiskPad(pattern, st, all2...))
	q2 := show(fileseq.FindSequenceOnDiskPad(pattern, st, all2...))
	intact := all2[0] == fileseq.StrictPadding && all2[1] == styleOpt && all2[2] == fileseq.HiddenFiles
	return showBool(r1 == r3 && q1 == q2 && intact)
}

func genDiskFind(r *Rand, n int, thorough bool, emit func(string)) {
	pads := []string{"#", "@", "@@", "##", "%04d", "%02d", "$F4", "$F", "1-10#", "1-5@@", "0001", "12", "", "<UDIM>"}
	for i := 0; i < n; i++ {
		base := r.Pick([]string{"foo.", "foo_", "foo", "a.b.", "img-", "x.1.", "ff"})
		ext := r.Pick([]string{".exr", ".tar.gz", "", ".e", ".f"})
		ents := genEntries(r, true, base, ext)
		dir := r.Pick([]string{"/T/d/", "d/", "./d/", "/T/d//", "/T/hop/../dm/", "hop/../dm/", ""})
		dirok := "1"
		if r.Chance(1, 20) {
			dir = "/T/nope/"
			dirok = "0"
		}
		if r.Chance(1, 4) {
			// a uniformly padded target sequence among siblings that are no frames of it: the
			// completeness clause applies (every file <base><frame><ext> must be returned)
			ents = nil
			w := r.Range(1, 5)
			seen := map[string]bool{}
			lim := 1
			for d := 0; d < w; d++ {
				lim *= 10
			}
			for k := r.Range(1, 7); k > 0; k-- {
				v := r.Range(0, 300) % lim
				nm := fmt.Sprintf("%s%0*d%s", base, w, v, ext)
				if w >= 2 && r.Chance(1, 6) && v > 0 && v < lim/10 {
					nm = fmt.Sprintf("%s-%0*d%s", base, w-1, v, ext)
				}
				if !seen[nm] {
					seen[nm] = true
					ents = append(ents, entry{nm, "fl"[r.Intn(2)]})
				}
			}
			for _, sib := range []string{base + ext, base + "x" + ext, "notes.txt", "sub", "." + base + "7" + ext, base + "1-5" + ext, base + "+3" + ext} {
				if r.Chance(1, 3) && !seen[sib] && sib != "" {
					seen[sib] = true
					k := byte('f')
					if sib == "sub" {
						k = 'd'
					}
					ents = append(ents, entry{sib, k})
				}
			}
		}
		pat := dir + base + r.Pick(pads) + ext
		if r.Chance(1, 25) {
			pat = dir + "bad\n#name"
		}
		emit(fmt.Sprintf("disk.find %s %d %s %s %s", r.Pick([]string{"1", "4"}), r.Intn(8), hx(pat), dirok, entsString(ents)))
	}
}
