"""Per-property configuration of the check driver."""

HOOKS = {}

TRUSTED_BASE = [
    "Lean 4.33.0 kernel (thorough tier: re-checked by leanchecker)",
    "axioms allowed in property theorems: propext, Classical.choice, Quot.sound (audited by #print axioms on every run)",
    "hand-written Lean model of the Go code, tied by the behavioural correspondence run (sampling / bounded enumeration)",
    "Go harness, Lean driver executable (Lean compiler and runtime), canonicalisation and diff in check",
    "Go standard library (regexp, strconv, fmt, sort, strings, path/filepath) is modelled, not verified",
]


def _obs(s):
    d = {}
    for kv in s.split(";"):
        k, _, v = kv.partition("=")
        d[k] = v
    return d


def _m(model_line):
    p = model_line.split("\t")
    return _obs(p[1]) if len(p) > 1 else {}


def classify_c13(op, impl, model_line):
    m = _m(model_line)
    kind = op.split(" ", 1)[0]
    try:
        ln = int(m.get("len", "0"))
    except ValueError:
        ln = 0
    if kind == "rng":
        if ln < 2:
            return None
        f = op.split(" ")
        s, e, st = int(f[1]), int(f[2]), int(f[3])
        return "rng:" + ("asc" if s < e else "desc") + (":stepped" if abs(st) > 1 else ":unit") + (":huge" if abs(s) > 10**6 else "")
    if kind == "rngs":
        nblocks = m.get("str", "").count("2c") + 1
        if ln < 2 or op.split(" ")[1].count("/") < 1:
            return None
        return "hist:" + ("multi-block" if nblocks > 1 else "one-block")
    return None


def classify_fs(op, impl, model_line):
    m = _m(model_line)
    f = op.split(" ")
    if m.get("err") == "err":
        return "reject:" + ("grammar" if f[2] == "-" else "zero-step")
    try:
        ln = int(m.get("len", "0"))
    except ValueError:
        return None
    if ln < 2:
        return None
    ast = f[2]
    if ast == "-":
        return "accept:mutated"
    mods = "".join(sorted(set(c.split(":")[3] for c in ast.split("/") if c.startswith("c:"))))
    return f"accept:{min(ast.count('/') + 1, 4)}comp:{mods or 'plain'}"


PROPS = {
    "C13": dict(
        n_quick=12000, n_thorough=400000,
        classify=classify_c13,
        rule="ops rng (one NewInclusiveRange, all accessors, index window [-2,len+2], value window [min-2,max+2]) "
             "and rngs (AppendUnique history, all accessors, print->parse); generated from a splitmix64 stream: small cube, "
             "translated coordinates (+-1e9, +-1e12), alphabet histories, long random histories; thorough adds the full cube "
             "[-7,7]^3 and all histories of length <=3 over 12 triples. non-trivial = distinct op with >= 2 values "
             "(histories: >= 2 appends)",
        assumptions=["A-float: Len() computed through float64 equals exact ceiling division below 2^53",
                     "int overflow not modelled; generators keep |values| <= 1e12+40"],
    ),
    "C01": dict(
        n_quick=12000, n_thorough=300000,
        classify=classify_fs,
        rule="op fs.parse: range text rendered from a random AST (1-6 components, thorough up to 12; each sign, direction, "
             "modifier, |N| in 1..7 and large, negative N, leading zeros, junk ' #@' sprinkled anywhere) with the AST "
             "as the specification side; plus mutated texts and overflowing numerals (reject side); thorough adds every "
             "string of length <= 5 over the alphabet 012-xy:, #a. ; non-trivial = distinct op that is rejected or "
             "denotes >= 2 frames",
        assumptions=["sign of the step N is ignored, direction is that of A->B (DESIGN §6 C01)"],
    ),
    "C02": dict(
        n_quick=12000, n_thorough=300000,
        classify=classify_fs,
        rule="op fs.parse on multi-component (2-7) overlapping / descending / stepped range texts, querying every index in "
             "[-2,len+2] and every integer in [min-2,max+2] (sampled when the window exceeds 40/60); non-trivial = distinct "
             "accepted op with >= 2 frames or a rejected one",
        assumptions=["see C01"],
    ),
}

def classify_c08(op, impl, model_line):
    m = _m(model_line)
    if m.get("err") != "ok":
        return None
    nf = m.get("nframes", "")
    if "," not in nf and not nf.startswith("#"):
        return None
    return "norm:" + ("with-gaps" if m.get("iframes", "-") != "-" else "contiguous")


def classify_c11(op, impl, model_line):
    m = _m(model_line)
    f = op.split(" ")
    if f[1] == "-":
        return None
    return "padrange:" + ("changed" if m.get("out") != f[1] else "unchanged") + (":w<2" if int(f[2]) < 2 else "")


PROPS["C08"] = dict(
    n_quick=8000, n_thorough=150000, classify=classify_c08,
    rule="op fs.norm: Normalize / Invert / InvertedFrameRange(pad) of an accepted range text (1-6 random components, all "
         "modifiers, both directions, junk), compared with sortedSet / complement of the frame list, re-parse of both "
         "strings, idempotence, reversed-component order, padded vs unpadded inverse; thorough adds every non-empty subset "
         "of 12 consecutive integers in ascending and descending presentation; non-trivial = >= 2 frames",
    assumptions=["numbers fit an int (re-parse theorems carry an explicit Fits hypothesis)"],
)
PROPS["C11"] = dict(
    n_quick=8000, n_thorough=200000, classify=classify_c11,
    rule="op padrange: PadFrameRange(text, w) for w in -1..8 on valid, partially invalid, spaced, pad-char-bearing and "
         "mutated range texts; observed: output, component count, same parse, idempotence, numeral widths, equality up "
         "to leading zeros; non-trivial = non-empty text",
)

def classify_seq(op, impl, model_line):
    f = op.split(" ")
    parts = model_line.split("\t")
    S = parts[3] if len(parts) > 3 else "-"
    if len(f) == 10:
        if "dir=" in S:
            pad = bytes.fromhex(f[8]).decode("latin-1") if f[8] != "-" else ""
            kind = "chars" if pad and pad[0] in "#@" else ("printf" if pad.startswith("%") and "UDIM" not in pad else ("houdini" if pad.startswith("$") else "udim"))
            return f"unambiguous:{kind}:style{f[1]}"
        return "hypothesis-violated"
    if len(f) == 6 and f[5] == "single":
        return "single-file"
    return "mutated-or-exhaustive"


def classify_c09(op, impl, model_line):
    f = op.split(" ")
    n = 0 if f[1] == "-" else f[1].count(",") + 1
    if n < 3:
        return None
    return f"f2r:sorted{f[2]}:" + ("zfill" if int(f[3]) >= 2 else "plain")


def classify_c10(op, impl, model_line):
    k = op.split(" ", 1)[0]
    if k == "seq.ops":
        return "style-switch-history"
    return k


PROPS["C03"] = dict(
    n_quick=8000, n_thorough=60000, classify=classify_seq,
    rule="op seq: NewFileSequencePad(style, text) with all getters, String, Format(default template), Frame/Index queries; "
         "text = dir+base+range+pad+ext from generators over 12 dirs x 16 bases (+ random basenames) x random range texts x 23 "
         "pad tokens x 11 extensions x both styles, with the 5-tuple as specification side when it lies in Spec.unambig; plus "
         "tuples violating one hypothesis at a time, concrete single-file paths, mutated strings; thorough adds every string "
         "of length <= 4 over a 13-symbol alphabet (pins the regex character classes); non-trivial = any distinct op, class = domain",
    assumptions=["text/template engine trusted: Format(default template) is modelled as String()",
                 "Windows path separators not modelled"],
)
PROPS["C09"] = dict(
    n_quick=8000, n_thorough=150000, classify=classify_c09,
    rule="op f2r: FramesToFrameRange(list, sorted, zfill 0..6) on random duplicate-free lists with planted runs of every "
         "stride/direction (scale 12 and 2000), re-parsed with NewFrameSet; thorough adds all duplicate-free lists of length "
         "<= 5 over [-3..6]; non-trivial = >= 3 frames",
    assumptions=["values and pairwise differences fit an int (theorem hypothesis Fits)"],
)
PROPS["C10"] = dict(
    n_quick=3000, n_thorough=60000, classify=classify_c10,
    rule="ops pad.chars (width -> chars -> width; quick: widths -1..64 + random to 4096, thorough: all -1..4096, both styles), "
         "pad.size (every {#,@} string up to length 6 / thorough 12, the token table, random printf/houdini widths), seq.ops "
         "histories of SetPadding / SetPaddingStyle switches checking width and frame paths; non-trivial = any distinct op",
)

def classify_c12(op, impl, model_line):
    f = op.split(" ")
    ops = "".join(sorted(set(t.split(":")[0] for t in f[3:])))
    if len(f) < 5:
        return None
    return "hist:" + ("copy/split" if ("C" in ops or "S" in ops) else "setters") + f":len{min(len(f) - 3, 6)}"


PROPS["C04"] = dict(
    n_quick=8000, n_thorough=60000, classify=classify_seq,
    rule="op seq as for C03, here with the frame-path side: Frame(f) for 9 frame numbers (0, +-1, wider than the pad, negative, "
         "random), Index(i) for i in {-1, 0, len-1, len} and interior indices, distinctness of all len paths (len <= 300), "
         "string-typed frames; concrete single-file paths base+digits+ext with every zero padding, sign and extension shape "
         "(tagged 'single': index 0 must give the path back); non-trivial = any distinct op, class = domain",
    assumptions=["frame numbers fit an int"],
)
PROPS["C12"] = dict(
    n_quick=6000, n_thorough=80000, classify=classify_c12,
    rule="op seq.ops: a random history (1-8 calls) of SetDirname/SetBasename/SetExt/SetPadding/SetPaddingStyle/"
         "SetFrameRange(valid|invalid)/SetFrameSet/Normalize/Copy/Split on a parsed sequence of either pad style, with a snapshot "
         "(String, five components, width, style, len, first and last path) and a self-consistency verdict after every call "
         "(string invariant, what the call must and must not change, Copy equality and independence, Split parts and "
         "concatenation); non-trivial = history of >= 2 calls",
)


PROPS["C15"] = dict(
    n_quick=6000, n_thorough=150000, classify=lambda op, i, m: "fuzz:" + ("range-ok" if "fsok=1" in m else ("seq-ok" if "seq4=err" not in m else "all-rejected")),
    rule="op fuzz: one byte string (<= 300 bytes; grammar-derived corpus, splices, mutations, structural-alphabet noise incl. "
         "non-UTF-8, newlines, template syntax; numerals capped at 4 digits, '\\' excluded) through NewFrameSet, IsFrameRange, "
         "NewFileSequencePad (both styles), PadFrameRange, FindSequencesInList; every accepted sequence is then queried, "
         "formatted with 10 templates (incl. the input itself), split, copied and mutated, all under recover; a panic fails "
         "the op; non-trivial = any distinct input",
    assumptions=["text/template and regexp are trusted not to panic on their own; Format results are not compared (engine not modelled)",
                 "inputs containing a backslash are excluded (Windows separator logic is not modelled)"],
)


PROPS["C14"] = dict(
    n_quick=6000, n_thorough=200000, op_deadline=8,
    classify=lambda op, i, m: "huge:" + ("stepped" if op.split(" ")[3] != "0" else "plain") + ":" + ("desc" if int(op.split(" ")[1]) > int(op.split(" ")[2]) else "asc") + ":1e" + str(len(str(abs(int(op.split(" ")[1]) - int(op.split(" ")[2]))))),
    rule="op huge: NewFrameSet / NewFileSequence of one range A-B or A-BxN with |A|,|B| up to 1e3, 1e6, 1e9, 1e12, 1e13, both "
         "directions, N in {1,2,3,7,10,999,1e6,random<=1e6} of either sign; queries at the boundaries (index -2..2, len-3..len+2), "
         "at random interior members and at their neighbours; observed: len, start, end, frame-at-index, index-of-frame, "
         "membership, String, frame paths, and 'cheap' (the whole op allocated < 256 KiB and took < 2 s); compared with the "
         "model and with the closed-form specification; non-trivial = any distinct op",
    assumptions=["A-float (Len through float64 exact below 2^53)", "time and allocation are measured, not proved"],
)
PROPS["C16"] = dict(
    n_quick=60, n_thorough=1500, search_n=150, impl_cmd=[__import__("os").path.join(__import__("os").path.dirname(__import__("os").path.dirname(__import__("os").path.abspath(__file__))), "build", "racer"), "run"],
    pre=["build_racer"], timeout=1800,
    classify=lambda op, i, m: "race:" + op.split(" ")[2] + "goroutines",
    rule="op race: a FRESH process built with -race in which 2-16 goroutines, released by one barrier as the very first library "
         "calls of the process, each issue 5-60 random API calls on their own values and their own directory (two sequences, a plain "
         "file, three links to files and one to a directory): FindSequencesOnDisk, FindSequenceOnDisk, ListFiles, pad widths up to 21 "
         "and zfill up to 40 (NewFrameSet, NewFileSequencePad of both "
         "styles, SetPaddingStyle, Format, Copy, Split, IsFrameRange, PadFrameRange, FramesToFrameRange, FindSequencesInList, "
         "PaddingChars); then, eight times, Copy() and Split()[0] values of a master sequence nobody has queried are handed to the "
         "goroutines, which ask End/Len/Start/Index/HasFrame at once (copies are separate values); "
         "a race report, a crash, or results differing from a sequential re-computation fail the op; "
         "non-trivial = any distinct op",
    assumptions=["Go memory model and race detector; schedules of the real code are sampled"],
)
PROPS["C17"] = dict(
    n_quick=250, n_thorough=6000, search_n=400, pre=["build_clis"], timeout=2400,
    classify=lambda op, i, m: "seqls:" + op.split(" ")[1],
    rule="op seqls: the real binary (built from /repo/cmd/seqls on every run) on a generated tree (1-6 directories, depth <= 4, "
         "hidden directories and files, empty directories, file links, one directory link per target placed in the tree root; "
         "flag 'C': aliased and cyclic links anywhere, termination only) x random subsets of -r -a -s --hash1 -f x 1-3 root "
         "arguments (directories in 4 spellings, '.', the absolute root, a missing path, a pattern); every tenth op is a flat tree of "
         "100-180 directories all passed as arguments (more queued work than the 50 workers); every tenth a cyclic link next to 1-4 "
         "links to flat directories (exact listing: every link of a directory is recorded before anything below it is visited), "
         "with or without a pattern argument whose file name has 250-400 bytes; for pattern-only invocations the specification "
         "side states the cover too (the files <basename><frame><ext> of the pattern's directory when they share one digit width); "
         "every op runs the binary "
         "with GOMAXPROCS 1, 2 and 16 under a 20 s deadline; observed: sorted lines, their expansion (exact cover vs the selected "
         "files, once per visiting path), error-line count, run-to-run stability, timeout; non-trivial = any distinct op",
    assumptions=["fastwalk: callback once per entry, returns after all callbacks", "scheduler fairness", "schedules of the real binary are sampled",
                 "basenames in generated trees do not end in a digit or '-', so that a printed line re-parses unambiguously"],
)
PROPS["C18"] = dict(
    n_quick=400, n_thorough=8000, search_n=600, pre=["build_clis"], timeout=2400,
    classify=lambda op, i, m: "seqinfo:" + op.split(" ")[1] + ":" + op.split(" ")[2],
    rule="op seqinfo: the real binary (built from /repo/cmd/seqinfo on every run) on 1-64 valid-UTF-8 patterns (duplicates, "
         "malformed ones) through arguments or stdin x random subsets of --hash1 -d -b -r -p -e --format (8 templates of literal "
         "text and niladic actions) --inverted -i -f, always with --json parsed back, three runs with GOMAXPROCS 1 / 16 / 4, plus "
         "a plain-output run, plus one run of a race-detector build (two or more patterns; every case in the thorough tier, one in "
         "four in the quick tier: a race report fails the op); observed: one entry per distinct pattern with all 12 fields, "
         "plain/json agreement, run-to-run "
         "stability; a crash fails the op; non-trivial = any distinct op",
    assumptions=["go-flags argument parsing trusted", "text/template trusted for the generated templates"],
)
PROPS["C20"] = dict(
    n_quick=3000, n_thorough=40000, impl_cmd=[__import__("os").path.join(__import__("os").path.dirname(__import__("os").path.dirname(__import__("os").path.abspath(__file__))), "build", "handles", "handlesdrv")],
    pre=["build_handles"], timeout=1500,
    classify=lambda op, i, m: ("stress:" + op.split(" ")[2] + "threads") if op.startswith("hstress") else (("sched:" + op.split(" ")[1] + ":" + op.split(" ")[2] + "threads") if op.startswith("hsched") else ("history:" + ("stale" if "X" in op or "g0" in m else "live"))),
    rule="ops hsched (a scenario of 2-4 threads x 0-5 owner operations on 1-2 shared handles of one or both tables, run under 150 "
         "(thorough 1500) DETERMINISTIC schedules of an instrumented copy of /repo's storage.go + uuid.go — a scheduling point before "
         "every statement, lock and atomic operation, cooperative scheduler with one PRNG state, four stay-on-thread biases; per "
         "schedule: owned handle resolves, ids non-zero and distinct, nothing resolves after the last release, live count back to "
         "the start, no deadlock / livelock / panic; the failing schedule index is the replay), handles (single-threaded history of Add/Incref/Decref/Get/Len on up to 8 handles of either map, incl. handles "
         "already released and unknown ids; every result and Len compared with the sequential model; ids checked non-zero and "
         "distinct) and hstress (2-8 goroutines x 1-8 handles x up to 3000 random owner-only operations, built with -race: no "
         "failed lookup while owned, live count back to the start at quiescence, no race report; each op starts with an add storm: "
         "all goroutines create handles at once, the ids must be non-zero, pairwise distinct, resolvable and counted) and hseed (a "
         "table's generator is put in a chosen state — the pre-images under up to 5 inverse xorshift steps of 1, 2, 3, ..., 2^63, "
         "2^64-1, and random states — and 1-12 objects are created: the ids equal the model's next states (Xorshift.nth), none is "
         "zero, all differ, all resolve and are counted); the driver is built on every "
         "run from unchanged copies of /repo/exp/cpp/export/storage.go and uuid.go; non-trivial = any distinct op",
    assumptions=["interleavings of the real code are sampled (deterministic schedules of the instrumented copy, race detector + stress of the unchanged copy); the theorems cover all interleavings of the model",
                 "full period 2^64-1 of xorshift64 is cited, not proved"],
)


def _negzero_single(op, impl, model_line):
    if not op.endswith(" single"):
        return False
    rng = _m(model_line).get("rng", "-")
    if rng == "-":
        return False
    try:
        t = bytes.fromhex(rng).decode("latin-1")
    except ValueError:
        return False
    return len(t) >= 2 and t[0] == "-" and set(t[1:]) == {"0"}


def _negzero_marker(op, impl, model_line):
    return "~negzero=1" in model_line


KNOWN_CLASSES = {"negzero-single-file": _negzero_single, "negzero-token": _negzero_marker}


def classify_list(op, impl, model_line):
    f = op.split(" ")
    n = 0 if f[3] == "~" else f[3].count(",") + 1
    if n < 2:
        return None
    m = _m(model_line)
    nseq = 0 if m.get("seqs", "-") in ("-", "skip") else m["seqs"].count(",") + 1
    return f"list:opts{f[1]}:" + ("grouped" if nseq < n else "all-single")


PROPS["C05"] = dict(
    n_quick=5000, n_thorough=60000, classify=classify_list,
    rule="op list: FindSequencesInList on 1-4 keys (16 dirs incl. pad-char / digit-dot / relative / unclean, 15 basenames incl. "
         "digit- and dash-ending and hidden, 9 extensions) x 1-8 frames each with uniform or mixed widths 1-6, leading zeros, "
         "signs, frameless and odd names (newline, '123', '-0'), shuffled, all 4 option subsets x both styles; observed: the "
         "sequences, their full expansion (exact cover vs the cleaned inputs), result without SingleFiles vs filtered result, "
         "hidden names, reversed input order; thorough adds all subsets of two 9-name universes; non-trivial = >= 2 paths",
    assumptions=["sort.Slice is not stable beyond 12 elements: exact grouping is not compared when a directory holds > 12 paths",
                 "paths containing a backslash are not generated (Windows separator logic not modelled)"],
)
PROPS["C06"] = dict(
    n_quick=1500, n_thorough=20000, classify=lambda op, i, m: "scan:" + ("error" if "err=err" in m.split("\t")[1] else "ok") + ":" + bytes.fromhex(op.split(" ")[3]).decode("latin-1"),
    timeout=1200,
    rule="op disk.scan: a generated directory description (regular files, sub-directories, symlinks to files / directories, "
         "dangling links, hidden entries, odd names, empty) is materialised under a fresh temp directory and scanned with "
         "FindSequencesOnDisk and ListFiles through 10 spellings of the argument (absolute, trailing slash, relative, ./, '.', "
         "unclean) plus missing / not-a-directory arguments, all option subsets, both styles; compared with the model's answer "
         "for the description; non-trivial = any distinct op, class = outcome x spelling",
    assumptions=["the sandbox runs as root: an unreadable directory is simulated by a missing path and by a regular file",
                 "Readdir order is arbitrary: exact grouping is not compared when two names differ only in a digit-run length"],
)
PROPS["C07"] = dict(
    n_quick=1500, n_thorough=20000, classify=lambda op, i, m: "find:" + ("found" if "found=1" in m else ("none" if "found=0" in m else "error")) + ":opts" + op.split(" ")[2],
    timeout=1200,
    rule="op disk.find: FindSequenceOnDiskPad(pattern, style, StrictPadding? SingleFiles?) against a materialised directory holding a target "
         "sequence plus adversarial siblings (base+ext with nothing between, overlapping prefix/suffix, text / range-like / "
         "'+5' / overflowing / '-' middles, other widths, negative frames, links, sub-directories); patterns over 14 pad / "
         "range / concrete-frame forms x 7 basenames x 5 extensions; observed: result, its paths, existence of every path on "
         "disk, basename/extension; a panic fails the op; non-trivial = any distinct op",
    assumptions=["as C06"],
)

def classify_c19(op, impl, model_line):
    k = op.split(" ", 1)[0]
    dom = "in-domain" if "\tS\t-\tR\t" not in model_line else "outside"
    return f"{k}:{dom}"


_VERIF = __import__("os").path.dirname(__import__("os").path.dirname(__import__("os").path.abspath(__file__)))
PROPS["C19"] = dict(
    n_quick=16000, n_thorough=300000, classify=classify_c19, pre=["build_cpp"], timeout=1800, op_deadline=20,
    impl_cmd=[__import__("os").path.join(_VERIF, "build", "cpp", "cppdriver")],
    ref_cmd=[__import__("os").path.join(_VERIF, "build", "gfsharness"), "run"],
    rule="three-way run of the x.* operations: the C++ port (driver built from /repo/cpp on every run), the Go library (harness "
         "linked against /repo) and the Lean driver answer the same lines. Inputs: the generators of C01/C02 (x.fs: validity, "
         "frames, length, index window [-2,len+2], membership window, start/end, normalised and inverted range and frames, padded "
         "and padded-inverted range as numbers + width check), C08 texts, C09 (x.f2r), C11 (x.padrange), C10 (x.pad widths -1..4096, "
         "x.padsize tokens), C03/C04 (x.seq: components, width, len, start/end, String, frame paths for 9 frame numbers, index "
         "paths), and generated directories of 1-4 uniformly zero-padded multi-frame sequences + frame-less / hidden files + "
         "sub-directories, basenames that themselves hold pad characters / range-like text / printf tokens, frame numbers beyond "
         "32 bits, and (one op in four) a directory whose own name holds pad characters, digits, dots or a space "
         "(x.scan over the 4 option subsets x 2 styles, x.find over 8 pattern forms, one in four from INSIDE the directory with a "
         "pattern that has no directory part), each materialised by each implementation in its own temp directory; membership "
         "is also asked of the normalised and inverted sets; numerals, steps and frame queries at LONG_MIN / LONG_MAX; a failing "
         "scan followed in the same process by a scan without sequences and a lookup without match; x.global: three sequences "
         "the driver (linked first) constructs during static initialisation. The port and the driver are built with UBSan "
         "(undefined behaviour stops the driver at the operation). The property fails on an op when a field inside the domain (numbers within a "
         "long, >= 1 frame, sequence has a basename / extension / range) differs between the two real implementations; "
         "non-trivial = any distinct op, class = op x in/outside the domain",
    assumptions=["std::regex (ECMAScript) vs RE2, readdir / stat and std::map order are tied by correspondence only (the scan and the lookup themselves are modelled: Cpp.scan, Cpp.find)",
                 "numbers outside a C long (std::stol throws) and ranges denoting no frame are outside the property's domain",
                 "frame paths for string-typed frames (FileSequence::frame(std::string)) are not part of the compared observation"],
    trusted=["g++ / libstdc++ (std::regex, streams, strtol) are trusted; the C++ driver (cppdriver/main.cpp) is part of the trusted harness"],
)

NOT_YET = {}

MANIFEST_TEXT = {
    "C13": dict(
        text="Theorems (Lean 4, unbounded integers, no size bound) that the model of InclusiveRange / InclusiveRanges.AppendUnique "
             "agrees with the plainly recursive enumeration spec; the model is tied to ranges.go by running both on the same "
             "generated operations on every check.",
        note="Trusted: Lean kernel; hand-written model of ranges.go (tied by correspondence sampling); float Len() assumed exact "
             "below 2^53; int overflow not modelled."),
    "C01": dict(
        text="Theorems that the model parser (strip junk, split, three patterns, handleMatch, AppendUnique) yields the AST "
             "denotation for every range text; tie by differential run on grammar-generated and mutated texts.",
        note="Trusted: Lean kernel; model of frameset.go/fileseq.go regex stage (hand-written recogniser for the three anchored "
             "patterns, Go regexp trusted); sign of N ignored by interpretation."),
    "C03": dict(
        text="Theorems: for every tuple in the decidable unambiguous domain (Spec.unambig) the model parser returns exactly the "
             "five components, the pad width the token denotes under the style and the frame set of the range, and String() "
             "reproduces the input; the hand-written recogniser for splitPattern is tied to Go's regexp by exhaustive short "
             "strings and generated tuples on every run.",
        note="Trusted: Lean kernel; regex recogniser as model of Go regexp (leftmost-first), tied by correspondence; "
             "text/template trusted; unambig is deliberately conservative on '%', '$', '<' in names."),
    "C09": dict(
        text="Theorems: for every non-empty duplicate-free list (values and differences fitting an int) and every zfill the "
             "model's FramesToFrameRange text parses back to exactly the list (ascending when sorted), numerals are zero "
             "padded to >= zfill; empty list -> empty string.",
        note="Trusted: Lean kernel; model of fileseq.go FramesToFrameRange tied by correspondence; sort.Ints modelled by insertion sort."),
    "C10": dict(
        text="Theorems: padSize (padChars n) = n for all n >= 1 in both styles; width of every {#,@} string; every documented "
             "token has its documented width; style switch keeps width and every frame path.",
        note="Trusted: Lean kernel; model of pad.go tied by correspondence (pad tables observed through every {#,@} string)."),
    "C04": dict(
        text="Theorems: Frame(f) = dir+base+printf-%0Nd(f)+ext for every sequence with a frame set and every integer; Index(i) is "
             "the path of the i-th frame, \"\" outside [0,len); the len paths are pairwise distinct (zero filling injective); "
             "a concrete single-file path gives itself back at index 0, proved for all paths except the recorded finding "
             "(negative-zero frame token), for which the negation is proved at the witness.",
        note="Trusted: Lean kernel; regex recogniser for singleFramePattern as model of Go regexp, tied by correspondence; "
             "known finding C04/neg-zero is listed in known_findings.json and suppressed only for that class."),
    "C12": dict(
        text="Theorems: String() is the concatenation of the current components after any history; each setter changes only its "
             "component (missing '/' and '.' added); a failed SetFrameRange is a no-op; along every history of setters/Copy/Split "
             "from a parsed sequence the frame set re-creates itself, so Copy is the identical value and Split yields one part per "
             "comma component with equal dir/base/pad/width/style/ext whose frames concatenate (first occurrences) to the original's; "
             "for EVERY history, including SetFrameSet(Normalize()) / SetFrameSet(Invert()), the frame set stays well formed and Copy "
             "has the same components, range string, frames, length and the same path at every index, and Split — whenever the range "
             "string re-parses — yields parts with the same components whose frames concatenate to the sequence's "
             "(C12_history_sound, C12_copy_any, C12_split_any).",
        note="Trusted: Lean kernel; model of sequence.go setters/Copy/Split tied by correspondence incl. an aliasing test of Copy; "
             "a printed range string that does not fit an int (re-parse fails) leaves Split to the correspondence run."),
    "C15": dict(
        text="Theorem: IsFrameRange(s) is true exactly when NewFrameSet(s) succeeds, for every byte string; the model's functions "
             "are total (kernel-checked termination) and the guards of the two index expressions are stated. Crash-freedom of the "
             "Go code itself is exercised (every entry point under recover on generated byte strings), not proved.",
        note="Partial: panics inside regexp / text/template / fmt cannot be exhibited by the model; Format with arbitrary templates "
             "is exercised but not modelled. Trusted: Lean kernel, model tie by correspondence."),
    "C05": dict(
        text="Theorems (exact cover): for any list of paths with pairwise distinct cleaned forms and tame names the expansion of the "
             "model's result is a permutation of the selected cleaned inputs — any mix of widths, signs, frameless names, both "
             "styles; without SingleFiles the result is the same minus the non-numbered entries; hidden names are ignored "
             "without the option; the listing never fails; when every (dir, basename, extension) key has one digit width, every "
             "permutation of the input gives the same set of sequences (C05_order).",
        note="Known finding: negative-zero frame tokens "
             "(theorem guard TameName). Trusted: Lean kernel; regex recogniser for optionalFramePattern and sort.Slice (stable "
             "insertion sort for n <= 12) as models, tied by correspondence."),
    "C06": dict(
        text="Theorems: scanning a directory value equals listing (dirPrefix arg, name) for its regular files and links to "
             "non-directories, with the same options; unreadable directory or dangling link is an error; ListFiles = scan with "
             "SingleFiles; every result carries the directory prefix. The OS side (Readdir, Stat, symlinks) is a parameter of the "
             "model and is exercised on real temp directories.",
        note="Partial: kernel directory / symlink / permission semantics cannot be exhibited by the model (root sandbox: EACCES "
             "simulated). Trusted: Lean kernel, correspondence on materialised directories."),
    "C07": dict(
        text="Theorems: unparsable pattern -> nil result; missing directory -> error; a result has the pattern's basename, "
             "extension, the requested style and (StrictPadding) the pattern's width; the glob only buckets names of the form "
             "basename+frame+extension under the pattern's key, so no sibling contributes a phantom frame; slice bounds hold; "
             "completeness: two or more candidates of one digit width give ONE sequence whose range text compresses ALL their "
             "numbers (C07_complete, C07_complete_frames), with StrictPadding exactly when the pattern has no padding or its "
             "width is theirs (C07_complete_strict); a single candidate is returned too (C07_complete_single). The specification side of the run states the same for non-strict lookups.",
        note="Partial: as C06 for the OS side; 'every frame path exists' is checked on real directories (model: exact cover of the "
             "bucket). Known finding: negative-zero frame tokens. Trusted: Lean kernel, correspondence."),
    "C14": dict(
        text="Theorems: the accessors of a single plain/stepped range are the closed forms of GfsSpec.Closed for ALL integers, those "
             "equal the enumerated specification, and on the property's domain no intermediate leaves int64; the loop structure of "
             "the closed-form functions is re-extracted from the sources on every run and must equal the expected one. Time and "
             "allocation are measured per op (< 256 KiB, < 2 s), not proved.",
        note="Partial: memory and time are runtime behaviour; A-float (Len via float64) assumed. Trusted: Lean kernel, gofacts "
             "(go/ast), correspondence."),
    "C16": dict(
        text="Theorems: threads that only read shared state are schedule-independent and conflict-free (any number of threads, "
             "any schedule); the hypothesis is discharged against the code by the regenerated fact that no function outside init "
             "writes package-level state. The Go runtime side is exercised by fresh -race processes from a cold start.",
        note="Partial: Go memory model, stdlib thread safety and the syntactic alias approximation of gofacts are assumed."),
    "C17": dict(
        text="Theorems over the channel pipeline as a transition system, any number of workers >= 1, any items, every schedule: "
             "conservation, no deadlock, termination by a decreasing measure, no send on a closed channel, final printed multiset "
             "= expected, bad items isolated; skeleton of manager.go re-extracted per run. The recursive walk behind -r (fastwalk "
             "callback + cycle cache) terminates on every tree, cyclic and aliased links included: beyond the depth walkBound(tree) "
             "more fuel changes nothing (C17_walk_terminates; the driver runs the walk with exactly that fuel). What each item "
             "yields is the Disk model (C05-C07). The real binary is run on generated trees under three GOMAXPROCS values.",
        note="Partial: fastwalk internals, scheduler fairness and the schedule space of the real binary are outside the model."),
    "C18": dict(
        text="Theorems: one entry per distinct pattern, content independent of the order in which the concurrent parses finish, the "
             "entry is the library's result for that pattern, a failing pattern yields an error entry keyed by itself; the option "
             "pipeline is by definition the model's setters in the documented order; skeleton re-extracted per run.",
        note="Partial: --format with arbitrary templates (text/template) and go-flags are trusted."),
    "C20": dict(
        text="Theorems over a small-step model with one action per Go statement touching shared state, for any number of threads and "
             "handles and every interleaving: count = owned references, resolves while positive, removed exactly at zero, empty at "
             "quiescence, RWMutex discipline, owner lookups succeed, no underflow; xorshift64 step injective and zero-free "
             "(kernel-only, no bv_decide); stale handles are no-ops. The statement skeleton of both maps is re-extracted per run.",
        note="Partial: generator period 2^64-1 cited; interleavings of the real code are sampled (-race stress)."),
    "C08": dict(
        text="Theorems: for every accepted range text with >= 1 frame the model's Normalize yields sortedSet of the frames and "
             "Invert the complement within [min,max], both well-formed; their printed strings re-parse to those lists; "
             "idempotent and order-insensitive. Loop invariant of `normalized` proved for all gap patterns.",
        note="Trusted: Lean kernel; model of ranges.go normalized()/String() tied by correspondence; re-parse theorems assume the "
             "numbers of the result fit an int."),
    "C11": dict(
        text="Theorems: PadFrameRange keeps the comma components in place, pads each frame numeral to >= w keeping its value, "
             "passes non-range parts through, is idempotent, is the identity for w < 2, and the padded text parses to the same "
             "frame set (or both are rejected) for every text and width.",
        note="Trusted: Lean kernel; model of pad.go PadFrameRange / zfillString tied by correspondence."),
    "C19": dict(
        text="Theorems: wherever the port is not a transliteration (getline splitting, stol, isValid, zfill via setw/internal, "
             "padFrameRange re-printing numbers, length >= 1) its own Lean definition agrees with the Go model on the property's "
             "domain — same block list for every accepted text with >= 1 frame, same zero-filled numerals for every value and width, "
             "padded ranges that are texts of the same component list; the port's two-pass directory scan has a model of its own "
             "(Cpp.scan: entry filter order, buckets keyed by (basename, ext) with a running minimum width, numbers only, "
             "string -> constructor -> forced components, single files built by the constructor and then forced) and is proved to "
             "report the same sequences and single files as the Go scan for every directory of the property's domain (C19_scan, "
             "by simulation of the two first passes; per bucket C19_scan_bucket, per frame-less file C19_scan_frameless); the port's "
             "pattern lookup has its own model too (Cpp.find: template scan with the DEFAULT options and pad style, hand-written "
             "frame-number test, first result switched to the caller's style) and is proved equal to the Go lookup (C19_find, "
             "C19_find_rejects); "
             "everywhere else one shared definition models both and the "
             "three-way run (C++ driver built from /repo/cpp, Go harness, Lean driver) checks that both implementations follow it "
             "and agree with each other field by field.",
        note="Partial: std::regex vs RE2 (one shared model of each pattern), readdir / d_type / stat and the iteration order of "
             "std::map (sorted away by the observation) are tied by the three-way correspondence only, not proved. "
             "Trusted: Lean kernel, g++/libstdc++, the C++ protocol driver.",
        technique="Lean 4 theorems about hand-written executable models of both implementations (shared definitions + GfsModel.Cpp); "
                  "tied to /repo by a three-way differential run (C++ driver built from /repo/cpp, Go harness, compiled Lean driver) on every invocation"),
    "C02": dict(
        text="Theorems that len / frame-at-index / index-of-frame / membership / start / end of the model are views of one "
             "duplicate-free list, for all indices and integers; tie by differential run with full query windows.",
        note="Trusted: as C01/C13."),
}
