"""Greedy shrinking of a failing protocol operation.

Candidates are op-aware (an op whose tokens must stay in sync, e.g. a rendered range text
and its AST, is shrunk through the AST and re-rendered canonically).
"""
import re

HEX = re.compile(r"^(?:[0-9a-f]{2})+$")


def _shrink_int(v):
    out = []
    if v != 0:
        out.append(0)
        out.append(v // 2 if v > 0 else -((-v) // 2))
        out.append(v - 1 if v > 0 else v + 1)
    return [x for x in dict.fromkeys(out) if x != v]


def _shrink_intlist(s):
    if s == "-":
        return []
    xs = s.split(",")
    out = []
    if len(xs) > 1:
        out.append(",".join(xs[: len(xs) // 2]))
        out.append(",".join(xs[len(xs) // 2:]))
        for i in range(len(xs)):
            out.append(",".join(xs[:i] + xs[i + 1:]))
    else:
        out.append("-")
    return out


def _shrink_hex(s):
    if s == "-":
        return []
    b = [s[i:i + 2] for i in range(0, len(s), 2)]
    out = []
    if len(b) > 2:
        out.append("".join(b[: len(b) // 2]))
        out.append("".join(b[len(b) // 2:]))
    for i in range(len(b)):
        out.append("".join(b[:i] + b[i + 1:]) or "-")
    return out


def _shrink_sep(s, sep, inner=None):
    """remove components of a sep-separated token; optionally shrink inside components"""
    if s == "-":
        return []
    xs = s.split(sep)
    out = []
    if len(xs) > 1:
        for i in range(len(xs)):
            out.append(sep.join(xs[:i] + xs[i + 1:]))
    if inner:
        for i, x in enumerate(xs):
            for y in inner(x):
                out.append(sep.join(xs[:i] + [y] + xs[i + 1:]))
    return out


def _shrink_colon_ints(x):
    fs = x.split(":")
    out = []
    for i, f in enumerate(fs):
        if re.match(r"^-?\d+$", f):
            for v in _shrink_int(int(f)):
                out.append(":".join(fs[:i] + [str(v)] + fs[i + 1:]))
    return out


def render_ast(ast):
    parts = []
    for c in ast.split("/"):
        f = c.split(":")
        if f[0] == "s":
            parts.append(f[1])
        elif f[0] == "r":
            parts.append(f"{f[1]}-{f[2]}")
        else:
            m = ":" if f[3] == "c" else f[3]
            parts.append(f"{f[1]}-{f[2]}{m}{f[4]}")
    return ",".join(parts)


def hx(s):
    return s.encode("latin-1").hex() if s else "-"


def candidates(op):
    f = op.split(" ")
    kind = f[0]
    out = []

    def repl(i, vals):
        for v in vals:
            out.append(" ".join(f[:i] + [v] + f[i + 1:]))

    if kind == "rng":
        for i in (1, 2, 3):
            repl(i, [str(v) for v in _shrink_int(int(f[i]))])
        repl(4, _shrink_intlist(f[4]))
        repl(5, _shrink_intlist(f[5]))
    elif kind == "rngs":
        repl(1, _shrink_sep(f[1], "/", _shrink_colon_ints))
        repl(2, _shrink_intlist(f[2]))
        repl(3, _shrink_intlist(f[3]))
    elif kind == "fs.parse":
        if f[2] == "-":
            repl(1, _shrink_hex(f[1]))
        else:
            for ast in _shrink_sep(f[2], "/", _shrink_colon_ints):
                if ast:
                    out.append(" ".join([f[0], hx(render_ast(ast)), ast] + f[3:]))
            canon = hx(render_ast(f[2]))
            if canon != f[1]:
                out.append(" ".join([f[0], canon] + f[2:]))
        repl(3, _shrink_intlist(f[3]))
        repl(4, _shrink_intlist(f[4]))
    else:
        spec = SHRINKERS.get(kind)
        if spec:
            out.extend(spec(f))
    return [o for o in dict.fromkeys(out) if o != op]


SHRINKERS = {}


def shrink(op, fails_batch, rundir, max_rounds=80):
    """fails_batch(ops) -> list of (impl, model, detail) or None, one per op"""
    cur = fails_batch([op])[0]
    if cur is None:
        return None, None, None, None
    best = op
    for _ in range(max_rounds):
        cands = candidates(best)[:600]
        if not cands:
            break
        res = fails_batch(cands)
        hit = [(c, r) for c, r in zip(cands, res) if r is not None]
        if not hit:
            break
        best, cur = min(hit, key=lambda t: len(t[0]))
    return best, cur[0], cur[1], cur[2]
