"""The check driver: build, audit, correspondence, search, evidence (DESIGN.md §3, §5)."""
import argparse, concurrent.futures, hashlib, json, os, re, shutil, subprocess, sys, time

import props
import shrink

VERIF = os.path.dirname(os.path.dirname(os.path.abspath(__file__)))
LEAN = os.path.join(VERIF, "lean")
BUILD = os.path.join(VERIF, "build")
REPO = os.environ.get("GFS_REPO", "/repo")
HARNESS = os.path.join(BUILD, "gfsharness")
DRIVER = os.path.join(LEAN, ".lake", "build", "bin", "gfsdriver")
ALLOWED_AXIOMS = {"propext", "Classical.choice", "Quot.sound"}
NPROC = os.cpu_count() or 4

GOENV = dict(os.environ, GOFLAGS="-mod=mod", GOPROXY="off", GOSUMDB="off", GOTOOLCHAIN="local",
             CGO_ENABLED=os.environ.get("CGO_ENABLED", "1"))


def log(*a):
    print(*a, file=sys.stderr, flush=True)


def sh(cmd, cwd=None, env=None, timeout=None, input=None):
    p = subprocess.run(cmd, cwd=cwd, env=env, timeout=timeout, input=input,
                       stdout=subprocess.PIPE, stderr=subprocess.STDOUT, text=True)
    return p.returncode, p.stdout


# ---------------------------------------------------------------- builds

def build_harness():
    os.makedirs(BUILD, exist_ok=True)
    hdir = os.path.join(VERIF, "harness")
    shutil.copyfile(os.path.join(REPO, "go.sum"), os.path.join(hdir, "go.sum"))
    rc, out = sh(["go", "build", "-tags", "verif", "-o", HARNESS, "./cmd/gfsharness"], cwd=hdir, env=GOENV)
    return rc == 0, out


def build_lean(targets):
    rc, out = sh(["lake", "build"] + targets, cwd=LEAN)
    return rc == 0, out


def strip_comments(src):
    src = re.sub(r"/-.*?-/", "", src, flags=re.S)
    src = re.sub(r"--.*", "", src)
    return src


FORBIDDEN = re.compile(r"\bsorry\b|\badmit\b|^\s*axiom\s|native_decide|bv_decide|implemented_by|\bunsafe\s|maxHeartbeats\s+0\b", re.M)


def source_audit():
    bad = []
    for root, _, files in os.walk(LEAN):
        if ".lake" in root:
            continue
        for f in files:
            if f.endswith(".lean"):
                p = os.path.join(root, f)
                m = FORBIDDEN.search(strip_comments(open(p).read()))
                if m:
                    bad.append(f"{os.path.relpath(p, LEAN)}: {m.group(0).strip()}")
    return bad


def theorem_names(pid):
    p = os.path.join(LEAN, "GfsProps", pid + ".lean")
    src = strip_comments(open(p).read())
    return re.findall(r"^theorem\s+([A-Za-z0-9_'.]+)", src, flags=re.M)


def axiom_audit(pid):
    """returns list of (theorem, axioms list or None) using #print axioms"""
    names = theorem_names(pid)
    adir = os.path.join(BUILD, "audit")
    os.makedirs(adir, exist_ok=True)
    f = os.path.join(adir, pid + ".lean")
    with open(f, "w") as fh:
        fh.write(f"import GfsProps.{pid}\nopen Gfs.Props.{pid}\n")
        for n in names:
            fh.write(f"#print axioms {n}\n")
    rc, out = sh(["lake", "env", "lean", f], cwd=LEAN)
    res = {}
    for m in re.finditer(r"'([^']+)' depends on axioms: \[([^\]]*)\]", out, flags=re.S):
        res[m.group(1).split(".")[-1]] = [a.strip() for a in m.group(2).replace("\n", " ").split(",") if a.strip()]
    for m in re.finditer(r"'([^']+)' does not depend on any axioms", out):
        res[m.group(1).split(".")[-1]] = []
    return [(n, res.get(n.split(".")[-1])) for n in names], out, rc


# ---------------------------------------------------------------- running ops

IMPL_CMD = None      # per-property override of the implementation side
OP_DEADLINE = 120    # seconds one protocol operation may take in the Go harness
REF_CMD = None       # C19: the reference implementation (Go library) the implementation (C++ port) must equal


def _run_chunk(args):
    idx, ops, rundir, timeout = args
    opsf = os.path.join(rundir, f"ops.{idx}")
    with open(opsf, "w") as fh:
        fh.write("\n".join(ops) + "\n")
    res = []
    procs = [(HARNESS, "impl"), (DRIVER, "model")]
    if REF_CMD:
        procs.append((None, "ref"))
    for exe, name in procs:
        cmd = (IMPL_CMD or [exe, "run"]) if name == "impl" else (REF_CMD if name == "ref" else [exe])
        try:
            with open(opsf) as fin:
                p = subprocess.run(cmd, stdin=fin, stdout=subprocess.PIPE, stderr=subprocess.PIPE,
                                   text=True, timeout=timeout, env=dict(os.environ, GOMEMLIMIT="3GiB", GFS_OP_DEADLINE=str(OP_DEADLINE)))
            lines = p.stdout.split("\n")
            if lines and lines[-1] == "":
                lines.pop()
            tail = p.stderr[-2000:] if p.returncode != 0 else ""
        except subprocess.TimeoutExpired as e:
            out = e.stdout or b""
            if isinstance(out, bytes):
                out = out.decode("utf-8", "replace")
            lines = out.split("\n")
            if lines:
                lines.pop()          # last line may be partial
            tail = "timeout"
        res.append((lines, tail))
    os.unlink(opsf)
    return idx, res


def run_ops(ops, rundir, timeout=600):
    """returns (impl_lines, model_lines), padded with '<missing:reason>' when a side died"""
    if not ops:
        return [], []
    os.makedirs(rundir, exist_ok=True)
    nchunks = max(1, min(NPROC, len(ops) // 200))
    size = (len(ops) + nchunks - 1) // nchunks
    chunks = [(i, ops[i * size:(i + 1) * size], rundir, timeout) for i in range(nchunks)]
    chunks = [c for c in chunks if c[1]]
    impl, model, ref = [], [], []
    with concurrent.futures.ThreadPoolExecutor(max_workers=NPROC) as ex:
        results = sorted(ex.map(_run_chunk, chunks), key=lambda r: r[0])
    for (idx, res), c in zip(results, chunks):
        n = len(c[1])
        for (lines, tail), dst in zip(res, (impl, model, ref)):
            if len(lines) < n:
                reason = tail.strip().split("\n")[-1][:200] if tail else "short-output"
                lines = lines + [f"<missing:{reason}>"] + ["<missing:after-crash>"] * (n - len(lines) - 1)
            dst.extend(lines[:n])
    if REF_CMD:
        # the model line carries the reference implementation's answer as a fifth/sixth column
        model = [m + "\tR\t" + r for m, r in zip(model, ref)]
    return impl, model


def parse_obs(s):
    d = {}
    if s in ("-", ""):
        return d
    for kv in s.split(";"):
        k, _, v = kv.partition("=")
        d[k] = v
    return d


def judge(impl, model_line):
    """-> (corr_ok, prop_ok, detail)"""
    parts = model_line.split("\t")
    if len(parts) == 6 and parts[4] == "R":
        return judge3(impl, parts[1], parts[3], parts[5])
    if len(parts) != 4 or parts[0] != "M" or parts[2] != "S":
        return False, True, "model-output-malformed: " + model_line[:200]
    M, S = parts[1], parts[3]
    corr_ok = (impl == M)
    if impl.startswith("panic=") or impl.startswith("<missing:"):
        if impl == "<missing:after-crash>":
            return True, True, ""          # not executed; the crashing op is reported on its own
        return corr_ok, False, "implementation crashed or hung: " + impl[:200]
    if S == "-":
        return corr_ok, True, "" if corr_ok else "implementation differs from model"
    Sd, Id = parse_obs(S), parse_obs(impl)
    for k, v in Sd.items():
        if k.startswith("~"):
            continue          # marker for known-finding classes, not an observation
        if Id.get(k) != v:
            return corr_ok, False, f"field {k}: implementation={Id.get(k)!r} specification={v!r}"
    return corr_ok, True, "" if corr_ok else "implementation differs from model (outside the specified fields)"


def judge3(impl, M, S, ref):
    """C19. impl = the C++ port, ref = the Go library (both real), M = model of the port,
    S = model of the Go library on the fields inside the property's domain ('-' = outside).
    property: impl == ref on S's fields; correspondence: impl == M and ref == S on S's fields."""
    if impl == "<missing:after-crash>" or ref == "<missing:after-crash>":
        return True, True, ""
    skip = (M == "skip=1")
    for side, out in (("C++ port", impl), ("Go library", ref)):
        if out.startswith("panic=") or out.startswith("<missing:") or out.startswith("setup="):
            return False, (S == "-"), f"{side} crashed, hung or could not set up: {out[:200]}"
    corr_ok = skip or (impl == M)
    if S == "-":
        return corr_ok, True, "" if corr_ok else "C++ port differs from its model (outside the property's domain)"
    Sd, Id, Rd = parse_obs(S), parse_obs(impl), parse_obs(ref)
    for k in Sd:
        if Id.get(k) != Rd.get(k):
            return corr_ok, False, f"field {k}: C++ port={Id.get(k)!r} Go library={Rd.get(k)!r}"
    for k, v in Sd.items():
        if Rd.get(k) != v:
            return False, True, f"Go library differs from its model in field {k}: {Rd.get(k)!r} vs {v!r}"
    return corr_ok, True, "" if corr_ok else "C++ port differs from its model"


# ---------------------------------------------------------------- known findings

def load_known(pid):
    p = os.path.join(VERIF, "known_findings.json")
    if not os.path.exists(p):
        return []
    data = json.load(open(p))
    return [e for e in data.get("findings", []) if e.get("property") == pid and e.get("status", "open") == "open"]


def known_match(known, op, impl, model_line):
    for e in known:
        pred = props.KNOWN_CLASSES.get(e["class"])
        if pred and pred(op, impl, model_line):
            return e
    return None


# ---------------------------------------------------------------- main

def regen_facts():
    """regenerate lean/GfsGen/Facts.lean from /repo (old file removed first)"""
    gdir = os.path.join(VERIF, "tools", "gofacts")
    rc, out = sh(["go", "build", "-o", os.path.join(BUILD, "gofacts"), "."], cwd=gdir, env=GOENV)
    if rc != 0:
        return [("build", "go build gofacts", out[-800:])]
    facts = os.path.join(LEAN, "GfsGen", "Facts.lean")
    new = facts + f".new.{os.getpid()}"
    rc, out = sh([os.path.join(BUILD, "gofacts"), REPO, new, os.path.join(BUILD, "fingerprints.json")])
    if rc != 0:
        if os.path.exists(facts):
            os.unlink(facts)
        return [("tie", "gofacts cannot read /repo sources", out[-800:])]
    # keep the mtime when nothing changed so that lake does not rebuild
    if not os.path.exists(facts) or open(facts).read() != open(new).read():
        os.replace(new, facts)
    else:
        os.unlink(new)
    return []


def changed_decls(pid):
    """names of the declarations of /repo whose fingerprint differs from the recorded one"""
    try:
        now = json.load(open(os.path.join(BUILD, "fingerprints.json"))).get(pid, {})
        exp = json.load(open(os.path.join(LEAN, "GfsModel", "ExpectedSrc.json"))).get(pid, {})
    except Exception as ex:
        return [f"(cannot read fingerprints: {ex})"]
    out = [k for k in sorted(set(now) | set(exp)) if now.get(k) != exp.get(k)]
    return [k + (" (new)" if k not in exp else (" (gone)" if k not in now else "")) for k in out][:40]


def build_clis(a, rundir):
    """C17/C18: build seqls and seqinfo from /repo's working tree"""
    out = []
    for name in ("seqls", "seqinfo"):
        rc, o = sh(["go", "build", "-tags", "verif", "-o", os.path.join(BUILD, name), "./cmd/" + name], cwd=REPO, env=GOENV)
        if rc != 0:
            log(o)
            out.append(("build", f"go build ./cmd/{name}", o[-1500:]))
    # the race-detector builds (one extra run per sampled case)
    for name in ("seqls", "seqinfo"):
        rc, o = sh(["go", "build", "-race", "-tags", "verif", "-o", os.path.join(BUILD, name + ".race"), "./cmd/" + name], cwd=REPO, env=GOENV)
        if rc != 0:
            log(o)
            out.append(("build", f"go build -race ./cmd/{name}", o[-1500:]))
    return out


def build_racer(a, rundir):
    rdir = os.path.join(VERIF, "racer")
    shutil.copyfile(os.path.join(REPO, "go.sum"), os.path.join(rdir, "go.sum"))
    rc, out = sh(["go", "build", "-race", "-tags", "verif", "-o", os.path.join(BUILD, "racer"), "."], cwd=rdir, env=GOENV)
    if rc != 0:
        log(out)
        return [("build", "go build -race racer", out[-1500:])]
    return []


def build_handles(a, rundir):
    """C20: refresh the copies of storage.go / uuid.go from /repo and build the driver with -race"""
    hdir = os.path.join(BUILD, "handles")
    os.makedirs(hdir, exist_ok=True)
    for f in os.listdir(hdir):
        if os.path.isfile(os.path.join(hdir, f)):
            os.unlink(os.path.join(hdir, f))
    shutil.copyfile(os.path.join(VERIF, "handles", "driver.go.txt"), os.path.join(hdir, "driver.go"))
    shutil.copyfile(os.path.join(VERIF, "handles", "go.mod.txt"), os.path.join(hdir, "go.mod"))
    shutil.copyfile(os.path.join(REPO, "go.sum"), os.path.join(hdir, "go.sum"))
    for f in ("storage.go", "uuid.go"):
        shutil.copyfile(os.path.join(REPO, "exp", "cpp", "export", f), os.path.join(hdir, f))
    rc, out = sh(["go", "build", "-race", "-tags", "verif", "-o", "handlesdrv", "."], cwd=hdir, env=GOENV)
    if rc != 0:
        log(out)
        return [("build", "go build -race handles driver (storage.go, uuid.go from /repo)", out[-1500:])]
    # the same two files, instrumented (a yield before every statement, cooperative locks and
    # atomics), with the deterministic scheduler: build/handles/sched/hsched
    idir = os.path.join(VERIF, "tools", "instrument")
    rc, out = sh(["go", "build", "-o", os.path.join(BUILD, "instrument"), "."], cwd=idir, env=GOENV)
    if rc != 0:
        return [("build", "go build tools/instrument", out[-1500:])]
    sdir = os.path.join(hdir, "sched")
    shutil.rmtree(sdir, ignore_errors=True)
    os.makedirs(sdir)
    for f in ("storage.go", "uuid.go"):
        rc, out = sh([os.path.join(BUILD, "instrument"), os.path.join(REPO, "exp", "cpp", "export", f), os.path.join(sdir, f)])
        if rc != 0:
            return [("tie", "tools/instrument cannot rewrite " + f, out[-1500:])]
    shutil.copyfile(os.path.join(VERIF, "handles", "sched.go.txt"), os.path.join(sdir, "sched.go"))
    shutil.copyfile(os.path.join(VERIF, "handles", "schedrv.go.txt"), os.path.join(sdir, "schedrv.go"))
    shutil.copyfile(os.path.join(VERIF, "handles", "go.mod.txt"), os.path.join(sdir, "go.mod"))
    shutil.copyfile(os.path.join(REPO, "go.sum"), os.path.join(sdir, "go.sum"))
    rc, out = sh(["go", "build", "-tags", "verif", "-o", "hsched", "."], cwd=sdir, env=GOENV)
    if rc != 0:
        log(out)
        return [("build", "go build instrumented handle table + scheduler (an operation of sync / atomic the scheduler does not know?)", out[-1500:])]
    return []


def build_cpp(a, rundir):
    """C19: rebuild the C++ port and the protocol driver from /repo/cpp"""
    rc, out = sh([os.path.join(VERIF, "cppdriver", "build.sh"), REPO, os.path.join(BUILD, "cpp")], timeout=900)
    if rc != 0:
        log(out[-3000:])
        return [("build", "g++ /repo/cpp + cppdriver", out[-1500:])]
    return []


props.HOOKS["build_cpp"] = build_cpp
props.HOOKS["build_handles"] = build_handles
props.HOOKS["build_racer"] = build_racer
props.HOOKS["build_clis"] = build_clis


def gen_ops(pid, seed, n, thorough):
    cmd = [HARNESS, "gen", pid, "-seed", str(seed), "-n", str(n)]
    if thorough:
        cmd.append("-thorough")
    p = subprocess.run(cmd, stdout=subprocess.PIPE, stderr=subprocess.PIPE, text=True, timeout=1800)
    if p.returncode != 0:
        raise RuntimeError("generator failed: " + p.stderr[-2000:])
    return [l for l in p.stdout.split("\n") if l]


def write_replay(pid, data):
    rdir = os.path.join(VERIF, "replays")
    os.makedirs(rdir, exist_ok=True)
    h = hashlib.sha1(json.dumps(data, sort_keys=True).encode()).hexdigest()[:10]
    path = os.path.join(rdir, f"{pid}-{h}.json")
    data["how_to_replay"] = f"./check {pid} --replay {os.path.relpath(path, VERIF)}"
    with open(path, "w") as fh:
        json.dump(data, fh, indent=1)
    return path


def main(argv):
    ap = argparse.ArgumentParser()
    ap.add_argument("pid")
    ap.add_argument("--tier", default=os.environ.get("VERIF_TIER", "quick"), choices=["quick", "thorough"])
    ap.add_argument("--seed", type=int, default=int(os.environ.get("VERIF_SEED", "1") or "1"))
    ap.add_argument("--replay")
    ap.add_argument("--n", type=int)
    a = ap.parse_args(argv)
    os.environ["VERIF_TIER"] = a.tier   # the harness reads it (how often the costly extra runs happen)
    pid = a.pid
    if pid not in props.PROPS:
        log("unknown property", pid)
        return 2
    cfg = props.PROPS[pid]
    t0 = time.time()
    thorough = a.tier == "thorough"
    rundir = os.path.join(BUILD, "run", pid)
    shutil.rmtree(rundir, ignore_errors=True)
    os.makedirs(rundir, exist_ok=True)

    broken = []       # (kind, name, detail): proof obligations / ties that no longer check
    # 1. builds ---------------------------------------------------------------
    # checks may be started in parallel; the build products are shared, so builds are serialised
    import fcntl
    os.makedirs(BUILD, exist_ok=True)
    lockf = open(os.path.join(BUILD, ".buildlock"), "w")
    fcntl.flock(lockf, fcntl.LOCK_EX)
    broken.extend(regen_facts())
    ok, out = build_harness()
    if not ok:
        log(out)
        log("harness does not build against /repo")
        broken.append(("build", "go build harness", out[-1500:]))
    global IMPL_CMD, REF_CMD, OP_DEADLINE
    OP_DEADLINE = cfg.get("op_deadline", 120)
    IMPL_CMD = cfg.get("impl_cmd")
    REF_CMD = cfg.get("ref_cmd")
    for hook in cfg.get("pre", []):
        if isinstance(hook, str):
            hook = props.HOOKS[hook]
        r = hook(a, rundir)
        if r:
            broken.extend(r)
    if thorough:
        # rebuild the property's Lean modules from clean
        for sub in ("GfsProps", ):
            for ext in ("olean", "ilean", "c", "trace", "hash", "olean.hash", "ilean.hash"):
                f = os.path.join(LEAN, ".lake", "build", "lib", "lean", sub, f"{pid}.{ext}")
                if os.path.exists(f):
                    os.unlink(f)
    ok, out = build_lean([f"GfsProps.{pid}", "gfsdriver"])
    lean_ok = ok
    if not ok:
        log(out[-3000:])
        detail = out[-1500:]
        if f"{pid}_source" in out or "sourceDigest" in out:
            detail = "changed declarations: " + ", ".join(changed_decls(pid)) + "\n" + detail
        broken.append(("proof", f"lake build GfsProps.{pid}", detail))
    # 2. audit ----------------------------------------------------------------
    theorems = []
    discharged = 0
    if lean_ok:
        thms, aout, rc = axiom_audit(pid)
        for n, ax in thms:
            okax = ax is not None and set(ax) <= ALLOWED_AXIOMS
            theorems.append({"theorem": n, "axioms": ax, "ok": okax})
            if okax:
                discharged += 1
            else:
                broken.append(("audit", n, f"axioms={ax}"))
        bad = source_audit()
        for b in bad:
            broken.append(("audit", "forbidden token", b))
        if thorough:
            rc, cout = sh(["lake", "env", "leanchecker", f"GfsProps.{pid}"], cwd=LEAN, timeout=1800)
            if rc != 0:
                broken.append(("audit", "leanchecker", cout[-800:]))
    obligations = len(theorem_names(pid)) if os.path.exists(os.path.join(LEAN, "GfsProps", pid + ".lean")) else 0
    fcntl.flock(lockf, fcntl.LOCK_UN)
    lockf.close()

    if a.replay:
        return do_replay(pid, a.replay, rundir)

    # 3. correspondence -------------------------------------------------------
    known = load_known(pid)
    stats = {"evaluations": 0, "distinct": set(), "nontrivial": set(), "in_domain": 0, "hist": {}}
    samples = []
    corr_breaks, prop_fails, known_hits = [], [], {}

    def explore(ops, label):
        impl, model = run_ops(ops, rundir, timeout=cfg.get("timeout", 900))
        for op, i, m in zip(ops, impl, model):
            stats["evaluations"] += 1
            corr_ok, prop_ok, detail = judge(i, m)
            if not (m.endswith("\tS\t-") or "\tS\t-\tR\t" in m):
                stats["in_domain"] += 1
            h = hash(op)
            if h not in stats["distinct"]:
                stats["distinct"].add(h)
                cls = cfg["classify"](op, i, m) if "classify" in cfg else None
                if cls:
                    stats["nontrivial"].add(h)
                    stats["hist"][cls] = stats["hist"].get(cls, 0) + 1
                    if len(samples) < 6 and (len(samples) < 3 or cls not in [s.get("class") for s in samples]):
                        samples.append({"op": op[:400], "impl": i[:400], "class": cls})
            if not prop_ok:
                e = known_match(known, op, i, m)
                if e is not None:
                    known_hits[e["id"]] = known_hits.get(e["id"], 0) + 1
                    continue
                prop_fails.append((op, i, m, detail, label))
            elif not corr_ok:
                corr_breaks.append((op, i, m, detail, label))

    corpus = os.path.join(VERIF, "corpus", pid + ".ops")
    if os.path.exists(corpus):
        explore([l for l in open(corpus).read().split("\n") if l and not l.startswith("#")], "corpus")
    # every known finding's witness is replayed first
    for e in known:
        impl, model = run_ops([e["witness"]], rundir)
        c, p, d = judge(impl[0], model[0])
        still = (not p)
        print(f"KNOWN-FINDING: property={pid} {e['what']}" + ("" if still else " (witness no longer fails)"))
    n = a.n or (cfg["n_thorough"] if thorough else cfg["n_quick"])
    seeds = [a.seed] if not thorough else [a.seed, a.seed * 7919 + 1, a.seed * 104729 + 2, a.seed * 1299709 + 3]
    if not broken or True:
        for k, sd in enumerate(seeds):
            ops = gen_ops(pid, sd, n // len(seeds), thorough and k == 0)
            explore(ops, f"seed={sd}")
    for hook in cfg.get("extra", []):
        r = hook(a, rundir, thorough)
        if r:
            for item in r:
                (prop_fails if item[0] == "prop" else broken).append(item[1])

    # 4. decide ---------------------------------------------------------------
    violation = None
    if not prop_fails and (corr_breaks or broken):
        # search: more seeds, larger budget, enumerators
        log(f"search: {len(corr_breaks)} correspondence breaks, {len(broken)} broken obligations; looking for a failing input")
        for cb in corr_breaks[:3]:
            log("  correspondence break:", cb[0][:300], "\n    impl :", cb[1][:600], "\n    model:", cb[2][:600])
        for k in range(1, 5):
            try:
                ops = gen_ops(pid, a.seed * 31 + 1000 + k, cfg.get("search_n", max(n, 20000)), k == 1 and not cfg.get("search_n"))
            except Exception as ex:     # generator itself may be hit by the change
                log("generator:", ex)
                break
            explore(ops, f"search{k}")
            if prop_fails:
                break
    if prop_fails:
        op, i, m, detail, label = min(prop_fails, key=lambda t: len(t[0]))
        sop, si, sm, sdetail = shrink.shrink(op, lambda o: _fails(o, rundir, known), rundir)
        if sop is None:
            sop, si, sm, sdetail = op, i, m, detail
        parts = sm.split("\t")
        path = write_replay(pid, {
            "property": pid, "kind": "failing-input", "op": sop, "implementation": si,
            "model": parts[1] if len(parts) > 1 else sm, "specification": parts[3] if len(parts) > 3 else "",
            "detail": sdetail, "found_by": label, "seed": a.seed, "unshrunk_op": op,
            "other_failures": len(prop_fails) - 1})
        violation = f"VIOLATION property={pid} replay={path}"
    elif corr_breaks or broken:
        first = corr_breaks[0] if corr_breaks else None
        path = write_replay(pid, {
            "property": pid, "kind": "obligation-or-correspondence-broken",
            "broken": [{"kind": k, "name": nme, "detail": d} for (k, nme, d) in broken][:10],
            "correspondence_breaks": len(corr_breaks),
            "first_break": None if not first else {"op": first[0], "implementation": first[1], "model_line": first[2], "detail": first[3]},
            "seed": a.seed})
        violation = f"VIOLATION property={pid} replay={path} no-failing-input-found"

    # 5. evidence -------------------------------------------------------------
    wall = time.time() - t0
    ev = {
        "property_id": pid, "tier": a.tier, "seed": a.seed, "level": "proof",
        "coverage": {
            "obligations": obligations, "discharged": discharged,
            "checker_cmd": f"cd lean && lake build GfsProps.{pid} && lake env lean build/audit/{pid}.lean (#print axioms)" + (" && lake env leanchecker GfsProps." + pid if thorough else ""),
            "trusted_base": props.TRUSTED_BASE + cfg.get("trusted", []),
            "theorems": theorems,
            "evaluations": stats["evaluations"],
            "distinct_nontrivial": len(stats["nontrivial"]),
            "distinct": len(stats["distinct"]),
            "in_property_domain": stats["in_domain"],
            "rule": cfg["rule"],
            "class_histogram": stats["hist"],
            "samples": samples,
            "correspondence_breaks": len(corr_breaks),
            "known_finding_hits": known_hits,
            "exhaustive": False,
        },
        "assumptions": cfg.get("assumptions", []),
        "wall_s": round(wall, 2),
        "violations": (1 if violation else 0),
    }
    for k, v in cfg.get("coverage_extra", {}).items():
        ev["coverage"][k] = v() if callable(v) else v
    os.makedirs(os.path.join(VERIF, "evidence"), exist_ok=True)
    with open(os.path.join(VERIF, "evidence", pid + ".json"), "w") as fh:
        json.dump(ev, fh, indent=1)
    shutil.rmtree(rundir, ignore_errors=True)
    log(f"{pid}: {stats['evaluations']} cases, {len(stats['nontrivial'])} distinct non-trivial, "
        f"{obligations} obligations / {discharged} discharged, {wall:.1f}s")
    if violation:
        print(violation)
        return 1
    return 0


def _fails(ops, rundir, known):
    impl, model = run_ops(ops, rundir, timeout=300)
    out = []
    for op, i, m in zip(ops, impl, model):
        c, p, d = judge(i, m)
        if not p and i != "<missing:after-crash>" and known_match(known, op, i, m) is None:
            out.append((i, m, d))
        else:
            out.append(None)
    return out


def do_replay(pid, path, rundir):
    data = json.load(open(path))
    op = data.get("op") or (data.get("first_break") or {}).get("op")
    if not op:
        print(json.dumps(data, indent=1))
        print(f"VIOLATION property={pid} replay={path} no-failing-input-found")
        return 1
    impl, model = run_ops([op], rundir)
    c, p, d = judge(impl[0], model[0])
    print("op:   ", op)
    print("impl: ", impl[0])
    print("model:", model[0])
    print("correspondence:", "ok" if c else "BROKEN", " property:", "ok" if p else "FAILS", d)
    if not p or not c:
        print(f"VIOLATION property={pid} replay={path}" + ("" if not p else " no-failing-input-found"))
        return 1
    return 0
