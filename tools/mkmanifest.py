#!/usr/bin/env python3
"""Regenerates MANIFEST.json from checklib/props.py (single source of truth)."""
import json, os, sys
HERE = os.path.dirname(os.path.dirname(os.path.abspath(__file__)))
sys.path.insert(0, os.path.join(HERE, "checklib"))
import props

ALL = ["C%02d" % i for i in range(1, 21)]
checks = []
for pid in ALL:
    cfg = props.PROPS.get(pid)
    if not cfg:
        continue
    m = props.MANIFEST_TEXT.get(pid, {})
    checks.append({
        "property_id": pid,
        "quick_cmd": f"./check {pid} --tier quick",
        "thorough_cmd": f"./check {pid} --tier thorough",
        "evidence_file": f"/verif/evidence/{pid}.json",
        "replay_cmd_template": f"./check {pid} --replay {{path}}",
        "engine": "lean4-model+correspondence",
        "level_claimed": {
            "category": "proof",
            "text": m.get("text", ""),
            "design_ref": m.get("design_ref", "DESIGN.md §6 " + pid),
        },
        "level_note": m.get("note", ""),
        "technique": m.get("technique", "Lean 4 theorems about a hand-written executable model; model tied to /repo by a differential correspondence run (Go harness vs compiled Lean driver) on every invocation"),
    })
na = [{"property_id": p, "reason": props.NOT_YET.get(p, "not yet built in this session (no check is claimed)")} for p in ALL if p not in props.PROPS]
man = {
    "version": 1,
    "setup_cmd": "./setup.sh",
    "hooks": {
        "guard": "verif",
        "enable": "go build -tags verif (no source hook exists in /repo at present; the tag is reserved)",
        "baseline_off_cmd": "cd /repo && GOFLAGS=-mod=mod go test -vet=off -count=1 ./...",
        "source_commits": [],
        "add_only": True,
    },
    "engines": [{
        "name": "lean4-model+correspondence",
        "path": "/verif/lean, /verif/harness, /verif/check",
        "serves_properties": [c["property_id"] for c in checks],
        "kind_free_text": "Lean 4 model + spec + theorems (lake project, core only); Go harness linked against /repo's working tree answers the same line protocol as the compiled Lean driver; outputs are diffed and the spec is evaluated on the implementation's output",
    }],
    "checks": checks,
    "not_applicable": na,
    "notes": "See DESIGN.md. known_findings.json lists recorded findings and the fix: commits made in /repo.",
}
json.dump(man, open(os.path.join(HERE, "MANIFEST.json"), "w"), indent=1)
print("checks:", [c["property_id"] for c in checks], "not_applicable:", [n["property_id"] for n in na])
