module gfsverif/instrument

go 1.13
