#!/usr/bin/env python3
"""tools/seedtest.py <prop> <n> [check-props...]  — confirm a seeded mutation from /tmp/mut/<prop>/out/mut<n>.diff
in its worktree, then run the listed checks (default: the property itself) against /repo with the patch applied."""
import json, os, shutil, subprocess, sys, time
prop, n = sys.argv[1], sys.argv[2]
checks = [a for a in sys.argv[3:] if not a.startswith("--")] or [prop]
BASE = os.environ.get("MUT_BASE", "/tmp/mut")      # round 2 lives in /tmp/mut2
LABEL = os.environ.get("MUT_LABEL", n)             # directory suffix under /verif/seeded
wt = f"{BASE}/{prop}/wt" if os.path.isdir(f"{BASE}/{prop}/wt") else f"{BASE}/{prop}"
out = f"{BASE}/{prop}/out"
env = dict(os.environ, GOFLAGS="-mod=mod", GOPROXY="off", GOSUMDB="off", GOTOOLCHAIN="local")
def sh(cmd, cwd=None, timeout=1800):
    p = subprocess.run(cmd, cwd=cwd, env=env, shell=True, stdout=subprocess.PIPE, stderr=subprocess.STDOUT, text=True, errors="replace", timeout=timeout)
    return p.returncode, p.stdout
patch = f"{out}/mut{n}.diff"
demo = [f for f in os.listdir(out) if f.startswith(f"mut{n}_demo")]
res = {"property": prop, "mutation": n, "patch": patch, "demo": demo}
sh("git checkout -- . && git clean -fdq -e out", wt)
# demo location: *_test.go -> package dir from its 'package' clause
import re
def pkg_of(src):
    t = open(src).read()
    if "package ranges" in t: return "ranges"
    if "package fastwalk" in t: return "cmd/seqls/internal/fastwalk"
    if re.search(r"^package main", t, re.M):
        return {"C20": "exp/cpp/export", "C18": "cmd/seqinfo", "C17": "cmd/seqls"}.get(prop, ".")
    return "."
gotests = [d for d in demo if d.endswith("_test.go")]
scripts = [d for d in demo if d.endswith(".sh")]
testnames = []
for d in gotests:
    testnames += re.findall(r"^func (Test\w+)", open(f"{out}/{d}").read(), re.M)
RUNPAT = "^(" + "|".join(testnames) + ")$" if testnames else "NONE"
def run_demo():
    """returns (passed, output)"""
    ok, outp = True, ""
    if gotests:
        placed = place()
        pkgs = " ".join(sorted(set("./" + p if p != "." else "." for p, _ in placed))) or "."
        race = "-race " if prop == "C16" else ""
        rc, o = sh(f"go test {race}-vet=off -count=1 -run '{RUNPAT}' {pkgs}", wt, timeout=3000)
        place(remove=True)
        ok = ok and rc == 0; outp += o
    if scripts and not gotests:
        for sc in scripts:
            rc, o = sh(f"bash {out}/{sc} {wt}", out, timeout=3000)
            ok = ok and rc == 0; outp += o
    return ok, outp
def place(remove=False):
    placed = []
    for d in gotests:
        src = f"{out}/{d}"
        if os.path.isdir(src):
            continue
        pkg = pkg_of(src)
        dst = os.path.join(wt, pkg, d)
        if remove:
            if os.path.exists(dst): os.unlink(dst)
        else:
            shutil.copyfile(src, dst)
        placed.append((pkg, d))
    return placed
ok0, o0 = run_demo()
res["demo_passes_clean"] = ok0
rc, o = sh(f"git apply {patch}", wt)
res["applies"] = (rc == 0)
rc1, o1 = sh("go build ./... && go test -vet=off -count=1 ./...", wt)
res["suite_green_with_patch"] = (rc1 == 0)
ok2, o2 = run_demo()
res["demo_fails_with_patch"] = (not ok2)
res["demo_output_tail"] = o2[-600:]
sh("git checkout -- .", wt)
# now against /repo
rc, o = sh(f"git -C /repo apply {patch}")
res["applies_to_repo"] = (rc == 0)
res["checks"] = {}
if rc == 0:
    for c in checks:
        t0 = time.time()
        rcc, oc = sh(f"./check {c} --tier quick", "/verif", timeout=3000)
        line = [l for l in oc.split("\n") if l.startswith("VIOLATION")]
        res["checks"][c] = {"exit": rcc, "violation": line[0] if line else None, "wall_s": round(time.time() - t0, 1)}
        if line and "replay=" in line[0]:
            rp = line[0].split("replay=")[1].split(" ")[0]
            try:
                d = json.load(open(rp))
                res["checks"][c]["replay"] = {k: d.get(k) for k in ("kind", "op", "detail", "implementation", "specification", "broken")}
            except Exception as e:
                res["checks"][c]["replay"] = str(e)
    sh("git -C /repo checkout -- .")
print(json.dumps(res, indent=1))
sd = f"/verif/seeded/{prop}-{LABEL}"
os.makedirs(sd, exist_ok=True)
shutil.copyfile(patch, f"{sd}/patch.diff")
for d in demo:
    if os.path.isfile(f"{out}/{d}") and os.path.getsize(f"{out}/{d}") < 200000: shutil.copyfile(f"{out}/{d}", f"{sd}/{d}")
if os.path.exists(f"{out}/mut{n}.md"): shutil.copyfile(f"{out}/mut{n}.md", f"{sd}/notes.md")
elif os.path.exists(f"{out}/notes.md"): shutil.copyfile(f"{out}/notes.md", f"{sd}/notes.md")
json.dump(res, open(f"{sd}/meta.json", "w"), indent=1)
