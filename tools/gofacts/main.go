// gofacts — re-extracts structural facts from /repo's Go sources into GfsGen/Facts.lean
// (go/parser + go/ast only; run on every check, old file removed first).
//
//	gofacts <repo> <out.lean>
package main

import (
	"bytes"
	"crypto/sha256"
	"encoding/hex"
	"fmt"
	"go/ast"
	"go/parser"
	"go/printer"
	"go/token"
	"os"
	"path/filepath"
	"regexp"
	"sort"
	"strconv"
	"strings"
)

var fset = token.NewFileSet()

func src(n ast.Node) string {
	var b bytes.Buffer
	printer.Fprint(&b, fset, n)
	return strings.Join(strings.Fields(b.String()), " ")
}

type fact struct {
	name  string
	items []string
}

func leanStr(s string) string {
	s = strings.ReplaceAll(s, "\\", "\\\\")
	s = strings.ReplaceAll(s, "\"", "\\\"")
	s = strings.ReplaceAll(s, "\n", "\\n")
	return "\"" + s + "\""
}

func leanStrJSON(s string) string { return strconv.Quote(s) }

func emit(w *bytes.Buffer, defName string, facts []fact) {
	fmt.Fprintf(w, "def %s : List (String × List String) := [\n", defName)
	for i, f := range facts {
		parts := make([]string, len(f.items))
		for j, it := range f.items {
			parts[j] = leanStr(it)
		}
		sep := ","
		if i == len(facts)-1 {
			sep = ""
		}
		fmt.Fprintf(w, "  (%s, [%s])%s\n", leanStr(f.name), strings.Join(parts, ", "), sep)
	}
	fmt.Fprintf(w, "]\n\n")
}

func parseDir(dir string, files ...string) []*ast.File {
	var out []*ast.File
	for _, f := range files {
		af, err := parser.ParseFile(fset, filepath.Join(dir, f), nil, 0)
		if err != nil {
			fmt.Fprintln(os.Stderr, "gofacts:", err)
			os.Exit(1)
		}
		out = append(out, af)
	}
	return out
}

// parseGlob parses every non-test Go file matching the pattern that builds on this platform
// (files with a build constraint naming another OS are skipped by name suffix)
func parseGlob(pattern string) []*ast.File {
	ms, _ := filepath.Glob(pattern)
	sort.Strings(ms)
	var out []*ast.File
	for _, m := range ms {
		if strings.HasSuffix(m, "_test.go") {
			continue
		}
		af, err := parser.ParseFile(fset, m, nil, 0)
		if err != nil {
			fmt.Fprintln(os.Stderr, "gofacts:", err)
			os.Exit(1)
		}
		out = append(out, af)
	}
	return out
}

func funcName(fd *ast.FuncDecl) string {
	if fd.Recv != nil && len(fd.Recv.List) > 0 {
		t := fd.Recv.List[0].Type
		if st, ok := t.(*ast.StarExpr); ok {
			t = st.X
		}
		return src(t) + "." + fd.Name.Name
	}
	return fd.Name.Name
}

// ---- 0. source fingerprints ----
//
// One hash per function / type / var / const declaration of every modelled file (comments and
// layout do not count: the declaration is re-printed from the comment-free AST with single
// spaces) and one per C++ source file (comments stripped, white space collapsed). The Lean side
// compares, per property, the hashes of the declarations its model was written from with the
// hashes recorded when the model was last aligned with the code.

func hashOf(s string) string {
	h := sha256.Sum256([]byte(s))
	return hex.EncodeToString(h[:])[:16]
}

func declHashes(files []*ast.File, prefix string) []fact {
	var out []fact
	for _, f := range files {
		for _, d := range f.Decls {
			switch x := d.(type) {
			case *ast.FuncDecl:
				out = append(out, fact{prefix + funcName(x), []string{hashOf(src(x))}})
			case *ast.GenDecl:
				if x.Tok == token.IMPORT {
					continue
				}
				for _, sp := range x.Specs {
					switch y := sp.(type) {
					case *ast.TypeSpec:
						out = append(out, fact{prefix + "type." + y.Name.Name, []string{hashOf(src(y))}})
					case *ast.ValueSpec:
						names := make([]string, len(y.Names))
						for i, n := range y.Names {
							names[i] = n.Name
						}
						out = append(out, fact{prefix + x.Tok.String() + "." + strings.Join(names, ","), []string{hashOf(src(y))}})
					}
				}
			}
		}
	}
	sort.Slice(out, func(i, j int) bool { return out[i].name < out[j].name })
	return out
}

var cppComment = regexp.MustCompile(`(?s)/\*.*?\*/|//[^\n]*`)

func cppHashes(repo string) []fact {
	var out []fact
	for _, pat := range []string{"cpp/*.cpp", "cpp/*.h", "cpp/private/*.cpp", "cpp/private/*.h", "cpp/ranges/*.cpp", "cpp/ranges/*.h"} {
		ms, _ := filepath.Glob(filepath.Join(repo, pat))
		for _, m := range ms {
			b, err := os.ReadFile(m)
			if err != nil {
				continue
			}
			txt := strings.Join(strings.Fields(cppComment.ReplaceAllString(string(b), " ")), " ")
			rel, _ := filepath.Rel(repo, m)
			out = append(out, fact{"cpp:" + rel, []string{hashOf(txt)}})
		}
	}
	sort.Slice(out, func(i, j int) bool { return out[i].name < out[j].name })
	return out
}

// ---- 1. loop structure of the closed-form functions ----

func loopFacts(files []*ast.File, want map[string]bool, prefix string) []fact {
	var out []fact
	for _, f := range files {
		for _, d := range f.Decls {
			fd, ok := d.(*ast.FuncDecl)
			if !ok || fd.Body == nil || !want[funcName(fd)] {
				continue
			}
			var items []string
			ast.Inspect(fd.Body, func(n ast.Node) bool {
				switch x := n.(type) {
				case *ast.RangeStmt:
					items = append(items, "range:"+src(x.X))
				case *ast.ForStmt:
					c := ""
					if x.Cond != nil {
						c = src(x.Cond)
					}
					items = append(items, "for:"+c)
				case *ast.IfStmt:
					// an early return guarded by an empty block list
					if src(x.Cond) == "len(l.blocks) == 0" && len(x.Body.List) > 0 {
						if _, isRet := x.Body.List[len(x.Body.List)-1].(*ast.ReturnStmt); isRet {
							items = append(items, "if-empty-return")
						}
					}
				case *ast.CallExpr:
					// calls that enumerate
					s := src(x.Fun)
					if strings.HasSuffix(s, ".IterValues") || strings.HasSuffix(s, ".Frames") || strings.HasSuffix(s, ".normalized") ||
						strings.HasSuffix(s, ".Normalized") || strings.HasSuffix(s, ".Inverted") {
						items = append(items, "enumerates:"+s)
					}
				}
				return true
			})
			out = append(out, fact{prefix + funcName(fd), items})
		}
	}
	sort.Slice(out, func(i, j int) bool { return out[i].name < out[j].name })
	return out
}

// ---- 2. writes to package-level state outside init ----

func sharedWrites(files []*ast.File, sharedRecv map[string]bool) []fact {
	globals := map[*ast.Object]bool{}
	for _, f := range files {
		for _, d := range f.Decls {
			gd, ok := d.(*ast.GenDecl)
			if !ok || gd.Tok != token.VAR {
				continue
			}
			for _, sp := range gd.Specs {
				for _, n := range sp.(*ast.ValueSpec).Names {
					if n.Obj != nil {
						globals[n.Obj] = true
					}
				}
			}
		}
	}
	var out []fact
	for _, f := range files {
		for _, d := range f.Decls {
			fd, ok := d.(*ast.FuncDecl)
			if !ok || fd.Body == nil || fd.Name.Name == "init" {
				continue
			}
			var recvObj *ast.Object
			if fd.Recv != nil && len(fd.Recv.List) > 0 && len(fd.Recv.List[0].Names) > 0 {
				t := fd.Recv.List[0].Type
				if st, ok := t.(*ast.StarExpr); ok {
					t = st.X
				}
				if sharedRecv[src(t)] {
					recvObj = fd.Recv.List[0].Names[0].Obj
				}
			}
			var items []string
			check := func(lhs ast.Expr) {
				root := lhs
				depth := 0
				for {
					switch x := root.(type) {
					case *ast.SelectorExpr:
						root = x.X
						depth++
						continue
					case *ast.IndexExpr:
						root = x.X
						depth++
						continue
					case *ast.StarExpr:
						root = x.X
						depth++
						continue
					case *ast.ParenExpr:
						root = x.X
						continue
					}
					break
				}
				id, ok := root.(*ast.Ident)
				if !ok || id.Obj == nil {
					return
				}
				if globals[id.Obj] || (recvObj != nil && id.Obj == recvObj && depth > 0) {
					items = append(items, src(lhs))
				}
			}
			ast.Inspect(fd.Body, func(n ast.Node) bool {
				switch x := n.(type) {
				case *ast.AssignStmt:
					if x.Tok != token.DEFINE {
						for _, l := range x.Lhs {
							check(l)
						}
					}
				case *ast.IncDecStmt:
					check(x.X)
				}
				return true
			})
			if len(items) > 0 {
				out = append(out, fact{funcName(fd), items})
			}
		}
	}
	sort.Slice(out, func(i, j int) bool { return out[i].name < out[j].name })
	return out
}

// ---- 3. regular expressions and pad tables ----

func foldString(e ast.Expr, env map[string]string) (string, bool) {
	switch x := e.(type) {
	case *ast.BasicLit:
		if x.Kind == token.STRING {
			s, err := strconv.Unquote(x.Value)
			return s, err == nil
		}
	case *ast.BinaryExpr:
		if x.Op == token.ADD {
			a, ok1 := foldString(x.X, env)
			b, ok2 := foldString(x.Y, env)
			return a + b, ok1 && ok2
		}
	case *ast.Ident:
		s, ok := env[x.Name]
		return s, ok
	case *ast.ParenExpr:
		return foldString(x.X, env)
	}
	return "", false
}

func regexFacts(files []*ast.File) []fact {
	env := map[string]string{}
	var out []fact
	for _, f := range files {
		for _, d := range f.Decls {
			gd, ok := d.(*ast.GenDecl)
			if !ok || gd.Tok != token.VAR {
				continue
			}
			for _, sp := range gd.Specs {
				vs := sp.(*ast.ValueSpec)
				for i, n := range vs.Names {
					if i >= len(vs.Values) {
						continue
					}
					if s, ok := foldString(vs.Values[i], env); ok {
						env[n.Name] = s
						continue
					}
					var pats []string
					ast.Inspect(vs.Values[i], func(nn ast.Node) bool {
						if c, ok := nn.(*ast.CallExpr); ok && src(c.Fun) == "regexp.MustCompile" && len(c.Args) == 1 {
							if s, ok := foldString(c.Args[0], env); ok {
								pats = append(pats, s)
							} else {
								pats = append(pats, "<unfoldable>")
							}
						}
						return true
					})
					if len(pats) > 0 {
						out = append(out, fact{n.Name, pats})
					}
				}
			}
		}
	}
	sort.Slice(out, func(i, j int) bool { return out[i].name < out[j].name })
	return out
}

func padFacts(files []*ast.File) []fact {
	var out []fact
	for _, f := range files {
		for _, d := range f.Decls {
			fd, ok := d.(*ast.FuncDecl)
			if !ok || fd.Body == nil || !(fd.Name.Name == "newMultiHashPad" || fd.Name.Name == "newSingleHashPad") {
				continue
			}
			var items []string
			ast.Inspect(fd.Body, func(n ast.Node) bool {
				switch x := n.(type) {
				case *ast.CompositeLit:
					if _, isMap := x.Type.(*ast.MapType); isMap {
						var kvs []string
						for _, e := range x.Elts {
							kvs = append(kvs, src(e))
						}
						sort.Strings(kvs)
						items = append(items, "map="+strings.Join(kvs, ","))
						return false
					}
				case *ast.BasicLit:
					if x.Kind == token.STRING {
						items = append(items, "str="+x.Value)
					}
				}
				return true
			})
			out = append(out, fact{fd.Name.Name, items})
		}
	}
	sort.Slice(out, func(i, j int) bool { return out[i].name < out[j].name })
	return out
}

// ---- 4. synchronisation skeletons ----

// detail adds: channel creation with its buffer size, assignments of nil (a select case switched
// off), return / continue / break statements, and the condition of every for loop — the parts of
// a channel pipeline whose change alters which schedules lose work
func syncSkeleton(files []*ast.File, prefix string, want func(string) bool, detail bool) []fact {
	var out []fact
	for _, f := range files {
		for _, d := range f.Decls {
			fd, ok := d.(*ast.FuncDecl)
			if !ok || fd.Body == nil || !want(funcName(fd)) {
				continue
			}
			var items []string
			ast.Inspect(fd.Body, func(n ast.Node) bool {
				switch x := n.(type) {
				case *ast.GoStmt:
					items = append(items, "go:"+src(x.Call.Fun))
				case *ast.SendStmt:
					items = append(items, "send:"+src(x.Chan))
				case *ast.UnaryExpr:
					if x.Op == token.ARROW {
						items = append(items, "recv:"+src(x.X))
					}
				case *ast.RangeStmt:
					items = append(items, "range:"+src(x.X))
				case *ast.SelectStmt:
					items = append(items, "select")
				case *ast.ReturnStmt:
					if detail {
						items = append(items, "return")
					}
				case *ast.BranchStmt:
					if detail {
						items = append(items, x.Tok.String())
					}
				case *ast.ForStmt:
					if detail {
						c := ""
						if x.Cond != nil {
							c = src(x.Cond)
						}
						items = append(items, "for:"+c)
					}
				case *ast.CallExpr:
					s := src(x.Fun)
					switch {
					case detail && s == "make" && len(x.Args) >= 1:
						if _, isChan := x.Args[0].(*ast.ChanType); isChan {
							buf := "unbuffered"
							if len(x.Args) > 1 {
								buf = "buffer=" + src(x.Args[1])
							}
							items = append(items, "makechan:"+src(x.Args[0])+":"+buf)
						}
					case s == "close" && len(x.Args) == 1:
						items = append(items, "close:"+src(x.Args[0]))
					case s == "delete" && len(x.Args) == 2:
						items = append(items, "delete:"+src(x.Args[0]))
					case s == "len" && len(x.Args) == 1 && strings.HasSuffix(src(x.Args[0]), ".m"):
						items = append(items, "len:"+src(x.Args[0]))
					case strings.HasSuffix(s, ".Lock") || strings.HasSuffix(s, ".Unlock") || strings.HasSuffix(s, ".RLock") ||
						strings.HasSuffix(s, ".RUnlock") || strings.HasSuffix(s, ".Add") && strings.Contains(strings.ToLower(s), "wg") ||
						strings.HasSuffix(s, ".Done") || strings.HasSuffix(s, ".Wait") || strings.HasPrefix(s, "atomic."):
						items = append(items, "call:"+s)
					case strings.HasSuffix(s, ".rand.Uint64"):
						items = append(items, "call:"+s)
					}
				case *ast.AssignStmt:
					if detail {
						for i, r := range x.Rhs {
							if id, ok := r.(*ast.Ident); ok && id.Name == "nil" && i < len(x.Lhs) {
								items = append(items, "nil:"+src(x.Lhs[i]))
							}
						}
					}
					for _, l := range x.Lhs {
						if ix, ok := l.(*ast.IndexExpr); ok && strings.HasSuffix(src(ix.X), ".m") {
							items = append(items, "insert:"+src(ix.X))
						}
					}
					for _, r := range x.Rhs {
						if ix, ok := r.(*ast.IndexExpr); ok && strings.HasSuffix(src(ix.X), ".m") {
							items = append(items, "lookup:"+src(ix.X))
						}
					}
				}
				return true
			})
			out = append(out, fact{prefix + funcName(fd), items})
		}
	}
	sort.Slice(out, func(i, j int) bool { return out[i].name < out[j].name })
	return out
}

func main() {
	if len(os.Args) != 3 && len(os.Args) != 4 {
		fmt.Fprintln(os.Stderr, "usage: gofacts <repo> <out.lean> [fingerprints.json]")
		os.Exit(2)
	}
	repo := os.Args[1]
	rangesFiles := parseDir(filepath.Join(repo, "ranges"), "ranges.go")
	rootFiles := parseDir(repo, "fileseq.go", "frameset.go", "pad.go", "sequence.go")
	storage := parseDir(filepath.Join(repo, "exp", "cpp", "export"), "storage.go", "uuid.go")
	seqls := parseDir(filepath.Join(repo, "cmd", "seqls"), "manager.go", "main.go")
	seqinfo := parseDir(filepath.Join(repo, "cmd", "seqinfo"), "seqinfo.go")

	var w bytes.Buffer
	w.WriteString("/- GENERATED by tools/gofacts from /repo on every check — do not edit. -/\nnamespace Gfs.Gen\n\n")

	wantRanges := map[string]bool{}
	for _, n := range []string{"String", "Start", "End", "Step", "Len", "Min", "Max", "Contains", "closestInRange", "Value", "Index"} {
		wantRanges["InclusiveRange."+n] = true
	}
	for _, n := range []string{"String", "Len", "Start", "End", "Min", "Max", "Append", "AppendUnique", "Contains", "Value", "Index"} {
		wantRanges["InclusiveRanges."+n] = true
	}
	wantRoot := map[string]bool{"zfillInt": true, "zfillString": true, "FileSequence.Frame": true, "FileSequence.frameInt": true,
		"FileSequence.Index": true, "FileSequence.Len": true, "FileSequence.String": true, "FileSequence.Start": true, "FileSequence.End": true}
	for _, n := range []string{"Len", "Index", "Frame", "HasFrame", "Start", "End", "FrameRange", "String"} {
		wantRoot["FrameSet."+n] = true
	}
	lf := append(loopFacts(rangesFiles, wantRanges, "ranges."), loopFacts(rootFiles, wantRoot, "fileseq.")...)
	emit(&w, "loopFacts", lf)

	shared := map[string]bool{"paddingMap": true, "multiHashPad": true, "singleHashPad": true}
	sw := append(sharedWrites(rootFiles, shared), sharedWrites(rangesFiles, map[string]bool{})...)
	emit(&w, "sharedWrites", sw)

	emit(&w, "regexFacts", regexFacts(rootFiles))
	emit(&w, "padFacts", padFacts(rootFiles))

	emit(&w, "handleSkeleton", syncSkeleton(storage, "", func(n string) bool {
		return strings.HasPrefix(n, "frameSetMap.") || strings.HasPrefix(n, "fileSeqMap.") || n == "xor64" || n == "Xor64Source.Seed"
	}, false))
	emit(&w, "seqlsSkeleton", syncSkeleton(seqls, "", func(n string) bool {
		return strings.HasPrefix(n, "workManager.") || n == "main" || n == "NewWorkManager"
	}, true))
	emit(&w, "seqinfoSkeleton", syncSkeleton(seqinfo, "", func(n string) bool { return n == "main" || n == "parse" }, true))

	fastwalk := parseGlob(filepath.Join(repo, "cmd", "seqls", "internal", "fastwalk", "*.go"))
	var fp []fact
	fp = append(fp, declHashes(rangesFiles, "ranges.")...)
	fp = append(fp, declHashes(rootFiles, "fileseq.")...)
	fp = append(fp, declHashes(storage, "export.")...)
	fp = append(fp, declHashes(seqls, "seqls.")...)
	fp = append(fp, declHashes(fastwalk, "fastwalk.")...)
	fp = append(fp, declHashes(seqinfo, "seqinfo.")...)
	fp = append(fp, cppHashes(repo)...)
	// per property: the declarations its model and specification were written from
	all := []string{"fileseq.", "ranges."}
	seqAPI := []string{"fileseq.NewFileSequence", "fileseq.FileSequence.", "fileseq.type.FileSequence", "fileseq.paddingMap.", "fileseq.multiHashPad.",
		"fileseq.singleHashPad.", "fileseq.newMultiHashPad", "fileseq.newSingleHashPad", "fileseq.newPaddingMap", "fileseq.type.paddingMap",
		"fileseq.type.multiHashPad", "fileseq.type.singleHashPad", "fileseq.type.paddingMapper", "fileseq.type.PadStyle", "fileseq.init",
		"fileseq.var.", "fileseq.const.", "fileseq.zfillInt", "fileseq.zfillString", "fileseq.PaddingChars"}
	frameSet := []string{"fileseq.NewFrameSet", "fileseq.FrameSet.", "fileseq.type.FrameSet", "fileseq.frameRangeMatches", "fileseq.parseInt",
		"fileseq.isModifier", "fileseq.toRange", "fileseq.IsFrameRange", "fileseq.var.", "ranges."}
	listing := append([]string{"fileseq.FindSequencesInList", "fileseq.findSequencesInList", "fileseq.newFileSequence", "fileseq.type.fileItem",
		"fileseq.type.findSeqOptions", "fileseq.findSeqOptions.", "fileseq.type.FileOption", "fileseq.frameMinSize", "fileseq.FramesToFrameRange",
		"fileseq.minMaxFrame", "fileseq.FileSequences."}, seqAPI...)
	disk := append([]string{"fileseq.FindSequencesOnDisk", "fileseq.findSequencesOnDisk", "fileseq.ListFiles", "fileseq.FindSequenceOnDisk"}, listing...)
	per := map[string][]string{
		"C01": frameSet,
		"C02": frameSet,
		"C03": append(append([]string{}, seqAPI...), frameSet...),
		"C04": append(append([]string{}, seqAPI...), frameSet...),
		"C05": append(append([]string{}, listing...), frameSet...),
		"C06": append(append([]string{}, disk...), frameSet...),
		"C07": append(append([]string{}, disk...), frameSet...),
		"C08": frameSet,
		"C09": append([]string{"fileseq.FramesToFrameRange", "fileseq.zfillInt", "fileseq.zfillString"}, frameSet...),
		"C10": seqAPI,
		"C11": append([]string{"fileseq.PadFrameRange", "fileseq.zfillString", "fileseq.zfillInt"}, frameSet...),
		"C12": append(append([]string{}, seqAPI...), frameSet...),
		"C13": {"ranges."},
		"C14": append(append([]string{}, seqAPI...), frameSet...),
		"C15": all,
		"C16": all,
		"C17": append([]string{"seqls.", "fastwalk."}, all...),
		"C18": append([]string{"seqinfo."}, all...),
		"C19": append([]string{"cpp:"}, all...),
		"C20": {"export."},
	}
	ids := make([]string, 0, len(per))
	for id := range per {
		ids = append(ids, id)
	}
	sort.Strings(ids)
	var side strings.Builder
	side.WriteString("{\n")
	for _, id := range ids {
		var sel []fact
		for _, f := range fp {
			for _, pre := range per[id] {
				if strings.HasPrefix(f.name, pre) {
					sel = append(sel, f)
					break
				}
			}
		}
		// Lean compares one digest per property; the list itself goes to a side file so that a
		// mismatch can be reported by declaration name
		var cat strings.Builder
		for _, f := range sel {
			cat.WriteString(f.name + "=" + f.items[0] + "\n")
		}
		fmt.Fprintf(&w, "def sourceDigest%s : String := %s\n\n", id, leanStr(hashOf(cat.String())))
		side.WriteString(leanStrJSON(id) + ": {")
		for i, f := range sel {
			if i > 0 {
				side.WriteString(", ")
			}
			side.WriteString(leanStrJSON(f.name) + ": " + leanStrJSON(f.items[0]))
		}
		side.WriteString("}")
		if id != ids[len(ids)-1] {
			side.WriteString(",\n")
		}
	}
	side.WriteString("\n}\n")
	if len(os.Args) == 4 {
		os.WriteFile(os.Args[3], []byte(side.String()), 0o644)
	}

	w.WriteString("end Gfs.Gen\n")
	os.Remove(os.Args[2])
	if err := os.WriteFile(os.Args[2], w.Bytes(), 0o644); err != nil {
		fmt.Fprintln(os.Stderr, err)
		os.Exit(1)
	}
}
