module gfsverif/gofacts

go 1.13
