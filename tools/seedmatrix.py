#!/usr/bin/env python3
"""tools/seedmatrix.py — prints the markdown table of DESIGN.md §12 from seeded/*/meta.json"""
import json, os, re, sys
HERE = os.path.dirname(os.path.dirname(os.path.abspath(__file__)))
DESC = {
 "C01-1": "`AppendUnique` 'tail block' fast path appends past the last block without the per-value test; needs ≥2 blocks and a unit-step range starting inside the last one",
 "C01-2": "sub-block step captured before direction normalisation; needs a non-first component whose step sign disagrees with its direction",
 "C02-1": "sub-range step captured before direction normalisation (as C01-2, seen through the queries)",
 "C02-2": "`y` components bypass the uniqueness check; needs a `y` component overlapping an earlier one",
 "C04-1": "printf/houdini pad width parsed with base 0 (`%010d` → 8); needs a leading zero and N ≥ 8",
 "C04-2": "sign dropped from the pad width of a re-parsed single file; needs a negative single frame",
 "C05-1": "single entries get pad characters from the default style; needs hash1 + a lone frame",
 "C05-2": "running width follows every frame, not only group openers; needs mixed widths in one key",
 "C07-1": "middle between basename and ext validated with `IsFrameRange` (accepts `1-5`, `1,2`); needs such a sibling",
 "C07-2": "StrictPadding only enforced for `#`/`@` patterns; needs strict + printf/houdini pattern + other width on disk",
 "C09-1": "descending runs lose their stride; needs a descending run with |step| > 1",
 "C09-2": "'endpoint' fast path in the run detector; needs a run whose last gap differs",
 "C11-1": "`didMatch` hoisted out of the per-component loop; needs a non-range part after a range part",
 "C11-2": "`zfillString` via Atoi + zfillInt; needs redundant zeros / `-0` / numerals beyond int64",
 "C12-1": "`Split()` builds parts from components (loses what the re-parse keeps); needs ≥2 comma parts + odd basename",
 "C12-2": "`String()` cached, `SetFrameSet` forgets to reset; needs String → SetFrameSet → String",
 "C13-1": "`End()`: `<` became `<=` in the descending 'step larger than span' shortcut; needs |step| = span, descending",
 "C13-2": "`AppendUnique` 'disjoint' fast path trusts Start()/End() as bounds; needs an earlier descending block",
 "C03-1": "`splitPattern` range group must end in a digit and have ≥2 chars; needs a one-digit range (`f.5#.exr`)",
 "C03-2": "pad width via `ParseInt(…, 0, 32)` (octal); needs `%08d`, `$F010`",
 "C06-1": "symlink path buffer not truncated after a link to a file; needs ≥2 symlinks in one directory",
 "C06-2": "`filepath.Clean` skipped for arguments ending in a separator; needs `dir//`, `./dir/`, `a/../b/`",
 "C08-1": "single-block Normalize fast path swaps raw endpoints; needs descending block, step ≥ 2, end off the grid",
 "C08-2": "one-pass min/max with `else if`; needs a later block lowering the minimum while raising the maximum",
 "C10-1": "pad width parsed with base 0 (as C03-2) seen through width round trip",
 "C10-2": "`SetPaddingStyle` restores a remembered spelling that `SetPadding` never invalidates; needs style → pad → style back",
 "C14-1": "first-block short-circuit replaced by a Min()/Max() disjointness test (0,0 on empty); needs a first range containing 0 → enumerates",
 "C14-2": "lazy lookup map guarded by `End()-Start() < 4096`; needs a descending huge range + HasFrame/Index",
 "C15-1": "parsed-template cache stores failed parses; needs the same malformed template twice → nil deref",
 "C15-2": "`NewFrameSet` rejects sets without frames, `IsFrameRange` unchanged; needs `1-10y1`, `5-5y3`",
 "C16-1": "`%0Nd` verb cached in a package-level array without a lock; needs 2 goroutines, first use of a width",
 "C16-2": "parsed templates cached and shared, `Funcs` rebinds per call; needs same template, different sequences, concurrent Format → wrong fields, no race report",
 "C17-1": "fastwalk returns without the final re-check of the enqueue channel; needs -r, depth ≥ 2, unlucky schedule (4-8 % of runs)",
 "C17-2": "`inDirs` buffered + worker returns when `inSeqs` is closed (two sites); needs ≫ 50 directory arguments",
 "C18-1": "collect loop `for len(results) < n`; needs a duplicated pattern → deadlock",
 "C18-2": "`--format` re-parse moved after the -d/-b/-e/-p/-r overrides; needs --format + an override that does not round-trip",
 "C20-1": "Decref via Load + CAS without retry; needs two owners of one handle decrementing at once → leak",
 "C20-2": "id drawn before the write lock + non-atomic next() (two sites); needs concurrent Adds → duplicate ids",
 "C19-r2-1": "C++ scan reads frame numbers with `atoi` (32 bit); needs on-disk frames ≥ 2³¹",
 "C19-r2-2": "Go-only `AppendUnique` span fast path for > 2048 contiguous values; needs an earlier stepped part + a long overlapping plain range",
 "C15-r2-1": "`NewFrameSet` Atoi fast path accepts `+5`; needs a whole string `^\\+\\d+$`",
 "C15-r2-2": "per-sequence template cache keeps a nil template; needs the same malformed template twice on one sequence",
 "C16-r2-1": "printf format cache: table to 16, unlocked map beyond; needs width ≥ 17 in two goroutines",
 "C16-r2-2": "symlink path buffer from a `sync.Pool`, `defer Put` inside the loop; needs a scan with ≥2 symlinks, then concurrent scans with symlinks",
 "C17-r2-1": "symlink cycle cache keyed by link text (`Readlink`); needs two relative links with the same text in different directories",
 "C17-r2-2": "both inputs buffered + workers return on the first closed input; needs ≫ 90 directories in flight and slow workers",
 "C18-r2-1": "`--inverted` 'gap-free' shortcut via End-Start+1 == Len; needs an unsorted list where that coincides (`1-3,7,5`)",
 "C18-r2-2": "stdin read only when it is a FIFO; needs `seqinfo < file`",
 "C20-r2-1": "`NewRandSource` returns the process-wide generator (shared by both tables, unlocked); needs concurrent Adds on both tables",
 "C20-r2-2": "Decref fast path under the read lock when refs > 2; needs the last three owners to read 3 before any decrements",
 "C05-r2-1": "two unstable sorts + group test only on width change; needs ≥ 13 files in one key mixing zero-filled and plain frames of one width",
 "C05-r2-2": "`newFileSequence` takes pad chars from the default style; needs hash1, a lone frame exactly 4 or 8 wide with zero fill, basename ending in a digit",
 "C12-r2-1": "`SetFrameSet` installs a re-parsed copy if it parses; needs the empty set from `Invert()` of a gap-free range",
 "C12-r2-2": "`SetDirname` picks the separator from the LAST separator; needs a directory mixing `\\` and `/`",
 "C07-r2-1": "frame test by regexp + `frameMinSize` by leading zero (two sites); needs a sibling with ≥ 19 digits beyond int64",
 "C07-r2-2": "non-numeric middles appended to the single-files list and returned as matches; needs SingleFiles + no real match",
 "C02-r2-1": "runs merged into a single-value last block with the step sign flipped only locally; needs `5,4-1`",
 "C01-r3-1": "`Append` coalesces a same-step range that starts one step after the previous block's RAW end; needs a first stepped component whose written end is off its grid (`1-100x10,110-200x10`)",
 "C01-r3-2": "`NewFrameSet` Atoi fast path accepts `+5`; needs a whole string `^\\+\\d+$`",
 "C03-r3-1": "pooled scratch buffers, `Format`'s error path returns a dirty buffer; needs a template that fails while executing, then `String()`",
 "C03-r3-2": "zero-fill flag stripped with `strings.Trim` (also trailing zeros); needs `%010d`, `$F10`, `%020d`",
 "C04-r3-1": "`dir+basename` prefix cached in a slice that `Copy()` shares; needs Copy, then SetDirname/SetBasename on one of the two",
 "C04-r3-2": "single-file split moved above the frame-set error check; needs a trailing digit run that overflows int",
 "C06-r3-1": "symlink filter keeps only regular targets; needs a link to a device / FIFO",
 "C06-r3-2": "separator appended unconditionally; needs the argument to denote `/` (`/`, `//`, `/tmp/..`)",
 "C08-r3-1": "membership bitset one word short when max-min is a multiple of 64; needs hundreds of blocks over such a span",
 "C08-r3-2": "sparse-range jump ignores a block spanning the position; needs a stride or gap above 1024 plus a later block",
 "C09-r3-1": "run scan skips in blocks of 16 comparing end points only; needs sorted=false, ≥ 17 frames, a near-run with interior disorder",
 "C09-r3-2": "`%0Nd` verb built with one digit; needs zfill ≥ 10",
 "C10-r3-1": "`SetPaddingStyle` restores a remembered spelling (as C10-2)",
 "C10-r3-2": "hand parser strips zeros with `Trim`; needs a width that is a multiple of 10",
 "C11-r3-1": "memo cache keyed by `frange+Itoa(pad)` without a separator; needs (`100`,12) before (`1001`,2) in one process",
 "C11-r3-2": "inline `[16]string` guarded by the comma count; needs exactly 17 components → panic",
 "C13-r3-1": "last block grown in place without resetting the cached length; needs an observer call between two adjacent appends",
 "C13-r3-2": "non-sticky 'added in increasing order' flag skips the duplicate scan; needs high, low, middle, then a range reaching back into the high block",
 "C14-r3-1": "first-range short-circuit replaced by a Min()/Max() test (as C14-1); needs a huge first range containing 0",
 "C14-r3-2": "`End()` early-outs replaced by the sign of `(end-start)*step`; needs a product in (2^63, 2^64)",
 "C02-r4-1": "`closestInRange` clamps through float64; needs frame numbers beyond 2^53",
 "C02-r4-2": "`Frames()` returns its own backing slice (the library's `FramesToFrameRange(fs.Frames(), true, …)` sorts it in place)",
 "C05-r4-1": "bare-frame pad characters from the default style (as C05-r2-2)",
 "C05-r4-2": "bucket key = `dir+base+ext` as one string; needs two splits whose concatenations coincide (`img01.left.exr`, `img.left01.exr`)",
 "C07-r4-1": "pad-style option appended to the caller's `opts`; needs a shared option slice with spare capacity and strict → loose → strict",
 "C07-r4-2": "frame test by a digits-only helper; needs a sibling digit run beyond int64 (phantom frame / never returns)",
 "C12-r4-1": "`SetFrameRange` overwrites the FrameSet pointee; needs the same FrameSet reachable from two sequences",
 "C12-r4-2": "`Split` builds parts with `newFileSequence`; needs an empty pad and ≥ 2 comma components",
 "C15-r4-1": "one-frame span already in the set returns before the step is checked; needs `1-10,5-5x0`",
 "C15-r4-2": "look-behind by `TrimSuffix`; needs a lone file named `--5.exr` → panic",
 "C16-r4-1": "shared error sentinel written on `parseInt`'s error path; needs two goroutines failing on overflowing numerals",
 "C16-r4-2": "`FindSequenceOnDiskPad` appends to the caller's option slice; needs an option slice shared between goroutines",
 "C17-r4-1": "`readDir` treats a block with ≥ 256 free bytes as the end; needs names of 237-255 bytes at an 8 KB boundary",
 "C17-r4-2": "`-r` roots that are the same directory are walked once; needs the same directory under two spellings",
 "C18-r4-1": "stdin read with `ReadLine`, `isPrefix` dropped; needs a stdin line of ≥ 4097 bytes",
 "C18-r4-2": "worker pool of `NumCPU()-1`; needs a process confined to one CPU → deadlock",
 "C19-r4-1": "C++ template lookup validates the middle with one `strtol` (skips a space, accepts `+`); needs `shot 0001.exr` next to a lookup of `shot#.exr`",
 "C19-r4-2": "C++ `Range::index` through `int abs(int)`; needs a position ≥ 2^31 inside one block",
 "C01-r5-1": "adjoining sub-ranges joined using the stored end of the previous block; needs a block whose stored end is off its lattice (`1-10x4,13-20x4` style)",
 "C01-r5-2": "`Inverted()`/`Normalized()` sort the receiver's block slice in place; needs a derived set taken before the receiver is observed again",
 "C03-r5-1": "range group of `splitPattern` accepts `, `; needs a basename ending in `<digit>, ` (`Scene 3, `)",
 "C03-r5-2": "dir/base split honours a backslash when there is no `/`; needs `C:\\renders\\beauty.` as a name",
 "C04-r5-1": "pooled path buffer returned dirty on the unsupported-frame-type error; needs a rejected `Frame(x)` before a good one",
 "C04-r5-2": "path built by one `Sprintf`; needs a `%` in the extension",
 "C06-r5-1": "`Lstat` pre-check; needs the directory argument to be a symlink spelled without a trailing separator",
 "C06-r5-2": "symlink filter keeps only links to regular files; needs a link to a device / dangling link",
 "C08-r5-1": "windowed membership table with a negative remainder; needs a descending block with |step| ≥ 2 across a 4096-value window",
 "C08-r5-2": "bisects a `Min()`-sorted copy of > 64 blocks asking one block only; needs a stepped block with other blocks between its frames",
 "C09-r5-1": "fixed 256-entry scratch for the sorted copy; needs `sorted=true` with ≥ 257 frames (returns \"\")",
 "C09-r5-2": "sorted copy from a `sync.Pool` put back before use; needs concurrent long `FramesToFrameRange(…, true, …)` calls (found by the C16 racer; C09 alone reports the broken tie only)",
 "C10-r5-1": "`SetPaddingStyle` returns before switching the mapper when the characters read the same; needs `@@@` then a later `SetPadding(\"#\")`",
 "C10-r5-2": "`FindSequenceOnDiskPad` parses the pattern before the style option is read; needs a style option different from the parameter, `#`, strict padding (a C07 behaviour: found by the C07 check, invisible to C10's operations)",
 "C11-r5-1": "hand scanner accepts non-ASCII decimal digits",
 "C11-r5-2": "pooled scratch slice + skipped empty component; needs an earlier call with more components in the same process",
 "C13-r5-1": "`Normalized()` fast path shares the block slice; needs 3/5/6/7/9 sorted, non-touching unit-step runs, then appends to both",
 "C13-r5-2": "ceil-division in `InclusiveRange.Len` overflows; needs `end-start+step` beyond int64",
 "C14-r5-1": "digit-count table stops at 1e9; needs wide padding (≥ 12) on frames ≥ 1e10",
 "C14-r5-2": "disjoint short-circuit reads the 0 sentinel of an empty list; needs a first range through 0 over an empty container",
 "C02-r6-1": "`AppendUnique` merges a unit-step range into an adjacent last block without the membership test; needs ≥ 3 components, `tail.End()+1 == start` and an earlier overlapping block (`15-25,1-10,11-20`)",
 "C02-r6-2": "`Len` computes the span as `float64(end)-float64(start)`; needs bounds beyond 2^53",
 "C05-r6-1": "`newFileSequence` takes pad characters from the package-level (hash4) mapper; needs hash1 + a pad-less result (all-digit name or lone frame after `<digit>-`) of width 4k with a leading zero",
 "C05-r6-2": "bucket key = `filepath.Join(dir, base)` + ext; needs `D/<frame>.ext` next to `D<frame>.ext`, or `.<frame>.ext` next to `<frame>.ext` with hidden files",
 "C07-r6-1": "template frame test by regex `^-?\\d+$`; needs a sibling whose digits exceed int64 (joins the bucket / never returns)",
 "C07-r6-2": "`filepath.Clean` moved before `os.Open`; needs a pattern directory spelled `<symlink>/../x/` (exposed the genuine defect c7985e5 on the unchanged tree on the way)",
 "C12-r6-1": "`Copy` stores the failed re-parse (nil) instead of keeping the frame set; needs `SetFrameSet(Invert())` of a gapless range, then `Copy`/`Split`",
 "C12-r6-2": "`Split` builds parts with `newFileSequence`; needs an empty pad (`SetPadding(\"\")`) and ≥ 2 comma components",
 "C15-r6-1": "look-behind via `TrimSuffix(base, \"-\")` then index; needs a lone file `--5.exr` (basename `-`) → panic",
 "C15-r6-2": "`IsFrameRange` zero-step test on the text (`TrimLeft(num,\"0\")`); needs a negative-zero step (`1-10x-0`)",
 "C16-r6-1": "`AllChars()` sorts the shared pad-character slice in place; needs two goroutines in their first library call (and the unlucky map order, ~1 process in 8)",
 "C16-r6-2": "`Copy()` shallow-copies the FrameSet (shared blocks with their lazy `End()` memo); needs copies of an unqueried stepped sequence handed to goroutines that ask `End()` at once",
 "C17-r6-1": "fastwalk `SkipFiles` skips every non-directory (so also directory symlinks); needs `-r`, a cyclic link and another directory link in the same directory, second pass through the cycle",
 "C17-r6-2": "a failed `os.Stat` is tried as a pattern only for ENOENT; needs a pattern argument with a ≥ 256-byte file name (ENAMETOOLONG)",
 "C18-r6-1": "`--range` parsed once, the FrameSet shared by the per-pattern goroutines (racy `End()` memo); needs `-r` and ≥ 2 patterns — found by the race-detector build of seqinfo",
 "C18-r6-2": "stdin read only when it is a named pipe; needs stdin from a regular file",
 "C19-r6-1": "C++ scan key = `base + ext` as one string; needs `shot0001.comp.exr` next to `shot.comp0007.exr`",
 "C19-r6-2": "C++ template lookup validates the middle with `strtol` + end pointer (skips leading blanks); needs `shot.   7.exr` next to a lookup of `shot.#.exr`",
 "C20-r6-1": "`Decref` decides 'last reference' from a load before the decrement; needs two owners releasing the last two references at once → leak",
 "C20-r6-2": "`Uint64()` returns `next() >> 1`; needs a generator state of 1 (id 0) or states 2y / 2y+1 — found by `hseed` with the pre-images of small states",
 "C20-r4-1": "map compaction copies under RLock and swaps under Lock; needs ≥ 1024 handles released while another thread releases or creates",
 "C20-r4-2": "handle = address of the entry; needs release, a GC cycle, re-creation (the id comes back)",
 "C02-r2-2": "`Frames()` memoised and shared; needs Frames → caller mutates the slice → query again",
}
rows = []
sd = os.path.join(HERE, "seeded")
for d in sorted(os.listdir(sd)):
    mp = os.path.join(sd, d, "meta.json")
    if not os.path.exists(mp):
        continue
    m = json.load(open(mp))
    files = sorted(set(re.findall(r"^\+\+\+ b/(\S+)", open(os.path.join(sd, d, "patch.diff")).read(), re.M)))
    conf = all(m.get(k) for k in ("demo_passes_clean", "applies", "suite_green_with_patch", "demo_fails_with_patch"))
    res = []
    for c, v in m.get("checks", {}).items():
        viol = v.get("violation")
        if not viol:
            res.append(f"{c}: **missed**")
        elif "no-failing-input-found" in viol:
            rp = v.get("replay") if isinstance(v.get("replay"), dict) else {}
            br = (rp.get("broken") or [{}])[0].get("name", "tie") if rp.get("broken") else "correspondence"
            res.append(f"{c}: tie broken ({br}), no failing input")
        else:
            rp = v.get("replay") if isinstance(v.get("replay"), dict) else {}
            det = (rp.get("detail") or "")
            det = re.sub(r"='[0-9a-f,]{40,}'", "='…'", det)[:90]
            res.append(f"{c}: failing input ({det})")
    rows.append((d, ", ".join(files), DESC.get(d, ""), "yes" if conf else "NOT CONFIRMED", "; ".join(res)))
print("| id | files | change and what it needs to manifest | confirmed | result of the check(s) |")
print("|---|---|---|---|---|")
for r in rows:
    print("| " + " | ".join(r) + " |")
