#!/usr/bin/env python3
"""tools/mkexpected.py — records the source fingerprints of the CURRENT /repo as the ones the Lean model is aligned with:
lean/GfsModel/ExpectedSrc.lean (one digest per property, compared with the regenerated digest by the theorems Cxx_source)
and lean/GfsModel/ExpectedSrc.json (the per-declaration hashes behind each digest, used only to NAME what changed).
Run by hand, and committed, whenever the model has been (re-)aligned with the code, e.g. after a fix: commit in /repo.
The checks never run it."""
import json, os, re, subprocess, sys, tempfile
HERE = os.path.dirname(os.path.dirname(os.path.abspath(__file__)))
env = dict(os.environ, GOFLAGS="-mod=mod", GOPROXY="off", GOSUMDB="off", GOTOOLCHAIN="local")
os.makedirs(os.path.join(HERE, "build"), exist_ok=True)
exe = os.path.join(HERE, "build", "gofacts")
subprocess.run(["go", "build", "-o", exe, "."], cwd=os.path.join(HERE, "tools", "gofacts"), env=env, check=True)
tmp = tempfile.mkdtemp()
facts, side = os.path.join(tmp, "Facts.lean"), os.path.join(tmp, "fp.json")
subprocess.run([exe, os.environ.get("GFS_REPO", "/repo"), facts, side], check=True)
digests = re.findall(r'^def sourceDigest(C\d\d) : String := ("[0-9a-f]+")', open(facts).read(), flags=re.M)
head = subprocess.run(["git", "-C", "/repo", "rev-parse", "--short", "HEAD"], stdout=subprocess.PIPE, text=True).stdout.strip()
with open(os.path.join(HERE, "lean", "GfsModel", "ExpectedSrc.lean"), "w") as fh:
    fh.write("/-\n  GfsModel.ExpectedSrc — per property, the digest of the fingerprints of the declarations of /repo its model and\n"
             "  specification were written from (one hash per function / type / var / const with comments and layout not counted,\n"
             "  one per C++ file; see tools/gofacts), recorded by tools/mkexpected.py when the model was last aligned with the\n"
             f"  code (/repo at {head}). GfsGen/Facts.lean carries the digests re-extracted on every run; the theorems\n"
             "  Cxx_source in GfsProps prove them equal. ExpectedSrc.json lists the hashes behind each digest.\n-/\nnamespace Gfs\n\n")
    for pid, d in digests:
        fh.write(f"def expectedSourceDigest{pid} : String := {d}\n")
    fh.write("\nend Gfs\n")
json.dump(json.load(open(side)), open(os.path.join(HERE, "lean", "GfsModel", "ExpectedSrc.json"), "w"), indent=0, sort_keys=True)
print("recorded", len(digests), "digests at", head)
