#!/usr/bin/env python3
"""dev helper: tools/try.py <gen-name> [n] [seed] [-t]  — run generator ops through both sides, show mismatches"""
import sys, os, collections
sys.path.insert(0, os.path.join(os.path.dirname(os.path.dirname(os.path.abspath(__file__))), "checklib"))
import runner
gen = sys.argv[1]; n = int(sys.argv[2]) if len(sys.argv) > 2 else 2000; seed = int(sys.argv[3]) if len(sys.argv) > 3 else 1
thorough = "-t" in sys.argv
ok, out = runner.build_harness()
if not ok: print(out); sys.exit(1)
ops = runner.gen_ops(gen, seed, n, thorough)
impl, model = runner.run_ops(ops, os.path.join(runner.BUILD, "run", "try"))
nc = npf = 0
kinds = collections.Counter()
shown = 0
for op, i, m in zip(ops, impl, model):
    c, p, d = runner.judge(i, m)
    kinds[op.split(" ")[0]] += 1
    if not p: npf += 1
    elif not c: nc += 1
    if (not c or not p) and shown < int(os.environ.get("SHOW", "5")):
        shown += 1
        print("OP   ", op[:600]); 
        f = op.split(" ")
        for t in f[1:8]:
            try:
                if len(t) > 1 and len(t) % 2 == 0: print("      ", repr(bytes.fromhex(t)))
            except ValueError: pass
        print("IMPL ", i[:700]); print("MODEL", m[:1400]); print("  =>", "corr" if not c else "", "PROP" if not p else "", d); print()
print(f"{len(ops)} ops {dict(kinds)}: corr-breaks={nc} prop-fails={npf}")
