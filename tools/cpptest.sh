#!/bin/sh
# usage: build.sh <repo-root> ; builds and runs the C++ gtest suite of <repo-root>/cpp
R=$1; T=$R/cpp/test; O=${CPPTEST_OBJ:-/tmp/cpptest/obj}; rm -rf $O; mkdir -p $O
FL="-std=c++11 -O0 -DHAVE_REGEX=1 -DFILESEQ_TEST_DIR=$T -I$R/cpp -I$T -I$T/gtest/include -I$T/gtest -w"
ls $R/cpp/*.cpp $R/cpp/private/*.cpp $R/cpp/ranges/*.cpp $T/main.cc $T/Test*.cc $T/gtest/src/gtest-all.cc | xargs -P 16 -I{} sh -c "g++ $FL -c {} -o $O/\$(echo {} | tr / _).o" || exit 3
g++ -o $O/fileseq_test $O/*.o -lpthread || exit 3
cd $T && $O/fileseq_test 2>&1 | tail -${2:-15}
