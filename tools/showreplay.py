#!/usr/bin/env python3
"""tools/showreplay.py <replay.json> — print a replay file with hex arguments decoded"""
import json, sys
d = json.load(open(sys.argv[1]))
def unh(v):
    try:
        return ",".join(bytes.fromhex(x.split(':')[0]).decode('latin-1') + (':' + x.split(':')[1] if ':' in x else '') if x != '-' else '' for x in v.split(','))
    except Exception:
        return v
for k, v in d.items():
    if k in ("implementation", "model", "specification") and isinstance(v, str):
        continue
    print(k, ':', str(v)[:700])
op = d.get('op') or ''
for x in op.split(' ')[1:]:
    if len(x) > 1 and all(ch in '0123456789abcdef,:' for ch in x) and any(ch in 'abcdef' for ch in x) or (len(x) % 2 == 0 and len(x) > 3 and x.isdigit()):
        print('  arg', repr(unh(x))[:400])
def obs(s):
    o = {}
    for kv in (s or '').split(';'):
        k, _, v = kv.partition('='); o[k] = v
    return o
I, M, S = obs(d.get('implementation')), obs(d.get('model')), obs(d.get('specification'))
for k in list(I) + [k for k in M if k not in I]:
    if I.get(k) != M.get(k) or (k in S and S[k] != I.get(k)):
        print(f'  {k}: impl={unh(I.get(k,"?"))!r} model={unh(M.get(k,"?"))!r} spec={unh(S.get(k,"?"))!r}'[:900])
