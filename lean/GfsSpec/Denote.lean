/-
  GfsSpec.Denote — the frame-range shorthand as an AST and its denotation (C01).

  Interpretive choice (DESIGN §6 C01): the sign of the step N is ignored; the direction of
  a component is that of A→B for all three modifiers.
-/
import GfsSpec.Enum

namespace Gfs.Spec

inductive Comp where
  | single (n : Int)
  | range (a b : Int)
  | stepped (a b : Int) (mod : Char) (n : Int)   -- mod ∈ {'x','y',':'}, n ≠ 0
  deriving Repr, DecidableEq

/-- `A-B:N` = `A-BxN, A-Bx(N-1), …, A-Bx1`. -/
def stagger (a b : Int) : Nat → List Int
  | 0 => []
  | k + 1 => enum a b ((k : Int) + 1) ++ stagger a b k

def expand : Comp → List Int
  | .single n => [n]
  | .range a b => enum a b 1
  | .stepped a b m n =>
    if m = 'x' then enum a b n.natAbs
    else if m = 'y' then (enum a b 1).filter (fun v => !(enum a b n.natAbs).contains v)
    else stagger a b n.natAbs

/-- Components concatenated left to right, a frame kept only at its first occurrence. -/
def denote (cs : List Comp) : List Int := dedupFirst (cs.flatMap expand)

def Comp.ok : Comp → Bool
  | .single _ => true
  | .range _ _ => true
  | .stepped _ _ m n => (m = 'x' || m = 'y' || m = ':') && n != 0

/-- Numbers as the grammar writes them: optional '-', then `z` redundant zeros, then digits. -/
def renderNum (n : Int) (z : Nat) : Bytes :=
  (if n < 0 then ['-'] else []) ++ List.replicate z '0' ++ natDigits n.natAbs

def renderComp (z : Nat) : Comp → Bytes
  | .single n => renderNum n z
  | .range a b => renderNum a z ++ '-' :: renderNum b z
  | .stepped a b m n => renderNum a z ++ '-' :: renderNum b z ++ m :: renderNum n z

def render (z : Nat) (cs : List Comp) : Bytes := joinWith ',' (cs.map (renderComp z))

end Gfs.Spec
