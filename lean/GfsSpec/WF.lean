/-
  GfsSpec.WF — well-formedness of block lists: the hypotheses under which the containers
  "behave like their enumerated values".
-/
import GfsModel.Ranges
import GfsSpec.Enum

namespace Gfs.Spec
open Gfs

/-- The step is non-zero and its sign agrees with the direction start→stop
    (either sign is fine when start = stop). -/
def WellSigned (r : Rng) : Prop :=
  (r.start ≤ r.stop ∧ 0 < r.step) ∨ (r.stop ≤ r.start ∧ r.step < 0)

instance (r : Rng) : Decidable (WellSigned r) := by unfold WellSigned; exact inferInstance

/-- What a well-signed block denotes. -/
def rngEnum (r : Rng) : List Int := enum r.start r.stop r.step.natAbs

/-- Every block well signed, no value in two blocks. -/
def WF (bl : Blocks) : Prop :=
  (∀ r ∈ bl, WellSigned r) ∧ bl.Pairwise (fun r1 r2 => ∀ v, v ∈ rngEnum r1 → v ∉ rngEnum r2)

/-- List view of `Value(idx)`. -/
def valueAt (L : List Int) (i : Int) : Except Err Int :=
  if 0 ≤ i ∧ i < L.length then .ok (L.getD i.toNat 0) else .error .index

end Gfs.Spec
