/-
  GfsSpec.Closed — arithmetic (closed-form) description of a single plain or stepped range
  A-B / A-BxN, used where the enumerated specification cannot be evaluated (C14: spans of
  10^12 frames).  `GfsProofs.ClosedLemmas` proves it equal to the enumerated spec.
-/
import GfsSpec.Enum

namespace Gfs.Spec

/-- number of steps that fit: ⌊|b-a| / m⌋ -/
def steps (a b m : Int) : Int := (b - a).natAbs / m

def cLen (a b m : Int) : Int := steps a b m + 1
def cDir (a b : Int) : Int := if a ≤ b then 1 else -1
def cLast (a b m : Int) : Int := a + cDir a b * m * steps a b m
def cValue (a b m i : Int) : Option Int :=
  if 0 ≤ i ∧ i < cLen a b m then some (a + cDir a b * m * i) else none
def cHas (a b m v : Int) : Bool :=
  let d := (v - a) * cDir a b          -- distance from the start in the direction of travel
  decide (0 ≤ d ∧ d ≤ m * steps a b m ∧ d % m = 0)
def cIndex (a b m v : Int) : Int := if cHas a b m v then ((v - a) * cDir a b) / m else -1

end Gfs.Spec
