/-
  GfsSpec.Enum — what the properties *demand*, written without reference to the code's
  algorithms: arithmetic progressions by plain recursion, first-occurrence de-duplication,
  list views.
-/
import GfsModel.Basic

namespace Gfs.Spec

/-- `a, a+m, a+2m, …` while `≤ b` (m ≥ 1; empty for m ≤ 0). -/
def up (a b m : Int) : List Int :=
  if _h : a ≤ b ∧ 0 < m then a :: up (a + m) b m else []
termination_by (b - a + 1).toNat
decreasing_by omega

/-- `a, a-m, a-2m, …` while `≥ b` (m ≥ 1). -/
def down (a b m : Int) : List Int :=
  if _h : b ≤ a ∧ 0 < m then a :: down (a - m) b m else []
termination_by (a - b + 1).toNat
decreasing_by omega

/-- The values a range `a-b` with step magnitude `m` denotes, in the direction a→b:
    "start, start±m, … up to the last value not past end". -/
def enum (a b m : Int) : List Int := if a ≤ b then up a b m else down a b m

/-- Keep each value at its first occurrence only. -/
def dedupFirst : List Int → List Int
  | [] => []
  | x :: xs => x :: (dedupFirst xs).filter (· ≠ x)

/-- Appending a range "uniquely": the new enumeration minus what is already there. -/
def appendU (L : List Int) (s e st : Int) : List Int :=
  if st = 0 then L else L ++ (enum s e st.natAbs).filter (fun v => !L.contains v)

def appendHist (L : List Int) : List (Int × Int × Int) → List Int
  | [] => L
  | (s, e, st) :: h => appendHist (appendU L s e st) h

/-- Index of the first occurrence, or -1. -/
def idxOf (L : List Int) (v : Int) : Int :=
  match L.idxOf? v with   -- first position
  | some i => i
  | none => -1

/-- Ascending list of the distinct members. -/
def insertSorted (x : Int) : List Int → List Int
  | [] => [x]
  | y :: ys => if x < y then x :: y :: ys else if x = y then y :: ys else y :: insertSorted x ys

def sortedSet (L : List Int) : List Int := L.foldr insertSorted []

def listMin (L : List Int) : Int := L.foldl (fun m v => if v < m then v else m) (L.headD 0)
def listMax (L : List Int) : Int := L.foldl (fun m v => if v > m then v else m) (L.headD 0)

/-- The integers of `[min L, max L]` that are not members. -/
def complement (L : List Int) : List Int :=
  (up (listMin L) (listMax L) 1).filter (fun v => !L.contains v)

end Gfs.Spec
