/-
  GfsSpec.SeqSpec — what C03 / C04 / C10 demand of sequence strings: pad tokens and the
  width they denote, printf-style zero filling, the unambiguous domain.
-/
import GfsModel.Sequence
import GfsSpec.Enum

namespace Gfs.Spec
open Gfs

/-- The documented padding tokens. -/
inductive PadTok where
  | chars (s : Bytes)            -- non-empty run over {#,@}
  | printf (n : Option Nat) (digits : Bytes)   -- %d, %0Nd: digits as written
  | houdini (n : Option Nat) (digits : Bytes)  -- $F, $FN
  | udimAngle                    -- <UDIM>
  | udimPrintf                   -- %(UDIM)d
  deriving Repr, DecidableEq

def countChar (c : Char) (s : Bytes) : Nat := (s.filter (· = c)).length

/-- width denoted by a token under a pad style -/
def PadTok.width (st : PadStyle) : PadTok → Int
  | .chars s => (if st = .hash4 then 4 else 1) * (countChar '#' s : Int) + countChar '@' s
  | .printf n _ => match n with | some k => if k = 0 then 1 else k | none => 1
  | .houdini n _ => match n with | some k => if k = 0 then 1 else k | none => 1
  | .udimAngle => 4
  | .udimPrintf => 4

def PadTok.render : PadTok → Bytes
  | .chars s => s
  | .printf _ ds => '%' :: ds ++ ['d']
  | .houdini _ ds => '$' :: 'F' :: ds
  | .udimAngle => "<UDIM>".toList
  | .udimPrintf => "%(UDIM)d".toList

def digitsOpt (ds : Bytes) : Option Nat := if ds.isEmpty then none else some (digitsToNat ds)

/-- N must fit an int for the token to be in the property's domain -/
def fitsWidth (ds : Bytes) : Bool := decide ((digitsToNat ds : Int) ≤ maxInt64)

/-- read a whole string as one documented token -/
def classifyPad (s : Bytes) : Option PadTok :=
  if s = "<UDIM>".toList then some .udimAngle
  else if s = "%(UDIM)d".toList then some .udimPrintf
  else match s with
    | [] => none
    | '%' :: r =>
      let ds := r.takeWhile isDigit
      if r.dropWhile isDigit = ['d'] ∧ fitsWidth ds then some (.printf (digitsOpt ds) ds) else none
    | '$' :: 'F' :: r => if r.all isDigit ∧ fitsWidth r then some (.houdini (digitsOpt r) r) else none
    | _ => if s.all (fun c => c = '#' || c = '@') then some (.chars s) else none

/-- printf `%0Nd`: sign first, zeros up to a total width of `w`, digits -/
def zfillSpec (f : Int) (w : Int) : Bytes :=
  let digits := natDigits f.natAbs
  let sign : Bytes := if f < 0 then ['-'] else []
  sign ++ List.replicate (w.toNat - sign.length - digits.length) '0' ++ digits

/-- the path of frame `f` -/
def framePath (dir base ext : Bytes) (w : Int) (f : Int) : Bytes :=
  dir ++ base ++ zfillSpec f w ++ ext

/-- canonical range text: only the characters of the shorthand, starting with a digit or '-' -/
def plainRange (r : Bytes) : Bool :=
  r.all isRangeChar && (match r with | c :: _ => isRangeStart c | [] => false)

/-- The unambiguous domain of C03 (decidable; deliberately conservative on '%' and '$'). -/
def unambig (dir base rng pad ext : Bytes) : Bool :=
  let name := dir ++ base
  (dir.isEmpty || isSuffixOf ['/'] dir) &&
  !base.contains '/' &&
  !name.contains '\n' && !name.contains '#' && !name.contains '@' &&
  !name.contains '%' && !name.contains '$' && !name.contains '<' &&
  -- the tail of the name cannot be read as the beginning of a range
  ((name.reverse.takeWhile isRangeChar).all (fun c => !isRangeStart c)) &&
  (rng.isEmpty || (plainRange rng && (FrameSet.parse rng).toOption.isSome)) &&
  (classifyPad pad).isSome &&
  (ext.isEmpty || (isPrefixOf ['.'] ext && !ext.contains '\n'))

end Gfs.Spec
