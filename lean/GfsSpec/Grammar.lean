/-
  GfsSpec.Grammar — the documented frame-range grammar as relations between ASTs and text.
-/
import GfsModel.FrameSet
import GfsSpec.Denote

namespace Gfs.Spec
open Gfs

/-- `t` is a numeral of the grammar with value `n`: optional '-', one or more digits
    (any number of leading zeros; "-0" is 0). -/
def NumText (n : Int) (t : Bytes) : Prop :=
  ∃ (neg : Bool) (ds : Bytes), ds ≠ [] ∧ (∀ c ∈ ds, isDigit c = true) ∧
    t = (if neg then ['-'] else []) ++ ds ∧
    n = (if neg then -((digitsToNat ds : Nat) : Int) else ((digitsToNat ds : Nat) : Int))

/-- a component and what the parser's patterns capture for its text -/
inductive MatchOf : Comp → Match → Prop where
  | single {n a} : NumText n a → MatchOf (.single n) (.single a)
  | range {a b ta tb} : NumText a ta → NumText b tb → MatchOf (.range a b) (.range ta tb)
  | stepped {a b n ta tb tn m} : NumText a ta → NumText b tb → NumText n tn →
      (m = 'x' ∨ m = 'y' ∨ m = ':') → MatchOf (.stepped a b m n) (.complex ta tb m tn)

/-- the text of a capture triple: `a`, `a-b`, `a-bmn` -/
def matchText : Match → Bytes
  | .single a => a
  | .range a b => a ++ '-' :: b
  | .complex a b m n => a ++ '-' :: b ++ m :: n

/-- `part` is a text of component `c` -/
def CompText (c : Comp) (part : Bytes) : Prop := ∃ m, MatchOf c m ∧ part = matchText m

/-- pointwise relation of two lists of the same length -/
inductive Forall2 {α β : Type} (R : α → β → Prop) : List α → List β → Prop where
  | nil : Forall2 R [] []
  | cons {a b as bs} : R a b → Forall2 R as bs → Forall2 R (a :: as) (b :: bs)

/-- `txt` is a text of the component list `cs`: the comma-joined component texts with
    spaces and pad characters ('#', '@') sprinkled anywhere. -/
def RangeText (cs : List Comp) (txt : Bytes) : Prop :=
  ∃ parts, Forall2 CompText cs parts ∧ stripJunk txt = joinWith ',' parts

def Fits (n : Int) : Prop := minInt64 ≤ n ∧ n ≤ maxInt64

def Comp.fits : Comp → Prop
  | .single n => Fits n
  | .range a b => Fits a ∧ Fits b
  | .stepped a b _ n => Fits a ∧ Fits b ∧ Fits n

/-- inside the grammar, non-zero step, numbers fit an int -/
def Comp.valid (c : Comp) : Prop := c.ok = true ∧ c.fits

end Gfs.Spec
