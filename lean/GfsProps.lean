import GfsProps.C13
import GfsProps.C01
import GfsProps.C02
import GfsProps.C03
import GfsProps.C08
import GfsProps.C09
import GfsProps.C10
import GfsProps.C11
