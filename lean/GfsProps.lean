import GfsProps.C13
import GfsProps.C01
import GfsProps.C02
