/-
  GfsModel.OpsHist — the `seq.ops` protocol operation: a history of setter / Copy / Split
  calls with a snapshot and a self-consistency verdict after every call (C12, C10).
-/
import GfsModel.OpsSeq
import GfsModel.SeqOps

namespace Gfs.Ops
open Gfs Gfs.Proto

def snap (s : Seq) : String :=
  let ln := s.len
  "|".intercalate [hex s.str, hex s.dir, hex s.base, hex s.frameRange, hex s.pad, hex s.ext,
    toString s.zfill, showStyle s.style, toString ln, hex (s.index 0), hex (s.index (ln - 1))]

def strOk (s : Seq) : Bool := s.str == s.dir ++ s.base ++ s.frameRange ++ s.pad ++ s.ext

def dedupBytes : List Bytes → List Bytes
  | [] => []
  | x :: xs => x :: (dedupBytes xs).filter (· != x)

def parseSeqOp (t : String) : Option SeqOp :=
  match t.splitOn ":" with
  | ["D", h] => some (.setDirname (unhex h))
  | ["B", h] => some (.setBasename (unhex h))
  | ["E", h] => some (.setExt (unhex h))
  | ["P", h] => some (.setPadding (unhex h))
  | ["Y", h] => some (.setStyle (styleOf h))
  | ["R", h] => some (.setFrameRange (unhex h))
  | ["F", h] => some (.setFrameSet (unhex h))
  | ["N"] => some .normalize
  | ["V"] => some .invertSet
  | ["C"] => some .copy
  | ["S"] => some .split
  | _ => none

/-- the verdict for one call: string invariant plus what the call must (not) change -/
def checkOp (before after : Seq) : SeqOp → Bool
  | .setDirname d =>
    strOk after && (d.isEmpty || after.dir == (if isSuffixOf [Seq.dirSep d] d then d else d ++ [Seq.dirSep d])) &&
    after.base == before.base && after.ext == before.ext && after.pad == before.pad &&
    after.zfill == before.zfill && after.frameRange == before.frameRange
  | .setBasename b =>
    strOk after && after.base == b && after.dir == before.dir && after.ext == before.ext &&
    after.pad == before.pad && after.zfill == before.zfill && after.frameRange == before.frameRange
  | .setExt e =>
    strOk after && (e.isEmpty || after.ext == (if isPrefixOf ['.'] e then e else '.' :: e)) &&
    after.base == before.base && after.dir == before.dir && after.pad == before.pad &&
    after.zfill == before.zfill && after.frameRange == before.frameRange
  | .setPadding p =>
    strOk after && after.pad == p && after.base == before.base && after.dir == before.dir &&
    after.ext == before.ext && after.frameRange == before.frameRange
  | .setStyle st =>
    strOk after && after.style == st &&
    (before.zfill < 1 ||
      (after.zfill == before.zfill &&
       (before.frameSet.isNone ||
        (after.index 0 == before.index 0 &&
         after.index (after.len - 1) == before.index (before.len - 1))))) &&
    after.base == before.base && after.dir == before.dir && after.ext == before.ext &&
    after.frameRange == before.frameRange
  | .setFrameRange r =>
    strOk after &&
    (match FrameSet.parse r with
     | .ok _ => after.frameRange == r
     | .error _ => snap after == snap before) &&
    after.base == before.base && after.dir == before.dir && after.ext == before.ext &&
    after.pad == before.pad && after.zfill == before.zfill
  | .setFrameSet r =>
    strOk after && after.frameRange == (match FrameSet.parse r with | .ok _ => r | .error _ => []) &&
    after.base == before.base && after.dir == before.dir && after.ext == before.ext &&
    after.pad == before.pad && after.zfill == before.zfill
  | .normalize =>
    strOk after && after.base == before.base && after.dir == before.dir && after.ext == before.ext &&
    after.pad == before.pad && after.zfill == before.zfill
  | .invertSet =>
    -- the installed set is the complement inside [min,max]: its length is (max-min+1) - len
    strOk after && after.base == before.base && after.dir == before.dir && after.ext == before.ext &&
    after.pad == before.pad && after.zfill == before.zfill &&
    (match before.frameSet with
     | some fs =>
       fs.len > 5000 || fs.len == 0 ||
         after.len == (Spec.listMax fs.frames - Spec.listMin fs.frames + 1) - (fs.frames.eraseDups.length : Int)
     | none => snap after == snap before)
  | .copy =>
    strOk after && snap after == snap before &&
    (before.len > 300 || after.paths == before.paths)
  | .split =>
    let parts := before.split
    let comps := match before.frameSet with
      | some fs => (splitOn ',' fs.frange).length
      | none => 1
    let same := parts.all fun p =>
      p.dir == before.dir && p.base == before.base && p.pad == before.pad &&
      p.style == before.style && p.ext == before.ext && p.zfill == before.zfill && strOk p
    let cat := parts.flatMap Seq.paths
    parts.length == comps && same &&
    (before.len > 300 || dedupBytes cat == before.paths)

def runOps : Seq → List SeqOp → List String × List Bool
  | _, [] => ([], [])
  | s, op :: ops =>
    let s' := s.apply op
    let (snaps, oks) := runOps s' ops
    (snap s' :: snaps, checkOp s s' op :: oks)

def dispatchHist : List String → Option (Obs × Option Obs)
  | "seq.ops" :: st :: init :: toks =>
    match Seq.parse (styleOf st) (unhex init) with
    | .error _ => some ([("err", "err")], none)
    | .ok s0 =>
      match toks.mapM parseSeqOp with
      | none => some ([("bad-op", "1")], none)
      | some ops =>
        let (snaps, oks) := runOps s0 ops
        let chk := String.ofList ((strOk s0 :: oks).map fun b => if b then '1' else '0')
        let m : Obs := [("err", "ok"), ("chk", chk), ("s", ",".intercalate (snap s0 :: snaps))]
        some (m, some [("chk", String.ofList (List.replicate (ops.length + 1) '1'))])
  | _ => none

end Gfs.Ops
