/-
  GfsModel.Ops — the protocol operations: for each op, the model's observation and
  (inside a property's domain) the observation the specification demands.
-/
import GfsModel.Proto
import GfsModel.Ranges
import GfsModel.FrameSet
import GfsSpec.Enum
import GfsSpec.Denote

namespace Gfs.Ops
open Gfs Gfs.Proto

/-- Observation of a block list through every accessor. -/
def obsBlocks (bl : Blocks) (qi qv : List Int) : Obs :=
  [ ("len", toString bl.len),
    ("start", toString bl.start),
    ("fin", toString bl.fin),
    ("min", toString bl.min),
    ("max", toString bl.max),
    ("iter", if bl.len ≤ 20000 then summarize bl.iter else "big"),
    ("val", ",".intercalate (qi.map fun i => showExcept toString (bl.value i))),
    ("idx", showInts (qv.map bl.index)),
    ("has", ",".intercalate (qv.map fun v => showBool (bl.contains v))) ]

/-- The same observation as the specification derives it from the denoted list `L`. -/
def obsList (L : List Int) (qi qv : List Int) : Obs :=
  [ ("len", toString L.length) ] ++
  (if L.isEmpty then [] else
    [ ("start", toString (L.headD 0)),
      ("fin", toString (L.getLastD 0)),
      ("min", toString (Spec.listMin L)),
      ("max", toString (Spec.listMax L)) ]) ++
  [ ("iter", summarize L),
    ("val", ",".intercalate (qi.map fun (i : Int) =>
        if i < 0 ∨ i ≥ L.length then Err.index.toString else toString (L.getD i.toNat 0))),
    ("idx", showInts (qv.map (Spec.idxOf L))),
    ("has", ",".intercalate (qv.map fun v => showBool (L.contains v))) ]

def parseTriple (s : String) : Int × Int × Int :=
  match s.splitOn ":" with
  | [a, b, c] => (int! a, int! b, int! c)
  | _ => (0, 0, 0)

def parseHist (s : String) : List (Int × Int × Int) :=
  if s = "-" then [] else (s.splitOn "/").map parseTriple

def wellSigned (s e st : Int) : Bool :=
  st == 0 || (s ≤ e && st > 0) || (s ≥ e && st < 0) || s == e

/-- AST text: components separated by '/', fields by ':' — `s:N`, `r:A:B`, `c:A:B:m:N`
    with m ∈ {x,y,c} (c = ':'). -/
def parseComp (s : String) : Option Spec.Comp :=
  match s.splitOn ":" with
  | ["s", n] => some (.single (int! n))
  | ["r", a, b] => some (.range (int! a) (int! b))
  | ["c", a, b, m, n] =>
    let mc := if m = "x" then 'x' else if m = "y" then 'y' else ':'
    some (.stepped (int! a) (int! b) mc (int! n))
  | _ => none

def parseAst (s : String) : Option (List Spec.Comp) :=
  if s = "-" then none else (s.splitOn "/").mapM parseComp

/-- FrameSet exposes no Min/Max; both sides derive them from the enumerated frames. -/
def frameSetObs (fs : FrameSet) (qi qv : List Int) : Obs :=
  let small := decide (fs.len ≤ 20000)
  let fr := if small then fs.frames else []
  [ ("len", toString fs.len),
    ("start", toString fs.start),
    ("fin", toString fs.fin),
    ("min", if small then toString (Spec.listMin fr) else "big"),
    ("max", if small then toString (Spec.listMax fr) else "big"),
    ("own", "1"),
    ("iter", if small then summarize fr else "big"),
    ("val", ",".intercalate (qi.map fun i => showExcept toString (fs.frame i))),
    ("idx", showInts (qv.map fs.index)),
    ("has", ",".intercalate (qv.map fun v => showBool (fs.hasFrame v))) ]

def dispatchRanges : List String → Option (Obs × Option Obs)
  -- single InclusiveRange
  | ["rng", s, e, st, qi, qv] =>
    let (s, e, st) := (int! s, int! e, int! st)
    let r := mkRng s e st
    let (qi, qv) := (ints qi, ints qv)
    let m : Obs :=
      [ ("len", toString r.len), ("fin", toString r.fin), ("min", toString r.min),
        ("max", toString r.max), ("str", hex r.str),
        ("iter", if r.len ≤ 20000 then summarize r.iter else "big"),
        ("val", ",".intercalate (qi.map fun i => showExcept toString (r.value i))),
        ("idx", showInts (qv.map r.index)),
        ("has", ",".intercalate (qv.map fun v => showBool (r.contains v))) ]
    let sp : Option Obs :=
      if wellSigned s e st ∧ r.len ≤ 20000 then
        let L := Spec.enum s e r.step.natAbs
        some ((obsList L qi qv).filter fun (k, _) => k != "start")
      else none
    some (m, sp)
  -- AppendUnique history on an empty InclusiveRanges
  | ["rngs", h, qi, qv] =>
    let h := parseHist h
    let (qi, qv) := (ints qi, ints qv)
    let bl : Blocks := h.foldl (fun (bl : Blocks) (s, e, st) => bl.appendUnique s e st) ([] : Blocks)
    let m := obsBlocks bl qi qv ++ [("str", hex bl.str),
      ("reparse", showExcept (fun fs => summarize fs.frames) (FrameSet.parse bl.str)), ("alias", "1")]
    let L := Spec.appendHist [] h
    let sp := obsList L qi qv ++ (if L.isEmpty then [] else [("reparse", summarize L)]) ++ [("alias", "1")]
    some (m, some sp)
  -- NewFrameSet(text) with the AST the text was rendered from (or "-")
  | ["fs.parse", txt, ast, qi, qv] =>
    let txt := unhex txt
    let (qi, qv) := (ints qi, ints qv)
    let isfr := ("isfr", showBool (isFrameRange txt))
    let m : Obs :=
      match FrameSet.parse txt with
      | .error e => [("err", e.toString), isfr]
      | .ok fs => ("err", "ok") :: isfr :: frameSetObs fs qi qv
    let sp : Option Obs :=
      match parseAst ast with
      | none =>
        -- a text without a known AST (mutated, exhaustive): accepted iff it is in the grammar,
        -- which is what the recogniser decides (C01_accept_iff)
        some [("err", match FrameSet.parse txt with | .ok _ => "ok" | .error e => e.toString)]
      | some cs =>
        if cs.all Spec.Comp.ok then
          some ([("err", "ok"), ("own", "1")] ++ obsList (Spec.denote cs) qi qv)
        else some [("err", Err.zeroStep.toString)]
    some (m, sp)
  | _ => none

end Gfs.Ops
