/-
  GfsModel.Pad — model of pad.go: the two padding mappers, PaddingCharsSize,
  PadFrameRange (zfillString / zfillInt live in Basic).
-/
import GfsModel.FrameSet

namespace Gfs

inductive PadStyle where
  | hash1   -- '#' = 1
  | hash4   -- '#' = 4 (default)
  deriving Repr, DecidableEq, Inhabited

/-- `PaddingChars(pad)` of the two mappers. -/
def padChars : PadStyle → Int → Bytes
  | .hash4, pad =>
    if pad ≤ 0 then ['@']
    else if pad % 4 = 0 then List.replicate (pad / 4).toNat '#'
    else List.replicate pad.toNat '@'
  | .hash1, pad =>
    if pad ≤ 0 then ['#'] else List.replicate pad.toNat '#'

/-- `charToSize` lookup (a missing key is 0). -/
def charSize : PadStyle → Char → Int
  | .hash4, c => if c = '#' then 4 else if c = '@' then 1 else 0
  | .hash1, c => if c = '#' then 1 else if c = '@' then 1 else 0

/-- `udimPattern = ^<UDIM>|%\(UDIM\)d$` used with MatchString: the alternation binds
    weaker than the anchors, so it means "starts with <UDIM>" or "ends with %(UDIM)d". -/
def udimMatch (s : Bytes) : Bool :=
  isPrefixOf "<UDIM>".toList s || isSuffixOf "%(UDIM)d".toList s

/-- `^%(\d*)d$` → the digits -/
def printfDigits (s : Bytes) : Option Bytes :=
  match s with
  | '%' :: r =>
    let ds := r.takeWhile isDigit
    if r.dropWhile isDigit = ['d'] then some ds else none
  | _ => none

/-- `^\$F(\d*)$` → the digits -/
def houdiniDigits (s : Bytes) : Option Bytes :=
  match s with
  | '$' :: 'F' :: r => if r.all isDigit then some r else none
  | _ => none

/-- width from the captured digits: Atoi error or < 1 gives 1 -/
def digitsWidth (ds : Bytes) : Int :=
  match atoi ds with
  | some v => if v < 1 then 1 else v
  | none => 1

/-- `PaddingCharsSize`. -/
def padSize (st : PadStyle) (chars : Bytes) : Int :=
  if chars.isEmpty then 0
  else if udimMatch chars then 4
  else match printfDigits chars with
    | some ds => digitsWidth ds
    | none =>
      match houdiniDigits chars with
      | some ds => digitsWidth ds
      | none => chars.foldl (fun acc c => acc + charSize st c) 0

/-- one comma part of `PadFrameRange` -/
def padPart (pad : Int) (part : Bytes) : Bytes :=
  match matchPart part with
  | some (.single a) => zfillString a pad
  | some (.range a b) => zfillString a pad ++ '-' :: zfillString b pad
  | some (.complex a b m n) => zfillString a pad ++ '-' :: zfillString b pad ++ m :: n
  | none => part

/-- `PadFrameRange` — as repaired by the D5 `fix:` commit (a part that is not a range
    stays in its place). -/
def padFrameRange (frange : Bytes) (pad : Int) : Bytes :=
  if pad < 2 then frange
  else joinWith ',' ((splitOn ',' frange).map (padPart pad))

end Gfs
