/-
  GfsModel.ExpectedSrc — per property, the digest of the fingerprints of the declarations of /repo its model and
  specification were written from (one hash per function / type / var / const with comments and layout not counted,
  one per C++ file; see tools/gofacts), recorded by tools/mkexpected.py when the model was last aligned with the
  code (/repo at 0461a13). GfsGen/Facts.lean carries the digests re-extracted on every run; the theorems
  Cxx_source in GfsProps prove them equal. ExpectedSrc.json lists the hashes behind each digest.
-/
namespace Gfs

def expectedSourceDigestC01 : String := "3853c0c70e739ffc"
def expectedSourceDigestC02 : String := "3853c0c70e739ffc"
def expectedSourceDigestC03 : String := "95a1d4c974c4a76c"
def expectedSourceDigestC04 : String := "95a1d4c974c4a76c"
def expectedSourceDigestC05 : String := "da7fabdb95d0d537"
def expectedSourceDigestC06 : String := "e75584ab8617f9a2"
def expectedSourceDigestC07 : String := "e75584ab8617f9a2"
def expectedSourceDigestC08 : String := "3853c0c70e739ffc"
def expectedSourceDigestC09 : String := "f57991e1d1176d95"
def expectedSourceDigestC10 : String := "c31c101567f36241"
def expectedSourceDigestC11 : String := "3bd0516427fc8e59"
def expectedSourceDigestC12 : String := "95a1d4c974c4a76c"
def expectedSourceDigestC13 : String := "d8e254c32a8556c8"
def expectedSourceDigestC14 : String := "95a1d4c974c4a76c"
def expectedSourceDigestC15 : String := "bd04fd902c6467ba"
def expectedSourceDigestC16 : String := "bd04fd902c6467ba"
def expectedSourceDigestC17 : String := "a0d3f67602d08a8c"
def expectedSourceDigestC18 : String := "ce7059884f105e4c"
def expectedSourceDigestC19 : String := "002d8ea52dad27cb"
def expectedSourceDigestC20 : String := "658897532d70f619"

end Gfs
