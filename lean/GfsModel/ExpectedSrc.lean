/-
  GfsModel.ExpectedSrc — per property, the digest of the fingerprints of the declarations of /repo its model and
  specification were written from (one hash per function / type / var / const with comments and layout not counted,
  one per C++ file; see tools/gofacts), recorded by tools/mkexpected.py when the model was last aligned with the
  code (/repo at eac8f2e). GfsGen/Facts.lean carries the digests re-extracted on every run; the theorems
  Cxx_source in GfsProps prove them equal. ExpectedSrc.json lists the hashes behind each digest.
-/
namespace Gfs

def expectedSourceDigestC01 : String := "3853c0c70e739ffc"
def expectedSourceDigestC02 : String := "3853c0c70e739ffc"
def expectedSourceDigestC03 : String := "95a1d4c974c4a76c"
def expectedSourceDigestC04 : String := "95a1d4c974c4a76c"
def expectedSourceDigestC05 : String := "da7fabdb95d0d537"
def expectedSourceDigestC06 : String := "3d6b0c19f3b50906"
def expectedSourceDigestC07 : String := "3d6b0c19f3b50906"
def expectedSourceDigestC08 : String := "3853c0c70e739ffc"
def expectedSourceDigestC09 : String := "f57991e1d1176d95"
def expectedSourceDigestC10 : String := "c31c101567f36241"
def expectedSourceDigestC11 : String := "3bd0516427fc8e59"
def expectedSourceDigestC12 : String := "95a1d4c974c4a76c"
def expectedSourceDigestC13 : String := "d8e254c32a8556c8"
def expectedSourceDigestC14 : String := "95a1d4c974c4a76c"
def expectedSourceDigestC15 : String := "59920030d386a55d"
def expectedSourceDigestC16 : String := "59920030d386a55d"
def expectedSourceDigestC17 : String := "6e5c96fd6f2ccc96"
def expectedSourceDigestC18 : String := "5871c779f07e8a3f"
def expectedSourceDigestC19 : String := "81f79fed4b68d7e2"
def expectedSourceDigestC20 : String := "658897532d70f619"

end Gfs
