/-
  GfsModel.ExpectedSrc — per property, the digest of the fingerprints of the declarations of /repo its model and
  specification were written from (one hash per function / type / var / const with comments and layout not counted,
  one per C++ file; see tools/gofacts), recorded by tools/mkexpected.py when the model was last aligned with the
  code (/repo at c7985e5). GfsGen/Facts.lean carries the digests re-extracted on every run; the theorems
  Cxx_source in GfsProps prove them equal. ExpectedSrc.json lists the hashes behind each digest.
-/
namespace Gfs

def expectedSourceDigestC01 : String := "3853c0c70e739ffc"
def expectedSourceDigestC02 : String := "3853c0c70e739ffc"
def expectedSourceDigestC03 : String := "95a1d4c974c4a76c"
def expectedSourceDigestC04 : String := "95a1d4c974c4a76c"
def expectedSourceDigestC05 : String := "da7fabdb95d0d537"
def expectedSourceDigestC06 : String := "6f8e0a8af43c2fef"
def expectedSourceDigestC07 : String := "6f8e0a8af43c2fef"
def expectedSourceDigestC08 : String := "3853c0c70e739ffc"
def expectedSourceDigestC09 : String := "f57991e1d1176d95"
def expectedSourceDigestC10 : String := "c31c101567f36241"
def expectedSourceDigestC11 : String := "3bd0516427fc8e59"
def expectedSourceDigestC12 : String := "95a1d4c974c4a76c"
def expectedSourceDigestC13 : String := "d8e254c32a8556c8"
def expectedSourceDigestC14 : String := "95a1d4c974c4a76c"
def expectedSourceDigestC15 : String := "169e06f830bdda19"
def expectedSourceDigestC16 : String := "169e06f830bdda19"
def expectedSourceDigestC17 : String := "96053b2ed6b3fb2d"
def expectedSourceDigestC18 : String := "ae7b2b8a7e731f30"
def expectedSourceDigestC19 : String := "87f4653bce31a11a"
def expectedSourceDigestC20 : String := "658897532d70f619"

end Gfs
