/-
  GfsModel.ExpectedSrc — per property, the digest of the fingerprints of the declarations of /repo its model and
  specification were written from (one hash per function / type / var / const with comments and layout not counted,
  one per C++ file; see tools/gofacts), recorded by tools/mkexpected.py when the model was last aligned with the
  code (/repo at 0aa7b19). GfsGen/Facts.lean carries the digests re-extracted on every run; the theorems
  Cxx_source in GfsProps prove them equal. ExpectedSrc.json lists the hashes behind each digest.
-/
namespace Gfs

def expectedSourceDigestC01 : String := "23ad038ee6c10851"
def expectedSourceDigestC02 : String := "23ad038ee6c10851"
def expectedSourceDigestC03 : String := "cd07b57d0b72fdf6"
def expectedSourceDigestC04 : String := "cd07b57d0b72fdf6"
def expectedSourceDigestC05 : String := "787f5eecd0019a2e"
def expectedSourceDigestC06 : String := "98435061cba72da3"
def expectedSourceDigestC07 : String := "98435061cba72da3"
def expectedSourceDigestC08 : String := "23ad038ee6c10851"
def expectedSourceDigestC09 : String := "9b1c44b01b7453ea"
def expectedSourceDigestC10 : String := "c31c101567f36241"
def expectedSourceDigestC11 : String := "17da63e009ca68df"
def expectedSourceDigestC12 : String := "cd07b57d0b72fdf6"
def expectedSourceDigestC13 : String := "c8b835d137359e48"
def expectedSourceDigestC14 : String := "cd07b57d0b72fdf6"
def expectedSourceDigestC15 : String := "23ad4076c596635f"
def expectedSourceDigestC16 : String := "23ad4076c596635f"
def expectedSourceDigestC17 : String := "e2f4f4aa18c8182f"
def expectedSourceDigestC18 : String := "a1acd53f6c91ec68"
def expectedSourceDigestC19 : String := "97f9b701f17ec43b"
def expectedSourceDigestC20 : String := "658897532d70f619"

end Gfs
