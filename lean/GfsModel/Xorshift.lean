/-
  GfsModel.Xorshift — model of exp/cpp/export/uuid.go: the xorshift64 id generator.
-/
namespace Gfs.Xorshift

/-- `xor64` -/
def xor64 (x : BitVec 64) : BitVec 64 :=
  let x := x ^^^ (x <<< 13)
  let x := x ^^^ (x >>> 7)
  x ^^^ (x <<< 17)

def seed0 : BitVec 64 := 88172645463325252#64

/-- `Seed`: a zero seed is replaced -/
def seed (s : BitVec 64) : BitVec 64 := if s = 0#64 then seed0 else s

/-- the n-th id handed out after seeding with s (n ≥ 1) -/
def nth (s : BitVec 64) : Nat → BitVec 64
  | 0 => seed s
  | n + 1 => xor64 (nth s n)

end Gfs.Xorshift
