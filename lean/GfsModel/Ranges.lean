/-
  GfsModel.Ranges — model of /repo/ranges/ranges.go (InclusiveRange, InclusiveRanges).

  `int` is modelled by unbounded `Int`; Go's `/` is `Int.tdiv`.  The per-value caches
  (cachedEnd/cachedLen) are pure memoisation and are not modelled.
-/
import GfsModel.Basic

namespace Gfs

/-- ranges.go `InclusiveRange` as stored by `NewInclusiveRange`. -/
structure Rng where
  start : Int
  stop  : Int
  step  : Int
  deriving Repr, DecidableEq, Inhabited

/-- `NewInclusiveRange`: a zero step is replaced by the direction. -/
def mkRng (s e st : Int) : Rng :=
  ⟨s, e, if st = 0 then (if s ≤ e then 1 else -1) else st⟩

/-- `closestInRange(value, start, end, step)`. -/
def closest (v s e st : Int) : Int :=
  if e ≥ s then
    if v < s then s
    else if v > e then e
    else if st = 1 ∨ st = -1 then v
    else ((v - s).tdiv st) * st + s
  else
    if v > s then s
    else if v < e then e
    else if st = 1 ∨ st = -1 then v
    else ((v - s).tdiv st) * st + s

/-- `End()` (ranges.go:111-140). -/
def Rng.fin (r : Rng) : Int :=
  if r.step = 1 ∨ r.step = -1 ∨ r.start = r.stop then r.stop
  else if r.stop < r.start ∧ r.step < r.stop - r.start then r.start
  else if r.stop > r.start ∧ r.step > r.stop - r.start then r.start
  else closest r.stop r.start r.stop r.step

/-- `Len()`: ceil((|end-start|+1) / |step|), computed exactly (assumption A-float). -/
def Rng.len (r : Rng) : Int :=
  let d : Int := (r.stop - r.start).natAbs + 1
  let m : Int := r.step.natAbs
  (d + m - 1) / m

def Rng.min (r : Rng) : Int := if r.start < r.fin then r.start else r.fin
def Rng.max (r : Rng) : Int := if r.start > r.fin then r.start else r.fin

def Rng.contains (r : Rng) (v : Int) : Bool :=
  closest v r.start r.fin r.step == v

/-- `Value(idx)`. -/
def Rng.value (r : Rng) (idx : Int) : Except Err Int :=
  if idx < 0 then .error .index
  else
    let s := r.start
    let e := r.fin
    let v := s + r.step * idx
    if s ≤ e ∧ (v < s ∨ v > e) then .error .index
    else if e < s ∧ (v > s ∨ v < e) then .error .index
    else .ok v

/-- `Index(value)`. -/
def Rng.index (r : Rng) (v : Int) : Int :=
  if closest v r.start r.fin r.step ≠ v then -1
  else
    let i := (v - r.start).tdiv r.step
    if i < 0 then -i else i

/-- What the iterator yields: `Len()` calls of `Next()`, which falls back to `End()`
    when `Value` fails. -/
def Rng.iter (r : Rng) : List Int :=
  (List.range r.len.toNat).map fun (i : Nat) =>
    match r.value (i : Int) with
    | .ok v => v
    | .error _ => r.fin

/-- `String()`. -/
def Rng.str (r : Rng) : Bytes :=
  let s := itoa r.start
  if r.fin ≠ r.start then
    let s := s ++ '-' :: itoa r.fin
    if r.step > 1 ∨ r.step < -1 then s ++ 'x' :: itoa r.step else s
  else s

/-- ranges.go `InclusiveRanges.blocks`. -/
abbrev Blocks := List Rng

namespace Blocks

def len (bl : Blocks) : Int := bl.foldl (fun acc b => acc + b.len) 0

def start (bl : Blocks) : Int :=
  match bl with
  | [] => 0
  | b :: _ => b.start

def fin (bl : Blocks) : Int :=
  match bl.getLast? with
  | none => 0
  | some b => b.fin

def min (bl : Blocks) : Int :=
  bl.foldl (fun v b => if b.min < v then b.min else v) (start bl)

def max (bl : Blocks) : Int :=
  bl.foldl (fun v b => if b.max > v then b.max else v) (fin bl)

def contains (bl : Blocks) (v : Int) : Bool := bl.any (·.contains v)

/-- `Value(idx)`: the loop over blocks with the running offset `n`. -/
def valueAux : Blocks → Int → Int → Except Err Int
  | [], _, _ => .error .index
  | b :: bs, idx, n =>
    let size := b.len
    if idx - n < size then
      match b.value (idx - n) with
      | .ok v => .ok v
      | .error _ => valueAux bs idx (n + size)
    else valueAux bs idx (n + size)

def value (bl : Blocks) (idx : Int) : Except Err Int :=
  if idx < 0 then .error .index else valueAux bl idx 0

def indexAux : Blocks → Int → Int → Int
  | [], _, _ => -1
  | b :: bs, v, n =>
    let i := b.index v
    if i ≥ 0 then i + n else indexAux bs v (n + b.len)

def index (bl : Blocks) (v : Int) : Int := indexAux bl v 0

def iter (bl : Blocks) : List Int := bl.flatMap Rng.iter

def str (bl : Blocks) : Bytes := joinWith ',' (bl.map Rng.str)

/-- The candidate values `start, start+step, …` not past `end`
    (`step` already normalised to the direction, non-zero). -/
def cands (s e step : Int) : List Int :=
  let n := ((e - s).natAbs / step.natAbs) + 1
  (List.range n).map fun (k : Nat) => s + step * (k : Int)

/-- Loop state of `AppendUnique`. -/
structure AUState where
  bl : Blocks
  subStart : Int
  last : Int
  pending : Nat
  deriving Repr

/-- One iteration of the `AppendUnique` loop at candidate `c`. -/
def auStep (step : Int) (st : AUState) (c : Int) : AUState :=
  if !contains st.bl c then
    { st with last := c,
              subStart := if st.pending = 0 then c else st.subStart,
              pending := st.pending + 1 }
  else if st.pending = 0 then st
  else { bl := st.bl ++ [mkRng st.subStart st.last step],
         subStart := c + step, last := st.last, pending := 0 }

/-- Direction-normalised step: |step| towards `e`. -/
def normStep (s e step : Int) : Int :=
  if s ≤ e then (if step < 0 then -step else step)
  else (if step > 0 then -step else step)

/-- `AppendUnique(start, end, step)` — as repaired by the D1 `fix:` commit
    (sub-blocks carry the direction-normalised step). -/
def appendUnique (bl : Blocks) (s e step : Int) : Blocks :=
  if step = 0 then bl
  else
    let step' := normStep s e step
    if bl.isEmpty then [mkRng s e step']
    else
      let st := (cands s e step').foldl (auStep step') ⟨bl, s, s, 0⟩
      if st.pending > 0 then st.bl ++ [mkRng st.subStart st.last step'] else st.bl

/-- Loop state of `normalized`. -/
structure NState where
  out : Blocks
  start : Int
  stop : Int
  step : Int
  pending : Nat
  deriving Repr

/-- One iteration of the `normalized` loop; `skip` is the Go variable `keepValue`
    (true = the value is *not* wanted). -/
def nStep (skip : Int → Bool) (st : NState) (cur : Int) : NState :=
  if skip cur then
    if st.pending < 2 then { st with step := st.step + 1 }
    else if cur + 1 - st.stop ≠ st.step then
      { out := st.out ++ [mkRng st.start st.stop st.step],
        start := cur, stop := st.stop, step := 1, pending := 0 }
    else st
  else
    let st1 : NState :=
      if st.pending ≥ 2 ∧ cur - st.stop ≠ st.step then
        { st with out := st.out ++ [mkRng st.start st.stop st.step], pending := 0 }
      else st
    let st2 : NState := { st1 with stop := cur }
    let st3 : NState := if st2.pending = 0 then { st2 with start := cur, step := 1 } else st2
    { st3 with pending := st3.pending + 1 }

/-- `normalized(invert)`. -/
def normalized (bl : Blocks) (invert : Bool) : Blocks :=
  let total := mkRng (min bl) (max bl) 1
  let skip : Int → Bool := fun v => if invert then contains bl v else !contains bl v
  let st := total.iter.foldl (nStep skip) ⟨[], 0, 0, 0, 0⟩
  if st.pending > 0 then st.out ++ [mkRng st.start st.stop st.step] else st.out

end Blocks
end Gfs
