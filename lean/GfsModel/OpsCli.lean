/-
  GfsModel.OpsCli — protocol operations for the two command line tools (C18 seqinfo, C17 seqls).
-/
import GfsModel.OpsHandles
import GfsModel.Seqinfo

namespace Gfs.Ops
open Gfs Gfs.Proto

def optInt (s : String) : Option Int := if s = "-" then none else s.toInt?

def showResult (r : Seqinfo.Result) : String :=
  ":".intercalate [hex r.orig, showBool r.error, hex r.str, hex r.dir, hex r.base, hex r.range, hex r.pad,
    hex r.ext, toString r.start, toString r.stop, toString r.len, toString r.zfill, showBool r.hasRange]

def insertResultSorted (r : Seqinfo.Result) : List Seqinfo.Result → List Seqinfo.Result
  | [] => [r]
  | x :: xs => if bytesLt r.orig x.orig then r :: x :: xs else x :: insertResultSorted r xs

def dispatchCli : List String → Option (Obs × Option Obs)
  | ["seqinfo", _mode, flags, d, b, r, p, e, fmt, i, f, pats] =>
    let o : Seqinfo.Opts :=
      { dirname := unhex d, basename := unhex b, range := unhex r, padding := unhex p, ext := unhex e,
        format := unhex fmt, index := optInt i, frame := optInt f,
        inverted := flags.contains 'v', hash1 := flags.contains '1' }
    let patterns := parsePaths pats
    match patterns.mapM (fun pat => Seqinfo.parse pat o) with
    | none => some ([("unmodelled", "1")], none)
    | some rs =>
      let m := Seqinfo.collect rs
      let sorted := m.foldr insertResultSorted []
      let obs : Obs :=
        [ ("n", toString sorted.length),
          ("res", if sorted.isEmpty then "-" else ",".intercalate (sorted.map showResult)),
          ("plain", "1"), ("stable", "1") ]
      some (obs, some obs)
  | _ => none

end Gfs.Ops
