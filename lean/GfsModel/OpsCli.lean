/-
  GfsModel.OpsCli — protocol operations for the two command line tools (C18 seqinfo, C17 seqls).
-/
import GfsModel.OpsHandles
import GfsModel.Seqinfo
import GfsModel.Seqls

namespace Gfs.Ops
open Gfs Gfs.Proto

def optInt (s : String) : Option Int := if s = "-" then none else s.toInt?

def showResult (r : Seqinfo.Result) : String :=
  ":".intercalate [hex r.orig, showBool r.error, hex r.str, hex r.dir, hex r.base, hex r.range, hex r.pad,
    hex r.ext, toString r.start, toString r.stop, toString r.len, toString r.zfill, showBool r.hasRange]

def insertResultSorted (r : Seqinfo.Result) : List Seqinfo.Result → List Seqinfo.Result
  | [] => [r]
  | x :: xs => if bytesLt r.orig x.orig then r :: x :: xs else x :: insertResultSorted r xs

def dispatchCli : List String → Option (Obs × Option Obs)
  | ["seqinfo", _mode, flags, d, b, r, p, e, fmt, i, f, pats] =>
    let o : Seqinfo.Opts :=
      { dirname := unhex d, basename := unhex b, range := unhex r, padding := unhex p, ext := unhex e,
        format := unhex fmt, index := optInt i, frame := optInt f,
        inverted := flags.contains 'v', hash1 := flags.contains '1' }
    let patterns := parsePaths pats
    match patterns.mapM (fun pat => Seqinfo.parse pat o) with
    | none => some ([("unmodelled", "1")], none)
    | some rs =>
      let m := Seqinfo.collect rs
      let sorted := m.foldr insertResultSorted []
      let obs : Obs :=
        [ ("n", toString sorted.length),
          ("res", if sorted.isEmpty then "-" else ",".intercalate (sorted.map showResult)),
          ("plain", "1"), ("stable", "1") ]
      some (obs, some obs)
  -- seqls <flags> <roots> <tree>   (cwd = tree root, "/T" = its absolute path)
  | ["seqls", flags, roots, tree] =>
    let fl : Seqls.Flags :=
      { recurse := flags.contains 'r', all := flags.contains 'a', seqsOnly := flags.contains 's',
        hash1 := flags.contains '1', strict := flags.contains 'S' }
    let abs := flags.contains 'f'
    let t : Seqls.Tree := if tree = "~" then [] else (tree.splitOn ",").map fun tok =>
      match tok.splitOn ":" with
      | [h, "f"] => ⟨unhex h, .file⟩
      | [h, "d"] => ⟨unhex h, .dir⟩
      | [h, "l"] => ⟨unhex h, .linkFile⟩
      | [h, "L", tg] => ⟨unhex h, .linkDir (unhex tg)⟩
      | _ => ⟨[], .file⟩
    let toReal (p : Bytes) : Bytes :=
      let c := pathClean p
      if c = "/T".toList then [] else
      if isPrefixOf "/T/".toList c then c.drop 3 else if c = ['.'] then [] else c
    -- resolve a (possibly link-traversing) real path: links to directories at the last component
    let realDir (p : Bytes) : Option Bytes :=
      let r := toReal p
      if Seqls.isDirPath t r then some r
      else match t.find? (fun n => n.path = r) with
        | some ⟨_, .linkDir tg⟩ => some tg
        | _ => none
    let exists_ (p : Bytes) : Bool := (realDir p).isSome || t.any (fun n => n.path = toReal p)
    let rootArgs := ((parsePaths roots).map pathClean).eraseDups
    let o := Seqls.listOptsOf fl
    let lookup : Bytes → DirSpec := fun d => (realDir d).map (Seqls.dirSpecOf t)
    -- items
    let dirRoots := rootArgs.filter fun p => (realDir p).isSome
    let patRoots := rootArgs.filter fun p => !exists_ p
    let visited : List (Bytes × Bytes) :=
      if fl.recurse then
        dirRoots.flatMap fun p => (Seqls.walk t fl.all (Seqls.walkBound t) [] p ((realDir p).getD [])).1
      else dirRoots.map fun p => (p, (realDir p).getD [])
    let dirResults : List (Except Err (List Seq)) :=
      visited.map fun (shown, real) => scanDir (some (Seqls.dirSpecOf t real)) shown o none
    let patResults : List (Option Seq) := patRoots.map fun p =>
      match Seq.parse .hash4 p with
      | .error _ => none
      | .ok fs =>
        match findSequenceOnDisk lookup (fs.dir ++ fs.base ++ fs.pad ++ fs.ext) o.style fl.strict fl.all with
        | .ok r => r
        | .error _ => none
    let seqs : List Seq := (dirResults.flatMap fun r => match r with | .ok l => l | .error _ => []) ++
      patResults.filterMap id
    let showLine (s : Seq) : Bytes :=
      if abs then (if isPrefixOf ['/'] s.str then pathClean s.str else pathClean ("/T/".toList ++ s.str)) else s.str
    -- error lines: unparsable arguments, and pattern lookups whose directory cannot be read
    let nerr := (rootArgs.filter fun p => !exists_ p && (match Seq.parse .hash4 p with
      | .error _ => true
      | .ok fs => (lookup (openDir fs.dir)).isNone)).length
    let names := t.map fun n => Seqls.baseName n.path
    let mixed := mixedShapes names
    let cover := sortBytes (expandSeqs seqs |>.map fun p =>
      if abs then (if isPrefixOf ['/'] p then pathClean p else pathClean ("/T/".toList ++ p)) else p)
    if flags.contains 'C' then
      some ([("timeout", "0")], some [("timeout", "0")])
    else
    let m : Obs :=
      (if mixed then [] else [("lines", hexList (sortBytes (seqs.map showLine)))]) ++
      [ ("cover", if totalLen seqs ≤ 3000 then hexList cover else "big"),
        ("nerr", toString nerr), ("stable", "1"), ("timeout", "0") ]
    -- spec side: every selected file exactly once per visiting path (single files on, tame names)
    let selected : List Bytes := visited.flatMap fun (shown, real) =>
      let pre := dirPrefix shown
      ((Seqls.dirSpecOf t real).filter nonDir).filterMap fun e =>
        if !fl.all && isPrefixOf ['.'] e.name then none else some (pre ++ e.name)
    let tame := !(names.any negZeroToken)
    -- spec side for pattern arguments: the files `<basename><frame number><ext>` of the pattern's
    -- directory, when they all have one digit width (`none` = no claim)
    let patFiles : List (Option (List Bytes)) := patRoots.map fun p =>
      match Seq.parse .hash4 p with
      | .error _ => some []
      | .ok fs =>
        if fs.pad.isEmpty then none else
        match realDir fs.dir with
        | none => some []
        | some real =>
          let cands : List (Bytes × Bytes) := ((Seqls.dirSpecOf t real).filter nonDir).filterMap fun e =>
            let n := e.name
            if !fl.all && isPrefixOf ['.'] n then none
            else if isPrefixOf fs.base n && isSuffixOf fs.ext n && fs.base.length + fs.ext.length ≤ n.length then
              let tk := (n.drop fs.base.length).take (n.length - fs.base.length - fs.ext.length)
              if (frameAt tk).map (·.2) == some [] then some (tk, fs.dir ++ n) else none
            else none
          let odd := cands.any fun c =>
            (atoi c.1).isNone || (match c.1 with | '-' :: zs => zs.all (· = '0') | _ => false)
          if odd || (cands.map (·.1.length)).eraseDups.length > 1 then none
          else some (cands.map (·.2))
    let patClaim := dirRoots.isEmpty ∧ !patRoots.isEmpty ∧ !fl.strict ∧ patFiles.all (·.isSome)
    let patCover : List Bytes := patFiles.flatMap fun o => o.getD []
    let sp : Obs :=
      [("stable", "1"), ("timeout", "0")] ++
      (if !tame then [("~negzero", "1")] else []) ++
      (if !fl.seqsOnly ∧ patRoots.isEmpty ∧ selected.length ≤ 3000 then
         [("cover", hexList (sortBytes (selected.map fun p =>
            if abs then (if isPrefixOf ['/'] p then pathClean p else pathClean ("/T/".toList ++ p)) else p)))]
       else if patClaim ∧ patCover.length ≤ 3000 then
         [("cover", hexList (sortBytes (patCover.map fun p =>
            if abs then (if isPrefixOf ['/'] p then pathClean p else pathClean ("/T/".toList ++ p)) else p)))]
       else [])
    some (m, some sp)
  | _ => none

end Gfs.Ops
