/-
  GfsModel.ListSeqs — model of FindSequencesInList / findSequencesInList (sequence.go),
  including the template ("glob") branch used by FindSequenceOnDisk.
-/
import GfsModel.Sequence
import GfsModel.Compress

namespace Gfs

structure FileItem where
  dir : Bytes
  name : Bytes
  deriving Repr, DecidableEq

structure FrameInfo where
  frame : Bytes
  num : Int
  minWidth : Nat
  deriving Repr

structure SeqInfo where
  dir : Bytes
  base : Bytes
  ext : Bytes
  frames : List FrameInfo      -- in arrival order
  padding : Bytes
  minWidth : Nat
  deriving Repr

structure ListOpts where
  single : Bool
  hidden : Bool
  style : PadStyle
  deriving Repr

/-- `strconv.Atoi` ignoring the error (0) -/
def atoiOr0 (s : Bytes) : Int := (atoi s).getD 0

/-- `frameMinSize` -/
def frameMinSize (frame : Bytes) : Nat :=
  if frame.length = (itoa (atoiOr0 frame)).length then 1 else frame.length

/-- add one frame to the bucket of its key (buckets kept in first-seen order) -/
def addFrame (st : PadStyle) (dir base ext frame : Bytes) : List SeqInfo → List SeqInfo
  | [] =>
    [{ dir := dir, base := base, ext := ext,
       frames := [⟨frame, atoiOr0 frame, frameMinSize frame⟩],
       padding := padChars st frame.length, minWidth := frame.length }]
  | b :: bs =>
    if b.dir = dir ∧ b.base = base ∧ b.ext = ext then
      let b1 := { b with frames := b.frames ++ [⟨frame, atoiOr0 frame, frameMinSize frame⟩] }
      (if frame.length < b.minWidth then
         { b1 with minWidth := frame.length, padding := padChars st frame.length }
       else b1) :: bs
    else b :: addFrame st dir base ext frame bs

/-- `appendSeq` — as repaired by the D9/D14 `fix:` commit: the sequence is built from the
    components already determined instead of formatting and re-parsing them; a frame without
    pad characters (single frame after a digit) gets the pad of its own width. -/
def rebuild (st : PadStyle) (dir base frange pad ext : Bytes) : Seq :=
  let pad' := if pad.isEmpty ∧ !frange.isEmpty then padChars st frange.length else pad
  let s := Seq.setPadding ⟨base, dir, ext, [], 0, none, st⟩ pad'
  if frange.isEmpty then s else (s.setFrameRange frange).1

/-- stable insertion sort by frame width (what pdqsort does for n ≤ 12) -/
def insertByWidth (x : FrameInfo) : List FrameInfo → List FrameInfo
  | [] => [x]
  | y :: ys => if x.frame.length < y.frame.length then x :: y :: ys else y :: insertByWidth x ys

def sortByWidth (l : List FrameInfo) : List FrameInfo := l.foldl (fun acc x => insertByWidth x acc) []

/-- the regrouping walk: (groups of frame numbers with their width), current group last -/
def regroup : List FrameInfo → Nat → List Int → List (Nat × List Int) → List (Nat × List Int)
  | [], w, cur, acc => if cur.isEmpty then acc else acc ++ [(w, cur)]
  | fi :: rest, w, cur, acc =>
    if fi.frame.length ≠ w ∧ fi.minWidth > w then
      regroup rest fi.frame.length [fi.num] (acc ++ [(w, cur)])
    else regroup rest w (cur ++ [fi.num]) acc

/-- sequences of one bucket -/
def bucketSeqs (st : PadStyle) (b : SeqInfo) : List Seq :=
  match b.frames with
  | [] => []
  | [f] =>
    let lastIsDigit : Bool :=
      if b.base.isEmpty then false else
      let pos := if isSuffixOf ['-'] b.base ∧ b.base.length ≥ 2 then 2 else 1
      match b.base.reverse.drop (pos - 1) with
      | c :: _ => isDigit c
      | [] => false
    let pad := if lastIsDigit then [] else b.padding
    let frange := if pad.isEmpty then f.frame else itoa f.num
    [rebuild st b.dir b.base frange pad b.ext]
  | _ =>
    let sorted := sortByWidth b.frames
    let w0 := (sorted.head?.map (·.frame.length)).getD 0
    let groups := regroup sorted w0 [] []
    groups.map fun (w, nums) =>
      rebuild st b.dir b.base (framesToFrameRange nums true 0) (padChars st w) b.ext

/-- the scan over the items: buckets and single files -/
def scanItems (o : ListOpts) (tmpl : Option Seq) :
    List FileItem → List SeqInfo → List Seq → Except Err (List SeqInfo × List Seq)
  | [], bs, files => .ok (bs, files)
  | it :: rest, bs, files =>
    if !o.hidden ∧ isPrefixOf ['.'] it.name then scanItems o tmpl rest bs files
    else
      match tmpl with
      | some t =>
        -- "glob" <basename>*<ext> against the template — as repaired by the D10 `fix:`
        -- commit: the middle must exist and be a frame number
        if isPrefixOf t.base it.name ∧ isSuffixOf t.ext it.name ∧
           t.base.length + t.ext.length ≤ it.name.length then
          let mid := (it.name.drop t.base.length).take (it.name.length - t.base.length - t.ext.length)
          if (frameAt mid).map (·.2) = some [] ∧ (atoi mid).isSome then
            scanItems o tmpl rest (addFrame o.style t.dir t.base t.ext mid bs) files
          else scanItems o tmpl rest bs files
        else scanItems o tmpl rest bs files
      | none =>
        let m := optFrame it.name
        let (base, frame, ext) := m.getD ([], [], [])
        let ok := m.isSome ∧ !frame.isEmpty ∧ !(base.isEmpty ∧ ext.isEmpty)
        if ok then scanItems o tmpl rest (addFrame o.style it.dir base ext frame bs) files
        else if o.single then
          -- (as repaired: built from the components; a name the pattern cannot read at all
          --  is kept whole as the basename)
          let (base, ext) := if m.isSome then (base, ext) else (it.name, [])
          let fs := rebuild o.style it.dir base frame [] ext
          scanItems o tmpl rest bs (files ++ [fs])
        else scanItems o tmpl rest bs files

/-- `findSequencesInList` -/
def findInItems (items : List FileItem) (o : ListOpts) (tmpl : Option Seq) : Except Err (List Seq) := do
  let (bs, files) ← scanItems o tmpl items [] []
  pure ((bs.map (bucketSeqs o.style)).flatten ++ (if o.single then files else []))

/-- `FindSequencesInList` — as repaired by the D8 `fix:` commit (a bare file name keeps an
    empty directory) -/
def findSequencesInList (paths : List Bytes) (o : ListOpts) : Except Err (List Seq) :=
  findInItems (paths.map fun p => let (d, f) := pathSplit (pathClean p); ⟨d, f⟩) o none

end Gfs
