/-
  GfsModel.Compress — model of FramesToFrameRange (fileseq.go:130-212).
  The single pass of the Go code is split into `groups` (what each loop iteration consumes
  and emits) and `renderGroups`.
-/
import GfsModel.Basic

namespace Gfs

/-- insertion sort: the model of `sort.Ints` (result is the sorted permutation) -/
def insertInt (x : Int) : List Int → List Int
  | [] => [x]
  | y :: ys => if x ≤ y then x :: y :: ys else y :: insertInt x ys

def sortInts (l : List Int) : List Int := l.foldr insertInt []

inductive Group where
  | single (f : Int)
  | run (first last step : Int)
  deriving Repr, DecidableEq

/-- how many of `rest` continue the stride `step` after `prev` (the inner `for i` scan) -/
def scanRun (step : Int) : Int → List Int → Nat
  | _, [] => 0
  | p, x :: xs => if x - p = step then scanRun step x xs + 1 else 0

/-- The main loop; `fuel` ≥ length suffices. -/
def groupsAux : Nat → List Int → List Group
  | 0, _ => []
  | _, [] => []
  | _, [a] => [.single a]
  | _, [a, b] => [.single a, .single b]
  | fuel + 1, f0 :: f1 :: f2 :: rest =>
    let step := f1 - f0
    let i := scanRun step f0 (f1 :: f2 :: rest)      -- ≥ 1
    let better : Bool :=
      i == 1 && (match rest with
        | f3 :: _ => (f2 - f1) == (f3 - f2)
        | [] => false)
    if better then .single f0 :: groupsAux fuel (f1 :: f2 :: rest)
    else
      let fi := (f0 :: f1 :: f2 :: rest).getD i f0
      .run f0 fi step :: groupsAux fuel ((f0 :: f1 :: f2 :: rest).drop (i + 1))

def groups (l : List Int) : List Group := groupsAux l.length l

/-- as repaired by the D4 `fix:` commit: the stride is written whenever |step| > 1 -/
def renderGroup (z : Int) : Group → Bytes
  | .single f => zfillInt f z
  | .run a b step =>
    let s := zfillInt a z ++ '-' :: zfillInt b z
    if step > 1 then s ++ 'x' :: itoa step
    else if step < -1 then s ++ 'x' :: itoa (-step)
    else s

/-- `FramesToFrameRange(frames, sorted, zfill)` -/
def framesToFrameRange (frames : List Int) (sorted : Bool) (z : Int) : Bytes :=
  match frames with
  | [] => []
  | [a] => zfillInt a z
  | _ =>
    let fr := if sorted then sortInts frames else frames
    joinWith ',' ((groups fr).map (renderGroup z))

end Gfs
