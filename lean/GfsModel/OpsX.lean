/-
  GfsModel.OpsX — the operations of the C19 check (Go library vs C++ port).

  For these operations the driver's M column is the model of the C++ PORT (GfsModel.Cpp where
  the port differs structurally, the shared definitions elsewhere) and the S column is the model
  of the GO library restricted to the fields and inputs inside the property's domain.  The check
  compares   C++ real = M,   Go real = S (on S's fields),   and, as the property itself,
  C++ real = Go real on S's fields.

  M = [("skip","1")] means: outside the property's domain and not modelled for the port.
-/
import GfsModel.OpsDisk
import GfsModel.Cpp

namespace Gfs.Ops
open Gfs Gfs.Proto

/-- a numeral as the number it denotes: no redundant zeros, no negative zero -/
def xNum (a : Bytes) : Bytes :=
  let r := stripZerosNum a
  if r = ['-', '0'] then ['0'] else r

/-- every numeral of a range text (frames and steps) as the number it denotes -/
def xStrip (s : Bytes) : Bytes :=
  joinWith ',' ((splitOn ',' s).map fun part =>
    match matchPart part with
    | some (.single a) => xNum a
    | some (.range a b) => xNum a ++ '-' :: xNum b
    | some (.complex a b m n) => xNum a ++ '-' :: xNum b ++ m :: xNum n
    | none => part)

def skipObs : Obs := [("skip", "1")]
def excObs : Obs := [("exc", "stol")]

def xFrames (fs : FrameSet) : String := if fs.len ≤ 20000 then summarize fs.frames else "big"

def xQueries (fs : FrameSet) (qi qv : List Int) : Obs :=
  [ ("val", ",".intercalate (qi.map fun i => showExcept toString (fs.frame i))),
    ("idx", showInts (qv.map fs.index)),
    ("has", ",".intercalate (qv.map fun v => showBool (fs.hasFrame v))) ]

/-- the observation of a frame set; `padded` and `invPadded` are the two padded range texts -/
def xFsObs (fs : FrameSet) (qi qv : List Int) (padded invPadded : Bytes) : Obs :=
  let n := fs.normalize
  let i := fs.invert
  [ ("valid", "1"), ("len", toString fs.len), ("start", toString fs.start), ("fin", toString fs.fin),
    ("iter", xFrames fs) ] ++ xQueries fs qi qv ++
  [ ("nstr", hex n.frange), ("nframes", xFrames n),
    ("istr", hex (if i.len = 0 then [] else i.frange)), ("iframes", xFrames i),
    ("nhas", ",".intercalate (qv.map fun v => showBool (n.hasFrame v))),
    ("ihas", ",".intercalate (qv.map fun v => showBool (i.hasFrame v))),
    ("frp", hex (xStrip padded)), ("frpw", showBool (numeralsPadded padded 3)),
    ("invp", hex (xStrip invPadded)), ("invpw", showBool (numeralsPadded invPadded 3)) ]

/-- a run of 19 or more digits: the number may not fit a C long / Go int -/
def longDigits (s : Bytes) : Bool :=
  let rec go : Bytes → Nat → Bool
    | [], n => n ≥ 19
    | c :: r, n => if isDigit c then go r (n + 1) else (n ≥ 19 || go r 0)
  go s 0

def xSeqFields (s : Seq) (len : Int) (qf qi : List Int) : Obs :=
  [ ("valid", "1"), ("dir", hex s.dir), ("base", hex s.base), ("rng", hex s.frameRange), ("pad", hex s.pad),
    ("ext", hex s.ext), ("zfill", toString s.zfill), ("hasfs", showBool s.frameSet.isSome),
    ("len", toString len), ("start", toString s.start), ("fin", toString s.fin),
    ("str", hex s.str),
    ("fr", hexList (qf.map s.frameInt)),
    ("ix", hexList (qi.map s.index)) ]

def xSeqsObs (seqs : List Seq) : Obs :=
  [ ("seqs", hexList (sortBytes (seqs.map seqLine))),
    ("cover", if totalLen seqs ≤ 3000 then hexList (sortBytes (expandSeqs seqs)) else "big") ]

/-- the directories of the property: no two names differing only in the length of a digit run
    (uniform padding), no negative-zero token, and every numbered result has at least 2 frames -/
def xDirDomain (names : List Bytes) (all : List Seq) : Bool :=
  !mixedShapes names && !(names.any negZeroToken) &&
  all.all fun s => match s.frameSet with | some fs => decide (fs.len ≥ 2) | none => true

def xDir : Bytes := "/T/d".toList

/-- the scanned directory: T/d unless the op names it -/
def xDirOf (rest : List String) : Bytes :=
  match rest with
  | [h] => let n := unhex h; if n.isEmpty then xDir else "/T/".toList ++ n
  | _ => xDir

def dispatchX : List String → Option (Obs × Option Obs)
  | ["x.fs", txt, _ast, qi, qv] =>
    let txt := unhex txt
    let (qi, qv) := (ints qi, ints qv)
    -- the port
    let m : Obs :=
      match Cpp.isFrameRange txt with
      | .exc | .invalid => excObs
      | .ok isfr =>
        match Cpp.parse txt with
        | .exc => excObs
        | .invalid => [("isfr", showBool isfr), ("valid", "0")]
        | .ok fs =>
          ("isfr", showBool isfr) ::
            xFsObs fs qi qv (Cpp.frameRangePadded fs 3) (Cpp.invertedRange fs 3)
    -- the Go library, inside the domain: the text parses and denotes at least one frame
    let sp : Option Obs :=
      match FrameSet.parse txt with
      | .error _ => none
      | .ok fs =>
        if fs.len ≥ 1 then
          some (("isfr", showBool (isFrameRange txt)) ::
            xFsObs fs qi qv (padFrameRange fs.frange 3) (Seq.invertedRange fs 3))
        else none
    some (m, sp)
  | ["x.big", txt, qi, qv] =>
    let txt := unhex txt
    let (qi, qv) := (ints qi, ints qv)
    let obs (fs : FrameSet) : Obs :=
      [ ("valid", "1"), ("len", toString fs.len), ("start", toString fs.start), ("fin", toString fs.fin) ] ++
        xQueries fs qi qv
    let m : Obs := match Cpp.parse txt with
      | .exc => excObs
      | .invalid => [("valid", "0")]
      | .ok fs => obs fs
    let sp : Option Obs := match FrameSet.parse txt with
      | .ok fs => if fs.len ≥ 1 then some (obs fs) else none
      | .error _ => none
    some (m, sp)
  | ["x.f2r", fr, sorted, z] =>
    let fr := ints fr
    let o : Obs := [("str", hex (framesToFrameRange fr (sorted = "1") (int! z)))]
    some (o, some o)
  | ["x.padrange", txt, w] =>
    let txt := unhex txt
    let w := int! w
    let outC := Cpp.padFrameRange txt w
    let outG := padFrameRange txt w
    let fits := (Cpp.splitGetline ',' txt).all fun p =>
      match matchPart p with | some mt => Cpp.matchFits mt | none => true
    let m : Obs := if !fits && w ≥ 2 then excObs else
      [("strip", hex (xStrip outC)), ("wok", showBool (numeralsPadded outC w))]
    let sp : Option Obs :=
      match FrameSet.parse txt with
      | .ok _ => some [("strip", hex (xStrip outG)), ("wok", showBool (numeralsPadded outG w))]
      | .error _ => none
    some (m, sp)
  | ["x.pad", st, n] =>
    let o : Obs := [("chars", hex (padChars (styleOf st) (int! n)))]
    some (o, if int! n ≥ 1 then some o else none)
  | ["x.padsize", st, tok] =>
    let tok := unhex tok
    match Spec.classifyPad tok with
    | some _ =>
      let o : Obs := [("size", toString (padSize (styleOf st) tok))]
      some (o, some o)
    | none => some (skipObs, none)
  | "x.seq" :: st :: txt :: qf :: qi :: _ =>
    let st := styleOf st
    let txt := unhex txt
    let (qf, qi) := (ints qf, ints qi)
    match Seq.parse st txt with
    | .error _ => some (skipObs, none)
    | .ok s =>
      let named := !(s.base.isEmpty && s.ext.isEmpty) || s.frameSet.isSome
      let framed := match s.frameSet with | some fs => decide (fs.len ≥ 1) | none => true
      -- a range-like text in front of the pad token that is not a frame range (e.g. "1-5,") is
      -- outside the shared grammar: Go keeps the sequence without a frame set
      let rangeOk := match splitSeq txt with
        | some (_, rng, _, _) => rng.isEmpty || s.frameSet.isSome
        | none => true
      if named && framed && rangeOk && !longDigits txt then
        some (xSeqFields s (Cpp.seqLen s) qf qi, some (xSeqFields s s.len qf qi))
      else some (skipObs, none)
  | "x.scan" :: mask :: st :: ents :: rest =>
    let xDir := xDirOf rest
    let entries := parseEntries ents
    let names := entries.map (·.name)
    let d : DirSpec := some entries
    let o := optsOf (int! mask) (styleOf st)
    let all := match findSequencesOnDisk d xDir { o with single := true, hidden := true } with
      | .ok l => l | .error _ => []
    if !xDirDomain names all then some (skipObs, none) else
    -- the port: its own two-pass scan (Cpp.scan); the Go library: findSequencesOnDisk
    let obOf : Except Err (List Seq) → Obs
      | .error _ => [("err", "err")]
      | .ok seqs => ("err", "ok") :: xSeqsObs seqs
    some (obOf (Cpp.scan d xDir o), some (obOf (findSequencesOnDisk d xDir o)))
  | "x.find" :: st :: pat :: ents :: rest =>
    let xDir := xDirOf rest
    -- style "1c" / "4c": the pattern has no directory part and is looked up in the working directory
    let cwdMode := st.length > 1
    let st : PadStyle := if st.startsWith "1" then .hash1 else .hash4
    let pat := if cwdMode then unhex pat else xDir ++ '/' :: unhex pat
    let entries := parseEntries ents
    let names := entries.map (·.name)
    let d : DirSpec := some entries
    let all := match findSequencesOnDisk d xDir { single := true, hidden := true, style := st } with
      | .ok l => l | .error _ => []
    if !xDirDomain names all then some (skipObs, none) else
    -- the port: its own lookup (Cpp.find); the Go library: findSequenceOnDisk
    let obOf : Except Err (Option Seq) → Obs
      | .error _ => [("err", "err")]
      | .ok none => [("err", "ok"), ("found", "0")]
      | .ok (some s) => [("err", "ok"), ("found", "1")] ++ xSeqsObs [s]
    some (obOf (Cpp.find (fun _ => d) pat st), some (obOf (findSequenceOnDisk (fun _ => d) pat st false false)))
  | _ => none

/-- the sequences the C++ driver constructs during static initialisation -/
def globalTexts : List String :=
  ["/proj/shot/beauty.1-10#.exr", "/proj/shot/beauty.0101.exr", "rel/v2_take.5-9@@.tif"]

/-- `x.global k qf qi` is `x.seq` of the k-th text (default style); everything else as before -/
def dispatchXG : List String → Option (Obs × Option Obs)
  | ["x.global", k, qf, qi] =>
    match globalTexts[k.toNat!]? with
    | some t => dispatchX ["x.seq", "4", hex t.toList, qf, qi]
    | none => some ([("valid", "0")], none)
  | f => dispatchX f

end Gfs.Ops
