/-
  GfsModel.Seqinfo — model of cmd/seqinfo: the per-pattern option pipeline (`parse`) and the
  collection of the concurrently produced results into a map keyed by the pattern.
-/
import GfsModel.Sequence

namespace Gfs.Seqinfo
open Gfs

structure Opts where
  dirname : Bytes
  basename : Bytes
  range : Bytes
  padding : Bytes
  ext : Bytes
  format : Bytes
  index : Option Int
  frame : Option Int
  inverted : Bool
  hash1 : Bool
  deriving Repr

structure Result where
  orig : Bytes
  error : Bool
  str : Bytes
  dir : Bytes
  base : Bytes
  range : Bytes
  pad : Bytes
  ext : Bytes
  start : Int
  stop : Int
  len : Int
  zfill : Int
  hasRange : Bool
  deriving Repr, DecidableEq

def errResult (pat : Bytes) : Result :=
  { orig := pat, error := true, str := pat, dir := [], base := [], range := [], pad := [], ext := [],
    start := 0, stop := 0, len := 0, zfill := 0, hasRange := false }

/-- the niladic template functions of `Format` -/
def templateFn (s : Seq) (name : Bytes) : Option Bytes :=
  if name = "dir".toList then some s.dir
  else if name = "base".toList then some s.base
  else if name = "ext".toList then some s.ext
  else if name = "startf".toList then some (itoa s.start)
  else if name = "endf".toList then some (itoa s.fin)
  else if name = "len".toList then some (itoa s.len)
  else if name = "pad".toList then some s.pad
  else if name = "zfill".toList then some (itoa s.zfill)
  else if name = "frange".toList then some s.frameRange
  else if name = "inverted".toList then some s.invertedFrameRange
  else none

/-- `Format(tpl)` for templates made of literal text and `{{fn}}` actions (anything else is
    outside the model: `none`) -/
def formatAux (s : Seq) : Nat → Bytes → Option Bytes
  | 0, _ => none
  | _, [] => some []
  | fuel + 1, '{' :: '{' :: rest =>
    let name := rest.takeWhile (· ≠ '}')
    match rest.dropWhile (· ≠ '}') with
    | '}' :: '}' :: rest' =>
      match templateFn s name, formatAux s fuel rest' with
      | some v, some r => some (v ++ r)
      | _, _ => none
    | _ => none
  | fuel + 1, c :: rest =>
    if c = '}' then none else (formatAux s fuel rest).map (c :: ·)

def format (s : Seq) (tpl : Bytes) : Option Bytes := formatAux s (tpl.length + 1) tpl

/-- seqinfo's `parse(pattern, opts)`; `none` = the pattern uses a template outside the model -/
def parse (pat : Bytes) (o : Opts) : Option Result :=
  let st : PadStyle := if o.hash1 then .hash1 else .hash4
  match Seq.parse st pat with
  | .error _ => some (errResult pat)
  | .ok fs0 =>
    -- reformat first
    let fs1? : Option (Except Unit Seq) :=
      if o.format.isEmpty then some (.ok fs0)
      else match format fs0 o.format with
        | none => none
        | some refmt => match Seq.parse st refmt with
          | .ok f => some (.ok f)
          | .error _ => some (.error ())
    match fs1? with
    | none => none
    | some (.error _) => some (errResult pat)
    | some (.ok fs1) =>
      -- then component overrides
      let fs := if o.dirname.isEmpty then fs1 else fs1.setDirname o.dirname
      let fs := if o.basename.isEmpty then fs else fs.setBasename o.basename
      let fs := if o.ext.isEmpty then fs else fs.setExt o.ext
      let fs := if o.padding.isEmpty then fs else fs.setPadding o.padding
      let r? : Option Seq :=
        if o.range.isEmpty then some fs
        else match fs.setFrameRange o.range with
          | (f, true) => some f
          | (_, false) => none
      match r? with
      | none => some (errResult pat)
      | some fs =>
        -- then inversion
        let fs := if o.inverted then
            (let fr := fs.invertedFrameRange
             if fr.isEmpty then fs.setFrameSet none else (fs.setFrameRange fr).1)
          else fs
        -- then index, then frame selection: re-parse the single path — as repaired by the
        -- D16 `fix:` commit a failing re-parse is reported as this pattern's error
        let reparse (path : Bytes) : Option Seq :=
          match Seq.parse st path with
          | .ok f => some (f.setFrameRange (itoa f.start)).1
          | .error _ => none
        let afterIndex : Option Seq :=
          match o.index with
          | none => some fs
          | some i =>
            let p := fs.index i
            if p.isEmpty then none else reparse p
        match afterIndex with
        | none => some (errResult pat)
        | some fs =>
          let fs? : Option Seq := match o.frame with
            | none => some fs
            | some f => reparse (fs.frameInt f)
          match fs? with
          | none => some (errResult pat)
          | some fs =>
            some ({ orig := pat, error := false, str := fs.str, dir := fs.dir, base := fs.base, range := fs.frameRange, pad := fs.pad, ext := fs.ext, start := fs.start, stop := fs.fin, len := fs.len, zfill := fs.zfill, hasRange := fs.frameSet.isSome } : Result)

/-- the results map: keyed by the original pattern, a later result for the same key replaces
    an earlier one -/
def insertResult (m : List Result) (r : Result) : List Result :=
  if m.any (·.orig = r.orig) then m.map (fun x => if x.orig = r.orig then r else x) else m ++ [r]

def collect (rs : List Result) : List Result := rs.foldl insertResult []

end Gfs.Seqinfo
