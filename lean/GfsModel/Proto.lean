/-
  GfsModel.Proto — line-protocol helpers shared by the driver: hex strings, integers,
  lists, canonical rendering of observations.
-/
import GfsModel.Basic

namespace Gfs.Proto

def hexVal (c : Char) : Nat :=
  if '0' ≤ c ∧ c ≤ '9' then c.toNat - '0'.toNat
  else if 'a' ≤ c ∧ c ≤ 'f' then c.toNat - 'a'.toNat + 10
  else 0

def hexDigit (n : Nat) : Char :=
  if n < 10 then Char.ofNat (n + '0'.toNat) else Char.ofNat (n - 10 + 'a'.toNat)

/-- "-" is the empty string; otherwise pairs of hex digits. -/
def unhex (s : String) : Bytes :=
  if s = "-" then [] else
  let rec go : List Char → Bytes
    | a :: b :: r => Char.ofNat (hexVal a * 16 + hexVal b) :: go r
    | _ => []
  go s.toList

def hex (b : Bytes) : String :=
  if b.isEmpty then "-" else
  String.ofList (b.flatMap fun c => [hexDigit (c.toNat / 16 % 16), hexDigit (c.toNat % 16)])

def int? (s : String) : Option Int := s.toInt?

def int! (s : String) : Int := (s.toInt?).getD 0

/-- comma separated ints; "-" = empty list -/
def ints (s : String) : List Int :=
  if s = "-" then [] else (s.splitOn ",").map int!

def showInts (l : List Int) : String :=
  if l.isEmpty then "-" else ",".intercalate (l.map toString)

def showBool (b : Bool) : String := if b then "1" else "0"

/-- Observation = ordered list of key=value fields. -/
abbrev Obs := List (String × String)

def showObs (o : Obs) : String :=
  if o.isEmpty then "-" else ";".intercalate (o.map fun (k, v) => k ++ "=" ++ v)

def showExcept (f : α → String) : Except Err α → String
  | .ok a => f a
  | .error e => e.toString

/-- Large lists are summarised: length, first, last and a polynomial hash. -/
def summarize (l : List Int) : String :=
  if l.length ≤ 64 then showInts l
  else
    let h := l.foldl (fun (acc : Nat) v => (acc * 1000003 + (v % 1000000007).toNat) % 1000000007) 7
    s!"#{l.length}:{l.headD 0}:{l.getLastD 0}:{h}"

end Gfs.Proto
