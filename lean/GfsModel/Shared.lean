/-
  GfsModel.Shared — the argument why independent library calls are safe to run concurrently
  (C16): threads that only READ the shared (package-level) state observe, under every
  interleaving, exactly what they observe when run alone.
-/
namespace Gfs.Shared

abbrev Var := Nat
abbrev Val := Nat

/-- one atomic action of a library call on shared state (thread-local computation is not
    modelled: it cannot be observed by other threads) -/
inductive Action where
  | read (v : Var)
  | write (v : Var) (x : Val)
  deriving Repr, DecidableEq

def Action.isWrite : Action → Bool
  | .write _ _ => true
  | .read _ => false

abbrev Mem := Var → Val

/-- a thread: its remaining actions and the values it has read so far (its "results") -/
structure Thread where
  todo : List Action
  seen : List Val

structure Sys where
  mem : Mem
  threads : List Thread

/-- thread i performs its next action -/
def stepThread (m : Mem) (t : Thread) : Mem × Thread :=
  match t.todo with
  | [] => (m, t)
  | .read v :: rest => (m, ⟨rest, t.seen ++ [m v]⟩)
  | .write v x :: rest => (fun u => if u = v then x else m u, ⟨rest, t.seen⟩)

def step (s : Sys) (i : Nat) : Sys :=
  match s.threads[i]? with
  | none => s
  | some t =>
    let (m', t') := stepThread s.mem t
    ⟨m', s.threads.set i t'⟩

/-- run a schedule (a list of thread indices) -/
def run (s : Sys) (sched : List Nat) : Sys := sched.foldl step s

/-- what a thread reads when it runs alone on memory m -/
def alone (m : Mem) (t : Thread) : List Val :=
  t.seen ++ (t.todo.filterMap fun a => match a with | .read v => some (m v) | .write _ _ => none)

end Gfs.Shared
