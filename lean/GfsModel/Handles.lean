/-
  GfsModel.Handles — model of the cgo handle table (exp/cpp/export/storage.go): the two
  maps are textually identical, one model serves both.

  Part 1: the sequential semantics of Add / Incref / Decref / Get / Len (each call atomic),
          used by the correspondence run on single-threaded histories (incl. stale handles).
  Part 2: the small-step concurrent system: one action per Go statement that touches shared
          state (lock operations, map lookup / insert / delete, atomic add / load), any
          number of threads, with a ghost ledger of owned references.
-/
namespace Gfs.Handles

abbrev Id := Nat

/- Part 1 ------------------------------------------------------------------ -/

/-- the map: id ↦ reference count (UInt32 wrap-around is not reachable while every decref
    is backed by an owned reference; the sequential model keeps it faithful anyway) -/
abbrev Table := List (Id × Nat)

def lookup (t : Table) (id : Id) : Option Nat := (t.find? (·.1 = id)).map (·.2)
def erase (t : Table) (id : Id) : Table := t.filter (·.1 ≠ id)
def setRefs (t : Table) (id : Id) (n : Nat) : Table := t.map fun e => if e.1 = id then (id, n) else e

inductive Op where
  | add (id : Id)          -- the id the generator hands out
  | incref (id : Id)
  | decref (id : Id)
  | get (id : Id)
  | len
  deriving Repr

/-- result of an op: Get → found?, Len → count -/
inductive Res where
  | unit | found (b : Bool) | count (n : Nat)
  deriving Repr, DecidableEq

def wrap32 (n : Int) : Nat := (n % 4294967296).toNat

def seqStep (t : Table) : Op → Table × Res
  | .add id => ((erase t id) ++ [(id, 1)], .unit)
  | .incref id =>
    match lookup t id with
    | none => (t, .unit)
    | some n => (setRefs t id (wrap32 (n + 1)), .unit)
  | .decref id =>
    match lookup t id with
    | none => (t, .unit)
    | some n =>
      let n' := wrap32 ((n : Int) - 1)
      if n' = 0 then (erase t id, .unit) else (setRefs t id n', .unit)
  | .get id => (t, .found (lookup t id).isSome)
  | .len => (t, .count t.length)

def seqRun (t : Table) : List Op → Table × List Res
  | [] => (t, [])
  | op :: ops =>
    let (t1, r) := seqStep t op
    let (t2, rs) := seqRun t1 ops
    (t2, r :: rs)

/- Part 2 ------------------------------------------------------------------ -/

/-- where a thread is inside a call -/
inductive Pc where
  | idle
  -- Add
  | addLock (id : Id) | addInsert (id : Id) | addUnlock (id : Id)
  -- Incref
  | incRLock (id : Id) | incLookup (id : Id) | incRUnlock (id : Id) (found : Bool) | incAdd (id : Id)
  -- Decref
  | decRLock (id : Id) | decLookup (id : Id) | decRUnlock (id : Id) (found : Bool) | decAdd (id : Id)
  | decLock (id : Id) | decCheck (id : Id) | decUnlock (id : Id)
  -- Get / Len (read lock, read, unlock)
  | rdRLock | rdRead | rdRUnlock
  deriving Repr, DecidableEq

/-- A reference cell lives on the heap: it survives its removal from the map while a thread
    still holds the pointer. `cells id` is the count of the (unique) cell ever created for id. -/
structure State where
  present : Id → Bool          -- id is a key of the map
  cells : Id → Nat             -- refs of the cell created for id
  created : Id → Bool          -- a cell for id exists
  readers : Nat                -- RWMutex
  writer : Bool
  pc : Nat → Pc                -- thread ↦ program counter
  owned : Nat → Id → Nat       -- ghost: references thread t owns on id

def upd {α : Type} (f : Nat → α) (k : Nat) (v : α) : Nat → α := fun x => if x = k then v else f x

def init : State :=
  { present := fun _ => false, cells := fun _ => 0, created := fun _ => false,
    readers := 0, writer := false, pc := fun _ => .idle, owned := fun _ _ => 0 }

/-- One atomic step of thread `t`. Starting a call is an environment choice:
    `Add id` needs a fresh id (the generator never repeats and never yields one in use),
    `Incref id` / `Decref id` need an owned reference. -/
inductive Step (N : Nat) : State → State → Prop where
  -- environment: start calls
  | startAdd (s t id) : t < N → s.pc t = .idle → s.created id = false → (∀ u, s.pc u ≠ .addLock id ∧ s.pc u ≠ .addInsert id) →
      Step N s { s with pc := upd s.pc t (.addLock id) }
  | startInc (s t id) : t < N → s.pc t = .idle → 1 ≤ s.owned t id →
      Step N s { s with pc := upd s.pc t (.incRLock id) }
  | startDec (s t id) : t < N → s.pc t = .idle → 1 ≤ s.owned t id →
      Step N s { s with pc := upd s.pc t (.decRLock id) }
  | startRead (s t) : t < N → s.pc t = .idle → Step N s { s with pc := upd s.pc t .rdRLock }
  -- environment: hand a reference to another thread (both idle on that id is not required)
  | give (s t u id) : t < N → u < N → 1 ≤ s.owned t id → s.pc t = .idle →
      Step N s { s with owned := (fun x i =>
        if i = id then (if x = t then s.owned t id - 1 + (if x = u then 1 else 0)
                        else if x = u then s.owned u id + 1 else s.owned x i)
        else s.owned x i) }
  -- Add
  | addLock (s t id) : t < N → s.pc t = .addLock id → s.writer = false → s.readers = 0 →
      Step N s { s with writer := true, pc := upd s.pc t (.addInsert id) }
  | addInsert (s t id) : t < N → s.pc t = .addInsert id →
      Step N s { s with present := upd s.present id true, cells := upd s.cells id 1, created := upd s.created id true, owned := (fun x i => if x = t ∧ i = id then s.owned t id + 1 else s.owned x i), pc := upd s.pc t (.addUnlock id) }
  | addUnlock (s t id) : t < N → s.pc t = .addUnlock id →
      Step N s { s with writer := false, pc := upd s.pc t .idle }
  -- Incref
  | incRLock (s t id) : t < N → s.pc t = .incRLock id → s.writer = false →
      Step N s { s with readers := s.readers + 1, pc := upd s.pc t (.incLookup id) }
  | incLookup (s t id) : t < N → s.pc t = .incLookup id →
      Step N s { s with pc := upd s.pc t (.incRUnlock id (s.present id)) }
  | incRUnlock (s t id f) : t < N → s.pc t = .incRUnlock id f →
      Step N s { s with readers := s.readers - 1, pc := upd s.pc t (if f then .incAdd id else .idle) }
  | incAdd (s t id) : t < N → s.pc t = .incAdd id →
      Step N s { s with cells := upd s.cells id (s.cells id + 1), owned := (fun x i => if x = t ∧ i = id then s.owned t id + 1 else s.owned x i), pc := upd s.pc t .idle }
  -- Decref
  | decRLock (s t id) : t < N → s.pc t = .decRLock id → s.writer = false →
      Step N s { s with readers := s.readers + 1, pc := upd s.pc t (.decLookup id) }
  | decLookup (s t id) : t < N → s.pc t = .decLookup id →
      Step N s { s with pc := upd s.pc t (.decRUnlock id (s.present id)) }
  | decRUnlock (s t id f) : t < N → s.pc t = .decRUnlock id f →
      Step N s { s with readers := s.readers - 1, pc := upd s.pc t (if f then .decAdd id else .idle) }
  | decAdd (s t id) : t < N → s.pc t = .decAdd id →
      Step N s { s with cells := upd s.cells id (s.cells id - 1), owned := (fun x i => if x = t ∧ i = id then s.owned t id - 1 else s.owned x i), pc := upd s.pc t (if s.cells id - 1 = 0 then .decLock id else .idle) }
  | decLock (s t id) : t < N → s.pc t = .decLock id → s.writer = false → s.readers = 0 →
      Step N s { s with writer := true, pc := upd s.pc t (.decCheck id) }
  | decCheck (s t id) : t < N → s.pc t = .decCheck id →
      Step N s { s with present := if s.cells id = 0 then upd s.present id false else s.present, pc := upd s.pc t (.decUnlock id) }
  | decUnlock (s t id) : t < N → s.pc t = .decUnlock id →
      Step N s { s with writer := false, pc := upd s.pc t .idle }
  -- Get / Len
  | rdRLock (s t) : t < N → s.pc t = .rdRLock → s.writer = false →
      Step N s { s with readers := s.readers + 1, pc := upd s.pc t .rdRead }
  | rdRead (s t) : t < N → s.pc t = .rdRead → Step N s { s with pc := upd s.pc t .rdRUnlock }
  | rdRUnlock (s t) : t < N → s.pc t = .rdRUnlock →
      Step N s { s with readers := s.readers - 1, pc := upd s.pc t .idle }

/-- reachable states -/
inductive Reach (N : Nat) : State → Prop where
  | init : Reach N init
  | step {s s'} : Reach N s → Step N s s' → Reach N s'

/-- total number of references owned on `id` by the N threads -/
def sumOwned (s : State) (N : Nat) (id : Id) : Nat := (List.range N).foldl (fun a t => a + s.owned t id) 0

end Gfs.Handles
