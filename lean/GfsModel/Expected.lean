/-
  GfsModel.Expected — the structural facts the model was written from.  `GfsGen/Facts.lean`
  is regenerated from /repo's sources on every check by tools/gofacts; property theorems
  state `Gfs.Gen.<facts> = Gfs.expected<Facts>` (by `decide`), so a change of the code's loop
  structure, shared writes, regular expressions, pad tables or synchronisation skeletons
  breaks a proof obligation.
-/
namespace Gfs

/-- C14: closed-form accessors have no loop; container accessors loop over the blocks only;
    AppendUnique returns early on an empty block list before its candidate loop -/
def expectedLoopFacts : List (String × List String) := [
  ("ranges.InclusiveRange.Contains", []),
  ("ranges.InclusiveRange.End", []),
  ("ranges.InclusiveRange.Index", []),
  ("ranges.InclusiveRange.Len", []),
  ("ranges.InclusiveRange.Max", []),
  ("ranges.InclusiveRange.Min", []),
  ("ranges.InclusiveRange.Start", []),
  ("ranges.InclusiveRange.Step", []),
  ("ranges.InclusiveRange.String", []),
  ("ranges.InclusiveRange.Value", []),
  ("ranges.InclusiveRange.closestInRange", []),
  ("ranges.InclusiveRanges.Append", []),
  ("ranges.InclusiveRanges.AppendUnique", ["if-empty-return", "for:!wrapped && pred()"]),
  ("ranges.InclusiveRanges.Contains", ["range:l.blocks"]),
  ("ranges.InclusiveRanges.End", []),
  ("ranges.InclusiveRanges.Index", ["range:l.blocks"]),
  ("ranges.InclusiveRanges.Len", ["range:l.blocks"]),
  ("ranges.InclusiveRanges.Max", ["range:l.blocks"]),
  ("ranges.InclusiveRanges.Min", ["range:l.blocks"]),
  ("ranges.InclusiveRanges.Start", ["range:l.blocks"]),
  ("ranges.InclusiveRanges.String", ["range:l.blocks"]),
  ("ranges.InclusiveRanges.Value", ["range:l.blocks"]),
  ("fileseq.FileSequence.End", []),
  ("fileseq.FileSequence.Frame", []),
  ("fileseq.FileSequence.Index", []),
  ("fileseq.FileSequence.Len", []),
  ("fileseq.FileSequence.Start", []),
  ("fileseq.FileSequence.String", []),
  ("fileseq.FileSequence.frameInt", []),
  ("fileseq.FrameSet.End", []),
  ("fileseq.FrameSet.Frame", []),
  ("fileseq.FrameSet.FrameRange", []),
  ("fileseq.FrameSet.HasFrame", []),
  ("fileseq.FrameSet.Index", []),
  ("fileseq.FrameSet.Len", []),
  ("fileseq.FrameSet.Start", []),
  ("fileseq.FrameSet.String", []),
  ("fileseq.zfillInt", []),
  ("fileseq.zfillString", [])
]

/-- C16: no function outside `init` writes to package-level state -/
def expectedSharedWrites : List (String × List String) := []

/-- the regular expressions the recognisers of GfsModel.Rx / FrameSet were written from -/
def expectedRegexFacts : List (String × List String) := [
  ("houdiniPattern", ["^\\$F(\\d*)$"]),
  ("optionalFramePattern", ["^(?P<name>.*?)(?P<frame>-?\\d+)?(?P<ext>(?:\\.\\w*[a-zA-Z]\\w?)*(?:\\.[^.]+)?)$"]),
  ("printfPattern", ["^%(\\d*)d$"]),
  ("rangePatterns", ["^(-?\\d+)-(-?\\d+)$", "^(-?\\d+)$", "^(-?\\d+)-(-?\\d+)([:xy])(-?\\d+)$"]),
  ("singleFramePattern", ["^(?P<name>.*?)(?P<frame>-?\\d+)(?P<ext>(?:\\.\\w*[a-zA-Z]\\w?)*(?:\\.[^.]+)?)$"]),
  ("splitPattern", ["^(?P<name>.*?)(?P<range>[\\d-][:xy\\d,-]*)?(?P<pad>[#@]+|%\\d*d|\\$F\\d*|<UDIM>|%\\(UDIM\\)d)(?P<ext>.*)?$"]),
  ("udimPattern", ["^<UDIM>|%\\(UDIM\\)d$"])
]

def expectedPadFacts : List (String × List String) := [
  ("newMultiHashPad", ["charToSize=\"#\": 4,\"@\": 1", "defaultChar=\"@\""]),
  ("newSingleHashPad", ["charToSize=\"#\": 1,\"@\": 1", "defaultChar=\"#\""])
]

/-- C20: the statement skeleton of the two (textually duplicated) handle maps, as modelled by
    GfsModel.Handles: one model action per entry -/
def expectedHandleSkeleton : List (String × List String) := [
  ("Xor64Source.Seed", []),
  ("fileSeqMap.Add", ["call:m.lock.Lock", "call:m.rand.Uint64", "insert:m.m", "call:m.lock.Unlock"]),
  ("fileSeqMap.Decref", ["call:m.lock.RLock", "lookup:m.m", "call:m.lock.RUnlock", "call:atomic.AddUint32", "call:m.lock.Lock", "call:atomic.LoadUint32", "delete:m.m", "call:m.lock.Unlock"]),
  ("fileSeqMap.Get", ["call:m.lock.RLock", "lookup:m.m", "call:m.lock.RUnlock"]),
  ("fileSeqMap.Incref", ["call:m.lock.RLock", "lookup:m.m", "call:m.lock.RUnlock", "call:atomic.AddUint32"]),
  ("fileSeqMap.Len", ["call:m.lock.RLock", "len:m.m", "call:m.lock.RUnlock"]),
  ("frameSetMap.Add", ["call:m.lock.Lock", "call:m.rand.Uint64", "insert:m.m", "call:m.lock.Unlock"]),
  ("frameSetMap.Decref", ["call:m.lock.RLock", "lookup:m.m", "call:m.lock.RUnlock", "call:atomic.AddUint32", "call:m.lock.Lock", "call:atomic.LoadUint32", "delete:m.m", "call:m.lock.Unlock"]),
  ("frameSetMap.Get", ["call:m.lock.RLock", "lookup:m.m", "call:m.lock.RUnlock"]),
  ("frameSetMap.Incref", ["call:m.lock.RLock", "lookup:m.m", "call:m.lock.RUnlock", "call:atomic.AddUint32"]),
  ("frameSetMap.Len", ["call:m.lock.RLock", "len:m.m", "call:m.lock.RUnlock"]),
  ("xor64", [])
]

/-- C17: the channel / goroutine skeleton of seqls' work manager -/
def expectedSeqlsSkeleton : List (String × List String) := [
  ("NewWorkManager", ["makechan:chan string:unbuffered", "makechan:chan *fileseq.FileSequence:unbuffered", "makechan:chan fileseq.FileSequences:unbuffered", "return"]),
  ("main", []),
  ("workManager.Process", ["return", "for:i < numWorkers", "call:wg.Add", "go:func() { numErrs := w.processSources() atomic.AddUint64(&errCount, numErrs) wg.Done() }", "call:atomic.AddUint64", "call:wg.Done", "go:func() { var numErrs uint64 if Options.Recurse { numErrs = w.loadRecursive(rootPaths) } else { numErrs = w.load(rootPaths) } atomic.AddUint64(&errCount, numErrs) w.closeInputs() }", "call:atomic.AddUint64", "go:func() { wg.Wait() w.closeOutput() }", "call:wg.Wait", "return", "return"]),
  ("workManager.closeInputs", ["close:w.inDirs", "close:w.inSeqs"]),
  ("workManager.closeOutput", ["close:w.outSeqs"]),
  ("workManager.isInputDone", ["return", "return", "return"]),
  ("workManager.load", ["range:seqs", "send:w.inSeqs", "range:dirs", "send:w.inDirs", "return"]),
  ("workManager.loadRecursive", ["return", "call:mu.RLock", "call:mu.RUnlock", "call:mu.Lock", "call:mu.Unlock", "return", "return", "send:w.inDirs", "return", "range:seqs", "send:w.inSeqs", "range:dirs", "call:atomic.AddUint64", "return"]),
  ("workManager.processResults", ["range:w.outSeqs", "range:seqs"]),
  ("workManager.processSources", ["return", "for:!isDone()", "select", "recv:inDirs", "nil:inDirs", "continue", "continue", "send:outSeqs", "recv:inSeqs", "nil:inSeqs", "continue", "continue", "continue", "send:outSeqs", "return"])
]

/-- C18: one goroutine per pattern, a channel, n receives -/
def expectedSeqinfoSkeleton : List (String × List String) := [
  ("main", ["for:scanner.Scan()", "continue", "makechan:chan *Result:buffer=n", "range:patterns", "go:func(pat string) { out <- parse(pat, &Options) }", "send:out", "for:i < n", "recv:out"]),
  ("parse", ["return", "return", "return", "return", "return", "return", "return", "return"])
]

end Gfs
