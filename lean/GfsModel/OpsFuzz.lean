/-
  GfsModel.OpsFuzz — the `fuzz` operation (C15): every parsing entry point on one
  arbitrary byte string.  The implementation side additionally drives every query,
  formatter, Split, Copy and setter under `recover`; a panic is a failure of the op.
-/
import GfsModel.OpsList

namespace Gfs.Ops
open Gfs Gfs.Proto

def dispatchFuzz : List String → Option (Obs × Option Obs)
  | ["fuzz", h] =>
    let s := unhex h
    let fsok := match FrameSet.parse s with | .ok _ => true | .error _ => false
    let isfr := isFrameRange s
    let seqOk (st : PadStyle) : String :=
      match Seq.parse st s with
      | .ok q => hex q.str
      | .error _ => "err"
    let lst : String :=
      match findSequencesInList [s] { single := true, hidden := true, style := .hash4 } with
      | .ok l => hexList (sortBytes (l.map seqLine))
      | .error _ => "err"
    let m : Obs :=
      [ ("fsok", showBool fsok), ("isfr", showBool isfr), ("agree", showBool (fsok == isfr)),
        ("seq4", seqOk .hash4), ("seq1", seqOk .hash1),
        ("padr", hex (padFrameRange s 4)),
        ("list", lst) ]
    -- the property relates the implementation's own two answers (C15_isFrameRange)
    some (m, some [("agree", "1")])
  | _ => none

end Gfs.Ops
