/-
  GfsModel.Basic — byte strings, decimal digits, strconv.Atoi / Itoa, zero filling.

  Go strings are byte strings.  The model represents a byte as a `Char` with code
  point 0..255 (the driver decodes hex to exactly these), so that literals stay
  readable ('#', '-', …).  Nothing in the model depends on a byte being < 256.
-/
namespace Gfs

abbrev Bytes := List Char

/-- The small error enum every Go `error` is mapped to. -/
inductive Err where
  | parse      -- "Failed to parse frame range … on part …" / sequence parse failure
  | int        -- parseInt failed (strconv.Atoi error: syntax or out of int64)
  | zeroStep   -- chunk == 0
  | index      -- index out of range
  | io         -- file system error
  deriving Repr, DecidableEq, Inhabited

/-- Rendering for the protocol: the implementation's error *text* is not part of any
    property, so every error kind is rendered alike. -/
def Err.toString : Err → String := fun _ => "err"

def isDigit (c : Char) : Bool := decide ('0'.toNat ≤ c.toNat ∧ c.toNat ≤ '9'.toNat)

def digitVal (c : Char) : Nat := c.toNat - '0'.toNat

def digitChar (n : Nat) : Char := Char.ofNat (n % 10 + '0'.toNat)

/-- Value of a list of digit characters, most significant first. -/
def digitsToNat (ds : List Char) : Nat := ds.foldl (fun acc c => acc * 10 + digitVal c) 0

/-- Decimal digits of a natural number, most significant first; `0 ↦ "0"`. -/
def natDigits (n : Nat) : List Char :=
  if n < 10 then [digitChar n] else natDigits (n / 10) ++ [digitChar (n % 10)]
decreasing_by omega

/-- `strconv.Itoa`. -/
def itoa (i : Int) : Bytes :=
  if i < 0 then '-' :: natDigits i.natAbs else natDigits i.natAbs

def minInt64 : Int := -9223372036854775808
def maxInt64 : Int := 9223372036854775807

/-- `strconv.Atoi` on a 64-bit platform: optional `+`/`-`, one or more ASCII digits,
    value within int64; anything else is an error. -/
def atoi (s : Bytes) : Option Int :=
  let (neg, ds) := match s with
    | '-' :: r => (true, r)
    | '+' :: r => (false, r)
    | r => (false, r)
  if ds.isEmpty || !ds.all isDigit then none
  else
    let n : Int := digitsToNat ds
    let v := if neg then -n else n
    if minInt64 ≤ v ∧ v ≤ maxInt64 then some v else none

/-- fileseq.go `parseInt`. -/
def parseInt (s : Bytes) : Except Err Int :=
  match atoi s with
  | some v => .ok v
  | none => .error .int

/-- pad.go `zfillString`: left-pad with '0' to width `z`, after a leading '-'. -/
def zfillString (src : Bytes) (z : Int) : Bytes :=
  let size : Int := src.length
  if size ≥ z then src
  else
    let fill := List.replicate (z - size).toNat '0'
    match src with
    | '-' :: r => '-' :: (fill ++ r)
    | _ => fill ++ src

/-- pad.go `zfillInt`: `strconv.Itoa` when z < 2, else `fmt.Sprintf("%0zd")`
    (sign first, zeros up to total width z, digits). -/
def zfillInt (src : Int) (z : Int) : Bytes :=
  if z < 2 then itoa src
  else
    let ds := natDigits src.natAbs
    let w := if src < 0 then ds.length + 1 else ds.length
    let fill := List.replicate (z.toNat - w) '0'
    if src < 0 then '-' :: (fill ++ ds) else fill ++ ds

def strOf (s : String) : Bytes := s.toList

/-- Split on a separator byte, like `strings.Split(s, ",")` (always ≥ 1 part). -/
def splitOn (sep : Char) : Bytes → List Bytes
  | [] => [[]]
  | c :: cs =>
    match splitOn sep cs with
    | [] => [[c]]          -- unreachable
    | p :: ps => if c = sep then [] :: p :: ps else (c :: p) :: ps

def joinWith (sep : Char) : List Bytes → Bytes
  | [] => []
  | [p] => p
  | p :: ps => p ++ sep :: joinWith sep ps

def isPrefixOf (p s : Bytes) : Bool :=
  match p, s with
  | [], _ => true
  | _ :: _, [] => false
  | a :: p', b :: s' => a = b && isPrefixOf p' s'

def isSuffixOf (p s : Bytes) : Bool := isPrefixOf p.reverse s.reverse

/-- `strings.Contains`. -/
def containsSub (sub : Bytes) : Bytes → Bool
  | [] => sub.isEmpty
  | c :: cs => isPrefixOf sub (c :: cs) || containsSub sub cs

end Gfs
