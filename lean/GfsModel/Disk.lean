/-
  GfsModel.Disk — model of the directory-scanning glue: findSequencesOnDisk,
  FindSequencesOnDisk, ListFiles, FindSequenceOnDiskPad (sequence.go).
  The file system is a parameter: a directory is a value.
-/
import GfsModel.ListSeqs

namespace Gfs

inductive EntryKind where
  | file        -- regular file
  | dir         -- sub-directory
  | linkFile    -- symlink to a non-directory
  | linkDir     -- symlink to a directory
  | dangling    -- symlink whose target does not exist
  deriving Repr, DecidableEq

structure Entry where
  name : Bytes
  kind : EntryKind
  deriving Repr

/-- `none` = the directory cannot be opened / read -/
abbrev DirSpec := Option (List Entry)

/-- the directory prefix used for every item: Clean(path) plus a separator -/
def dirPrefix (arg : Bytes) : Bytes :=
  let c := pathClean arg
  if isSuffixOf ['/'] c then c else c ++ ['/']

/-- `findSequencesOnDisk(path, opts)` -/
def scanDir (d : DirSpec) (arg : Bytes) (o : ListOpts) (tmpl : Option Seq) : Except Err (List Seq) :=
  match d with
  | none => .error .io
  | some entries =>
    if entries.any (fun e => e.kind = .dangling) then .error .io
    else
      let keep := entries.filter fun e => e.kind = .file ∨ e.kind = .linkFile
      findInItems (keep.map fun e => ⟨dirPrefix arg, e.name⟩) o tmpl

/-- `FindSequencesOnDisk(path, opts...)` -/
def findSequencesOnDisk (d : DirSpec) (arg : Bytes) (o : ListOpts) : Except Err (List Seq) :=
  scanDir d arg o none

/-- `ListFiles(path)` -/
def listFiles (d : DirSpec) (arg : Bytes) : Except Err (List Seq) :=
  scanDir d arg { single := true, hidden := false, style := .hash4 } none

/-- the directory that is opened for a pattern: a pattern without a directory part names files of
    the working directory (the `fix:` commits 0c87be1 / 0461a13) -/
def openDir (d : Bytes) : Bytes := if d.isEmpty then ['.'] else d

/-- `FindSequenceOnDiskPad(pattern, style, opts...)`: `lookup` maps the pattern's directory
    to its contents. `.ok none` = no match (also for an unparsable pattern). -/
def findSequenceOnDisk (lookup : Bytes → DirSpec) (pattern : Bytes) (st : PadStyle)
    (strict hidden : Bool) : Except Err (Option Seq) :=
  match Seq.parse st pattern with
  | .error _ => .ok none
  | .ok fs =>
    match scanDir (lookup (openDir fs.dir)) (openDir fs.dir) { single := false, hidden := hidden, style := st } (some fs) with
    | .error e => .error e
    | .ok seqs =>
      let cands := seqs.filter fun s => s.base = fs.base ∧ s.ext = fs.ext
      let cands := cands.map fun s => s.setPaddingStyle st
      let cands := cands.filter fun s => !(strict ∧ !fs.pad.isEmpty ∧ s.zfill ≠ fs.zfill)
      .ok cands.head?

end Gfs
