import GfsModel.OpsSeq
import GfsModel.OpsHist
import GfsModel.OpsList
import GfsModel.OpsFuzz
import GfsModel.OpsDisk
import GfsModel.OpsHuge
import GfsModel.OpsHandles
import GfsModel.OpsCli
import GfsModel.OpsX

namespace Gfs.Ops
open Gfs.Proto

def dispatch (f : List String) : Obs × Option Obs :=
  match dispatchRanges f with
  | some r => r
  | none =>
    match dispatchSeq f with
    | some r => r
    | none =>
      match dispatchHist f with
      | some r => r
      | none =>
        match dispatchList f with
        | some r => r
        | none =>
          match dispatchFuzz f with
          | some r => r
          | none =>
            match dispatchDisk f with
            | some r => r
            | none =>
              match dispatchHuge f with
              | some r => r
              | none =>
                match dispatchHandles f with
                | some r => r
                | none =>
                  match dispatchCli f with
                  | some r => r
                  | none =>
                    match dispatchXG f with
                    | some r => r
                    | none => ([("bad-op", "1")], none)

end Gfs.Ops
