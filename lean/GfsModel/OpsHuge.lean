/-
  GfsModel.OpsHuge — the `huge` operation (C14): one plain or stepped range of up to 10^13
  in magnitude, answered arithmetically.
-/
import GfsModel.OpsDisk
import GfsSpec.Closed

namespace Gfs.Ops
open Gfs Gfs.Proto

def dispatchHuge : List String → Option (Obs × Option Obs)
  | ["huge", a, b, n, qi, qv] =>
    let (a, b, n) := (int! a, int! b, int! n)
    let (qi, qv) := (ints qi, ints qv)
    let txt : Bytes := itoa a ++ '-' :: itoa b ++ (if n = 0 then [] else 'x' :: itoa n)
    -- the pad token (hence the width of the frame paths) varies with the operands: 4, 12 or 15
    let sel := (a.natAbs + b.natAbs) % 3
    let padTok : Bytes := if sel = 0 then "#".toList else if sel = 1 then "###".toList else "%015d".toList
    let padW : Int := if sel = 0 then 4 else if sel = 1 then 12 else 15
    let sq : Bytes := "/d/f.".toList ++ txt ++ padTok ++ ".exr".toList
    match FrameSet.parse txt, Seq.parse .hash4 sq with
    | .ok fs, .ok s =>
      let m : Obs :=
        [ ("err", "ok"), ("len", toString fs.len), ("start", toString fs.start), ("fin", toString fs.fin),
          ("val", ",".intercalate (qi.map fun i => showExcept toString (fs.frame i))),
          ("idx", showInts (qv.map fs.index)),
          ("has", ",".intercalate (qv.map fun v => showBool (fs.hasFrame v))),
          ("str", hex s.str), ("slen", toString s.len),
          ("ix", hexList (qi.map s.index)),
          ("cheap", "1") ]
      let mm : Int := if n = 0 then 1 else n.natAbs
      let sp : Obs :=
        [ ("err", "ok"), ("len", toString (Spec.cLen a b mm)), ("start", toString a),
          ("fin", toString (Spec.cLast a b mm)),
          ("val", ",".intercalate (qi.map fun i => match Spec.cValue a b mm i with | some v => toString v | none => "err")),
          ("idx", showInts (qv.map (Spec.cIndex a b mm))),
          ("has", ",".intercalate (qv.map fun v => showBool (Spec.cHas a b mm v))),
          ("str", hex sq), ("slen", toString (Spec.cLen a b mm)),
          ("ix", hexList (qi.map fun i => match Spec.cValue a b mm i with
              | some v => Spec.framePath "/d/".toList "f.".toList ".exr".toList padW v
              | none => [])),
          ("cheap", "1") ]
      some (m, some sp)
    | _, _ => some ([("err", "err")], some [("err", "ok")])
  | _ => none

end Gfs.Ops
