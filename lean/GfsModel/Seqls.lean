/-
  GfsModel.Seqls — model of cmd/seqls.

  Part 1 (selection): which directories are visited for a set of root arguments and flags,
          and what is expected on stdout (uses the Disk model).
  Part 2 (pipeline): the channel pipeline of manager.go as a transition system: a loader
          sending pattern items then directory items over two unbuffered channels and closing
          both, W workers selecting over the two inputs (nil-ing a channel they have seen
          closed) and sending results over an unbuffered output channel, a closer that waits
          for all workers and closes the output, and the printer.
-/
import GfsModel.Disk

namespace Gfs.Seqls
open Gfs

/- Part 2 ------------------------------------------------------------------ -/

abbrev Line := Bytes

/-- a work item and what processing it yields (`none`: nothing to print — an unreadable
    directory, an unmatched or unparsable pattern) -/
structure Item where
  isDir : Bool
  result : Option (List Line)
  deriving Repr

inductive Worker where
  | idle (dirsOpen seqsOpen : Bool)        -- local copies of the two input channels non-nil?
  | holding (dirsOpen seqsOpen : Bool) (lines : List Line)   -- blocked on `outSeqs <- seqs`
  | done                                   -- left the loop: wg.Done() called
  deriving Repr, DecidableEq

structure State where
  pendSeqs : List Item        -- loader: pattern items still to send (sent first)
  pendDirs : List Item        -- loader: directory items still to send
  inputsClosed : Bool         -- closeInputs() has run
  workers : List Worker
  outClosed : Bool            -- closeOutput() has run
  printed : List Line         -- what the printer has written, in order
  deriving Repr

def initState (seqs dirs : List Item) (w : Nat) : State :=
  { pendSeqs := seqs, pendDirs := dirs, inputsClosed := false,
    workers := List.replicate w (.idle true true), outClosed := false, printed := [] }

/-- after receiving an item a worker either holds its lines or goes back to the loop -/
def afterRecv (d s : Bool) (it : Item) : Worker :=
  match it.result with
  | some ls => .holding d s ls
  | none => .idle d s

inductive Step : State → State → Prop where
  /-- rendezvous on inSeqs: loader's next pattern item goes to an idle worker i -/
  | sendSeq (st i it rest d) :
      st.pendSeqs = it :: rest → st.workers[i]? = some (.idle d true) →
      Step st { st with pendSeqs := rest, workers := st.workers.set i (afterRecv d true it) }
  /-- rendezvous on inDirs (directories are sent after all pattern items) -/
  | sendDir (st i it rest s) :
      st.pendSeqs = [] → st.pendDirs = it :: rest → st.workers[i]? = some (.idle true s) →
      Step st { st with pendDirs := rest, workers := st.workers.set i (afterRecv true s it) }
  /-- the loader has sent everything and closes both inputs -/
  | closeInputs (st) :
      st.pendSeqs = [] → st.pendDirs = [] → st.inputsClosed = false →
      Step st { st with inputsClosed := true }
  /-- a worker's select sees inDirs closed and sets its local copy to nil -/
  | seeDirsClosed (st i s) :
      st.inputsClosed = true → st.workers[i]? = some (.idle true s) →
      Step st { st with workers := st.workers.set i (if s then .idle false true else .done) }
  | seeSeqsClosed (st i d) :
      st.inputsClosed = true → st.workers[i]? = some (.idle d true) →
      Step st { st with workers := st.workers.set i (if d then .idle true false else .done) }
  /-- rendezvous on outSeqs: the printer takes a worker's result and prints it -/
  | emit (st i d s ls) :
      st.workers[i]? = some (.holding d s ls) → st.outClosed = false →
      Step st { st with printed := st.printed ++ ls, workers := st.workers.set i (.idle d s) }
  /-- all workers are done: the closer closes the output -/
  | closeOutput (st) :
      (∀ w ∈ st.workers, w = .done) → st.outClosed = false →
      Step st { st with outClosed := true }

inductive Reach (seqs dirs : List Item) (w : Nat) : State → Prop where
  | init : Reach seqs dirs w (initState seqs dirs w)
  | step {s s'} : Reach seqs dirs w s → Step s s' → Reach seqs dirs w s'

/-- the run is over: output closed (the printer's range loop ends, the process exits) -/
def Final (st : State) : Prop := st.outClosed = true

/-- everything the items yield -/
def expectedLines (items : List Item) : List Line :=
  items.flatMap fun it => it.result.getD []

def heldLines (ws : List Worker) : List Line :=
  ws.flatMap fun w => match w with | .holding _ _ ls => ls | _ => []

/-- progress measure (strictly decreasing along every step) -/
def measure (st : State) : Nat :=
  3 * (st.pendSeqs.length + st.pendDirs.length) +
  (if st.inputsClosed then 0 else 1) + (if st.outClosed then 0 else 1) +
  (st.workers.map fun w => match w with
    | .idle d s => (if d then 1 else 0) + (if s then 1 else 0) + 1
    | .holding d s _ => (if d then 1 else 0) + (if s then 1 else 0) + 2
    | .done => 0).sum

end Gfs.Seqls
