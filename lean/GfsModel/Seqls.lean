/-
  GfsModel.Seqls — model of cmd/seqls.

  Part 1 (selection): which directories are visited for a set of root arguments and flags,
          and what is expected on stdout (uses the Disk model).
  Part 2 (pipeline): the channel pipeline of manager.go as a transition system: a loader
          sending pattern items then directory items over two unbuffered channels and closing
          both, W workers selecting over the two inputs (nil-ing a channel they have seen
          closed) and sending results over an unbuffered output channel, a closer that waits
          for all workers and closes the output, and the printer.
-/
import GfsModel.Disk

namespace Gfs.Seqls
open Gfs

/- Part 2 ------------------------------------------------------------------ -/

abbrev Line := Bytes

/-- a work item and what processing it yields (`none`: nothing to print — an unreadable
    directory, an unmatched or unparsable pattern) -/
structure Item where
  isDir : Bool
  result : Option (List Line)
  deriving Repr

inductive Worker where
  | idle (dirsOpen seqsOpen : Bool)        -- local copies of the two input channels non-nil?
  | holding (dirsOpen seqsOpen : Bool) (lines : List Line)   -- blocked on `outSeqs <- seqs`
  | done                                   -- left the loop: wg.Done() called
  deriving Repr, DecidableEq

structure State where
  pendSeqs : List Item        -- loader: pattern items still to send (sent first)
  pendDirs : List Item        -- loader: directory items still to send
  inputsClosed : Bool         -- closeInputs() has run
  workers : List Worker
  outClosed : Bool            -- closeOutput() has run
  printed : List Line         -- what the printer has written, in order
  deriving Repr

def initState (seqs dirs : List Item) (w : Nat) : State :=
  { pendSeqs := seqs, pendDirs := dirs, inputsClosed := false,
    workers := List.replicate w (.idle true true), outClosed := false, printed := [] }

/-- after receiving an item a worker either holds its lines or goes back to the loop -/
def afterRecv (d s : Bool) (it : Item) : Worker :=
  match it.result with
  | some ls => .holding d s ls
  | none => .idle d s

inductive Step : State → State → Prop where
  /-- rendezvous on inSeqs: loader's next pattern item goes to an idle worker i -/
  | sendSeq (st i it rest d) :
      st.pendSeqs = it :: rest → st.workers[i]? = some (.idle d true) →
      Step st { st with pendSeqs := rest, workers := st.workers.set i (afterRecv d true it) }
  /-- rendezvous on inDirs (directories are sent after all pattern items) -/
  | sendDir (st i it rest s) :
      st.pendSeqs = [] → st.pendDirs = it :: rest → st.workers[i]? = some (.idle true s) →
      Step st { st with pendDirs := rest, workers := st.workers.set i (afterRecv true s it) }
  /-- the loader has sent everything and closes both inputs -/
  | closeInputs (st) :
      st.pendSeqs = [] → st.pendDirs = [] → st.inputsClosed = false →
      Step st { st with inputsClosed := true }
  /-- a worker's select sees inDirs closed and sets its local copy to nil -/
  | seeDirsClosed (st i s) :
      st.inputsClosed = true → st.workers[i]? = some (.idle true s) →
      Step st { st with workers := st.workers.set i (if s then .idle false true else .done) }
  | seeSeqsClosed (st i d) :
      st.inputsClosed = true → st.workers[i]? = some (.idle d true) →
      Step st { st with workers := st.workers.set i (if d then .idle true false else .done) }
  /-- rendezvous on outSeqs: the printer takes a worker's result and prints it -/
  | emit (st i d s ls) :
      st.workers[i]? = some (.holding d s ls) → st.outClosed = false →
      Step st { st with printed := st.printed ++ ls, workers := st.workers.set i (.idle d s) }
  /-- all workers are done: the closer closes the output -/
  | closeOutput (st) :
      (∀ w ∈ st.workers, w = .done) → st.outClosed = false →
      Step st { st with outClosed := true }

inductive Reach (seqs dirs : List Item) (w : Nat) : State → Prop where
  | init : Reach seqs dirs w (initState seqs dirs w)
  | step {s s'} : Reach seqs dirs w s → Step s s' → Reach seqs dirs w s'

/-- the run is over: output closed (the printer's range loop ends, the process exits) -/
def Final (st : State) : Prop := st.outClosed = true

/-- everything the items yield -/
def expectedLines (items : List Item) : List Line :=
  items.flatMap fun it => it.result.getD []

def heldLines (ws : List Worker) : List Line :=
  ws.flatMap fun w => match w with | .holding _ _ ls => ls | _ => []

/-- progress measure (strictly decreasing along every step) -/
def measure (st : State) : Nat :=
  3 * (st.pendSeqs.length + st.pendDirs.length) +
  (if st.inputsClosed then 0 else 1) + (if st.outClosed then 0 else 1) +
  (st.workers.map fun w => match w with
    | .idle d s => (if d then 1 else 0) + (if s then 1 else 0) + 1
    | .holding d s _ => (if d then 1 else 0) + (if s then 1 else 0) + 2
    | .done => 0).sum

/- Part 1 ------------------------------------------------------------------ -/

/-- a file-system tree under the working directory: entries by relative path -/
inductive NodeKind where
  | file
  | dir
  | linkFile
  | linkDir (target : Bytes)      -- symlink to the directory with that (clean, relative) path
  deriving Repr, DecidableEq

structure Node where
  path : Bytes          -- clean path relative to the tree root, e.g. "a/b/foo.1.exr"
  kind : NodeKind
  deriving Repr

abbrev Tree := List Node

structure Flags where
  recurse : Bool
  all : Bool
  seqsOnly : Bool
  hash1 : Bool
  strict : Bool
  deriving Repr

def baseName (p : Bytes) : Bytes := (pathSplit p).2

/-- is `p` (a clean path) an existing directory of the tree (following links)? Paths are
    resolved component-wise by `resolve`. -/
def parentOf (p : Bytes) : Bytes :=
  let d := (pathSplit p).1
  match d.reverse with
  | '/' :: r => r.reverse
  | _ => d

/-- children of the directory with real path `dirPath` ("" = the tree root) -/
def childrenOf (t : Tree) (dirPath : Bytes) : List Node :=
  t.filter fun n => parentOf n.path = dirPath ∧ !n.path.isEmpty

/-- the Disk-model description of a directory -/
def dirSpecOf (t : Tree) (dirPath : Bytes) : List Entry :=
  (childrenOf t dirPath).map fun n =>
    ⟨baseName n.path, match n.kind with
      | .file => .file | .dir => .dir | .linkFile => .linkFile | .linkDir _ => .linkDir⟩

def isDirPath (t : Tree) (p : Bytes) : Bool :=
  p.isEmpty || t.any fun n => n.path = p ∧ n.kind = .dir

def listOptsOf (f : Flags) : ListOpts :=
  { single := !f.seqsOnly, hidden := f.all, style := if f.hash1 then .hash1 else .hash4 }

def joinPath (a b : Bytes) : Bytes := if a.isEmpty then b else if b.isEmpty then a else a ++ '/' :: b

/-- the recursive walk of `loadRecursive`: `shown` is the path as printed (through links),
    `real` the real directory; returns the (shown, real) pairs of every directory listed.
    Hidden directories (name longer than 1 starting with '.') are skipped unless -a — the root
    included.  `seen` are link targets already traversed. -/
def walk (t : Tree) (all : Bool) : Nat → List Bytes → Bytes → Bytes → List (Bytes × Bytes) × List Bytes
  | 0, seen, _, _ => ([], seen)
  | fuel + 1, seen, shown, real =>
    let nm := baseName shown
    if !all ∧ nm.length > 1 ∧ isPrefixOf ['.'] nm then ([], seen)
    else
      (childrenOf t real).foldl (fun (acc : List (Bytes × Bytes) × List Bytes) n =>
        let (out, seen) := acc
        match n.kind with
        | .dir =>
          let (o2, s2) := walk t all fuel seen (joinPath shown (baseName n.path)) n.path
          (out ++ o2, s2)
        | .linkDir tgt =>
          let shown' := joinPath shown (baseName n.path)
          let nm' := baseName shown'
          if seen.contains tgt then
            -- listed (unless hidden) but not traversed again
            (if !all ∧ nm'.length > 1 ∧ isPrefixOf ['.'] nm' then (out, seen) else (out ++ [(shown', tgt)], seen))
          else
            let (o2, s2) := walk t all fuel (tgt :: seen) shown' tgt
            (out ++ o2, s2)
        | _ => (out, seen)) ([(shown, real)], seen)

/-- the targets of the directory links of a tree (with repetitions) -/
def targets (t : Tree) : List Bytes :=
  t.filterMap fun n => match n.kind with | .linkDir tg => some tg | _ => none

/-- the longest path or link target of a tree, in bytes -/
def maxLen (t : Tree) : Nat :=
  (t.map fun n => max n.path.length (match n.kind with | .linkDir tg => tg.length | _ => 0)).foldl max 0

/-- a recursion depth the walk never exceeds (GfsProofs.WalkTerm: with more fuel than this the
    result no longer depends on the fuel — the cycle cache makes the walk of ANY tree, cyclic and
    aliased links included, terminate): every nested call either descends to a longer real path
    or follows a link whose target was not yet recorded -/
def walkBound (t : Tree) : Nat := ((targets t).length + 1) * (maxLen t + 2)

end Gfs.Seqls
