/-
  GfsModel.Rx — hand-written recognisers equivalent to the regular expressions of
  fileseq.go under Go's leftmost-first semantics (DESIGN §4, §6 C03/C05).
  Each is the explicit priority search collapsed by the observations recorded below.
-/
import GfsModel.Basic

namespace Gfs

def isWord (c : Char) : Bool :=
  isDigit c || ('a' ≤ c && c ≤ 'z') || ('A' ≤ c && c ≤ 'Z') || c = '_'
def isAlpha (c : Char) : Bool := ('a' ≤ c && c ≤ 'z') || ('A' ≤ c && c ≤ 'Z')

/-- `[:xy\d,-]` -/
def isRangeChar (c : Char) : Bool := isDigit c || c = ':' || c = 'x' || c = 'y' || c = ',' || c = '-'
/-- `[\d-]` -/
def isRangeStart (c : Char) : Bool := isDigit c || c = '-'

/-- The `<pad>` alternation at the head of `s`: `[#@]+ | %\d*d | \$F\d* | <UDIM> | %\(UDIM\)d`,
    first alternative that matches, each greedy.  Returns (token, rest). -/
def padTokenAt (s : Bytes) : Option (Bytes × Bytes) :=
  match s with
  | [] => none
  | c :: r =>
    if c = '#' ∨ c = '@' then
      some (s.takeWhile (fun c => c = '#' || c = '@'), s.dropWhile (fun c => c = '#' || c = '@'))
    else if c = '%' then
      let ds := r.takeWhile isDigit
      match r.dropWhile isDigit with
      | 'd' :: r' => some ('%' :: ds ++ ['d'], r')
      | _ =>
        if isPrefixOf "(UDIM)d".toList r then some ("%(UDIM)d".toList, r.drop 7) else none
    else if c = '$' then
      match r with
      | 'F' :: r' => some ('$' :: 'F' :: r'.takeWhile isDigit, r'.dropWhile isDigit)
      | _ => none
    else if isPrefixOf "<UDIM>".toList s then some ("<UDIM>".toList, s.drop 6)
    else none

/-- Scan for the first position at which a pad token starts.
    `acc` is the reversed prefix already passed. -/
def findPad : Bytes → Bytes → Option (Bytes × Bytes × Bytes)
  | _, [] => none
  | acc, c :: r =>
    match padTokenAt (c :: r) with
    | some (tok, rest) => some (acc.reverse, tok, rest)
    | none => findPad (c :: acc) r

/-- `splitPattern`: (name, range, pad, ext).
    No match when the string contains '\n' (neither `.` nor any class of the pattern
    matches it) or holds no pad token.  The name is lazy, so the match starts at the first
    pad token; the range is the longest suffix of what precedes it that lies in
    `[\d-][:xy\d,-]*`. -/
def splitSeq (s : Bytes) : Option (Bytes × Bytes × Bytes × Bytes) :=
  if s.contains '\n' then none else
  match findPad [] s with
  | none => none
  | some (pre, tok, ext) =>
    -- longest suffix of `pre` made of range chars …
    let tailRev := pre.reverse.takeWhile isRangeChar
    let headRev := pre.reverse.dropWhile isRangeChar
    let tail := tailRev.reverse
    -- … whose first char must be in [\d-]: leading [:xy,] chars go back to the name
    let lead := tail.takeWhile (fun c => !isRangeStart c)
    let rng := tail.dropWhile (fun c => !isRangeStart c)
    some (headRev.reverse ++ lead, rng, tok, ext)

/-- one dot-free extension segment of the form `\w*[a-zA-Z]\w?` -/
def isAlnumSeg (seg : Bytes) : Bool :=
  seg.all isWord &&
  (match seg.reverse with
   | a :: b :: _ => isAlpha a || isAlpha b
   | [a] => isAlpha a
   | [] => false)

/-- membership in `(?:\.\w*[a-zA-Z]\w?)*(?:\.[^.]+)?` anchored at both ends -/
def isExt (s : Bytes) : Bool :=
  match s with
  | [] => true
  | '.' :: r =>
    let segs := splitOn '.' r
    match segs.reverse with
    | [] => false
    | last :: initRev => initRev.all isAlnumSeg && (isAlnumSeg last || !last.isEmpty)
  | _ => false

/-- `(-?\d+)` at the head: the optional '-' and the digit run are both maximal, because
    anything shorter leaves a digit (or '-') in front of the extension, which must be empty
    or start with '.'. -/
def frameAt (s : Bytes) : Option (Bytes × Bytes) :=
  match s with
  | '-' :: r =>
    let ds := r.takeWhile isDigit
    if ds.isEmpty then none else some ('-' :: ds, r.dropWhile isDigit)
  | _ =>
    let ds := s.takeWhile isDigit
    if ds.isEmpty then none else some (ds, s.dropWhile isDigit)

/-- `singleFramePattern`: smallest name such that a frame follows and the rest is an
    extension; the name cannot contain '\n'. -/
def singleFrameAux : Bytes → Bytes → Option (Bytes × Bytes × Bytes)
  | _, [] => none
  | acc, c :: r =>
    match frameAt (c :: r) with
    | some (fr, rest) =>
      if isExt rest then some (acc.reverse, fr, rest)
      else if c = '\n' then none else singleFrameAux (c :: acc) r
    | none => if c = '\n' then none else singleFrameAux (c :: acc) r

def singleFrame (s : Bytes) : Option (Bytes × Bytes × Bytes) := singleFrameAux [] s

/-- `optionalFramePattern`: as above, but the frame may be absent (then the rest from
    the same position must be an extension; at the end of the string it always is). -/
def optFrameAux : Bytes → Bytes → Option (Bytes × Bytes × Bytes)
  | acc, [] => some (acc.reverse, [], [])
  | acc, c :: r =>
    match frameAt (c :: r) with
    | some (fr, rest) =>
      if isExt rest then some (acc.reverse, fr, rest)
      else if isExt (c :: r) then some (acc.reverse, [], c :: r)
      else if c = '\n' then none else optFrameAux (c :: acc) r
    | none =>
      if isExt (c :: r) then some (acc.reverse, [], c :: r)
      else if c = '\n' then none else optFrameAux (c :: acc) r

def optFrame (s : Bytes) : Option (Bytes × Bytes × Bytes) := optFrameAux [] s

end Gfs
