/-
  GfsModel.OpsHandles — `handles` (single-threaded history incl. stale handles) and
  `hstress` (concurrent owners; only the outcome is observable) operations (C20).
-/
import GfsModel.OpsHuge
import GfsModel.Handles
import GfsModel.Xorshift

namespace Gfs.Ops
open Gfs Gfs.Proto Gfs.Handles

/-- interpret a script token against the ids created so far (model ids: 1, 2, 3, …) -/
def tokOp (ids : List Id) (tok : String) : Option Op :=
  let kind : String := String.ofList (tok.toList.take 1)
  let arg : String := String.ofList (tok.toList.drop 1)
  let idOf : Id := if arg = "X" then 999999999 else
    match arg.toNat? with
    | some k => ids.getD k 888888888
    | none => 0
  if kind = "A" then some (.add (ids.length + 1))
  else if kind = "I" then some (.incref idOf)
  else if kind = "D" then some (.decref idOf)
  else if kind = "G" then some (.get idOf)
  else if kind = "L" then some .len
  else none

def runScript : Table → List Id → List String → List String
  | _, _, [] => []
  | t, ids, tok :: rest =>
    match tokOp ids tok with
    | none => ["?"]
    | some op =>
      let (t', r) := seqStep t op
      let ids' := match op with | .add id => ids ++ [id] | _ => ids
      let out := match op, r with
        | .add _, _ => "a"
        | .incref _, _ => "i"
        | .decref _, _ => "d"
        | .get _, .found b => if b then "g1" else "g0"
        | .len, .count n => "l" ++ toString n
        | _, _ => "?"
      out :: runScript t' ids' rest

def dispatchHandles : List String → Option (Obs × Option Obs)
  | "handles" :: _sel :: toks =>
    let res := runScript [] [] toks
    let m : Obs := [("r", ",".intercalate res), ("ids", "1"), ("end", "0")]
    some (m, some m)
  | ["hstress", _, _, _, _, _] =>
    let m : Obs := [("bad", "0"), ("dup", "0"), ("end", "0")]
    some (m, some m)
  -- deterministic schedules of the instrumented real code: every schedule of every scenario must
  -- end like the model says every interleaving ends (C20_refcount / _resolves / _removed_at_zero /
  -- _quiescent / _unique): nothing to report
  | "hsched" :: _ =>
    let m : Obs := [("fail", "-"), ("bad", "0"), ("dup", "0"), ("leak", "0"), ("end", "0"),
                    ("dead", "0"), ("live", "0"), ("panic", "")]
    some (m, some m)
  -- the generator put in a given state: the ids are the next k states (Xorshift.nth), and the
  -- property's clauses about them: none zero, all different, all resolve, all counted
  | ["hseed", _, st, k] =>
    let s : BitVec 64 := BitVec.ofNat 64 st.toNat!
    let k := k.toNat!
    let ids := (List.range k).map fun i => (Xorshift.nth s (i + 1)).toNat
    let m : Obs := [("ids", ",".intercalate (ids.map toString)), ("zero", "0"), ("dup", "0"), ("unres", "0"),
                    ("live", toString k), ("end", "0")]
    some (m, some [("zero", "0"), ("dup", "0"), ("unres", "0"), ("live", toString k), ("end", "0")])
  -- C16: N goroutines on their own values from a cold start: no race, same results
  | ["race", _, _, _] =>
    let m : Obs := [("race", "0"), ("same", "1")]
    some (m, some m)
  | _ => none

end Gfs.Ops
