/-
  GfsModel.Sequence — model of sequence.go's FileSequence: NewFileSequencePad, getters,
  Frame / Index, the setters, String, Copy and Split.
-/
import GfsModel.Rx
import GfsModel.Path
import GfsModel.Pad

namespace Gfs

/-- sequence.go `FileSequence` (padMapper is represented by its style). -/
structure Seq where
  base : Bytes
  dir : Bytes
  ext : Bytes
  pad : Bytes
  zfill : Int
  frameSet : Option FrameSet
  style : PadStyle
  deriving Repr

namespace Seq

/-- `SetPadding` -/
def setPadding (s : Seq) (p : Bytes) : Seq := { s with pad := p, zfill := padSize s.style p }

/-- `NewFileSequencePad`. -/
def parse (style : PadStyle) (sq : Bytes) : Except Err Seq :=
  match splitSeq sq with
  | some (name, rng, pad, ext) =>
    let fs := (FrameSet.parse rng).toOption
    let (dir, base) := pathSplit name
    .ok (setPadding ⟨base, dir, ext, pad, 0, fs, style⟩ pad)
  | none =>
    if sq.contains '#' ∨ sq.contains '@' then .error .parse
    else
      let (dir0, file0) := pathSplit sq
      let (base0, ext0) := match splitLastDot file0 with
        | some (b, e) => (b, e)
        | none => (file0, [])
      if dir0.isEmpty ∧ base0.isEmpty ∧ !ext0.isEmpty then
        .ok (setPadding ⟨base0, dir0, ext0, [], 0, none, style⟩ [])
      else
        match singleFrame sq with
        | some (name, fr, ext') =>
          match FrameSet.parse fr with
          | .ok fs =>
            let (dir, base) := pathSplit name
            let pad := padChars style fr.length
            .ok (setPadding ⟨base, dir, ext', pad, 0, some fs, style⟩ pad)
          | .error _ =>
            -- (as repaired by the D15 `fix:` commit: the split at the last dot is kept)
            .ok (setPadding ⟨base0, dir0, ext0, [], 0, none, style⟩ [])
        | none => .ok (setPadding ⟨base0, dir0, ext0, [], 0, none, style⟩ [])

def frameRange (s : Seq) : Bytes := match s.frameSet with | some fs => fs.frange | none => []
def start (s : Seq) : Int := match s.frameSet with | some fs => fs.start | none => 0
def fin (s : Seq) : Int := match s.frameSet with | some fs => fs.fin | none => 0
def len (s : Seq) : Int := match s.frameSet with | some fs => fs.len | none => 1

/-- `String()` -/
def str (s : Seq) : Bytes := s.dir ++ s.base ++ s.frameRange ++ s.pad ++ s.ext

/-- `frameInt` / `Frame(int)` -/
def frameInt (s : Seq) (f : Int) : Bytes :=
  let z := match s.frameSet with | some _ => zfillInt f s.zfill | none => []
  s.dir ++ s.base ++ z ++ s.ext

/-- `Frame(string)`: a string that Atoi accepts is zero-filled, anything else passes through -/
def frameStr (s : Seq) (f : Bytes) : Bytes :=
  let z := match s.frameSet with
    | some _ => if (atoi f).isSome then zfillString f s.zfill else f
    | none => []
  s.dir ++ s.base ++ z ++ s.ext

/-- `Index(idx)` -/
def index (s : Seq) (i : Int) : Bytes :=
  match s.frameSet with
  | none => s.str
  | some fs =>
    match fs.frame i with
    | .ok f => s.frameInt f
    | .error _ => []

/-- the separator `SetDirname` appends: '\\' as soon as the directory contains one (the code
    does this on every OS), else '/' (`filepath.Separator` on the modelled platform) -/
def dirSep (d : Bytes) : Char := if d.contains '\\' then '\\' else '/'

/-- `SetDirname` -/
def setDirname (s : Seq) (d : Bytes) : Seq :=
  { s with dir := if isSuffixOf [dirSep d] d then d else d ++ [dirSep d] }

def setBasename (s : Seq) (b : Bytes) : Seq := { s with base := b }

/-- `SetPaddingStyle` -/
def setPaddingStyle (s : Seq) (st : PadStyle) : Seq :=
  let s1 := { s with style := st }
  s1.setPadding (padChars st s.zfill)

/-- `SetExt` -/
def setExt (s : Seq) (e : Bytes) : Seq :=
  { s with ext := if isPrefixOf ['.'] e then e else '.' :: e }

def setFrameSet (s : Seq) (fs : Option FrameSet) : Seq := { s with frameSet := fs }

/-- `SetFrameRange`: on a parse error the sequence is untouched -/
def setFrameRange (s : Seq) (r : Bytes) : Seq × Bool :=
  match FrameSet.parse r with
  | .ok fs => ({ s with frameSet := some fs }, true)
  | .error _ => (s, false)

/-- `Copy` — as repaired by the D7 `fix:` commit: a field-wise copy whose frame set is
    re-created from its range string (so that no lazily cached state is shared). -/
def copy (s : Seq) : Seq :=
  match s.frameSet with
  | none => s
  | some fs =>
    match FrameSet.parse fs.frange with
    | .ok fs' => { s with frameSet := some fs' }
    | .error _ => s

/-- `Split` — as repaired by the D13 `fix:` commit: one copy per comma component of the
    range string. -/
def split (s : Seq) : List Seq :=
  match s.frameSet with
  | none => [s.copy]
  | some fs =>
    let parts := splitOn ',' fs.frange
    if parts.length = 1 then [s.copy]
    else parts.map fun p => (s.copy.setFrameRange p).1

/-- `FrameRangePadded` -/
def frameRangePadded (s : Seq) : Bytes :=
  match s.frameSet with | some fs => padFrameRange fs.frange s.zfill | none => []

/-- `InvertedFrameRange(pad)` of the frame set -/
def invertedRange (fs : FrameSet) (pad : Int) : Bytes :=
  let r := (fs.blocks.normalized true).str
  if pad > 1 then padFrameRange r pad else r

def invertedFrameRange (s : Seq) : Bytes :=
  match s.frameSet with | some fs => invertedRange fs 0 | none => []

def invertedFrameRangePadded (s : Seq) : Bytes :=
  match s.frameSet with | some fs => invertedRange fs s.zfill | none => []

end Seq
end Gfs
