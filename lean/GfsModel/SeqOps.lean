/-
  GfsModel.SeqOps — histories of setter / Copy / Split calls on a FileSequence (C12, C10).
-/
import GfsModel.Sequence

namespace Gfs

inductive SeqOp where
  | setDirname (d : Bytes)
  | setBasename (b : Bytes)
  | setExt (e : Bytes)
  | setPadding (p : Bytes)
  | setStyle (st : PadStyle)
  | setFrameRange (r : Bytes)
  | setFrameSet (r : Bytes)      -- SetFrameSet(NewFrameSet(r)), nil when r does not parse
  | normalize                    -- SetFrameSet(FrameSet().Normalize()) when a frame set is present
  | invertSet                    -- SetFrameSet(FrameSet().Invert()) when a frame set is present
  | copy                         -- continue with the copy
  | split                        -- observe the parts, continue with the original
  deriving Repr

/-- state transition of one call (Split leaves the sequence alone) -/
def Seq.apply (s : Seq) : SeqOp → Seq
  | .setDirname d => s.setDirname d
  | .setBasename b => s.setBasename b
  | .setExt e => s.setExt e
  | .setPadding p => s.setPadding p
  | .setStyle st => s.setPaddingStyle st
  | .setFrameRange r => (s.setFrameRange r).1
  | .setFrameSet r => s.setFrameSet (FrameSet.parse r).toOption
  | .normalize => match s.frameSet with
      | some fs => s.setFrameSet (some fs.normalize)
      | none => s
  | .invertSet => match s.frameSet with
      | some fs => s.setFrameSet (some fs.invert)
      | none => s
  | .copy => s.copy
  | .split => s

/-- the two calls that install a frame set printed from blocks instead of parsed from text -/
def SeqOp.derived : SeqOp → Bool
  | .normalize => true
  | .invertSet => true
  | _ => false

def Seq.run (s : Seq) (ops : List SeqOp) : Seq := ops.foldl Seq.apply s

/-- every frame path of a sequence, in order (empty string entries never occur for
    in-range indices) -/
def Seq.paths (s : Seq) : List Bytes :=
  (List.range s.len.toNat).map fun (i : Nat) => s.index i

end Gfs
