/-
  GfsModel.OpsSeq — protocol operations on pad tokens, compressed ranges, padded ranges,
  normalisation and file sequences.
-/
import GfsModel.Ops
import GfsModel.Pad
import GfsModel.Compress
import GfsModel.Sequence
import GfsSpec.SeqSpec

namespace Gfs.Ops
open Gfs Gfs.Proto

def styleOf (s : String) : PadStyle := if s = "1" then .hash1 else .hash4
def showStyle : PadStyle → String | .hash1 => "1" | .hash4 => "4"

def hexList (l : List Bytes) : String := if l.isEmpty then "-" else ",".intercalate (l.map hex)

def framesOrErr (s : Bytes) : String :=
  match FrameSet.parse s with
  | .ok fs => if fs.len ≤ 20000 then summarize fs.frames else "big"
  | .error _ => "err"

/-- every numeral that is a frame number (not a step) has at least `z` characters -/
def numeralsPadded (s : Bytes) (z : Int) : Bool :=
  (splitOn ',' s).all fun part =>
    match matchPart part with
    | some (.single a) => decide ((a.length : Int) ≥ z)
    | some (.range a b) => decide ((a.length : Int) ≥ z) && decide ((b.length : Int) ≥ z)
    | some (.complex a b _ _) => decide ((a.length : Int) ≥ z) && decide ((b.length : Int) ≥ z)
    | none => true

/-- strip redundant leading zeros of every numeral -/
def stripZerosNum (a : Bytes) : Bytes :=
  let (sign, ds) := match a with | '-' :: r => (['-'], r) | r => ([], r)
  let ds' := ds.dropWhile (· = '0')
  sign ++ (if ds'.isEmpty then ['0'] else ds')

def stripZeros (s : Bytes) : Bytes :=
  joinWith ',' ((splitOn ',' s).map fun part =>
    match matchPart part with
    | some (.single a) => stripZerosNum a
    | some (.range a b) => stripZerosNum a ++ '-' :: stripZerosNum b
    | some (.complex a b m n) => stripZerosNum a ++ '-' :: stripZerosNum b ++ m :: n
    | none => part)

/-- observation of a parsed sequence -/
def seqObs (s : Seq) (qf qi : List Int) : Obs :=
  let ln := s.len
  let nodup : String :=
    if ln ≤ 300 then
      let paths := (List.range ln.toNat).map fun (i : Nat) => s.index i
      showBool (paths.eraseDups.length == paths.length)
    else "skip"
  [ ("dir", hex s.dir), ("base", hex s.base), ("rng", hex s.frameRange), ("pad", hex s.pad),
    ("ext", hex s.ext), ("zfill", toString s.zfill), ("hasfs", showBool s.frameSet.isSome),
    ("style", showStyle s.style),
    ("len", toString ln), ("start", toString s.start), ("fin", toString s.fin),
    ("str", hex s.str), ("fmt", hex s.str), ("i0", hex (s.index 0)), ("i0b", hex (s.index 0)),
    ("fr", hexList (qf.map s.frameInt)),
    ("ix", hexList (qi.map s.index)),
    ("nodup", nodup),
    ("fs", hexList (["5", "-5", "#", "abc", "007", "+3"].map fun t => s.frameStr t.toList)),
    ("str2", hex s.str), ("fmt2", hex s.str) ]

/-- what C04 demands of the paths, given the components -/
def seqPathSpec (s : Seq) (qf qi : List Int) : Obs :=
  match s.frameSet with
  | none => []
  | some fs =>
    let L := if fs.len ≤ 20000 then fs.frames else []
    [ ("fr", hexList (qf.map (Spec.framePath s.dir s.base s.ext s.zfill))),
      ("ix", hexList (qi.map fun i =>
          if fs.len > 20000 then (s.index i) else
          if i < 0 ∨ i ≥ L.length then [] else Spec.framePath s.dir s.base s.ext s.zfill (L.getD i.toNat 0))),
      ("nodup", if fs.len ≤ 300 then "1" else "skip") ]

def dispatchSeq : List String → Option (Obs × Option Obs)
  | ["pad.chars", st, n] =>
    let st := styleOf st
    let n := int! n
    let c := padChars st n
    let m : Obs := [("chars", hex c), ("back", toString (padSize st c))]
    let sp : Option Obs := if n ≥ 1 then some [("back", toString n)] else none
    some (m, sp)
  | ["pad.size", st, tok] =>
    let st := styleOf st
    let tok := unhex tok
    let m : Obs := [("size", toString (padSize st tok))]
    let sp : Option Obs := (Spec.classifyPad tok).map fun t => [("size", toString (t.width st))]
    some (m, sp)
  | ["f2r", fr, sorted, z] =>
    let fr := ints fr
    let sorted := sorted = "1"
    let z := int! z
    let out := framesToFrameRange fr sorted z
    let m : Obs := [("str", hex out), ("reparse", if fr.isEmpty then "-" else framesOrErr out),
                    ("zok", showBool (numeralsPadded out z))]
    let sp : Option Obs :=
      if fr.isEmpty then some [("str", "-")]
      else if fr.eraseDups.length == fr.length then
        some ([("reparse", summarize (if sorted then Spec.sortedSet fr else fr))] ++
              (if z ≥ 2 then [("zok", "1")] else []))
      else none
    some (m, sp)
  | ["padrange", txt, w] =>
    let txt := unhex txt
    let w := int! w
    let out := padFrameRange txt w
    let m : Obs :=
      [ ("out", hex out), ("parts", toString (splitOn ',' out).length),
        ("same", showBool (framesOrErr out == framesOrErr txt)),
        ("idem", showBool (padFrameRange out w == out)),
        ("wok", showBool (numeralsPadded out w)),
        ("strip", showBool (stripZeros out == stripZeros txt)) ]
    let sp : Obs :=
      [ ("parts", toString (splitOn ',' txt).length), ("same", "1"), ("idem", "1"), ("strip", "1") ] ++
      (if w ≥ 2 then [("wok", "1")] else [("out", hex txt)])
    some (m, some sp)
  | ["fs.norm", txt, pad] =>
    let txt := unhex txt
    let pad := int! pad
    match FrameSet.parse txt with
    | .error _ => some ([("err", "err")], none)
    | .ok fs =>
      let n := fs.normalize
      let i := fs.invert
      let inv0 := Seq.invertedRange fs 0
      let invp := Seq.invertedRange fs pad
      let revTxt := joinWith ',' (splitOn ',' txt).reverse
      let nperm : Bool := match FrameSet.parse revTxt with
        | .ok fs2 => fs2.normalize.frames == n.frames
        | .error _ => false
      let m : Obs :=
        [ ("err", "ok"),
          ("nstr", hex n.frange), ("nframes", summarize n.frames), ("nre", framesOrErr n.frange),
          ("nidem", showBool (n.normalize.frange == n.frange && n.normalize.frames == n.frames)),
          ("nperm", showBool nperm),
          ("istr", hex i.frange), ("iframes", summarize i.frames),
          ("ire", if i.frames.isEmpty then "-" else framesOrErr i.frange),
          ("inv0", hex inv0), ("invp", hex invp),
          ("inv0eq", showBool (inv0 == i.frange)),
          ("invstrip", showBool (stripZeros invp == inv0)) ]
      let L := fs.frames
      let sp : Option Obs :=
        if L.isEmpty then none else
        let ns := Spec.sortedSet L
        let cs := Spec.complement L
        some [ ("nframes", summarize ns), ("nre", summarize ns), ("nidem", "1"), ("nperm", "1"),
               ("iframes", summarize cs), ("ire", if cs.isEmpty then "-" else summarize cs),
               ("inv0eq", "1"), ("invstrip", "1") ]
      some (m, sp)
  | "seq" :: st :: txt :: qf :: qi :: tuple =>
    let st := styleOf st
    let txt := unhex txt
    let (qf, qi) := (ints qf, ints qi)
    match Seq.parse st txt with
    | .error _ => some ([("err", "err")], none)
    | .ok s =>
      let m : Obs := ("err", "ok") :: seqObs s qf qi
      let comp : Obs :=
        match tuple with
        | [d, b, r, p, e] =>
          let (d, b, r, p, e) := (unhex d, unhex b, unhex r, unhex p, unhex e)
          if Spec.unambig d b r p e ∧ txt = d ++ b ++ r ++ p ++ e then
            [ ("err", "ok"), ("dir", hex d), ("base", hex b), ("rng", hex r), ("pad", hex p), ("ext", hex e),
              ("zfill", toString (((Spec.classifyPad p).map (·.width st)).getD 0)),
              ("hasfs", showBool (!r.isEmpty)), ("str", hex txt), ("fmt", hex txt),
              ("str2", hex txt), ("fmt2", hex txt) ]
          else []
        | ["single"] =>
          -- a concrete file path (no pad token, no newline): index 0 gives it back
          if txt.all (fun c => c != '#' && c != '@' && c != '%' && c != '$' && c != '<' && c != '\n')
          then [("err", "ok"), ("i0", hex txt)] else []
        | _ => []
      some (m, some (comp ++ seqPathSpec s qf qi ++ [("i0b", hex (s.index 0))]))
  | _ => none

end Gfs.Ops
