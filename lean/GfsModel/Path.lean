/-
  GfsModel.Path — Unix `filepath.Split` and `filepath.Clean` (lexical).
  Windows separators are not modelled (DESIGN §4).
-/
import GfsModel.Basic

namespace Gfs

/-- `filepath.Split`: everything up to and including the last '/', and the rest. -/
def pathSplit (p : Bytes) : Bytes × Bytes :=
  let fileRev := p.reverse.takeWhile (· ≠ '/')
  let dirRev := p.reverse.dropWhile (· ≠ '/')
  (dirRev.reverse, fileRev.reverse)

/-- One step of Clean's component walk; `st` is the stack of kept components (reversed). -/
def cleanStep (rooted : Bool) (st : List Bytes) (comp : Bytes) : List Bytes :=
  if comp.isEmpty ∨ comp = ['.'] then st
  else if comp = ['.', '.'] then
    match st with
    | top :: rest => if top = ['.', '.'] then comp :: st else rest
    | [] => if rooted then [] else [comp]
  else comp :: st

/-- `filepath.Clean`. -/
def pathClean (p : Bytes) : Bytes :=
  if p.isEmpty then ['.'] else
  let rooted := p.head? = some '/'
  let comps := (splitOn '/' p).foldl (cleanStep rooted) []
  let body := joinWith '/' comps.reverse
  if rooted then '/' :: body
  else if body.isEmpty then ['.'] else body

/-- `strings.LastIndex(s, ".")` split: (before, from the dot) or none -/
def splitLastDot (s : Bytes) : Option (Bytes × Bytes) :=
  if s.contains '.' then
    let extRev := s.reverse.takeWhile (· ≠ '.')
    let restRev := s.reverse.dropWhile (· ≠ '.')
    match restRev with
    | _ :: baseRev => some (baseRev.reverse, '.' :: extRev.reverse)
    | [] => none
  else none

end Gfs
