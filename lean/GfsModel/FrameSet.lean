/-
  GfsModel.FrameSet — model of frameset.go and of frameRangeMatches / IsFrameRange /
  FramesToFrameRange (fileseq.go).
-/
import GfsModel.Ranges

namespace Gfs

/-- What one of the three `rangePatterns` captured for a comma part (as text). -/
inductive Match where
  | single (a : Bytes)
  | range (a b : Bytes)
  | complex (a b : Bytes) (mod : Char) (n : Bytes)
  deriving Repr, DecidableEq

/-- Recogniser for `-?\d+` at the head of a string: returns the token and the rest,
    the digit run being maximal (greedy; the patterns never need to give digits back
    because what follows a number is never a digit). -/
def takeNum (s : Bytes) : Option (Bytes × Bytes) :=
  let (sign, r) := match s with
    | '-' :: r => (['-'], r)
    | r => ([], r)
  let ds := r.takeWhile isDigit
  if ds.isEmpty then none else some (sign ++ ds, r.dropWhile isDigit)

/-- The three anchored `rangePatterns` as one recogniser. -/
def matchPart (p : Bytes) : Option Match :=
  match takeNum p with
  | none => none
  | some (a, r1) =>
    match r1 with
    | [] => some (.single a)
    | '-' :: r2 =>
      match takeNum r2 with
      | none => none
      | some (b, r3) =>
        match r3 with
        | [] => some (.range a b)
        | m :: r4 =>
          if m = ':' ∨ m = 'x' ∨ m = 'y' then
            match takeNum r4 with
            | some (n, []) => some (.complex a b m n)
            | _ => none
          else none
    | _ => none

/-- Characters removed before matching: all pad characters of the default mapper and ' '. -/
def isJunk (c : Char) : Bool := c = '#' || c = '@' || c = ' '

def stripJunk (s : Bytes) : Bytes := s.filter (fun c => !isJunk c)

/-- `frameRangeMatches`. -/
def frameRangeMatches (s : Bytes) : Except Err (List Match) :=
  (splitOn ',' (stripJunk s)).mapM fun p =>
    match matchPart p with
    | some m => .ok m
    | none => .error .parse

/-- The `y` loop of `handleMatch`: walk `vals` (the unit-step range from start to end),
    skipping the values `skip, skip+inc, …`. -/
def fillLoop (inc : Int) : Blocks → Int → List Int → Blocks
  | bl, _, [] => bl
  | bl, skip, v :: vs =>
    if v = skip then fillLoop inc bl (skip + inc) vs
    else fillLoop inc (bl.appendUnique v v 1) skip vs

/-- The `:` loop of `handleMatch`: `for ; chunk > 0; chunk-- { AppendUnique(start,end,chunk) }`. -/
def staggerLoop (s e : Int) : Nat → Blocks → Blocks
  | 0, bl => bl
  | k + 1, bl => staggerLoop s e k (bl.appendUnique s e ((k : Int) + 1))

/-- `handleMatch` — as repaired by the D2/D3 `fix:` commit (filled ranges walk in the
    direction of start→end; a negative chunk means its magnitude). -/
def handleMatch (bl : Blocks) : Match → Except Err Blocks
  | .single a => do
    let f ← parseInt a
    pure (bl.appendUnique f f 1)
  | .range a b => do
    let s ← parseInt a
    let e ← parseInt b
    pure (bl.appendUnique s e (if s > e then -1 else 1))
  | .complex a b m n => do
    let chunk ← parseInt n
    if chunk = 0 then throw .zeroStep
    let s ← parseInt a
    let e ← parseInt b
    let chunk := if chunk < 0 then -chunk else chunk
    if m = 'x' then pure (bl.appendUnique s e chunk)
    else if m = 'y' then
      let dir : Int := if s > e then -1 else 1
      pure (fillLoop (chunk * dir) bl s (mkRng s e dir).iter)
    else pure (staggerLoop s e chunk.toNat bl)

def handleMatches : Blocks → List Match → Except Err Blocks
  | bl, [] => .ok bl
  | bl, m :: ms => do
    let bl' ← handleMatch bl m
    handleMatches bl' ms

/-- frameset.go `FrameSet`. -/
structure FrameSet where
  frange : Bytes
  blocks : Blocks
  deriving Repr

/-- `NewFrameSet`. -/
def FrameSet.parse (s : Bytes) : Except Err FrameSet := do
  let ms ← frameRangeMatches s
  let bl ← handleMatches [] ms
  pure ⟨s, bl⟩

namespace FrameSet
def len (fs : FrameSet) : Int := fs.blocks.len
def index (fs : FrameSet) (f : Int) : Int := fs.blocks.index f
def frame (fs : FrameSet) (i : Int) : Except Err Int := fs.blocks.value i
def frames (fs : FrameSet) : List Int := fs.blocks.iter
def hasFrame (fs : FrameSet) (f : Int) : Bool := fs.blocks.contains f
def start (fs : FrameSet) : Int := fs.blocks.start
def fin (fs : FrameSet) : Int := fs.blocks.fin
def normalize (fs : FrameSet) : FrameSet :=
  let b := fs.blocks.normalized false; ⟨b.str, b⟩
def invert (fs : FrameSet) : FrameSet :=
  let b := fs.blocks.normalized true; ⟨b.str, b⟩
end FrameSet

/-- `IsFrameRange` — as repaired by the D6 `fix:` commit: also rejects numerals that do
    not fit an int and a zero step, without enumerating. -/
def matchOk : Match → Bool
  | .single a => (atoi a).isSome
  | .range a b => (atoi a).isSome && (atoi b).isSome
  | .complex a b _ n =>
    (atoi a).isSome && (atoi b).isSome &&
      (match atoi n with | some v => v != 0 | none => false)

def isFrameRange (s : Bytes) : Bool :=
  match frameRangeMatches s with
  | .ok ms => ms.all matchOk
  | .error _ => false

end Gfs
