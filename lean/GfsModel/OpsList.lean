/-
  GfsModel.OpsList — the `list` protocol operation (FindSequencesInList, C05).
-/
import GfsModel.OpsSeq
import GfsModel.ListSeqs
import GfsModel.SeqOps

namespace Gfs.Ops
open Gfs Gfs.Proto

/-- lexicographic order on byte strings, for canonical output -/
def bytesLt : Bytes → Bytes → Bool
  | [], [] => false
  | [], _ :: _ => true
  | _ :: _, [] => false
  | a :: as, b :: bs => if a.toNat < b.toNat then true else if a.toNat > b.toNat then false else bytesLt as bs

def insertBytes (x : Bytes) : List Bytes → List Bytes
  | [] => [x]
  | y :: ys => if bytesLt y x then y :: insertBytes x ys else x :: y :: ys

def sortBytes (l : List Bytes) : List Bytes := l.foldr insertBytes []

def parsePaths (s : String) : List Bytes :=
  if s = "~" then [] else (s.splitOn ",").map unhex

def optsOf (mask : Int) (st : PadStyle) : ListOpts :=
  { single := mask % 2 == 1, hidden := (mask / 2) % 2 == 1, style := st }

def seqLine (s : Seq) : Bytes := s.str ++ "|".toList ++ (toString s.zfill).toList ++ "|".toList ++ (toString s.len).toList

/-- all file paths a result denotes -/
def expandSeqs (l : List Seq) : List Bytes := l.flatMap Seq.paths

def totalLen (l : List Seq) : Int := l.foldl (fun a s => a + s.len) 0

/-- "is a numbered sequence": came out of a bucket, i.e. has a frame and a basename or extension -/
def isNumbered (s : Seq) : Bool := s.frameSet.isSome && !(s.base.isEmpty && s.ext.isEmpty)

def fileOf (p : Bytes) : Bytes := (pathSplit p).2

/-- per (dir, base, ext) key all frame tokens have one width -/
def uniformWidth (paths : List Bytes) : Bool :=
  let items := paths.map fun p =>
    let (d, f) := pathSplit (pathClean p)
    match optFrame f with
    | some (b, fr, e) => (d, b, e, fr.length)
    | none => (d, f, [], 0)
  items.all fun (d, b, e, w) => items.all fun (d', b', e', w') => !(d == d' && b == b' && e == e') || w == w'

def negZeroToken (p : Bytes) : Bool :=
  match optFrame (fileOf (pathClean p)) with
  | some (_, fr, _) => (match fr with | '-' :: zs => zs.all (· = '0') | _ => false)
  | none => false

/-- sort.Slice is not stable beyond 12 elements: when some directory holds more than 12
    paths the exact grouping is not compared (only the properties are) -/
def crowded (paths : List Bytes) : Bool :=
  let ds := paths.map fun p => (pathSplit (pathClean p)).1
  ds.any fun d => (ds.filter (· == d)).length > 12

def listObs (paths : List Bytes) (o : ListOpts) : Obs :=
  match findSequencesInList paths o with
  | .error _ => [("err", "err")]
  | .ok seqs =>
    let small := decide (totalLen seqs ≤ 3000)
    let noSingle := match findSequencesInList paths { o with single := false } with
      | .ok l => some (sortBytes (l.map seqLine))
      | .error _ => none
    let withSingle := match findSequencesInList paths { o with single := true } with
      | .ok l => some (sortBytes ((l.filter isNumbered).map seqLine))
      | .error _ => none
    let rev := match findSequencesInList paths.reverse o with
      | .ok l => some (sortBytes (l.map seqLine))
      | .error _ => none
    let cover := sortBytes (expandSeqs seqs)
    [ ("err", "ok"),
      ("seqs", if crowded paths then "skip" else hexList (sortBytes (seqs.map seqLine))),
      ("cover", if small then hexList cover else "big"),
      ("nosingle", showBool (noSingle == withSingle)),
      ("hiddenok", showBool (o.hidden || !small || cover.all (fun p => !isPrefixOf ['.'] (fileOf p)))),
      ("perm", if crowded paths then "skip" else showBool (rev == some (sortBytes (seqs.map seqLine)))) ]

def dispatchList : List String → Option (Obs × Option Obs)
  | ["list", mask, st, ps] =>
    let paths := parsePaths ps
    let o := optsOf (int! mask) (styleOf st)
    let m := listObs paths o
    let cleaned := paths.map pathClean
    let distinct := cleaned.eraseDups.length == cleaned.length
    let visible := if o.hidden then cleaned else cleaned.filter (fun p => !isPrefixOf ['.'] (fileOf p))
    let tame := !(paths.any negZeroToken)
    let sp : Obs :=
      [("err", "ok"), ("nosingle", "1"), ("hiddenok", "1")] ++
      (if !tame then [("~negzero", "1")] else []) ++
      (if o.single ∧ distinct ∧ visible.length ≤ 3000 then [("cover", hexList (sortBytes visible))] else []) ++
      (if uniformWidth paths ∧ distinct ∧ !crowded paths then [("perm", "1")] else [])
    some (m, some sp)
  | _ => none

end Gfs.Ops
