/-
  GfsModel.OpsDisk — protocol operations on directory descriptions (C06, C07).
-/
import GfsModel.OpsFuzz
import GfsModel.Disk

namespace Gfs.Ops
open Gfs Gfs.Proto

def kindOf (k : String) : EntryKind :=
  if k = "d" then .dir else if k = "l" ∨ k = "v" then .linkFile else if k = "L" then .linkDir
  else if k = "x" then .dangling else .file

def parseEntries (s : String) : List Entry :=
  if s = "~" then [] else
  (s.splitOn ",").map fun t =>
    match t.splitOn ":" with
    | [h, k] => ⟨unhex h, kindOf k⟩
    | _ => ⟨[], .file⟩

def nonDir (e : Entry) : Bool := e.kind == .file || e.kind == .linkFile

/-- digits, and a '-' directly in front of a digit, → 'D' -/
def shapeOf : Bytes → Bytes
  | [] => []
  | c :: r =>
    (if isDigit c then 'D'
     else if c == '-' && (match r with | d :: _ => isDigit d | [] => false) then 'D' else c) :: shapeOf r

/-- runs of 'D' collapsed -/
def collapseD : Bytes → Bytes
  | 'D' :: 'D' :: r => collapseD ('D' :: r)
  | c :: r => c :: collapseD r
  | [] => []

/-- Readdir order is arbitrary and the grouping of mixed digit widths depends on arrival
    order: when two names differ only in the length of a digit run the exact grouping is not
    compared (the cover still is). Conservative and computable identically on both sides. -/
def mixedShapes (names : List Bytes) : Bool :=
  names.any fun a => names.any fun b =>
    shapeOf a != shapeOf b && collapseD (shapeOf a) == collapseD (shapeOf b)

def seqsObs (seqs : List Seq) : Obs :=
  let small := decide (totalLen seqs ≤ 3000)
  [ ("seqs", hexList (sortBytes (seqs.map seqLine))),
    ("cover", if small then hexList (sortBytes (expandSeqs seqs)) else "big") ]

def dispatchDisk : List String → Option (Obs × Option Obs)
  | "disk.scan" :: mask :: st :: arg :: dirok :: ents :: _dirname =>
    let o := optsOf (int! mask) (styleOf st)
    let arg := unhex arg
    let entries := parseEntries ents
    let d : DirSpec := if dirok = "1" then some entries else none
    let lf : String := match listFiles d arg with
      | .ok l => if mixedShapes (entries.map (·.name)) then "skip" else hexList (sortBytes (l.map seqLine))
      | .error _ => "err"
    let pre := dirPrefix arg
    let m : Obs :=
      match findSequencesOnDisk d arg o with
      | .error _ => [("err", "err"), ("lf", lf)]
      | .ok seqs =>
        [("err", "ok")] ++
        (if mixedShapes (entries.map (·.name)) then (seqsObs seqs).filter (fun kv => kv.1 != "seqs") else seqsObs seqs) ++
        [("under", showBool ((expandSeqs seqs).all fun p => isPrefixOf pre p && !(p.drop pre.length).contains '/')),
         ("lf", lf)]
    let bad := dirok != "1" || entries.any (fun e => e.kind == .dangling)
    let names := (entries.filter nonDir).map (·.name)
    let visible := if o.hidden then names else names.filter (fun n => !isPrefixOf ['.'] n)
    let tame := !(names.any fun n => negZeroToken n)
    let sp : Obs :=
      if bad then [("err", "err"), ("lf", "err")]
      else [("err", "ok"), ("under", "1")] ++
        (if !tame then [("~negzero", "1")] else []) ++
        (if o.single then [("cover", hexList (sortBytes (visible.map (pre ++ ·))))] else [])
    some (m, some sp)
  | ["disk.root", _, _, _] =>
    -- the real "/" is not described to the model: only "every result lies directly under /"
    some ([("under", "1")], some [("under", "1")])
  | ["disk.find", st, omask, pat, dirok, ents] =>
    -- option mask: bit 0 StrictPadding, bit 1 SingleFiles (must not change a pattern lookup)
    let strict : String := if (int! omask) % 2 == 1 then "1" else "0"
    let st := styleOf st
    let pat := unhex pat
    let entries := parseEntries ents
    let lookup : Bytes → DirSpec := fun _ => if dirok = "1" then some entries else none
    let names := (entries.filter nonDir).map (·.name)
    -- specification side, completeness: the visible files <basename><frame number><ext> of the
    -- directory; a claim is made when they share one digit width, every number fits an int and
    -- none is a negative zero, and the lookup is not strict (`none` = no claim)
    let claim : Option (List Bytes) :=
      if dirok != "1" || entries.any (fun e => e.kind == .dangling) || strict = "1" ||
         mixedShapes (entries.map (·.name)) then none else
      match Seq.parse st pat with
      | .error _ => some []
      | .ok f =>
        let cands : List (Bytes × Bytes) := names.filterMap fun n =>
          if isPrefixOf ['.'] n then none
          else if isPrefixOf f.base n && isSuffixOf f.ext n && f.base.length + f.ext.length ≤ n.length then
            let tk := (n.drop f.base.length).take (n.length - f.base.length - f.ext.length)
            if (frameAt tk).map (·.2) == some [] then some (tk, f.dir ++ n) else none
          else none
        let odd := cands.any fun c =>
          (atoi c.1).isNone || (match c.1 with | '-' :: zs => zs.all (· = '0') | _ => false)
        if odd || (cands.map (·.1.length)).eraseDups.length > 1 || cands.length > 3000 then none
        else some (cands.map (·.2))
    let allS : Obs := match claim with
      | some [] => [("all", "-")]
      | some l => [("all", hexList (sortBytes l))]
      | none => []
    match findSequenceOnDisk lookup pat st (strict = "1") false with
    | .error _ => some ([("err", "err")], some (if dirok = "1" ∧ !entries.any (fun e => e.kind == .dangling) then [] else [("err", "err")]))
    | .ok none =>
      -- whatever the implementation returns instead must still be made of existing files of the
      -- pattern's basename / extension (vacuously true for "nothing")
      some ([("err", "ok"), ("found", "0"), ("be", "1"), ("exist", "1"), ("strictok", "1"), ("again", "1"), ("all", "-")],
            some ([("err", "ok"), ("be", "1"), ("exist", "1"), ("strictok", "1"), ("again", "1")] ++ allS))
    | .ok (some s) =>
      let ps := s.paths
      let pdir := match Seq.parse st pat with | .ok f => f.dir | .error _ => []
      let pbase := match Seq.parse st pat with | .ok f => f.base | .error _ => []
      let pext := match Seq.parse st pat with | .ok f => f.ext | .error _ => []
      let exist := ps.all fun p => names.any fun n => pdir ++ n == p
      let mixed := mixedShapes (entries.map (·.name))
      -- the recorded finding: a frame token that is a negative zero is re-printed as zeros
      let negz := names.any fun n =>
        isPrefixOf pbase n && isSuffixOf pext n && pbase.length + pext.length ≤ n.length &&
        (match (n.drop pbase.length).take (n.length - pbase.length - pext.length) with
         | '-' :: zs => !zs.isEmpty && zs.all (· = '0')
         | _ => false)
      let m : Obs :=
        [ ("err", "ok"), ("found", "1") ] ++
        (if mixed then [] else
          [ ("seq", hex (seqLine s)), ("paths", if s.len ≤ 3000 then hexList ps else "big") ]) ++
        [ ("be", showBool (s.base == pbase && s.ext == pext)),
          ("exist", showBool exist),
          ("strictok", showBool (strict != "1" ||
              (match Seq.parse st pat with
               | .ok f => f.pad.isEmpty || s.zfill == f.zfill
               | .error _ => true))),
          ("again", "1") ] ++
        (if mixed then [] else [("all", if s.len ≤ 3000 then hexList (sortBytes ps) else "big")])
      some (m, some ([("err", "ok"), ("be", "1"), ("exist", "1"), ("strictok", "1"), ("again", "1")] ++ allS ++ (if negz then [("~negzero", "1")] else [])))
  | _ => none

end Gfs.Ops
