/-
  GfsModel.Cpp — the places where the C++ port (/repo/cpp) is NOT a transliteration of the Go
  code and therefore gets a definition of its own (C19).  Everything else of the port
  (Range/Ranges arithmetic, handleMatch, framesToFrameRange, the regexes, the pad mapping,
  FileSequence::init) is modelled by the same Lean definitions as the Go code; that both
  implementations correspond to those definitions is what the C19 correspondence run checks.

  Differences modelled here:
    * comma splitting with `std::getline` (a trailing empty part is dropped, "" has no part);
    * `std::stol` throws outside `long` where Go's `strconv.Atoi` returns an error;
    * `FrameSet::isValid()` = "has at least one frame" (a range that parses but denotes no
      frame is an invalid FrameSet in C++, a valid empty one in Go);
    * `zfill(Frame, int)` through `setw / setfill / internal`;
    * `padFrameRange` re-prints the parsed numbers instead of padding the text;
    * `FileSequence::length()` is at least 1.
-/
import GfsModel.Pad
import GfsModel.Sequence
import GfsModel.Disk

namespace Gfs.Cpp

/-- `while (std::getline(ss, part, ','))`. -/
def splitGetline (sep : Char) (s : Bytes) : List Bytes :=
  let ps := splitOn sep s
  if ps.getLast? = some [] then ps.dropLast else ps

/-- what happened while a frame range text was matched part by part -/
inductive Outcome (α : Type) where
  | ok (a : α)
  | invalid            -- a Status error / an invalid object
  | exc                -- std::out_of_range from std::stol
  deriving Repr

def matchFits : Match → Bool
  | .single a => (atoi a).isSome
  | .range a b => (atoi a).isSome && (atoi b).isSome
  | .complex a b _ n => (atoi a).isSome && (atoi b).isSome && (atoi n).isSome

/-- `frameRangeMatches` of frameset_p.cpp: parts are matched in order; the first part that does
    not match ends with an error, the first numeral outside `long` with an exception. -/
def matchParts : List Bytes → Outcome (List Match)
  | [] => .ok []
  | p :: ps =>
    match matchPart p with
    | none => .invalid
    | some m =>
      if !matchFits m then .exc
      else match matchParts ps with
        | .ok ms => .ok (m :: ms)
        | .invalid => .invalid
        | .exc => .exc

def frameRangeMatches (s : Bytes) : Outcome (List Match) :=
  matchParts (splitGetline ',' (stripJunk s))

/-- a stepped part has a non-zero step -/
def stepOk : Match → Bool
  | .complex _ _ _ n => (atoi n) != some 0
  | _ => true

/-- `isFrameRange` of fileseq.cpp (with the zero-step test of the D6 fix). -/
def isFrameRange (s : Bytes) : Outcome Bool :=
  match frameRangeMatches s with
  | .ok ms => .ok (ms.all stepOk)
  | .invalid => .ok false
  | .exc => .exc

/-- `FrameSet::FrameSet(frange)`: valid iff every part was handled and at least one frame
    resulted. -/
def parse (s : Bytes) : Outcome FrameSet :=
  match frameRangeMatches s with
  | .exc => .exc
  | .invalid => .invalid
  | .ok ms =>
    match handleMatches [] ms with
    | .error _ => .invalid
    | .ok bl => if bl.len = 0 then .invalid else .ok ⟨s, bl⟩

/-- `zfill(Frame value, int z)`: `setfill('0') << setw(z) << internal << value` — the sign
    first, then zeros up to a total width of z, then the digits. -/
def zfill (v : Int) (z : Int) : Bytes :=
  let ds := natDigits v.natAbs
  let w := if v < 0 then ds.length + 1 else ds.length
  let fill := List.replicate (z.toNat - w) '0'
  if v < 0 then '-' :: (fill ++ ds) else fill ++ ds

def num (a : Bytes) : Int := (atoi a).getD 0

/-- one comma part of `padFrameRange` (pad.cpp): the parsed numbers are printed again -/
def padPart (pad : Int) (part : Bytes) : Bytes :=
  match matchPart part with
  | some (.single a) => zfill (num a) pad
  | some (.range a b) => zfill (num a) pad ++ '-' :: zfill (num b) pad
  | some (.complex a b m n) => zfill (num a) pad ++ '-' :: zfill (num b) pad ++ m :: itoa (num n)
  | none => part

/-- `padFrameRange(frange, pad)` for numerals within `long`. -/
def padFrameRange (frange : Bytes) (pad : Int) : Bytes :=
  if pad < 2 then frange
  else joinWith ',' ((splitGetline ',' frange).map (padPart pad))

/-- `FrameSet::frameRange(pad)` -/
def frameRangePadded (fs : FrameSet) (pad : Int) : Bytes :=
  if pad < 2 then fs.frange else padFrameRange fs.frange pad

/-- `FrameSet::inverted()`: the complement as a FrameSet; an empty complement is an invalid
    FrameSet whose string is "" -/
def invertedRange (fs : FrameSet) (pad : Int) : Bytes :=
  let r := (fs.blocks.normalized true).str
  if pad > 1 then padFrameRange r pad else r

/-- `FileSequence::length()` -/
def seqLen (s : Seq) : Int :=
  match s.frameSet with
  | some fs => if fs.len > 1 then fs.len else 1
  | none => 1

/-- `FileSequence::setDirname` (no backslash rule in the port) -/
def setDirname (s : Seq) (d : Bytes) : Seq :=
  { s with dir := if d.isEmpty || isSuffixOf ['/'] d then d else d ++ ['/'] }

/-- `FileSequence::setExt` (an empty extension stays empty in the port) -/
def setExt (s : Seq) (e : Bytes) : Seq :=
  { s with ext := if e.isEmpty || isPrefixOf ['.'] e then e else '.' :: e }

/-- what `findSequencesOnDisk` (fileseq.cpp) makes of one bucket of frames: the string
    `<dir><basename><range><pad><ext>` is built and given to the constructor; then — as repaired
    by the `fix:` commit 2e259d6 — when the pad is not empty the components found while scanning
    are forced, else the result is made frameless -/
def bucketSeq (st : PadStyle) (dir base frange pad ext : Bytes) : Except Err Seq :=
  match Seq.parse st (dir ++ base ++ frange ++ pad ++ ext) with
  | .error e => .error e
  | .ok s =>
    if pad.isEmpty then .ok (s.setFrameSet none)
    else .ok (((setExt ((setDirname s dir).setBasename base) ext).setPadding pad).setFrameRange frange).1

/-- … and of a file that goes to the single-files list: a FileSequence is constructed from the
    full path, then the directory (fix ae21c36), basename and extension found while scanning are
    forced; a file without a frame number is made frameless and pad-less -/
def singleSeq (st : PadStyle) (path dir base frame ext : Bytes) : Except Err Seq :=
  match Seq.parse st path with
  | .error e => .error e
  | .ok s =>
    let s1 := setExt ((setDirname s dir).setBasename base) ext
    if frame.isEmpty then .ok ((s1.setFrameSet none).setPadding [])
    else .ok (s1.setFrameRange frame).1

/-! ### The port's directory scan (`findSequencesOnDisk`, fileseq.cpp), without a template

  One pass over the directory entries sorts the names into buckets keyed by (basename, ext) —
  a `std::map`, whose iteration order the observation sorts away, so the buckets are kept here in
  first-seen order exactly as in the model of the Go scan — or, for names without a usable frame
  number, into the list of single files; a second pass turns every bucket into a sequence.
  `getSingleFrameMatch` is the same pattern as Go's `optionalFramePattern` (`optFrame`). -/

/-- `SeqInfo` of fileseq_p.h: the frames are kept as numbers only -/
structure CInfo where
  base : Bytes
  ext : Bytes
  frames : List Int          -- in arrival order
  minWidth : Nat
  padding : Bytes
  deriving Repr

/-- the `seqsMap.find(key)` / create / update step for one numbered name -/
def addFrame (st : PadStyle) (base ext frame : Bytes) : List CInfo → List CInfo
  | [] => [⟨base, ext, [num frame], frame.length, padChars st frame.length⟩]
  | b :: bs =>
    if b.base = base ∧ b.ext = ext then
      let b1 := { b with frames := b.frames ++ [num frame] }
      (if frame.length < b.minWidth then
         { b1 with minWidth := frame.length, padding := padChars st frame.length }
       else b1) :: bs
    else b :: addFrame st base ext frame bs

/-- the first pass over the directory entries. A sub-directory is skipped, then the hidden-file
    filter applies, then a symlink is followed: a dangling one ends the scan with an error, one
    to a directory is skipped. -/
def scanEntries (o : ListOpts) (root : Bytes) :
    List Entry → List CInfo → List Seq → Except Err (List CInfo × List Seq)
  | [], bs, files => .ok (bs, files)
  | e :: rest, bs, files =>
    if e.kind = .dir then scanEntries o root rest bs files
    else if !o.hidden ∧ isPrefixOf ['.'] e.name then scanEntries o root rest bs files
    else if e.kind = .dangling then .error .io
    else if e.kind = .linkDir then scanEntries o root rest bs files
    else
      let m := optFrame e.name
      let (base, frame, ext) := m.getD ([], [], [])
      let ok := m.isSome ∧ !frame.isEmpty ∧ !(base.isEmpty ∧ ext.isEmpty)
      if ok then scanEntries o root rest (addFrame o.style base ext frame bs) files
      else if o.single then
        match singleSeq o.style (root ++ e.name) root base frame ext with
        | .error err => .error err
        | .ok s => scanEntries o root rest bs (files ++ [s])
      else scanEntries o root rest bs files

/-- the digit test on the end of a basename that clears the pad of a one-frame bucket -/
def lastIsDigit (base : Bytes) : Bool :=
  if base.isEmpty then false else
  let pos := if isSuffixOf ['-'] base ∧ base.length ≥ 2 then 2 else 1
  match base.reverse.drop (pos - 1) with
  | c :: _ => isDigit c
  | [] => false

/-- the second pass, one bucket -/
def bucketOut (st : PadStyle) (root : Bytes) (b : CInfo) : Except Err Seq :=
  match b.frames with
  | [f] => bucketSeq st root b.base (itoa f) (if lastIsDigit b.base then [] else b.padding) b.ext
  | fs => bucketSeq st root b.base (framesToFrameRange fs true 0) b.padding b.ext

def bucketsOut (st : PadStyle) (root : Bytes) : List CInfo → Except Err (List Seq)
  | [] => .ok []
  | b :: bs =>
    match bucketOut st root b with
    | .error e => .error e
    | .ok s =>
      match bucketsOut st root bs with
      | .error e => .error e
      | .ok l => .ok (s :: l)

/-- `root`: the path with a separator appended unless it ends in one -/
def rootOf (path : Bytes) : Bytes :=
  if !path.isEmpty ∧ !isSuffixOf ['/'] path then path ++ ['/'] else path

/-- `findSequencesOnDisk(seqs, path, opts, style)`; `none` = opendir fails -/
def scan (d : DirSpec) (path : Bytes) (o : ListOpts) : Except Err (List Seq) :=
  match d with
  | none => .error .io
  | some entries =>
    match scanEntries o (rootOf path) entries [] [] with
    | .error e => .error e
    | .ok (bs, files) =>
      match bucketsOut o.style (rootOf path) bs with
      | .error e => .error e
      | .ok seqs => .ok (files ++ seqs)

/-! ### The pattern lookup (`findSequenceOnDisk`, fileseq.cpp)

  The pattern is parsed with the caller's style; the directory of the pattern is scanned with the
  pattern as a template — and with the DEFAULT options and the DEFAULT pad style, whatever the
  caller's style is; the first result with the pattern's basename and extension is switched to the
  caller's style and returned. -/

/-- the frame-number test of the template branch: an optional '-', one or more digits and nothing
    else, and no ERANGE from `strtol` -/
def isFrameTok (r : Bytes) : Bool :=
  let ds := match r with | '-' :: t => t | _ => r
  !ds.isEmpty && ds.all isDigit && (atoi r).isSome

/-- the first pass with a template: "glob" `<basename>*<ext>`, the middle must be a frame number -/
def scanT (o : ListOpts) (t : Seq) : List Entry → List CInfo → Except Err (List CInfo)
  | [], bs => .ok bs
  | e :: rest, bs =>
    if e.kind = .dir then scanT o t rest bs
    else if !o.hidden ∧ isPrefixOf ['.'] e.name then scanT o t rest bs
    else if e.kind = .dangling then .error .io
    else if e.kind = .linkDir then scanT o t rest bs
    else if isPrefixOf t.base e.name ∧ isSuffixOf t.ext e.name ∧
            t.base.length + t.ext.length ≤ e.name.length then
      let mid := (e.name.drop t.base.length).take (e.name.length - t.base.length - t.ext.length)
      if isFrameTok mid then scanT o t rest (addFrame o.style t.base t.ext mid bs)
      else scanT o t rest bs
    else scanT o t rest bs

/-- `findSequenceOnDisk(pattern, style, &status)`; `.ok none` = no match (also for a pattern the
    constructor rejects) -/
def find (lookup : Bytes → DirSpec) (pattern : Bytes) (st : PadStyle) : Except Err (Option Seq) :=
  match Seq.parse st pattern with
  | .error _ => .ok none
  | .ok fs =>
    match lookup (openDir fs.dir) with
    | none => .error .io
    | some entries =>
      match scanT { single := false, hidden := false, style := .hash4 } fs entries [] with
      | .error e => .error e
      | .ok bs =>
        -- (the results get the template's own directory, which may be empty)
        match bucketsOut .hash4 fs.dir bs with
        | .error e => .error e
        | .ok seqs =>
          .ok ((seqs.find? fun s => s.base = fs.base ∧ s.ext = fs.ext).map fun s => s.setPaddingStyle st)

end Gfs.Cpp
