/-
  GfsModel.Cpp — the places where the C++ port (/repo/cpp) is NOT a transliteration of the Go
  code and therefore gets a definition of its own (C19).  Everything else of the port
  (Range/Ranges arithmetic, handleMatch, framesToFrameRange, the regexes, the pad mapping,
  FileSequence::init) is modelled by the same Lean definitions as the Go code; that both
  implementations correspond to those definitions is what the C19 correspondence run checks.

  Differences modelled here:
    * comma splitting with `std::getline` (a trailing empty part is dropped, "" has no part);
    * `std::stol` throws outside `long` where Go's `strconv.Atoi` returns an error;
    * `FrameSet::isValid()` = "has at least one frame" (a range that parses but denotes no
      frame is an invalid FrameSet in C++, a valid empty one in Go);
    * `zfill(Frame, int)` through `setw / setfill / internal`;
    * `padFrameRange` re-prints the parsed numbers instead of padding the text;
    * `FileSequence::length()` is at least 1.
-/
import GfsModel.Pad
import GfsModel.Sequence

namespace Gfs.Cpp

/-- `while (std::getline(ss, part, ','))`. -/
def splitGetline (sep : Char) (s : Bytes) : List Bytes :=
  let ps := splitOn sep s
  if ps.getLast? = some [] then ps.dropLast else ps

/-- what happened while a frame range text was matched part by part -/
inductive Outcome (α : Type) where
  | ok (a : α)
  | invalid            -- a Status error / an invalid object
  | exc                -- std::out_of_range from std::stol
  deriving Repr

def matchFits : Match → Bool
  | .single a => (atoi a).isSome
  | .range a b => (atoi a).isSome && (atoi b).isSome
  | .complex a b _ n => (atoi a).isSome && (atoi b).isSome && (atoi n).isSome

/-- `frameRangeMatches` of frameset_p.cpp: parts are matched in order; the first part that does
    not match ends with an error, the first numeral outside `long` with an exception. -/
def matchParts : List Bytes → Outcome (List Match)
  | [] => .ok []
  | p :: ps =>
    match matchPart p with
    | none => .invalid
    | some m =>
      if !matchFits m then .exc
      else match matchParts ps with
        | .ok ms => .ok (m :: ms)
        | .invalid => .invalid
        | .exc => .exc

def frameRangeMatches (s : Bytes) : Outcome (List Match) :=
  matchParts (splitGetline ',' (stripJunk s))

/-- a stepped part has a non-zero step -/
def stepOk : Match → Bool
  | .complex _ _ _ n => (atoi n) != some 0
  | _ => true

/-- `isFrameRange` of fileseq.cpp (with the zero-step test of the D6 fix). -/
def isFrameRange (s : Bytes) : Outcome Bool :=
  match frameRangeMatches s with
  | .ok ms => .ok (ms.all stepOk)
  | .invalid => .ok false
  | .exc => .exc

/-- `FrameSet::FrameSet(frange)`: valid iff every part was handled and at least one frame
    resulted. -/
def parse (s : Bytes) : Outcome FrameSet :=
  match frameRangeMatches s with
  | .exc => .exc
  | .invalid => .invalid
  | .ok ms =>
    match handleMatches [] ms with
    | .error _ => .invalid
    | .ok bl => if bl.len = 0 then .invalid else .ok ⟨s, bl⟩

/-- `zfill(Frame value, int z)`: `setfill('0') << setw(z) << internal << value` — the sign
    first, then zeros up to a total width of z, then the digits. -/
def zfill (v : Int) (z : Int) : Bytes :=
  let ds := natDigits v.natAbs
  let w := if v < 0 then ds.length + 1 else ds.length
  let fill := List.replicate (z.toNat - w) '0'
  if v < 0 then '-' :: (fill ++ ds) else fill ++ ds

def num (a : Bytes) : Int := (atoi a).getD 0

/-- one comma part of `padFrameRange` (pad.cpp): the parsed numbers are printed again -/
def padPart (pad : Int) (part : Bytes) : Bytes :=
  match matchPart part with
  | some (.single a) => zfill (num a) pad
  | some (.range a b) => zfill (num a) pad ++ '-' :: zfill (num b) pad
  | some (.complex a b m n) => zfill (num a) pad ++ '-' :: zfill (num b) pad ++ m :: itoa (num n)
  | none => part

/-- `padFrameRange(frange, pad)` for numerals within `long`. -/
def padFrameRange (frange : Bytes) (pad : Int) : Bytes :=
  if pad < 2 then frange
  else joinWith ',' ((splitGetline ',' frange).map (padPart pad))

/-- `FrameSet::frameRange(pad)` -/
def frameRangePadded (fs : FrameSet) (pad : Int) : Bytes :=
  if pad < 2 then fs.frange else padFrameRange fs.frange pad

/-- `FrameSet::inverted()`: the complement as a FrameSet; an empty complement is an invalid
    FrameSet whose string is "" -/
def invertedRange (fs : FrameSet) (pad : Int) : Bytes :=
  let r := (fs.blocks.normalized true).str
  if pad > 1 then padFrameRange r pad else r

/-- `FileSequence::length()` -/
def seqLen (s : Seq) : Int :=
  match s.frameSet with
  | some fs => if fs.len > 1 then fs.len else 1
  | none => 1

/-- `FileSequence::setDirname` (no backslash rule in the port) -/
def setDirname (s : Seq) (d : Bytes) : Seq :=
  { s with dir := if d.isEmpty || isSuffixOf ['/'] d then d else d ++ ['/'] }

/-- `FileSequence::setExt` (an empty extension stays empty in the port) -/
def setExt (s : Seq) (e : Bytes) : Seq :=
  { s with ext := if e.isEmpty || isPrefixOf ['.'] e then e else '.' :: e }

/-- what `findSequencesOnDisk` (fileseq.cpp) makes of one bucket of frames: the string
    `<dir><basename><range><pad><ext>` is built and given to the constructor; then — as repaired
    by the `fix:` commit 2e259d6 — when the pad is not empty the components found while scanning
    are forced, else the result is made frameless -/
def bucketSeq (st : PadStyle) (dir base frange pad ext : Bytes) : Except Err Seq :=
  match Seq.parse st (dir ++ base ++ frange ++ pad ++ ext) with
  | .error e => .error e
  | .ok s =>
    if pad.isEmpty then .ok (s.setFrameSet none)
    else .ok (((setExt ((setDirname s dir).setBasename base) ext).setPadding pad).setFrameRange frange).1

/-- … and of a file that goes to the single-files list: a FileSequence is constructed from the
    full path, then the directory (fix ae21c36), basename and extension found while scanning are
    forced; a file without a frame number is made frameless and pad-less -/
def singleSeq (st : PadStyle) (path dir base frame ext : Bytes) : Except Err Seq :=
  match Seq.parse st path with
  | .error e => .error e
  | .ok s =>
    let s1 := setExt ((setDirname s dir).setBasename base) ext
    if frame.isEmpty then .ok ((s1.setFrameSet none).setPadding [])
    else .ok (s1.setFrameRange frame).1

end Gfs.Cpp
