/-
  gfsdriver — answers the line protocol with the model (M) and, where the op lies in a
  property's domain, with what the specification demands (S).

  One input line = one operation.  One output line:   M<TAB><obs><TAB>S<TAB><obs or ->
-/
import GfsModel.OpsAll

open Gfs Gfs.Proto

partial def loop (h : IO.FS.Stream) (out : IO.FS.Stream) : IO Unit := do
  let line ← h.getLine
  if line.isEmpty then return ()
  let l := (line.dropEndWhile (fun c => c == '\n' || c == '\r')).toString
  if l.isEmpty then loop h out else
  let (m, s) := Gfs.Ops.dispatch (l.splitOn " ")
  out.putStrLn ("M\t" ++ showObs m ++ "\tS\t" ++ (match s with | some o => showObs o | none => "-"))
  loop h out

def main : IO Unit := do
  let stdin ← IO.getStdin
  let stdout ← IO.getStdout
  loop stdin stdout
  stdout.flush
