/-
  GfsProofs.SeqinfoLemmas — seqinfo's result map: one entry per distinct pattern, independent
  of the order in which the concurrent parses finish (C18).
-/
import GfsModel.Seqinfo

namespace Gfs.Proofs
open Gfs Gfs.Seqinfo

/-! ### helper lemmas on `insertResult` -/

theorem map_orig_replace (m : List Result) (r : Result) :
    (m.map (fun x => if x.orig = r.orig then r else x)).map (·.orig) = m.map (·.orig) := by
  induction m with
  | nil => rfl
  | cons a t ih =>
    simp only [List.map_cons, ih]
    by_cases h : a.orig = r.orig
    · simp [h]
    · simp [h]

theorem any_orig_iff (m : List Result) (r : Result) :
    m.any (·.orig = r.orig) = true ↔ r.orig ∈ m.map (·.orig) := by
  simp only [List.any_eq_true, decide_eq_true_eq, List.mem_map]

theorem insert_keys_mem (m : List Result) (r : Result) (p : Bytes) :
    p ∈ (insertResult m r).map (·.orig) ↔ p ∈ m.map (·.orig) ∨ p = r.orig := by
  unfold insertResult
  split
  · rename_i h
    rw [map_orig_replace]
    constructor
    · exact Or.inl
    · rintro (h' | h')
      · exact h'
      · subst h'; exact (any_orig_iff m r).1 h
  · simp [List.map_append]

theorem insert_keys_nodup (m : List Result) (r : Result) (hm : (m.map (·.orig)).Nodup) :
    ((insertResult m r).map (·.orig)).Nodup := by
  unfold insertResult
  split
  · rw [map_orig_replace]; exact hm
  · rename_i h
    have hn : r.orig ∉ m.map (·.orig) := fun hc => h ((any_orig_iff m r).2 hc)
    rw [List.map_append, List.nodup_append]
    refine ⟨hm, by simp, ?_⟩
    intro a ha b hb
    simp at hb
    subst hb
    intro hab
    subst hab
    exact hn ha

theorem foldl_keys (rs : List Result) : ∀ (acc : List Result), (acc.map (·.orig)).Nodup →
    ((rs.foldl insertResult acc).map (·.orig)).Nodup ∧
    ∀ p, p ∈ (rs.foldl insertResult acc).map (·.orig) ↔
      p ∈ acc.map (·.orig) ∨ p ∈ rs.map (·.orig) := by
  induction rs with
  | nil => intro acc h; simp [h]
  | cons a t ih =>
    intro acc h
    simp only [List.foldl_cons]
    obtain ⟨h1, h2⟩ := ih (insertResult acc a) (insert_keys_nodup acc a h)
    refine ⟨h1, ?_⟩
    intro p
    rw [h2, insert_keys_mem, List.map_cons, List.mem_cons, or_assoc]

/-- the keys of the map are exactly the distinct patterns of the results -/
theorem collect_keys (rs : List Result) :
    ((collect rs).map (·.orig)).Nodup ∧
    ∀ p, p ∈ (collect rs).map (·.orig) ↔ p ∈ rs.map (·.orig) := by
  unfold collect
  obtain ⟨h1, h2⟩ := foldl_keys rs [] (by simp)
  refine ⟨h1, ?_⟩
  intro p
  rw [h2]
  simp

theorem insert_mem (m : List Result) (r : Result)
    (h : ∀ x ∈ m, x.orig = r.orig → x = r) (y : Result) :
    y ∈ insertResult m r ↔ y ∈ m ∨ y = r := by
  unfold insertResult
  split
  · rename_i hany
    have hmap : m.map (fun x => if x.orig = r.orig then r else x) = m := by
      conv => rhs; rw [← List.map_id m]
      apply List.map_congr_left
      intro x hx
      by_cases hx' : x.orig = r.orig
      · simp [h x hx hx']
      · simp [hx']
    rw [hmap]
    have hr : r ∈ m := by
      rw [List.any_eq_true] at hany
      obtain ⟨x, hx, hxe⟩ := hany
      have hxe' : x.orig = r.orig := by simpa using hxe
      rw [← h x hx hxe']; exact hx
    constructor
    · exact Or.inl
    · rintro (h' | h')
      · exact h'
      · subst h'; exact hr
  · simp

theorem foldl_mem (rs : List Result) : ∀ (acc : List Result),
    (∀ r ∈ acc ++ rs, ∀ r' ∈ acc ++ rs, r.orig = r'.orig → r = r') →
    ∀ y, y ∈ rs.foldl insertResult acc ↔ y ∈ acc ∨ y ∈ rs := by
  induction rs with
  | nil => intro acc _ y; simp
  | cons a t ih =>
    intro acc hfun y
    simp only [List.foldl_cons]
    have hins : ∀ z, z ∈ insertResult acc a ↔ z ∈ acc ∨ z = a := by
      intro z
      apply insert_mem
      intro x hx hxe
      exact hfun x (by simp [hx]) a (by simp) hxe
    have hfun' : ∀ r ∈ insertResult acc a ++ t, ∀ r' ∈ insertResult acc a ++ t,
        r.orig = r'.orig → r = r' := by
      intro r hr r' hr' he
      apply hfun r _ r' _ he
      · rw [List.mem_append, hins] at hr
        simp only [List.mem_append, List.mem_cons]
        rcases hr with (hr | hr) | hr
        · exact Or.inl hr
        · exact Or.inr (Or.inl hr)
        · exact Or.inr (Or.inr hr)
      · rw [List.mem_append, hins] at hr'
        simp only [List.mem_append, List.mem_cons]
        rcases hr' with (hr' | hr') | hr'
        · exact Or.inl hr'
        · exact Or.inr (Or.inl hr')
        · exact Or.inr (Or.inr hr')
    rw [ih (insertResult acc a) hfun' y, hins, List.mem_cons, or_assoc]

/-- when equal patterns have equal results (the result is a function of the pattern and the
    options), the entry of the map for a pattern is that result -/
theorem collect_entry (rs : List Result)
    (hfun : ∀ r ∈ rs, ∀ r' ∈ rs, r.orig = r'.orig → r = r') (r : Result) :
    r ∈ collect rs ↔ r ∈ rs := by
  unfold collect
  rw [foldl_mem rs [] (by simpa using hfun) r]
  simp

/-- the content of the map does not depend on the order in which results arrive -/
theorem collect_order_independent (rs rs' : List Result) (hp : List.Perm rs rs')
    (hfun : ∀ r ∈ rs, ∀ r' ∈ rs, r.orig = r'.orig → r = r') (r : Result) :
    r ∈ collect rs ↔ r ∈ collect rs' := by
  have hfun' : ∀ r ∈ rs', ∀ r' ∈ rs', r.orig = r'.orig → r = r' := by
    intro a ha b hb
    exact hfun a (hp.mem_iff.2 ha) b (hp.mem_iff.2 hb)
  rw [collect_entry rs hfun r, collect_entry rs' hfun' r]
  exact hp.mem_iff

/-- a pattern that fails to parse yields an entry carrying its error -/
theorem parse_error_entry (pat : Bytes) (o : Opts)
    (h : ∃ e, Seq.parse (if o.hash1 then PadStyle.hash1 else PadStyle.hash4) pat = .error e) :
    Seqinfo.parse pat o = some (errResult pat) := by
  obtain ⟨e, he⟩ := h
  unfold Seqinfo.parse
  simp only [he]

/-- every result carries the pattern it was computed from as its key -/
theorem parse_key (pat : Bytes) (o : Opts) (r : Result) (h : Seqinfo.parse pat o = some r) : r.orig = pat := by
  unfold Seqinfo.parse at h
  extract_lets st at h
  split at h
  · cases h; rfl
  · extract_lets fs1 at h
    clear_value fs1
    split at h
    · simp at h
    · cases h; rfl
    · extract_lets fa fb fc fd rq at h
      clear_value rq
      split at h
      · cases h; rfl
      · extract_lets fr fe ai at h
        clear_value ai
        split at h
        · cases h; rfl
        · extract_lets fq at h
          clear_value fq
          split at h
          · cases h; rfl
          · cases h; rfl

end Gfs.Proofs
