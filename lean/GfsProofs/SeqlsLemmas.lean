/-
  GfsProofs.SeqlsLemmas — the seqls channel pipeline prints every result exactly once,
  never deadlocks and always terminates, under every schedule (C17).
-/
import GfsModel.Seqls

namespace Gfs.Proofs.SeqlsP
open Gfs.Seqls

/- helpers ------------------------------------------------------------------ -/

/-- the lines a worker holds -/
def wlines : Worker → List Line
  | .holding _ _ ls => ls
  | _ => []

/-- a worker's contribution to `measure` -/
def wcost : Worker → Nat
  | .idle d s => (if d then 1 else 0) + (if s then 1 else 0) + 1
  | .holding d s _ => (if d then 1 else 0) + (if s then 1 else 0) + 2
  | .done => 0

theorem heldLines_eq (ws : List Worker) : heldLines ws = ws.flatMap wlines := by
  rfl

theorem measure_eq (st : State) :
    Seqls.measure st = 3 * (st.pendSeqs.length + st.pendDirs.length) +
      (if st.inputsClosed then 0 else 1) + (if st.outClosed then 0 else 1) +
      (st.workers.map wcost).sum := by
  rfl

theorem heldLines_nil : heldLines [] = [] := rfl

theorem heldLines_cons (a : Worker) (t : List Worker) :
    heldLines (a :: t) = wlines a ++ heldLines t := by
  simp [heldLines_eq]

theorem expectedLines_nil : expectedLines [] = [] := rfl

theorem expectedLines_cons (it : Item) (rest : List Item) :
    expectedLines (it :: rest) = it.result.getD [] ++ expectedLines rest := by
  simp [expectedLines]

theorem expectedLines_append (a b : List Item) :
    expectedLines (a ++ b) = expectedLines a ++ expectedLines b := by
  simp [expectedLines]

/-- replacing worker `i`: counts of held lines, stated additively -/
theorem heldLines_set_count (x : Line) (wold wnew : Worker) :
    ∀ (ws : List Worker) (i : Nat), ws[i]? = some wold →
      List.count x (wlines wold) + List.count x (heldLines (ws.set i wnew)) =
        List.count x (wlines wnew) + List.count x (heldLines ws)
  | [], i, h => by simp at h
  | a :: t, 0, h => by
      simp at h
      subst h
      simp [heldLines_cons, List.count_append]
      omega
  | a :: t, i + 1, h => by
      simp at h
      have ih := heldLines_set_count x wold wnew t i h
      simp [heldLines_cons, List.count_append]
      omega

/-- replacing worker `i`: held lines as a permutation -/
theorem heldLines_set_perm (wold wnew : Worker) (ws : List Worker) (i : Nat)
    (h : ws[i]? = some wold) :
    List.Perm (wlines wold ++ heldLines (ws.set i wnew)) (wlines wnew ++ heldLines ws) := by
  rw [List.perm_iff_count]
  intro x
  simpa [List.count_append] using heldLines_set_count x wold wnew ws i h

/-- replacing element `i`: the sum of a mapped list, stated additively -/
theorem sum_map_set {α : Type} (f : α → Nat) (a b : α) :
    ∀ (l : List α) (i : Nat), l[i]? = some a →
      (l.map f).sum + f b = ((l.set i b).map f).sum + f a
  | [], i, h => by simp at h
  | c :: t, 0, h => by
      simp at h
      subst h
      simp
      omega
  | c :: t, i + 1, h => by
      simp at h
      have ih := sum_map_set f a b t i h
      simp only [List.set_cons_succ, List.map_cons, List.sum_cons]
      omega

theorem wlines_afterRecv (d s : Bool) (it : Item) :
    wlines (afterRecv d s it) = it.result.getD [] := by
  unfold afterRecv
  cases it.result <;> rfl

theorem forall_mem_set {P : Worker → Prop} {ws : List Worker} {i : Nat} {x : Worker}
    (h : ∀ wk ∈ ws, P wk) (hx : P x) : ∀ wk ∈ ws.set i x, P wk := by
  intro wk hm
  rcases List.mem_or_eq_of_mem_set hm with hm | rfl
  · exact h wk hm
  · exact hx

/-- every list of workers: all done, or one is idle, or one is holding -/
theorem worker_cases : ∀ (ws : List Worker),
    (∀ wk ∈ ws, wk = Worker.done) ∨ (∃ (i : Nat) (d s : Bool), ws[i]? = some (Worker.idle d s)) ∨
      (∃ (i : Nat) (d s : Bool) (ls : List Line), ws[i]? = some (Worker.holding d s ls))
  | [] => Or.inl (by simp)
  | .idle d s :: t => Or.inr (Or.inl ⟨0, d, s, rfl⟩)
  | .holding d s ls :: t => Or.inr (Or.inr ⟨0, d, s, ls, rfl⟩)
  | .done :: t => by
      rcases worker_cases t with h | ⟨i, d, s, h⟩ | ⟨i, d, s, ls, h⟩
      · left
        intro wk hm
        rcases List.mem_cons.1 hm with rfl | hm
        · rfl
        · exact h wk hm
      · exact Or.inr (Or.inl ⟨i + 1, d, s, by simpa using h⟩)
      · exact Or.inr (Or.inr ⟨i + 1, d, s, ls, by simpa using h⟩)

/- the invariant -------------------------------------------------------------- -/

/-- while the inputs are open a worker has both local channel copies non-nil -/
def Worker.fresh : Worker → Prop
  | .idle d s => d = true ∧ s = true
  | .holding d s _ => d = true ∧ s = true
  | .done => False

/-- a worker that has nil-ed both copies has left the loop -/
def Worker.ok : Worker → Prop
  | .idle d s => d = true ∨ s = true
  | .holding d s _ => d = true ∨ s = true
  | .done => True

structure Inv (w : Nat) (st : State) : Prop where
  len : st.workers.length = w
  fresh : st.inputsClosed = false → ∀ wk ∈ st.workers, Worker.fresh wk
  closed : st.inputsClosed = true → st.pendSeqs = [] ∧ st.pendDirs = []
  ok : ∀ wk ∈ st.workers, Worker.ok wk
  outc : st.outClosed = true → ∀ wk ∈ st.workers, wk = .done

theorem fresh_afterRecv (it : Item) : Worker.fresh (afterRecv true true it) := by
  unfold afterRecv
  cases it.result <;> simp [Worker.fresh]

theorem ok_afterRecv_left (s : Bool) (it : Item) : Worker.ok (afterRecv true s it) := by
  unfold afterRecv
  cases it.result <;> simp [Worker.ok]

theorem ok_afterRecv_right (d : Bool) (it : Item) : Worker.ok (afterRecv d true it) := by
  unfold afterRecv
  cases it.result <;> simp [Worker.ok]

theorem inv_init (seqs dirs : List Item) (w : Nat) : Inv w (initState seqs dirs w) where
  len := by simp [initState]
  fresh := by
    intro _ wk hm
    simp [initState] at hm
    rw [hm.2]
    simp [Worker.fresh]
  closed := by simp [initState]
  ok := by
    intro wk hm
    simp [initState] at hm
    rw [hm.2]
    simp [Worker.ok]
  outc := by simp [initState]

/-- when the output is closed no worker is idle or holding, so no worker step is enabled -/
theorem outc_set {st : State} {i : Nat} {wold wnew : Worker}
    (houtc : st.outClosed = true → ∀ wk ∈ st.workers, wk = .done)
    (hi : st.workers[i]? = some wold) (hne : wold ≠ .done) :
    st.outClosed = true → ∀ wk ∈ st.workers.set i wnew, wk = .done := by
  intro hc
  exact absurd (houtc hc wold (List.mem_of_getElem? hi)) hne

theorem inv_step {w : Nat} {st st' : State} (hinv : Inv w st) (h : Step st st') : Inv w st' := by
  obtain ⟨hlen, hfresh, hclosed, hok, houtc⟩ := hinv
  cases h with
  | sendSeq i it rest d hp hi =>
      refine ⟨by simpa using hlen, ?_, ?_, ?_, ?_⟩
      · intro hc
        have hf := hfresh hc _ (List.mem_of_getElem? hi)
        simp [Worker.fresh] at hf
        subst hf
        exact forall_mem_set (hfresh hc) (fresh_afterRecv it)
      · intro hc
        have := (hclosed hc).1
        simp [hp] at this
      · exact forall_mem_set hok (ok_afterRecv_right d it)
      · exact outc_set houtc hi (by simp)
  | sendDir i it rest s hps hp hi =>
      refine ⟨by simpa using hlen, ?_, ?_, ?_, ?_⟩
      · intro hc
        have hf := hfresh hc _ (List.mem_of_getElem? hi)
        simp [Worker.fresh] at hf
        subst hf
        exact forall_mem_set (hfresh hc) (fresh_afterRecv it)
      · intro hc
        have := (hclosed hc).2
        simp [hp] at this
      · exact forall_mem_set hok (ok_afterRecv_left s it)
      · exact outc_set houtc hi (by simp)
  | closeInputs hps hpd hc =>
      refine ⟨hlen, ?_, ?_, hok, houtc⟩
      · intro h; simp at h
      · intro _; exact ⟨hps, hpd⟩
  | seeDirsClosed i s hc hi =>
      refine ⟨by simpa using hlen, ?_, hclosed, ?_, ?_⟩
      · intro h; simp [hc] at h
      · apply forall_mem_set hok
        cases s <;> simp [Worker.ok]
      · exact outc_set houtc hi (by simp)
  | seeSeqsClosed i d hc hi =>
      refine ⟨by simpa using hlen, ?_, hclosed, ?_, ?_⟩
      · intro h; simp [hc] at h
      · apply forall_mem_set hok
        cases d <;> simp [Worker.ok]
      · exact outc_set houtc hi (by simp)
  | emit i d s ls hi ho =>
      refine ⟨by simpa using hlen, ?_, hclosed, ?_, ?_⟩
      · intro hc
        have hf := hfresh hc _ (List.mem_of_getElem? hi)
        exact forall_mem_set (hfresh hc) (by simpa [Worker.fresh] using hf)
      · have ho' := hok _ (List.mem_of_getElem? hi)
        exact forall_mem_set hok (by simpa [Worker.ok] using ho')
      · exact outc_set houtc hi (by simp)
  | closeOutput hall ho =>
      exact ⟨hlen, hfresh, hclosed, hok, fun _ => hall⟩

theorem inv_reach (seqs dirs : List Item) (w : Nat) (st : State) (h : Reach seqs dirs w st) :
    Inv w st := by
  induction h with
  | init => exact inv_init seqs dirs w
  | step _ hs ih => exact inv_step ih hs

/- the theorems ---------------------------------------------------------------- -/

/-- one step preserves the multiset printed + held + still to be sent -/
theorem step_conserves {st st' : State} (h : Step st st') :
    List.Perm (st'.printed ++ heldLines st'.workers ++ expectedLines (st'.pendSeqs ++ st'.pendDirs))
      (st.printed ++ heldLines st.workers ++ expectedLines (st.pendSeqs ++ st.pendDirs)) := by
  cases h with
  | sendSeq i it rest d hp hi =>
      rw [List.perm_iff_count]
      intro x
      have hc := heldLines_set_count x _ (afterRecv d true it) _ i hi
      rw [wlines_afterRecv] at hc
      simp only [wlines, List.count_nil, Nat.zero_add] at hc
      simp only [hp, List.cons_append, expectedLines_cons, List.count_append]
      omega
  | sendDir i it rest s hps hp hi =>
      rw [List.perm_iff_count]
      intro x
      have hc := heldLines_set_count x _ (afterRecv true s it) _ i hi
      rw [wlines_afterRecv] at hc
      simp only [wlines, List.count_nil, Nat.zero_add] at hc
      simp only [hps, hp, List.nil_append, expectedLines_cons, List.count_append]
      omega
  | closeInputs hps hpd hc => exact List.Perm.refl _
  | seeDirsClosed i s hc hi =>
      rw [List.perm_iff_count]
      intro x
      have hc := heldLines_set_count x _ (if s then Worker.idle false true else Worker.done) _ i hi
      cases s <;> simp [wlines] at hc <;> simp [List.count_append, hc]
  | seeSeqsClosed i d hc hi =>
      rw [List.perm_iff_count]
      intro x
      have hc := heldLines_set_count x _ (if d then Worker.idle true false else Worker.done) _ i hi
      cases d <;> simp [wlines] at hc <;> simp [List.count_append, hc]
  | emit i d s ls hi ho =>
      rw [List.perm_iff_count]
      intro x
      have hc := heldLines_set_count x _ (Worker.idle d s) _ i hi
      simp only [wlines, List.count_nil, Nat.zero_add] at hc
      simp only [List.count_append]
      omega
  | closeOutput hall ho => exact List.Perm.refl _

/-- conservation: what has been printed, what workers hold, and what the unsent items will
    yield together are a permutation of everything the items yield -/
theorem conservation (seqs dirs : List Item) (w : Nat) (st : State) (h : Reach seqs dirs w st) :
    List.Perm (st.printed ++ heldLines st.workers ++ expectedLines (st.pendSeqs ++ st.pendDirs))
      (expectedLines (seqs ++ dirs)) := by
  induction h with
  | init =>
      have : heldLines (List.replicate w (Worker.idle true true)) = [] := by
        induction w with
        | zero => rfl
        | succ n ih => simp [List.replicate_succ, heldLines_cons, wlines, ih]
      simp [initState, this]
  | step _ hs ih => exact (step_conserves hs).trans ih

set_option linter.unusedVariables false in
/-- no deadlock: with at least one worker, every reachable state that is not final has an
    enabled step -/
theorem no_deadlock (seqs dirs : List Item) (w : Nat) (hw : 1 ≤ w) (st : State)
    (h : Reach seqs dirs w st) (hnf : ¬ Final st) : ∃ st', Step st st' := by
  have hinv := inv_reach seqs dirs w st h
  have ho : st.outClosed = false := by
    unfold Final at hnf
    cases hoc : st.outClosed
    · rfl
    · exact absurd hoc hnf
  rcases worker_cases st.workers with hall | ⟨i, d, s, hi⟩ | ⟨i, d, s, ls, hi⟩
  · exact ⟨_, Step.closeOutput st hall ho⟩
  · cases hc : st.inputsClosed
    · have hf := hinv.fresh hc _ (List.mem_of_getElem? hi)
      simp [Worker.fresh] at hf
      obtain ⟨rfl, rfl⟩ := hf
      cases hps : st.pendSeqs with
      | cons it rest => exact ⟨_, Step.sendSeq st i it rest true hps hi⟩
      | nil =>
          cases hpd : st.pendDirs with
          | cons it rest => exact ⟨_, Step.sendDir st i it rest true hps hpd hi⟩
          | nil => exact ⟨_, Step.closeInputs st hps hpd hc⟩
    · have hk := hinv.ok _ (List.mem_of_getElem? hi)
      simp [Worker.ok] at hk
      rcases hk with rfl | rfl
      · exact ⟨_, Step.seeDirsClosed st i s hc hi⟩
      · exact ⟨_, Step.seeSeqsClosed st i d hc hi⟩
  · exact ⟨_, Step.emit st i d s ls hi ho⟩

/-- termination: every step strictly decreases the measure, so every run is finite -/
theorem measure_decreases (st st' : State) (h : Step st st') : measure st' < measure st := by
  rw [measure_eq, measure_eq]
  cases h with
  | sendSeq i it rest d hp hi =>
      have hs := sum_map_set wcost _ (afterRecv d true it) _ i hi
      have hb : wcost (afterRecv d true it) ≤ wcost (Worker.idle d true) + 1 := by
        unfold afterRecv
        cases it.result <;> simp [wcost] <;> omega
      simp only [hp, List.length_cons]
      omega
  | sendDir i it rest s hps hp hi =>
      have hs := sum_map_set wcost _ (afterRecv true s it) _ i hi
      have hb : wcost (afterRecv true s it) ≤ wcost (Worker.idle true s) + 1 := by
        unfold afterRecv
        cases it.result <;> simp [wcost] <;> omega
      simp only [hp, List.length_cons]
      omega
  | closeInputs hps hpd hc => simp [hc]
  | seeDirsClosed i s hc hi =>
      have hs := sum_map_set wcost _ (if s then Worker.idle false true else Worker.done) _ i hi
      cases s <;> simp [wcost] at hs ⊢ <;> omega
  | seeSeqsClosed i d hc hi =>
      have hs := sum_map_set wcost _ (if d then Worker.idle true false else Worker.done) _ i hi
      cases d <;> simp [wcost] at hs ⊢ <;> omega
  | emit i d s ls hi ho =>
      have hs := sum_map_set wcost _ (Worker.idle d s) _ i hi
      simp only [wcost] at hs
      simp only
      omega
  | closeOutput hall ho => simp [ho]

/-- nothing is ever sent on a closed channel: inputs are closed only after everything was
    sent, the output is closed only after every worker is done (holds nothing) -/
theorem no_send_on_closed (seqs dirs : List Item) (w : Nat) (st : State) (h : Reach seqs dirs w st) :
    (st.inputsClosed = true → st.pendSeqs = [] ∧ st.pendDirs = []) ∧
    (st.outClosed = true → ∀ wk ∈ st.workers, wk = .done) :=
  have hinv := inv_reach seqs dirs w st h
  ⟨hinv.closed, hinv.outc⟩

theorem heldLines_all_done : ∀ (ws : List Worker), (∀ wk ∈ ws, wk = .done) → heldLines ws = []
  | [], _ => rfl
  | a :: t, h => by
      have ha : a = .done := h a (by simp)
      have ht := heldLines_all_done t (fun wk hm => h wk (by simp [hm]))
      simp [heldLines_cons, ha, wlines, ht]

/-- `final_output` with the (necessary) hypothesis that there is at least one worker -/
theorem final_output_of_pos (seqs dirs : List Item) (w : Nat) (hw : 1 ≤ w) (st : State)
    (h : Reach seqs dirs w st) (hf : Final st) :
    List.Perm st.printed (expectedLines (seqs ++ dirs)) := by
  have hinv := inv_reach seqs dirs w st h
  have hall := hinv.outc hf
  have hheld := heldLines_all_done _ hall
  have hclosed : st.inputsClosed = true := by
    cases hc : st.inputsClosed
    · exfalso
      have hlen := hinv.len
      cases hws : st.workers with
      | nil => simp [hws] at hlen; omega
      | cons a t =>
          have hm : a ∈ st.workers := by simp [hws]
          have hfr := hinv.fresh hc a hm
          rw [hall a hm] at hfr
          exact hfr
    · rfl
  obtain ⟨hps, hpd⟩ := hinv.closed hclosed
  have hcons := conservation seqs dirs w st h
  simpa [hheld, hps, hpd, expectedLines_nil] using hcons

/-- without workers the closer may close the output at once: `final_output` as stated (no
    `1 ≤ w` hypothesis) is false.  Trace: `initState [it] [] 0`, then `Step.closeOutput`. -/
theorem final_output_false_for_zero_workers :
    ¬ ∀ (seqs dirs : List Item) (w : Nat) (st : State), Reach seqs dirs w st → Final st →
        List.Perm st.printed (expectedLines (seqs ++ dirs)) := by
  intro hall
  let it : Item := ⟨false, some [[]]⟩
  have hr : Reach [it] [] 0 { initState [it] [] 0 with outClosed := true } :=
    Reach.step Reach.init (Step.closeOutput _ (by simp [initState]) rfl)
  have hp := hall [it] [] 0 _ hr rfl
  simp [initState, expectedLines, it] at hp

/- `final_output` without `1 ≤ w` is false (zero workers): see `final_output_false_for_zero_workers`;
   the repaired statement is `final_output_of_pos`. -/

/-- an item that yields nothing (bad argument) does not change what the others print -/
theorem bad_item_isolated (seqs dirs : List Item) (bad : Item) (hb : bad.result = none) :
    expectedLines (seqs ++ bad :: dirs) = expectedLines (seqs ++ dirs) ∧
    expectedLines (bad :: seqs ++ dirs) = expectedLines (seqs ++ dirs) := by
  constructor
  · simp [expectedLines_append, expectedLines_cons, hb]
  · simp [expectedLines_append, expectedLines_cons, hb]

end Gfs.Proofs.SeqlsP
