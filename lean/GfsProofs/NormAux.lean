/-
  GfsProofs.NormAux — helper lemmas for `normalized`: the loop invariant, ascending lists,
  the spec functions `sortedSet` / `up`.
-/
import GfsModel.Ranges
import GfsSpec.Enum
import GfsSpec.WF
import GfsProofs.BlocksLemmas

namespace Gfs.Proofs
open Gfs Gfs.Spec

/-! ### strictly ascending lists -/

theorem asc_ext : ∀ (l1 l2 : List Int), l1.Pairwise (· < ·) → l2.Pairwise (· < ·) →
    (∀ v, v ∈ l1 ↔ v ∈ l2) → l1 = l2
  | [], [], _, _, _ => rfl
  | [], y :: ys, _, _, h => by have := (h y).mpr List.mem_cons_self; simp at this
  | x :: xs, [], _, _, h => by have := (h x).mp List.mem_cons_self; simp at this
  | x :: xs, y :: ys, h1, h2, h => by
    rw [List.pairwise_cons] at h1 h2
    have hxy : x = y := by
      have hx := (h x).mp List.mem_cons_self
      have hy := (h y).mpr List.mem_cons_self
      rcases List.mem_cons.mp hx with hx | hx
      · exact hx
      · rcases List.mem_cons.mp hy with hy | hy
        · exact hy.symm
        · have := h1.1 y hy
          have := h2.1 x hx
          omega
    subst hxy
    congr 1
    apply asc_ext xs ys h1.2 h2.2
    intro v
    constructor
    · intro hv
      have := (h v).mp (List.mem_cons_of_mem _ hv)
      rcases List.mem_cons.mp this with hv' | hv'
      · have := h1.1 v hv; omega
      · exact hv'
    · intro hv
      have := (h v).mpr (List.mem_cons_of_mem _ hv)
      rcases List.mem_cons.mp this with hv' | hv'
      · have := h2.1 v hv; omega
      · exact hv'

theorem asc_nodup (l : List Int) (h : l.Pairwise (· < ·)) : l.Nodup := by
  unfold List.Nodup
  exact h.imp (fun hab => by omega)

/-! ### sortedSet -/

theorem mem_insertSorted (x v : Int) (l : List Int) :
    v ∈ insertSorted x l ↔ v = x ∨ v ∈ l := by
  induction l with
  | nil => simp [insertSorted]
  | cons y ys ih =>
    unfold insertSorted
    split
    · simp
    · split
      · subst_vars; simp
      · simp [ih]
        constructor
        · rintro (h | h | h) <;> simp [h]
        · rintro (h | h | h) <;> simp [h]

theorem insertSorted_asc (x : Int) (l : List Int) (h : l.Pairwise (· < ·)) :
    (insertSorted x l).Pairwise (· < ·) := by
  induction l with
  | nil => simp [insertSorted]
  | cons y ys ih =>
    unfold insertSorted
    rw [List.pairwise_cons] at h
    split
    · rw [List.pairwise_cons, List.pairwise_cons]
      refine ⟨?_, h⟩
      intro v hv
      rcases List.mem_cons.mp hv with rfl | hv
      · assumption
      · have := h.1 v hv; omega
    · split
      · exact List.pairwise_cons.mpr h
      · rw [List.pairwise_cons]
        refine ⟨?_, ih h.2⟩
        intro v hv
        rcases (mem_insertSorted x v ys).mp hv with rfl | hv
        · omega
        · exact h.1 v hv

theorem mem_sortedSet' (L : List Int) (v : Int) : v ∈ sortedSet L ↔ v ∈ L := by
  induction L with
  | nil => simp [sortedSet]
  | cons x xs ih =>
    have : sortedSet (x :: xs) = insertSorted x (sortedSet xs) := rfl
    rw [this, mem_insertSorted, ih]; simp

theorem sortedSet_asc (L : List Int) : (sortedSet L).Pairwise (· < ·) := by
  induction L with
  | nil => simp [sortedSet]
  | cons x xs ih =>
    have : sortedSet (x :: xs) = insertSorted x (sortedSet xs) := rfl
    rw [this]; exact insertSorted_asc x _ ih

/-! ### `up … 1` -/

theorem up_one (a b : Int) :
    ∃ N : Nat, up a b 1 = (List.range N).map (fun (k : Nat) => a + (k : Int)) ∧
      (∀ v, v ∈ up a b 1 ↔ a ≤ v ∧ v ≤ b) := by
  refine ⟨if a ≤ b then ((b - a) / 1).toNat + 1 else 0, ?_, ?_⟩
  · rw [up_closed a b 1 (by omega)]
    apply List.map_congr_left
    intro k _; omega
  · intro v
    rw [up_closed a b 1 (by omega), List.mem_map]
    constructor
    · rintro ⟨k, hk, rfl⟩
      rw [List.mem_range] at hk
      split at hk
      · rw [Int.ediv_one] at hk; omega
      · omega
    · rintro ⟨h1, h2⟩
      refine ⟨(v - a).toNat, ?_, by omega⟩
      rw [List.mem_range, if_pos (by omega), Int.ediv_one]; omega

theorem map_add_asc (a : Int) (N : Nat) :
    ((List.range N).map (fun (k : Nat) => a + (k : Int))).Pairwise (· < ·) := by
  rw [List.pairwise_map]
  exact List.pairwise_lt_range.imp (fun h => by omega)

theorem up_one_asc (a b : Int) : (up a b 1).Pairwise (· < ·) := by
  obtain ⟨N, h, _⟩ := up_one a b
  rw [h]; exact map_add_asc a N

/-! ### WF from ascending enumeration -/

theorem wf_of_nodup (bl : Blocks) (hws : ∀ r ∈ bl, WellSigned r) (hnd : (blocksEnum bl).Nodup) :
    WF bl := by
  refine ⟨hws, ?_⟩
  induction bl with
  | nil => exact List.Pairwise.nil
  | cons b bs ih =>
    rw [blocksEnum_cons, List.nodup_append] at hnd
    rw [List.pairwise_cons]
    refine ⟨?_, ih (fun r hr => hws r (List.mem_cons_of_mem _ hr)) hnd.2.1⟩
    intro r hr v hv hv'
    exact hnd.2.2 v hv v (mem_blocksEnum.mpr ⟨r, hr, hv'⟩) rfl

/-! ### the loop -/

/-- the wanted values among the first `n` examined ones `a, a+1, …` -/
def wantedUpTo (skip : Int → Bool) (a : Int) (n : Nat) : List Int :=
  ((List.range n).map (fun (k : Nat) => a + (k : Int))).filter (fun v => !skip v)

theorem wantedUpTo_succ (skip : Int → Bool) (a : Int) (n : Nat) :
    wantedUpTo skip a (n + 1) =
      wantedUpTo skip a n ++ (if skip (a + (n : Int)) = true then [] else [a + (n : Int)]) := by
  unfold wantedUpTo
  rw [List.range_succ, List.map_append, List.filter_append]
  congr 1
  by_cases h : skip (a + (n : Int)) = true <;> simp [h]

/-- the pending run `s, s+st, …, s+st*d` -/
def prun (s st : Int) (d : Nat) : List Int :=
  (List.range (d + 1)).map (fun (k : Nat) => s + st * (k : Int))

theorem prun_zero (s st : Int) : prun s st 0 = [s] := by simp [prun]

theorem prun_succ (s st : Int) (d : Nat) :
    prun s st (d + 1) = prun s st d ++ [s + st * ((d : Int) + 1)] := by
  unfold prun
  rw [List.range_succ (n := d + 1), List.map_append]
  simp

theorem emit_spec (s st : Int) (d : Nat) (hst : 0 < st) :
    WellSigned (mkRng s (s + st * (d : Int)) st) ∧
    rngEnum (mkRng s (s + st * (d : Int)) st) = prun s st d := by
  have hne : st ≠ 0 := by omega
  have hmd : 0 ≤ st * (d : Int) := Int.mul_nonneg (by omega) (by omega)
  constructor
  · unfold WellSigned mkRng
    simp only [if_neg hne]
    left; omega
  · unfold rngEnum mkRng
    simp only [if_neg hne]
    have : (st.natAbs : Int) = st := by omega
    rw [this, enum_prog s st st hst (Or.inl rfl) d]
    rfl

/-- loop invariant of `normalized` before examining `a + n` -/
def NInv (skip : Int → Bool) (a : Int) (n : Nat) (σ : Blocks.NState) : Prop :=
  (∀ r ∈ σ.out, WellSigned r) ∧
  ((σ.pending = 0 ∧ blocksEnum σ.out = wantedUpTo skip a n) ∨
   (∃ d : Nat, σ.pending = d + 1 ∧ 0 < σ.step ∧ σ.stop = σ.start + σ.step * (d : Int) ∧
      blocksEnum σ.out ++ prun σ.start σ.step d = wantedUpTo skip a n ∧
      (d = 0 → σ.step = a + (n : Int) - σ.stop) ∧
      (0 < d → (a + (n : Int) = σ.stop + 1 ∨ (a + (n : Int) = σ.stop + 2 ∧ σ.step = 2)))))


theorem ws_append (out : Blocks) (r : Rng) (h : ∀ x ∈ out, WellSigned x) (hr : WellSigned r) :
    ∀ x ∈ out ++ [r], WellSigned x := by
  intro x hx
  rcases List.mem_append.mp hx with hx | hx
  · exact h x hx
  · rw [List.mem_singleton.mp hx]; exact hr

section
variable (skip : Int → Bool) (out : Blocks) (start stop step cur : Int) (pending : Nat)

theorem nStep_skip_lt (hs : skip cur = true) (hp : pending < 2) :
    Blocks.nStep skip ⟨out, start, stop, step, pending⟩ cur = ⟨out, start, stop, step + 1, pending⟩ := by
  simp [Blocks.nStep, hs, hp]

theorem nStep_skip_emit (hs : skip cur = true) (hp : 2 ≤ pending) (hc : cur + 1 - stop ≠ step) :
    Blocks.nStep skip ⟨out, start, stop, step, pending⟩ cur
      = ⟨out ++ [mkRng start stop step], cur, stop, 1, 0⟩ := by
  have : ¬ pending < 2 := by omega
  simp [Blocks.nStep, hs, this, hc]

theorem nStep_skip_keep (hs : skip cur = true) (hp : 2 ≤ pending) (hc : cur + 1 - stop = step) :
    Blocks.nStep skip ⟨out, start, stop, step, pending⟩ cur = ⟨out, start, stop, step, pending⟩ := by
  have : ¬ pending < 2 := by omega
  simp [Blocks.nStep, hs, this, hc]

theorem nStep_want_zero (hs : ¬ skip cur = true) :
    Blocks.nStep skip ⟨out, start, stop, step, 0⟩ cur = ⟨out, cur, cur, 1, 1⟩ := by
  simp [Blocks.nStep, hs]

theorem nStep_want_one (hs : ¬ skip cur = true) :
    Blocks.nStep skip ⟨out, start, stop, step, 1⟩ cur = ⟨out, start, cur, step, 2⟩ := by
  simp [Blocks.nStep, hs]

theorem nStep_want_emit (hs : ¬ skip cur = true) (hp : 2 ≤ pending) (hc : cur - stop ≠ step) :
    Blocks.nStep skip ⟨out, start, stop, step, pending⟩ cur
      = ⟨out ++ [mkRng start stop step], cur, cur, 1, 1⟩ := by
  simp [Blocks.nStep, hs, hp, hc]

theorem nStep_want_ext (hs : ¬ skip cur = true) (hp : 2 ≤ pending) (hc : cur - stop = step) :
    Blocks.nStep skip ⟨out, start, stop, step, pending⟩ cur
      = ⟨out, start, cur, step, pending + 1⟩ := by
  have : pending ≠ 0 := by omega
  simp [Blocks.nStep, hs, hc, this]
end

theorem nInv_step (skip : Int → Bool) (a : Int) (n : Nat) (σ : Blocks.NState)
    (h : NInv skip a n σ) : NInv skip a (n + 1) (Blocks.nStep skip σ (a + (n : Int))) := by
  obtain ⟨out, start, stop, step, pending⟩ := σ
  obtain ⟨hws, hcase⟩ := h
  simp only at hws hcase
  have hcast : a + ((n + 1 : Nat) : Int) = a + (n : Int) + 1 := by omega
  unfold NInv
  rw [wantedUpTo_succ, hcast]
  by_cases hsk : skip (a + (n : Int)) = true
  · rw [if_pos hsk, List.append_nil]
    rcases hcase with ⟨hp, hE⟩ | ⟨d, hp, hst, hstop, hE, h0, h1⟩
    · subst hp
      rw [nStep_skip_lt _ _ _ _ _ _ _ hsk (by omega)]
      exact ⟨hws, Or.inl ⟨rfl, hE⟩⟩
    · subst hp
      by_cases hd : d = 0
      · subst hd
        rw [nStep_skip_lt _ _ _ _ _ _ _ hsk (by omega)]
        refine ⟨hws, Or.inr ⟨0, rfl, by simp only; omega, by simpa using hstop, ?_, ?_, ?_⟩⟩
        · rw [prun_zero] at hE ⊢; exact hE
        · intro _; have := h0 rfl; simp only; omega
        · intro h; omega
      · have h1' := h1 (by omega)
        by_cases hc : a + (n : Int) + 1 - stop = step
        · rw [nStep_skip_keep _ _ _ _ _ _ _ hsk (by omega) hc]
          refine ⟨hws, Or.inr ⟨d, rfl, hst, hstop, hE, by omega, ?_⟩⟩
          intro _; simp only; omega
        · rw [nStep_skip_emit _ _ _ _ _ _ _ hsk (by omega) hc]
          obtain ⟨e1, e2⟩ := emit_spec start step d hst
          rw [← hstop] at e1 e2
          refine ⟨ws_append _ _ hws e1, Or.inl ⟨rfl, ?_⟩⟩
          simp only
          rw [blocksEnum_append, blocksEnum_cons, blocksEnum_nil, List.append_nil, e2]
          exact hE
  · rw [if_neg hsk]
    rcases hcase with ⟨hp, hE⟩ | ⟨d, hp, hst, hstop, hE, h0, h1⟩
    · subst hp
      rw [nStep_want_zero _ _ _ _ _ _ hsk]
      refine ⟨hws, Or.inr ⟨0, rfl, by simp, by simp, ?_, ?_, ?_⟩⟩
      · simp only; rw [prun_zero, hE]
      · intro _; simp only; omega
      · intro h; omega
    · subst hp
      by_cases hd : d = 0
      · subst hd
        have h0' := h0 rfl
        rw [nStep_want_one _ _ _ _ _ _ hsk]
        refine ⟨hws, Or.inr ⟨1, rfl, hst, ?_, ?_, ?_, ?_⟩⟩
        · simp only at hstop ⊢; omega
        · have hss : stop = start := by simpa using hstop
          rw [prun_succ, ← List.append_assoc, hE]
          congr 2
          simp; omega
        · intro h; omega
        · intro _; exact Or.inl rfl
      · have h1' := h1 (by omega)
        by_cases hc : a + (n : Int) - stop = step
        · rw [nStep_want_ext _ _ _ _ _ _ _ hsk (by omega) hc]
          have hstop' : a + (n : Int) = start + step * ((d : Int) + 1) := by
            rw [Int.mul_add]; omega
          refine ⟨hws, Or.inr ⟨d + 1, rfl, hst, ?_, ?_, ?_, ?_⟩⟩
          · simp only; rw [hstop']; simp
          · simp only
            rw [prun_succ, ← List.append_assoc, hE, hstop']
          · intro h; omega
          · intro _; exact Or.inl rfl
        · rw [nStep_want_emit _ _ _ _ _ _ _ hsk (by omega) hc]
          obtain ⟨e1, e2⟩ := emit_spec start step d hst
          rw [← hstop] at e1 e2
          refine ⟨ws_append _ _ hws e1, Or.inr ⟨0, rfl, by simp, by simp, ?_, ?_, ?_⟩⟩
          · simp only
            rw [blocksEnum_append, blocksEnum_cons, blocksEnum_nil, List.append_nil, e2, prun_zero, hE]
          · intro _; simp only; omega
          · intro h; omega


theorem nInv_foldl (skip : Int → Bool) (a : Int) (σ0 : Blocks.NState) (h0 : NInv skip a 0 σ0)
    (n : Nat) :
    NInv skip a n (((List.range n).map (fun (k : Nat) => a + (k : Int))).foldl (Blocks.nStep skip) σ0) := by
  induction n with
  | zero => simpa using h0
  | succ n ih =>
    rw [List.range_succ, List.map_append, List.foldl_append]
    exact nInv_step skip a n _ ih

/-- the whole loop including the final flush, over the values `a, a+1, …, a+N-1` -/
theorem norm_loop (skip : Int → Bool) (a : Int) (N : Nat) :
    let st := ((List.range N).map (fun (k : Nat) => a + (k : Int))).foldl (Blocks.nStep skip) ⟨[], 0, 0, 0, 0⟩
    let res := if st.pending > 0 then st.out ++ [mkRng st.start st.stop st.step] else st.out
    (∀ r ∈ res, WellSigned r) ∧ blocksEnum res = wantedUpTo skip a N := by
  have h0 : NInv skip a 0 ⟨[], 0, 0, 0, 0⟩ :=
    ⟨by simp, Or.inl ⟨rfl, by simp [wantedUpTo]⟩⟩
  have hinv := nInv_foldl skip a _ h0 N
  intro st res
  obtain ⟨hws, hcase⟩ : NInv skip a N st := hinv
  rcases hcase with ⟨hp, hE⟩ | ⟨d, hp, hst, hstop, hE, _, _⟩
  · have : res = st.out := by
      show (if st.pending > 0 then _ else _) = _
      rw [if_neg (by omega)]
    rw [this]; exact ⟨hws, hE⟩
  · have : res = st.out ++ [mkRng st.start st.stop st.step] := by
      show (if st.pending > 0 then _ else _) = _
      rw [if_pos (by omega)]
    rw [this]
    obtain ⟨e1, e2⟩ := emit_spec st.start st.step d hst
    rw [← hstop] at e1 e2
    refine ⟨ws_append _ _ hws e1, ?_⟩
    rw [blocksEnum_append, blocksEnum_cons, blocksEnum_nil, List.append_nil, e2]
    exact hE

theorem wantedUpTo_asc (skip : Int → Bool) (a : Int) (N : Nat) :
    (wantedUpTo skip a N).Pairwise (· < ·) :=
  (map_add_asc a N).filter _

/-- `normalized` in terms of the filter of `up min max 1` -/
theorem normalized_spec (bl : Blocks) (inv : Bool) (hle : Blocks.min bl ≤ Blocks.max bl) :
    WF (Blocks.normalized bl inv) ∧
    blocksEnum (Blocks.normalized bl inv) =
      (up (Blocks.min bl) (Blocks.max bl) 1).filter
        (fun v => !(if inv = true then Blocks.contains bl v else !Blocks.contains bl v)) := by
  have hws : WellSigned (mkRng (Blocks.min bl) (Blocks.max bl) 1) := by
    unfold WellSigned mkRng
    simp only [if_neg (by omega : (1 : Int) ≠ 0)]
    left; omega
  have hiter : (mkRng (Blocks.min bl) (Blocks.max bl) 1).iter = up (Blocks.min bl) (Blocks.max bl) 1 := by
    rw [rng_iter _ hws]
    unfold rngEnum mkRng enum
    simp only [if_neg (by omega : (1 : Int) ≠ 0), if_pos hle]
    rfl
  obtain ⟨N, hN, _⟩ := up_one (Blocks.min bl) (Blocks.max bl)
  unfold Blocks.normalized
  simp only
  rw [hiter, hN]
  have := norm_loop (fun v => if inv = true then Blocks.contains bl v else !Blocks.contains bl v)
    (Blocks.min bl) N
  simp only at this
  obtain ⟨h1, h2⟩ := this
  refine ⟨wf_of_nodup _ h1 ?_, h2⟩
  rw [h2]
  exact asc_nodup _ (wantedUpTo_asc _ _ _)

end Gfs.Proofs
