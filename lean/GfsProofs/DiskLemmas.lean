/-
  GfsProofs.DiskLemmas — the directory-scanning glue (C06, C07).
-/
import GfsModel.Disk
import GfsModel.SeqOps
import GfsProofs.IndexLemmas

namespace Gfs.Proofs
open Gfs Gfs.Spec

/-- an entry the scan keeps: a regular file or a symlink to a non-directory -/
def keptEntry (e : Entry) : Bool := e.kind = .file || e.kind = .linkFile

/-! ### helper lemmas -/

theorem mem_of_head?_eq {α} {l : List α} {a : α} (h : l.head? = some a) : a ∈ l := by
  cases l with
  | nil => simp at h
  | cons x xs => simp at h; simp [h]

theorem setFrameRange_dir (s : Seq) (r : Bytes) : (s.setFrameRange r).1.dir = s.dir := by
  unfold Seq.setFrameRange
  split <;> rfl

theorem rebuild_dir (st : PadStyle) (dir base frange pad ext : Bytes) :
    (rebuild st dir base frange pad ext).dir = dir := by
  unfold rebuild
  simp only
  split
  · rfl
  · rw [setFrameRange_dir]; rfl

theorem bucketSeqs_dir (st : PadStyle) (b : SeqInfo) : ∀ s ∈ bucketSeqs st b, s.dir = b.dir := by
  intro s hs
  unfold bucketSeqs at hs
  split at hs
  · simp at hs
  · simp only [List.mem_singleton] at hs
    rw [hs, rebuild_dir]
  · simp only [List.mem_map] at hs
    obtain ⟨⟨w, nums⟩, _, rfl⟩ := hs
    simp only [rebuild_dir]

/-- buckets after `addFrame`: an old one, or one with the added key -/
theorem addFrame_mem (st : PadStyle) (dir base ext frame : Bytes) :
    ∀ (bs : List SeqInfo) (b : SeqInfo), b ∈ addFrame st dir base ext frame bs →
      b ∈ bs ∨ (b.dir = dir ∧ b.base = base ∧ b.ext = ext) := by
  intro bs
  induction bs with
  | nil =>
    intro b hb
    simp only [addFrame, List.mem_singleton] at hb
    right; subst hb; exact ⟨rfl, rfl, rfl⟩
  | cons b0 rest ih =>
    intro b hb
    unfold addFrame at hb
    split at hb
    · rename_i hk
      rcases List.mem_cons.1 hb with hb | hb
      · right
        subst hb
        split <;> exact hk
      · left; exact List.mem_cons_of_mem _ hb
    · rcases List.mem_cons.1 hb with hb | hb
      · left; subst hb; exact List.mem_cons_self ..
      · rcases ih b hb with h | h
        · left; exact List.mem_cons_of_mem _ h
        · right; exact h

theorem scanItems_none_dirs (P : Bytes → Prop) (o : ListOpts) :
    ∀ (items : List FileItem) (bs : List SeqInfo) (files : List Seq)
      (bs' : List SeqInfo) (files' : List Seq),
      scanItems o none items bs files = .ok (bs', files') →
      (∀ it ∈ items, P it.dir) → (∀ b ∈ bs, P b.dir) → (∀ f ∈ files, P f.dir) →
      (∀ b ∈ bs', P b.dir) ∧ (∀ f ∈ files', P f.dir) := by
  intro items
  induction items with
  | nil =>
    intro bs files bs' files' h _ hb hf
    simp only [scanItems, Except.ok.injEq, Prod.mk.injEq] at h
    obtain ⟨rfl, rfl⟩ := h
    exact ⟨hb, hf⟩
  | cons it rest ih =>
    intro bs files bs' files' h hi hb hf
    have hrest : ∀ it ∈ rest, P it.dir := fun x hx => hi x (List.mem_cons_of_mem _ hx)
    have hit : P it.dir := hi it (List.mem_cons_self ..)
    unfold scanItems at h
    split at h
    · exact ih _ _ _ _ h hrest hb hf
    · simp only at h
      split at h
      · refine ih _ _ _ _ h hrest ?_ hf
        intro b hb'
        rcases addFrame_mem _ _ _ _ _ _ _ hb' with h1 | h1
        · exact hb b h1
        · rw [h1.1]; exact hit
      · split at h
        · refine ih _ _ _ _ h hrest hb ?_
          intro f hf'
          rcases List.mem_append.1 hf' with h1 | h1
          · exact hf f h1
          · simp only [List.mem_singleton] at h1
            rw [h1, rebuild_dir]; exact hit
        · exact ih _ _ _ _ h hrest hb hf

/-- C06 core: scanning a readable directory without dangling links is exactly listing the
    items (dirPrefix arg, name) of its non-directory entries, with the same options -/
theorem scanDir_eq (entries : List Entry) (arg : Bytes) (o : ListOpts) (tmpl : Option Seq)
    (hd : ∀ e ∈ entries, e.kind ≠ .dangling) :
    scanDir (some entries) arg o tmpl =
      findInItems ((entries.filter keptEntry).map fun e => ⟨dirPrefix arg, e.name⟩) o tmpl := by
  have hany : entries.any (fun e => decide (e.kind = .dangling)) = false := by
    rw [List.any_eq_false]; intro e he; simpa using hd e he
  have hf : entries.filter (fun e => decide (e.kind = .file ∨ e.kind = .linkFile))
      = entries.filter keptEntry := by
    apply List.filter_congr; intro e _; simp [keptEntry]
  simp only [scanDir, hany, hf]
  rfl

/-- an unreadable directory, or a dangling symlink in it, yields an error rather than a
    partial listing -/
theorem scanDir_errors (d : DirSpec) (arg : Bytes) (o : ListOpts) (tmpl : Option Seq)
    (h : d = none ∨ ∃ entries, d = some entries ∧ ∃ e ∈ entries, e.kind = .dangling) :
    ∃ err, scanDir d arg o tmpl = .error err := by
  rcases h with rfl | ⟨entries, rfl, e, he, hk⟩
  · exact ⟨.io, rfl⟩
  · refine ⟨.io, ?_⟩
    have hany : entries.any (fun e => decide (e.kind = .dangling)) = true := by
      rw [List.any_eq_true]; exact ⟨e, he, by simpa using hk⟩
    simp only [scanDir, hany]
    rfl

/-- ListFiles is FindSequencesOnDisk with the SingleFiles option -/
theorem listFiles_eq (d : DirSpec) (arg : Bytes) :
    listFiles d arg = findSequencesOnDisk d arg { single := true, hidden := false, style := .hash4 } := rfl

/-- the directory prefix ends in a separator -/
theorem dirPrefix_sep (arg : Bytes) : isSuffixOf ['/'] (dirPrefix arg) = true := by
  unfold dirPrefix
  simp only
  split
  · assumption
  · simp [isSuffixOf, isPrefixOf]

/-- every sequence a (template-free) listing returns carries the directory of one of its items -/
theorem findInItems_dirs (items : List FileItem) (o : ListOpts) (seqs : List Seq)
    (h : findInItems items o none = .ok seqs) :
    ∀ s ∈ seqs, ∃ it ∈ items, s.dir = it.dir := by
  unfold findInItems at h
  cases hsc : scanItems o none items [] [] with
  | error e => rw [hsc] at h; cases h
  | ok r =>
    obtain ⟨bs, files⟩ := r
    rw [hsc] at h
    have hinv := scanItems_none_dirs (fun d => ∃ it ∈ items, d = it.dir) o items [] [] bs files hsc
      (fun it hit => ⟨it, hit, rfl⟩) (by simp) (by simp)
    have h' : (bs.map (bucketSeqs o.style)).flatten ++ (if o.single then files else []) = seqs := by
      injection h
    subst h'
    intro s hs
    rcases List.mem_append.1 hs with hs | hs
    · rw [List.mem_flatten] at hs
      obtain ⟨l, hl, hsl⟩ := hs
      rw [List.mem_map] at hl
      obtain ⟨b, hb, rfl⟩ := hl
      rw [bucketSeqs_dir _ _ _ hsl]
      exact hinv.1 b hb
    · split at hs
      · exact hinv.2 s hs
      · simp at hs

/-- C07: an unparsable pattern is a nil result, not an error -/
theorem find_bad_pattern (lookup : Bytes → DirSpec) (pat : Bytes) (st : PadStyle) (strict hidden : Bool)
    (h : ∃ e, Seq.parse st pat = .error e) :
    findSequenceOnDisk lookup pat st strict hidden = .ok none := by
  obtain ⟨e, he⟩ := h
  simp [findSequenceOnDisk, he]

/-- C07: a missing / unreadable directory is an error -/
theorem find_missing_dir (lookup : Bytes → DirSpec) (pat : Bytes) (st : PadStyle) (strict hidden : Bool)
    (fs : Seq) (h : Seq.parse st pat = .ok fs) (hd : lookup (openDir fs.dir) = none) :
    ∃ e, findSequenceOnDisk lookup pat st strict hidden = .error e := by
  refine ⟨.io, ?_⟩
  simp [findSequenceOnDisk, h, hd, scanDir]

/-- C07: a result has the pattern's basename and extension, the requested pad style, and
    with StrictPadding (and a pattern that has padding) the pattern's pad width -/
theorem find_result (lookup : Bytes → DirSpec) (pat : Bytes) (st : PadStyle) (strict hidden : Bool)
    (fs s : Seq) (h : Seq.parse st pat = .ok fs)
    (hr : findSequenceOnDisk lookup pat st strict hidden = .ok (some s)) :
    s.base = fs.base ∧ s.ext = fs.ext ∧ s.style = st ∧
    (strict = true → fs.pad ≠ [] → s.zfill = fs.zfill) := by
  simp only [findSequenceOnDisk, h] at hr
  split at hr
  · cases hr
  · rename_i seqs _
    injection hr with hr
    have hm := mem_of_head?_eq hr
    rw [List.mem_filter] at hm
    obtain ⟨hm, hstrict⟩ := hm
    rw [List.mem_map] at hm
    obtain ⟨s0, hs0, rfl⟩ := hm
    rw [List.mem_filter] at hs0
    obtain ⟨_, hbe⟩ := hs0
    simp only [decide_eq_true_eq] at hbe
    refine ⟨hbe.1, hbe.2, rfl, ?_⟩
    intro hs hp
    subst hs
    cases hpad : fs.pad with
    | nil => exact absurd hpad hp
    | cons c cs =>
      simp [hpad] at hstrict
      exact hstrict

/-- C07: the template glob only ever buckets names of the form basename + frame number +
    extension: every frame token collected is the middle of such an entry -/
theorem scan_template_tokens (o : ListOpts) (t : Seq) (items : List FileItem)
    (bs : List SeqInfo) (files : List Seq) (bs' : List SeqInfo) (files' : List Seq)
    (h : scanItems o (some t) items bs files = .ok (bs', files')) :
    files' = files ∧
    ∀ b ∈ bs', b ∈ bs ∨ (b.dir = t.dir ∧ b.base = t.base ∧ b.ext = t.ext) := by
  induction items generalizing bs files with
  | nil =>
    simp only [scanItems, Except.ok.injEq, Prod.mk.injEq] at h
    obtain ⟨rfl, rfl⟩ := h
    exact ⟨rfl, fun b hb => Or.inl hb⟩
  | cons it rest ih =>
    unfold scanItems at h
    split at h
    · exact ih _ _ h
    · simp only at h
      split at h
      · split at h
        · obtain ⟨hf, hbs⟩ := ih _ _ h
          refine ⟨hf, ?_⟩
          intro b hb
          rcases hbs b hb with h1 | h1
          · exact addFrame_mem _ _ _ _ _ _ _ h1
          · exact Or.inr h1
        · exact ih _ _ h
      · exact ih _ _ h

end Gfs.Proofs
