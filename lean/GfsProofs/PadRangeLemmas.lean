/-
  GfsProofs.PadRangeLemmas — PadFrameRange changes nothing but leading zeros (C11).
-/
import GfsModel.Pad
import GfsSpec.Grammar
import GfsProofs.ParseSyn
import GfsProofs.ParseSem

namespace Gfs.Proofs
open Gfs Gfs.Spec

/-! ### zfillString -/

theorem digitsToNat_zeros (k : Nat) (ds : Bytes) :
    digitsToNat (List.replicate k '0' ++ ds) = digitsToNat ds := by
  unfold digitsToNat
  rw [List.foldl_append]
  congr 1
  induction k with
  | zero => rfl
  | succ k ih =>
    rw [List.replicate_succ, List.foldl_cons]
    have : (0 * 10 + digitVal '0') = 0 := by decide
    rw [this]; exact ih

theorem zfillString_of_ge (t : Bytes) (w : Int) (h : (t.length : Int) ≥ w) :
    zfillString t w = t := by
  simp [zfillString, h]

theorem zfillString_length_of_lt (t : Bytes) (w : Int) (h : (t.length : Int) < w) :
    ((zfillString t w).length : Int) = w := by
  unfold zfillString
  simp only []
  rw [if_neg (by omega)]
  split
  · rename_i r
    simp only [List.length_cons, List.length_append, List.length_replicate] at h ⊢
    omega
  · simp only [List.length_append, List.length_replicate]
    omega

/-- the shape of a zero-filled numeral: the zeros go after the optional sign -/
theorem zfillString_shape (neg : Bool) (ds : Bytes) (hd : ∀ c ∈ ds, isDigit c = true) (w : Int) :
    zfillString ((if neg then ['-'] else []) ++ ds) w =
      (if neg then ['-'] else []) ++
        (List.replicate (w - (((if neg then ['-'] else []) ++ ds).length : Int)).toNat '0' ++ ds) := by
  by_cases hge : ((((if neg then ['-'] else []) ++ ds).length : Nat) : Int) ≥ w
  · rw [zfillString_of_ge _ _ hge]
    have : (w - ((((if neg then ['-'] else []) ++ ds).length : Nat) : Int)).toNat = 0 := by omega
    rw [this]; simp
  · unfold zfillString
    simp only []
    rw [if_neg hge]
    cases neg
    · simp only [Bool.false_eq_true, if_false, List.nil_append]
      split
      · exact absurd rfl (digit_ne_minus (hd '-' List.mem_cons_self))
      · rfl
    · simp

theorem zfillString_numText (n : Int) (t : Bytes) (w : Int) (h : NumText n t) :
    NumText n (zfillString t w) ∧ (w ≤ (zfillString t w).length ∨ (zfillString t w) = t) ∧
    ((t.length : Int) ≥ w → zfillString t w = t) ∧
    ((t.length : Int) < w → ((zfillString t w).length : Int) = w) := by
  refine ⟨?_, ?_, zfillString_of_ge t w, zfillString_length_of_lt t w⟩
  · obtain ⟨neg, ds, hne, hd, rfl, rfl⟩ := h
    rw [zfillString_shape neg ds hd w]
    refine ⟨neg, _, ?_, ?_, rfl, ?_⟩
    · intro h0
      have := congrArg List.length h0
      simp only [List.length_append, List.length_nil] at this
      have : ds.length = 0 := by omega
      exact hne (List.eq_nil_of_length_eq_zero this)
    · intro c hc
      rcases List.mem_append.1 hc with hc | hc
      · rw [(List.mem_replicate.1 hc).2]; decide
      · exact hd c hc
    · rw [digitsToNat_zeros]
  · by_cases hge : (t.length : Int) ≥ w
    · exact Or.inr (zfillString_of_ge t w hge)
    · exact Or.inl (by have := zfillString_length_of_lt t w (by omega); omega)

theorem zfillString_idem (t : Bytes) (w : Int) : zfillString (zfillString t w) w = zfillString t w := by
  by_cases hge : (t.length : Int) ≥ w
  · rw [zfillString_of_ge t w hge, zfillString_of_ge t w hge]
  · apply zfillString_of_ge
    have := zfillString_length_of_lt t w (by omega)
    omega

/-! ### padPart -/

/-- the captures of a padded part -/
def padMatch (w : Int) : Match → Match
  | .single a => .single (zfillString a w)
  | .range a b => .range (zfillString a w) (zfillString b w)
  | .complex a b m n => .complex (zfillString a w) (zfillString b w) m n

theorem padPart_eq (w : Int) (part : Bytes) :
    padPart w part = match matchPart part with
      | some m => matchText (padMatch w m)
      | none => part := by
  unfold padPart
  cases matchPart part with
  | none => rfl
  | some m => cases m <;> rfl

theorem padPart_of_none (w : Int) (part : Bytes) (h : matchPart part = none) : padPart w part = part := by
  rw [padPart_eq, h]

theorem padPart_of_some (w : Int) (part : Bytes) (m : Match) (h : matchPart part = some m) :
    padPart w part = matchText (padMatch w m) := by
  rw [padPart_eq, h]

theorem matchOf_padMatch (w : Int) (c : Comp) (m : Match) (h : MatchOf c m) : MatchOf c (padMatch w m) := by
  cases h with
  | single ha => exact .single (zfillString_numText _ _ w ha).1
  | range ha hb => exact .range (zfillString_numText _ _ w ha).1 (zfillString_numText _ _ w hb).1
  | stepped ha hb hn hm =>
    exact .stepped (zfillString_numText _ _ w ha).1 (zfillString_numText _ _ w hb).1 hn hm

theorem padMatch_idem (w : Int) (m : Match) : padMatch w (padMatch w m) = padMatch w m := by
  cases m <;> simp [padMatch, zfillString_idem]

/-- a part that is a range stays the same component with every frame number padded;
    a part that is not a range is passed through -/
theorem padPart_spec (w : Int) (part : Bytes) :
    (matchPart part = none → padPart w part = part) ∧
    (∀ c m, matchPart part = some m → MatchOf c m →
      ∃ m', matchPart (padPart w part) = some m' ∧ MatchOf c m' ∧ padPart w part = matchText m') := by
  refine ⟨padPart_of_none w part, ?_⟩
  intro c m hm hc
  have hc' := matchOf_padMatch w c m hc
  refine ⟨padMatch w m, ?_, hc', padPart_of_some w part m hm⟩
  rw [padPart_of_some w part m hm]
  exact matchPart_complete c _ hc'

theorem padPart_idem (w : Int) (part : Bytes) : padPart w (padPart w part) = padPart w part := by
  cases hm : matchPart part with
  | none => rw [padPart_of_none w part hm, padPart_of_none w part hm]
  | some m =>
    obtain ⟨-, c, hc⟩ := matchPart_sound part m hm
    have hc' := matchOf_padMatch w c m hc
    rw [padPart_of_some w part m hm,
      padPart_of_some w _ _ (matchPart_complete c _ hc'), padMatch_idem]

theorem padPart_no_comma (w : Int) (part : Bytes) (h : ',' ∉ part) : ',' ∉ padPart w part := by
  cases hm : matchPart part with
  | none => rw [padPart_of_none w part hm]; exact h
  | some m =>
    obtain ⟨-, c, hc⟩ := matchPart_sound part m hm
    rw [padPart_of_some w part m hm]
    exact matchText_no_comma c _ (matchOf_padMatch w c m hc)

/-! ### padFrameRange -/

/-- widths below 2 leave the text unchanged -/
theorem padFrameRange_small (s : Bytes) (w : Int) (h : w < 2) : padFrameRange s w = s := by
  simp [padFrameRange, h]

theorem splitOn_parts_no_sep (sep : Char) (s : Bytes) : ∀ p ∈ splitOn sep s, sep ∉ p := by
  induction s with
  | nil => intro p hp; simp [splitOn] at hp; subst hp; simp
  | cons c cs ih =>
    intro p hp
    rw [splitOn] at hp
    split at hp
    · rename_i he; exact absurd he (splitOn_ne_nil _ _)
    · rename_i q qs he
      rw [he] at ih
      split at hp
      · rcases List.mem_cons.1 hp with rfl | hp
        · simp
        · exact ih p hp
      · rename_i hc
        rcases List.mem_cons.1 hp with rfl | hp
        · intro hmem
          rcases List.mem_cons.1 hmem with e | e
          · exact hc e.symm
          · exact ih q List.mem_cons_self e
        · exact ih p (List.mem_cons_of_mem _ hp)

theorem padFrameRange_of_ge (s : Bytes) (w : Int) (h : 2 ≤ w) :
    padFrameRange s w = joinWith ',' ((splitOn ',' s).map (padPart w)) := by
  unfold padFrameRange
  rw [if_neg (by omega)]

/-- same comma components, in the same order, each padded on its own -/
theorem padFrameRange_parts (s : Bytes) (w : Int) (h : 2 ≤ w) :
    splitOn ',' (padFrameRange s w) = (splitOn ',' s).map (padPart w) := by
  rw [padFrameRange_of_ge s w h]
  apply splitOn_joinWith
  · intro h0
    exact splitOn_ne_nil ',' s (List.map_eq_nil_iff.1 h0)
  · intro p hp
    obtain ⟨q, hq, rfl⟩ := List.mem_map.1 hp
    exact padPart_no_comma w q (splitOn_parts_no_sep ',' s q hq)

theorem padFrameRange_idem (s : Bytes) (w : Int) :
    padFrameRange (padFrameRange s w) w = padFrameRange s w := by
  by_cases h : w < 2
  · rw [padFrameRange_small _ w h]
  · have h2 : 2 ≤ w := by omega
    rw [padFrameRange_of_ge (padFrameRange s w) w h2, padFrameRange_parts s w h2, List.map_map,
      padFrameRange_of_ge s w h2]
    congr 1
    apply List.map_congr_left
    intro p _
    exact padPart_idem w p

/-! ### the handler -/

theorem parseInt_congr {n : Int} {t t' : Bytes} (h : NumText n t) (h' : NumText n t') :
    parseInt t = parseInt t' := by
  unfold parseInt
  rw [atoi_numText n t h, atoi_numText n t' h']

theorem handleMatch_congr (bl : Blocks) (c : Comp) (m m' : Match)
    (h : MatchOf c m) (h' : MatchOf c m') : handleMatch bl m = handleMatch bl m' := by
  cases h with
  | single ha =>
    cases h' with
    | single ha' => simp only [handleMatch, parseInt_congr ha ha']
  | range ha hb =>
    cases h' with
    | range ha' hb' => simp only [handleMatch, parseInt_congr ha ha', parseInt_congr hb hb']
  | stepped ha hb hn hm =>
    cases h' with
    | stepped ha' hb' hn' hm' =>
      simp only [handleMatch, parseInt_congr ha ha', parseInt_congr hb hb', parseInt_congr hn hn']

/-- the handler only looks at the values of the numerals -/
theorem handleMatches_congr (bl : Blocks) (cs : List Comp) (ms ms' : List Match)
    (h : Forall2 MatchOf cs ms) (h' : Forall2 MatchOf cs ms') :
    handleMatches bl ms = handleMatches bl ms' := by
  induction h generalizing bl ms' with
  | nil => cases h'; rfl
  | @cons c m cs ms hab _ ih =>
    cases h' with
    | @cons _ m' _ ms' hab' hrest =>
      simp only [handleMatches, handleMatch_congr bl c m m' hab hab']
      cases handleMatch bl m' with
      | error e => rfl
      | ok bl1 => exact ih bl1 ms' hrest

/-! ### junk characters -/

theorem splitOn_stripJunk (s : Bytes) :
    splitOn ',' (stripJunk s) = (splitOn ',' s).map stripJunk := by
  induction s with
  | nil => rfl
  | cons c cs ih =>
    rw [splitOn]
    split
    · rename_i he; exact absurd he (splitOn_ne_nil _ _)
    · rename_i p ps he
      rw [he] at ih
      by_cases hj : isJunk c = true
      · have hc : c ≠ ',' := by rintro rfl; revert hj; decide
        have e1 : stripJunk (c :: cs) = stripJunk cs := by simp [stripJunk, hj]
        rw [e1, ih, if_neg hc]
        simp [stripJunk, hj]
      · have e1 : stripJunk (c :: cs) = c :: stripJunk cs := by simp [stripJunk, hj]
        rw [e1, splitOn, ih]
        simp only [List.map_cons]
        split
        · simp [stripJunk]
        · simp [stripJunk, hj]

theorem numText_no_junk {n : Int} {t : Bytes} (h : NumText n t) : ∀ c ∈ t, isJunk c = false := by
  obtain ⟨neg, ds, -, hd, rfl, -⟩ := h
  intro c hc
  rcases List.mem_append.1 hc with h | h
  · cases neg
    · simp at h
    · simp at h; subst h; decide
  · have := hd c h
    cases hj : isJunk c with
    | false => rfl
    | true =>
      exfalso
      simp only [isJunk, Bool.or_eq_true, decide_eq_true_eq] at hj
      rcases hj with (rfl | rfl) | rfl <;> revert this <;> decide

theorem matchText_no_junk (c : Comp) (m : Match) (h : MatchOf c m) : ∀ ch ∈ matchText m, isJunk ch = false := by
  cases h with
  | single ha => exact numText_no_junk ha
  | range ha hb =>
    intro ch hch
    simp only [matchText, List.mem_append, List.mem_cons] at hch
    rcases hch with h | rfl | h
    · exact numText_no_junk ha ch h
    · decide
    · exact numText_no_junk hb ch h
  | @stepped a b n ta tb tn m ha hb hn hm =>
    intro ch hch
    simp only [matchText, List.mem_append, List.mem_cons] at hch
    rcases hch with (h | rfl | h) | rfl | h
    · exact numText_no_junk ha ch h
    · decide
    · exact numText_no_junk hb ch h
    · rcases hm with rfl | rfl | rfl <;> decide
    · exact numText_no_junk hn ch h

theorem stripJunk_matchText (c : Comp) (m : Match) (h : MatchOf c m) :
    stripJunk (matchText m) = matchText m := by
  unfold stripJunk
  rw [List.filter_eq_self]
  intro ch hch
  simp [matchText_no_junk c m h ch hch]

/-- per part: after removing junk, the padded part matches the same component, or neither matches -/
theorem padPart_strip (w : Int) (p : Bytes) :
    (∀ m, matchPart (stripJunk p) = some m →
      ∃ m' c, matchPart (stripJunk (padPart w p)) = some m' ∧ MatchOf c m ∧ MatchOf c m') ∧
    (matchPart (stripJunk p) = none → matchPart (stripJunk (padPart w p)) = none) := by
  cases hm : matchPart p with
  | none =>
    rw [padPart_of_none w p hm]
    refine ⟨?_, id⟩
    intro m h
    obtain ⟨-, c, hc⟩ := matchPart_sound _ m h
    exact ⟨m, c, h, hc, hc⟩
  | some m0 =>
    obtain ⟨e, c, hc⟩ := matchPart_sound p m0 hm
    have hc' := matchOf_padMatch w c m0 hc
    have e1 : stripJunk p = p := by rw [e]; exact stripJunk_matchText c m0 hc
    rw [e1, padPart_of_some w p m0 hm, stripJunk_matchText c _ hc', matchPart_complete c _ hc', hm]
    refine ⟨?_, fun h => by cases h⟩
    intro m h
    injection h with h; subst h
    exact ⟨_, c, rfl, hc, hc'⟩

theorem mapM_partStep_error (parts : List Bytes) :
    (∃ e, parts.mapM partStep = .error e) ↔ ∃ p ∈ parts, matchPart p = none := by
  induction parts with
  | nil => simp [pure, Except.pure]
  | cons p ps ih =>
    rw [List.mapM_cons]
    cases hm : matchPart p with
    | none =>
      have : partStep p = .error .parse := by simp [partStep, hm]
      rw [this]
      constructor
      · intro _; exact ⟨p, List.mem_cons_self, hm⟩
      · intro _; exact ⟨.parse, rfl⟩
    | some m =>
      rw [partStep_ok.2 hm]
      constructor
      · rintro ⟨e, he⟩
        cases h2 : ps.mapM partStep with
        | error e' =>
          obtain ⟨q, hq, hqn⟩ := ih.1 ⟨e', h2⟩
          exact ⟨q, List.mem_cons_of_mem _ hq, hqn⟩
        | ok ms => rw [h2] at he; simp [bind, Except.bind, pure, Except.pure] at he
      · rintro ⟨q, hq, hqn⟩
        rcases List.mem_cons.1 hq with rfl | hq
        · rw [hm] at hqn; cases hqn
        · obtain ⟨e, he⟩ := ih.2 ⟨q, hq, hqn⟩
          exact ⟨e, by rw [he]; rfl⟩

theorem padParts_matches (w : Int) (parts : List Bytes) (ms : List Match)
    (h : Forall2 (fun p m => matchPart p = some m) (parts.map stripJunk) ms) :
    ∃ ms' cs, Forall2 (fun p m => matchPart p = some m) ((parts.map (padPart w)).map stripJunk) ms' ∧
      Forall2 MatchOf cs ms ∧ Forall2 MatchOf cs ms' := by
  induction parts generalizing ms with
  | nil => cases h; exact ⟨[], [], .nil, .nil, .nil⟩
  | cons p ps ih =>
    cases h with
    | @cons _ m _ ms hp hps =>
      obtain ⟨ms', cs, h1, h2, h3⟩ := ih ms hps
      obtain ⟨m', c, hm', hc, hc'⟩ := (padPart_strip w p).1 m hp
      exact ⟨m' :: ms', c :: cs, .cons hm' h1, .cons hc h2, .cons hc' h3⟩

/-- padding does not change what the text matches: the same components (for any text,
    with or without spaces and pad characters), or both rejected -/
theorem padFrameRange_same_matches (s : Bytes) (w : Int) :
    (∀ ms, frameRangeMatches s = .ok ms →
        ∃ ms', frameRangeMatches (padFrameRange s w) = .ok ms' ∧
          ∃ cs, Forall2 MatchOf cs ms ∧ Forall2 MatchOf cs ms') ∧
    ((∃ e, frameRangeMatches s = .error e) → ∃ e, frameRangeMatches (padFrameRange s w) = .error e) := by
  by_cases hw : w < 2
  · rw [padFrameRange_small s w hw]
    refine ⟨?_, id⟩
    intro ms h
    obtain ⟨cs, -, -, hcs⟩ := frameRangeMatches_sound s ms h
    exact ⟨ms, h, cs, hcs, hcs⟩
  · have h2 : 2 ≤ w := by omega
    have e1 : frameRangeMatches (padFrameRange s w) =
        (((splitOn ',' s).map (padPart w)).map stripJunk).mapM partStep := by
      rw [frameRangeMatches_eq, splitOn_stripJunk, padFrameRange_parts s w h2]
    have e0 : frameRangeMatches s = ((splitOn ',' s).map stripJunk).mapM partStep := by
      rw [frameRangeMatches_eq, splitOn_stripJunk]
    rw [e0, e1]
    constructor
    · intro ms h
      obtain ⟨ms', cs, h1, h2, h3⟩ := padParts_matches w _ ms ((mapM_partStep_ok _ _).1 h)
      exact ⟨ms', (mapM_partStep_ok _ _).2 h1, cs, h2, h3⟩
    · intro h
      obtain ⟨p, hp, hpn⟩ := (mapM_partStep_error _).1 h
      obtain ⟨q, hq, rfl⟩ := List.mem_map.1 hp
      apply (mapM_partStep_error _).2
      exact ⟨stripJunk (padPart w q),
        List.mem_map.2 ⟨_, List.mem_map.2 ⟨q, hq, rfl⟩, rfl⟩, (padPart_strip w q).2 hpn⟩

/-- … hence it parses to exactly the same frame list (or both are rejected) -/
theorem padFrameRange_same_frames (s : Bytes) (w : Int) :
    (∀ fs, FrameSet.parse s = .ok fs →
        ∃ fs', FrameSet.parse (padFrameRange s w) = .ok fs' ∧ fs'.blocks = fs.blocks) ∧
    ((∃ e, FrameSet.parse s = .error e) → ∃ e, FrameSet.parse (padFrameRange s w) = .error e) := by
  obtain ⟨hok, herr⟩ := padFrameRange_same_matches s w
  cases hs : frameRangeMatches s with
  | error e =>
    obtain ⟨e', he'⟩ := herr ⟨e, hs⟩
    constructor
    · intro fs h
      simp [FrameSet.parse, hs, bind, Except.bind] at h
    · intro _
      exact ⟨e', by simp [FrameSet.parse, he', bind, Except.bind]⟩
  | ok ms =>
    obtain ⟨ms', hms', cs, hcs, hcs'⟩ := hok ms hs
    have hc := handleMatches_congr [] cs ms ms' hcs hcs'
    cases hh : handleMatches [] ms with
    | error e =>
      constructor
      · intro fs h
        simp [FrameSet.parse, hs, hh, bind, Except.bind] at h
      · intro _
        exact ⟨e, by simp [FrameSet.parse, hms', ← hc, hh, bind, Except.bind]⟩
    | ok bl =>
      constructor
      · intro fs h
        simp [FrameSet.parse, hs, hh, bind, Except.bind, pure, Except.pure] at h
        subst h
        exact ⟨⟨padFrameRange s w, bl⟩,
          by simp [FrameSet.parse, hms', ← hc, hh, bind, Except.bind, pure, Except.pure], rfl⟩
      · rintro ⟨e, he⟩
        simp [FrameSet.parse, hs, hh, bind, Except.bind, pure, Except.pure] at he

end Gfs.Proofs
