/-
  GfsProofs.ListOrderAux — order-independence helpers for C05: the integer sort does not depend on
  the order of its input, and on a bucket whose frame tokens all have one width the width sort and
  the regrouping walk are the identity / a single group.
-/
import GfsModel.ListSeqs
import GfsModel.Compress

namespace Gfs.Proofs
namespace Order
open Gfs

/-! ### sortInts -/

theorem insertInt_perm (x : Int) (l : List Int) : (insertInt x l).Perm (x :: l) := by
  induction l with
  | nil => exact List.Perm.refl _
  | cons y ys ih =>
    unfold insertInt
    split
    · exact List.Perm.refl _
    · exact (List.Perm.cons y ih).trans (List.Perm.swap x y ys)

theorem sortInts_perm_self (l : List Int) : (sortInts l).Perm l := by
  induction l with
  | nil => exact List.Perm.refl _
  | cons x xs ih =>
    show (insertInt x (sortInts xs)).Perm (x :: xs)
    exact (insertInt_perm x _).trans (List.Perm.cons x ih)

theorem insertInt_sorted (x : Int) (l : List Int) (h : l.Pairwise (· ≤ ·)) :
    (insertInt x l).Pairwise (· ≤ ·) := by
  induction l with
  | nil => simp [insertInt]
  | cons y ys ih =>
    unfold insertInt
    have hy := List.pairwise_cons.1 h
    split
    · rename_i hxy
      refine List.pairwise_cons.2 ⟨?_, h⟩
      intro a ha
      rcases List.mem_cons.1 ha with rfl | ha
      · exact hxy
      · exact Int.le_trans hxy (hy.1 a ha)
    · rename_i hxy
      refine List.pairwise_cons.2 ⟨?_, ih hy.2⟩
      intro a ha
      have := (insertInt_perm x ys).mem_iff.1 ha
      rcases List.mem_cons.1 this with rfl | ha'
      · omega
      · exact hy.1 a ha'

theorem sortInts_sorted (l : List Int) : (sortInts l).Pairwise (· ≤ ·) := by
  induction l with
  | nil => simp [sortInts]
  | cons x xs ih => exact insertInt_sorted x _ ih

/-- the integer sort depends only on the multiset of its input -/
theorem sortInts_congr {l l' : List Int} (h : l.Perm l') : sortInts l = sortInts l' := by
  have hp : (sortInts l).Perm (sortInts l') :=
    (sortInts_perm_self l).trans (h.trans (sortInts_perm_self l').symm)
  exact List.Perm.eq_of_pairwise (fun a b _ _ hab hba => Int.le_antisymm hab hba)
    (sortInts_sorted l) (sortInts_sorted l') hp

/-! ### one width -/

theorem insertByWidth_uniform (x : FrameInfo) (l : List FrameInfo) (w : Nat)
    (hx : x.frame.length = w) (hl : ∀ f ∈ l, f.frame.length = w) : insertByWidth x l = l ++ [x] := by
  induction l with
  | nil => rfl
  | cons y ys ih =>
    unfold insertByWidth
    have hy : y.frame.length = w := hl y List.mem_cons_self
    rw [if_neg (by omega)]
    rw [ih (fun f hf => hl f (List.mem_cons_of_mem _ hf))]
    rfl

theorem foldl_insert_uniform (w : Nat) : ∀ (l acc : List FrameInfo),
    (∀ f ∈ l, f.frame.length = w) → (∀ f ∈ acc, f.frame.length = w) →
    l.foldl (fun acc x => insertByWidth x acc) acc = acc ++ l
  | [], acc, _, _ => by simp
  | x :: xs, acc, hl, hacc => by
    rw [List.foldl_cons, insertByWidth_uniform x acc w (hl x List.mem_cons_self) hacc]
    rw [foldl_insert_uniform w xs (acc ++ [x]) (fun f hf => hl f (List.mem_cons_of_mem _ hf))]
    · simp
    · intro f hf
      rcases List.mem_append.1 hf with hf | hf
      · exact hacc f hf
      · rw [List.mem_singleton.1 hf]; exact hl x List.mem_cons_self

/-- with one width the (stable) width sort is the identity -/
theorem sortByWidth_uniform (l : List FrameInfo) (w : Nat) (h : ∀ f ∈ l, f.frame.length = w) :
    sortByWidth l = l := by
  unfold sortByWidth
  rw [foldl_insert_uniform w l [] h (by intro f hf; cases hf)]
  simp

/-- … and the regrouping walk yields one group -/
theorem regroup_uniform (w : Nat) : ∀ (l : List FrameInfo) (cur : List Int) (acc : List (Nat × List Int)),
    (∀ f ∈ l, f.frame.length = w) →
    regroup l w cur acc = if (cur ++ l.map (·.num)).isEmpty then acc else acc ++ [(w, cur ++ l.map (·.num))]
  | [], cur, acc, _ => by simp [regroup]
  | f :: rest, cur, acc, h => by
    have hf : f.frame.length = w := h f List.mem_cons_self
    rw [regroup, if_neg (by intro hc; exact hc.1 hf)]
    rw [regroup_uniform w rest (cur ++ [f.num]) acc (fun g hg => h g (List.mem_cons_of_mem _ hg))]
    simp

end Order
end Gfs.Proofs
