/-
  GfsProofs.CompressLemmas — FramesToFrameRange is a right inverse of range parsing (C09).
-/
import GfsModel.Compress
import GfsModel.FrameSet
import GfsSpec.Enum
import GfsSpec.Denote
import GfsSpec.Grammar
import GfsProps.C01

namespace Gfs.Proofs
open Gfs Gfs.Spec

/-- the component a written group reads as -/
def compOfGroup : Group → Comp
  | .single f => .single f
  | .run a b step =>
    if step > 1 then .stepped a b 'x' step
    else if step < -1 then .stepped a b 'x' (-step)
    else .range a b

/-! Helper lemmas live in the sub-namespace `Compress` (to keep the names out of the way of
    the other proof libraries); the theorems of the interface are restated at the end. -/
namespace Compress

/-! ### decimal digits -/

theorem isDigit_digitChar (n : Nat) : isDigit (digitChar n) = true := by
  unfold digitChar
  have h : n % 10 < 10 := Nat.mod_lt _ (by decide)
  generalize n % 10 = k at h
  have : k = 0 ∨ k = 1 ∨ k = 2 ∨ k = 3 ∨ k = 4 ∨ k = 5 ∨ k = 6 ∨ k = 7 ∨ k = 8 ∨ k = 9 := by omega
  rcases this with rfl|rfl|rfl|rfl|rfl|rfl|rfl|rfl|rfl|rfl <;> decide

theorem digitVal_digitChar (n : Nat) : digitVal (digitChar n) = n % 10 := by
  unfold digitChar
  have h : n % 10 < 10 := Nat.mod_lt _ (by decide)
  generalize n % 10 = k at h
  have : k = 0 ∨ k = 1 ∨ k = 2 ∨ k = 3 ∨ k = 4 ∨ k = 5 ∨ k = 6 ∨ k = 7 ∨ k = 8 ∨ k = 9 := by omega
  rcases this with rfl|rfl|rfl|rfl|rfl|rfl|rfl|rfl|rfl|rfl <;> decide

theorem natDigits_ne_nil (n : Nat) : natDigits n ≠ [] := by
  unfold natDigits
  split <;> simp

theorem natDigits_digits (n : Nat) : ∀ c ∈ natDigits n, isDigit c = true := by
  induction n using natDigits.induct with
  | case1 n h =>
    unfold natDigits; simp [h, isDigit_digitChar]
  | case2 n h ih =>
    unfold natDigits; simp only [h, if_false]
    intro c hc
    rcases List.mem_append.mp hc with hc | hc
    · exact ih c hc
    · simp at hc; subst hc; exact isDigit_digitChar _

theorem digitsToNat_snoc (ds : List Char) (c : Char) :
    digitsToNat (ds ++ [c]) = digitsToNat ds * 10 + digitVal c := by
  simp [digitsToNat, List.foldl_append]

theorem digitsToNat_natDigits (n : Nat) : digitsToNat (natDigits n) = n := by
  induction n using natDigits.induct with
  | case1 n h =>
    unfold natDigits; simp only [h, if_true]
    simp [digitsToNat, digitVal_digitChar]; omega
  | case2 n h ih =>
    unfold natDigits; simp only [h, if_false]
    rw [digitsToNat_snoc, ih, digitVal_digitChar]; omega

theorem digitsToNat_zeros (k : Nat) (ds : List Char) :
    digitsToNat (List.replicate k '0' ++ ds) = digitsToNat ds := by
  unfold digitsToNat
  rw [List.foldl_append]
  congr 1
  induction k with
  | zero => rfl
  | succ k ih => rw [List.replicate_succ, List.foldl_cons]; exact ih

theorem isDigit_zero : isDigit '0' = true := by decide

theorem numText_mk (f : Int) (k : Nat) :
    NumText f ((if f < 0 then ['-'] else []) ++ (List.replicate k '0' ++ natDigits f.natAbs)) := by
  refine ⟨decide (f < 0), List.replicate k '0' ++ natDigits f.natAbs, ?_, ?_, ?_, ?_⟩
  · intro h
    exact natDigits_ne_nil _ (List.append_eq_nil_iff.mp h).2
  · intro c hc
    rcases List.mem_append.mp hc with hc | hc
    · rw [List.mem_replicate] at hc; rw [hc.2]; exact isDigit_zero
    · exact natDigits_digits _ c hc
  · by_cases h : f < 0 <;> simp [h]
  · rw [digitsToNat_zeros, digitsToNat_natDigits]
    by_cases h : f < 0 <;> simp [h] <;> omega

theorem itoa_numText (f : Int) : NumText f (itoa f) := by
  have := numText_mk f 0
  unfold itoa
  by_cases h : f < 0 <;> simpa [h] using this

theorem zfillInt_numText (f z : Int) : NumText f (zfillInt f z) := by
  unfold zfillInt
  by_cases hz : z < 2
  · simp only [hz, if_true]; exact itoa_numText f
  · simp only [hz, if_false]
    by_cases h : f < 0
    · have := numText_mk f (z.toNat - ((natDigits f.natAbs).length + 1))
      simpa [h] using this
    · have := numText_mk f (z.toNat - ((natDigits f.natAbs).length))
      simpa [h] using this

theorem zfillInt_length (f z : Int) (h : 2 ≤ z) : z ≤ (zfillInt f z).length := by
  unfold zfillInt
  have hz : ¬ z < 2 := by omega
  simp only [hz, if_false]
  by_cases hf : f < 0 <;> simp [hf] <;> omega

/-! ### groups -/

theorem renderGroup_compText (z : Int) (g : Group) : CompText (compOfGroup g) (renderGroup z g) := by
  cases g with
  | single f =>
    exact ⟨.single (zfillInt f z), .single (zfillInt_numText f z), rfl⟩
  | run a b step =>
    unfold compOfGroup renderGroup
    by_cases h1 : step > 1
    · simp only [h1, if_true]
      exact ⟨.complex (zfillInt a z) (zfillInt b z) 'x' (itoa step),
        .stepped (zfillInt_numText a z) (zfillInt_numText b z) (itoa_numText step) (Or.inl rfl), rfl⟩
    · by_cases h2 : step < -1
      · simp only [h1, h2, if_true, if_false]
        exact ⟨.complex (zfillInt a z) (zfillInt b z) 'x' (itoa (-step)),
          .stepped (zfillInt_numText a z) (zfillInt_numText b z) (itoa_numText (-step)) (Or.inl rfl), rfl⟩
      · simp only [h1, h2, if_false]
        exact ⟨.range (zfillInt a z) (zfillInt b z),
          .range (zfillInt_numText a z) (zfillInt_numText b z), rfl⟩

/-! groups -/

theorem groupsAux_one (fuel : Nat) (a : Int) : groupsAux (fuel + 1) [a] = [.single a] := by
  simp [groupsAux]

theorem groupsAux_two (fuel : Nat) (a b : Int) :
    groupsAux (fuel + 1) [a, b] = [.single a, .single b] := by
  simp [groupsAux]

theorem scanRun_take (step : Int) (xs : List Int) : ∀ p : Int,
    (p :: xs).take (scanRun step p xs + 1) =
      (List.range (scanRun step p xs + 1)).map (fun (k : Nat) => p + step * (k : Int)) := by
  induction xs with
  | nil => intro p; simp [scanRun]
  | cons x xs ih =>
    intro p
    unfold scanRun
    by_cases h : x - p = step
    · simp only [h, if_true]
      rw [List.take_succ_cons, ih x, List.range_succ_eq_map (n := scanRun step x xs + 1)]
      simp only [List.map_cons, List.map_map]
      congr 1
      · simp
      · apply List.map_congr_left
        intro k _
        simp only [Function.comp, Int.natCast_succ, Int.mul_add, Int.mul_one]
        omega
    · simp [h]

theorem scanRun_getD (step : Int) (xs : List Int) (d : Int) : ∀ p : Int,
    (p :: xs).getD (scanRun step p xs) d = p + step * (scanRun step p xs : Nat) := by
  induction xs with
  | nil => intro p; simp [scanRun]
  | cons x xs ih =>
    intro p
    unfold scanRun
    by_cases h : x - p = step
    · simp only [h, if_true]
      rw [List.getD_cons_succ, ih x]
      simp only [Int.natCast_succ, Int.mul_add, Int.mul_one]
      omega
    · simp [h]

theorem expand_run (a step : Int) (i : Nat) (hs : step ≠ 0) :
    expand (compOfGroup (.run a (a + step * (i : Int)) step)) =
      (List.range (i + 1)).map (fun (k : Nat) => a + step * (k : Int)) := by
  unfold compOfGroup
  by_cases h1 : step > 1
  · simp only [h1, if_true, expand]
    have : (step.natAbs : Int) = step := by omega
    rw [this]
    exact enum_prog a step step (by omega) (Or.inl rfl) i
  · by_cases h2 : step < -1
    · simp only [h1, h2, if_true, if_false, expand]
      have : ((-step).natAbs : Int) = -step := by omega
      rw [this]
      exact enum_prog a (-step) step (by omega) (Or.inr (by omega)) i
    · simp only [h1, h2, if_false, expand]
      exact enum_prog a 1 step (by omega) (by omega) i

theorem groupsAux_step (fuel : Nat) (f0 f1 f2 : Int) (rest : List Int) :
    groupsAux (fuel + 1) (f0 :: f1 :: f2 :: rest) =
        .single f0 :: groupsAux fuel (f1 :: f2 :: rest) ∨
    groupsAux (fuel + 1) (f0 :: f1 :: f2 :: rest) =
      .run f0 ((f0 :: f1 :: f2 :: rest).getD (scanRun (f1 - f0) f0 (f1 :: f2 :: rest)) f0) (f1 - f0)
        :: groupsAux fuel ((f0 :: f1 :: f2 :: rest).drop (scanRun (f1 - f0) f0 (f1 :: f2 :: rest) + 1)) := by
  have h : ∀ b : Bool, (if b = true then (Group.single f0 :: groupsAux fuel (f1 :: f2 :: rest)) else
      .run f0 ((f0 :: f1 :: f2 :: rest).getD (scanRun (f1 - f0) f0 (f1 :: f2 :: rest)) f0) (f1 - f0)
        :: groupsAux fuel ((f0 :: f1 :: f2 :: rest).drop (scanRun (f1 - f0) f0 (f1 :: f2 :: rest) + 1))) =
        .single f0 :: groupsAux fuel (f1 :: f2 :: rest) ∨
      (if b = true then (Group.single f0 :: groupsAux fuel (f1 :: f2 :: rest)) else
      .run f0 ((f0 :: f1 :: f2 :: rest).getD (scanRun (f1 - f0) f0 (f1 :: f2 :: rest)) f0) (f1 - f0)
        :: groupsAux fuel ((f0 :: f1 :: f2 :: rest).drop (scanRun (f1 - f0) f0 (f1 :: f2 :: rest) + 1))) =
      .run f0 ((f0 :: f1 :: f2 :: rest).getD (scanRun (f1 - f0) f0 (f1 :: f2 :: rest)) f0) (f1 - f0)
        :: groupsAux fuel ((f0 :: f1 :: f2 :: rest).drop (scanRun (f1 - f0) f0 (f1 :: f2 :: rest) + 1)) := by
    intro b; cases b
    · right; rfl
    · left; rfl
  exact h _

theorem groupsAux_expand (fuel : Nat) : ∀ l : List Int, l.length ≤ fuel → l.Nodup →
    (groupsAux fuel l).flatMap (fun g => expand (compOfGroup g)) = l := by
  induction fuel with
  | zero =>
    intro l hl _
    have : l = [] := List.length_eq_zero_iff.mp (by omega)
    subst this; rfl
  | succ fuel ih =>
    intro l hl hnd
    match l, hl, hnd with
    | [], _, _ => rfl
    | [a], _, _ => rw [groupsAux_one]; rfl
    | [a, b], _, _ => rw [groupsAux_two]; rfl
    | f0 :: f1 :: f2 :: rest, hl, hnd =>
      rcases groupsAux_step fuel f0 f1 f2 rest with e | e <;> rw [e]
      · rw [List.flatMap_cons, ih _ (by simpa using hl) (List.nodup_cons.mp hnd).2]
        rfl
      · have hstep : f1 - f0 ≠ 0 := by
          intro h
          have : f0 = f1 := by omega
          have h1 := (List.nodup_cons.mp hnd).1
          apply h1; rw [this]; simp
        rw [List.flatMap_cons, scanRun_getD, expand_run _ _ _ hstep, ← scanRun_take,
          ih _ (by simp at hl ⊢; omega) (hnd.sublist (List.drop_sublist _ _))]
        exact List.take_append_drop _ _

theorem groupsAux_ne_nil (fuel : Nat) (l : List Int) (h : l ≠ []) (hl : l.length ≤ fuel) :
    groupsAux fuel l ≠ [] := by
  match fuel, l, h, hl with
  | 0, _ :: _, _, hl => simp at hl
  | fuel + 1, [a], _, _ => rw [groupsAux_one]; simp
  | fuel + 1, [a, b], _, _ => rw [groupsAux_two]; simp
  | fuel + 1, f0 :: f1 :: f2 :: rest, _, _ => rcases groupsAux_step fuel f0 f1 f2 rest with e | e <;> rw [e] <;> simp

theorem getD_mem (l : List Int) (i : Nat) (d : Int) (hd : d ∈ l) : l.getD i d ∈ l := by
  rw [List.getD_eq_getElem?_getD]
  cases h : l[i]? with
  | none => simpa using hd
  | some x => simpa using List.mem_of_getElem? h

theorem groupsAux_valid (fuel : Nat) : ∀ l : List Int, l.length ≤ fuel →
    (∀ a ∈ l, ∀ b ∈ l, Fits a ∧ Fits (a - b)) →
    ∀ g ∈ groupsAux fuel l, (compOfGroup g).valid := by
  induction fuel with
  | zero =>
    intro l hl _ g hg
    simp [groupsAux] at hg
  | succ fuel ih =>
    intro l hl hfit
    match l, hl, hfit with
    | [], _, _ => intro g hg; simp [groupsAux] at hg
    | [a], _, hfit =>
      rw [groupsAux_one]
      intro g hg
      simp at hg; subst hg
      exact ⟨rfl, (hfit a (by simp) a (by simp)).1⟩
    | [a, b], _, hfit =>
      rw [groupsAux_two]
      intro g hg
      simp at hg
      rcases hg with rfl | rfl
      · exact ⟨rfl, (hfit a (by simp) a (by simp)).1⟩
      · exact ⟨rfl, (hfit b (by simp) b (by simp)).1⟩
    | f0 :: f1 :: f2 :: rest, hl, hfit =>
      have h0 : f0 ∈ f0 :: f1 :: f2 :: rest := by simp
      have h1 : f1 ∈ f0 :: f1 :: f2 :: rest := by simp
      rcases groupsAux_step fuel f0 f1 f2 rest with e | e <;> rw [e]
      · intro g hg
        rcases List.mem_cons.mp hg with rfl | hg
        · exact ⟨rfl, (hfit f0 h0 f0 h0).1⟩
        · exact ih _ (by simpa using hl)
            (fun a ha b hb => hfit a (List.mem_cons_of_mem _ ha) b (List.mem_cons_of_mem _ hb)) g hg
      · intro g hg
        rcases List.mem_cons.mp hg with rfl | hg
        · have hfi := getD_mem (f0 :: f1 :: f2 :: rest) (scanRun (f1 - f0) f0 (f1 :: f2 :: rest)) f0 h0
          generalize (f0 :: f1 :: f2 :: rest).getD (scanRun (f1 - f0) f0 (f1 :: f2 :: rest)) f0 = fi at hfi
          have ffi := (hfit fi hfi fi hfi).1
          have ff0 := (hfit f0 h0 f0 h0).1
          have fs1 := (hfit f1 h1 f0 h0).2
          have fs2 := (hfit f0 h0 f1 h1).2
          unfold compOfGroup
          by_cases c1 : f1 - f0 > 1
          · simp only [c1, if_true]
            refine ⟨?_, ff0, ffi, fs1⟩
            have : f1 - f0 ≠ 0 := by omega
            simp [Comp.ok, this]
          · by_cases c2 : f1 - f0 < -1
            · simp only [c1, c2, if_true, if_false]
              have e : -(f1 - f0) = f0 - f1 := by omega
              refine ⟨?_, ff0, ffi, e ▸ fs2⟩
              have : f1 - f0 ≠ 0 := by omega
              simp [Comp.ok, this]
            · simp only [c1, c2, if_false]
              exact ⟨rfl, ff0, ffi⟩
        · refine ih _ (by simp at hl ⊢; omega) (fun a ha b hb => hfit a ?_ b ?_) g hg
          · exact List.mem_of_mem_drop ha
          · exact List.mem_of_mem_drop hb

theorem groups_ne_nil (l : List Int) (h : l ≠ []) : groups l ≠ [] :=
  groupsAux_ne_nil l.length l h (Nat.le_refl _)

/-- every loop iteration consumes a non-empty prefix and emits a group denoting exactly
    that prefix: for a duplicate-free list the groups' expansions concatenate to the list -/
theorem groups_expand (l : List Int) (h : l.Nodup) :
    (groups l).flatMap (fun g => expand (compOfGroup g)) = l :=
  groupsAux_expand l.length l (Nat.le_refl _) h

set_option linter.unusedVariables false in
/-- the numbers written are members of the list; the steps are differences of members -/
theorem groups_valid (l : List Int) (h : l.Nodup)
    (hfit : ∀ a ∈ l, ∀ b ∈ l, Fits a ∧ Fits (a - b)) :
    ∀ g ∈ groups l, (compOfGroup g).valid :=
  groupsAux_valid l.length l (Nat.le_refl _) hfit

/-! ### sorting -/

theorem mem_insertSorted (x v : Int) (l : List Int) : v ∈ insertSorted x l ↔ v = x ∨ v ∈ l := by
  induction l with
  | nil => simp [insertSorted]
  | cons y ys ih =>
    unfold insertSorted
    by_cases h1 : x < y
    · simp [h1]
    · by_cases h2 : x = y
      · subst h2; simp
      · simp only [h1, h2, if_false, List.mem_cons, ih]
        constructor
        · rintro (h | h | h) <;> simp [h]
        · rintro (h | h | h) <;> simp [h]

theorem mem_sortedSet (v : Int) (l : List Int) : v ∈ sortedSet l ↔ v ∈ l := by
  induction l with
  | nil => simp [sortedSet]
  | cons x xs ih =>
    show v ∈ insertSorted x (sortedSet xs) ↔ _
    rw [mem_insertSorted, ih]; simp

theorem insertInt_eq (x : Int) (l : List Int) (h : x ∉ l) : insertInt x l = insertSorted x l := by
  induction l with
  | nil => rfl
  | cons y ys ih =>
    have hxy : x ≠ y := fun e => h (e ▸ List.mem_cons_self)
    have hys : x ∉ ys := fun e => h (List.mem_cons_of_mem _ e)
    unfold insertInt insertSorted
    by_cases h1 : x < y
    · have : x ≤ y := by omega
      simp [h1, this]
    · have : ¬ x ≤ y := by omega
      simp only [h1, this, hxy, if_false, ih hys]

theorem sortInts_eq_sortedSet (l : List Int) (h : l.Nodup) : sortInts l = sortedSet l := by
  induction l with
  | nil => rfl
  | cons x xs ih =>
    have hn := List.nodup_cons.mp h
    show insertInt x (sortInts xs) = insertSorted x (sortedSet xs)
    rw [ih hn.2]
    apply insertInt_eq
    rw [mem_sortedSet]; exact hn.1

theorem insertSorted_sorted (x : Int) (l : List Int) (h : l.Pairwise (· < ·)) :
    (insertSorted x l).Pairwise (· < ·) := by
  induction l with
  | nil => simp [insertSorted]
  | cons y ys ih =>
    have hp := List.pairwise_cons.mp h
    unfold insertSorted
    by_cases h1 : x < y
    · simp only [h1, if_true]
      refine List.pairwise_cons.mpr ⟨?_, h⟩
      intro v hv
      rcases List.mem_cons.mp hv with rfl | hv
      · exact h1
      · have := hp.1 v hv; omega
    · by_cases h2 : x = y
      · subst h2
        have : ¬ x < x := by omega
        simpa [this] using h
      · simp only [h1, h2, if_false]
        refine List.pairwise_cons.mpr ⟨?_, ih hp.2⟩
        intro v hv
        rcases (mem_insertSorted x v ys).mp hv with rfl | hv
        · omega
        · exact hp.1 v hv

theorem sortedSet_sorted (l : List Int) : (sortedSet l).Pairwise (· < ·) := by
  induction l with
  | nil => simp [sortedSet]
  | cons x xs ih => exact insertSorted_sorted x _ ih

theorem sortedSet_nodup (l : List Int) : (sortedSet l).Nodup := by
  unfold List.Nodup
  exact (sortedSet_sorted l).imp (fun h => by omega)

/-! ### the written text -/

def Clean (t : Bytes) : Prop := ∀ c ∈ t, isJunk c = false

theorem digit_clean {d : Char} (h : isDigit d = true) : isJunk d = false := by
  by_cases h1 : d = '#'
  · subst h1; revert h; decide
  · by_cases h2 : d = '@'
    · subst h2; revert h; decide
    · by_cases h3 : d = ' '
      · subst h3; revert h; decide
      · simp [isJunk, h1, h2, h3]

theorem clean_append {a b : Bytes} (ha : Clean a) (hb : Clean b) : Clean (a ++ b) := by
  intro c hc
  rcases List.mem_append.mp hc with h | h
  · exact ha c h
  · exact hb c h

theorem clean_cons {c : Char} {b : Bytes} (hc : isJunk c = false) (hb : Clean b) : Clean (c :: b) := by
  intro d hd
  rcases List.mem_cons.mp hd with rfl | h
  · exact hc
  · exact hb d h

theorem numText_clean {n : Int} {t : Bytes} (h : NumText n t) : Clean t := by
  obtain ⟨neg, ds, _, hd, rfl, _⟩ := h
  apply clean_append
  · cases neg
    · intro c hc; simp at hc
    · intro c hc; simp at hc; subst hc; decide
  · intro c hc; exact digit_clean (hd c hc)

theorem compText_clean {c : Comp} {p : Bytes} (h : CompText c p) : Clean p := by
  obtain ⟨m, hm, rfl⟩ := h
  cases hm with
  | single ha => exact numText_clean ha
  | range ha hb =>
    exact clean_append (numText_clean ha) (clean_cons (by decide) (numText_clean hb))
  | stepped ha hb hn hm =>
    refine clean_append (clean_append (numText_clean ha) (clean_cons (by decide) (numText_clean hb)))
      (clean_cons ?_ (numText_clean hn))
    rcases hm with rfl | rfl | rfl <;> decide

theorem joinWith_clean (parts : List Bytes) (h : ∀ p ∈ parts, Clean p) : Clean (joinWith ',' parts) := by
  induction parts with
  | nil => intro c hc; simp [joinWith] at hc
  | cons p ps ih =>
    cases ps with
    | nil => simpa [joinWith] using h p (by simp)
    | cons q qs =>
      show Clean (p ++ ',' :: joinWith ',' (q :: qs))
      exact clean_append (h p (by simp))
        (clean_cons (by decide) (ih (fun r hr => h r (List.mem_cons_of_mem _ hr))))

theorem stripJunk_clean (t : Bytes) (h : Clean t) : stripJunk t = t := by
  unfold stripJunk
  rw [List.filter_eq_self]
  intro c hc
  simp [h c hc]

theorem forall2_groups (z : Int) (gs : List Group) :
    Forall2 CompText (gs.map compOfGroup) (gs.map (renderGroup z)) := by
  induction gs with
  | nil => exact .nil
  | cons g gs ih => exact .cons (renderGroup_compText z g) ih

theorem roundtrip_core (l : List Int) (z : Int) (hne : l ≠ []) (hnd : l.Nodup)
    (hfit : ∀ a ∈ l, ∀ b ∈ l, Fits a ∧ Fits (a - b)) :
    ∃ fs, FrameSet.parse (joinWith ',' ((groups l).map (renderGroup z))) = .ok fs ∧ fs.frames = l := by
  have hcs : (groups l).map compOfGroup ≠ [] := by
    intro h; exact groups_ne_nil l hne (List.map_eq_nil_iff.mp h)
  have hrt : RangeText ((groups l).map compOfGroup) (joinWith ',' ((groups l).map (renderGroup z))) := by
    refine ⟨(groups l).map (renderGroup z), forall2_groups z _, ?_⟩
    apply stripJunk_clean
    apply joinWith_clean
    intro p hp
    obtain ⟨g, _, rfl⟩ := List.mem_map.mp hp
    exact compText_clean (renderGroup_compText z g)
  have hv : ∀ c ∈ (groups l).map compOfGroup, c.valid := by
    intro c hc
    obtain ⟨g, hg, rfl⟩ := List.mem_map.mp hc
    exact groups_valid l hnd hfit g hg
  obtain ⟨fs, hfs, hfr, _⟩ := Gfs.Props.C01.C01_expand _ _ hcs hrt hv
  refine ⟨fs, hfs, ?_⟩
  rw [hfr, denote, List.flatMap_map, groups_expand l hnd, dedupFirst_of_nodup l hnd]

theorem f2r_eq (l : List Int) (s : Bool) (z : Int) (hne : l ≠ []) :
    framesToFrameRange l s z =
      joinWith ',' ((groups (if s then sortInts l else l)).map (renderGroup z)) := by
  match l, hne with
  | [a], _ =>
    have : (if s = true then sortInts [a] else [a]) = [a] := by cases s <;> rfl
    rw [this]
    show zfillInt a z = joinWith ',' ((groupsAux 1 [a]).map (renderGroup z))
    rw [groupsAux_one]; rfl
  | a :: b :: rest, _ => rfl

theorem f2r_nil (s : Bool) (z : Int) : framesToFrameRange [] s z = [] := rfl

/-- C09 core: the written range parses back to exactly the list, in the given order -/
theorem f2r_roundtrip (l : List Int) (z : Int) (hne : l ≠ []) (hnd : l.Nodup)
    (hfit : ∀ a ∈ l, ∀ b ∈ l, Fits a ∧ Fits (a - b)) :
    ∃ fs, FrameSet.parse (framesToFrameRange l false z) = .ok fs ∧ fs.frames = l := by
  rw [f2r_eq l false z hne]
  exact roundtrip_core l z hne hnd hfit

/-- … and in ascending order when sorted = true -/
theorem f2r_sorted (l : List Int) (z : Int) (hne : l ≠ []) (hnd : l.Nodup)
    (hfit : ∀ a ∈ l, ∀ b ∈ l, Fits a ∧ Fits (a - b)) :
    ∃ fs, FrameSet.parse (framesToFrameRange l true z) = .ok fs ∧ fs.frames = sortedSet l := by
  rw [f2r_eq l true z hne]
  simp only [if_true]
  rw [sortInts_eq_sortedSet l hnd]
  refine roundtrip_core (sortedSet l) z ?_ (sortedSet_nodup l) ?_
  · obtain ⟨a, ha⟩ := List.exists_mem_of_ne_nil l hne
    intro h
    have := (mem_sortedSet a l).mpr ha
    rw [h] at this
    simp at this
  · intro a ha b hb
    exact hfit a ((mem_sortedSet a l).mp ha) b ((mem_sortedSet b l).mp hb)

end Compress

/-! ### interface -/

theorem zfillInt_numText (f z : Int) : NumText f (zfillInt f z) :=
  Compress.zfillInt_numText f z

theorem zfillInt_length (f z : Int) (h : 2 ≤ z) : z ≤ (zfillInt f z).length :=
  Compress.zfillInt_length f z h

theorem renderGroup_compText (z : Int) (g : Group) : CompText (compOfGroup g) (renderGroup z g) :=
  Compress.renderGroup_compText z g

theorem groups_ne_nil (l : List Int) (h : l ≠ []) : groups l ≠ [] :=
  Compress.groups_ne_nil l h

/-- every loop iteration consumes a non-empty prefix and emits a group denoting exactly
    that prefix: for a duplicate-free list the groups' expansions concatenate to the list -/
theorem groups_expand (l : List Int) (h : l.Nodup) :
    (groups l).flatMap (fun g => expand (compOfGroup g)) = l :=
  Compress.groups_expand l h

/-- the numbers written are members of the list; the steps are differences of members -/
theorem groups_valid (l : List Int) (h : l.Nodup)
    (hfit : ∀ a ∈ l, ∀ b ∈ l, Fits a ∧ Fits (a - b)) :
    ∀ g ∈ groups l, (compOfGroup g).valid :=
  Compress.groups_valid l h hfit

theorem sortInts_eq_sortedSet (l : List Int) (h : l.Nodup) : sortInts l = sortedSet l :=
  Compress.sortInts_eq_sortedSet l h

theorem sortedSet_nodup (l : List Int) : (sortedSet l).Nodup :=
  Compress.sortedSet_nodup l

theorem f2r_nil (s : Bool) (z : Int) : framesToFrameRange [] s z = [] :=
  Compress.f2r_nil s z

/-- C09 core: the written range parses back to exactly the list, in the given order -/
theorem f2r_roundtrip (l : List Int) (z : Int) (hne : l ≠ []) (hnd : l.Nodup)
    (hfit : ∀ a ∈ l, ∀ b ∈ l, Fits a ∧ Fits (a - b)) :
    ∃ fs, FrameSet.parse (framesToFrameRange l false z) = .ok fs ∧ fs.frames = l :=
  Compress.f2r_roundtrip l z hne hnd hfit

/-- … and in ascending order when sorted = true -/
theorem f2r_sorted (l : List Int) (z : Int) (hne : l ≠ []) (hnd : l.Nodup)
    (hfit : ∀ a ∈ l, ∀ b ∈ l, Fits a ∧ Fits (a - b)) :
    ∃ fs, FrameSet.parse (framesToFrameRange l true z) = .ok fs ∧ fs.frames = sortedSet l :=
  Compress.f2r_sorted l z hne hnd hfit

end Gfs.Proofs
