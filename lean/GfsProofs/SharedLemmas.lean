/-
  GfsProofs.SharedLemmas — read-only threads are schedule-independent (C16).
-/
import GfsModel.Shared

namespace Gfs.Proofs
open Gfs.Shared

/-- one step of a thread without write actions: memory unchanged, `alone` invariant,
    and the remaining actions are still write-free -/
theorem stepThread_readonly (m : Mem) (t : Thread)
    (h : ∀ a ∈ t.todo, a.isWrite = false) :
    (stepThread m t).1 = m ∧ alone m (stepThread m t).2 = alone m t ∧
    (∀ a ∈ (stepThread m t).2.todo, a.isWrite = false) := by
  obtain ⟨todo, seen⟩ := t
  cases todo with
  | nil => exact ⟨rfl, rfl, h⟩
  | cons a rest =>
    cases a with
    | read v =>
      refine ⟨rfl, ?_, ?_⟩
      · simp [stepThread, alone, List.append_assoc]
      · intro a ha
        exact h a (List.mem_cons_of_mem _ ha)
    | write v x =>
      have := h (.write v x) (List.mem_cons_self ..)
      simp [Action.isWrite] at this

/-- one scheduler step of a write-free system -/
theorem step_readonly (s : Sys) (i : Nat)
    (hro : ∀ t ∈ s.threads, ∀ a ∈ t.todo, a.isWrite = false) :
    (step s i).mem = s.mem ∧
    (step s i).threads.length = s.threads.length ∧
    (∀ t ∈ (step s i).threads, ∀ a ∈ t.todo, a.isWrite = false) ∧
    (∀ (j : Nat) (t' : Thread), (step s i).threads[j]? = some t' →
      ∃ t, s.threads[j]? = some t ∧ alone s.mem t' = alone s.mem t) := by
  unfold step
  cases hi : s.threads[i]? with
  | none =>
    refine ⟨rfl, rfl, hro, ?_⟩
    intro j t' h
    exact ⟨t', h, rfl⟩
  | some t =>
    have htmem : t ∈ s.threads := List.mem_of_getElem? hi
    obtain ⟨h1, h2, h3⟩ := stepThread_readonly s.mem t (hro t htmem)
    refine ⟨h1, by simp, ?_, ?_⟩
    · intro u hu
      rcases List.mem_or_eq_of_mem_set hu with hu | hu
      · exact hro u hu
      · subst hu; exact h3
    · intro j t' hj
      simp only [List.getElem?_set] at hj
      by_cases hij : i = j
      · subst hij
        rw [if_pos rfl] at hj
        split at hj
        · cases hj
          exact ⟨t, hi, h2⟩
        · cases hj
      · rw [if_neg hij] at hj
        exact ⟨t', hj, rfl⟩

/-- the invariant carried along a whole schedule -/
theorem run_readonly (sched : List Nat) : ∀ (s : Sys),
    (∀ t ∈ s.threads, ∀ a ∈ t.todo, a.isWrite = false) →
    (run s sched).mem = s.mem ∧
    (run s sched).threads.length = s.threads.length ∧
    (∀ t ∈ (run s sched).threads, ∀ a ∈ t.todo, a.isWrite = false) ∧
    (∀ (j : Nat) (t' : Thread), (run s sched).threads[j]? = some t' →
      ∃ t, s.threads[j]? = some t ∧ alone s.mem t' = alone s.mem t) := by
  induction sched with
  | nil =>
    intro s hro
    refine ⟨rfl, rfl, hro, ?_⟩
    intro j t' h
    exact ⟨t', h, rfl⟩
  | cons i rest ih =>
    intro s hro
    obtain ⟨a1, a2, a3, a4⟩ := step_readonly s i hro
    obtain ⟨b1, b2, b3, b4⟩ := ih (step s i) a3
    have hrun : run s (i :: rest) = run (step s i) rest := rfl
    rw [hrun]
    refine ⟨b1.trans a1, b2.trans a2, b3, ?_⟩
    intro j t' hj
    obtain ⟨u, hu, hu'⟩ := b4 j t' hj
    obtain ⟨t, ht, ht'⟩ := a4 j u hu
    rw [a1] at hu'
    exact ⟨t, ht, hu'.trans ht'⟩

/-- If no action of any thread writes shared state, then under EVERY schedule the memory is
    unchanged and whatever each thread has read is a prefix of what it reads when run alone;
    once a thread has finished it has read exactly that. -/
theorem readonly_schedule_independent (s : Sys) (sched : List Nat)
    (hro : ∀ t ∈ s.threads, ∀ a ∈ t.todo, a.isWrite = false) :
    (run s sched).mem = s.mem ∧
    (run s sched).threads.length = s.threads.length ∧
    ∀ (i : Nat) (t t' : Thread), s.threads[i]? = some t → (run s sched).threads[i]? = some t' →
      alone s.mem t' = alone s.mem t ∧ (t'.todo = [] → t'.seen = alone s.mem t) := by
  obtain ⟨h1, h2, _, h4⟩ := run_readonly sched s hro
  refine ⟨h1, h2, ?_⟩
  intro i t t' ht ht'
  obtain ⟨u, hu, hu'⟩ := h4 i t' ht'
  rw [ht] at hu
  cases hu
  refine ⟨hu', ?_⟩
  intro hnil
  rw [← hu']
  simp [alone, hnil]

/-- and no two threads ever perform conflicting accesses (there is no write at all) -/
theorem readonly_no_conflict (s : Sys) (sched : List Nat)
    (hro : ∀ t ∈ s.threads, ∀ a ∈ t.todo, a.isWrite = false) :
    ∀ t ∈ (run s sched).threads, ∀ a ∈ t.todo, a.isWrite = false :=
  (run_readonly sched s hro).2.2.1

/-- why the lazily filled cache of the unrepaired code was NOT safe: two threads running
    "read; if unset write" can interleave so that one observes the other's intermediate state.
    Concretely: with a write in the program, a schedule exists under which a thread reads a
    value it would never read alone. -/
theorem lazy_cache_racy :
    ∃ (s : Sys) (sched : List Nat) (t' : Thread),
      (run s sched).threads[1]? = some t' ∧ t'.todo = [] ∧
      ∃ t, s.threads[1]? = some t ∧ t'.seen ≠ alone s.mem t := by
  refine ⟨⟨fun _ => 0, [⟨[.write 0 1, .write 0 2], []⟩, ⟨[.read 0], []⟩]⟩, [0, 1],
    ⟨[], [1]⟩, ?_, rfl, ⟨[.read 0], []⟩, rfl, ?_⟩
  · simp [run, step, stepThread]
  · simp [alone]

end Gfs.Proofs
