/-
  GfsProofs.ParseSem — the semantic half of C01: handleMatch / handleMatches append exactly
  the expansion of each component, keeping a frame at its first occurrence only.
-/
import GfsModel.FrameSet
import GfsSpec.Grammar
import GfsSpec.WF
import GfsProofs.BlocksLemmas
import GfsProofs.ParseSyn

namespace Gfs.Proofs
open Gfs Gfs.Spec

/-- appending a list of values, keeping only first occurrences -/
def appendL (L X : List Int) : List Int := L ++ (dedupFirst X).filter (fun v => !L.contains v)

theorem filter_true' (l : List Int) : List.filter (fun _ => true) l = l :=
  List.filter_eq_self.mpr (by simp)

theorem mem_dedupFirst (X : List Int) (v : Int) : v ∈ dedupFirst X ↔ v ∈ X := by
  induction X with
  | nil => simp [dedupFirst]
  | cons x xs ih =>
    simp only [dedupFirst, List.mem_cons, List.mem_filter, ih]
    by_cases h : v = x <;> simp [h]

theorem dedupFirst_append (A B : List Int) :
    dedupFirst (A ++ B) = dedupFirst A ++ (dedupFirst B).filter (fun v => !A.contains v) := by
  induction A with
  | nil => simp [dedupFirst, filter_true']
  | cons a A ih =>
    simp only [List.cons_append, dedupFirst, ih, List.filter_append, List.filter_filter]
    congr 2
    apply List.filter_congr
    intro v _
    by_cases h : v = a <;> simp [h]

theorem dedupFirst_of_nodup (X : List Int) (h : X.Nodup) : dedupFirst X = X := by
  induction X with
  | nil => rfl
  | cons x xs ih =>
    rw [List.nodup_cons] at h
    rw [dedupFirst, ih h.2]
    congr 1
    rw [List.filter_eq_self]
    intro a ha
    have : a ≠ x := fun hh => h.1 (hh ▸ ha)
    simp [this]

theorem appendL_nil (L : List Int) : appendL L [] = L := by simp [appendL, dedupFirst]

theorem appendL_appendL (L X Y : List Int) : appendL (appendL L X) Y = appendL L (X ++ Y) := by
  unfold appendL
  rw [dedupFirst_append, List.filter_append, List.filter_filter, List.append_assoc]
  congr 2
  apply List.filter_congr
  intro v _
  by_cases h1 : v ∈ L <;> by_cases h2 : v ∈ X <;> simp [h1, h2, mem_dedupFirst]

theorem fold_appendL (cs : List Comp) (L : List Int) :
    cs.foldl (fun L c => appendL L (expand c)) L = appendL L (cs.flatMap expand) := by
  induction cs generalizing L with
  | nil => simp [appendL_nil]
  | cons c cs ih => simp [List.foldl_cons, ih, appendL_appendL]

theorem denote_eq_fold (cs : List Comp) :
    denote cs = cs.foldl (fun L c => appendL L (expand c)) [] := by
  rw [fold_appendL]
  simp [denote, appendL, filter_true']


/-! ### enum facts -/

theorem enum_nodup (a b m : Int) : (enum a b m).Nodup := by
  by_cases hm : 0 < m
  · have hw : WellSigned ⟨a, b, if a ≤ b then m else -m⟩ := by
      unfold WellSigned
      by_cases h : a ≤ b
      · left; simp [h, hm]
      · right; simp only [if_neg h]; omega
    have h := rng_nodup _ hw
    have e : (((if a ≤ b then m else -m).natAbs : Nat) : Int) = m := by split <;> omega
    simpa [rngEnum, e] using h
  · unfold enum
    split
    · rw [up, dif_neg (by omega)]; simp
    · rw [down, dif_neg (by omega)]; simp

theorem enum_self (n m : Int) (hm : 0 < m) : enum n n m = [n] := by
  unfold enum
  rw [if_pos (Int.le_refl n), up, dif_pos ⟨Int.le_refl n, hm⟩, up, dif_neg (by omega)]

theorem appendU_eq_appendL (L : List Int) (s e st : Int) (hst : st ≠ 0) :
    appendU L s e st = appendL L (enum s e st.natAbs) := by
  unfold appendU appendL
  rw [if_neg hst, dedupFirst_of_nodup _ (enum_nodup _ _ _)]

theorem appendUnique_appendL (bl : Blocks) (h : WF bl) (s e st : Int) (hst : st ≠ 0) :
    WF (Blocks.appendUnique bl s e st) ∧
    blocksEnum (Blocks.appendUnique bl s e st) = appendL (blocksEnum bl) (enum s e st.natAbs) := by
  have := appendUnique_spec bl h s e st
  rw [appendU_eq_appendL _ _ _ _ hst] at this
  exact this

theorem appendUnique_single (bl : Blocks) (h : WF bl) (v : Int) :
    WF (Blocks.appendUnique bl v v 1) ∧
    blocksEnum (Blocks.appendUnique bl v v 1) = appendL (blocksEnum bl) [v] := by
  have := appendUnique_appendL bl h v v 1 (by omega)
  rw [show ((1 : Int).natAbs : Int) = 1 from rfl, enum_self v 1 (by omega)] at this
  exact this

theorem mem_up_bounds (a b m : Int) : ∀ w, w ∈ up a b m → a ≤ w ∧ w ≤ b := by
  fun_induction up a b m with
  | case1 a hc ih =>
    intro w h
    simp only [List.mem_cons] at h
    rcases h with rfl | h
    · omega
    · have := ih w h; omega
  | case2 a hc => intro w h; simp at h

theorem mem_down_bounds (a b m : Int) : ∀ w, w ∈ down a b m → b ≤ w ∧ w ≤ a := by
  fun_induction down a b m with
  | case1 a hc ih =>
    intro w h
    simp only [List.mem_cons] at h
    rcases h with rfl | h
    · omega
    · have := ih w h; omega
  | case2 a hc => intro w h; simp at h


/-! ### the `y` loop -/

theorem fillLoop_up (e m : Int) (hm : 0 < m) (v : Int) :
    ∀ (bl : Blocks) (skip : Int), WF bl → v ≤ skip →
      WF (fillLoop m bl skip (up v e 1)) ∧
      blocksEnum (fillLoop m bl skip (up v e 1)) =
        appendL (blocksEnum bl) ((up v e 1).filter (fun w => !(up skip e m).contains w)) := by
  fun_induction up v e 1 with
  | case1 v hc ih =>
    intro bl skip hwf hle
    by_cases hvs : v = skip
    · subst hvs
      rw [fillLoop, if_pos rfl]
      obtain ⟨h1, h2⟩ := ih bl (v + m) hwf (by omega)
      refine ⟨h1, ?_⟩
      rw [h2]
      congr 1
      rw [up.eq_1 v e m, dif_pos ⟨hc.1, hm⟩]
      simp only [List.filter_cons, List.contains_cons, BEq.rfl, Bool.true_or, Bool.not_true,
        Bool.false_eq_true, if_false]
      apply List.filter_congr
      intro w hw
      have := mem_up_bounds _ _ _ w hw
      have hne : w ≠ v := by omega
      simp [hne]
    · have hlt : v < skip := by omega
      rw [fillLoop, if_neg hvs]
      obtain ⟨hw1, he1⟩ := appendUnique_single bl hwf v
      obtain ⟨h1, h2⟩ := ih _ skip hw1 (by omega)
      refine ⟨h1, ?_⟩
      rw [h2, he1, appendL_appendL]
      congr 1
      have hnm : v ∉ up skip e m := fun hmem => by
        have := mem_up_bounds _ _ _ v hmem; omega
      simp [hnm]
  | case2 v hc =>
    intro bl skip hwf hle
    simp [fillLoop, appendL_nil, hwf]

theorem fillLoop_down (e m : Int) (hm : 0 < m) (v : Int) :
    ∀ (bl : Blocks) (skip : Int), WF bl → skip ≤ v →
      WF (fillLoop (-m) bl skip (down v e 1)) ∧
      blocksEnum (fillLoop (-m) bl skip (down v e 1)) =
        appendL (blocksEnum bl) ((down v e 1).filter (fun w => !(down skip e m).contains w)) := by
  fun_induction down v e 1 with
  | case1 v hc ih =>
    intro bl skip hwf hle
    by_cases hvs : v = skip
    · subst hvs
      rw [fillLoop, if_pos rfl]
      obtain ⟨h1, h2⟩ := ih bl (v + -m) hwf (by omega)
      refine ⟨h1, ?_⟩
      rw [h2]
      congr 1
      rw [down.eq_1 v e m, dif_pos ⟨hc.1, hm⟩, show v + -m = v - m by omega]
      simp only [List.filter_cons, List.contains_cons, BEq.rfl, Bool.true_or, Bool.not_true,
        Bool.false_eq_true, if_false]
      apply List.filter_congr
      intro w hw
      have := mem_down_bounds _ _ _ w hw
      have hne : w ≠ v := by omega
      simp [hne]
    · have hlt : skip < v := by omega
      rw [fillLoop, if_neg hvs]
      obtain ⟨hw1, he1⟩ := appendUnique_single bl hwf v
      obtain ⟨h1, h2⟩ := ih _ skip hw1 (by omega)
      refine ⟨h1, ?_⟩
      rw [h2, he1, appendL_appendL]
      congr 1
      have hnm : v ∉ down skip e m := fun hmem => by
        have := mem_down_bounds _ _ _ v hmem; omega
      simp [hnm]
  | case2 v hc =>
    intro bl skip hwf hle
    simp [fillLoop, appendL_nil, hwf]


theorem fill_spec (bl : Blocks) (hwf : WF bl) (s e m : Int) (hm : 0 < m) :
    let dir : Int := if s > e then -1 else 1
    WF (fillLoop (m * dir) bl s (mkRng s e dir).iter) ∧
    blocksEnum (fillLoop (m * dir) bl s (mkRng s e dir).iter) =
      appendL (blocksEnum bl) ((enum s e 1).filter (fun v => !(enum s e m).contains v)) := by
  intro dir
  have hws : WellSigned (mkRng s e dir) := by
    unfold WellSigned mkRng
    by_cases h : s > e
    · right; simp only [dir, if_pos h]; simp; omega
    · left; simp only [dir, if_neg h]; simp; omega
  have hit : (mkRng s e dir).iter = enum s e 1 := by
    rw [rng_iter _ hws]
    have : (((mkRng s e dir).step.natAbs : Nat) : Int) = 1 := by
      unfold mkRng; simp only [dir]; split <;> simp
    simp only [rngEnum, this]
    rfl
  rw [hit]
  unfold enum
  by_cases h : s ≤ e
  · have hd : dir = 1 := by simp only [dir]; rw [if_neg (by omega)]
    rw [hd, Int.mul_one]
    simp only [if_pos h]
    exact fillLoop_up e m hm s bl s hwf (Int.le_refl s)
  · have hd : dir = -1 := by simp only [dir]; rw [if_pos (by omega)]
    rw [hd, show m * -1 = -m by omega]
    simp only [if_neg h]
    exact fillLoop_down e m hm s bl s hwf (Int.le_refl s)

/-! ### the `:` loop -/

theorem staggerLoop_spec (s e : Int) (k : Nat) : ∀ (bl : Blocks), WF bl →
    WF (staggerLoop s e k bl) ∧
    blocksEnum (staggerLoop s e k bl) = appendL (blocksEnum bl) (stagger s e k) := by
  induction k with
  | zero => intro bl hwf; simp [staggerLoop, stagger, appendL_nil, hwf]
  | succ k ih =>
    intro bl hwf
    obtain ⟨hw1, he1⟩ := appendUnique_appendL bl hwf s e ((k : Int) + 1) (by omega)
    obtain ⟨h1, h2⟩ := ih _ hw1
    rw [staggerLoop, stagger]
    refine ⟨h1, ?_⟩
    rw [h2, he1, appendL_appendL]
    have : ((((k : Int) + 1).natAbs : Nat) : Int) = (k : Int) + 1 := by omega
    rw [this]


/-! ### handleMatch -/

theorem parseInt_fits (n : Int) (t : Bytes) (h : NumText n t) (hf : Fits n) :
    parseInt t = .ok n := by
  unfold parseInt
  unfold Fits at hf
  rw [atoi_numText n t h, if_pos hf]

theorem parseInt_nofit (n : Int) (t : Bytes) (h : NumText n t) (hf : ¬ Fits n) :
    parseInt t = .error .int := by
  unfold parseInt
  unfold Fits at hf
  rw [atoi_numText n t h, if_neg hf]

theorem handleMatch_valid (bl : Blocks) (hwf : WF bl) (c : Comp) (m : Match)
    (hm : MatchOf c m) (hv : c.valid) :
    ∃ bl', handleMatch bl m = .ok bl' ∧ WF bl' ∧
      blocksEnum bl' = appendL (blocksEnum bl) (expand c) := by
  cases hm with
  | single hn =>
    rename_i n a
    have hf : Fits n := hv.2
    obtain ⟨h1, h2⟩ := appendUnique_single bl hwf n
    refine ⟨_, ?_, h1, ?_⟩
    · simp [handleMatch, parseInt_fits n a hn hf, bind, Except.bind, pure, Except.pure]
    · rw [h2]; rfl
  | range ha hb =>
    rename_i a b ta tb
    obtain ⟨hfa, hfb⟩ : Fits a ∧ Fits b := hv.2
    obtain ⟨h1, h2⟩ := appendUnique_appendL bl hwf a b (if a > b then -1 else 1)
      (by split <;> omega)
    refine ⟨_, ?_, h1, ?_⟩
    · simp [handleMatch, parseInt_fits a ta ha hfa, parseInt_fits b tb hb hfb, bind, Except.bind,
        pure, Except.pure]
    · rw [h2]
      have : (((if a > b then (-1 : Int) else 1).natAbs : Nat) : Int) = 1 := by split <;> rfl
      rw [this]; rfl
  | stepped ha hb hn hmod =>
    rename_i a b n ta tb tn mod
    obtain ⟨hfa, hfb, hfn⟩ : Fits a ∧ Fits b ∧ Fits n := hv.2
    have hn0 : n ≠ 0 := by
      have := hv.1
      simp [Comp.ok] at this
      exact this.2
    have hpa := parseInt_fits a ta ha hfa
    have hpb := parseInt_fits b tb hb hfb
    have hpn := parseInt_fits n tn hn hfn
    have habs : (if n < 0 then -n else n) = (n.natAbs : Int) := by split <;> omega
    have hpos : 0 < (n.natAbs : Int) := by omega
    by_cases hx : mod = 'x'
    · obtain ⟨h1, h2⟩ := appendUnique_appendL bl hwf a b (n.natAbs : Int) (by omega)
      refine ⟨_, ?_, h1, ?_⟩
      · simp [handleMatch, hpa, hpb, hpn, hn0, hx, habs, bind, Except.bind, pure, Except.pure]
      · rw [h2]; simp [expand, hx]
    · by_cases hy : mod = 'y'
      · obtain ⟨h1, h2⟩ := fill_spec bl hwf a b (n.natAbs : Int) hpos
        refine ⟨_, ?_, h1, ?_⟩
        · simp [handleMatch, hpa, hpb, hpn, hn0, hy, habs, bind, Except.bind, pure, Except.pure]
        · rw [h2]; simp [expand, hy]
      · obtain ⟨h1, h2⟩ := staggerLoop_spec a b n.natAbs bl hwf
        refine ⟨_, ?_, h1, ?_⟩
        · simp [handleMatch, hpa, hpb, hpn, hn0, hx, hy, habs, bind, Except.bind, pure, Except.pure]
        · rw [h2]; simp [expand, hx, hy]


theorem handleMatch_invalid (bl : Blocks) (c : Comp) (m : Match)
    (hm : MatchOf c m) (hv : ¬ c.valid) : ∃ e, handleMatch bl m = .error e := by
  cases hm with
  | single hn =>
    rename_i n a
    have hf : ¬ Fits n := fun h => hv ⟨rfl, h⟩
    exact ⟨.int, by simp [handleMatch, parseInt_nofit n a hn hf, bind, Except.bind]⟩
  | range ha hb =>
    rename_i a b ta tb
    by_cases hfa : Fits a
    · have hfb : ¬ Fits b := fun h => hv ⟨rfl, hfa, h⟩
      exact ⟨.int, by simp [handleMatch, parseInt_fits a ta ha hfa, parseInt_nofit b tb hb hfb,
        bind, Except.bind]⟩
    · exact ⟨.int, by simp [handleMatch, parseInt_nofit a ta ha hfa, bind, Except.bind]⟩
  | stepped ha hb hn hmod =>
    rename_i a b n ta tb tn mod
    by_cases hfn : Fits n
    · have hpn := parseInt_fits n tn hn hfn
      by_cases hn0 : n = 0
      · exact ⟨.zeroStep, by
          simp [handleMatch, hpn, hn0, bind, Except.bind, throw, throwThe, MonadExceptOf.throw]⟩
      · by_cases hfa : Fits a
        · have hfb : ¬ Fits b := fun h => hv ⟨by
            rcases hmod with h | h | h <;> simp [Comp.ok, h, hn0], hfa, h, hfn⟩
          exact ⟨.int, by
            simp [handleMatch, hpn, hn0, parseInt_fits a ta ha hfa, parseInt_nofit b tb hb hfb,
              bind, Except.bind]⟩
        · exact ⟨.int, by
            simp [handleMatch, hpn, hn0, parseInt_nofit a ta ha hfa, bind, Except.bind]⟩
    · exact ⟨.int, by simp [handleMatch, parseInt_nofit n tn hn hfn, bind, Except.bind]⟩

theorem handleMatches_valid (bl : Blocks) (hwf : WF bl) (cs : List Comp) (ms : List Match)
    (h : Forall2 MatchOf cs ms) (hv : ∀ c ∈ cs, c.valid) :
    ∃ bl', handleMatches bl ms = .ok bl' ∧ WF bl' ∧
      blocksEnum bl' = cs.foldl (fun L c => appendL L (expand c)) (blocksEnum bl) := by
  induction h generalizing bl with
  | nil => exact ⟨bl, rfl, hwf, rfl⟩
  | @cons c m cs ms hab _ ih =>
    obtain ⟨bl1, hb1, hw1, he1⟩ := handleMatch_valid bl hwf c m hab (hv c (by simp))
    obtain ⟨bl2, hb2, hw2, he2⟩ := ih bl1 hw1 (fun c' hc' => hv c' (by simp [hc']))
    refine ⟨bl2, ?_, hw2, ?_⟩
    · simp [handleMatches, hb1, hb2, bind, Except.bind]
    · rw [he2, he1, List.foldl_cons]

theorem handleMatches_invalid (bl : Blocks) (cs : List Comp) (ms : List Match)
    (h : Forall2 MatchOf cs ms) (hv : ∃ c ∈ cs, ¬ c.valid) :
    ∃ e, handleMatches bl ms = .error e := by
  induction h generalizing bl with
  | nil => obtain ⟨c, hc, _⟩ := hv; simp at hc
  | @cons c m cs ms hab _ ih =>
    cases hm : handleMatch bl m with
    | error e => exact ⟨e, by simp [handleMatches, hm, bind, Except.bind]⟩
    | ok bl1 =>
      obtain ⟨c', hc', hnv⟩ := hv
      rcases List.mem_cons.mp hc' with rfl | hc'
      · obtain ⟨e, he⟩ := handleMatch_invalid bl c' m hab hnv
        rw [he] at hm; cases hm
      · obtain ⟨e, he⟩ := ih bl1 ⟨c', hc', hnv⟩
        exact ⟨e, by simp [handleMatches, hm, he, bind, Except.bind]⟩

end Gfs.Proofs
