/-
  GfsProofs.ListGroup — one bucket of the listing: the stable sort by width, the regrouping
  walk, and the exact cover of a bucket's files by its sequences (helpers for C05).
-/
import GfsProofs.ListTok

namespace Gfs.Proofs
open Gfs Gfs.Spec
namespace ListAux

/-! ### list helpers -/

theorem perm_flatMap_left {α β : Type} (l : List α) (f g : α → List β)
    (h : ∀ a ∈ l, (f a).Perm (g a)) : (l.flatMap f).Perm (l.flatMap g) := by
  induction l with
  | nil => exact List.Perm.refl _
  | cons a l ih =>
    rw [List.flatMap_cons, List.flatMap_cons]
    exact List.Perm.append (h a (by simp)) (ih (fun x hx => h x (by simp [hx])))

theorem nodup_of_map {α β : Type} (f : α → β) (l : List α) (h : (l.map f).Nodup) : l.Nodup := by
  unfold List.Nodup at h ⊢
  rw [List.pairwise_map] at h
  exact h.imp (fun hab e => hab (by rw [e]))

theorem sublist_flatMap_of_mem {α β : Type} (f : α → List β) (l : List α) (a : α) (h : a ∈ l) :
    (f a).Sublist (l.flatMap f) := by
  rw [List.flatMap_def]
  exact List.sublist_flatten_of_mem (List.mem_map.mpr ⟨a, h, rfl⟩)

/-! ### the ascending duplicate-free list of a duplicate-free list is a permutation of it -/

theorem insertSorted_perm (x : Int) (l : List Int) (h : x ∉ l) :
    (insertSorted x l).Perm (x :: l) := by
  induction l with
  | nil => exact List.Perm.refl _
  | cons y ys ih =>
    have hxy : x ≠ y := fun e => h (e ▸ List.mem_cons_self)
    have hys : x ∉ ys := fun e => h (List.mem_cons_of_mem _ e)
    unfold insertSorted
    by_cases h1 : x < y
    · simp only [h1, if_true]; exact List.Perm.refl _
    · simp only [h1, hxy, if_false]
      exact ((ih hys).cons y).trans (List.Perm.swap x y ys)

theorem sortedSet_perm_self (l : List Int) (h : l.Nodup) : (sortedSet l).Perm l := by
  induction l with
  | nil => exact List.Perm.refl _
  | cons x xs ih =>
    have hn := List.nodup_cons.mp h
    show (insertSorted x (sortedSet xs)).Perm (x :: xs)
    refine (insertSorted_perm x _ ?_).trans ((ih hn.2).cons x)
    rw [Compress.mem_sortedSet]; exact hn.1

/-! ### writing a list of frames always gives a range text that parses -/

theorem mem_insertInt (x v : Int) (l : List Int) : v ∈ insertInt x l ↔ v = x ∨ v ∈ l := by
  induction l with
  | nil => simp [insertInt]
  | cons y ys ih =>
    unfold insertInt
    by_cases h1 : x ≤ y
    · simp [h1]
    · simp only [h1, if_false, List.mem_cons, ih]
      constructor
      · rintro (h | h | h) <;> simp [h]
      · rintro (h | h | h) <;> simp [h]

theorem mem_sortInts (v : Int) (l : List Int) : v ∈ sortInts l ↔ v ∈ l := by
  induction l with
  | nil => simp [sortInts]
  | cons x xs ih =>
    show v ∈ insertInt x (sortInts xs) ↔ _
    rw [mem_insertInt, ih]; simp

theorem sortInts_ne_nil (l : List Int) (h : l ≠ []) : sortInts l ≠ [] := by
  obtain ⟨a, ha⟩ := List.exists_mem_of_ne_nil l h
  intro e
  have := (mem_sortInts a l).mpr ha
  rw [e] at this
  simp at this

theorem groups_parse (l : List Int) (z : Int) (hne : l ≠ [])
    (hfit : ∀ a ∈ l, ∀ b ∈ l, Fits a ∧ Fits (a - b)) :
    ∃ fs, FrameSet.parse (joinWith ',' ((groups l).map (renderGroup z))) = .ok fs := by
  have hcs : (groups l).map compOfGroup ≠ [] := by
    intro h; exact Compress.groups_ne_nil l hne (List.map_eq_nil_iff.mp h)
  have hrt : RangeText ((groups l).map compOfGroup) (joinWith ',' ((groups l).map (renderGroup z))) := by
    refine ⟨(groups l).map (renderGroup z), Compress.forall2_groups z _, ?_⟩
    apply Compress.stripJunk_clean
    apply Compress.joinWith_clean
    intro p hp
    obtain ⟨g, _, rfl⟩ := List.mem_map.mp hp
    exact Compress.compText_clean (renderGroup_compText z g)
  have hv : ∀ c ∈ (groups l).map compOfGroup, c.valid := by
    intro c hc
    obtain ⟨g, hg, rfl⟩ := List.mem_map.mp hc
    exact Compress.groupsAux_valid l.length l (Nat.le_refl _) hfit g hg
  obtain ⟨fs, hfs, _, _⟩ := Gfs.Props.C01.C01_expand _ _ hcs hrt hv
  exact ⟨fs, hfs⟩

theorem f2r_parses (l : List Int) (z : Int) (hne : l ≠ [])
    (hfit : ∀ a ∈ l, ∀ b ∈ l, Fits a ∧ Fits (a - b)) :
    ∃ fs, FrameSet.parse (framesToFrameRange l true z) = .ok fs := by
  rw [Compress.f2r_eq l true z hne]
  simp only [if_true]
  refine groups_parse (sortInts l) z (sortInts_ne_nil l hne) ?_
  intro a ha b hb
  exact hfit a ((mem_sortInts a l).mp ha) b ((mem_sortInts b l).mp hb)

/-! ### the stable sort by width -/

def WSorted (l : List FrameInfo) : Prop :=
  l.Pairwise (fun a b => a.frame.length ≤ b.frame.length)

theorem insertByWidth_perm (x : FrameInfo) (l : List FrameInfo) :
    (insertByWidth x l).Perm (x :: l) := by
  induction l with
  | nil => exact List.Perm.refl _
  | cons y ys ih =>
    unfold insertByWidth
    by_cases h : x.frame.length < y.frame.length
    · simp only [h, if_true]; exact List.Perm.refl _
    · simp only [h, if_false]
      exact (ih.cons y).trans (List.Perm.swap x y ys)

theorem insertByWidth_sorted (x : FrameInfo) (l : List FrameInfo) (h : WSorted l) :
    WSorted (insertByWidth x l) := by
  induction l with
  | nil => simp [insertByWidth, WSorted]
  | cons y ys ih =>
    have hp := List.pairwise_cons.mp h
    unfold insertByWidth
    by_cases h1 : x.frame.length < y.frame.length
    · simp only [h1, if_true]
      refine List.pairwise_cons.mpr ⟨?_, h⟩
      intro v hv
      rcases List.mem_cons.mp hv with rfl | hv
      · omega
      · have := hp.1 v hv; omega
    · simp only [h1, if_false]
      refine List.pairwise_cons.mpr ⟨?_, ih hp.2⟩
      intro v hv
      rcases List.mem_cons.mp ((insertByWidth_perm x ys).mem_iff.mp hv) with rfl | hv
      · omega
      · exact hp.1 v hv

theorem foldl_insert_perm (l acc : List FrameInfo) :
    (l.foldl (fun acc x => insertByWidth x acc) acc).Perm (l ++ acc) := by
  induction l generalizing acc with
  | nil => exact List.Perm.refl _
  | cons x xs ih =>
    rw [List.foldl_cons]
    refine (ih _).trans ?_
    refine (List.Perm.append_left xs (insertByWidth_perm x acc)).trans ?_
    exact List.perm_middle

theorem foldl_insert_sorted (l acc : List FrameInfo) (h : WSorted acc) :
    WSorted (l.foldl (fun acc x => insertByWidth x acc) acc) := by
  induction l generalizing acc with
  | nil => exact h
  | cons x xs ih =>
    rw [List.foldl_cons]
    exact ih _ (insertByWidth_sorted x acc h)

theorem sortByWidth_perm (l : List FrameInfo) : (sortByWidth l).Perm l := by
  have := foldl_insert_perm l []
  simpa [sortByWidth] using this

theorem sortByWidth_sorted (l : List FrameInfo) : WSorted (sortByWidth l) :=
  foldl_insert_sorted l [] List.Pairwise.nil

/-! ### the regrouping walk -/

/-- what the scan records for a frame -/
def FIok (f : FrameInfo) : Prop :=
  Tok f.frame ∧ f.num = atoiOr0 f.frame ∧ f.minWidth = frameMinSize f.frame

def IsVal (n : Int) : Prop := ∃ t, Tok t ∧ n = atoiOr0 t

/-- the frame texts a group (width, numbers) stands for -/
def gToks (g : Nat × List Int) : List Bytes := g.2.map (fun n => zfillInt n g.1)

def GOk (g : Nat × List Int) : Prop := 1 ≤ g.1 ∧ g.2 ≠ [] ∧ ∀ n ∈ g.2, IsVal n

theorem regroup_spec : ∀ (l : List FrameInfo) (w : Nat) (cur : List Int) (acc : List (Nat × List Int)),
    (∀ f ∈ l, FIok f) → WSorted l → (∀ f ∈ l, w ≤ f.frame.length) → 1 ≤ w → cur ≠ [] →
    (∀ n ∈ cur, IsVal n) → (∀ g ∈ acc, GOk g) →
    (∀ g ∈ regroup l w cur acc, GOk g) ∧
    (regroup l w cur acc).flatMap gToks =
      acc.flatMap gToks ++ cur.map (fun n => zfillInt n w) ++ l.map (·.frame) := by
  intro l
  induction l with
  | nil =>
    intro w cur acc _ _ _ hw hcur hval hacc
    have hce : cur.isEmpty = false := by cases cur <;> simp_all
    simp only [regroup, hce, Bool.false_eq_true, if_false]
    constructor
    · intro g hg
      rcases List.mem_append.mp hg with hg | hg
      · exact hacc g hg
      · simp at hg; subst hg; exact ⟨hw, hcur, hval⟩
    · simp [List.flatMap_append, gToks]
  | cons f rest ih =>
    intro w cur acc hfi hs hge hw hcur hval hacc
    obtain ⟨htok, hnum, hmw⟩ := hfi f (by simp)
    have hfi' : ∀ g ∈ rest, FIok g := fun g hg => hfi g (by simp [hg])
    have hp := List.pairwise_cons.mp hs
    have hfw := hge f (by simp)
    have facts := tok_facts f.frame htok
    unfold regroup
    by_cases c : f.frame.length ≠ w ∧ f.minWidth > w
    · rw [if_pos c]
      have hz : zfillInt f.num f.frame.length = f.frame := by rw [hnum]; exact facts.zfill
      obtain ⟨h1, h2⟩ := ih f.frame.length [f.num] (acc ++ [(w, cur)]) hfi' hp.2 hp.1 facts.pos
        (by simp) (by intro n hn; simp at hn; subst hn; exact ⟨f.frame, htok, hnum⟩)
        (by
          intro g hg
          rcases List.mem_append.mp hg with hg | hg
          · exact hacc g hg
          · simp at hg; subst hg; exact ⟨hw, hcur, hval⟩)
      refine ⟨h1, ?_⟩
      rw [h2]
      simp [List.flatMap_append, gToks, hz]
    · rw [if_neg c]
      have hz : zfillInt f.num w = f.frame := by
        rw [hnum]
        apply tok_zfill f.frame htok
        by_cases hc : f.frame.length = (itoa (atoiOr0 f.frame)).length
        · exact Or.inr ⟨hc, hfw⟩
        · left
          have : f.minWidth = f.frame.length := by
            rw [hmw]; unfold frameMinSize; rw [if_neg hc]
          by_cases h1 : f.frame.length = w
          · exact h1
          · have : ¬ f.minWidth > w := fun h => c ⟨h1, h⟩
            omega
      obtain ⟨h1, h2⟩ := ih w (cur ++ [f.num]) acc hfi' hp.2
        (fun g hg => hge g (by simp [hg])) hw (by simp)
        (by
          intro n hn
          rcases List.mem_append.mp hn with hn | hn
          · exact hval n hn
          · simp at hn; subst hn; exact ⟨f.frame, htok, hnum⟩)
        hacc
      refine ⟨h1, ?_⟩
      rw [h2]
      simp [hz]

/-! ### pad characters -/

theorem padChars_ne_nil (st : PadStyle) (n : Int) : padChars st n ≠ [] := by
  intro h
  have hl := congrArg List.length h
  cases st with
  | hash4 =>
    unfold padChars at hl
    by_cases h0 : n ≤ 0
    · simp [h0] at hl
    · by_cases h4 : n % 4 = 0
      · simp only [h0, h4, if_true, if_false, List.length_replicate, List.length_nil] at hl
        omega
      · simp only [h0, h4, if_false, List.length_replicate, List.length_nil] at hl
        omega
  | hash1 =>
    unfold padChars at hl
    by_cases h0 : n ≤ 0
    · simp [h0] at hl
    · simp only [h0, if_false, List.length_replicate, List.length_nil] at hl
      omega

theorem pad_keep (pad frange other : Bytes) (h : pad ≠ []) :
    (if pad.isEmpty ∧ !frange.isEmpty then other else pad) = pad := by
  have : pad.isEmpty = false := by cases pad <;> simp_all
  simp [this]

/-! ### the sequence of one group -/

theorem group_fits (g : Nat × List Int) (hg : GOk g) :
    ∀ a ∈ g.2, ∀ b ∈ g.2, Fits a ∧ Fits (a - b) := by
  intro a ha b hb
  obtain ⟨t, ht, rfl⟩ := hg.2.2 a ha
  obtain ⟨u, hu, rfl⟩ := hg.2.2 b hb
  exact tok_fits t ht u hu

theorem group_seq (st : PadStyle) (dir base ext : Bytes) (g : Nat × List Int) (hg : GOk g)
    (hnd : g.2.Nodup) :
    (rebuild st dir base (framesToFrameRange g.2 true 0) (padChars st g.1) ext).paths.Perm
      (g.2.map (fun n => dir ++ base ++ zfillInt n g.1 ++ ext)) := by
  obtain ⟨fs, hfs, hfr⟩ := f2r_sorted g.2 0 hg.2.1 hnd (group_fits g hg)
  have := rebuild_some st dir base (framesToFrameRange g.2 true 0) (padChars st g.1) ext fs g.1 hg.1
    (pad_keep _ _ _ (padChars_ne_nil st _)) hfs
  rw [this.2.2.2, hfr]
  exact (sortedSet_perm_self g.2 hnd).map _

theorem group_numbered (st : PadStyle) (dir base ext : Bytes) (g : Nat × List Int) (hg : GOk g) :
    (rebuild st dir base (framesToFrameRange g.2 true 0) (padChars st g.1) ext).frameSet.isSome = true ∧
    (rebuild st dir base (framesToFrameRange g.2 true 0) (padChars st g.1) ext).base = base ∧
    (rebuild st dir base (framesToFrameRange g.2 true 0) (padChars st g.1) ext).ext = ext := by
  obtain ⟨fs, hfs⟩ := f2r_parses g.2 0 hg.2.1 (group_fits g hg)
  have := rebuild_some st dir base (framesToFrameRange g.2 true 0) (padChars st g.1) ext fs g.1 hg.1
    (pad_keep _ _ _ (padChars_ne_nil st _)) hfs
  rw [this.1]
  exact ⟨rfl, this.2.1, this.2.2.1⟩

/-! ### one bucket -/

/-- the file paths a bucket stands for -/
def bucketPaths (b : SeqInfo) : List Bytes :=
  b.frames.map (fun f => b.dir ++ b.base ++ f.frame ++ b.ext)

/-- what the scan guarantees of every bucket -/
structure BWF (st : PadStyle) (b : SeqInfo) : Prop where
  ne : b.frames ≠ []
  fi : ∀ f ∈ b.frames, FIok f
  pad : b.padding = padChars st b.minWidth
  wit : ∃ f ∈ b.frames, b.minWidth = f.frame.length
  key : ¬ (b.base = [] ∧ b.ext = [])

theorem bucketSeqs_single (st : PadStyle) (b : SeqInfo) (f : FrameInfo) (h : b.frames = [f]) :
    ∃ ld : Bool, bucketSeqs st b =
      [rebuild st b.dir b.base
        (if (if ld then [] else b.padding).isEmpty then f.frame else itoa f.num)
        (if ld then [] else b.padding) b.ext] := by
  unfold bucketSeqs
  rw [h]
  exact ⟨_, rfl⟩

theorem bucketSeqs_multi (st : PadStyle) (b : SeqInfo) (h : 2 ≤ b.frames.length) :
    bucketSeqs st b =
      (regroup (sortByWidth b.frames)
          (((sortByWidth b.frames).head?.map (·.frame.length)).getD 0) [] []).map
        (fun g => rebuild st b.dir b.base (framesToFrameRange g.2 true 0) (padChars st g.1) b.ext) := by
  unfold bucketSeqs
  match hf : b.frames, h with
  | f1 :: f2 :: r, _ => rfl

/-- the single sequence of a one-frame bucket -/
theorem single_seq (st : PadStyle) (b : SeqInfo) (hb : BWF st b) (f : FrameInfo) (h : b.frames = [f])
    (ld : Bool) :
    ∃ fs, FrameSet.parse (if (if ld then [] else b.padding).isEmpty then f.frame else itoa f.num) = .ok fs ∧
      fs.frames = [f.num] ∧
      (if (if ld then [] else b.padding).isEmpty ∧
          !(if (if ld then [] else b.padding).isEmpty then f.frame else itoa f.num).isEmpty
        then padChars st
          (if (if ld then [] else b.padding).isEmpty then f.frame else itoa f.num).length
        else (if ld then [] else b.padding)) = padChars st f.frame.length := by
  obtain ⟨htok, hnum, _⟩ := hb.fi f (by rw [h]; simp)
  have hmw : b.minWidth = f.frame.length := by
    obtain ⟨f', hf', e⟩ := hb.wit
    rw [h] at hf'; simp at hf'; subst hf'; exact e
  have facts := tok_facts f.frame htok
  cases ld with
  | true =>
    obtain ⟨fs, h1, h2⟩ := parse_tok f.frame htok
    refine ⟨fs, by simpa using h1, by rw [h2, hnum], ?_⟩
    have : f.frame.isEmpty = false := by
      cases hfr : f.frame with
      | nil => have := facts.pos; rw [hfr] at this; simp at this
      | cons c r => rfl
    simp [this]
  | false =>
    have hpne : b.padding ≠ [] := by rw [hb.pad]; exact padChars_ne_nil _ _
    have hpe : b.padding.isEmpty = false := by cases hp : b.padding <;> simp_all
    obtain ⟨fs, h1, h2⟩ := parse_itoa f.num (by rw [hnum]; exact (tok_fits _ htok _ htok).1)
    refine ⟨fs, by simpa [hpe] using h1, h2, ?_⟩
    simp only [Bool.false_eq_true, if_false, hpe, false_and]
    rw [hb.pad, hmw]

theorem bucket_cover (st : PadStyle) (b : SeqInfo) (hb : BWF st b)
    (hnd : (b.frames.map (·.frame)).Nodup) :
    ((bucketSeqs st b).flatMap Seq.paths).Perm (bucketPaths b) := by
  match hf : b.frames with
  | [] => exact absurd hf hb.ne
  | [f] =>
    obtain ⟨htok, hnum, _⟩ := hb.fi f (by rw [hf]; simp)
    have facts := tok_facts f.frame htok
    obtain ⟨ld, hld⟩ := bucketSeqs_single st b f hf
    obtain ⟨fs, hparse, hfr, hpad⟩ := single_seq st b hb f hf ld
    have := rebuild_some st b.dir b.base _ _ b.ext fs f.frame.length facts.pos hpad hparse
    rw [hld]
    simp only [List.flatMap_cons, List.flatMap_nil, List.append_nil]
    rw [this.2.2.2, hfr, bucketPaths, hf]
    simp only [List.map_cons, List.map_nil]
    rw [hnum, facts.zfill]
  | f1 :: f2 :: r =>
    have hlen : 2 ≤ b.frames.length := by rw [hf]; simp
    rw [bucketSeqs_multi st b hlen]
    have hperm := sortByWidth_perm b.frames
    have hsorted := sortByWidth_sorted b.frames
    have hfi : ∀ f ∈ sortByWidth b.frames, FIok f := fun f hf' => hb.fi f (hperm.mem_iff.mp hf')
    generalize sortByWidth b.frames = sorted at hperm hsorted hfi ⊢
    match sorted, hperm, hsorted, hfi with
    | [], hperm, _, _ =>
      have := hperm.length_eq
      rw [hf] at this; simp at this
    | f0 :: rest, hperm, hsorted, hfi =>
      obtain ⟨htok, hnum, _⟩ := hfi f0 (by simp)
      have facts := tok_facts f0.frame htok
      have hp := List.pairwise_cons.mp hsorted
      have hstart : regroup (f0 :: rest)
          ((((f0 :: rest).head?.map (·.frame.length)).getD 0)) [] [] =
          regroup rest f0.frame.length [f0.num] [] := by
        simp [regroup]
      rw [hstart]
      obtain ⟨hgok, hflat⟩ := regroup_spec rest f0.frame.length [f0.num] []
        (fun f hf' => hfi f (by simp [hf'])) hp.2 hp.1 facts.pos (by simp)
        (by intro n hn; simp at hn; subst hn; exact ⟨f0.frame, htok, hnum⟩)
        (by intro g hg; simp at hg)
      generalize regroup rest f0.frame.length [f0.num] [] = groups at hgok hflat
      have hflat' : groups.flatMap gToks = (f0 :: rest).map (·.frame) := by
        rw [hflat]
        simp only [List.flatMap_nil, List.nil_append, List.map_cons, List.map_nil,
          List.cons_append]
        rw [hnum, facts.zfill]
      have hndS : ((f0 :: rest).map (·.frame)).Nodup :=
        ((hperm.map (·.frame)).nodup_iff).mpr hnd
      have hgnd : ∀ g ∈ groups, g.2.Nodup := by
        intro g hg
        have hsub := sublist_flatMap_of_mem gToks groups g hg
        rw [hflat'] at hsub
        exact nodup_of_map _ _ (hndS.sublist hsub)
      rw [List.flatMap_map]
      refine (perm_flatMap_left groups _
        (fun g => (gToks g).map (fun t => b.dir ++ b.base ++ t ++ b.ext)) ?_).trans ?_
      · intro g hg
        have := group_seq st b.dir b.base b.ext g (hgok g hg) (hgnd g hg)
        have e : (gToks g).map (fun t => b.dir ++ b.base ++ t ++ b.ext) =
            g.2.map (fun n => b.dir ++ b.base ++ zfillInt n g.1 ++ b.ext) := by
          unfold gToks; rw [List.map_map]; rfl
        rw [e]; exact this
      · rw [← List.map_flatMap, hflat', bucketPaths, List.map_map]
        exact (hperm.map _)

theorem bucket_numbered (st : PadStyle) (b : SeqInfo) (hb : BWF st b) :
    ∀ s ∈ bucketSeqs st b, s.frameSet.isSome = true ∧ s.base = b.base ∧ s.ext = b.ext := by
  match hf : b.frames with
  | [] => exact absurd hf hb.ne
  | [f] =>
    obtain ⟨htok, hnum, _⟩ := hb.fi f (by rw [hf]; simp)
    have facts := tok_facts f.frame htok
    obtain ⟨ld, hld⟩ := bucketSeqs_single st b f hf
    obtain ⟨fs, hparse, hfr, hpad⟩ := single_seq st b hb f hf ld
    have := rebuild_some st b.dir b.base _ _ b.ext fs f.frame.length facts.pos hpad hparse
    rw [hld]
    intro s hs
    rw [List.mem_singleton] at hs
    subst hs
    rw [this.1]
    exact ⟨rfl, this.2.1, this.2.2.1⟩
  | f1 :: f2 :: r =>
    have hlen : 2 ≤ b.frames.length := by rw [hf]; simp
    rw [bucketSeqs_multi st b hlen]
    have hperm := sortByWidth_perm b.frames
    have hsorted := sortByWidth_sorted b.frames
    have hfi : ∀ f ∈ sortByWidth b.frames, FIok f := fun f hf' => hb.fi f (hperm.mem_iff.mp hf')
    generalize sortByWidth b.frames = sorted at hperm hsorted hfi ⊢
    match sorted, hperm, hsorted, hfi with
    | [], hperm, _, _ =>
      have := hperm.length_eq
      rw [hf] at this; simp at this
    | f0 :: rest, hperm, hsorted, hfi =>
      obtain ⟨htok, hnum, _⟩ := hfi f0 (by simp)
      have facts := tok_facts f0.frame htok
      have hp := List.pairwise_cons.mp hsorted
      have hstart : regroup (f0 :: rest)
          ((((f0 :: rest).head?.map (·.frame.length)).getD 0)) [] [] =
          regroup rest f0.frame.length [f0.num] [] := by
        simp [regroup]
      rw [hstart]
      obtain ⟨hgok, _⟩ := regroup_spec rest f0.frame.length [f0.num] []
        (fun f hf' => hfi f (by simp [hf'])) hp.2 hp.1 facts.pos (by simp)
        (by intro n hn; simp at hn; subst hn; exact ⟨f0.frame, htok, hnum⟩)
        (by intro g hg; simp at hg)
      intro s hs
      obtain ⟨g, hg, rfl⟩ := List.mem_map.mp hs
      exact group_numbered st b.dir b.base b.ext g (hgok g hg)

end ListAux
end Gfs.Proofs
