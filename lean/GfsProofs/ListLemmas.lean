/-
  GfsProofs.ListLemmas — listing a set of paths covers every file exactly once (C05).
-/
import GfsModel.ListSeqs
import GfsModel.SeqOps
import GfsSpec.SeqSpec
import GfsSpec.Grammar
import GfsProofs.IndexLemmas
import GfsProofs.CompressLemmas
import GfsProofs.PadLemmas
import GfsProofs.SeqLemmas
import GfsProofs.ListScan

namespace Gfs.Proofs
open Gfs Gfs.Spec

/-- the path of an item -/
def FileItem.path (it : FileItem) : Bytes := it.dir ++ it.name

/-- an item the listing shows under the given options -/
def visibleItem (o : ListOpts) (it : FileItem) : Bool := o.hidden || !isPrefixOf ['.'] it.name

/-- the frame token the optional-frame pattern finds in a file name ([] when none) -/
def tokenOf (name : Bytes) : Bytes := match optFrame name with | some (_, fr, _) => fr | none => []

/-- The guard of the exact-cover theorem (decidable): the frame token of every name is short
    enough for its value and every difference of two such values to fit an int (≤ 17 digits),
    and is not a negative zero ("-0", "-00", …; the recorded finding). -/
def TameName (name : Bytes) : Prop :=
  (tokenOf name).length ≤ 17 ∧
  ¬ (∃ zs, zs ≠ [] ∧ (∀ c ∈ zs, c = '0') ∧ tokenOf name = '-' :: zs)

/-- all file paths a result denotes -/
def expandSeqs (l : List Seq) : List Bytes := l.flatMap Seq.paths

/-- "is a numbered sequence" -/
def isNumbered (s : Seq) : Bool := s.frameSet.isSome && !(s.base.isEmpty && s.ext.isEmpty)

/-- facts about the optional-frame recogniser: the captures concatenate to the name and
    the frame is empty or an optional '-' followed by digits -/
theorem optFrame_concat (name b fr e : Bytes) (h : optFrame name = some (b, fr, e)) :
    b ++ fr ++ e = name ∧
    (fr = [] ∨ ∃ (neg : Bool) (ds : Bytes), ds ≠ [] ∧ (∀ c ∈ ds, isDigit c = true) ∧
      fr = (if neg then ['-'] else []) ++ ds) := by
  have := ListAux.optFrameAux_sound name [] b fr e h
  simpa [Index.FrameTok] using this

/-- the scan never fails -/
theorem scanItems_ok (o : ListOpts) (items : List FileItem) (bs : List SeqInfo) (files : List Seq) :
    ∃ r, scanItems o none items bs files = .ok r :=
  ListAux.scan_ok o items bs files

namespace ListAux

theorem tokenOf_parts (it : FileItem) : tokenOf it.name = (parts it).2.1 := by
  unfold tokenOf parts
  cases optFrame it.name with
  | none => rfl
  | some t => obtain ⟨b, fr, e⟩ := t; rfl

/-- a tame name has an empty or a tame frame token -/
theorem tame_item (it : FileItem) (h : TameName it.name) : ItemTame it := by
  unfold ItemTame
  rw [← tokenOf_parts]
  obtain ⟨hlen, hnz⟩ := h
  cases hm : optFrame it.name with
  | none => left; simp [tokenOf, hm]
  | some t =>
    obtain ⟨b, fr, e⟩ := t
    have htk : tokenOf it.name = fr := by simp [tokenOf, hm]
    rw [htk] at hlen hnz ⊢
    rcases (optFrame_concat it.name b fr e hm).2 with h0 | ⟨neg, ds, hne, hd, hfr⟩
    · exact Or.inl h0
    · right
      refine ⟨neg, ds, hne, hd, hfr, ?_, hlen⟩
      rintro ⟨rfl, h0⟩
      exact hnz ⟨ds, hne, Index.digits_zero_all_zero ds hne hd h0, by simpa using hfr⟩

theorem findInItems_of_scan {items : List FileItem} {o : ListOpts} {bs : List SeqInfo}
    {files : List Seq} (h : scanItems o none items [] [] = .ok (bs, files)) :
    findInItems items o none =
      .ok ((bs.map (bucketSeqs o.style)).flatten ++ (if o.single then files else [])) := by
  unfold findInItems
  rw [h]
  rfl

theorem visible_eq (o : ListOpts) (items : List FileItem) :
    (items.filter (visibleItem o)).map FileItem.path =
      (items.filter (fun it => !hiddenSkip o it)).map (fun it => it.dir ++ it.name) := by
  have : (visibleItem o) = (fun it => !hiddenSkip o it) := by
    funext it
    unfold visibleItem hiddenSkip
    cases o.hidden <;> cases isPrefixOf ['.'] it.name <;> rfl
  rw [this]
  rfl

end ListAux

/-- C05 core (exact cover): with single files enabled, for any list of items with pairwise
    distinct paths and tame names, the expanded frame paths of the result are exactly the
    paths of the visible items — nothing dropped, nothing reported twice, nothing invented —
    under either pad style, whatever mix of zero-padding widths, signs and frameless files. -/
theorem cover (items : List FileItem) (o : ListOpts) (hs : o.single = true)
    (hd : (items.map FileItem.path).Nodup) (ht : ∀ it ∈ items, TameName it.name) :
    ∃ seqs, findInItems items o none = .ok seqs ∧
      List.Perm (expandSeqs seqs) ((items.filter (visibleItem o)).map FileItem.path) := by
  have ht' : ∀ it ∈ items, ListAux.ItemTame it := fun it h => ListAux.tame_item it (ht it h)
  obtain ⟨bs', files', hscan, hbwf, hperm⟩ :=
    ListAux.scan_cover o hs items [] [] ht' (by simp)
  refine ⟨_, ListAux.findInItems_of_scan hscan, ?_⟩
  rw [ListAux.visible_eq]
  simp only [List.flatMap_nil, List.nil_append] at hperm
  -- the visible paths are pairwise distinct, hence so are the tokens within each bucket
  have hvnd : ((items.filter (fun it => !ListAux.hiddenSkip o it)).map
      (fun it => it.dir ++ it.name)).Nodup :=
    hd.sublist (List.filter_sublist.map _)
  have hnd := hperm.nodup_iff.mpr hvnd
  have hbnd : ∀ b ∈ bs', (b.frames.map (·.frame)).Nodup := by
    intro b hb
    have h1 : (ListAux.bucketPaths b).Nodup :=
      (hnd.sublist (List.sublist_append_left _ _)).sublist
        (ListAux.sublist_flatMap_of_mem ListAux.bucketPaths bs' b hb)
    apply ListAux.nodup_of_map (fun t => b.dir ++ b.base ++ t ++ b.ext)
    rw [List.map_map]
    exact h1
  refine List.Perm.trans ?_ hperm
  rw [hs]
  simp only [if_true, expandSeqs, List.flatMap_append, ← List.flatMap_def, List.flatMap_assoc]
  refine List.Perm.append_right _ ?_
  exact ListAux.perm_flatMap_left bs' _ _
    (fun b hb => ListAux.bucket_cover o.style b (hbwf b hb) (hbnd b hb))

/-- Without the single-files option the result is that same result minus the entries that are
    not numbered sequences. -/
theorem no_single (items : List FileItem) (o : ListOpts)
    (ht : ∀ it ∈ items, TameName it.name) :
    ∃ all, findInItems items { o with single := true } none = .ok all ∧
      findInItems items { o with single := false } none = .ok (all.filter isNumbered) := by
  have ht' : ∀ it ∈ items, ListAux.ItemTame it := fun it h => ListAux.tame_item it (ht it h)
  obtain ⟨bs', files', h1, h2, hb, hf⟩ :=
    ListAux.scan_nosingle o items [] [] ht' (by simp) (by simp)
  refine ⟨(bs'.map (bucketSeqs o.style)).flatten ++ files', ?_, ?_⟩
  · rw [ListAux.findInItems_of_scan h1]
    rfl
  · rw [ListAux.findInItems_of_scan h2, List.filter_append]
    have e1 : ((bs'.map (bucketSeqs o.style)).flatten).filter isNumbered =
        (bs'.map (bucketSeqs o.style)).flatten := by
      rw [List.filter_eq_self]
      intro s hs
      obtain ⟨l, hl, hsl⟩ := List.mem_flatten.mp hs
      obtain ⟨b, hbm, rfl⟩ := List.mem_map.mp hl
      obtain ⟨q1, q2, q3⟩ := ListAux.bucket_numbered o.style b (hb b hbm) s hsl
      have hk := (hb b hbm).key
      unfold isNumbered
      rw [q1, q2, q3]
      cases hbb : b.base with
      | nil =>
        cases hbe : b.ext with
        | nil => exact absurd ⟨hbb, hbe⟩ hk
        | cons c r => rfl
      | cons c r => rfl
    have e2 : files'.filter isNumbered = [] := by
      rw [List.filter_eq_nil_iff]
      intro s hs
      have := hf s hs
      unfold ListAux.numbered at this
      unfold isNumbered
      rw [this]; simp
    rw [e1, e2]
    simp

/-- Hidden names appear only with the hidden-files option (hidden items do not influence the
    result at all without it). -/
theorem hidden_ignored (items : List FileItem) (o : ListOpts) (hh : o.hidden = false) :
    findInItems items o none = findInItems (items.filter (fun it => !isPrefixOf ['.'] it.name)) o none := by
  unfold findInItems
  rw [ListAux.scan_hidden o hh items [] []]

/-- FindSequencesInList is the item-level function on the cleaned, split paths -/
theorem findSequencesInList_items (paths : List Bytes) (o : ListOpts) :
    findSequencesInList paths o =
      findInItems (paths.map fun p => ⟨(pathSplit (pathClean p)).1, (pathSplit (pathClean p)).2⟩) o none ∧
    ∀ p, FileItem.path ⟨(pathSplit (pathClean p)).1, (pathSplit (pathClean p)).2⟩ = pathClean p := by
  refine ⟨rfl, ?_⟩
  intro p
  exact pathSplit_concat (pathClean p)

end Gfs.Proofs
