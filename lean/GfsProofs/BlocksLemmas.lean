/-
  GfsProofs.BlocksLemmas — a well-formed InclusiveRanges behaves like the concatenation of
  its blocks' enumerations, and AppendUnique preserves well-formedness and appends exactly
  the new values.
-/
import GfsModel.Ranges
import GfsSpec.Enum
import GfsSpec.WF
import GfsProofs.RngLemmas

namespace Gfs.Proofs
open Gfs Gfs.Spec

/-- what a block list denotes -/
def blocksEnum (bl : Blocks) : List Int := bl.flatMap rngEnum

@[simp] theorem blocksEnum_nil : blocksEnum [] = [] := rfl
@[simp] theorem blocksEnum_cons (b : Rng) (bs : Blocks) :
    blocksEnum (b :: bs) = rngEnum b ++ blocksEnum bs := by
  simp [blocksEnum]
theorem blocksEnum_append (a b : Blocks) :
    blocksEnum (a ++ b) = blocksEnum a ++ blocksEnum b := by
  simp [blocksEnum]
theorem mem_blocksEnum {bl : Blocks} {v : Int} :
    v ∈ blocksEnum bl ↔ ∃ r ∈ bl, v ∈ rngEnum r := by
  simp [blocksEnum]

theorem wf_tail {b : Rng} {bs : Blocks} (h : WF (b :: bs)) : WF bs := by
  obtain ⟨h1, h2⟩ := h
  exact ⟨fun r hr => h1 r (List.mem_cons_of_mem _ hr), (List.pairwise_cons.mp h2).2⟩

theorem wf_head {b : Rng} {bs : Blocks} (h : WF (b :: bs)) : WellSigned b :=
  h.1 b (List.mem_cons_self)

theorem wf_head_disj {b : Rng} {bs : Blocks} (h : WF (b :: bs)) :
    ∀ v, v ∈ rngEnum b → v ∉ blocksEnum bs := by
  intro v hv hv'
  obtain ⟨r, hr, hvr⟩ := mem_blocksEnum.mp hv'
  exact (List.pairwise_cons.mp h.2).1 r hr v hv hvr

theorem blocks_iter (bl : Blocks) (h : WF bl) : Blocks.iter bl = blocksEnum bl := by
  induction bl with
  | nil => rfl
  | cons b bs ih =>
    simp only [Blocks.iter, List.flatMap_cons, blocksEnum_cons] at *
    rw [rng_iter b (wf_head h), ih (wf_tail h)]

theorem blocks_nodup (bl : Blocks) (h : WF bl) : (blocksEnum bl).Nodup := by
  induction bl with
  | nil => simp
  | cons b bs ih =>
    rw [blocksEnum_cons, List.nodup_append]
    refine ⟨rng_nodup b (wf_head h), ih (wf_tail h), ?_⟩
    intro a ha c hc hac
    subst hac
    exact (wf_head_disj h) a ha hc

theorem blocks_len_aux (bl : Blocks) (h : WF bl) (n : Int) :
    bl.foldl (fun acc b => acc + b.len) n = n + (blocksEnum bl).length := by
  induction bl generalizing n with
  | nil => simp
  | cons b bs ih =>
    rw [List.foldl_cons, ih (wf_tail h), rng_len b (wf_head h), blocksEnum_cons, List.length_append]
    omega

theorem blocks_len (bl : Blocks) (h : WF bl) : Blocks.len bl = (blocksEnum bl).length := by
  unfold Blocks.len
  rw [blocks_len_aux bl h]; omega

theorem blocks_contains (bl : Blocks) (h : WF bl) (v : Int) :
    Blocks.contains bl v = true ↔ v ∈ blocksEnum bl := by
  rw [mem_blocksEnum]
  simp only [Blocks.contains, List.any_eq_true]
  constructor
  · rintro ⟨r, hr, hc⟩; exact ⟨r, hr, (rng_contains r (h.1 r hr) v).mp hc⟩
  · rintro ⟨r, hr, hc⟩; exact ⟨r, hr, (rng_contains r (h.1 r hr) v).mpr hc⟩


/-! ### value -/

theorem valueAt_append_left (L1 L2 : List Int) (i : Int) (h0 : 0 ≤ i) (h : i < L1.length) :
    valueAt (L1 ++ L2) i = valueAt L1 i := by
  unfold valueAt
  have h1 : i.toNat < L1.length := by omega
  rw [if_pos ⟨h0, by rw [List.length_append]; omega⟩, if_pos ⟨h0, h⟩]
  simp [List.getD_eq_getElem?_getD, List.getElem?_append_left h1]

theorem valueAt_append_right (L1 L2 : List Int) (i : Int) (h : (L1.length : Int) ≤ i) :
    valueAt (L1 ++ L2) i = valueAt L2 (i - L1.length) := by
  unfold valueAt
  have h1 : L1.length ≤ i.toNat := by omega
  have h2 : (i - (L1.length : Int)).toNat = i.toNat - L1.length := by omega
  by_cases hc : i < (L1 ++ L2).length
  · rw [List.length_append] at hc
    rw [if_pos ⟨by omega, by rw [List.length_append]; omega⟩, if_pos ⟨by omega, by omega⟩]
    simp [List.getD_eq_getElem?_getD, List.getElem?_append_right h1, h2]
  · rw [List.length_append] at hc
    rw [if_neg (by rw [List.length_append]; omega), if_neg (by omega)]

theorem blocks_valueAux (bl : Blocks) (h : WF bl) (idx n : Int) (hn : n ≤ idx) :
    Blocks.valueAux bl idx n = valueAt (blocksEnum bl) (idx - n) := by
  induction bl generalizing n with
  | nil => simp [Blocks.valueAux, valueAt]
  | cons b bs ih =>
    have hlen := rng_len b (wf_head h)
    rw [Blocks.valueAux, blocksEnum_cons]
    by_cases hc : idx - n < b.len
    · rw [if_pos hc, rng_value b (wf_head h)]
      rw [valueAt_append_left _ _ _ (by omega) (by omega)]
      unfold valueAt
      rw [if_pos ⟨by omega, by omega⟩]
    · rw [if_neg hc, ih (wf_tail h) _ (by omega), valueAt_append_right _ _ _ (by omega)]
      congr 1; omega

theorem blocks_value (bl : Blocks) (h : WF bl) (i : Int) :
    Blocks.value bl i = valueAt (blocksEnum bl) i := by
  unfold Blocks.value
  by_cases hi : i < 0
  · rw [if_pos hi]; unfold valueAt; rw [if_neg (by omega)]
  · rw [if_neg hi, blocks_valueAux bl h i 0 (by omega)]; simp

/-! ### index -/

theorem idxOf_ge (L : List Int) (v : Int) : -1 ≤ idxOf L v := by
  unfold idxOf; split <;> omega

theorem idxOf_append (L1 L2 : List Int) (v : Int) :
    idxOf (L1 ++ L2) v =
      if 0 ≤ idxOf L1 v then idxOf L1 v
      else if 0 ≤ idxOf L2 v then idxOf L2 v + L1.length else -1 := by
  unfold idxOf List.idxOf?
  rw [List.findIdx?_append]
  cases h1 : List.findIdx? (fun x => x == v) L1 with
  | some i => simp
  | none =>
    cases h2 : List.findIdx? (fun x => x == v) L2 with
    | some j => simp
    | none => simp

theorem blocks_indexAux (bl : Blocks) (h : WF bl) (v n : Int) :
    Blocks.indexAux bl v n =
      if 0 ≤ idxOf (blocksEnum bl) v then idxOf (blocksEnum bl) v + n else -1 := by
  induction bl generalizing n with
  | nil => simp [Blocks.indexAux, idxOf]
  | cons b bs ih =>
    rw [Blocks.indexAux, blocksEnum_cons, idxOf_append]
    rw [rng_index b (wf_head h), ih (wf_tail h), rng_len b (wf_head h)]
    by_cases h1 : 0 ≤ idxOf (rngEnum b) v
    · simp [h1]
    · by_cases h2 : 0 ≤ idxOf (blocksEnum bs) v
      · simp [h1, h2]; omega
      · simp [h1, h2]

theorem blocks_index (bl : Blocks) (h : WF bl) (v : Int) :
    Blocks.index bl v = idxOf (blocksEnum bl) v := by
  unfold Blocks.index
  rw [blocks_indexAux bl h]
  have := idxOf_ge (blocksEnum bl) v
  split <;> omega


/-! ### start / fin -/

theorem blocks_start (bl : Blocks) (h : WF bl) (hne : bl ≠ []) :
    (blocksEnum bl).head? = some (Blocks.start bl) := by
  cases bl with
  | nil => exact absurd rfl hne
  | cons b bs =>
    rw [blocksEnum_cons, List.head?_append, rng_head b (wf_head h)]
    rfl

theorem blocks_fin (bl : Blocks) (h : WF bl) (hne : bl ≠ []) :
    (blocksEnum bl).getLast? = some (Blocks.fin bl) := by
  induction bl with
  | nil => exact absurd rfl hne
  | cons b bs ih =>
    rw [blocksEnum_cons, List.getLast?_append]
    cases bs with
    | nil =>
      simp [Blocks.fin, rng_fin b (wf_head h)]
    | cons c cs =>
      rw [ih (wf_tail h) (by simp)]
      simp [Blocks.fin, List.getLast?_cons_cons]

/-! ### min / max -/

theorem foldl_min_spec (L : List Int) (i : Int) :
    let r := L.foldl (fun m v => if v < m then v else m) i
    r ≤ i ∧ (∀ v ∈ L, r ≤ v) ∧ (r = i ∨ r ∈ L) := by
  induction L generalizing i with
  | nil => simp
  | cons x xs ih =>
    simp only [List.foldl_cons]
    have hj : ∃ j, (if x < i then x else i) = j ∧ j ≤ i ∧ j ≤ x ∧ (j = i ∨ j = x) :=
      ⟨_, rfl, by split <;> omega, by split <;> omega, by split <;> omega⟩
    obtain ⟨j, hje, hj1, hj2, hj3⟩ := hj
    rw [hje]
    have := ih j
    simp only at this
    obtain ⟨h1, h2, h3⟩ := this
    refine ⟨by omega, ?_, ?_⟩
    · intro v hv
      rcases List.mem_cons.mp hv with rfl | hv
      · omega
      · exact h2 v hv
    · rcases h3 with h3 | h3
      · rcases hj3 with hj3 | hj3
        · left; omega
        · right; rw [h3, hj3]; exact List.mem_cons_self
      · right; exact List.mem_cons_of_mem _ h3

theorem listMin_spec (L : List Int) (hne : L ≠ []) :
    listMin L ∈ L ∧ ∀ v ∈ L, listMin L ≤ v := by
  unfold listMin
  have := foldl_min_spec L (L.headD 0)
  simp only at this
  obtain ⟨h1, h2, h3⟩ := this
  refine ⟨?_, h2⟩
  rcases h3 with h3 | h3
  · rw [h3]
    cases L with
    | nil => exact absurd rfl hne
    | cons x xs => simp
  · exact h3

theorem foldl_max_spec (L : List Int) (i : Int) :
    let r := L.foldl (fun m v => if v > m then v else m) i
    i ≤ r ∧ (∀ v ∈ L, v ≤ r) ∧ (r = i ∨ r ∈ L) := by
  induction L generalizing i with
  | nil => simp
  | cons x xs ih =>
    simp only [List.foldl_cons]
    have hj : ∃ j, (if x > i then x else i) = j ∧ i ≤ j ∧ x ≤ j ∧ (j = i ∨ j = x) :=
      ⟨_, rfl, by split <;> omega, by split <;> omega, by split <;> omega⟩
    obtain ⟨j, hje, hj1, hj2, hj3⟩ := hj
    rw [hje]
    have := ih j
    simp only at this
    obtain ⟨h1, h2, h3⟩ := this
    refine ⟨by omega, ?_, ?_⟩
    · intro v hv
      rcases List.mem_cons.mp hv with rfl | hv
      · omega
      · exact h2 v hv
    · rcases h3 with h3 | h3
      · rcases hj3 with hj3 | hj3
        · left; omega
        · right; rw [h3, hj3]; exact List.mem_cons_self
      · right; exact List.mem_cons_of_mem _ h3

theorem listMax_spec (L : List Int) (hne : L ≠ []) :
    listMax L ∈ L ∧ ∀ v ∈ L, v ≤ listMax L := by
  unfold listMax
  have := foldl_max_spec L (L.headD 0)
  simp only at this
  obtain ⟨h1, h2, h3⟩ := this
  refine ⟨?_, h2⟩
  rcases h3 with h3 | h3
  · rw [h3]
    cases L with
    | nil => exact absurd rfl hne
    | cons x xs => simp
  · exact h3

theorem blocks_min_fold (bl : Blocks) (h : WF bl) (i : Int) :
    let r := bl.foldl (fun v b => if b.min < v then b.min else v) i
    r ≤ i ∧ (∀ v ∈ blocksEnum bl, r ≤ v) ∧ (r = i ∨ r ∈ blocksEnum bl) := by
  induction bl generalizing i with
  | nil => simp
  | cons b bs ih =>
    simp only [List.foldl_cons, blocksEnum_cons]
    have hj : ∃ j, (if b.min < i then b.min else i) = j ∧ j ≤ i ∧ j ≤ b.min ∧ (j = i ∨ j = b.min) :=
      ⟨_, rfl, by split <;> omega, by split <;> omega, by split <;> omega⟩
    obtain ⟨j, hje, hj1, hj2, hj3⟩ := hj
    rw [hje]
    have := ih (wf_tail h) j
    simp only at this
    obtain ⟨h1, h2, h3⟩ := this
    have hb := listMin_spec (rngEnum b) (rng_ne_nil b (wf_head h))
    rw [← rng_min b (wf_head h)] at hb
    refine ⟨by omega, ?_, ?_⟩
    · intro v hv
      rcases List.mem_append.mp hv with hv | hv
      · have := hb.2 v hv
        omega
      · exact h2 v hv
    · rcases h3 with h3 | h3
      · rcases hj3 with hj3 | hj3
        · left; omega
        · right; rw [h3, hj3]; exact List.mem_append_left _ hb.1
      · right; exact List.mem_append_right _ h3

theorem blocks_max_fold (bl : Blocks) (h : WF bl) (i : Int) :
    let r := bl.foldl (fun v b => if b.max > v then b.max else v) i
    i ≤ r ∧ (∀ v ∈ blocksEnum bl, v ≤ r) ∧ (r = i ∨ r ∈ blocksEnum bl) := by
  induction bl generalizing i with
  | nil => simp
  | cons b bs ih =>
    simp only [List.foldl_cons, blocksEnum_cons]
    have hj : ∃ j, (if b.max > i then b.max else i) = j ∧ i ≤ j ∧ b.max ≤ j ∧ (j = i ∨ j = b.max) :=
      ⟨_, rfl, by split <;> omega, by split <;> omega, by split <;> omega⟩
    obtain ⟨j, hje, hj1, hj2, hj3⟩ := hj
    rw [hje]
    have := ih (wf_tail h) j
    simp only at this
    obtain ⟨h1, h2, h3⟩ := this
    have hb := listMax_spec (rngEnum b) (rng_ne_nil b (wf_head h))
    rw [← rng_max b (wf_head h)] at hb
    refine ⟨by omega, ?_, ?_⟩
    · intro v hv
      rcases List.mem_append.mp hv with hv | hv
      · have := hb.2 v hv
        omega
      · exact h2 v hv
    · rcases h3 with h3 | h3
      · rcases hj3 with hj3 | hj3
        · left; omega
        · right; rw [h3, hj3]; exact List.mem_append_left _ hb.1
      · right; exact List.mem_append_right _ h3

theorem blocksEnum_ne_nil (bl : Blocks) (h : WF bl) (hne : bl ≠ []) : blocksEnum bl ≠ [] := by
  intro hnil
  have := blocks_start bl h hne
  rw [hnil] at this
  simp at this

theorem blocks_min (bl : Blocks) (h : WF bl) (hne : bl ≠ []) :
    Blocks.min bl = listMin (blocksEnum bl) := by
  have hL := listMin_spec (blocksEnum bl) (blocksEnum_ne_nil bl h hne)
  have := blocks_min_fold bl h (Blocks.start bl)
  simp only at this
  obtain ⟨h1, h2, h3⟩ := this
  have hs : Blocks.start bl ∈ blocksEnum bl := List.mem_of_mem_head? (blocks_start bl h hne)
  have hmem : Blocks.min bl ∈ blocksEnum bl := by
    unfold Blocks.min
    rcases h3 with h3 | h3
    · rw [h3]; exact hs
    · exact h3
  have a := h2 _ hL.1
  have b := hL.2 _ hmem
  unfold Blocks.min at *
  omega

theorem blocks_max (bl : Blocks) (h : WF bl) (hne : bl ≠ []) :
    Blocks.max bl = listMax (blocksEnum bl) := by
  have hL := listMax_spec (blocksEnum bl) (blocksEnum_ne_nil bl h hne)
  have := blocks_max_fold bl h (Blocks.fin bl)
  simp only at this
  obtain ⟨h1, h2, h3⟩ := this
  have hs : Blocks.fin bl ∈ blocksEnum bl := List.mem_of_mem_getLast? (blocks_fin bl h hne)
  have hmem : Blocks.max bl ∈ blocksEnum bl := by
    unfold Blocks.max
    rcases h3 with h3 | h3
    · rw [h3]; exact hs
    · exact h3
  have a := h2 _ hL.1
  have b := hL.2 _ hmem
  unfold Blocks.max at *
  omega

/-- arithmetic progression: `enum` between two members of the progression -/
theorem enum_prog (a m step : Int) (hm : 0 < m) (hs : step = m ∨ step = -m) (d : Nat) :
    enum a (a + step * d) m = (List.range (d + 1)).map (fun (k : Nat) => a + step * (k : Int)) := by
  have hmd : 0 ≤ m * (d : Int) := Int.mul_nonneg (by omega) (by omega)
  have hdiv : m * (d : Int) / m = d := Int.mul_ediv_cancel_left _ (by omega)
  rcases hs with rfl | rfl
  · unfold enum
    rw [if_pos (by omega), up_closed _ _ _ hm, if_pos (by omega)]
    have : a + step * (d : Int) - a = step * d := by omega
    rw [this, hdiv]
    simp
  · by_cases hd : d = 0
    · subst hd
      unfold enum
      rw [if_pos (by simp), up_closed _ _ _ hm]
      simp
    · have hpos : 0 < m * (d : Int) := Int.mul_pos hm (by omega)
      have hneg : -m * (d : Int) = -(m * d) := Int.neg_mul _ _
      unfold enum
      rw [if_neg (by omega), down_closed _ _ _ hm, if_pos (by omega)]
      have : a - (a + -m * (d : Int)) = m * d := by omega
      rw [this, hdiv]
      simp only [Int.toNat_natCast]
      apply List.map_congr_left
      intro k _
      rw [Int.neg_mul]; omega


theorem normStep_cases (s e st : Int) :
    (s ≤ e ∧ Blocks.normStep s e st = (st.natAbs : Int)) ∨
    (e < s ∧ Blocks.normStep s e st = -(st.natAbs : Int)) := by
  unfold Blocks.normStep
  by_cases h : s ≤ e
  · left; refine ⟨h, ?_⟩; rw [if_pos h]; split <;> omega
  · right; refine ⟨by omega, ?_⟩; rw [if_neg h]; split <;> omega

theorem cands_eq (s e st : Int) (hst : st ≠ 0) :
    Blocks.cands s e (Blocks.normStep s e st) = enum s e st.natAbs := by
  have hm : 0 < (st.natAbs : Int) := by omega
  unfold Blocks.cands enum
  simp only
  rcases normStep_cases s e st with ⟨h, hn⟩ | ⟨h, hn⟩
  · rw [if_pos h, up_closed _ _ _ hm, if_pos h, hn]
    have h1 : e - s = ((e - s).natAbs : Int) := by omega
    rw [h1, ← Int.natCast_ediv, Int.toNat_natCast]
    simp
  · rw [if_neg (by omega), down_closed _ _ _ hm, if_pos (by omega), hn]
    have h1 : s - e = ((e - s).natAbs : Int) := by omega
    rw [h1, ← Int.natCast_ediv, Int.toNat_natCast]
    simp only [Int.natAbs_neg, Int.natAbs_natCast]
    apply List.map_congr_left
    intro k _
    rw [Int.neg_mul]; omega


/-! ### AppendUnique -/

/-- the `i`-th candidate -/
def cnd (s step : Int) (i : Nat) : Int := s + step * (i : Int)

theorem cnd_inj (s step : Int) (hstep : step ≠ 0) (i j : Nat) (h : cnd s step i = cnd s step j) :
    i = j := by
  unfold cnd at h
  have h1 : step * (i : Int) = step * (j : Int) := by omega
  have := Int.eq_of_mul_eq_mul_left hstep h1
  omega

theorem cnd_add (s step : Int) (k d : Nat) : cnd s step (k + d) = cnd s step k + step * (d : Int) := by
  unfold cnd
  rw [Int.natCast_add, Int.mul_add]; omega

theorem wf_append_single (bl : Blocks) (r : Rng) (h : WF bl) (hr : WellSigned r)
    (hd : ∀ v ∈ blocksEnum bl, v ∉ rngEnum r) : WF (bl ++ [r]) := by
  refine ⟨?_, ?_⟩
  · intro x hx
    rcases List.mem_append.mp hx with hx | hx
    · exact h.1 x hx
    · rw [List.mem_singleton.mp hx]; exact hr
  · rw [List.pairwise_append]
    refine ⟨h.2, List.pairwise_singleton _ _, ?_⟩
    intro a ha b hb v hv
    rw [List.mem_singleton.mp hb]
    exact hd v (mem_blocksEnum.mpr ⟨a, ha, hv⟩)

/-- the block emitted for the run of candidates `k .. j-1` -/
theorem run_block (s m step : Int) (hm : 0 < m) (hs : step = m ∨ step = -m) (hnat : (step.natAbs : Int) = m)
    (k j : Nat) (hkj : k < j) :
    WellSigned (mkRng (cnd s step k) (cnd s step (j - 1)) step) ∧
    rngEnum (mkRng (cnd s step k) (cnd s step (j - 1)) step)
      = (List.range' k (j - k)).map (cnd s step) := by
  have hstep : step ≠ 0 := by omega
  obtain ⟨d, hd⟩ : ∃ d : Nat, j - 1 = k + d := ⟨j - 1 - k, by omega⟩
  have hmd : 0 ≤ m * (d : Int) := Int.mul_nonneg (by omega) (by omega)
  rw [hd, cnd_add]
  constructor
  · unfold WellSigned mkRng
    simp only [if_neg hstep]
    rcases hs with rfl | rfl
    · left; omega
    · right; rw [Int.neg_mul]; omega
  · unfold rngEnum mkRng
    simp only [if_neg hstep]
    rw [hnat, enum_prog _ _ _ hm hs]
    have : j - k = d + 1 := by omega
    rw [this, List.range'_eq_map_range, List.map_map]
    apply List.map_congr_left
    intro i _
    simp only [Function.comp, cnd_add]

/-- flushing the pending run `k .. j-1` -/
theorem flush_run (B0 R : Blocks) (s m step : Int) (hm : 0 < m) (hs : step = m ∨ step = -m)
    (hnat : (step.natAbs : Int) = m) (k j : Nat) (hkj : k < j)
    (hwf : WF (B0 ++ R))
    (hR : blocksEnum R = ((List.range k).map (cnd s step)).filter (fun v => !(blocksEnum B0).contains v))
    (hout : ∀ i, k ≤ i → i < j → cnd s step i ∉ blocksEnum B0) :
    WF (B0 ++ (R ++ [mkRng (cnd s step k) (cnd s step (j - 1)) step])) ∧
    blocksEnum (R ++ [mkRng (cnd s step k) (cnd s step (j - 1)) step])
      = ((List.range j).map (cnd s step)).filter (fun v => !(blocksEnum B0).contains v) := by
  have hstep : step ≠ 0 := by omega
  obtain ⟨hws, henum⟩ := run_block s m step hm hs hnat k j hkj
  constructor
  · rw [← List.append_assoc]
    apply wf_append_single _ _ hwf hws
    intro v hv hv'
    rw [henum, List.mem_map] at hv'
    obtain ⟨i, hi, rfl⟩ := hv'
    rw [List.mem_range'_1] at hi
    rw [blocksEnum_append, List.mem_append] at hv
    rcases hv with hv | hv
    · exact hout i (by omega) (by omega) hv
    · rw [hR, List.mem_filter, List.mem_map] at hv
      obtain ⟨⟨i', hi', heq⟩, _⟩ := hv
      rw [List.mem_range] at hi'
      have := cnd_inj s step hstep _ _ heq
      omega
  · rw [blocksEnum_append, hR]
    have hsplit : List.range j = List.range k ++ List.range' k (j - k) := by
      rw [List.range_eq_range', List.range_eq_range']
      have := @List.range'_append 0 k (j - k) 1
      simp only [Nat.zero_add, Nat.one_mul] at this
      rw [this]; congr 1; omega
    rw [hsplit, List.map_append, List.filter_append]
    congr 1
    simp only [blocksEnum_cons, blocksEnum_nil, List.append_nil, henum]
    symm
    rw [List.filter_eq_self]
    intro v hv
    rw [List.mem_map] at hv
    obtain ⟨i, hi, rfl⟩ := hv
    rw [List.mem_range'_1] at hi
    have := hout i (by omega) (by omega)
    simpa using this


/-- loop invariant of `AppendUnique` after `j` candidates -/
def AUInv (B0 : Blocks) (s step : Int) (j : Nat) (σ : Blocks.AUState) : Prop :=
  ∃ (R : Blocks) (k : Nat), k + σ.pending = j ∧ σ.bl = B0 ++ R ∧ WF (B0 ++ R) ∧
    blocksEnum R = ((List.range k).map (cnd s step)).filter (fun v => !(blocksEnum B0).contains v) ∧
    (∀ i, k ≤ i → i < j → cnd s step i ∉ blocksEnum B0) ∧
    (0 < σ.pending → σ.subStart = cnd s step k ∧ σ.last = cnd s step (j - 1))

theorem auInv_step (B0 : Blocks) (s m step : Int) (hm : 0 < m) (hs : step = m ∨ step = -m)
    (hnat : (step.natAbs : Int) = m) (j : Nat) (σ : Blocks.AUState)
    (hinv : AUInv B0 s step j σ) :
    AUInv B0 s step (j + 1) (Blocks.auStep step σ (cnd s step j)) := by
  have hstep : step ≠ 0 := by omega
  obtain ⟨R, k, hkj, hbl, hwf, hR, hout, hpend⟩ := hinv
  -- membership of the new candidate in the current blocks is membership in `B0`
  have hcont : Blocks.contains σ.bl (cnd s step j) = true ↔ cnd s step j ∈ blocksEnum B0 := by
    rw [hbl, blocks_contains _ hwf, blocksEnum_append, List.mem_append]
    constructor
    · rintro (h | h)
      · exact h
      · rw [hR, List.mem_filter, List.mem_map] at h
        obtain ⟨⟨i', hi', heq⟩, _⟩ := h
        rw [List.mem_range] at hi'
        have := cnd_inj s step hstep _ _ heq
        omega
    · exact Or.inl
  unfold Blocks.auStep
  by_cases hc : Blocks.contains σ.bl (cnd s step j) = true
  · have hmem := hcont.mp hc
    simp only [hc, Bool.not_true, Bool.false_eq_true, if_false]
    have hfilt : ∀ k', k' = j →
        ((List.range k').map (cnd s step)).filter (fun v => !(blocksEnum B0).contains v) =
        ((List.range (j + 1)).map (cnd s step)).filter (fun v => !(blocksEnum B0).contains v) := by
      intro k' hk'
      subst hk'
      rw [List.range_succ, List.map_append, List.filter_append]
      simp [hmem]
    by_cases hp : σ.pending = 0
    · rw [if_pos hp]
      refine ⟨R, j + 1, by omega, hbl, hwf, ?_, ?_, ?_⟩
      · rw [hR]; exact hfilt k (by omega)
      · intro i h1 h2; omega
      · intro h; omega
    · rw [if_neg hp]
      obtain ⟨hss, hl⟩ := hpend (by omega)
      have hfl := flush_run B0 R s m step hm hs hnat k j (by omega) hwf hR hout
      rw [hss, hl]
      refine ⟨R ++ [mkRng (cnd s step k) (cnd s step (j - 1)) step], j + 1, by simp, ?_, hfl.1, ?_, ?_, ?_⟩
      · simp [hbl]
      · rw [hfl.2]; exact hfilt j rfl
      · intro i h1 h2; omega
      · intro h; simp at h
  · have hmem : cnd s step j ∉ blocksEnum B0 := fun h => hc (hcont.mpr h)
    simp only [hc, Bool.not_false, if_true]
    refine ⟨R, k, by simp; omega, hbl, hwf, hR, ?_, ?_⟩
    · intro i h1 h2
      by_cases hij : i = j
      · rw [hij]; exact hmem
      · exact hout i h1 (by omega)
    · intro _
      simp only [Nat.add_sub_cancel]
      refine ⟨?_, trivial⟩
      by_cases hp : σ.pending = 0
      · rw [if_pos hp]; congr 1; omega
      · rw [if_neg hp]; exact (hpend (by omega)).1

theorem auInv_foldl (B0 : Blocks) (s m step : Int) (hm : 0 < m) (hs : step = m ∨ step = -m)
    (hnat : (step.natAbs : Int) = m) (σ0 : Blocks.AUState) (h0 : AUInv B0 s step 0 σ0) (n : Nat) :
    AUInv B0 s step n (((List.range n).map (cnd s step)).foldl (Blocks.auStep step) σ0) := by
  induction n with
  | zero => simpa using h0
  | succ n ih =>
    rw [List.range_succ, List.map_append, List.foldl_append]
    exact auInv_step B0 s m step hm hs hnat n _ ih

theorem appendUnique_spec (bl : Blocks) (h : WF bl) (s e st : Int) :
    WF (Blocks.appendUnique bl s e st) ∧
    blocksEnum (Blocks.appendUnique bl s e st) = appendU (blocksEnum bl) s e st := by
  unfold Blocks.appendUnique appendU
  by_cases hst : st = 0
  · simp [hst, h]
  · rw [if_neg hst, if_neg hst]
    simp only
    have hm : 0 < (st.natAbs : Int) := by omega
    have hcands := cands_eq s e st hst
    generalize hstep' : Blocks.normStep s e st = step at *
    have hs : step = (st.natAbs : Int) ∨ step = -(st.natAbs : Int) := by
      rcases normStep_cases s e st with ⟨_, hn⟩ | ⟨_, hn⟩
      · left; rw [← hstep', hn]
      · right; rw [← hstep', hn]
    have hnat : (step.natAbs : Int) = (st.natAbs : Int) := by omega
    have hstepne : step ≠ 0 := by omega
    by_cases hbl : bl = []
    · subst hbl
      simp only [List.isEmpty_nil, if_true]
      have hws : WellSigned (mkRng s e step) := by
        unfold WellSigned mkRng
        simp only [if_neg hstepne]
        rcases normStep_cases s e st with ⟨hle, hn⟩ | ⟨hle, hn⟩
        · left; rw [hstep'] at hn; omega
        · right; rw [hstep'] at hn; omega
      constructor
      · exact ⟨by simpa using hws, List.pairwise_singleton _ _⟩
      · simp only [blocksEnum_cons, blocksEnum_nil, List.append_nil, List.nil_append]
        unfold rngEnum mkRng
        simp only [if_neg hstepne]
        have : step.natAbs = st.natAbs := by omega
        rw [this]
        symm
        rw [List.filter_eq_self]
        intro a _; simp
    · have hemp : bl.isEmpty = false := by
        cases bl with
        | nil => exact absurd rfl hbl
        | cons _ _ => rfl
      simp only [hemp, Bool.false_eq_true, if_false]
      rw [← hcands]
      -- the candidate list in closed form
      have hcl : Blocks.cands s e step
          = (List.range ((e - s).natAbs / step.natAbs + 1)).map (cnd s step) := rfl
      rw [hcl]
      generalize (e - s).natAbs / step.natAbs + 1 = N
      have h0 : AUInv bl s step 0 ⟨bl, s, s, 0⟩ :=
        ⟨[], 0, rfl, by simp, by simpa using h, by simp, by intro i _ hi; omega, by intro hp; simp at hp⟩
      have hinv := auInv_foldl bl s _ step hm hs hnat _ h0 N
      generalize ((List.range N).map (cnd s step)).foldl (Blocks.auStep step) ⟨bl, s, s, 0⟩ = σ at hinv
      obtain ⟨R, k, hkj, hσbl, hwf, hR, hout, hpend⟩ := hinv
      by_cases hp : σ.pending > 0
      · rw [if_pos hp]
        obtain ⟨hss, hl⟩ := hpend hp
        have hfl := flush_run bl R s _ step hm hs hnat k N (by omega) hwf hR hout
        rw [hss, hl, hσbl, List.append_assoc]
        refine ⟨hfl.1, ?_⟩
        rw [blocksEnum_append, hfl.2]
      · rw [if_neg hp, hσbl]
        refine ⟨hwf, ?_⟩
        have : k = N := by omega
        rw [blocksEnum_append, hR, this]

theorem wf_nil : WF ([] : Blocks) := by
  exact ⟨by simp, List.Pairwise.nil⟩

end Gfs.Proofs
