/-
  GfsProofs.ClosedLemmas — the arithmetic description of a single range equals the
  enumerated specification at any magnitude, and the accessors' intermediate values stay
  inside int64 on the domain of C14.
-/
import GfsModel.Ranges
import GfsSpec.Enum
import GfsSpec.WF
import GfsSpec.Closed
import GfsProofs.RngLemmas

namespace Gfs.Proofs
open Gfs Gfs.Spec

namespace ClosedAux

theorem cDir_cases (a b : Int) : (a ≤ b ∧ cDir a b = 1) ∨ (b < a ∧ cDir a b = -1) := by
  unfold cDir
  by_cases h : a ≤ b
  · left; simp [h]
  · right; simp [h]; omega

/-- the closed form of `enum` -/
theorem enum_form (a b m : Int) (hm : 0 < m) :
    ∃ K : Nat, steps a b m = (K : Int) ∧
      enum a b m = (List.range (K + 1)).map (fun (k : Nat) => a + cDir a b * m * (k : Int)) := by
  have hws : WellSigned ⟨a, b, cDir a b * m⟩ := by
    unfold WellSigned
    rcases cDir_cases a b with ⟨h, e⟩ | ⟨h, e⟩
    · left; simp only [e]; omega
    · right; simp only [e]; omega
  have hna : ((cDir a b * m).natAbs : Int) = m := by
    rcases cDir_cases a b with ⟨h, e⟩ | ⟨h, e⟩ <;> rw [e] <;> omega
  refine ⟨Aux.K ⟨a, b, cDir a b * m⟩, ?_, ?_⟩
  · simp only [steps, Aux.K, Int.natCast_ediv, hna]
  · have := Aux.enum_closed _ hws
    simp only [rngEnum, hna] at this
    exact this

theorem cDir_mul_ne (a b m : Int) (hm : 0 < m) : cDir a b * m ≠ 0 := by
  rcases cDir_cases a b with ⟨h, e⟩ | ⟨h, e⟩ <;> rw [e] <;> omega

theorem f_inj (a b m : Int) (hm : 0 < m) (j k : Int)
    (h : a + cDir a b * m * j = a + cDir a b * m * k) : j = k := by
  have h1 : cDir a b * m * j = cDir a b * m * k := by omega
  exact (Int.mul_eq_mul_left_iff (cDir_mul_ne a b m hm)).mp h1

/-- membership in the closed form, arithmetically -/
theorem has_iff (a b m : Int) (hm : 0 < m) (K : Nat) (v : Int) :
    (0 ≤ (v - a) * cDir a b ∧ (v - a) * cDir a b ≤ m * (K : Int) ∧ ((v - a) * cDir a b) % m = 0) ↔
      ∃ k : Nat, k ≤ K ∧ v = a + cDir a b * m * (k : Int) := by
  have hd : ∀ k : Int, v = a + cDir a b * m * k ↔ (v - a) * cDir a b = m * k := by
    intro k
    rcases cDir_cases a b with ⟨_, e⟩ | ⟨_, e⟩ <;> rw [e]
    · rw [Int.one_mul, Int.mul_one]; omega
    · simp only [Int.neg_mul, Int.one_mul, Int.mul_neg, Int.mul_one]; omega
  generalize (v - a) * cDir a b = dd at hd
  constructor
  · rintro ⟨h0, h1, h2⟩
    have hq0 : 0 ≤ dd / m := Int.ediv_nonneg h0 (by omega)
    have hmul : m * (dd / m) = dd := Int.mul_ediv_cancel' (Int.dvd_of_emod_eq_zero h2)
    have hqK : dd / m ≤ K := by
      apply Int.le_of_mul_le_mul_left _ hm
      omega
    refine ⟨(dd / m).toNat, by omega, ?_⟩
    rw [hd, Int.toNat_of_nonneg hq0, hmul]
  · rintro ⟨k, hk, hv⟩
    rw [hd] at hv
    subst hv
    refine ⟨Int.mul_nonneg (by omega) (by omega), Aux.mul_mono_pos m k K hm (by omega), ?_⟩
    exact Int.mul_emod_right _ _


/-! ### int64 bounds -/

/-- truncated quotient and its product back are no larger than the dividend -/
theorem tdiv_abs (x s : Int) (_hs : s ≠ 0) :
    (x.tdiv s).natAbs ≤ x.natAbs ∧ (x.tdiv s * s).natAbs ≤ x.natAbs := by
  have h1 : (x.tdiv s).natAbs = x.natAbs / s.natAbs := Int.natAbs_tdiv x s
  refine ⟨by rw [h1]; exact Nat.div_le_self _ _, ?_⟩
  rw [Int.natAbs_mul, h1]
  exact Nat.div_mul_le_self _ _

theorem step_mul_abs (s e st idx : Int) (hidx : idx.natAbs ≤ Aux.K ⟨s, e, st⟩ + 3) :
    (st * idx).natAbs ≤ (e - s).natAbs + 3 * st.natAbs := by
  rw [Int.natAbs_mul]
  have h1 : Aux.K ⟨s, e, st⟩ * st.natAbs ≤ (e - s).natAbs := Nat.div_mul_le_self _ _
  have h2 := Nat.mul_le_mul_left st.natAbs hidx
  rw [Nat.mul_add, Nat.mul_comm st.natAbs (Aux.K _)] at h2
  omega

theorem K_le (s e st : Int) : Aux.K ⟨s, e, st⟩ ≤ (e - s).natAbs := Nat.div_le_self _ _

theorem tdiv_bounds (x s B : Int) (hs : s ≠ 0) (hx : -B ≤ x ∧ x ≤ B) :
    (-B ≤ x.tdiv s ∧ x.tdiv s ≤ B) ∧ (-B ≤ x.tdiv s * s ∧ x.tdiv s * s ≤ B) := by
  have h := tdiv_abs x s hs
  generalize x.tdiv s * s = p at h
  generalize x.tdiv s = q at h
  omega

theorem step_mul_bounds (s e st idx B N : Int) (hB : -B ≤ e - s ∧ e - s ≤ B)
    (hN : -N ≤ st ∧ st ≤ N) (hidx : -2 ≤ idx ∧ idx ≤ (Aux.K ⟨s, e, st⟩ : Int) + 3) :
    -(B + 3 * N) ≤ st * idx ∧ st * idx ≤ B + 3 * N := by
  have h := step_mul_abs s e st idx (by omega)
  generalize st * idx = p at h
  omega

theorem K_bound (s e st B : Int) (hB : -B ≤ e - s ∧ e - s ≤ B) :
    (Aux.K ⟨s, e, st⟩ : Int) ≤ B := by
  have h := K_le s e st
  omega

end ClosedAux

theorem closed_len (a b m : Int) (hm : 0 < m) : cLen a b m = (enum a b m).length := by
  obtain ⟨K, hK, he⟩ := ClosedAux.enum_form a b m hm
  rw [he, cLen, hK]
  simp

theorem closed_last (a b m : Int) (hm : 0 < m) : (enum a b m).getLast? = some (cLast a b m) := by
  obtain ⟨K, hK, he⟩ := ClosedAux.enum_form a b m hm
  rw [he, cLast, hK, List.getLast?_map, List.getLast?_range]
  simp

theorem closed_value (a b m : Int) (hm : 0 < m) (i : Int) :
    valueAt (enum a b m) i =
      (match cValue a b m i with | some v => .ok v | none => .error .index) := by
  obtain ⟨K, hK, he⟩ := ClosedAux.enum_form a b m hm
  rw [he]
  unfold valueAt cValue
  rw [cLen, hK]
  by_cases hi : 0 ≤ i ∧ i < (K : Int) + 1
  · rw [if_pos hi, if_pos (by simpa using hi)]
    obtain ⟨k, rfl⟩ := Int.eq_ofNat_of_zero_le hi.1
    have hk2 : k < K + 1 := by omega
    simp [List.getD_eq_getElem?_getD, List.getElem?_range hk2]
  · rw [if_neg hi, if_neg (by simpa using hi)]

theorem closed_has (a b m : Int) (hm : 0 < m) (v : Int) : cHas a b m v = true ↔ v ∈ enum a b m := by
  obtain ⟨K, hK, he⟩ := ClosedAux.enum_form a b m hm
  rw [he, cHas, hK]
  simp only [decide_eq_true_eq]
  rw [ClosedAux.has_iff a b m hm K v, List.mem_map]
  constructor
  · rintro ⟨k, hk, rfl⟩
    exact ⟨k, by simpa [Nat.lt_succ_iff] using hk, rfl⟩
  · rintro ⟨k, hk, rfl⟩
    exact ⟨k, by simpa [Nat.lt_succ_iff] using hk, rfl⟩

theorem closed_index (a b m : Int) (hm : 0 < m) (v : Int) : cIndex a b m v = idxOf (enum a b m) v := by
  unfold cIndex idxOf
  by_cases hv : v ∈ enum a b m
  · rw [if_pos ((closed_has a b m hm v).mpr hv)]
    obtain ⟨K, hK, he⟩ := ClosedAux.enum_form a b m hm
    rw [he] at hv ⊢
    obtain ⟨k, hk, rfl⟩ := List.mem_map.mp hv
    have hk' : k < K + 1 := by simpa using hk
    rw [Aux.idxOf?_map_range (fun (k : Nat) => a + cDir a b * m * (k : Int)) (K + 1) k hk']
    · simp only
      have e : (a + cDir a b * m * (k : Int) - a) * cDir a b = m * (k : Int) := by
        rcases ClosedAux.cDir_cases a b with ⟨_, e⟩ | ⟨_, e⟩ <;> rw [e]
        · rw [Int.one_mul, Int.mul_one]; omega
        · simp only [Int.neg_mul, Int.one_mul, Int.mul_neg, Int.mul_one]; omega
      rw [e, Int.mul_ediv_cancel_left _ (by omega)]
    · intro j hj heq
      have := ClosedAux.f_inj a b m hm j k heq
      omega
  · have hc : ¬ cHas a b m v = true := fun hc => hv ((closed_has a b m hm v).mp hc)
    rw [if_neg hc, List.idxOf?_eq_none_iff.mpr hv]

/-- Every integer sub-expression the Go accessors evaluate for a range (start, end, step):
    End(): end-start, and inside closestInRange value-start, its quotient by step, the
    product, the sum; Len(): |end-start|+1; Value(idx): step*idx, start+step*idx;
    Index / Contains(value): value-start, quotient, product, sum. -/
def intermediates (r : Rng) (idx v : Int) : List Int :=
  [ r.stop - r.start, (r.stop - r.start).natAbs + 1,
    r.stop - r.start, (r.stop - r.start).tdiv r.step, ((r.stop - r.start).tdiv r.step) * r.step,
    ((r.stop - r.start).tdiv r.step) * r.step + r.start,
    r.step * idx, r.start + r.step * idx,
    v - r.start, (v - r.start).tdiv r.step, ((v - r.start).tdiv r.step) * r.step,
    ((v - r.start).tdiv r.step) * r.step + r.start, r.fin, r.len ]

/-- C14 domain: |A|,|B| ≤ 10^13, 1 ≤ |N| ≤ 10^6 with the sign of the direction, index in
    [-2, len+2], value in [min-2·|N|, max+2·|N|]: no intermediate leaves int64. -/
theorem intermediates_in_range (a b n idx v : Int)
    (ha : -10000000000000 ≤ a ∧ a ≤ 10000000000000)
    (hb : -10000000000000 ≤ b ∧ b ≤ 10000000000000)
    (hn : 1 ≤ n ∧ n ≤ 1000000)
    (hidx : -2 ≤ idx ∧ idx ≤ (mkRng a b (if a ≤ b then n else -n)).len + 2)
    (hv : -10000002000000 ≤ v ∧ v ≤ 10000002000000) :
    ∀ x ∈ intermediates (mkRng a b (if a ≤ b then n else -n)) idx v, minInt64 ≤ x ∧ x ≤ maxInt64 := by
  obtain ⟨st, hst, hsgn⟩ : ∃ st, (if a ≤ b then n else -n) = st ∧
      ((a ≤ b ∧ st = n) ∨ (b < a ∧ st = -n)) := by
    by_cases h : a ≤ b
    · exact ⟨n, by simp [h], Or.inl ⟨h, rfl⟩⟩
    · exact ⟨-n, by simp [h], Or.inr ⟨by omega, rfl⟩⟩
  have hst0 : st ≠ 0 := by omega
  have hr : mkRng a b st = ⟨a, b, st⟩ := by simp [mkRng, hst0]
  rw [hst, hr] at hidx ⊢
  have hws : WellSigned ⟨a, b, st⟩ := by
    unfold WellSigned
    rcases hsgn with ⟨h, e⟩ | ⟨h, e⟩
    · left; simp only; omega
    · right; simp only; omega
  have hlen := Aux.len_eq _ hws
  have hfin := Aux.fin_bounds _ hws
  have hK := ClosedAux.K_bound a b st 20000000000000 (by omega)
  rw [hlen] at hidx
  have hmul := ClosedAux.step_mul_bounds a b st idx 20000000000000 1000000 (by omega) (by omega)
    (by omega)
  have ht1 := ClosedAux.tdiv_bounds (b - a) st 20000000000000 hst0 (by omega)
  have ht2 := ClosedAux.tdiv_bounds (v - a) st 20000002000000 hst0 (by omega)
  clear hst hsgn hst0 hr hws
  simp only [intermediates, List.mem_cons, List.not_mem_nil, or_false, minInt64, maxInt64]
  simp only at hfin
  rintro x (rfl | rfl | rfl | rfl | rfl | rfl | rfl | rfl | rfl | rfl | rfl | rfl | rfl | rfl)
  all_goals first | omega | (rw [hlen]; omega)

end Gfs.Proofs
