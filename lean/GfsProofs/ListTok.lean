/-
  GfsProofs.ListTok — frame tokens of file names (value, zero filling, canonical text) and
  the paths of the sequences `rebuild` makes (helpers for C05, GfsProofs.ListLemmas).
-/
import GfsModel.ListSeqs
import GfsModel.SeqOps
import GfsSpec.SeqSpec
import GfsSpec.Grammar
import GfsProofs.IndexLemmas
import GfsProofs.CompressLemmas
import GfsProofs.PadLemmas
import GfsProps.C02

namespace Gfs.Proofs
open Gfs Gfs.Spec
namespace ListAux

/-! ### tokens -/

theorem digitsToNat_lt (ds : Bytes) (hd : ∀ c ∈ ds, isDigit c = true) :
    digitsToNat ds < 10 ^ ds.length := by
  induction ds using list_snoc_induction with
  | nil => simp [digitsToNat_nil]
  | snoc ds c ih =>
    rw [digitsToNat_append_singleton]
    have h1 := digitVal_lt c (hd c (by simp))
    have h2 := ih (fun c hc => hd c (by simp [hc]))
    simp only [List.length_append, List.length_singleton, Nat.pow_succ]
    omega

/-- a tame frame token: optional '-', digits, not a negative zero, at most 17 bytes -/
def Tok (t : Bytes) : Prop :=
  ∃ (neg : Bool) (ds : Bytes), ds ≠ [] ∧ (∀ c ∈ ds, isDigit c = true) ∧
    t = (if neg then ['-'] else []) ++ ds ∧ ¬ (neg = true ∧ digitsToNat ds = 0) ∧ t.length ≤ 17

structure TokFacts (t : Bytes) : Prop where
  numText : NumText (atoiOr0 t) t
  lo : -100000000000000000 < atoiOr0 t
  hi : atoiOr0 t < 100000000000000000
  zfill : zfillInt (atoiOr0 t) t.length = t
  canon : t.length = (itoa (atoiOr0 t)).length → t = itoa (atoiOr0 t)
  pos : 1 ≤ t.length

theorem tok_facts (t : Bytes) (h : Tok t) : TokFacts t := by
  obtain ⟨neg, ds, hne, hd, ht, hnz, hlen⟩ := h
  have hpos : 0 < ds.length := List.length_pos_iff.mpr hne
  have hdl : ds.length ≤ 17 := by
    rw [ht, List.length_append] at hlen; omega
  have hb : digitsToNat ds < 100000000000000000 := by
    have h1 := digitsToNat_lt ds hd
    have h2 : 10 ^ ds.length ≤ 10 ^ 17 := Nat.pow_le_pow_right (by decide) hdl
    have h3 : (10 : Nat) ^ 17 = 100000000000000000 := by simp
    omega
  have htok := zfillInt_token neg ds hne hd hnz
  simp only at htok
  rw [← ht] at htok
  have hnt : NumText (if neg then -((digitsToNat ds : Nat) : Int) else ((digitsToNat ds : Nat) : Int)) t :=
    ⟨neg, ds, hne, hd, ht, rfl⟩
  have hv : atoiOr0 t =
      (if neg then -((digitsToNat ds : Nat) : Int) else ((digitsToNat ds : Nat) : Int)) := by
    unfold atoiOr0
    rw [atoi_numText _ _ hnt]
    have : minInt64 ≤ (if neg then -((digitsToNat ds : Nat) : Int) else ((digitsToNat ds : Nat) : Int)) ∧
        (if neg then -((digitsToNat ds : Nat) : Int) else ((digitsToNat ds : Nat) : Int)) ≤ maxInt64 := by
      unfold minInt64 maxInt64
      cases neg <;> simp <;> omega
    rw [if_pos this]; rfl
  have key := replicate_zero_natDigits_digitsToNat ds hne hd
  refine ⟨by rw [hv]; exact hnt, ?_, ?_, by rw [hv]; exact htok, ?_, ?_⟩
  · rw [hv]; cases neg <;> simp <;> omega
  · rw [hv]; cases neg <;> simp <;> omega
  · rw [hv]
    intro hl
    cases neg with
    | false =>
      have hnn : ¬ ((digitsToNat ds : Nat) : Int) < 0 := by omega
      simp only [Bool.false_eq_true, if_false, itoa, hnn, Int.natAbs_natCast] at hl ⊢
      rw [ht] at hl ⊢
      simp only [Bool.false_eq_true, if_false, List.nil_append] at hl ⊢
      rw [← hl] at key
      simpa using key.symm
    | true =>
      have hnz' : digitsToNat ds ≠ 0 := fun e => hnz ⟨rfl, e⟩
      have hneg : -((digitsToNat ds : Nat) : Int) < 0 := by omega
      simp only [if_true, itoa, hneg, Int.natAbs_neg, Int.natAbs_natCast] at hl ⊢
      rw [ht] at hl ⊢
      simp only [if_true, List.cons_append, List.nil_append, List.length_cons] at hl ⊢
      have hl' : ds.length = (natDigits (digitsToNat ds)).length := by omega
      rw [← hl'] at key
      simp at key
      rw [key]
  · rw [ht, List.length_append]; omega

/-- zero filling to a width the plain text already has is the plain text -/
theorem zfillInt_short (v : Int) (w : Int) (h : w ≤ (itoa v).length) : zfillInt v w = itoa v := by
  unfold zfillInt
  by_cases hw : w < 2
  · simp [hw]
  · simp only [hw, if_false]
    unfold itoa at h ⊢
    by_cases hv : v < 0
    · simp only [hv, if_true, List.length_cons] at h ⊢
      have : w.toNat - ((natDigits v.natAbs).length + 1) = 0 := by omega
      rw [this]; simp
    · simp only [hv, if_false] at h ⊢
      have : w.toNat - (natDigits v.natAbs).length = 0 := by omega
      rw [this]; simp

/-- the text zero-filling gives back for a token that may sit in a group of width `w` -/
theorem tok_zfill (t : Bytes) (h : Tok t) (w : Nat)
    (hw : t.length = w ∨ (t.length = (itoa (atoiOr0 t)).length ∧ w ≤ t.length)) :
    zfillInt (atoiOr0 t) w = t := by
  have f := tok_facts t h
  rcases hw with rfl | ⟨hc, hle⟩
  · exact f.zfill
  · have e := f.canon hc
    rw [zfillInt_short _ _ (by rw [← hc]; omega)]
    exact e.symm

theorem tok_fits (t : Bytes) (h : Tok t) (u : Bytes) (hu : Tok u) :
    Fits (atoiOr0 t) ∧ Fits (atoiOr0 t - atoiOr0 u) := by
  have f := tok_facts t h
  have g := tok_facts u hu
  have := f.lo; have := f.hi; have := g.lo; have := g.hi
  unfold Fits minInt64 maxInt64
  omega

/-! ### the frame set of a single numeral -/

theorem parse_nil : FrameSet.parse [] = .error .parse := by
  rfl

theorem frames_single (t : Bytes) (v : Int) : (FrameSet.mk t [mkRng v v 1]).frames = [v] := by
  simp [FrameSet.frames, Blocks.iter, Rng.iter, Rng.len, Rng.value, Rng.fin, mkRng]

theorem parse_numeral (t : Bytes) (v : Int) (h : NumText v t) (hf : Fits v) :
    ∃ fs, FrameSet.parse t = .ok fs ∧ fs.frames = [v] := by
  unfold Fits at hf
  refine ⟨⟨t, [mkRng v v 1]⟩, ?_, frames_single t v⟩
  rw [Index.parse_numText h, if_pos hf]

theorem parse_tok (t : Bytes) (h : Tok t) :
    ∃ fs, FrameSet.parse t = .ok fs ∧ fs.frames = [atoiOr0 t] :=
  parse_numeral t _ (tok_facts t h).numText (tok_fits t h t h).1

theorem parse_itoa (v : Int) (hf : Fits v) :
    ∃ fs, FrameSet.parse (itoa v) = .ok fs ∧ fs.frames = [v] :=
  parse_numeral _ v (Compress.itoa_numText v) hf

/-! ### the sequences `rebuild` makes -/

theorem paths_none (s : Seq) (h : s.frameSet = none) : s.paths = [s.str] := by
  unfold Seq.paths
  simp [Seq.len, h, index_none s h]

theorem rebuild_none (st : PadStyle) (dir base ext : Bytes) :
    (rebuild st dir base [] [] ext).paths = [dir ++ base ++ ext] ∧
    (rebuild st dir base [] [] ext).frameSet = none := by
  have hfs : (rebuild st dir base [] [] ext).frameSet = none := by
    simp [rebuild, Seq.setPadding]
  refine ⟨?_, hfs⟩
  rw [paths_none _ hfs]
  simp [rebuild, Seq.setPadding, Seq.str, Seq.frameRange]

theorem rebuild_some (st : PadStyle) (dir base frange pad ext : Bytes) (fs : FrameSet) (w : Nat)
    (hw : 1 ≤ w)
    (hpad : (if pad.isEmpty ∧ !frange.isEmpty then padChars st frange.length else pad) =
      padChars st w)
    (hparse : FrameSet.parse frange = .ok fs) :
    (rebuild st dir base frange pad ext).frameSet = some fs ∧
    (rebuild st dir base frange pad ext).base = base ∧
    (rebuild st dir base frange pad ext).ext = ext ∧
    (rebuild st dir base frange pad ext).paths =
      fs.frames.map (fun n => dir ++ base ++ zfillInt n w ++ ext) := by
  have hne : frange.isEmpty = false := by
    cases frange with
    | nil => rw [parse_nil] at hparse; cases hparse
    | cons c r => rfl
  have hwf := Gfs.Props.C02.C02_wf frange fs hparse
  have hz : padSize st (padChars st (w : Int)) = (w : Int) := padSize_padChars st _ (by omega)
  have hr : rebuild st dir base frange pad ext =
      ⟨base, dir, ext, padChars st w, w, some fs, st⟩ := by
    unfold rebuild
    simp only [hpad]
    simp only [hne, Bool.false_eq_true, if_false, Seq.setFrameRange, hparse, Seq.setPadding, hz]
  rw [hr]
  refine ⟨rfl, rfl, rfl, ?_⟩
  rw [paths_eq _ fs rfl hwf]
  apply List.map_congr_left
  intro n _
  simp only [framePath, zfillInt_eq_spec]

end ListAux
end Gfs.Proofs
