/-
  GfsProofs.WalkTerm — the recursive walk of seqls (`Seqls.walk`, the model of loadRecursive's
  fastwalk callback with its cycle cache) terminates on every tree: there is a recursion depth,
  computed from the tree alone, beyond which more fuel changes nothing.  The measure of a call
  (seen, real) is lexicographic: the number of link targets not yet recorded, then the room left
  for the real path to grow.
-/
import GfsModel.Seqls

namespace Gfs.Proofs.WalkTerm
open Gfs Gfs.Seqls

/-! ### small facts -/

theorem dropWhile_head {α : Type} (p : α → Bool) :
    ∀ (l : List α) (c : α) (r : List α), l.dropWhile p = c :: r → p c = false
  | [], _, _, h => by simp at h
  | x :: xs, c, r, h => by
    simp only [List.dropWhile_cons] at h
    split at h
    · exact dropWhile_head p xs c r h
    · rename_i hx
      injection h with h1 _
      subst h1
      simpa using hx

theorem parentOf_length_lt (p : Bytes) (h : p ≠ []) : (parentOf p).length < p.length := by
  unfold parentOf pathSplit
  simp only [List.reverse_reverse]
  have hd : (p.reverse.dropWhile (· ≠ '/')).length ≤ p.length := by
    have := (List.dropWhile_sublist (p := (· ≠ '/')) (l := p.reverse)).length_le
    simpa using this
  have hp : 0 < p.length := by
    cases p with
    | nil => exact absurd rfl h
    | cons _ _ => simp
  cases hr : p.reverse.dropWhile (· ≠ '/') with
  | nil => simpa using hp
  | cons c r =>
    rw [hr] at hd
    simp only [List.length_cons] at hd
    by_cases hc : c = '/'
    · subst hc
      simp only [List.length_reverse]
      omega
    · -- the head of a dropWhile (≠ '/') is '/'
      exfalso
      have := dropWhile_head (· ≠ '/') p.reverse c r hr
      simp at this
      exact hc this

theorem le_foldl_max (l : List Nat) (a : Nat) : a ≤ l.foldl max a := by
  induction l generalizing a with
  | nil => exact Nat.le_refl _
  | cons x xs ih => exact Nat.le_trans (Nat.le_max_left a x) (ih (max a x))

theorem mem_le_foldl_max (l : List Nat) (a x : Nat) (h : x ∈ l) : x ≤ l.foldl max a := by
  induction l generalizing a with
  | nil => cases h
  | cons y ys ih =>
    rcases List.mem_cons.1 h with rfl | h
    · exact Nat.le_trans (Nat.le_max_right a x) (le_foldl_max ys (max a x))
    · exact ih (max a y) h

theorem path_le_maxLen (t : Tree) (n : Node) (h : n ∈ t) : n.path.length ≤ maxLen t := by
  unfold maxLen
  refine Nat.le_trans (Nat.le_max_left _ _) (mem_le_foldl_max _ 0 _ (List.mem_map.2 ⟨n, h, rfl⟩))

theorem target_le_maxLen (t : Tree) (n : Node) (tg : Bytes) (h : n ∈ t) (hk : n.kind = .linkDir tg) :
    tg.length ≤ maxLen t := by
  unfold maxLen
  refine Nat.le_trans ?_ (mem_le_foldl_max _ 0 _ (List.mem_map.2 ⟨n, h, rfl⟩))
  rw [hk]
  exact Nat.le_max_right _ _

theorem target_mem (t : Tree) (n : Node) (tg : Bytes) (h : n ∈ t) (hk : n.kind = .linkDir tg) :
    tg ∈ targets t := by
  unfold targets
  exact List.mem_filterMap.2 ⟨n, h, by rw [hk]⟩

/-! ### the measure -/

/-- link targets not yet recorded (with repetitions) -/
def unseen (t : Tree) (seen : List Bytes) : Nat :=
  ((targets t).filter fun tg => !seen.contains tg).length

def mu (t : Tree) (seen : List Bytes) (real : Bytes) : Nat :=
  unseen t seen * (maxLen t + 2) + (maxLen t + 1 - real.length)

theorem filter_length_mono {α : Type} (l : List α) (p q : α → Bool) (h : ∀ x, q x = true → p x = true) :
    (l.filter q).length ≤ (l.filter p).length := by
  induction l with
  | nil => simp
  | cons a as ih =>
    simp only [List.filter_cons]
    cases hq : q a
    · cases hp : p a <;> simp <;> omega
    · simp [h a hq]; omega

theorem filter_length_lt {α : Type} (l : List α) (p q : α → Bool) (h : ∀ x, q x = true → p x = true)
    (a : α) (ha : a ∈ l) (hpa : p a = true) (hqa : q a = false) :
    (l.filter q).length < (l.filter p).length := by
  induction l with
  | nil => cases ha
  | cons b bs ih =>
    simp only [List.filter_cons]
    rcases List.mem_cons.1 ha with rfl | hm
    · have := filter_length_mono bs p q h
      simp [hpa, hqa]; omega
    · have := ih hm
      cases hq : q b
      · cases hp : p b <;> simp <;> omega
      · simp [h b hq]; omega

theorem unseen_mono (t : Tree) (s s' : List Bytes) (h : ∀ x ∈ s, x ∈ s') : unseen t s' ≤ unseen t s := by
  unfold unseen
  apply filter_length_mono
  intro x hx
  simp only [Bool.not_eq_true', List.contains_eq_mem, decide_eq_false_iff_not] at hx ⊢
  exact fun hm => hx (h x hm)

theorem unseen_cons_lt (t : Tree) (s : List Bytes) (tg : Bytes) (hm : tg ∈ targets t)
    (hs : s.contains tg = false) : unseen t (tg :: s) < unseen t s := by
  unfold unseen
  refine filter_length_lt _ _ _ ?_ tg hm (by simpa using hs) (by simp)
  intro x hx
  simp only [Bool.not_eq_true', List.contains_eq_mem, decide_eq_false_iff_not, List.mem_cons, not_or] at hx ⊢
  exact hx.2

theorem unseen_le (t : Tree) (s : List Bytes) : unseen t s ≤ (targets t).length := by
  unfold unseen
  exact List.length_filter_le _ _

theorem mu_lt_bound (t : Tree) (s : List Bytes) (real : Bytes) : mu t s real < walkBound t := by
  unfold mu walkBound
  have h1 := unseen_le t s
  have h2 : unseen t s * (maxLen t + 2) ≤ (targets t).length * (maxLen t + 2) := Nat.mul_le_mul_right _ h1
  rw [Nat.add_mul]
  omega

/-! ### the walk -/

/-- one iteration of the loop over the children, with the recursive call as a parameter -/
def stepWith (all : Bool) (shown : Bytes)
    (rec : List Bytes → Bytes → Bytes → List (Bytes × Bytes) × List Bytes)
    (acc : List (Bytes × Bytes) × List Bytes) (n : Node) : List (Bytes × Bytes) × List Bytes :=
  let (out, seen) := acc
  match n.kind with
  | .dir =>
    let (o2, s2) := rec seen (joinPath shown (baseName n.path)) n.path
    (out ++ o2, s2)
  | .linkDir tgt =>
    let shown' := joinPath shown (baseName n.path)
    let nm' := baseName shown'
    if seen.contains tgt then
      (if !all ∧ nm'.length > 1 ∧ isPrefixOf ['.'] nm' then (out, seen) else (out ++ [(shown', tgt)], seen))
    else
      let (o2, s2) := rec (tgt :: seen) shown' tgt
      (out ++ o2, s2)
  | _ => (out, seen)

theorem walk_succ (t : Tree) (all : Bool) (fuel : Nat) (seen : List Bytes) (shown real : Bytes) :
    walk t all (fuel + 1) seen shown real =
      if !all ∧ (baseName shown).length > 1 ∧ isPrefixOf ['.'] (baseName shown) then ([], seen)
      else (childrenOf t real).foldl (stepWith all shown (walk t all fuel)) ([(shown, real)], seen) := by
  rfl

/-- a fold that keeps an invariant and whose two step functions agree where it holds -/
theorem foldl_congr_inv {α β : Type} (I : β → Prop) (f g : β → α → β) :
    ∀ (l : List α) (b : β), I b →
      (∀ acc n, I acc → n ∈ l → f acc n = g acc n ∧ I (f acc n)) →
      l.foldl f b = l.foldl g b ∧ I (l.foldl f b)
  | [], b, hb, _ => ⟨rfl, hb⟩
  | x :: xs, b, hb, h => by
    obtain ⟨he, hi⟩ := h b x hb List.mem_cons_self
    simp only [List.foldl_cons]
    rw [← he]
    exact foldl_congr_inv I f g xs (f b x) hi (fun acc n ha hn => h acc n ha (List.mem_cons_of_mem _ hn))

/-- the set of recorded targets only grows -/
theorem walk_seen_sub (t : Tree) (all : Bool) : ∀ (fuel : Nat) (seen : List Bytes) (shown real : Bytes),
    ∀ x ∈ seen, x ∈ (walk t all fuel seen shown real).2
  | 0, seen, _, _ => by intro x hx; simpa [walk] using hx
  | fuel + 1, seen, shown, real => by
    intro x hx
    rw [walk_succ]
    split
    · exact hx
    · have := foldl_congr_inv (fun acc : List (Bytes × Bytes) × List Bytes => x ∈ acc.2)
        (stepWith all shown (walk t all fuel)) (stepWith all shown (walk t all fuel))
        (childrenOf t real) ([(shown, real)], seen) hx (by
          intro acc n ha _
          refine ⟨rfl, ?_⟩
          obtain ⟨out, s⟩ := acc
          unfold stepWith
          simp only
          split
          · exact walk_seen_sub t all fuel s _ _ x ha
          · split
            · split <;> exact ha
            · exact walk_seen_sub t all fuel (_ :: s) _ _ x (List.mem_cons_of_mem _ ha)
          · exact ha)
      exact this.2

/-- with more fuel than the measure of the call, one more unit of fuel changes nothing -/
theorem walk_stable (t : Tree) (all : Bool) : ∀ (fuel : Nat) (seen : List Bytes) (shown real : Bytes),
    mu t seen real < fuel → walk t all (fuel + 1) seen shown real = walk t all fuel seen shown real
  | 0, _, _, _, h => by omega
  | fuel + 1, seen, shown, real, h => by
    rw [walk_succ t all (fuel + 1), walk_succ t all fuel]
    split
    · rfl
    · have := foldl_congr_inv (fun acc : List (Bytes × Bytes) × List Bytes => ∀ x ∈ seen, x ∈ acc.2)
        (stepWith all shown (walk t all (fuel + 1))) (stepWith all shown (walk t all fuel))
        (childrenOf t real) ([(shown, real)], seen) (fun x hx => hx) (by
          intro acc n ha hn
          obtain ⟨out, s⟩ := acc
          have hnt : n ∈ t := (List.mem_filter.1 hn).1
          have hpar : parentOf n.path = real ∧ n.path ≠ [] := by
            have := (List.mem_filter.1 hn).2
            simp only [Bool.and_eq_true, decide_eq_true_eq, Bool.not_eq_true', List.isEmpty_eq_false_iff] at this
            simpa using this
          have hus : unseen t s ≤ unseen t seen := unseen_mono t seen s ha
          have hK : unseen t s * (maxLen t + 2) ≤ unseen t seen * (maxLen t + 2) := Nat.mul_le_mul_right _ hus
          unfold mu at h
          cases hk : n.kind with
          | dir =>
            have hlen : real.length < n.path.length := by
              rw [← hpar.1]; exact parentOf_length_lt _ hpar.2
            have hml := path_le_maxLen t n hnt
            have hmu : mu t s n.path < fuel := by unfold mu; omega
            have he := walk_stable t all fuel s (joinPath shown (baseName n.path)) n.path hmu
            refine ⟨by simp only [stepWith, hk, he], ?_⟩
            intro x hx
            simp only [stepWith, hk]
            exact walk_seen_sub t all (fuel + 1) s _ _ x (ha x hx)
          | linkDir tgt =>
            by_cases hc : s.contains tgt = true
            · refine ⟨by simp only [stepWith, hk, hc, if_true], ?_⟩
              intro x hx
              simp only [stepWith, hk, hc, if_true]
              split <;> exact ha x hx
            · have hc' : s.contains tgt = false := by simpa using hc
              have hlt := unseen_cons_lt t s tgt (target_mem t n tgt hnt hk) hc'
              have hK2 : (unseen t (tgt :: s) + 1) * (maxLen t + 2) ≤ unseen t s * (maxLen t + 2) :=
                Nat.mul_le_mul_right _ hlt
              rw [Nat.add_mul] at hK2
              have hmu : mu t (tgt :: s) tgt < fuel := by unfold mu; omega
              have he := walk_stable t all fuel (tgt :: s) (joinPath shown (baseName n.path)) tgt hmu
              refine ⟨by simp only [stepWith, hk, hc', Bool.false_eq_true, if_false, he], ?_⟩
              intro x hx
              simp only [stepWith, hk, hc', Bool.false_eq_true, if_false]
              exact walk_seen_sub t all (fuel + 1) (tgt :: s) _ _ x (List.mem_cons_of_mem _ (ha x hx))
          | file => exact ⟨by simp only [stepWith, hk], by simpa only [stepWith, hk] using ha⟩
          | linkFile => exact ⟨by simp only [stepWith, hk], by simpa only [stepWith, hk] using ha⟩)
      exact this.1

/-- … and so does any amount of extra fuel -/
theorem walk_fuel_irrelevant (t : Tree) (all : Bool) (seen : List Bytes) (shown real : Bytes) (k : Nat) :
    walk t all (walkBound t + k) seen shown real = walk t all (walkBound t) seen shown real := by
  induction k with
  | zero => rfl
  | succ k ih =>
    rw [← ih, ← Nat.add_assoc]
    exact walk_stable t all (walkBound t + k) seen shown real
      (Nat.lt_of_lt_of_le (mu_lt_bound t seen real) (Nat.le_add_right _ _))

/-! ### what the walk lists -/

/-- a name the walk treats as hidden -/
def hiddenName (nm : Bytes) : Prop := nm.length > 1 ∧ isPrefixOf ['.'] nm = true

/-- a fold whose step keeps an invariant keeps it -/
theorem foldl_inv {α β : Type} (I : β → Prop) (f : β → α → β) :
    ∀ (l : List α) (b : β), I b → (∀ acc n, I acc → n ∈ l → I (f acc n)) → I (l.foldl f b)
  | [], b, hb, _ => hb
  | x :: xs, b, hb, h => by
    simp only [List.foldl_cons]
    exact foldl_inv I f xs (f b x) (h b x hb List.mem_cons_self)
      (fun acc n ha hn => h acc n ha (List.mem_cons_of_mem _ hn))

/-- without -a no directory with a hidden name is listed, wherever it sits and however it is
    reached (as a sub-directory, through a link, or as the starting point itself) -/
theorem walk_no_hidden (t : Tree) : ∀ (fuel : Nat) (seen : List Bytes) (shown real : Bytes),
    ∀ p ∈ (walk t false fuel seen shown real).1, ¬ hiddenName (baseName p.1)
  | 0, _, _, _ => by intro p hp; simp [walk] at hp
  | fuel + 1, seen, shown, real => by
    intro p hp
    rw [walk_succ] at hp
    split at hp
    · simp at hp
    · rename_i hroot
      have hroot' : ¬ hiddenName (baseName shown) := by
        intro ⟨h1, h2⟩
        exact hroot ⟨by simp, h1, h2⟩
      have := foldl_inv
        (fun acc : List (Bytes × Bytes) × List Bytes => ∀ q ∈ acc.1, ¬ hiddenName (baseName q.1))
        (stepWith false shown (walk t false fuel)) (childrenOf t real) ([(shown, real)], seen)
        (by intro q hq; simp only [List.mem_singleton] at hq; subst hq; exact hroot')
        (by
          intro acc n ha _
          obtain ⟨out, s⟩ := acc
          unfold stepWith
          simp only
          split
          · intro q hq
            rcases List.mem_append.1 hq with h | h
            · exact ha q h
            · exact walk_no_hidden t fuel s _ _ q h
          · split
            · split
              · exact ha
              · rename_i hnh
                intro q hq
                rcases List.mem_append.1 hq with h | h
                · exact ha q h
                · simp only [List.mem_singleton] at h
                  subst h
                  intro ⟨h1, h2⟩
                  exact hnh ⟨by simp, h1, h2⟩
            · intro q hq
              rcases List.mem_append.1 hq with h | h
              · exact ha q h
              · exact walk_no_hidden t fuel (_ :: s) _ _ q h
          · exact ha)
      exact this p hp

/-- every directory the walk lists is the starting point, a sub-directory node of the tree, or
    the target of a directory link: plain files and links to files are never walked into -/
theorem walk_lists_dirs (t : Tree) (all : Bool) : ∀ (fuel : Nat) (seen : List Bytes) (shown real : Bytes),
    ∀ p ∈ (walk t all fuel seen shown real).1,
      p.2 = real ∨ (∃ n ∈ t, n.kind = .dir ∧ n.path = p.2) ∨ p.2 ∈ targets t
  | 0, _, _, _ => by intro p hp; simp [walk] at hp
  | fuel + 1, seen, shown, real => by
    intro p hp
    rw [walk_succ] at hp
    split at hp
    · simp at hp
    · have := foldl_inv
        (fun acc : List (Bytes × Bytes) × List Bytes => ∀ q ∈ acc.1,
          q.2 = real ∨ (∃ n ∈ t, n.kind = .dir ∧ n.path = q.2) ∨ q.2 ∈ targets t)
        (stepWith all shown (walk t all fuel)) (childrenOf t real) ([(shown, real)], seen)
        (by intro q hq; simp only [List.mem_singleton] at hq; subst hq; exact Or.inl rfl)
        (by
          intro acc n ha hn
          obtain ⟨out, s⟩ := acc
          have hnt : n ∈ t := (List.mem_filter.1 hn).1
          unfold stepWith
          simp only
          split
          · rename_i hk
            intro q hq
            rcases List.mem_append.1 hq with h | h
            · exact ha q h
            · rcases walk_lists_dirs t all fuel s _ _ q h with h1 | h1 | h1
              · exact Or.inr (Or.inl ⟨n, hnt, hk, h1.symm⟩)
              · exact Or.inr (Or.inl h1)
              · exact Or.inr (Or.inr h1)
          · rename_i tgt hk
            have htg : tgt ∈ targets t := target_mem t n tgt hnt hk
            split
            · split
              · exact ha
              · intro q hq
                rcases List.mem_append.1 hq with h | h
                · exact ha q h
                · simp only [List.mem_singleton] at h
                  subst h
                  exact Or.inr (Or.inr htg)
            · intro q hq
              rcases List.mem_append.1 hq with h | h
              · exact ha q h
              · rcases walk_lists_dirs t all fuel (_ :: s) _ _ q h with h1 | h1 | h1
                · exact Or.inr (Or.inr (h1 ▸ htg))
                · exact Or.inr (Or.inl h1)
                · exact Or.inr (Or.inr h1)
          · exact ha)
      exact this p hp

end Gfs.Proofs.WalkTerm
