/-
  GfsProofs.FindComplete — completeness of the pattern lookup (C07): the template scan collects
  EVERY visible name of the form basename + frame number + extension into one bucket, in order,
  and a bucket of two or more frames of one width becomes the one sequence that is returned.
-/
import GfsProofs.CppScan
import GfsProofs.PadLemmas

namespace Gfs.Proofs.FindComplete
open Gfs Gfs.Spec Gfs.Proofs Gfs.Proofs.CppScan

/-- the frame token of a name the template glob accepts (`none`: hidden, or not of the form
    basename + frame number + extension) -/
def candTok (o : ListOpts) (t : Seq) (name : Bytes) : Option Bytes :=
  if !o.hidden ∧ isPrefixOf ['.'] name then none
  else if isPrefixOf t.base name ∧ isSuffixOf t.ext name ∧ t.base.length + t.ext.length ≤ name.length then
    let mid := (name.drop t.base.length).take (name.length - t.base.length - t.ext.length)
    if (frameAt mid).map (·.2) = some [] ∧ (atoi mid).isSome then some mid else none
  else none

def candToks (o : ListOpts) (t : Seq) (items : List FileItem) : List Bytes :=
  items.filterMap fun it => candTok o t it.name

/-- the bucket list while scanning with a template: empty, or the one bucket of the pattern's key
    holding the tokens collected so far, in order -/
def Inv1 (st : PadStyle) (t : Seq) (acc : List Bytes) (bs : List SeqInfo) : Prop :=
  (acc = [] ∧ bs = []) ∨
  (acc ≠ [] ∧ ∃ b, bs = [b] ∧ b.dir = t.dir ∧ b.base = t.base ∧ b.ext = t.ext ∧
    b.frames.map (·.frame) = acc ∧ b.frames.map (·.num) = acc.map atoiOr0 ∧ PInv st b)

theorem inv1_add (st : PadStyle) (t : Seq) (acc : List Bytes) (bs : List SeqInfo) (tok : Bytes)
    (h : Inv1 st t acc bs) : Inv1 st t (acc ++ [tok]) (addFrame st t.dir t.base t.ext tok bs) := by
  right
  refine ⟨by simp, ?_⟩
  rcases h with ⟨ha, hb⟩ | ⟨_, b, hb, hd, hbase, hext, hfr, hnum, hp⟩
  · subst ha; subst hb
    refine ⟨_, rfl, rfl, rfl, rfl, by simp [addFrame], by simp [addFrame], ?_⟩
    exact addFrame_pinv st t.dir t.base t.ext tok [] (fun _ h => by cases h) _ (by simp [addFrame])
  · subst hb
    have hk : b.dir = t.dir ∧ b.base = t.base ∧ b.ext = t.ext := ⟨hd, hbase, hext⟩
    have hpi := addFrame_pinv st t.dir t.base t.ext tok [b]
      (fun g hg => by rw [List.mem_singleton.1 hg]; exact hp)
    unfold addFrame at hpi ⊢
    rw [if_pos hk] at hpi ⊢
    by_cases hl : tok.length < b.minWidth
    · simp only [hl, if_true] at hpi ⊢
      exact ⟨_, rfl, hd, hbase, hext, by simp [hfr], by simp [hnum], hpi _ (List.mem_singleton.2 rfl)⟩
    · simp only [hl, if_false] at hpi ⊢
      exact ⟨_, rfl, hd, hbase, hext, by simp [hfr], by simp [hnum], hpi _ (List.mem_singleton.2 rfl)⟩

/-- the template scan never fails, adds no single file, and collects exactly the candidate
    tokens, in order -/
theorem scan_collects (o : ListOpts) (t : Seq) : ∀ (items : List FileItem) (bs : List SeqInfo)
    (files : List Seq) (acc : List Bytes), Inv1 o.style t acc bs →
    ∃ bs', scanItems o (some t) items bs files = .ok (bs', files) ∧
      Inv1 o.style t (acc ++ candToks o t items) bs'
  | [], bs, files, acc, h => ⟨bs, by simp [scanItems], by simpa [candToks] using h⟩
  | it :: rest, bs, files, acc, h => by
    unfold scanItems
    dsimp only
    have hct : candToks o t (it :: rest) = (candTok o t it.name).toList ++ candToks o t rest := by
      unfold candToks
      simp only [List.filterMap_cons]
      cases candTok o t it.name <;> simp
    rw [hct]
    unfold candTok
    by_cases hhid : (!o.hidden ∧ isPrefixOf ['.'] it.name)
    · rw [if_pos hhid, if_pos hhid]
      simpa using scan_collects o t rest bs files acc h
    · rw [if_neg hhid, if_neg hhid]
      by_cases hglob : (isPrefixOf t.base it.name ∧ isSuffixOf t.ext it.name ∧
          t.base.length + t.ext.length ≤ it.name.length)
      · rw [if_pos hglob, if_pos hglob]
        by_cases hfr : ((frameAt ((it.name.drop t.base.length).take
            (it.name.length - t.base.length - t.ext.length))).map (·.2) = some [] ∧
            (atoi ((it.name.drop t.base.length).take
              (it.name.length - t.base.length - t.ext.length))).isSome)
        · simp only [hfr, and_self, if_true, Option.toList_some]
          have := scan_collects o t rest
            (addFrame o.style t.dir t.base t.ext ((it.name.drop t.base.length).take
              (it.name.length - t.base.length - t.ext.length)) bs) files
            (acc ++ [(it.name.drop t.base.length).take (it.name.length - t.base.length - t.ext.length)])
            (inv1_add o.style t acc bs _ h)
          simpa [List.append_assoc] using this
        · simp only [hfr, if_false, Option.toList_none, List.nil_append]
          exact scan_collects o t rest bs files acc h
      · rw [if_neg hglob, if_neg hglob]
        simpa using scan_collects o t rest bs files acc h

/-- Completeness of the lookup: when the visible names basename + frame number + extension of
    the pattern's directory are two or more and share one digit width, the (non-strict) lookup
    returns ONE sequence — the pattern's directory, basename and extension, that width, in the
    requested style — whose range text is the compressed list of ALL their numbers. -/
theorem find_complete (lookup : Bytes → DirSpec) (pat : Bytes) (st : PadStyle) (hidden : Bool)
    (fs : Seq) (entries : List Entry) (w : Nat)
    (hp : Seq.parse st pat = .ok fs) (hl : lookup (openDir fs.dir) = some entries)
    (hnd : ∀ e ∈ entries, e.kind ≠ .dangling)
    (toks : List Bytes)
    (htoks : toks = candToks ⟨false, hidden, st⟩ fs
        ((entries.filter fun e => e.kind = .file ∨ e.kind = .linkFile).map fun e => ⟨dirPrefix (openDir fs.dir), e.name⟩))
    (h2 : 2 ≤ toks.length) (hw : ∀ tk ∈ toks, tk.length = w) :
    ∃ s, findSequenceOnDisk lookup pat st false hidden = .ok (some s) ∧
      s.dir = fs.dir ∧ s.base = fs.base ∧ s.ext = fs.ext ∧ s.style = st ∧
      s = (rebuild st fs.dir fs.base (framesToFrameRange (toks.map atoiOr0) true 0)
            (padChars st w) fs.ext).setPaddingStyle st := by
  obtain ⟨bs, hscan, hinv⟩ := scan_collects ⟨false, hidden, st⟩ fs
    ((entries.filter fun e => e.kind = .file ∨ e.kind = .linkFile).map fun e => ⟨dirPrefix (openDir fs.dir), e.name⟩)
    [] [] [] (Or.inl ⟨rfl, rfl⟩)
  rw [List.nil_append, ← htoks] at hinv
  have hne : toks ≠ [] := by intro h0; rw [h0] at h2; simp at h2
  rcases hinv with ⟨ha, _⟩ | ⟨_, b, hb, hd, hbase, hext, hfr, hnum, _⟩
  · exact absurd ha hne
  · subst hb
    have hlen : 2 ≤ b.frames.length := by
      have : b.frames.length = toks.length := by rw [← hfr]; simp
      omega
    have hwb : ∀ f ∈ b.frames, f.frame.length = w := by
      intro f hf
      exact hw _ (by rw [← hfr]; exact List.mem_map.2 ⟨f, hf, rfl⟩)
    have hbs := Order.bucketSeqs_uniform st b w hlen hwb
    have hany : (entries.any fun e => e.kind = .dangling) = false := by
      rw [List.any_eq_false]
      intro e he
      simpa using hnd e he
    have hkey : ∀ (r : Seq), r = rebuild st fs.dir fs.base (framesToFrameRange (toks.map atoiOr0) true 0)
        (padChars st w) fs.ext → r.dir = fs.dir ∧ r.base = fs.base ∧ r.ext = fs.ext := by
      intro r hr
      subst hr
      unfold rebuild
      simp only
      split
      · simp [Seq.setPadding]
      · unfold Seq.setFrameRange
        split <;> simp [Seq.setPadding]
    obtain ⟨k1, k2, k3⟩ := hkey _ rfl
    refine ⟨(rebuild st fs.dir fs.base (framesToFrameRange (toks.map atoiOr0) true 0)
            (padChars st w) fs.ext).setPaddingStyle st, ?_, ?_, ?_, ?_, ?_, rfl⟩
    · unfold findSequenceOnDisk scanDir findInItems
      simp only [hp, hl, hany, Bool.false_eq_true, if_false]
      rw [hscan]
      simp only [bind, Except.bind, pure, Except.pure, List.map_cons, List.map_nil, List.flatten_cons,
        List.flatten_nil, List.append_nil, hbs, hd, hbase, hext, hnum]
      simp [k2, k3]
    · simpa [Seq.setPaddingStyle, Seq.setPadding] using k1
    · simpa [Seq.setPaddingStyle, Seq.setPadding] using k2
    · simpa [Seq.setPaddingStyle, Seq.setPadding] using k3
    · simp [Seq.setPaddingStyle, Seq.setPadding]

/-- the width of the sequence the lookup builds from candidates of digit width `w` -/
theorem built_zfill (st : PadStyle) (d b fr e : Bytes) (w : Nat) (hw : 1 ≤ w) (hfr : fr ≠ []) :
    ((rebuild st d b fr (padChars st w) e).setPaddingStyle st).zfill = w := by
  have hz : padSize st (padChars st (w : Int)) = w := padSize_padChars st _ (by omega)
  have hpe : (padChars st ↑w).isEmpty = false := by
    cases hq : padChars st ↑w with
    | nil => exact absurd hq (ListAux.padChars_ne_nil st w)
    | cons _ _ => rfl
  have hfe : fr.isEmpty = false := by
    cases fr with
    | nil => exact absurd rfl hfr
    | cons _ _ => rfl
  unfold rebuild
  simp only [hpe, hfe, Bool.false_eq_true, false_and, if_false]
  unfold Seq.setFrameRange
  split <;> simp [Seq.setPaddingStyle, Seq.setPadding, hz]

/-- … and with StrictPadding: the same sequence when the pattern has no padding or its pad width
    is the candidates' digit width, nothing otherwise -/
theorem find_complete_strict (lookup : Bytes → DirSpec) (pat : Bytes) (st : PadStyle) (hidden : Bool)
    (fs : Seq) (entries : List Entry) (w : Nat)
    (hp : Seq.parse st pat = .ok fs) (hl : lookup (openDir fs.dir) = some entries)
    (hnd : ∀ e ∈ entries, e.kind ≠ .dangling)
    (toks : List Bytes)
    (htoks : toks = candToks ⟨false, hidden, st⟩ fs
        ((entries.filter fun e => e.kind = .file ∨ e.kind = .linkFile).map fun e => ⟨dirPrefix (openDir fs.dir), e.name⟩))
    (h2 : 2 ≤ toks.length) (hw : ∀ tk ∈ toks, tk.length = w) (hw1 : 1 ≤ w)
    (hfr : framesToFrameRange (toks.map atoiOr0) true 0 ≠ []) :
    findSequenceOnDisk lookup pat st true hidden =
      .ok (if fs.pad.isEmpty = false ∧ (w : Int) ≠ fs.zfill then none
           else some ((rebuild st fs.dir fs.base (framesToFrameRange (toks.map atoiOr0) true 0)
                        (padChars st w) fs.ext).setPaddingStyle st)) := by
  obtain ⟨bs, hscan, hinv⟩ := scan_collects ⟨false, hidden, st⟩ fs
    ((entries.filter fun e => e.kind = .file ∨ e.kind = .linkFile).map fun e => ⟨dirPrefix (openDir fs.dir), e.name⟩)
    [] [] [] (Or.inl ⟨rfl, rfl⟩)
  rw [List.nil_append, ← htoks] at hinv
  have hne : toks ≠ [] := by intro h0; rw [h0] at h2; simp at h2
  rcases hinv with ⟨ha, _⟩ | ⟨_, b, hb, hd, hbase, hext, hfrm, hnum, _⟩
  · exact absurd ha hne
  · subst hb
    have hlen : 2 ≤ b.frames.length := by
      have : b.frames.length = toks.length := by rw [← hfrm]; simp
      omega
    have hwb : ∀ f ∈ b.frames, f.frame.length = w := by
      intro f hf
      exact hw _ (by rw [← hfrm]; exact List.mem_map.2 ⟨f, hf, rfl⟩)
    have hbs := Order.bucketSeqs_uniform st b w hlen hwb
    have hany : (entries.any fun e => e.kind = .dangling) = false := by
      rw [List.any_eq_false]
      intro e he
      simpa using hnd e he
    have hkey : ∀ (r : Seq), r = rebuild st fs.dir fs.base (framesToFrameRange (toks.map atoiOr0) true 0)
        (padChars st w) fs.ext → r.base = fs.base ∧ r.ext = fs.ext := by
      intro r hr
      subst hr
      unfold rebuild
      simp only
      split
      · simp [Seq.setPadding]
      · unfold Seq.setFrameRange
        split <;> simp [Seq.setPadding]
    obtain ⟨k2, k3⟩ := hkey _ rfl
    have hz := built_zfill st fs.dir fs.base (framesToFrameRange (toks.map atoiOr0) true 0) fs.ext w hw1 hfr
    unfold findSequenceOnDisk scanDir findInItems
    simp only [hp, hl, hany, Bool.false_eq_true, if_false]
    rw [hscan]
    simp only [bind, Except.bind, pure, Except.pure, List.map_cons, List.map_nil, List.flatten_cons,
      List.flatten_nil, List.append_nil, hbs, hd, hbase, hext, hnum]
    by_cases hc : fs.pad.isEmpty = false ∧ (w : Int) ≠ fs.zfill
    · simp [k2, k3, hz, hc]
    · simp only [hc, if_false]
      have : ¬ (fs.pad.isEmpty = false ∧ (w : Int) ≠ fs.zfill) := hc
      simp [k2, k3, hz]
      intro h1
      refine Classical.byContradiction fun h2' => this ⟨?_, h2'⟩
      cases hq : fs.pad with
      | nil => exact absurd hq h1
      | cons _ _ => rfl

theorem rebuild_key (st : PadStyle) (d b fr pad e : Bytes) :
    (rebuild st d b fr pad e).dir = d ∧ (rebuild st d b fr pad e).base = b ∧ (rebuild st d b fr pad e).ext = e := by
  unfold rebuild
  simp only
  split
  · simp [Seq.setPadding]
  · unfold Seq.setFrameRange
    split <;> simp [Seq.setPadding]

/-- a single candidate is not dropped either: the non-strict lookup returns a sequence with the
    pattern's directory, basename and extension -/
theorem find_single (lookup : Bytes → DirSpec) (pat : Bytes) (st : PadStyle) (hidden : Bool)
    (fs : Seq) (entries : List Entry) (tk : Bytes)
    (hp : Seq.parse st pat = .ok fs) (hl : lookup (openDir fs.dir) = some entries)
    (hnd : ∀ e ∈ entries, e.kind ≠ .dangling)
    (htoks : candToks ⟨false, hidden, st⟩ fs
        ((entries.filter fun e => e.kind = .file ∨ e.kind = .linkFile).map fun e => ⟨dirPrefix (openDir fs.dir), e.name⟩) = [tk]) :
    ∃ s, findSequenceOnDisk lookup pat st false hidden = .ok (some s) ∧
      s.dir = fs.dir ∧ s.base = fs.base ∧ s.ext = fs.ext ∧ s.style = st := by
  obtain ⟨bs, hscan, hinv⟩ := scan_collects ⟨false, hidden, st⟩ fs
    ((entries.filter fun e => e.kind = .file ∨ e.kind = .linkFile).map fun e => ⟨dirPrefix (openDir fs.dir), e.name⟩)
    [] [] [] (Or.inl ⟨rfl, rfl⟩)
  rw [List.nil_append, htoks] at hinv
  rcases hinv with ⟨ha, _⟩ | ⟨_, b, hb, hd, hbase, hext, hfr, _, _⟩
  · cases ha
  · subst hb
    obtain ⟨f, hf⟩ : ∃ f, b.frames = [f] := by
      cases hq : b.frames with
      | nil => rw [hq] at hfr; cases hfr
      | cons f r =>
        cases r with
        | nil => exact ⟨f, rfl⟩
        | cons _ _ => rw [hq] at hfr; simp at hfr
    obtain ⟨ld, hbs⟩ := ListAux.bucketSeqs_single st b f hf
    have hany : (entries.any fun e => e.kind = .dangling) = false := by
      rw [List.any_eq_false]
      intro e he
      simpa using hnd e he
    obtain ⟨k1, k2, k3⟩ := rebuild_key st b.dir b.base
      (if (if ld then [] else b.padding).isEmpty then f.frame else itoa f.num)
      (if ld then [] else b.padding) b.ext
    refine ⟨(rebuild st b.dir b.base
        (if (if ld then [] else b.padding).isEmpty then f.frame else itoa f.num)
        (if ld then [] else b.padding) b.ext).setPaddingStyle st, ?_, ?_, ?_, ?_, ?_⟩
    · unfold findSequenceOnDisk scanDir findInItems
      simp only [hp, hl, hany, Bool.false_eq_true, if_false]
      rw [hscan]
      simp only [bind, Except.bind, pure, Except.pure, List.map_cons, List.map_nil, List.flatten_cons,
        List.flatten_nil, List.append_nil, hbs]
      simp [hbase, hext]
      exact ⟨(rebuild_key st b.dir fs.base _ _ fs.ext).2.1, (rebuild_key st b.dir fs.base _ _ fs.ext).2.2⟩
    · simpa [Seq.setPaddingStyle, Seq.setPadding, hd] using k1
    · simpa [Seq.setPaddingStyle, Seq.setPadding, hbase] using k2
    · simpa [Seq.setPaddingStyle, Seq.setPadding, hext] using k3
    · simp [Seq.setPaddingStyle, Seq.setPadding]

end Gfs.Proofs.FindComplete
