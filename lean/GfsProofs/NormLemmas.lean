/-
  GfsProofs.NormLemmas — `normalized` yields the sorted set / the complement within
  [min,max] (C08), as well-formed block lists.
-/
import GfsModel.Ranges
import GfsSpec.Enum
import GfsSpec.WF
import GfsProofs.BlocksLemmas
import GfsProofs.NormAux

namespace Gfs.Proofs
open Gfs Gfs.Spec

/-- `normalized` only looks at membership and at min / max. -/
theorem normalized_congr (bl bl' : Blocks) (inv : Bool)
    (hc : ∀ v, Blocks.contains bl v = Blocks.contains bl' v)
    (hmin : Blocks.min bl = Blocks.min bl') (hmax : Blocks.max bl = Blocks.max bl') :
    Blocks.normalized bl inv = Blocks.normalized bl' inv := by
  have hf : Blocks.contains bl = Blocks.contains bl' := funext hc
  unfold Blocks.normalized
  rw [hmin, hmax, hf]

/-- for a well-formed non-empty block list, min ≤ every member ≤ max, and both are members -/
theorem blocks_min_max_spec (bl : Blocks) (h : WF bl) (hne : bl ≠ []) :
    Blocks.min bl ≤ Blocks.max bl ∧
    (∀ v ∈ blocksEnum bl, Blocks.min bl ≤ v ∧ v ≤ Blocks.max bl) := by
  have hL := blocksEnum_ne_nil bl h hne
  have h1 := listMin_spec _ hL
  have h2 := listMax_spec _ hL
  rw [blocks_min bl h hne, blocks_max bl h hne]
  exact ⟨h2.2 _ h1.1, fun v hv => ⟨h1.2 v hv, h2.2 v hv⟩⟩

/-- Normalize: same members, ascending, no duplicates; the result is well formed. -/
theorem normalized_sorted (bl : Blocks) (h : WF bl) (hne : bl ≠ []) :
    WF (Blocks.normalized bl false) ∧
    blocksEnum (Blocks.normalized bl false) = sortedSet (blocksEnum bl) := by
  obtain ⟨hle, hb⟩ := blocks_min_max_spec bl h hne
  obtain ⟨hwf, he⟩ := normalized_spec bl false hle
  refine ⟨hwf, ?_⟩
  rw [he]
  apply asc_ext _ _ ((up_one_asc _ _).filter _) (sortedSet_asc _)
  intro v
  obtain ⟨_, _, hmem⟩ := up_one (Blocks.min bl) (Blocks.max bl)
  rw [mem_sortedSet', List.mem_filter, hmem]
  simp only [Bool.false_eq_true, if_false, Bool.not_not]
  rw [blocks_contains bl h]
  constructor
  · exact fun hv => hv.2
  · exact fun hv => ⟨hb v hv, hv⟩

/-- Invert: exactly the integers between the smallest and the largest member that are not
    members; the result is well formed (and empty when there are none). -/
theorem normalized_complement (bl : Blocks) (h : WF bl) (hne : bl ≠ []) :
    WF (Blocks.normalized bl true) ∧
    blocksEnum (Blocks.normalized bl true) = complement (blocksEnum bl) := by
  obtain ⟨hle, _⟩ := blocks_min_max_spec bl h hne
  obtain ⟨hwf, he⟩ := normalized_spec bl true hle
  refine ⟨hwf, ?_⟩
  rw [he]
  unfold complement
  rw [← blocks_min bl h hne, ← blocks_max bl h hne]
  apply List.filter_congr
  intro v _
  simp only [if_true]
  congr 1
  rw [Bool.eq_iff_iff, blocks_contains bl h]
  simp

/-- facts about the specification functions themselves -/
theorem sortedSet_idem (L : List Int) : sortedSet (sortedSet L) = sortedSet L := by
  apply asc_ext _ _ (sortedSet_asc _) (sortedSet_asc _)
  intro v
  rw [mem_sortedSet']

theorem sortedSet_perm (L L' : List Int) (h : ∀ v, v ∈ L ↔ v ∈ L') : sortedSet L = sortedSet L' := by
  apply asc_ext _ _ (sortedSet_asc _) (sortedSet_asc _)
  intro v
  rw [mem_sortedSet', mem_sortedSet', h]

theorem mem_sortedSet (L : List Int) (v : Int) : v ∈ sortedSet L ↔ v ∈ L :=
  mem_sortedSet' L v

theorem sortedSet_sorted (L : List Int) : (sortedSet L).Pairwise (· < ·) :=
  sortedSet_asc L

theorem mem_complement (L : List Int) (v : Int) :
    v ∈ complement L ↔ (listMin L ≤ v ∧ v ≤ listMax L ∧ v ∉ L) := by
  obtain ⟨_, _, hmem⟩ := up_one (listMin L) (listMax L)
  unfold complement
  rw [List.mem_filter, hmem]
  simp [and_assoc]

theorem complement_sorted (L : List Int) : (complement L).Pairwise (· < ·) :=
  (up_one_asc _ _).filter _

end Gfs.Proofs
