/-
  GfsProofs.CppLemmas — the structurally different parts of the C++ port (GfsModel.Cpp) agree
  with the Go model on the domain of C19.
-/
import GfsModel.Cpp
import GfsSpec.Grammar
import GfsSpec.SeqSpec
import GfsProofs.PadLemmas
import GfsProofs.PadRangeLemmas
import GfsProofs.CompressLemmas
import GfsProofs.ParseSyn
import GfsProofs.ParseSem
import GfsProofs.StrParse
import GfsModel.ListSeqs

namespace Gfs.Proofs
open Gfs Gfs.Spec

/-! ### zfill -/

theorem cpp_zfill_eq_spec (v z : Int) : Cpp.zfill v z = zfillSpec v z := by
  unfold Cpp.zfill zfillSpec
  by_cases h : v < 0
  · simp only [h, if_true, List.length_cons, List.length_nil]
    simp [Nat.sub_sub, Nat.add_comm]
  · simp only [h, if_false, List.length_nil]
    simp

/-- `zfill(Frame, int)` of the port = `zfillInt` of the Go library, for every value and width -/
theorem cpp_zfill_eq (v z : Int) : Cpp.zfill v z = zfillInt v z := by
  rw [cpp_zfill_eq_spec, zfillInt_eq_spec]

/-! ### getline splitting -/

/-- when the last comma part is not empty, `std::getline` yields what `strings.Split` yields -/
theorem splitGetline_eq (sep : Char) (s : Bytes)
    (h : ∀ p ∈ splitOn sep s, p ≠ []) : Cpp.splitGetline sep s = splitOn sep s := by
  unfold Cpp.splitGetline
  simp only
  split
  · rename_i hl
    have hm : ([] : Bytes) ∈ splitOn sep s := List.mem_of_getLast? hl
    exact absurd rfl (h [] hm)
  · rfl

theorem matchPart_nil : matchPart [] = none := by
  simp [matchPart, takeNum]

/-! ### matching the parts -/

theorem handleMatch_fits (bl bl' : Blocks) (m : Match) (h : handleMatch bl m = .ok bl') :
    Cpp.matchFits m = true := by
  cases m with
  | single a =>
    simp only [handleMatch, parseInt, bind, Except.bind] at h
    cases ha : atoi a with
    | none => simp [ha] at h
    | some v => simp [Cpp.matchFits, ha]
  | range a b =>
    simp only [handleMatch, parseInt, bind, Except.bind] at h
    cases ha : atoi a with
    | none => simp [ha] at h
    | some v =>
      cases hb : atoi b with
      | none => simp [ha, hb] at h
      | some v' => simp [Cpp.matchFits, ha, hb]
  | complex a b mc n =>
    simp only [handleMatch, parseInt, bind, Except.bind] at h
    cases hn : atoi n with
    | none => simp [hn] at h
    | some vn =>
      cases ha : atoi a with
      | none =>
        simp only [hn, ha] at h
        split at h <;> simp at h
      | some va =>
        cases hb : atoi b with
        | none =>
          simp only [hn, ha, hb] at h
          split at h <;> simp at h
        | some vb => simp [Cpp.matchFits, ha, hb, hn]

theorem handleMatches_fits : ∀ (ms : List Match) (bl bl' : Blocks),
    handleMatches bl ms = .ok bl' → ∀ m ∈ ms, Cpp.matchFits m = true
  | [], _, _, _ => by intro m hm; cases hm
  | m :: ms, bl, bl', h => by
    simp only [handleMatches, bind, Except.bind] at h
    cases hm : handleMatch bl m with
    | error e => simp [hm] at h
    | ok bl1 =>
      simp only [hm] at h
      intro m' hm'
      rcases List.mem_cons.1 hm' with rfl | hm'
      · exact handleMatch_fits bl bl1 _ hm
      · exact handleMatches_fits ms bl1 bl' h m' hm'

/-- the Go matcher on a list of parts (what `mapM` in `frameRangeMatches` computes) -/
theorem mapM_matchPart_ok : ∀ (parts : List Bytes) (ms : List Match),
    (parts.mapM fun p => match matchPart p with
        | some m => (Except.ok m : Except Err Match)
        | none => .error .parse) = .ok ms →
    (∀ p ∈ parts, p ≠ []) ∧
    ((∀ m ∈ ms, Cpp.matchFits m = true) → Cpp.matchParts parts = .ok ms)
  | [], ms, h => by
    simp only [List.mapM_nil, pure, Except.pure] at h
    cases h
    exact ⟨fun p hp => (by cases hp), fun _ => rfl⟩
  | p :: ps, ms, h => by
    simp only [List.mapM_cons, bind, Except.bind] at h
    cases hp : matchPart p with
    | none => simp [hp] at h
    | some m =>
      simp only [hp] at h
      cases hrest : (ps.mapM fun p => match matchPart p with
          | some m => (Except.ok m : Except Err Match)
          | none => .error .parse) with
      | error e => simp [hrest] at h
      | ok ms' =>
        simp only [hrest, pure, Except.pure] at h
        cases h
        obtain ⟨ih1, ih2⟩ := mapM_matchPart_ok ps ms' hrest
        refine ⟨?_, ?_⟩
        · intro q hq
          rcases List.mem_cons.1 hq with rfl | hq
          · intro h0; subst h0; rw [matchPart_nil] at hp; cases hp
          · exact ih1 q hq
        · intro hf
          have hm : Cpp.matchFits m = true := hf m List.mem_cons_self
          have hrest' := ih2 (fun m' hm' => hf m' (List.mem_cons_of_mem _ hm'))
          simp [Cpp.matchParts, hp, hm, hrest']

/-- a stepped part that was handled has a non-zero step -/
theorem handleMatch_step (bl bl' : Blocks) (a b : Bytes) (mc : Char) (n : Bytes)
    (h : handleMatch bl (.complex a b mc n) = .ok bl') : atoi n ≠ some 0 := by
  intro h0
  simp [handleMatch, parseInt, h0, bind, Except.bind] at h

theorem handleMatches_steps : ∀ (ms : List Match) (bl bl' : Blocks),
    handleMatches bl ms = .ok bl' →
    ms.all Cpp.stepOk = true
  | [], _, _, _ => rfl
  | m :: ms, bl, bl', h => by
    simp only [handleMatches, bind, Except.bind] at h
    cases hm : handleMatch bl m with
    | error e => simp [hm] at h
    | ok bl1 =>
      simp only [hm] at h
      have ih := handleMatches_steps ms bl1 bl' h
      simp only [List.all_cons, ih, Bool.and_true]
      cases m with
      | single a => rfl
      | range a b => rfl
      | complex a b mc n =>
        have := handleMatch_step bl bl1 a b mc n hm
        simp [Cpp.stepOk, this]

/-- the port's matcher agrees with the Go matcher on every text the Go library accepts -/
theorem cpp_matches_eq (s : Bytes) (fs : FrameSet) (h : FrameSet.parse s = .ok fs) :
    ∃ ms bl, Cpp.frameRangeMatches s = .ok ms ∧ handleMatches [] ms = .ok bl := by
  simp only [FrameSet.parse, bind, Except.bind] at h
  cases hms : Gfs.frameRangeMatches s with
  | error e => simp [hms] at h
  | ok ms =>
    simp only [hms] at h
    cases hbl : handleMatches [] ms with
    | error e => simp [hbl] at h
    | ok bl =>
      have hfit := handleMatches_fits ms [] bl hbl
      unfold Gfs.frameRangeMatches at hms
      obtain ⟨hne, hok⟩ := mapM_matchPart_ok _ ms hms
      refine ⟨ms, bl, ?_, hbl⟩
      unfold Cpp.frameRangeMatches
      rw [splitGetline_eq ',' (stripJunk s) hne]
      exact hok hfit

/-- C19, validity test: the port's `isFrameRange` says yes to every text the Go library accepts -/
theorem cpp_isFrameRange_of_parse (s : Bytes) (fs : FrameSet) (h : FrameSet.parse s = .ok fs) :
    Cpp.isFrameRange s = .ok true := by
  obtain ⟨ms, bl, hm, hb⟩ := cpp_matches_eq s fs h
  unfold Cpp.isFrameRange
  rw [hm]
  simp only
  rw [handleMatches_steps ms [] bl hb]

/-- C19, parsing: a range text the Go library accepts and that denotes at least one frame is
    accepted by the port with exactly the same block list (hence the same frames, length,
    index / membership answers, normalised and inverted ranges). -/
theorem cpp_parse_eq (s : Bytes) (fs : FrameSet) (h : FrameSet.parse s = .ok fs)
    (hlen : fs.len ≠ 0) : Cpp.parse s = .ok fs := by
  simp only [FrameSet.parse, bind, Except.bind] at h
  cases hms : Gfs.frameRangeMatches s with
  | error e => simp [hms] at h
  | ok ms =>
    simp only [hms] at h
    cases hbl : handleMatches [] ms with
    | error e => simp [hbl] at h
    | ok bl =>
      simp only [hbl, pure, Except.pure] at h
      cases h
      have hfit := handleMatches_fits ms [] bl hbl
      unfold Gfs.frameRangeMatches at hms
      obtain ⟨hne, hok⟩ := mapM_matchPart_ok _ ms hms
      have hsplit := splitGetline_eq ',' (stripJunk s) hne
      have : Cpp.frameRangeMatches s = .ok ms := by
        unfold Cpp.frameRangeMatches
        rw [hsplit]
        exact hok hfit
      unfold Cpp.parse
      simp only [this, hbl]
      have : ¬ (Blocks.len bl = 0) := hlen
      simp [this]

/-! ### padFrameRange: the port re-prints the numbers -/

/-- what the port's `padFrameRange` does to the captures of one part -/
def cppPadMatch (w : Int) : Match → Match
  | .single a => .single (Cpp.zfill (Cpp.num a) w)
  | .range a b => .range (Cpp.zfill (Cpp.num a) w) (Cpp.zfill (Cpp.num b) w)
  | .complex a b m n => .complex (Cpp.zfill (Cpp.num a) w) (Cpp.zfill (Cpp.num b) w) m (itoa (Cpp.num n))

theorem cpp_padPart_eq (w : Int) (part : Bytes) :
    Cpp.padPart w part = match matchPart part with
      | some m => matchText (cppPadMatch w m)
      | none => part := by
  unfold Cpp.padPart
  cases matchPart part with
  | none => rfl
  | some m => cases m <;> rfl

theorem atoi_of_numText {n : Int} {t : Bytes} (h : NumText n t) (hf : Fits n) : atoi t = some n := by
  have := parseInt_fits n t h hf
  unfold parseInt at this
  cases ha : atoi t with
  | none => simp [ha] at this
  | some v => simp [ha] at this; rw [this]

theorem cpp_num_of_numText {n : Int} {t : Bytes} (h : NumText n t) (hf : Fits n) : Cpp.num t = n := by
  simp [Cpp.num, atoi_of_numText h hf]

/-- the re-printed captures denote the same component -/
theorem matchOf_cppPadMatch (w : Int) (c : Comp) (m : Match) (h : MatchOf c m) (hf : c.fits) :
    MatchOf c (cppPadMatch w m) := by
  cases h with
  | single ha =>
    simp only [cppPadMatch, cpp_num_of_numText ha hf, cpp_zfill_eq]
    exact .single (zfillInt_numText _ _)
  | range ha hb =>
    simp only [cppPadMatch, cpp_num_of_numText ha hf.1, cpp_num_of_numText hb hf.2, cpp_zfill_eq]
    exact .range (zfillInt_numText _ _) (zfillInt_numText _ _)
  | stepped ha hb hn hm =>
    simp only [cppPadMatch, cpp_num_of_numText ha hf.1, cpp_num_of_numText hb hf.2.1,
      cpp_num_of_numText hn hf.2.2, cpp_zfill_eq]
    exact .stepped (zfillInt_numText _ _) (zfillInt_numText _ _) (itoa_numText _) hm

/-- the port's padding of one part that is a text of component `c` is again a text of `c` -/
theorem cpp_padPart_compText (w : Int) (c : Comp) (part : Bytes) (h : CompText c part) (hf : c.fits) :
    CompText c (Cpp.padPart w part) := by
  obtain ⟨m, hm, rfl⟩ := h
  rw [cpp_padPart_eq, matchPart_complete c m hm]
  exact ⟨cppPadMatch w m, matchOf_cppPadMatch w c m hm hf, rfl⟩

/-- the same for the Go library -/
theorem go_padPart_compText (w : Int) (c : Comp) (part : Bytes) (h : CompText c part) :
    CompText c (padPart w part) := by
  obtain ⟨m, hm, rfl⟩ := h
  rw [padPart_of_some w _ m (matchPart_complete c m hm)]
  exact ⟨padMatch w m, matchOf_padMatch w c m hm, rfl⟩

theorem forall2_map_right {α β : Type} {R : α → β → Prop} (f : β → β) :
    ∀ {as : List α} {bs : List β}, Forall2 R as bs → (∀ a b, a ∈ as → R a b → R a (f b)) →
      Forall2 R as (bs.map f)
  | _, _, .nil, _ => .nil
  | _, _, .cons hab hrest, hf =>
    .cons (hf _ _ List.mem_cons_self hab)
      (forall2_map_right f hrest (fun a b ha => hf a b (List.mem_cons_of_mem _ ha)))

theorem compText_ne_nil {c : Comp} {p : Bytes} (h : CompText c p) : p ≠ [] := by
  obtain ⟨m, hm, rfl⟩ := h
  have := matchPart_complete c m hm
  intro h0
  rw [h0, matchPart_nil] at this
  cases this

theorem forall2_parts_ne_nil {cs : List Comp} {parts : List Bytes} (h : Forall2 CompText cs parts) :
    ∀ p ∈ parts, p ≠ [] := by
  induction h with
  | nil => intro p hp; cases hp
  | cons hab _ ih =>
    intro p hp
    rcases List.mem_cons.1 hp with rfl | hp
    · exact compText_ne_nil hab
    · exact ih p hp

theorem forall2_parts_no_comma {cs : List Comp} {parts : List Bytes} (h : Forall2 CompText cs parts) :
    ∀ p ∈ parts, ',' ∉ p := by
  induction h with
  | nil => intro p hp; cases hp
  | cons hab _ ih =>
    intro p hp
    rcases List.mem_cons.1 hp with rfl | hp
    · obtain ⟨m, hm, rfl⟩ := hab
      exact matchText_no_comma _ m hm
    · exact ih p hp

/-- C19, padded ranges: for a junk-free text of the component list `cs` (at least one component,
    every number within a long) both libraries return a text of the SAME component list — they
    can differ only in redundant leading zeros (and the spelling of a zero) of the numerals. -/
theorem padFrameRange_both (cs : List Comp) (parts : List Bytes) (w : Int)
    (h : Forall2 CompText cs parts) (hne : cs ≠ []) (hf : ∀ c ∈ cs, c.fits) :
    (∃ pc, Forall2 CompText cs pc ∧ Cpp.padFrameRange (joinWith ',' parts) w = joinWith ',' pc) ∧
    (∃ pg, Forall2 CompText cs pg ∧ padFrameRange (joinWith ',' parts) w = joinWith ',' pg) := by
  have hpne : parts ≠ [] := by
    intro h0; subst h0; cases h; exact hne rfl
  have hsplit : splitOn ',' (joinWith ',' parts) = parts :=
    splitOn_joinWith parts hpne (forall2_parts_no_comma h)
  have hget : Cpp.splitGetline ',' (joinWith ',' parts) = parts := by
    rw [splitGetline_eq, hsplit]
    rw [hsplit]; exact forall2_parts_ne_nil h
  by_cases hw : w < 2
  · exact ⟨⟨parts, h, by simp [Cpp.padFrameRange, hw]⟩, ⟨parts, h, by simp [padFrameRange, hw]⟩⟩
  · refine ⟨⟨parts.map (Cpp.padPart w), ?_, by simp [Cpp.padFrameRange, hw, hget]⟩,
            ⟨parts.map (padPart w), ?_, by simp [padFrameRange, hw, hsplit]⟩⟩
    · exact forall2_map_right _ h (fun c p hc hcp => cpp_padPart_compText w c p hcp (hf c hc))
    · exact forall2_map_right _ h (fun c p _ hcp => go_padPart_compText w c p hcp)

/-- every frame numeral the port prints has at least `w` characters -/
theorem cpp_zfill_length (v w : Int) (h : 2 ≤ w) : w ≤ (Cpp.zfill v w).length := by
  rw [cpp_zfill_eq]; exact zfillInt_length v w h

/-! ### the port's directory scan: one bucket of uniformly padded frames -/

theorem findPad_isSome : ∀ (s acc : Bytes), (∃ c ∈ s, c = '#' ∨ c = '@') → ∃ r, findPad acc s = some r
  | [], _, h => by obtain ⟨c, hc, _⟩ := h; cases hc
  | c :: r, acc, h => by
    unfold findPad
    cases hp : padTokenAt (c :: r) with
    | some t => exact ⟨_, rfl⟩
    | none =>
      simp only
      have hc : ¬ (c = '#' ∨ c = '@') := by
        intro hcc
        simp [padTokenAt, hcc] at hp
      obtain ⟨d, hd, hdd⟩ := h
      rcases List.mem_cons.1 hd with rfl | hd
      · exact absurd hdd hc
      · exact findPad_isSome r (c :: acc) ⟨d, hd, hdd⟩

theorem splitSeq_isSome (s : Bytes) (hnl : s.contains '\n' = false) (h : ∃ c ∈ s, c = '#' ∨ c = '@') :
    ∃ t, splitSeq s = some t := by
  obtain ⟨r, hr⟩ := findPad_isSome s [] h
  obtain ⟨pre, tok, ext⟩ := r
  unfold splitSeq
  have hn : ¬ (s.contains '\n' = true) := by rw [hnl]; simp
  rw [if_neg hn, hr]
  exact ⟨_, rfl⟩

theorem parse_of_split (st : PadStyle) (s n r p e : Bytes) (h : splitSeq s = some (n, r, p, e)) :
    Seq.parse st s = .ok (Seq.setPadding
      ⟨(pathSplit n).2, (pathSplit n).1, e, p, 0, (FrameSet.parse r).toOption, st⟩ p) := by
  unfold Seq.parse
  rw [h]

/-- C19, directory scan, one bucket: for a directory ending in '/', a pad made of pad characters,
    no newline in the names and a range text that parses, the port's "build the string, parse it,
    force the components" yields exactly the sequence the Go library builds from the components
    (`rebuild`), whatever the basename contains. -/
theorem cpp_bucketSeq_eq (st : PadStyle) (dir base frange pad ext : Bytes) (fs : FrameSet)
    (hdir : dir.isEmpty = true ∨ isSuffixOf ['/'] dir = true)
    (hext : ext = [] ∨ isPrefixOf ['.'] ext = true)
    (hpad : pad ≠ [] ∧ ∀ c ∈ pad, c = '#' ∨ c = '@')
    (hnl : (dir ++ base ++ frange ++ pad ++ ext).contains '\n' = false)
    (hne : frange ≠ []) (hp : FrameSet.parse frange = .ok fs) :
    Cpp.bucketSeq st dir base frange pad ext = .ok (rebuild st dir base frange pad ext) := by
  obtain ⟨hpne, hpc⟩ := hpad
  have hex : ∃ c ∈ dir ++ base ++ frange ++ pad ++ ext, c = '#' ∨ c = '@' := by
    cases hpd : pad with
    | nil => exact absurd hpd hpne
    | cons c cs =>
      refine ⟨c, ?_, hpc c (by rw [hpd]; exact List.mem_cons_self)⟩
      simp
  obtain ⟨⟨n, r, p, e⟩, hs⟩ := splitSeq_isSome _ hnl hex
  unfold Cpp.bucketSeq
  rw [parse_of_split st _ n r p e hs]
  have hpe : pad.isEmpty = false := by cases pad with | nil => exact absurd rfl hpne | cons _ _ => rfl
  simp only [hpe, Bool.false_eq_true, if_false]
  have hfe : frange.isEmpty = false := by cases frange with | nil => exact absurd rfl hne | cons _ _ => rfl
  unfold rebuild
  simp only [hpe, hfe, Bool.false_eq_true, false_and, if_false, Bool.not_false]
  have hd : (if dir.isEmpty || isSuffixOf ['/'] dir then dir else dir ++ ['/']) = dir := by
    rcases hdir with h | h <;> simp [h]
  have he : (if ext.isEmpty || isPrefixOf ['.'] ext then ext else '.' :: ext) = ext := by
    rcases hext with h | h
    · subst h; rfl
    · simp [h]
  simp only [Cpp.setDirname, Cpp.setExt, Seq.setBasename, Seq.setPadding, Seq.setFrameRange, hp, hd, he]

/-- the constructor records the pad style it was given -/
theorem parse_style (st : PadStyle) (x : Bytes) (s : Seq) (h : Seq.parse st x = .ok s) : s.style = st := by
  unfold Seq.parse at h
  repeat' (split at h)
  all_goals (first | (injection h with h; subst h; rfl) | (simp at h))

/-- C19, directory scan, a frame-less file: whenever the constructor accepts the full path (it
    always does when the path holds no pad character), the port's single-file entry is the one the
    Go library builds from the components — whatever the directory's own name contains. -/
theorem cpp_singleSeq_frameless (st : PadStyle) (path dir base ext : Bytes) (s0 : Seq)
    (hdir : dir.isEmpty = true ∨ isSuffixOf ['/'] dir = true)
    (hext : ext = [] ∨ isPrefixOf ['.'] ext = true)
    (hp : Seq.parse st path = .ok s0) :
    Cpp.singleSeq st path dir base [] ext = .ok (rebuild st dir base [] [] ext) := by
  have hst := parse_style st path s0 hp
  unfold Cpp.singleSeq
  rw [hp]
  have hd : (if dir.isEmpty || isSuffixOf ['/'] dir then dir else dir ++ ['/']) = dir := by
    rcases hdir with h | h <;> simp [h]
  have he : (if ext.isEmpty || isPrefixOf ['.'] ext then ext else '.' :: ext) = ext := by
    rcases hext with h | h
    · subst h; rfl
    · simp [h]
  simp only [rebuild, Cpp.setDirname, Cpp.setExt, Seq.setBasename, Seq.setPadding, Seq.setFrameSet, hd, he, hst,
    List.isEmpty_nil, Bool.not_true, Bool.false_eq_true, and_false, if_false, if_true]

end Gfs.Proofs
