/-
  GfsProofs.HandlesAux — sums and counts over the first N threads, and how they change when
  a function is modified at one or two indices (used by GfsProofs.HandlesLemmas).
-/
import GfsModel.Handles

namespace Gfs.Proofs
open Gfs.Handles

/-- sum of `f` over the first `N` naturals, in the shape used by `sumOwned` -/
def sumF (f : Nat → Nat) (N : Nat) : Nat := (List.range N).foldl (fun a t => a + f t) 0

theorem sumOwned_eq (s : State) (N : Nat) (id : Id) :
    sumOwned s N id = sumF (fun t => s.owned t id) N := rfl

@[simp] theorem sumF_zero (f : Nat → Nat) : sumF f 0 = 0 := by simp [sumF]

theorem sumF_succ (f : Nat → Nat) (n : Nat) : sumF f (n + 1) = sumF f n + f n := by
  simp [sumF, List.range_succ, List.foldl_append]

theorem sumF_congr {f g : Nat → Nat} {N : Nat} (h : ∀ t, t < N → g t = f t) :
    sumF g N = sumF f N := by
  induction N with
  | zero => simp
  | succ n ih =>
    rw [sumF_succ, sumF_succ, ih (fun t ht => h t (by omega)), h n (by omega)]

theorem sumF_eq_zero {f : Nat → Nat} {N : Nat} (h : ∀ t, t < N → f t = 0) : sumF f N = 0 := by
  induction N with
  | zero => simp
  | succ n ih => rw [sumF_succ, ih (fun t ht => h t (by omega)), h n (by omega)]

theorem sumF_ge {f : Nat → Nat} {N t : Nat} (ht : t < N) : f t ≤ sumF f N := by
  induction N with
  | zero => omega
  | succ n ih =>
    rw [sumF_succ]
    by_cases h : t = n
    · subst h; omega
    · have := ih (by omega); omega

/-- modifying `f` at one index `t < N` changes the sum by exactly the change at `t` -/
theorem sumF_upd {f g : Nat → Nat} {N t : Nat} (ht : t < N) (h : ∀ x, x ≠ t → g x = f x) :
    sumF g N + f t = sumF f N + g t := by
  induction N with
  | zero => omega
  | succ n ih =>
    rw [sumF_succ, sumF_succ]
    by_cases htn : t = n
    · subst htn
      have : sumF g t = sumF f t := sumF_congr (fun x hx => h x (by omega))
      omega
    · have := ih (by omega)
      have := h n (by omega)
      omega

/-- moving one unit from index `t` to index `u` keeps the sum -/
theorem sumF_move {f g : Nat → Nat} {N t u : Nat} (ht : t < N) (hu : u < N) (htu : t ≠ u)
    (h1 : 1 ≤ f t) (hgt : g t = f t - 1) (hgu : g u = f u + 1)
    (h : ∀ x, x ≠ t → x ≠ u → g x = f x) : sumF g N = sumF f N := by
  -- intermediate function: f decreased at t
  let m : Nat → Nat := fun x => if x = t then f t - 1 else f x
  have e1 : sumF m N + f t = sumF f N + m t := sumF_upd ht (fun x hx => by simp [m, hx])
  have e2 : sumF g N + m u = sumF m N + g u := sumF_upd hu (fun x hx => by
    by_cases hxt : x = t
    · subst hxt; simp [m, hgt]
    · simp [m, hxt, h x hxt hx])
  have mt : m t = f t - 1 := by simp [m]
  have mu : m u = f u := by simp [m, Ne.symm htu]
  omega

/-- number of indices below `N` satisfying `p` -/
def cntF (p : Nat → Bool) (N : Nat) : Nat := ((List.range N).filter p).length

theorem cntF_eq_sumF (p : Nat → Bool) (N : Nat) :
    cntF p N = sumF (fun t => if p t then 1 else 0) N := by
  induction N with
  | zero => simp [cntF]
  | succ n ih =>
    rw [sumF_succ, ← ih]
    simp only [cntF, List.range_succ, List.filter_append, List.length_append]
    cases hp : p n <;> simp [hp]

theorem cntF_upd {p q : Nat → Bool} {N t : Nat} (ht : t < N) (h : ∀ x, x ≠ t → q x = p x) :
    cntF q N + (if p t then 1 else 0) = cntF p N + (if q t then 1 else 0) := by
  rw [cntF_eq_sumF, cntF_eq_sumF]
  exact sumF_upd (f := fun t => if p t then 1 else 0) (g := fun t => if q t then 1 else 0) ht
    (fun x hx => by simp [h x hx])

theorem cntF_pos {p : Nat → Bool} {N t : Nat} (ht : t < N) (hp : p t = true) : 1 ≤ cntF p N := by
  rw [cntF_eq_sumF]
  have := sumF_ge (f := fun t => if p t then 1 else 0) ht
  simp [hp] at this
  exact this

end Gfs.Proofs
