/-
  GfsProofs.ValidLemmas — IsFrameRange agrees with the parser (C15).
-/
import GfsModel.FrameSet
import GfsSpec.Grammar
import GfsProofs.ParseSyn
import GfsProofs.ParseSem

namespace Gfs.Proofs
open Gfs Gfs.Spec

/-- the handler succeeds on a match exactly when its numerals fit an int and its step is
    non-zero — independently of the blocks accumulated so far (and of the match having
    come out of `matchPart`) -/
theorem handleMatch_ok_iff' (bl : Blocks) (m : Match) :
    (∃ bl', handleMatch bl m = .ok bl') ↔ matchOk m = true := by
  cases m with
  | single a =>
    cases ha : atoi a <;>
      simp [handleMatch, matchOk, parseInt, bind, Except.bind, pure, Except.pure, ha]
  | range a b =>
    cases ha : atoi a <;> cases hb : atoi b <;>
      simp [handleMatch, matchOk, parseInt, bind, Except.bind, pure, Except.pure, ha, hb]
  | complex a b mod n =>
    cases hn : atoi n with
    | none =>
      simp [handleMatch, matchOk, parseInt, bind, Except.bind, hn]
    | some c =>
      by_cases hc : c = 0
      · simp [handleMatch, matchOk, parseInt, bind, Except.bind, pure, Except.pure, throw,
          throwThe, MonadExcept.throw, hn, hc]
      · cases ha : atoi a <;> cases hb : atoi b <;>
          by_cases hx : mod = 'x' <;> by_cases hy : mod = 'y' <;>
          simp [handleMatch, matchOk, parseInt, bind, Except.bind, pure, Except.pure,
            hn, hc, ha, hb, hx, hy]

theorem handleMatch_ok_iff (bl : Blocks) (p : Bytes) (m : Match) (hm : matchPart p = some m) :
    (∃ bl', handleMatch bl m = .ok bl') ↔ matchOk m = true := by
  have _ := hm  -- not needed: every `else` branch of the handler succeeds
  exact handleMatch_ok_iff' bl m

theorem handleMatches_ok_iff' (bl : Blocks) (ms : List Match) :
    (∃ bl', handleMatches bl ms = .ok bl') ↔ ms.all matchOk = true := by
  induction ms generalizing bl with
  | nil => simp [handleMatches]
  | cons m ms ih =>
    rw [List.all_cons, Bool.and_eq_true, ← handleMatch_ok_iff' bl m]
    cases h : handleMatch bl m with
    | error e => simp [handleMatches, h, bind, Except.bind]
    | ok bl1 =>
      have := ih bl1
      simp [handleMatches, h, bind, Except.bind, this]

theorem handleMatches_ok_iff (bl : Blocks) (ps : List Bytes) (ms : List Match)
    (hm : Forall2 (fun p m => matchPart p = some m) ps ms) :
    (∃ bl', handleMatches bl ms = .ok bl') ↔ ms.all matchOk = true := by
  have _ := hm
  exact handleMatches_ok_iff' bl ms

/-- IsFrameRange(s) is true exactly when NewFrameSet(s) succeeds — for every byte string -/
theorem isFrameRange_iff (s : Bytes) :
    isFrameRange s = true ↔ ∃ fs, FrameSet.parse s = .ok fs := by
  unfold isFrameRange FrameSet.parse
  cases h : frameRangeMatches s with
  | error e => simp [bind, Except.bind]
  | ok ms =>
    have hf := (mapM_partStep_ok _ _).1 ((frameRangeMatches_eq s).symm.trans h)
    rw [← handleMatches_ok_iff [] _ ms hf]
    cases h2 : handleMatches [] ms with
    | error e => simp [bind, Except.bind, h2]
    | ok bl => simp [bind, Except.bind, pure, Except.pure, h2]

end Gfs.Proofs
