/-
  GfsProofs.SeqLemmas — Copy and Split preserve everything they do not change (C12).
-/
import GfsModel.Sequence
import GfsModel.SeqOps
import GfsSpec.Enum
import GfsSpec.Denote
import GfsSpec.Grammar
import GfsSpec.WF
import GfsProofs.BlocksLemmas
import GfsProofs.ParseSyn
import GfsProofs.ParseSem
import GfsProofs.PadRangeLemmas
import GfsProps.C01
import GfsProps.C02

namespace Gfs.Proofs
open Gfs Gfs.Spec

/-- the frame set of a sequence re-creates itself from its range string (true of every frame
    set obtained from NewFrameSet / SetFrameRange) -/
def Seq.Reparses (s : Seq) : Prop :=
  ∀ fs, s.frameSet = some fs → FrameSet.parse fs.frange = .ok fs

theorem parse_frange (r : Bytes) (fs : FrameSet) (h : FrameSet.parse r = .ok fs) : fs.frange = r := by
  unfold FrameSet.parse at h
  cases hm : frameRangeMatches r with
  | error e => simp [hm, bind, Except.bind] at h
  | ok ms =>
    cases hb : handleMatches [] ms with
    | error e => simp [hm, hb, bind, Except.bind] at h
    | ok bl =>
      simp [hm, hb, bind, Except.bind, pure, Except.pure] at h
      subst h
      rfl

/-- FrameSet.parse is deterministic in the text: a parsed frame set re-parses to itself -/
theorem parse_reparses (r : Bytes) (fs : FrameSet) (h : FrameSet.parse r = .ok fs) :
    FrameSet.parse fs.frange = .ok fs := by
  rw [parse_frange r fs h]
  exact h

/-- Copy of such a sequence is the same value: identical components, pad style, frames -/
theorem copy_eq (s : Seq) (h : Seq.Reparses s) : s.copy = s := by
  unfold Seq.copy
  cases hfs : s.frameSet with
  | none => rfl
  | some fs =>
    simp only [h fs hfs]
    cases s
    simp_all

/-- NewFileSequencePad only produces such sequences -/
theorem parse_reparses_seq (st : PadStyle) (txt : Bytes) (s : Seq) (h : Seq.parse st txt = .ok s) :
    Seq.Reparses s := by
  have hnone : ∀ (b d e p : Bytes) (z : Int) (q : Bytes),
      Seq.Reparses (Seq.setPadding ⟨b, d, e, p, z, none, st⟩ q) := by
    intro b d e p z q fs hfs
    simp [Seq.setPadding] at hfs
  have hsome : ∀ (b d e p : Bytes) (z : Int) (q r : Bytes) (fs : FrameSet),
      FrameSet.parse r = .ok fs →
      Seq.Reparses (Seq.setPadding ⟨b, d, e, p, z, some fs, st⟩ q) := by
    intro b d e p z q r fs hr fs' hfs
    simp [Seq.setPadding] at hfs
    subst hfs
    exact parse_reparses r fs hr
  have hopt : ∀ (b d e p : Bytes) (z : Int) (q r : Bytes),
      Seq.Reparses (Seq.setPadding ⟨b, d, e, p, z, (FrameSet.parse r).toOption, st⟩ q) := by
    intro b d e p z q r
    cases hr : FrameSet.parse r with
    | error e => exact hnone _ _ _ _ _ _
    | ok fs => exact hsome _ _ _ _ _ _ r fs hr
  unfold Seq.parse at h
  repeat' (split at h)
  all_goals first
    | (cases h; done)
    | (injection h with h; subst h
       first
         | exact hopt _ _ _ _ _ _ _
         | exact hnone _ _ _ _ _ _
         | exact hsome _ _ _ _ _ _ _ _ ‹_›)

/-- every setter, Copy and Split keep that property (Normalize, which installs a frame set
    printed from blocks, is treated separately) -/
theorem apply_reparses (s : Seq) (op : SeqOp) (h : Seq.Reparses s) (hop : op.derived = false) :
    Seq.Reparses (s.apply op) := by
  cases op with
  | setDirname d => exact fun fs hfs => h fs hfs
  | setBasename b => exact fun fs hfs => h fs hfs
  | setExt e => exact fun fs hfs => h fs hfs
  | setPadding p => exact fun fs hfs => h fs hfs
  | setStyle st => exact fun fs hfs => h fs hfs
  | setFrameRange r =>
    show Seq.Reparses (s.setFrameRange r).1
    unfold Seq.setFrameRange
    cases hr : FrameSet.parse r with
    | error e => exact h
    | ok fs' =>
      intro fs hfs
      simp at hfs
      subst hfs
      exact parse_reparses r fs' hr
  | setFrameSet r =>
    show Seq.Reparses (s.setFrameSet (FrameSet.parse r).toOption)
    cases hr : FrameSet.parse r with
    | error e => intro fs hfs; simp [Seq.setFrameSet, Except.toOption] at hfs
    | ok fs' =>
      intro fs hfs
      simp [Seq.setFrameSet, Except.toOption] at hfs
      subst hfs
      exact parse_reparses r fs' hr
  | normalize => simp [SeqOp.derived] at hop
  | invertSet => simp [SeqOp.derived] at hop
  | copy =>
    show Seq.Reparses s.copy
    rw [copy_eq s h]; exact h
  | split => exact h

theorem run_reparses (s : Seq) (ops : List SeqOp) (h : Seq.Reparses s)
    (hops : ∀ op ∈ ops, op.derived = false) : Seq.Reparses (s.run ops) := by
  induction ops generalizing s with
  | nil => exact h
  | cons op ops ih =>
    show Seq.Reparses ((s.apply op).run ops)
    exact ih (s.apply op) (apply_reparses s op h (hops op List.mem_cons_self))
      (fun o ho => hops o (List.mem_cons_of_mem _ ho))

/-- frames of a sequence ([] when it has no frame set) -/
def Seq.frames (s : Seq) : List Int := match s.frameSet with | some fs => fs.frames | none => []

/-! ### helpers for `split_spec` -/

theorem dedupFirst_nodup (X : List Int) : (dedupFirst X).Nodup := by
  induction X with
  | nil => simp [dedupFirst]
  | cons x xs ih =>
    rw [dedupFirst, List.nodup_cons]
    refine ⟨?_, ih.sublist List.filter_sublist⟩
    simp [List.mem_filter]

theorem dedupFirst_idem (X : List Int) : dedupFirst (dedupFirst X) = dedupFirst X :=
  dedupFirst_of_nodup _ (dedupFirst_nodup X)

theorem dedupFirst_dedup_append (A B : List Int) :
    dedupFirst (dedupFirst A ++ B) = dedupFirst (A ++ B) := by
  rw [dedupFirst_append, dedupFirst_append, dedupFirst_idem]
  congr 1
  apply List.filter_congr
  intro v _
  by_cases h : v ∈ A <;> simp [h, mem_dedupFirst]

theorem dedupFirst_append_congr (A B B' : List Int) (h : dedupFirst B = dedupFirst B') :
    dedupFirst (A ++ B) = dedupFirst (A ++ B') := by
  rw [dedupFirst_append, dedupFirst_append, h]

theorem dedupFirst_flatMap_dedup (cs : List Comp) :
    dedupFirst (cs.flatMap (fun c => dedupFirst (expand c))) = dedupFirst (cs.flatMap expand) := by
  induction cs with
  | nil => rfl
  | cons c cs ih =>
    simp only [List.flatMap_cons]
    rw [dedupFirst_dedup_append]
    exact dedupFirst_append_congr _ _ _ ih

theorem compText_no_comma {c : Comp} {p : Bytes} (h : CompText c p) : ',' ∉ p := by
  obtain ⟨m, hm, rfl⟩ := h
  exact matchText_no_comma _ _ hm

theorem forall2_compText_no_comma {cs : List Comp} {parts : List Bytes}
    (h : Forall2 CompText cs parts) : ∀ p ∈ parts, ',' ∉ p := by
  induction h with
  | nil => simp
  | cons hab _ ih =>
    intro p hp
    rcases List.mem_cons.1 hp with rfl | hp
    · exact compText_no_comma hab
    · exact ih p hp

theorem stripJunk_no_comma {p : Bytes} (h : ',' ∉ p) : ',' ∉ stripJunk p := by
  intro hm
  exact h (List.mem_filter.1 hm).1

/-- a part without comma that is a text of a valid component parses, to that component's frames -/
theorem parse_part (c : Comp) (p : Bytes) (hc : CompText c (stripJunk p)) (hv : c.valid) :
    ∃ fs, FrameSet.parse p = .ok fs ∧ fs.frames = dedupFirst (expand c) := by
  have hrt : RangeText [c] p := ⟨[stripJunk p], .cons hc .nil, rfl⟩
  obtain ⟨fs, hfs, hfr, _⟩ := Gfs.Props.C01.C01_expand [c] p (by simp) hrt
    (by intro c' hc'; simp at hc'; subst hc'; exact hv)
  refine ⟨fs, hfs, ?_⟩
  rw [hfr]
  simp [denote]

/-- the per-part sequences of Split -/
theorem split_parts (s : Seq) (cs : List Comp) (ps : List Bytes)
    (hc : Forall2 CompText cs (ps.map stripJunk)) (hv : ∀ c ∈ cs, c.valid) :
    (∀ q ∈ ps.map (fun p => (s.setFrameRange p).1),
        q.dir = s.dir ∧ q.base = s.base ∧ q.pad = s.pad ∧ q.zfill = s.zfill ∧
        q.style = s.style ∧ q.ext = s.ext ∧ q.frameSet.isSome = true) ∧
    (ps.map (fun p => (s.setFrameRange p).1)).flatMap Seq.frames =
      cs.flatMap (fun c => dedupFirst (expand c)) := by
  induction ps generalizing cs with
  | nil =>
    cases hc
    simp
  | cons p ps ih =>
    cases hc with
    | @cons c _ cs' _ hcp hrest =>
      obtain ⟨ih1, ih2⟩ := ih cs' hrest (fun c hc => hv c (List.mem_cons_of_mem _ hc))
      obtain ⟨fs, hfs, hfr⟩ := parse_part c p hcp (hv c List.mem_cons_self)
      have e : (s.setFrameRange p).1 = { s with frameSet := some fs } := by
        simp [Seq.setFrameRange, hfs]
      constructor
      · intro q hq
        rw [List.map_cons] at hq
        rcases List.mem_cons.1 hq with rfl | hq
        · rw [e]; simp
        · exact ih1 q hq
      · rw [List.map_cons, List.flatMap_cons, List.flatMap_cons, ih2, e]
        simp [Seq.frames, hfr]

/-- Split: one sequence per comma component of the range string, each with the same dirname,
    basename, pad, pad width, pad style and extension; the parts' frame lists, concatenated in
    order and keeping first occurrences, are exactly the original's frames -/
theorem split_spec (s : Seq) (fs : FrameSet) (h : s.frameSet = some fs)
    (hp : FrameSet.parse fs.frange = .ok fs) :
    (s.split).length = (splitOn ',' fs.frange).length ∧
    (∀ p ∈ s.split, p.dir = s.dir ∧ p.base = s.base ∧ p.pad = s.pad ∧ p.zfill = s.zfill ∧
        p.style = s.style ∧ p.ext = s.ext ∧ p.frameSet.isSome = true) ∧
    dedupFirst ((s.split).flatMap Seq.frames) = fs.frames := by
  have hre : Seq.Reparses s := by
    intro fs' hfs'
    rw [h] at hfs'
    injection hfs' with hfs'
    subst hfs'
    exact hp
  have hcopy := copy_eq s hre
  by_cases hlen : (splitOn ',' fs.frange).length = 1
  · have hs : s.split = [s] := by simp [Seq.split, h, hlen, hcopy]
    rw [hs]
    refine ⟨by simp [hlen], ?_, ?_⟩
    · intro p hp'
      simp at hp'
      subst hp'
      simp [h]
    · have hnd := (Gfs.Props.C02.C02_views fs.frange fs hp).1
      simp only [List.flatMap_cons, List.flatMap_nil, List.append_nil, Seq.frames, h]
      exact dedupFirst_of_nodup _ hnd
  · have hs : s.split = (splitOn ',' fs.frange).map (fun p => (s.setFrameRange p).1) := by
      simp [Seq.split, h, hlen, hcopy]
    obtain ⟨cs, hne, ⟨parts, hparts, hstrip⟩, hv⟩ :=
      (Gfs.Props.C01.C01_accept_iff fs.frange).mp ⟨fs, hp⟩
    have hpne : parts ≠ [] := by
      cases hparts with
      | nil => exact absurd rfl hne
      | cons _ _ => simp
    have hpe : parts = (splitOn ',' fs.frange).map stripJunk := by
      rw [← splitOn_stripJunk, hstrip,
        splitOn_joinWith parts hpne (forall2_compText_no_comma hparts)]
    rw [hpe] at hparts
    obtain ⟨h1, h2⟩ := split_parts s cs _ hparts hv
    obtain ⟨fs', hfs', hfr', _⟩ := Gfs.Props.C01.C01_expand cs fs.frange hne
      ⟨_, hparts, splitOn_stripJunk fs.frange ▸ (joinWith_splitOn _).symm⟩ hv
    rw [hp] at hfs'
    injection hfs' with hfs'
    subst hfs'
    rw [hs]
    refine ⟨by simp, h1, ?_⟩
    rw [h2, dedupFirst_flatMap_dedup, hfr']
    rfl

theorem split_none (s : Seq) (h : s.frameSet = none) : s.split = [s] := by
  simp [Seq.split, Seq.copy, h]

end Gfs.Proofs
