/-
  GfsProofs.SeqHist — histories that also install frame sets PRINTED FROM BLOCKS
  (SetFrameSet(Normalize()), SetFrameSet(Invert())): what every history preserves, and why
  Copy / Split then still yield the same components and the same frames (C12).

  `Seq.Reparses` (SeqLemmas) says "re-parsing the range string gives back the identical frame
  set"; that is true of parsed frame sets only.  For a frame set printed from blocks the
  re-parse may build the blocks differently (and fails when a printed number does not fit an
  int, in which case Copy keeps the set it has).  `Seq.Sound` is the weaker invariant that
  covers both.
-/
import GfsModel.SeqOps
import GfsSpec.WF
import GfsSpec.Grammar
import GfsProofs.SeqLemmas
import GfsProofs.NormLemmas
import GfsProofs.NormAux
import GfsProofs.StrParse
import GfsProps.C02

namespace Gfs.Proofs
open Gfs Gfs.Spec

/-- print → parse without a size hypothesis: IF the printed text of a well-formed, non-empty
    container parses at all, it parses to the same frames (and a well-formed container). -/
theorem str_parse_frames (bl : Blocks) (h : WF bl) (hne : bl ≠ []) (fs' : FrameSet)
    (hp : FrameSet.parse (Blocks.str bl) = .ok fs') :
    fs'.frames = blocksEnum bl ∧ WF fs'.blocks := by
  have hcne : bl.map compOfRng ≠ [] := by
    intro hc; exact hne (List.map_eq_nil_iff.mp hc)
  by_cases hv : ∀ c ∈ bl.map compOfRng, c.valid
  · obtain ⟨fs, hq, hf, hwf⟩ :=
      Gfs.Props.C01.C01_expand (bl.map compOfRng) (Blocks.str bl) hcne (str_rangeText bl) hv
    rw [hp] at hq
    cases hq
    refine ⟨?_, hwf⟩
    rw [hf, denote, flatMap_compOfRng bl h.1, dedupFirst_of_nodup _ (blocks_nodup bl h)]
  · exfalso
    obtain ⟨parts, hparts, hstrip⟩ := str_rangeText bl
    obtain ⟨ms, hms, hrel⟩ := frameRangeMatches_complete _ parts _ hcne hparts hstrip
    have hex : ∃ c ∈ bl.map compOfRng, ¬ c.valid := by
      apply Classical.byContradiction
      intro hcon
      apply hv
      intro c hc
      apply Classical.byContradiction
      intro hnv
      exact hcon ⟨c, hc, hnv⟩
    obtain ⟨e, he⟩ := handleMatches_invalid [] _ ms hrel hex
    simp [FrameSet.parse, hms, he, bind, Except.bind] at hp

/-- the invariant of every history -/
def Seq.Sound (s : Seq) : Prop :=
  ∀ fs, s.frameSet = some fs → WF fs.blocks ∧
    ∀ fs', FrameSet.parse fs.frange = .ok fs' → fs'.frames = fs.frames ∧ WF fs'.blocks

theorem sound_of_parsed (r : Bytes) (fs : FrameSet) (h : FrameSet.parse r = .ok fs) :
    WF fs.blocks ∧ ∀ fs', FrameSet.parse fs.frange = .ok fs' → fs'.frames = fs.frames ∧ WF fs'.blocks := by
  have hwf := Gfs.Props.C02.C02_wf r fs h
  refine ⟨hwf, ?_⟩
  intro fs' hp
  rw [parse_reparses r fs h] at hp
  cases hp
  exact ⟨rfl, hwf⟩

/-- a frame set printed from a well-formed container is sound -/
theorem sound_of_blocks (b : Blocks) (hwf : WF b) :
    WF (⟨Blocks.str b, b⟩ : FrameSet).blocks ∧
    ∀ fs', FrameSet.parse (⟨Blocks.str b, b⟩ : FrameSet).frange = .ok fs' →
      fs'.frames = (⟨Blocks.str b, b⟩ : FrameSet).frames ∧ WF fs'.blocks := by
  refine ⟨hwf, ?_⟩
  intro fs' hp
  by_cases hne : b = []
  · subst hne
    -- the empty container prints as "", which does not parse
    exfalso
    have hb : (match FrameSet.parse (Blocks.str ([] : Blocks)) with | .ok _ => true | .error _ => false) = false := by
      decide
    have hp' : FrameSet.parse (Blocks.str ([] : Blocks)) = .ok fs' := hp
    rw [hp'] at hb
    cases hb
  · obtain ⟨hf, hw⟩ := str_parse_frames b hwf hne fs' hp
    refine ⟨?_, hw⟩
    show fs'.frames = Blocks.iter b
    rw [hf, blocks_iter b hwf]

theorem normalized_wf (bl : Blocks) (h : WF bl) (inv : Bool) : WF (Blocks.normalized bl inv) := by
  by_cases hne : bl = []
  · subst hne
    exact (normalized_spec [] inv (by decide)).1
  · exact (normalized_spec bl inv (blocks_min_max_spec bl h hne).1).1

/-- every call of the model keeps the invariant — the ten of `SeqOp`, including the two that
    install a frame set printed from blocks -/
theorem apply_sound (s : Seq) (op : SeqOp) (h : Seq.Sound s) : Seq.Sound (s.apply op) := by
  cases op with
  | setDirname d => exact fun fs hfs => h fs hfs
  | setBasename b => exact fun fs hfs => h fs hfs
  | setExt e => exact fun fs hfs => h fs hfs
  | setPadding p => exact fun fs hfs => h fs hfs
  | setStyle st => exact fun fs hfs => h fs hfs
  | setFrameRange r =>
    show Seq.Sound (s.setFrameRange r).1
    unfold Seq.setFrameRange
    cases hr : FrameSet.parse r with
    | error e => exact h
    | ok fs' =>
      intro fs hfs
      simp at hfs
      subst hfs
      exact sound_of_parsed r fs' hr
  | setFrameSet r =>
    show Seq.Sound (s.setFrameSet (FrameSet.parse r).toOption)
    cases hr : FrameSet.parse r with
    | error e => intro fs hfs; simp [Seq.setFrameSet, Except.toOption] at hfs
    | ok fs' =>
      intro fs hfs
      simp [Seq.setFrameSet, Except.toOption] at hfs
      subst hfs
      exact sound_of_parsed r fs' hr
  | normalize =>
    show Seq.Sound (match s.frameSet with | some fs => s.setFrameSet (some fs.normalize) | none => s)
    cases hfs0 : s.frameSet with
    | none => simpa [hfs0] using h
    | some fs0 =>
      intro fs hfs
      simp [Seq.setFrameSet] at hfs
      subst hfs
      exact sound_of_blocks _ (normalized_wf fs0.blocks (h fs0 hfs0).1 false)
  | invertSet =>
    show Seq.Sound (match s.frameSet with | some fs => s.setFrameSet (some fs.invert) | none => s)
    cases hfs0 : s.frameSet with
    | none => simpa [hfs0] using h
    | some fs0 =>
      intro fs hfs
      simp [Seq.setFrameSet] at hfs
      subst hfs
      exact sound_of_blocks _ (normalized_wf fs0.blocks (h fs0 hfs0).1 true)
  | copy =>
    show Seq.Sound s.copy
    unfold Seq.copy
    cases hfs0 : s.frameSet with
    | none => simpa [hfs0] using h
    | some fs0 =>
      simp only
      cases hp : FrameSet.parse fs0.frange with
      | error e => simpa [hfs0] using h
      | ok fs1 =>
        intro fs hfs
        simp at hfs
        subst hfs
        exact sound_of_parsed fs0.frange fs1 hp
  | split => exact h

theorem run_sound (s : Seq) (ops : List SeqOp) (h : Seq.Sound s) : Seq.Sound (s.run ops) := by
  induction ops generalizing s with
  | nil => exact h
  | cons op ops ih => exact ih (s.apply op) (apply_sound s op h)

theorem parse_sound (st : PadStyle) (txt : Bytes) (s : Seq) (h : Seq.parse st txt = .ok s) : Seq.Sound s := by
  intro fs hfs
  have hr := parse_reparses_seq st txt s h fs hfs
  exact sound_of_parsed fs.frange fs hr

/-- Copy of a sound sequence: identical components, pad width and style; the frame set is either
    the same object or one with the same frames; hence the same frame paths. -/
theorem copy_sound (s : Seq) (h : Seq.Sound s) :
    s.copy.dir = s.dir ∧ s.copy.base = s.base ∧ s.copy.ext = s.ext ∧ s.copy.pad = s.pad ∧
    s.copy.zfill = s.zfill ∧ s.copy.style = s.style ∧
    s.copy.frameSet.map FrameSet.frames = s.frameSet.map FrameSet.frames ∧
    s.copy.frameSet.map FrameSet.frange = s.frameSet.map FrameSet.frange := by
  unfold Seq.copy
  cases hfs0 : s.frameSet with
  | none => simp [hfs0]
  | some fs0 =>
    simp only
    cases hp : FrameSet.parse fs0.frange with
    | error e => simp [hfs0]
    | ok fs1 =>
      have := ((h fs0 hfs0).2 fs1 hp).1
      simp [this, parse_frange fs0.frange fs1 hp]

/-- two well-formed frame sets with the same frames answer every index query alike -/
theorem frame_eq_of_frames (a b : FrameSet) (ha : WF a.blocks) (hb : WF b.blocks)
    (h : a.frames = b.frames) : a.len = b.len ∧ ∀ i, a.frame i = b.frame i := by
  have ea : blocksEnum a.blocks = blocksEnum b.blocks := by
    rw [← blocks_iter a.blocks ha, ← blocks_iter b.blocks hb]; exact h
  refine ⟨?_, ?_⟩
  · show Blocks.len a.blocks = Blocks.len b.blocks
    rw [blocks_len _ ha, blocks_len _ hb, ea]
  · intro i
    show Blocks.value a.blocks i = Blocks.value b.blocks i
    rw [blocks_value _ ha, blocks_value _ hb, ea]

/-- … so the copy has the same number of frames and the same file path at every index. -/
theorem copy_paths (s : Seq) (h : Seq.Sound s) :
    s.copy.len = s.len ∧ ∀ i, s.copy.index i = s.index i := by
  unfold Seq.copy
  cases hfs0 : s.frameSet with
  | none => simp
  | some fs0 =>
    simp only
    cases hp : FrameSet.parse fs0.frange with
    | error e => simp
    | ok fs1 =>
      obtain ⟨hwf0, hre⟩ := h fs0 hfs0
      obtain ⟨hfr, hwf1⟩ := hre fs1 hp
      obtain ⟨hlen, hframe⟩ := frame_eq_of_frames fs1 fs0 hwf1 hwf0 hfr
      refine ⟨?_, ?_⟩
      · simp [Seq.len, hfs0, hlen]
      · intro i
        simp [Seq.index, Seq.frameInt, hfs0, hframe i]

/-- Split depends on the frame set only through its range string and through Copy: when the
    re-parse of the range string succeeds, Split of the sequence is Split of its copy -/
theorem split_eq_split_copy (s : Seq) (fs fs' : FrameSet) (h : s.frameSet = some fs)
    (hp : FrameSet.parse fs.frange = .ok fs') : s.split = s.copy.split := by
  have hfr : fs'.frange = fs.frange := parse_frange fs.frange fs' hp
  have hcopy : s.copy = { s with frameSet := some fs' } := by
    unfold Seq.copy; simp [h, hp]
  have hre : Seq.Reparses s.copy := by
    intro f hf
    rw [hcopy] at hf
    simp at hf
    subst hf
    rw [hfr]; exact hp
  have hcc : s.copy.copy = s.copy := copy_eq _ hre
  have hfs' : s.copy.frameSet = some fs' := by rw [hcopy]
  unfold Seq.split
  rw [h, hfs', hcc]
  simp only [hfr]

/-- Split after ANY history, whenever the range string of the frame set parses (always, unless a
    printed number does not fit an int): one part per comma component, every part with the
    sequence's dirname, basename, pad, width, style and extension, and the parts' frames —
    concatenated, a frame kept at its first occurrence — are the sequence's frames. -/
theorem split_sound (s : Seq) (hs : Seq.Sound s) (fs fs' : FrameSet) (h : s.frameSet = some fs)
    (hp : FrameSet.parse fs.frange = .ok fs') :
    (s.split).length = (splitOn ',' fs.frange).length ∧
    (∀ p ∈ s.split, p.dir = s.dir ∧ p.base = s.base ∧ p.pad = s.pad ∧ p.zfill = s.zfill ∧
        p.style = s.style ∧ p.ext = s.ext ∧ p.frameSet.isSome = true) ∧
    dedupFirst ((s.split).flatMap Seq.frames) = fs.frames := by
  have hfr : fs'.frange = fs.frange := parse_frange fs.frange fs' hp
  have hcopy : s.copy = { s with frameSet := some fs' } := by
    unfold Seq.copy; simp [h, hp]
  have hfs' : s.copy.frameSet = some fs' := by rw [hcopy]
  have hp' : FrameSet.parse fs'.frange = .ok fs' := by rw [hfr]; exact hp
  obtain ⟨h1, h2, h3⟩ := split_spec s.copy fs' hfs' hp'
  rw [← split_eq_split_copy s fs fs' h hp] at h1 h2 h3
  have hc : s.copy.dir = s.dir ∧ s.copy.base = s.base ∧ s.copy.pad = s.pad ∧ s.copy.zfill = s.zfill ∧
      s.copy.style = s.style ∧ s.copy.ext = s.ext := by rw [hcopy]; simp
  refine ⟨by rw [h1, hfr], ?_, by rw [h3]; exact ((hs fs h).2 fs' hp).1⟩
  intro p hpm
  obtain ⟨a, b, c, d, e, f, g⟩ := h2 p hpm
  exact ⟨a.trans hc.1, b.trans hc.2.1, c.trans hc.2.2.1, d.trans hc.2.2.2.1, e.trans hc.2.2.2.2.1,
    f.trans hc.2.2.2.2.2, g⟩

end Gfs.Proofs
