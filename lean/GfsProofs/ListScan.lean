/-
  GfsProofs.ListScan — the scan over the items: what one step does, what `addFrame` keeps,
  and the accumulated exact cover (helpers for C05).
-/
import GfsProofs.ListGroup

namespace Gfs.Proofs
open Gfs Gfs.Spec
namespace ListAux

/-! ### the optional-frame recogniser -/

theorem optFrameAux_sound (s : Bytes) : ∀ (acc b fr e : Bytes),
    optFrameAux acc s = some (b, fr, e) →
    b ++ fr ++ e = acc.reverse ++ s ∧ (fr = [] ∨ Index.FrameTok fr) := by
  induction s with
  | nil =>
    intro acc b fr e h
    simp only [optFrameAux, Option.some.injEq, Prod.mk.injEq] at h
    obtain ⟨rfl, rfl, rfl⟩ := h
    exact ⟨by simp, Or.inl rfl⟩
  | cons c r ih =>
    intro acc b fr e h
    have step : optFrameAux (c :: acc) r = some (b, fr, e) →
        b ++ fr ++ e = acc.reverse ++ c :: r ∧ (fr = [] ∨ Index.FrameTok fr) := by
      intro h'
      have := ih (c :: acc) b fr e h'
      simpa using this
    have noframe : some (acc.reverse, ([] : Bytes), c :: r) = some (b, fr, e) →
        b ++ fr ++ e = acc.reverse ++ c :: r ∧ (fr = [] ∨ Index.FrameTok fr) := by
      intro h'
      simp only [Option.some.injEq, Prod.mk.injEq] at h'
      obtain ⟨rfl, rfl, rfl⟩ := h'
      exact ⟨by simp, Or.inl rfl⟩
    unfold optFrameAux at h
    split at h
    · rename_i fr' rest hf
      split at h
      · simp only [Option.some.injEq, Prod.mk.injEq] at h
        obtain ⟨rfl, rfl, rfl⟩ := h
        obtain ⟨h1, h2⟩ := Index.frameAt_sound _ _ _ hf
        refine ⟨?_, Or.inr h2⟩
        rw [List.append_assoc, h1]
      · split at h
        · exact noframe h
        · split at h
          · cases h
          · exact step h
    · split at h
      · exact noframe h
      · split at h
        · cases h
        · exact step h

/-! ### one step of the scan -/

/-- the three captures of the pattern (all empty when it cannot read the name) -/
def parts (it : FileItem) : Bytes × Bytes × Bytes := (optFrame it.name).getD ([], [], [])

/-- the item goes to a bucket -/
def itemOk (it : FileItem) : Bool :=
  (optFrame it.name).isSome && !(parts it).2.1.isEmpty &&
    !((parts it).1.isEmpty && (parts it).2.2.isEmpty)

/-- the single-file entry of an item -/
def itemSeq (st : PadStyle) (it : FileItem) : Seq :=
  if (optFrame it.name).isSome then rebuild st it.dir (parts it).1 (parts it).2.1 [] (parts it).2.2
  else rebuild st it.dir it.name (parts it).2.1 [] []

def hiddenSkip (o : ListOpts) (it : FileItem) : Bool := !o.hidden && isPrefixOf ['.'] it.name

theorem scan_nil (o : ListOpts) (bs : List SeqInfo) (files : List Seq) :
    scanItems o none [] bs files = .ok (bs, files) := by
  simp [scanItems]

theorem scan_step (o : ListOpts) (it : FileItem) (rest : List FileItem) (bs : List SeqInfo)
    (files : List Seq) :
    scanItems o none (it :: rest) bs files =
      if hiddenSkip o it then scanItems o none rest bs files
      else if itemOk it then
        scanItems o none rest
          (addFrame o.style it.dir (parts it).1 (parts it).2.2 (parts it).2.1 bs) files
      else if o.single then scanItems o none rest bs (files ++ [itemSeq o.style it])
      else scanItems o none rest bs files := by
  rw [scanItems]
  by_cases hsk : hiddenSkip o it = true
  · have : (!o.hidden) = true ∧ isPrefixOf ['.'] it.name = true := by
      simpa [hiddenSkip] using hsk
    rw [if_pos this, if_pos hsk]
  · have : ¬ ((!o.hidden) = true ∧ isPrefixOf ['.'] it.name = true) := by
      simpa [hiddenSkip] using hsk
    rw [if_neg this, if_neg hsk]
    cases hm : optFrame it.name with
    | none => simp [itemOk, itemSeq, parts, hm]
    | some t =>
      obtain ⟨b, fr, e⟩ := t
      cases fr <;> cases b <;> cases e <;> simp [itemOk, itemSeq, parts, hm]

/-! ### adding a frame to its bucket -/

theorem bucketPaths_snoc (b b' : SeqInfo) (f : FrameInfo) (h1 : b'.dir = b.dir)
    (h2 : b'.base = b.base) (h3 : b'.ext = b.ext) (h4 : b'.frames = b.frames ++ [f]) :
    bucketPaths b' = bucketPaths b ++ [b.dir ++ b.base ++ f.frame ++ b.ext] := by
  simp [bucketPaths, h1, h2, h3, h4]

theorem isEmpty_false_of_ne {α : Type} (l : List α) (h : l ≠ []) : l.isEmpty = false := by
  cases l with
  | nil => exact absurd rfl h
  | cons a l => rfl

theorem perm_ins (A F M : List Bytes) (p : Bytes) :
    ((A ++ [p]) ++ F ++ M).Perm (A ++ F ++ (p :: M)) := by
  have h1 : ((A ++ [p]) ++ F).Perm ((A ++ F) ++ [p]) := by
    have e1 : (A ++ [p]) ++ F = A ++ ([p] ++ F) := List.append_assoc _ _ _
    have e2 : (A ++ F) ++ [p] = A ++ (F ++ [p]) := List.append_assoc _ _ _
    rw [e1, e2]
    exact List.Perm.append_left _ List.perm_append_comm
  have e : A ++ F ++ (p :: M) = ((A ++ F) ++ [p]) ++ M := by simp
  rw [e]
  exact h1.append_right M

theorem perm_snoc_middle (A X : List Bytes) (p : Bytes) :
    ((A ++ [p]) ++ X).Perm ((A ++ X) ++ [p]) := by
  have e1 : (A ++ [p]) ++ X = A ++ ([p] ++ X) := List.append_assoc _ _ _
  have e2 : (A ++ X) ++ [p] = A ++ (X ++ [p]) := List.append_assoc _ _ _
  rw [e1, e2]
  exact List.Perm.append_left _ List.perm_append_comm

theorem addFrame_spec (st : PadStyle) (dir base ext tok : Bytes) (htok : Tok tok)
    (hkey : ¬ (base = [] ∧ ext = [])) : ∀ bs : List SeqInfo, (∀ b ∈ bs, BWF st b) →
    (∀ b ∈ addFrame st dir base ext tok bs, BWF st b) ∧
    ((addFrame st dir base ext tok bs).flatMap bucketPaths).Perm
      (bs.flatMap bucketPaths ++ [dir ++ base ++ tok ++ ext]) := by
  intro bs
  induction bs with
  | nil =>
    intro _
    constructor
    · intro b hb
      simp only [addFrame, List.mem_singleton] at hb
      subst hb
      refine ⟨by simp, ?_, rfl, ⟨⟨tok, atoiOr0 tok, frameMinSize tok⟩, by simp, rfl⟩, hkey⟩
      intro f hf
      rw [List.mem_singleton] at hf
      subst hf
      exact ⟨htok, rfl, rfl⟩
    · simp [addFrame, bucketPaths]
  | cons b bs ih =>
    intro hbs
    have hb := hbs b (by simp)
    have hbs' : ∀ x ∈ bs, BWF st x := fun x hx => hbs x (by simp [hx])
    unfold addFrame
    by_cases hk : b.dir = dir ∧ b.base = base ∧ b.ext = ext
    · rw [if_pos hk]
      obtain ⟨hd, hba, he⟩ := hk
      subst hd hba he
      have hfi : ∀ f ∈ b.frames ++ [⟨tok, atoiOr0 tok, frameMinSize tok⟩], FIok f := by
        intro f hf
        rcases List.mem_append.mp hf with hf | hf
        · exact hb.fi f hf
        · rw [List.mem_singleton] at hf; subst hf; exact ⟨htok, rfl, rfl⟩
      dsimp only
      by_cases hlt : tok.length < b.minWidth
      · rw [if_pos hlt]
        constructor
        · intro x hx
          rcases List.mem_cons.mp hx with rfl | hx
          · exact ⟨by simp, hfi, rfl, ⟨⟨tok, atoiOr0 tok, frameMinSize tok⟩, by simp, rfl⟩, hb.key⟩
          · exact hbs' x hx
        · rw [List.flatMap_cons, List.flatMap_cons]
          simp only [bucketPaths, List.map_append, List.map_cons, List.map_nil]
          exact perm_snoc_middle _ _ _
      · rw [if_neg hlt]
        constructor
        · intro x hx
          rcases List.mem_cons.mp hx with rfl | hx
          · obtain ⟨f, hf, e⟩ := hb.wit
            exact ⟨by simp, hfi, hb.pad, ⟨f, by simp [hf], e⟩, hb.key⟩
          · exact hbs' x hx
        · rw [List.flatMap_cons, List.flatMap_cons]
          simp only [bucketPaths, List.map_append, List.map_cons, List.map_nil]
          exact perm_snoc_middle _ _ _
    · rw [if_neg hk]
      obtain ⟨h1, h2⟩ := ih hbs'
      constructor
      · intro x hx
        rcases List.mem_cons.mp hx with rfl | hx
        · exact hb
        · exact h1 x hx
      · rw [List.flatMap_cons, List.flatMap_cons, List.append_assoc]
        exact List.Perm.append_left _ h2

/-! ### what an item contributes -/

/-- the frame token of the item is empty or tame -/
def ItemTame (it : FileItem) : Prop := (parts it).2.1 = [] ∨ Tok (parts it).2.1

theorem parts_concat (it : FileItem) (h : (optFrame it.name).isSome = true) :
    (parts it).1 ++ (parts it).2.1 ++ (parts it).2.2 = it.name := by
  cases hm : optFrame it.name with
  | none => rw [hm] at h; simp at h
  | some t =>
    obtain ⟨b, fr, e⟩ := t
    have := (optFrameAux_sound it.name [] b fr e hm).1
    simpa [parts, hm] using this

theorem itemOk_facts (it : FileItem) (h : itemOk it = true) :
    (parts it).2.1 ≠ [] ∧ ¬ ((parts it).1 = [] ∧ (parts it).2.2 = []) ∧
    it.dir ++ (parts it).1 ++ (parts it).2.1 ++ (parts it).2.2 = it.dir ++ it.name := by
  simp only [itemOk, Bool.and_eq_true, Bool.not_eq_eq_eq_not, Bool.not_true] at h
  obtain ⟨⟨h1, h2⟩, h3⟩ := h
  refine ⟨?_, ?_, ?_⟩
  · intro e; rw [e] at h2; simp at h2
  · rintro ⟨e1, e2⟩; rw [e1, e2] at h3; simp at h3
  · rw [← parts_concat it h1]; simp

/-- "is a numbered sequence" (the same test as `isNumbered` of GfsProofs.ListLemmas) -/
def numbered (s : Seq) : Bool := s.frameSet.isSome && !(s.base.isEmpty && s.ext.isEmpty)

theorem itemSeq_facts (st : PadStyle) (it : FileItem) (ht : ItemTame it) (h : itemOk it = false) :
    (itemSeq st it).paths = [it.dir ++ it.name] ∧ numbered (itemSeq st it) = false := by
  cases hm : optFrame it.name with
  | none =>
    have hs : itemSeq st it = rebuild st it.dir it.name [] [] [] := by
      simp [itemSeq, parts, hm]
    rw [hs]
    obtain ⟨h1, h2⟩ := rebuild_none st it.dir it.name []
    refine ⟨by simpa using h1, ?_⟩
    simp [numbered, h2]
  | some t =>
    obtain ⟨b, fr, e⟩ := t
    have hcat : b ++ fr ++ e = it.name := by
      have := parts_concat it (by rw [hm]; rfl)
      simpa [parts, hm] using this
    have hs : itemSeq st it = rebuild st it.dir b fr [] e := by
      simp [itemSeq, parts, hm]
    rw [hs]
    by_cases hfr : fr = []
    · subst hfr
      obtain ⟨h1, h2⟩ := rebuild_none st it.dir b e
      refine ⟨?_, by simp [numbered, h2]⟩
      rw [h1, ← hcat]; simp
    · have hbe : b = [] ∧ e = [] := by
        have h' := h
        simp only [itemOk, parts, hm, Option.isSome_some, Option.getD_some, Bool.true_and] at h'
        have hfe : fr.isEmpty = false := isEmpty_false_of_ne fr hfr
        cases hb : b with
        | nil =>
          cases he : e with
          | nil => exact ⟨rfl, rfl⟩
          | cons c r => rw [hfe, hb, he] at h'; simp at h'
        | cons c r => rw [hfe, hb] at h'; simp at h'
      obtain ⟨rfl, rfl⟩ := hbe
      have htok : Tok fr := by
        rcases ht with ht | ht
        · simp [parts, hm] at ht; exact absurd ht hfr
        · simpa [parts, hm] using ht
      have facts := tok_facts fr htok
      obtain ⟨fs, hp, hfs⟩ := parse_tok fr htok
      have hfe : fr.isEmpty = false := isEmpty_false_of_ne fr hfr
      have := rebuild_some st it.dir [] fr [] [] fs fr.length facts.pos (by simp [hfe]) hp
      refine ⟨?_, ?_⟩
      · rw [this.2.2.2, hfs]
        simp only [List.map_cons, List.map_nil, facts.zfill]
        rw [← hcat]; simp
      · simp [numbered, this.2.1, this.2.2.1]

/-! ### the whole scan -/

theorem scan_cover (o : ListOpts) (hs : o.single = true) : ∀ (items : List FileItem)
    (bs : List SeqInfo) (files : List Seq),
    (∀ it ∈ items, ItemTame it) → (∀ b ∈ bs, BWF o.style b) →
    ∃ bs' files', scanItems o none items bs files = .ok (bs', files') ∧
      (∀ b ∈ bs', BWF o.style b) ∧
      (bs'.flatMap bucketPaths ++ files'.flatMap Seq.paths).Perm
        (bs.flatMap bucketPaths ++ files.flatMap Seq.paths ++
          (items.filter (fun it => !hiddenSkip o it)).map (fun it => it.dir ++ it.name)) := by
  intro items
  induction items with
  | nil =>
    intro bs files _ hbs
    exact ⟨bs, files, scan_nil o bs files, hbs, by simp⟩
  | cons it rest ih =>
    intro bs files ht hbs
    have ht' : ∀ x ∈ rest, ItemTame x := fun x hx => ht x (by simp [hx])
    rw [scan_step]
    by_cases hsk : hiddenSkip o it = true
    · rw [if_pos hsk]
      obtain ⟨bs', files', h1, h2, h3⟩ := ih bs files ht' hbs
      refine ⟨bs', files', h1, h2, ?_⟩
      simpa [List.filter_cons, hsk] using h3
    · rw [if_neg hsk]
      have hsk' : hiddenSkip o it = false := by simpa using hsk
      by_cases hok : itemOk it = true
      · rw [if_pos hok]
        obtain ⟨hne, hkey, hpath⟩ := itemOk_facts it hok
        have htok : Tok (parts it).2.1 := by
          rcases ht it (by simp) with h | h
          · exact absurd h hne
          · exact h
        obtain ⟨ha1, ha2⟩ := addFrame_spec o.style it.dir (parts it).1 (parts it).2.2 (parts it).2.1
          htok hkey bs hbs
        obtain ⟨bs', files', h1, h2, h3⟩ := ih _ files ht' ha1
        refine ⟨bs', files', h1, h2, h3.trans ?_⟩
        simp only [List.filter_cons, hsk', Bool.not_false, if_true, List.map_cons]
        rw [hpath] at ha2
        refine ((ha2.append_right _).append_right _).trans ?_
        exact perm_ins _ _ _ _
      · rw [if_neg hok, if_pos hs]
        have hok' : itemOk it = false := by simpa using hok
        obtain ⟨hp, _⟩ := itemSeq_facts o.style it (ht it (by simp)) hok'
        obtain ⟨bs', files', h1, h2, h3⟩ := ih bs (files ++ [itemSeq o.style it]) ht' hbs
        refine ⟨bs', files', h1, h2, h3.trans ?_⟩
        simp only [List.filter_cons, hsk', Bool.not_false, if_true, List.map_cons,
          List.flatMap_append, List.flatMap_cons, List.flatMap_nil, List.append_nil, hp,
          List.append_assoc]
        exact List.Perm.refl _

/-- the buckets do not depend on the single-files option; the single files are never
    numbered sequences -/
theorem scan_nosingle (o : ListOpts) : ∀ (items : List FileItem)
    (bs : List SeqInfo) (files : List Seq),
    (∀ it ∈ items, ItemTame it) → (∀ b ∈ bs, BWF o.style b) →
    (∀ s ∈ files, numbered s = false) →
    ∃ bs' files', scanItems { o with single := true } none items bs files = .ok (bs', files') ∧
      scanItems { o with single := false } none items bs [] = .ok (bs', []) ∧
      (∀ b ∈ bs', BWF o.style b) ∧ (∀ s ∈ files', numbered s = false) := by
  intro items
  induction items with
  | nil =>
    intro bs files _ hbs hf
    exact ⟨bs, files, scan_nil _ bs files, scan_nil _ bs [], hbs, hf⟩
  | cons it rest ih =>
    intro bs files ht hbs hf
    have ht' : ∀ x ∈ rest, ItemTame x := fun x hx => ht x (by simp [hx])
    rw [scan_step, scan_step]
    have e1 : hiddenSkip { o with single := true } it = hiddenSkip o it := rfl
    have e2 : hiddenSkip { o with single := false } it = hiddenSkip o it := rfl
    rw [e1, e2]
    by_cases hsk : hiddenSkip o it = true
    · rw [if_pos hsk, if_pos hsk]
      exact ih bs files ht' hbs hf
    · rw [if_neg hsk, if_neg hsk]
      by_cases hok : itemOk it = true
      · rw [if_pos hok, if_pos hok]
        obtain ⟨hne, hkey, _⟩ := itemOk_facts it hok
        have htok : Tok (parts it).2.1 := by
          rcases ht it (by simp) with h | h
          · exact absurd h hne
          · exact h
        obtain ⟨ha1, _⟩ := addFrame_spec o.style it.dir (parts it).1 (parts it).2.2 (parts it).2.1
          htok hkey bs hbs
        exact ih _ files ht' ha1 hf
      · rw [if_neg hok, if_neg hok]
        have hok' : itemOk it = false := by simpa using hok
        obtain ⟨_, hn⟩ := itemSeq_facts o.style it (ht it (by simp)) hok'
        simp only [if_true, Bool.false_eq_true, if_false]
        refine ih bs (files ++ [itemSeq o.style it]) ht' hbs ?_
        intro s hs
        rcases List.mem_append.mp hs with hs | hs
        · exact hf s hs
        · simp at hs; subst hs; exact hn

/-- the scan never fails -/
theorem scan_ok (o : ListOpts) : ∀ (items : List FileItem) (bs : List SeqInfo) (files : List Seq),
    ∃ r, scanItems o none items bs files = .ok r := by
  intro items
  induction items with
  | nil => intro bs files; exact ⟨_, scan_nil o bs files⟩
  | cons it rest ih =>
    intro bs files
    rw [scan_step]
    split
    · exact ih _ _
    · split
      · exact ih _ _
      · split
        · exact ih _ _
        · exact ih _ _

/-- hidden items do not influence the scan without the hidden-files option -/
theorem scan_hidden (o : ListOpts) (hh : o.hidden = false) : ∀ (items : List FileItem)
    (bs : List SeqInfo) (files : List Seq),
    scanItems o none items bs files =
      scanItems o none (items.filter (fun it => !isPrefixOf ['.'] it.name)) bs files := by
  intro items
  induction items with
  | nil => intro bs files; rfl
  | cons it rest ih =>
    intro bs files
    have hsk : hiddenSkip o it = isPrefixOf ['.'] it.name := by simp [hiddenSkip, hh]
    by_cases hp : isPrefixOf ['.'] it.name = true
    · rw [scan_step, hsk, if_pos hp, List.filter_cons]
      simp only [hp, Bool.not_true, Bool.false_eq_true, if_false]
      exact ih bs files
    · have hp' : isPrefixOf ['.'] it.name = false := by simpa using hp
      rw [List.filter_cons]
      simp only [hp', Bool.not_false, if_true]
      rw [scan_step, scan_step, hsk, if_neg hp]
      split
      · exact ih _ _
      · split
        · exact ih _ _
        · exact ih _ _

end ListAux
end Gfs.Proofs
