/-
  GfsProofs.HandlesLemmas — the handle table keeps an object alive exactly while it is
  referenced, under every interleaving (C20).
-/
import GfsModel.Handles
import GfsProofs.HandlesAux

namespace Gfs.Proofs
open Gfs.Handles

/-- thread t is inside a writer section / a reader section -/
def inWriter (p : Pc) : Bool :=
  match p with
  | .addInsert _ | .addUnlock _ | .decCheck _ | .decUnlock _ => true
  | _ => false

def inReader (p : Pc) : Bool :=
  match p with
  | .incLookup _ | .incRUnlock _ _ | .decLookup _ | .decRUnlock _ _ | .rdRead | .rdRUnlock => true
  | _ => false

/-- thread t has taken the count of `id` to zero and has not yet finished removing it -/
def removing (p : Pc) (id : Id) : Bool := p = .decLock id || p = .decCheck id

/-! ### the inductive invariant

`Inv N s` is the conjunction of everything that is needed to push the stated properties through
one `Step`; `inv_init` and `inv_step` show it holds in every reachable state. -/

/-- the handle a thread is operating on as an owner (inside Incref, or inside Decref before the
    atomic decrement): throughout these sections the thread still owns a reference on it -/
def opId : Pc → Option Id
  | .incRLock i | .incLookup i | .incRUnlock i _ | .incAdd i
  | .decRLock i | .decLookup i | .decRUnlock i _ | .decAdd i => some i
  | _ => none

def adding (p : Pc) (id : Id) : Prop := p = .addLock id ∨ p = .addInsert id

structure Inv (N : Nat) (s : State) : Prop where
  out : ∀ t, N ≤ t → s.pc t = .idle
  cells_eq : ∀ id, s.created id = true → s.cells id = sumOwned s N id
  fresh : ∀ id, s.created id = false → s.present id = false ∧ ∀ t, s.owned t id = 0
  own : ∀ t id, opId (s.pc t) = some id → 1 ≤ s.owned t id
  found : ∀ t id f, (s.pc t = .incRUnlock id f ∨ s.pc t = .decRUnlock id f) → f = true
  add_fresh : ∀ t id, adding (s.pc t) id → s.created id = false
  add_uniq : ∀ t u id, adding (s.pc t) id → adding (s.pc u) id → t = u
  rem : ∀ t id, removing (s.pc t) id = true → s.cells id = 0 ∧ s.present id = true
  rem_uniq : ∀ t u id, removing (s.pc t) id = true → removing (s.pc u) id = true → t = u
  pres_pos : ∀ id, s.present id = true → 0 < s.cells id ∨ ∃ t, t < N ∧ removing (s.pc t) id = true
  pos_pres : ∀ id, s.created id = true → 0 < s.cells id → s.present id = true
  wr_rd : s.writer = true → s.readers = 0
  wr_in : ∀ t, inWriter (s.pc t) = true → s.writer = true
  wr_ex : s.writer = true → ∃ t, t < N ∧ inWriter (s.pc t) = true
  wr_uniq : ∀ t u, inWriter (s.pc t) = true → inWriter (s.pc u) = true → t = u
  rd : s.readers = cntF (fun t => inReader (s.pc t)) N

variable {N : Nat} {s s' : State}

theorem Inv.lt_of_active (h : Inv N s) {t : Nat} (hp : s.pc t ≠ .idle) : t < N := by
  apply Nat.lt_of_not_le
  intro hle
  exact hp (h.out t hle)

theorem Inv.created_of_owned (h : Inv N s) {t : Nat} {id : Id} (ho : 1 ≤ s.owned t id) :
    s.created id = true := by
  cases hc : s.created id with
  | true => rfl
  | false => have := (h.fresh id hc).2 t; omega

/-- a thread operating on `id` as an owner keeps the cell alive and in the map -/
theorem Inv.own_alive (h : Inv N s) {t : Nat} {id : Id} (ht : t < N) (ho : 1 ≤ s.owned t id) :
    s.created id = true ∧ 1 ≤ s.cells id ∧ s.present id = true := by
  have hc := h.created_of_owned ho
  have hge : s.owned t id ≤ sumOwned s N id := by
    rw [sumOwned_eq]; exact sumF_ge (f := fun t => s.owned t id) ht
  have hcell := h.cells_eq id hc
  have h1 : 1 ≤ s.cells id := by omega
  exact ⟨hc, h1, h.pos_pres id hc (by omega)⟩

theorem inv_init : Inv N init := by
  refine ⟨?_, ?_, ?_, ?_, ?_, ?_, ?_, ?_, ?_, ?_, ?_, ?_, ?_, ?_, ?_, ?_⟩ <;>
    simp [init, opId, adding, removing, inWriter, inReader]
  · rw [cntF_eq_sumF]; exact (sumF_eq_zero (by simp)).symm

theorem pres_out (h : Inv N s) (hs : Step N s s') : ∀ x, N ≤ x → s'.pc x = .idle := by
  intro x hx
  cases hs <;> simp only [upd] <;>
    first | exact h.out x hx | (rw [if_neg (by omega)]; exact h.out x hx)


theorem pres_cells_eq (h : Inv N s) (hs : Step N s s') :
    ∀ i, s'.created i = true → s'.cells i = sumOwned s' N i := by
  intro i hc
  cases hs with
  | give t u id ht hu ho hpc =>
    dsimp only at hc ⊢
    rw [h.cells_eq i hc, sumOwned_eq, sumOwned_eq]
    symm
    by_cases hi : i = id
    · subst hi
      by_cases htu : t = u
      · subst htu
        apply sumF_congr
        intro x hx
        by_cases hxt : x = t
        · subst hxt; simp; omega
        · simp [hxt]
      · apply sumF_move ht hu htu ho
        · simp [htu]
        · simp [Ne.symm htu]
        · intro x hxt hxu; simp [hxt, hxu]
    · apply sumF_congr
      intro x hx
      simp [hi]
  | addInsert t id ht hpc =>
    dsimp only at hc ⊢
    rw [sumOwned_eq]
    have hfr := h.add_fresh t id (Or.inr hpc)
    have hz := (h.fresh id hfr).2
    by_cases hi : i = id
    · subst hi
      have := sumF_upd (f := fun x => s.owned x i)
        (g := fun x => if x = t ∧ i = i then s.owned t i + 1 else s.owned x i) ht
        (fun x hx => by simp [hx])
      have h0 : sumF (fun x => s.owned x i) N = 0 := sumF_eq_zero (fun x _ => hz x)
      have hzt := hz t
      simp at this
      simp [upd]
      omega
    · simp only [upd, hi, if_false] at hc ⊢
      rw [h.cells_eq i hc, sumOwned_eq]
      simp
  | incAdd t id ht hpc =>
    dsimp only at hc ⊢
    rw [sumOwned_eq]
    have hown := h.own t id (by simp [hpc, opId])
    have hal := h.own_alive ht hown
    by_cases hi : i = id
    · subst hi
      have := sumF_upd (f := fun x => s.owned x i)
        (g := fun x => if x = t ∧ i = i then s.owned t i + 1 else s.owned x i) ht
        (fun x hx => by simp [hx])
      have hce := h.cells_eq i hc
      rw [sumOwned_eq] at hce
      simp at this
      simp [upd]
      omega
    · simp only [upd, hi, if_false] at hc ⊢
      rw [h.cells_eq i hc, sumOwned_eq]
      simp
  | decAdd t id ht hpc =>
    dsimp only at hc ⊢
    rw [sumOwned_eq]
    have hown := h.own t id (by simp [hpc, opId])
    have hal := h.own_alive ht hown
    by_cases hi : i = id
    · subst hi
      have := sumF_upd (f := fun x => s.owned x i)
        (g := fun x => if x = t ∧ i = i then s.owned t i - 1 else s.owned x i) ht
        (fun x hx => by simp [hx])
      have hce := h.cells_eq i hc
      rw [sumOwned_eq] at hce
      simp at this
      simp [upd]
      omega
    · simp only [upd, hi, if_false] at hc ⊢
      rw [h.cells_eq i hc, sumOwned_eq]
      simp
  | _ => exact h.cells_eq i hc


theorem pres_fresh (h : Inv N s) (hs : Step N s s') :
    ∀ i, s'.created i = false → s'.present i = false ∧ ∀ x, s'.owned x i = 0 := by
  intro i hc
  cases hs with
  | give t u id ht hu ho hpc =>
    dsimp only at hc ⊢
    have hcr := h.created_of_owned ho
    have hi : i ≠ id := by intro e; subst e; simp [hcr] at hc
    simp only [hi, if_false]; exact h.fresh i hc
  | addInsert t id ht hpc =>
    dsimp only at hc ⊢
    have hi : i ≠ id := by intro e; subst e; simp [upd] at hc
    simp only [upd, hi, if_false, and_false] at hc ⊢
    exact h.fresh i hc
  | incAdd t id ht hpc =>
    dsimp only at hc ⊢
    have hcr := h.created_of_owned (h.own t id (by simp [hpc, opId]))
    have hi : i ≠ id := by intro e; subst e; simp [hcr] at hc
    simp only [hi, if_false, and_false]; exact h.fresh i hc
  | decAdd t id ht hpc =>
    dsimp only at hc ⊢
    have hcr := h.created_of_owned (h.own t id (by simp [hpc, opId]))
    have hi : i ≠ id := by intro e; subst e; simp [hcr] at hc
    simp only [hi, if_false, and_false]; exact h.fresh i hc
  | decCheck t id ht hpc =>
    dsimp only at hc ⊢
    have := h.fresh i hc
    refine ⟨?_, this.2⟩
    split
    · simp only [upd]; split
      · rfl
      · exact this.1
    · exact this.1
  | _ => exact h.fresh i hc

theorem pres_own (h : Inv N s) (hs : Step N s s') :
    ∀ x i, opId (s'.pc x) = some i → 1 ≤ s'.owned x i := by
  intro x i hop
  cases hs with
  | give t u id ht hu ho hpc =>
    dsimp only at hop ⊢
    have hxt : x ≠ t := by intro e; subst e; simp [hpc, opId] at hop
    have := h.own x i hop
    simp only [hxt, if_false]
    split
    · split
      · rename_i e1 e2; subst e1; subst e2; omega
      · exact this
    · exact this
  | addInsert t id ht hpc =>
    dsimp only at hop ⊢
    by_cases hxt : x = t
    · subst hxt; simp [upd, opId] at hop
    · simp only [upd, hxt, if_false, false_and] at hop ⊢; exact h.own x i hop
  | incAdd t id ht hpc =>
    dsimp only at hop ⊢
    by_cases hxt : x = t
    · subst hxt; simp [upd, opId] at hop
    · simp only [upd, hxt, if_false, false_and] at hop ⊢; exact h.own x i hop
  | decAdd t id ht hpc =>
    dsimp only at hop ⊢
    by_cases hxt : x = t
    · subst hxt; simp only [upd, if_true] at hop; split at hop <;> simp [opId] at hop
    · simp only [upd, hxt, if_false, false_and] at hop ⊢; exact h.own x i hop
  | incRUnlock t id f ht hpc =>
    dsimp only at hop ⊢
    by_cases hxt : x = t
    · subst hxt; simp only [upd, if_true] at hop
      cases f <;> simp [opId] at hop
      subst hop; exact h.own x id (by simp [hpc, opId])
    · simp only [upd, hxt, if_false] at hop; exact h.own x i hop
  | decRUnlock t id f ht hpc =>
    dsimp only at hop ⊢
    by_cases hxt : x = t
    · subst hxt; simp only [upd, if_true] at hop
      cases f <;> simp [opId] at hop
      subst hop; exact h.own x id (by simp [hpc, opId])
    · simp only [upd, hxt, if_false] at hop; exact h.own x i hop
  | startAdd t id ht hpc _ _ | startInc t id ht hpc _ | startDec t id ht hpc _ | startRead t ht hpc
  | addLock t id ht hpc _ _ | addUnlock t id ht hpc | incRLock t id ht hpc _ | incLookup t id ht hpc
  | decRLock t id ht hpc _ | decLookup t id ht hpc | decLock t id ht hpc _ _ | decCheck t id ht hpc
  | decUnlock t id ht hpc | rdRLock t ht hpc _ | rdRead t ht hpc | rdRUnlock t ht hpc =>
    dsimp only at hop ⊢
    by_cases hxt : x = t
    · subst hxt
      simp only [upd, if_true] at hop
      first
      | (simp [opId] at hop; done)
      | (simp [opId] at hop; subst hop; first | assumption | exact h.own x _ (by simp [hpc, opId]))
    · simp only [upd, hxt, if_false] at hop
      exact h.own x i hop


theorem pres_found (h : Inv N s) (hs : Step N s s') :
    ∀ x i f, (s'.pc x = .incRUnlock i f ∨ s'.pc x = .decRUnlock i f) → f = true := by
  intro x i f hop
  cases hs with
  | give t u id ht hu ho hpc => exact h.found x i f hop
  | incLookup t id ht hpc | decLookup t id ht hpc =>
    dsimp only at hop
    by_cases hxt : x = t
    · subst hxt
      have hal := h.own_alive ht (h.own x id (by simp [hpc, opId]))
      simp only [upd, if_true] at hop
      simp at hop
      rw [← hop.2, hal.2.2]
    · simp only [upd, hxt, if_false] at hop
      exact h.found x i f hop
  | incRUnlock t id g ht hpc | decRUnlock t id g ht hpc =>
    dsimp only at hop
    by_cases hxt : x = t
    · subst hxt
      simp only [upd, if_true] at hop
      cases g <;> simp at hop
    · simp only [upd, hxt, if_false] at hop
      exact h.found x i f hop
  | decAdd t id ht hpc =>
    dsimp only at hop
    by_cases hxt : x = t
    · subst hxt
      simp only [upd, if_true] at hop
      split at hop <;> simp at hop
    · simp only [upd, hxt, if_false] at hop
      exact h.found x i f hop
  | startAdd t id ht hpc _ _ | startInc t id ht hpc _ | startDec t id ht hpc _ | startRead t ht hpc
  | addLock t id ht hpc _ _ | addInsert t id ht hpc | addUnlock t id ht hpc | incRLock t id ht hpc _
  | incAdd t id ht hpc
  | decRLock t id ht hpc _ | decLock t id ht hpc _ _ | decCheck t id ht hpc
  | decUnlock t id ht hpc | rdRLock t ht hpc _ | rdRead t ht hpc | rdRUnlock t ht hpc =>
    dsimp only at hop
    by_cases hxt : x = t
    · subst hxt
      simp [upd] at hop
    · simp only [upd, hxt, if_false] at hop
      exact h.found x i f hop

theorem pres_add_fresh (h : Inv N s) (hs : Step N s s') :
    ∀ x i, adding (s'.pc x) i → s'.created i = false := by
  intro x i hop
  cases hs with
  | give t u id ht hu ho hpc => exact h.add_fresh x i hop
  | startAdd t id ht hpc hcr hno =>
    dsimp only at hop ⊢
    by_cases hxt : x = t
    · subst hxt
      simp [upd, adding] at hop
      subst hop; exact hcr
    · simp only [upd, hxt, if_false] at hop
      exact h.add_fresh x i hop
  | addLock t id ht hpc _ _ =>
    dsimp only at hop ⊢
    by_cases hxt : x = t
    · subst hxt
      simp [upd, adding] at hop
      subst hop; exact h.add_fresh x id (Or.inl hpc)
    · simp only [upd, hxt, if_false] at hop
      exact h.add_fresh x i hop
  | addInsert t id ht hpc =>
    dsimp only at hop ⊢
    by_cases hxt : x = t
    · subst hxt
      simp [upd, adding] at hop
    · simp only [upd, hxt, if_false] at hop
      have hi : i ≠ id := by
        intro e; subst e
        exact hxt (h.add_uniq x t i hop (Or.inr hpc))
      simp only [upd, hi, if_false]
      exact h.add_fresh x i hop
  | incRUnlock t id g ht hpc | decRUnlock t id g ht hpc =>
    dsimp only at hop ⊢
    by_cases hxt : x = t
    · subst hxt
      simp only [upd, if_true] at hop
      cases g <;> simp [adding] at hop
    · simp only [upd, hxt, if_false] at hop
      exact h.add_fresh x i hop
  | decAdd t id ht hpc =>
    dsimp only at hop ⊢
    by_cases hxt : x = t
    · subst hxt
      simp only [upd, if_true] at hop
      split at hop <;> simp [adding] at hop
    · simp only [upd, hxt, if_false] at hop
      exact h.add_fresh x i hop
  | startInc t id ht hpc _ | startDec t id ht hpc _ | startRead t ht hpc
  | addUnlock t id ht hpc | incRLock t id ht hpc _ | incLookup t id ht hpc
  | incAdd t id ht hpc
  | decRLock t id ht hpc _ | decLookup t id ht hpc | decLock t id ht hpc _ _ | decCheck t id ht hpc
  | decUnlock t id ht hpc | rdRLock t ht hpc _ | rdRead t ht hpc | rdRUnlock t ht hpc =>
    dsimp only at hop ⊢
    by_cases hxt : x = t
    · subst hxt
      simp [upd, adding] at hop
    · simp only [upd, hxt, if_false] at hop
      exact h.add_fresh x i hop

theorem pres_add_uniq (h : Inv N s) (hs : Step N s s') :
    ∀ x y i, adding (s'.pc x) i → adding (s'.pc y) i → x = y := by
  intro x y i hx hy
  cases hs with
  | give t u id ht hu ho hpc => exact h.add_uniq x y i hx hy
  | startAdd t id ht hpc hcr hno =>
    dsimp only at hx hy
    by_cases hxt : x = t <;> by_cases hyt : y = t
    · omega
    · subst hxt
      simp only [upd, hyt, if_true, if_false] at hx hy
      simp [adding] at hx; subst hx
      rcases hy with hy | hy
      · exact absurd hy (hno y).1
      · exact absurd hy (hno y).2
    · subst hyt
      simp only [upd, hxt, if_true, if_false] at hx hy
      simp [adding] at hy; subst hy
      rcases hx with hx | hx
      · exact absurd hx (hno x).1
      · exact absurd hx (hno x).2
    · simp only [upd, hxt, hyt, if_false] at hx hy
      exact h.add_uniq x y i hx hy
  | addLock t id ht hpc _ _ =>
    dsimp only at hx hy
    by_cases hxt : x = t <;> by_cases hyt : y = t
    · omega
    · subst hxt
      simp only [upd, hyt, if_true, if_false] at hx hy
      simp [adding] at hx; subst hx
      exact h.add_uniq x y id (Or.inl hpc) hy
    · subst hyt
      simp only [upd, hxt, if_true, if_false] at hx hy
      simp [adding] at hy; subst hy
      exact h.add_uniq x y id hx (Or.inl hpc)
    · simp only [upd, hxt, hyt, if_false] at hx hy
      exact h.add_uniq x y i hx hy
  | incRUnlock t id g ht hpc | decRUnlock t id g ht hpc =>
    dsimp only at hx hy
    by_cases hxt : x = t <;> by_cases hyt : y = t
    · omega
    · subst hxt
      simp only [upd, if_true] at hx
      cases g <;> simp [adding] at hx
    · subst hyt
      simp only [upd, if_true] at hy
      cases g <;> simp [adding] at hy
    · simp only [upd, hxt, hyt, if_false] at hx hy
      exact h.add_uniq x y i hx hy
  | decAdd t id ht hpc =>
    dsimp only at hx hy
    by_cases hxt : x = t <;> by_cases hyt : y = t
    · omega
    · subst hxt
      simp only [upd, if_true] at hx
      split at hx <;> simp [adding] at hx
    · subst hyt
      simp only [upd, if_true] at hy
      split at hy <;> simp [adding] at hy
    · simp only [upd, hxt, hyt, if_false] at hx hy
      exact h.add_uniq x y i hx hy
  | startInc t id ht hpc _ | startDec t id ht hpc _ | startRead t ht hpc
  | addInsert t id ht hpc | addUnlock t id ht hpc | incRLock t id ht hpc _ | incLookup t id ht hpc
  | incAdd t id ht hpc
  | decRLock t id ht hpc _ | decLookup t id ht hpc | decLock t id ht hpc _ _ | decCheck t id ht hpc
  | decUnlock t id ht hpc | rdRLock t ht hpc _ | rdRead t ht hpc | rdRUnlock t ht hpc =>
    dsimp only at hx hy
    by_cases hxt : x = t <;> by_cases hyt : y = t
    · omega
    · subst hxt
      simp [upd, adding] at hx
    · subst hyt
      simp [upd, adding] at hy
    · simp only [upd, hxt, hyt, if_false] at hx hy
      exact h.add_uniq x y i hx hy


theorem removing_iff (p : Pc) (i : Id) : removing p i = true ↔ (p = .decLock i ∨ p = .decCheck i) := by
  simp [removing]

theorem pres_rem (h : Inv N s) (hs : Step N s s') :
    ∀ x i, removing (s'.pc x) i = true → s'.cells i = 0 ∧ s'.present i = true := by
  intro x i hop
  cases hs with
  | give t u id ht hu ho hpc => exact h.rem x i hop
  | addInsert t id ht hpc =>
    dsimp only at hop ⊢
    by_cases hxt : x = t
    · subst hxt
      simp [upd, removing] at hop
    · simp only [upd, hxt, if_false] at hop
      have hr := h.rem x i hop
      have hi : i ≠ id := by
        intro e; subst e
        have hfr := h.fresh i (h.add_fresh t i (Or.inr hpc))
        rw [hfr.1] at hr; simp at hr
      simp only [upd, hi, if_false]
      exact hr
  | incAdd t id ht hpc =>
    dsimp only at hop ⊢
    have hal := h.own_alive ht (h.own t id (by simp [hpc, opId]))
    by_cases hxt : x = t
    · subst hxt
      simp [upd, removing] at hop
    · simp only [upd, hxt, if_false] at hop
      have hr := h.rem x i hop
      have hi : i ≠ id := by
        intro e; subst e; omega
      simp only [upd, hi, if_false]
      exact hr
  | decAdd t id ht hpc =>
    dsimp only at hop ⊢
    have hal := h.own_alive ht (h.own t id (by simp [hpc, opId]))
    by_cases hxt : x = t
    · subst hxt
      simp only [upd, if_true] at hop
      split at hop
      · rename_i hz
        simp [removing] at hop
        subst hop
        simp only [upd, if_true]
        exact ⟨hz, hal.2.2⟩
      · simp [removing] at hop
    · simp only [upd, hxt, if_false] at hop
      have hr := h.rem x i hop
      have hi : i ≠ id := by
        intro e; subst e; omega
      simp only [upd, hi, if_false]
      exact hr
  | decLock t id ht hpc _ _ =>
    dsimp only at hop ⊢
    by_cases hxt : x = t
    · subst hxt
      simp [upd, removing] at hop
      subst hop
      exact h.rem x id (by simp [hpc, removing])
    · simp only [upd, hxt, if_false] at hop
      exact h.rem x i hop
  | decCheck t id ht hpc =>
    dsimp only at hop ⊢
    by_cases hxt : x = t
    · subst hxt
      simp [upd, removing] at hop
    · simp only [upd, hxt, if_false] at hop
      have hr := h.rem x i hop
      have hi : i ≠ id := by
        intro e; subst e
        exact hxt (h.rem_uniq x t i hop (by simp [hpc, removing]))
      refine ⟨hr.1, ?_⟩
      split
      · simp only [upd, hi, if_false]; exact hr.2
      · exact hr.2
  | incRUnlock t id g ht hpc | decRUnlock t id g ht hpc =>
    dsimp only at hop ⊢
    by_cases hxt : x = t
    · subst hxt
      simp only [upd, if_true] at hop
      cases g <;> simp [removing] at hop
    · simp only [upd, hxt, if_false] at hop
      exact h.rem x i hop
  | startAdd t id ht hpc _ _ | startInc t id ht hpc _ | startDec t id ht hpc _ | startRead t ht hpc
  | addLock t id ht hpc _ _ | addUnlock t id ht hpc | incRLock t id ht hpc _ | incLookup t id ht hpc
  | decRLock t id ht hpc _ | decLookup t id ht hpc
  | decUnlock t id ht hpc | rdRLock t ht hpc _ | rdRead t ht hpc | rdRUnlock t ht hpc =>
    dsimp only at hop ⊢
    by_cases hxt : x = t
    · subst hxt
      simp [upd, removing] at hop
    · simp only [upd, hxt, if_false] at hop
      exact h.rem x i hop

theorem pres_rem_uniq (h : Inv N s) (hs : Step N s s') :
    ∀ x y i, removing (s'.pc x) i = true → removing (s'.pc y) i = true → x = y := by
  intro x y i hx hy
  cases hs with
  | give t u id ht hu ho hpc => exact h.rem_uniq x y i hx hy
  | decAdd t id ht hpc =>
    dsimp only at hx hy
    have hal := h.own_alive ht (h.own t id (by simp [hpc, opId]))
    by_cases hxt : x = t <;> by_cases hyt : y = t
    · omega
    · subst hxt
      simp only [upd, hyt, if_true, if_false] at hx hy
      split at hx
      · simp [removing] at hx; subst hx
        have := (h.rem y id hy).1; omega
      · simp [removing] at hx
    · subst hyt
      simp only [upd, hxt, if_true, if_false] at hx hy
      split at hy
      · simp [removing] at hy; subst hy
        have := (h.rem x id hx).1; omega
      · simp [removing] at hy
    · simp only [upd, hxt, hyt, if_false] at hx hy
      exact h.rem_uniq x y i hx hy
  | decLock t id ht hpc _ _ =>
    dsimp only at hx hy
    by_cases hxt : x = t <;> by_cases hyt : y = t
    · omega
    · subst hxt
      simp only [upd, hyt, if_true, if_false] at hx hy
      simp [removing] at hx; subst hx
      exact h.rem_uniq x y id (by simp [hpc, removing]) hy
    · subst hyt
      simp only [upd, hxt, if_true, if_false] at hx hy
      simp [removing] at hy; subst hy
      exact h.rem_uniq x y id hx (by simp [hpc, removing])
    · simp only [upd, hxt, hyt, if_false] at hx hy
      exact h.rem_uniq x y i hx hy
  | incRUnlock t id g ht hpc | decRUnlock t id g ht hpc =>
    dsimp only at hx hy
    by_cases hxt : x = t <;> by_cases hyt : y = t
    · omega
    · subst hxt
      simp only [upd, if_true] at hx
      cases g <;> simp [removing] at hx
    · subst hyt
      simp only [upd, if_true] at hy
      cases g <;> simp [removing] at hy
    · simp only [upd, hxt, hyt, if_false] at hx hy
      exact h.rem_uniq x y i hx hy
  | startAdd t id ht hpc _ _ | startInc t id ht hpc _ | startDec t id ht hpc _ | startRead t ht hpc
  | addLock t id ht hpc _ _ | addInsert t id ht hpc | addUnlock t id ht hpc | incRLock t id ht hpc _
  | incLookup t id ht hpc | incAdd t id ht hpc
  | decRLock t id ht hpc _ | decLookup t id ht hpc | decCheck t id ht hpc
  | decUnlock t id ht hpc | rdRLock t ht hpc _ | rdRead t ht hpc | rdRUnlock t ht hpc =>
    dsimp only at hx hy
    by_cases hxt : x = t <;> by_cases hyt : y = t
    · omega
    · subst hxt
      simp [upd, removing] at hx
    · subst hyt
      simp [upd, removing] at hy
    · simp only [upd, hxt, hyt, if_false] at hx hy
      exact h.rem_uniq x y i hx hy


/-- a step of a thread that is not removing `i` keeps every witness of "someone is removing `i`" -/
theorem rem_witness_keep {t : Nat} {p : Pc} {i : Id} (hnr : removing (s.pc t) i = false)
    (hex : ∃ w, w < N ∧ removing (s.pc w) i = true) :
    ∃ w, w < N ∧ removing (upd s.pc t p w) i = true := by
  obtain ⟨w, hw, hr⟩ := hex
  refine ⟨w, hw, ?_⟩
  have hwt : w ≠ t := by intro e; subst e; rw [hnr] at hr; exact Bool.noConfusion hr
  simp only [upd, hwt, if_false]; exact hr

theorem pres_pres_pos (h : Inv N s) (hs : Step N s s') :
    ∀ i, s'.present i = true → 0 < s'.cells i ∨ ∃ w, w < N ∧ removing (s'.pc w) i = true := by
  intro i hp
  cases hs with
  | give t u id ht hu ho hpc => exact h.pres_pos i hp
  | addInsert t id ht hpc =>
    dsimp only at hp ⊢
    by_cases hi : i = id
    · subst hi; left; simp [upd]
    · simp only [upd, hi, if_false] at hp ⊢
      rcases h.pres_pos i hp with h1 | h2
      · exact Or.inl h1
      · exact Or.inr (rem_witness_keep (by simp [hpc, removing]) h2)
  | incAdd t id ht hpc =>
    dsimp only at hp ⊢
    by_cases hi : i = id
    · subst hi; left; simp [upd]
    · simp only [upd, hi, if_false] at hp ⊢
      rcases h.pres_pos i hp with h1 | h2
      · exact Or.inl h1
      · exact Or.inr (rem_witness_keep (by simp [hpc, removing]) h2)
  | decAdd t id ht hpc =>
    dsimp only at hp ⊢
    by_cases hi : i = id
    · subst hi
      by_cases hz : s.cells i - 1 = 0
      · right; exact ⟨t, ht, by simp [upd, hz, removing]⟩
      · left; simp only [upd, if_true]; omega
    · simp only [upd, hi, if_false] at hp ⊢
      rcases h.pres_pos i hp with h1 | h2
      · exact Or.inl h1
      · exact Or.inr (rem_witness_keep (by simp [hpc, removing]) h2)
  | decLock t id ht hpc _ _ =>
    dsimp only at hp ⊢
    rcases h.pres_pos i hp with h1 | ⟨w, hw, hr⟩
    · exact Or.inl h1
    · right
      refine ⟨w, hw, ?_⟩
      by_cases hwt : w = t
      · subst hwt
        simp [hpc, removing] at hr
        simp [upd, removing, hr]
      · simp only [upd, hwt, if_false]; exact hr
  | decCheck t id ht hpc =>
    dsimp only at hp ⊢
    have hz := (h.rem t id (by simp [hpc, removing])).1
    simp only [hz, if_true] at hp
    by_cases hi : i = id
    · subst hi; simp [upd] at hp
    · simp only [upd, hi, if_false] at hp
      rcases h.pres_pos i hp with h1 | h2
      · exact Or.inl h1
      · exact Or.inr (rem_witness_keep (by simp [hpc, removing, Ne.symm hi]) h2)
  | incRUnlock t id g ht hpc | decRUnlock t id g ht hpc
  | startAdd t id ht hpc _ _ | startInc t id ht hpc _ | startDec t id ht hpc _ | startRead t ht hpc
  | addLock t id ht hpc _ _ | addUnlock t id ht hpc | incRLock t id ht hpc _ | incLookup t id ht hpc
  | decRLock t id ht hpc _ | decLookup t id ht hpc
  | decUnlock t id ht hpc | rdRLock t ht hpc _ | rdRead t ht hpc | rdRUnlock t ht hpc =>
    dsimp only at hp ⊢
    rcases h.pres_pos i hp with h1 | h2
    · exact Or.inl h1
    · exact Or.inr (rem_witness_keep (by simp [hpc, removing]) h2)

theorem pres_pos_pres (h : Inv N s) (hs : Step N s s') :
    ∀ i, s'.created i = true → 0 < s'.cells i → s'.present i = true := by
  intro i hc hp
  cases hs with
  | addInsert t id ht hpc =>
    dsimp only at hc hp ⊢
    by_cases hi : i = id
    · subst hi; simp [upd]
    · simp only [upd, hi, if_false] at hc hp ⊢
      exact h.pos_pres i hc hp
  | incAdd t id ht hpc =>
    dsimp only at hc hp ⊢
    have hal := h.own_alive ht (h.own t id (by simp [hpc, opId]))
    by_cases hi : i = id
    · subst hi; exact hal.2.2
    · simp only [upd, hi, if_false] at hp
      exact h.pos_pres i hc hp
  | decAdd t id ht hpc =>
    dsimp only at hc hp ⊢
    have hal := h.own_alive ht (h.own t id (by simp [hpc, opId]))
    by_cases hi : i = id
    · subst hi; exact hal.2.2
    · simp only [upd, hi, if_false] at hp
      exact h.pos_pres i hc hp
  | decCheck t id ht hpc =>
    dsimp only at hc hp ⊢
    have hz := (h.rem t id (by simp [hpc, removing])).1
    simp only [hz, if_true]
    by_cases hi : i = id
    · subst hi; omega
    · simp only [upd, hi, if_false]
      exact h.pos_pres i hc hp
  | _ => exact h.pos_pres i hc hp


theorem pres_wr_rd (h : Inv N s) (hs : Step N s s') : s'.writer = true → s'.readers = 0 := by
  intro hw
  cases hs with
  | addLock t id ht hpc hwf hr0 | decLock t id ht hpc hwf hr0 => exact hr0
  | addUnlock t id ht hpc | decUnlock t id ht hpc => simp at hw
  | incRLock t id ht hpc hwf | decRLock t id ht hpc hwf | rdRLock t ht hpc hwf =>
    dsimp only at hw; rw [hwf] at hw; simp at hw
  | incRUnlock t id g ht hpc | decRUnlock t id g ht hpc | rdRUnlock t ht hpc =>
    have := h.wr_rd hw; dsimp only; omega
  | _ => exact h.wr_rd hw

theorem pres_wr_in (h : Inv N s) (hs : Step N s s') :
    ∀ x, inWriter (s'.pc x) = true → s'.writer = true := by
  intro x hx
  cases hs with
  | give t u id ht hu ho hpc => exact h.wr_in x hx
  | addLock t id ht hpc hwf hr0 | decLock t id ht hpc hwf hr0 => rfl
  | addUnlock t id ht hpc | decUnlock t id ht hpc =>
    dsimp only at hx ⊢
    by_cases hxt : x = t
    · subst hxt; simp [upd, inWriter] at hx
    · simp only [upd, hxt, if_false] at hx
      exact absurd (h.wr_uniq x t hx (by simp [hpc, inWriter])) hxt
  | incRUnlock t id g ht hpc | decRUnlock t id g ht hpc =>
    dsimp only at hx ⊢
    by_cases hxt : x = t
    · subst hxt
      simp only [upd, if_true] at hx
      cases g <;> simp [inWriter] at hx
    · simp only [upd, hxt, if_false] at hx
      exact h.wr_in x hx
  | decAdd t id ht hpc =>
    dsimp only at hx ⊢
    by_cases hxt : x = t
    · subst hxt
      simp only [upd, if_true] at hx
      split at hx <;> simp [inWriter] at hx
    · simp only [upd, hxt, if_false] at hx
      exact h.wr_in x hx
  | startAdd t id ht hpc _ _ | startInc t id ht hpc _ | startDec t id ht hpc _ | startRead t ht hpc
  | addInsert t id ht hpc | incRLock t id ht hpc _ | incLookup t id ht hpc | incAdd t id ht hpc
  | decRLock t id ht hpc _ | decLookup t id ht hpc | decCheck t id ht hpc
  | rdRLock t ht hpc _ | rdRead t ht hpc | rdRUnlock t ht hpc =>
    dsimp only at hx ⊢
    by_cases hxt : x = t
    · subst hxt
      first
      | (simp [upd, inWriter] at hx; done)
      | exact h.wr_in x (by simp [hpc, inWriter])
    · simp only [upd, hxt, if_false] at hx
      exact h.wr_in x hx

theorem wr_witness_keep {t : Nat} {p : Pc} (hnr : inWriter (s.pc t) = false)
    (hex : ∃ w, w < N ∧ inWriter (s.pc w) = true) :
    ∃ w, w < N ∧ inWriter (upd s.pc t p w) = true := by
  obtain ⟨w, hw, hr⟩ := hex
  refine ⟨w, hw, ?_⟩
  have hwt : w ≠ t := by intro e; subst e; rw [hnr] at hr; exact Bool.noConfusion hr
  simp only [upd, hwt, if_false]; exact hr

theorem pres_wr_ex (h : Inv N s) (hs : Step N s s') :
    s'.writer = true → ∃ w, w < N ∧ inWriter (s'.pc w) = true := by
  intro hw
  cases hs with
  | give t u id ht hu ho hpc => exact h.wr_ex hw
  | addLock t id ht hpc _ _ | decLock t id ht hpc _ _ | addInsert t id ht hpc | decCheck t id ht hpc =>
    exact ⟨t, ht, by simp [upd, inWriter]⟩
  | addUnlock t id ht hpc | decUnlock t id ht hpc => simp at hw
  | incRUnlock t id g ht hpc | decRUnlock t id g ht hpc | decAdd t id ht hpc
  | startAdd t id ht hpc _ _ | startInc t id ht hpc _ | startDec t id ht hpc _ | startRead t ht hpc
  | incRLock t id ht hpc _ | incLookup t id ht hpc | incAdd t id ht hpc
  | decRLock t id ht hpc _ | decLookup t id ht hpc
  | rdRLock t ht hpc _ | rdRead t ht hpc | rdRUnlock t ht hpc =>
    exact wr_witness_keep (by simp [hpc, inWriter]) (h.wr_ex hw)

theorem pres_wr_uniq (h : Inv N s) (hs : Step N s s') :
    ∀ x y, inWriter (s'.pc x) = true → inWriter (s'.pc y) = true → x = y := by
  intro x y hx hy
  cases hs with
  | give t u id ht hu ho hpc => exact h.wr_uniq x y hx hy
  | addLock t id ht hpc hwf _ | decLock t id ht hpc hwf _ =>
    dsimp only at hx hy
    by_cases hxt : x = t <;> by_cases hyt : y = t
    · omega
    · simp only [upd, hyt, if_false] at hy
      have := h.wr_in y hy; rw [hwf] at this; simp at this
    · simp only [upd, hxt, if_false] at hx
      have := h.wr_in x hx; rw [hwf] at this; simp at this
    · simp only [upd, hxt, hyt, if_false] at hx hy
      exact h.wr_uniq x y hx hy
  | addInsert t id ht hpc | decCheck t id ht hpc =>
    dsimp only at hx hy
    by_cases hxt : x = t <;> by_cases hyt : y = t
    · omega
    · simp only [upd, hyt, if_false] at hy
      subst hxt
      exact h.wr_uniq x y (by simp [hpc, inWriter]) hy
    · simp only [upd, hxt, if_false] at hx
      subst hyt
      exact h.wr_uniq x y hx (by simp [hpc, inWriter])
    · simp only [upd, hxt, hyt, if_false] at hx hy
      exact h.wr_uniq x y hx hy
  | incRUnlock t id g ht hpc | decRUnlock t id g ht hpc =>
    dsimp only at hx hy
    by_cases hxt : x = t <;> by_cases hyt : y = t
    · omega
    · subst hxt
      simp only [upd, if_true] at hx
      cases g <;> simp [inWriter] at hx
    · subst hyt
      simp only [upd, if_true] at hy
      cases g <;> simp [inWriter] at hy
    · simp only [upd, hxt, hyt, if_false] at hx hy
      exact h.wr_uniq x y hx hy
  | decAdd t id ht hpc =>
    dsimp only at hx hy
    by_cases hxt : x = t <;> by_cases hyt : y = t
    · omega
    · subst hxt
      simp only [upd, if_true] at hx
      split at hx <;> simp [inWriter] at hx
    · subst hyt
      simp only [upd, if_true] at hy
      split at hy <;> simp [inWriter] at hy
    · simp only [upd, hxt, hyt, if_false] at hx hy
      exact h.wr_uniq x y hx hy
  | startAdd t id ht hpc _ _ | startInc t id ht hpc _ | startDec t id ht hpc _ | startRead t ht hpc
  | addUnlock t id ht hpc | incRLock t id ht hpc _ | incLookup t id ht hpc | incAdd t id ht hpc
  | decRLock t id ht hpc _ | decLookup t id ht hpc | decUnlock t id ht hpc
  | rdRLock t ht hpc _ | rdRead t ht hpc | rdRUnlock t ht hpc =>
    dsimp only at hx hy
    by_cases hxt : x = t <;> by_cases hyt : y = t
    · omega
    · subst hxt
      simp [upd, inWriter] at hx
    · subst hyt
      simp [upd, inWriter] at hy
    · simp only [upd, hxt, hyt, if_false] at hx hy
      exact h.wr_uniq x y hx hy

theorem rd_goal {t : Nat} (ht : t < N) (p' : Pc) (r' : Nat)
    (hrd : s.readers = cntF (fun x => inReader (s.pc x)) N)
    (hr : r' + (if inReader (s.pc t) then 1 else 0) = s.readers + (if inReader p' then 1 else 0)) :
    r' = cntF (fun x => inReader (upd s.pc t p' x)) N := by
  have key := cntF_upd (p := fun x => inReader (s.pc x))
    (q := fun x => inReader (upd s.pc t p' x)) ht (fun x hx => by simp [upd, hx])
  simp only [upd, if_true] at key ⊢
  omega

theorem pres_rd (h : Inv N s) (hs : Step N s s') :
    s'.readers = cntF (fun x => inReader (s'.pc x)) N := by
  cases hs with
  | give t u id ht hu ho hpc => exact h.rd
  | incRUnlock t id g ht hpc | decRUnlock t id g ht hpc =>
    have h1 : 1 ≤ s.readers := by rw [h.rd]; exact cntF_pos ht (by simp [hpc, inReader])
    apply rd_goal ht _ _ h.rd
    cases g <;> simp [hpc, inReader] <;> omega
  | rdRUnlock t ht hpc =>
    have h1 : 1 ≤ s.readers := by rw [h.rd]; exact cntF_pos ht (by simp [hpc, inReader])
    apply rd_goal ht _ _ h.rd
    simp [hpc, inReader]; omega
  | decAdd t id ht hpc =>
    apply rd_goal ht _ _ h.rd
    by_cases hz : s.cells id - 1 = 0 <;> simp [hpc, inReader, hz]
  | startAdd t id ht hpc _ _ | startInc t id ht hpc _ | startDec t id ht hpc _ | startRead t ht hpc
  | addLock t id ht hpc _ _ | addInsert t id ht hpc | addUnlock t id ht hpc
  | incRLock t id ht hpc _ | incLookup t id ht hpc | incAdd t id ht hpc
  | decRLock t id ht hpc _ | decLookup t id ht hpc | decLock t id ht hpc _ _ | decCheck t id ht hpc
  | decUnlock t id ht hpc | rdRLock t ht hpc _ | rdRead t ht hpc =>
    apply rd_goal ht _ _ h.rd
    simp [hpc, inReader]

theorem inv_step (h : Inv N s) (hs : Step N s s') : Inv N s' :=
  ⟨pres_out h hs, pres_cells_eq h hs, pres_fresh h hs, pres_own h hs, pres_found h hs,
   pres_add_fresh h hs, pres_add_uniq h hs, pres_rem h hs, pres_rem_uniq h hs,
   pres_pres_pos h hs, pres_pos_pres h hs, pres_wr_rd h hs, pres_wr_in h hs, pres_wr_ex h hs,
   pres_wr_uniq h hs, pres_rd h hs⟩

theorem inv_reach (h : Reach N s) : Inv N s := by
  induction h with
  | init => exact inv_init
  | step _ hs ih => exact inv_step ih hs

/-- C20 (refcount = owned references): in every reachable state of every interleaving of N
    threads, the count of every created cell equals the number of references owned on it. -/
theorem refs_eq_owned (N : Nat) (s : State) (h : Reach N s) (id : Id) (hc : s.created id = true) :
    s.cells id = sumOwned s N id :=
  (inv_reach h).cells_eq id hc

/-- C20 (resolves while referenced): a handle whose count is positive is in the map. -/
theorem resolves (N : Nat) (s : State) (h : Reach N s) (id : Id)
    (hc : s.created id = true) (hp : 0 < s.cells id) : s.present id = true :=
  (inv_reach h).pos_pres id hc hp

/-- C20 (removed exactly when the count reaches zero): a handle in the map has a positive
    count, or some thread is in the middle of removing it. -/
theorem present_iff (N : Nat) (s : State) (h : Reach N s) (id : Id) :
    s.present id = true ↔
      (s.created id = true ∧ (0 < s.cells id ∨ ∃ t, t < N ∧ removing (s.pc t) id = true)) := by
  have inv := inv_reach h
  constructor
  · intro hp
    refine ⟨?_, inv.pres_pos id hp⟩
    cases hc : s.created id with
    | true => rfl
    | false => rw [(inv.fresh id hc).1] at hp; exact Bool.noConfusion hp
  · rintro ⟨hc, hpos | ⟨t, _, hr⟩⟩
    · exact inv.pos_pres id hc hpos
    · exact (inv.rem t id hr).2

/-- C20 (quiescence): once all threads are idle and all references are released, the map is
    empty again (the live-object count is back at its starting value). -/
theorem quiescent (N : Nat) (s : State) (h : Reach N s)
    (hidle : ∀ t, t < N → s.pc t = .idle) (hrel : ∀ t id, t < N → s.owned t id = 0) :
    ∀ id, s.present id = false := by
  have inv := inv_reach h
  intro id
  cases hp : s.present id with
  | false => rfl
  | true =>
    exfalso
    rcases inv.pres_pos id hp with hpos | ⟨t, ht, hr⟩
    · have hc : s.created id = true := by
        cases hc : s.created id with
        | true => rfl
        | false => rw [(inv.fresh id hc).1] at hp; exact Bool.noConfusion hp
      have hce := inv.cells_eq id hc
      rw [sumOwned_eq, sumF_eq_zero (fun t ht => hrel t id ht)] at hce
      omega
    · rw [hidle t ht] at hr
      simp [removing] at hr

/-- RWMutex discipline: never a writer together with readers, at most one thread in a writer
    section, and `readers` counts the threads in reader sections. -/
theorem mutex (N : Nat) (s : State) (h : Reach N s) :
    (s.writer = true → s.readers = 0) ∧
    (∀ t u, t < N → u < N → inWriter (s.pc t) = true → inWriter (s.pc u) = true → t = u) ∧
    ((∃ t, t < N ∧ inWriter (s.pc t) = true) ↔ s.writer = true) ∧
    s.readers = ((List.range N).filter fun t => inReader (s.pc t)).length := by
  have inv := inv_reach h
  exact ⟨inv.wr_rd, fun t u _ _ => inv.wr_uniq t u,
    ⟨fun ⟨t, _, ht⟩ => inv.wr_in t ht, inv.wr_ex⟩, inv.rd⟩

/-- a lookup issued by an owner always finds the handle, and a decrement never underflows -/
theorem owner_ops_succeed (N : Nat) (s : State) (h : Reach N s) (t : Nat) (ht : t < N) (id : Id) :
    (∀ f, (s.pc t = .incRUnlock id f ∨ s.pc t = .decRUnlock id f) → f = true) ∧
    (s.pc t = .decAdd id → 1 ≤ s.cells id) := by
  have inv := inv_reach h
  refine ⟨fun f hf => inv.found t id f hf, fun hpc => ?_⟩
  exact (inv.own_alive ht (inv.own t id (by simp [hpc, opId]))).2.1

/-- the sequential semantics: operations on unknown or already released handles are
    harmless no-ops returning defaults -/
theorem stale_noop (t : Table) (id : Id) (h : lookup t id = none) :
    seqStep t (.incref id) = (t, .unit) ∧ seqStep t (.decref id) = (t, .unit) ∧
    seqStep t (.get id) = (t, .found false) := by
  simp [seqStep, h]

end Gfs.Proofs
