/-
  GfsProofs.RngAux — arithmetic and list helpers for RngLemmas.
-/
import GfsModel.Ranges
import GfsSpec.Enum
import GfsSpec.WF

namespace Gfs.Proofs.Aux
open Gfs Gfs.Spec

/-! ### integer arithmetic -/

theorem div_bounds (d m : Int) (hm : 0 < m) : m * (d / m) ≤ d ∧ d < m * (d / m) + m := by
  have h1 := Int.mul_ediv_add_emod d m
  have h2 := Int.emod_nonneg d (Int.ne_of_gt hm)
  have h3 := Int.emod_lt_of_pos d hm
  omega

theorem mul_step_pos (st a b : Int) (hst : 0 < st) (h : a < b) : st * a + st ≤ st * b := by
  have h1 : st * (a + 1) ≤ st * b := Int.mul_le_mul_of_nonneg_left (by omega) (by omega)
  rw [Int.mul_add, Int.mul_one] at h1
  exact h1

theorem mul_step_neg (st a b : Int) (hst : st < 0) (h : a < b) : st * b ≤ st * a + st := by
  have h1 := mul_step_pos (-st) a b (by omega) h
  rw [Int.neg_mul, Int.neg_mul] at h1
  omega

theorem mul_mono_pos (st a b : Int) (hst : 0 < st) (h : a ≤ b) : st * a ≤ st * b :=
  Int.mul_le_mul_of_nonneg_left h (by omega)

theorem mul_mono_neg (st a b : Int) (hst : st < 0) (h : a ≤ b) : st * b ≤ st * a := by
  have h1 := mul_mono_pos (-st) a b (by omega) h
  rw [Int.neg_mul, Int.neg_mul] at h1
  omega

theorem tdiv_neg_neg (a b : Int) (ha : a ≤ 0) : a.tdiv b = (-a) / (-b) := by
  rw [← Int.neg_tdiv_neg, Int.tdiv_eq_ediv_of_nonneg (by omega)]

/-! ### list helpers -/

theorem range_succ_map {α : Type} (f : Nat → α) (n : Nat) :
    (List.range (n + 1)).map f = f 0 :: (List.range n).map (fun k => f (k + 1)) := by
  rw [List.range_succ_eq_map]
  simp [List.map_map, Function.comp_def]

/-! ### closed forms of up / down -/

theorem up_closed (a b m : Int) (hm : 0 < m) :
    up a b m = (List.range (if a ≤ b then ((b - a) / m).toNat + 1 else 0)).map
      (fun (k : Nat) => a + m * (k : Int)) := by
  fun_induction up a b m with
  | case1 a h ih =>
    rw [if_pos h.1, range_succ_map, ih]
    congr 1
    · simp
    · by_cases h2 : a + m ≤ b
      · rw [if_pos h2]
        have e1 : (b - a) / m = (b - (a + m)) / m + 1 := by
          have : b - a = (b - (a + m)) + m * 1 := by omega
          rw [this, Int.add_mul_ediv_left _ _ (by omega)]
        have hnn : 0 ≤ (b - (a + m)) / m := Int.ediv_nonneg (by omega) (by omega)
        rw [e1, show ((b - (a + m)) / m + 1).toNat = ((b - (a + m)) / m).toNat + 1 by omega]
        apply List.map_congr_left
        intro k _
        simp only [Int.natCast_add, Int.mul_add]
        omega
      · rw [if_neg h2]
        have : (b - a) / m = 0 := Int.ediv_eq_zero_of_lt (by omega) (by omega)
        simp [this]
  | case2 a h =>
    have : ¬ a ≤ b := by omega
    simp [this]

theorem down_closed (a b m : Int) (hm : 0 < m) :
    down a b m = (List.range (if b ≤ a then ((a - b) / m).toNat + 1 else 0)).map
      (fun (k : Nat) => a - m * (k : Int)) := by
  fun_induction down a b m with
  | case1 a h ih =>
    rw [if_pos h.1, range_succ_map, ih]
    congr 1
    · simp
    · by_cases h2 : b ≤ a - m
      · rw [if_pos h2]
        have e1 : (a - b) / m = (a - m - b) / m + 1 := by
          have : a - b = (a - m - b) + m * 1 := by omega
          rw [this, Int.add_mul_ediv_left _ _ (by omega)]
        have hnn : 0 ≤ (a - m - b) / m := Int.ediv_nonneg (by omega) (by omega)
        rw [e1, show ((a - m - b) / m + 1).toNat = ((a - m - b) / m).toNat + 1 by omega]
        apply List.map_congr_left
        intro k _
        simp only [Int.natCast_add, Int.mul_add]
        omega
      · rw [if_neg h2]
        have : (a - b) / m = 0 := Int.ediv_eq_zero_of_lt (by omega) (by omega)
        simp [this]
  | case2 a h =>
    have : ¬ b ≤ a := by omega
    simp [this]

/-! ### the number of steps `K` -/

/-- number of full steps that fit between start and stop -/
def K (r : Rng) : Nat := (r.stop - r.start).natAbs / r.step.natAbs

theorem K_asc (s e st : Int) (h1 : s ≤ e) (h2 : 0 < st) :
    (K ⟨s, e, st⟩ : Int) = (e - s) / st := by
  simp only [K, Int.natCast_ediv]
  rw [Int.natAbs_of_nonneg (by omega), Int.natAbs_of_nonneg (by omega)]

theorem K_desc (s e st : Int) (h1 : e ≤ s) (h2 : st < 0) :
    (K ⟨s, e, st⟩ : Int) = (s - e) / (-st) := by
  simp only [K, Int.natCast_ediv]
  have e1 : ((e - s).natAbs : Int) = s - e := by omega
  have e2 : (st.natAbs : Int) = -st := by omega
  rw [e1, e2]

theorem K_spec_asc (s e st : Int) (h1 : s ≤ e) (h2 : 0 < st) :
    st * (K ⟨s, e, st⟩ : Int) ≤ e - s ∧ e - s < st * (K ⟨s, e, st⟩ : Int) + st := by
  rw [K_asc s e st h1 h2]
  exact div_bounds _ _ h2

theorem K_spec_desc (s e st : Int) (h1 : e ≤ s) (h2 : st < 0) :
    e - s ≤ st * (K ⟨s, e, st⟩ : Int) ∧ st * (K ⟨s, e, st⟩ : Int) + st < e - s := by
  have h := div_bounds (s - e) (-st) (by omega)
  rw [← K_desc s e st h1 h2, Int.neg_mul] at h
  omega

/-- uniqueness: anything satisfying the spec is K -/
theorem K_unique_asc (s e st : Int) (h2 : 0 < st) (k : Nat)
    (hk : st * (k : Int) ≤ e - s ∧ e - s < st * (k : Int) + st) : K ⟨s, e, st⟩ = k := by
  have h1 : s ≤ e := by
    have := mul_mono_pos st 0 k h2 (by omega)
    omega
  have hK := K_spec_asc s e st h1 h2
  rcases Nat.lt_trichotomy (K ⟨s, e, st⟩) k with h | h | h
  · have := mul_step_pos st (K ⟨s, e, st⟩ : Int) k h2 (by omega)
    omega
  · exact h
  · have := mul_step_pos st k (K ⟨s, e, st⟩ : Int) h2 (by omega)
    omega

theorem K_unique_desc (s e st : Int) (h2 : st < 0) (k : Nat)
    (hk : e - s ≤ st * (k : Int) ∧ st * (k : Int) + st < e - s) : K ⟨s, e, st⟩ = k := by
  have h1 : e ≤ s := by
    have := mul_mono_neg st 0 k h2 (by omega)
    omega
  have hK := K_spec_desc s e st h1 h2
  rcases Nat.lt_trichotomy (K ⟨s, e, st⟩) k with h | h | h
  · have := mul_step_neg st (K ⟨s, e, st⟩ : Int) k h2 (by omega)
    omega
  · exact h
  · have := mul_step_neg st k (K ⟨s, e, st⟩ : Int) h2 (by omega)
    omega

/-! ### closed form of the enumeration -/

theorem enum_closed (r : Rng) (h : WellSigned r) :
    rngEnum r = (List.range (K r + 1)).map (fun (k : Nat) => r.start + r.step * (k : Int)) := by
  obtain ⟨s, e, st⟩ := r
  simp only [WellSigned] at h
  simp only [rngEnum, enum]
  rcases h with ⟨h1, h2⟩ | ⟨h1, h2⟩
  · have em : (st.natAbs : Int) = st := by omega
    rw [if_pos h1, em, up_closed s e st h2, if_pos h1, ← K_asc s e st h1 h2, Int.toNat_natCast]
  · have em : (st.natAbs : Int) = -st := by omega
    by_cases h3 : s ≤ e
    · have : e = s := by omega
      subst this
      rw [if_pos h3, em, up_closed e e (-st) (by omega), if_pos h3]
      have : K ⟨e, e, st⟩ = 0 := by simp [K]
      simp [this]
    · rw [if_neg h3, em, down_closed s e (-st) (by omega), if_pos h1, ← K_desc s e st h1 h2,
        Int.toNat_natCast]
      apply List.map_congr_left
      intro k _
      rw [Int.neg_mul]
      omega

/-! ### closestInRange -/

theorem closest_asc (v s e st : Int) (hse : s ≤ e) (hst : 0 < st) :
    closest v s e st = if v < s then s else if v > e then e else s + st * ((v - s) / st) := by
  unfold closest
  rw [if_pos (by omega : e ≥ s)]
  split
  · rfl
  · split
    · rfl
    · split
      · rename_i h
        have : st = 1 := by omega
        subst this
        simp
        omega
      · rw [Int.tdiv_eq_ediv_of_nonneg (by omega), Int.mul_comm]
        omega

theorem closest_desc (v s e st : Int) (hse : e ≤ s) (hst : st < 0) :
    closest v s e st = if v > s then s else if v < e then e else s + st * ((s - v) / (-st)) := by
  unfold closest
  by_cases hes : e = s
  · subst hes
    rw [if_pos (by omega : e ≥ e)]
    split
    · rw [if_neg (by omega)]
    · split
      · simp [*]
      · have : v = e := by omega
        subst this
        simp
  · rw [if_neg (by omega : ¬ e ≥ s)]
    split
    · rfl
    · split
      · rfl
      · split
        · rename_i h
          have : st = -1 := by omega
          subst this
          simp
          omega
        · rw [tdiv_neg_neg _ _ (by omega), Int.mul_comm]
          have : -(v - s) = s - v := by omega
          rw [this]
          omega

/-! ### End() -/

theorem fin_eq (r : Rng) (h : WellSigned r) : r.fin = r.start + r.step * (K r : Int) := by
  obtain ⟨s, e, st⟩ := r
  simp only [WellSigned] at h
  simp only [Rng.fin]
  rcases h with ⟨h1, h2⟩ | ⟨h1, h2⟩
  · have hK := K_spec_asc s e st h1 h2
    have hK0 : e - s < st → (K ⟨s, e, st⟩) = 0 := by
      intro hlt
      apply K_unique_asc s e st h2 0
      simp; omega
    split
    · rename_i hc
      rcases hc with hc | hc | hc
      · subst hc; omega
      · omega
      · rw [hK0 (by omega)]; simp; omega
    · rw [if_neg (by omega)]
      split
      · rename_i hc
        rw [hK0 (by omega)]; simp
      · rw [closest_asc e s e st h1 h2, if_neg (by omega), if_neg (by omega),
          ← K_asc s e st h1 h2]
  · have hK := K_spec_desc s e st h1 h2
    have hK0 : st < e - s → (K ⟨s, e, st⟩) = 0 := by
      intro hlt
      apply K_unique_desc s e st h2 0
      simp; omega
    split
    · rename_i hc
      rcases hc with hc | hc | hc
      · omega
      · subst hc; omega
      · rw [hK0 (by omega)]; simp; omega
    · split
      · rename_i hc
        rw [hK0 (by omega)]; simp
      · rw [if_neg (by omega)]
        rw [closest_desc e s e st h1 h2, if_neg (by omega), if_neg (by omega),
          ← K_desc s e st h1 h2]

theorem fin_bounds (r : Rng) (h : WellSigned r) :
    (0 < r.step ∧ r.start ≤ r.fin ∧ r.fin ≤ r.stop) ∨ (r.step < 0 ∧ r.stop ≤ r.fin ∧ r.fin ≤ r.start) := by
  rw [fin_eq r h]
  obtain ⟨s, e, st⟩ := r
  simp only [WellSigned] at h
  rcases h with ⟨h1, h2⟩ | ⟨h1, h2⟩
  · have hK := K_spec_asc s e st h1 h2
    have := mul_mono_pos st 0 (K ⟨s, e, st⟩ : Int) h2 (by omega)
    left; simp only; omega
  · have hK := K_spec_desc s e st h1 h2
    have := mul_mono_neg st 0 (K ⟨s, e, st⟩ : Int) h2 (by omega)
    right; simp only; omega

/-! ### Len() -/

theorem len_eq (r : Rng) (h : WellSigned r) : r.len = (K r : Int) + 1 := by
  obtain ⟨s, e, st⟩ := r
  simp only [WellSigned] at h
  simp only [Rng.len, K, Int.natCast_ediv]
  have hm : (st.natAbs : Int) ≠ 0 := by omega
  have : ((e - s).natAbs : Int) + 1 + (st.natAbs : Int) - 1
      = ((e - s).natAbs : Int) + (st.natAbs : Int) * 1 := by omega
  rw [this, Int.add_mul_ediv_left _ _ hm]

/-! ### membership -/

theorem mem_enum (r : Rng) (h : WellSigned r) (v : Int) :
    v ∈ rngEnum r ↔ ∃ k : Nat, k ≤ K r ∧ v = r.start + r.step * (k : Int) := by
  rw [enum_closed r h, List.mem_map]
  constructor
  · rintro ⟨k, hk, rfl⟩
    exact ⟨k, by simpa [Nat.lt_succ_iff] using hk, rfl⟩
  · rintro ⟨k, hk, rfl⟩
    exact ⟨k, by simpa [Nat.lt_succ_iff] using hk, rfl⟩

theorem closest_eq_iff (r : Rng) (h : WellSigned r) (v : Int) :
    closest v r.start r.fin r.step = v ↔ ∃ k : Nat, k ≤ K r ∧ v = r.start + r.step * (k : Int) := by
  have hfb := fin_bounds r h
  have hfe := fin_eq r h
  obtain ⟨s, e, st⟩ := r
  generalize Rng.fin ⟨s, e, st⟩ = f at hfb hfe
  generalize K ⟨s, e, st⟩ = K at hfe
  simp only at hfb hfe ⊢
  rcases hfb with ⟨h2, h3, _⟩ | ⟨h2, _, h3⟩
  · rw [closest_asc v s f st h3 h2]
    constructor
    · intro hc
      split at hc
      · omega
      · split at hc
        · omega
        · have hq0 : 0 ≤ (v - s) / st := Int.ediv_nonneg (by omega) (by omega)
          have hqK : (v - s) / st ≤ K := by
            apply Classical.byContradiction
            intro hn
            have := mul_step_pos st K ((v - s) / st) h2 (by omega)
            omega
          refine ⟨((v - s) / st).toNat, by omega, ?_⟩
          rw [Int.toNat_of_nonneg hq0]
          omega
    · rintro ⟨k, hk, rfl⟩
      have := mul_mono_pos st 0 k h2 (by omega)
      have := mul_mono_pos st k K h2 (by omega)
      rw [if_neg (by omega), if_neg (by omega)]
      have : s + st * (k : Int) - s = st * (k : Int) := by omega
      rw [this, Int.mul_ediv_cancel_left _ (by omega)]
  · rw [closest_desc v s f st h3 h2]
    constructor
    · intro hc
      split at hc
      · omega
      · split at hc
        · omega
        · have hq0 : 0 ≤ (s - v) / (-st) := Int.ediv_nonneg (by omega) (by omega)
          have hqK : (s - v) / (-st) ≤ K := by
            apply Classical.byContradiction
            intro hn
            have := mul_step_neg st K ((s - v) / (-st)) h2 (by omega)
            omega
          refine ⟨((s - v) / (-st)).toNat, by omega, ?_⟩
          rw [Int.toNat_of_nonneg hq0]
          omega
    · rintro ⟨k, hk, rfl⟩
      have := mul_mono_neg st 0 k h2 (by omega)
      have := mul_mono_neg st k K h2 (by omega)
      rw [if_neg (by omega), if_neg (by omega)]
      have : s - (s + st * (k : Int)) = (-st) * (k : Int) := by rw [Int.neg_mul]; omega
      rw [this, Int.mul_ediv_cancel_left _ (by omega)]

/-! ### Value() -/

theorem value_nat (r : Rng) (h : WellSigned r) (k : Nat) :
    r.value (k : Int) = if k ≤ K r then .ok (r.start + r.step * (k : Int)) else .error .index := by
  have hfb := fin_bounds r h
  have hfe := fin_eq r h
  unfold Rng.value
  obtain ⟨s, e, st⟩ := r
  generalize Rng.fin ⟨s, e, st⟩ = f at hfb hfe
  generalize K ⟨s, e, st⟩ = K at hfe
  simp only at hfb hfe ⊢
  rw [if_neg (by omega)]
  rcases hfb with ⟨h2, h3, _⟩ | ⟨h2, _, h3⟩
  · have := mul_mono_pos st 0 k h2 (by omega)
    by_cases hk : k ≤ K
    · have := mul_mono_pos st k K h2 (by omega)
      rw [if_pos hk, if_neg (by omega), if_neg (by omega)]
    · have := mul_step_pos st K k h2 (by omega)
      rw [if_neg hk, if_pos (by omega)]
  · have := mul_mono_neg st 0 k h2 (by omega)
    by_cases hk : k ≤ K
    · have := mul_mono_neg st k K h2 (by omega)
      rw [if_pos hk, if_neg (by omega), if_neg (by omega)]
    · have := mul_step_neg st K k h2 (by omega)
      rw [if_neg hk]
      by_cases hsf : s ≤ f
      · rw [if_pos (by omega)]
      · rw [if_neg (by omega), if_pos (by omega)]

/-! ### idxOf, listMin, listMax -/

theorem idxOf?_map_range (f : Nat → Int) (n k : Nat) (hk : k < n)
    (hinj : ∀ j, j < k → f j ≠ f k) : ((List.range n).map f).idxOf? (f k) = some k := by
  rw [List.idxOf?_eq_some_iff]
  refine ⟨by simpa using hk, by simp, ?_⟩
  intro j hj
  simpa using hinj j hj

theorem foldl_min_spec (L : List Int) (m : Int) :
    let x := L.foldl (fun m v => if v < m then v else m) m
    x ≤ m ∧ (∀ v ∈ L, x ≤ v) ∧ (x = m ∨ x ∈ L) := by
  induction L generalizing m with
  | nil => simp
  | cons a L ih =>
    simp only [List.foldl_cons]
    by_cases hc : a < m
    · rw [if_pos hc]
      have := ih a
      simp only at this
      obtain ⟨h1, h2, h3⟩ := this
      refine ⟨by omega, ?_, ?_⟩
      · intro v hv
        rcases List.mem_cons.mp hv with rfl | hv
        · omega
        · exact h2 v hv
      · rcases h3 with h3 | h3
        · right; rw [h3]; exact List.mem_cons_self
        · right; exact List.mem_cons_of_mem _ h3
    · rw [if_neg hc]
      have := ih m
      simp only at this
      obtain ⟨h1, h2, h3⟩ := this
      refine ⟨by omega, ?_, ?_⟩
      · intro v hv
        rcases List.mem_cons.mp hv with rfl | hv
        · omega
        · exact h2 v hv
      · rcases h3 with h3 | h3
        · left; exact h3
        · right; exact List.mem_cons_of_mem _ h3

theorem foldl_max_spec (L : List Int) (m : Int) :
    let x := L.foldl (fun m v => if v > m then v else m) m
    m ≤ x ∧ (∀ v ∈ L, v ≤ x) ∧ (x = m ∨ x ∈ L) := by
  induction L generalizing m with
  | nil => simp
  | cons a L ih =>
    simp only [List.foldl_cons]
    by_cases hc : a > m
    · rw [if_pos hc]
      have := ih a
      simp only at this
      obtain ⟨h1, h2, h3⟩ := this
      refine ⟨by omega, ?_, ?_⟩
      · intro v hv
        rcases List.mem_cons.mp hv with rfl | hv
        · omega
        · exact h2 v hv
      · rcases h3 with h3 | h3
        · right; rw [h3]; exact List.mem_cons_self
        · right; exact List.mem_cons_of_mem _ h3
    · rw [if_neg hc]
      have := ih m
      simp only at this
      obtain ⟨h1, h2, h3⟩ := this
      refine ⟨by omega, ?_, ?_⟩
      · intro v hv
        rcases List.mem_cons.mp hv with rfl | hv
        · omega
        · exact h2 v hv
      · rcases h3 with h3 | h3
        · left; exact h3
        · right; exact List.mem_cons_of_mem _ h3

theorem listMin_eq (L : List Int) (x : Int) (hx : x ∈ L) (hlb : ∀ v ∈ L, x ≤ v) :
    listMin L = x := by
  have hs := foldl_min_spec L (L.headD 0)
  simp only at hs
  obtain ⟨_, h2, h3⟩ := hs
  unfold listMin
  have hmem : L.foldl (fun m v => if v < m then v else m) (L.headD 0) ∈ L := by
    rcases h3 with h3 | h3
    · rw [h3]
      cases L with
      | nil => simp at hx
      | cons a L => simp
    · exact h3
  have := h2 x hx
  have := hlb _ hmem
  omega

theorem listMax_eq (L : List Int) (x : Int) (hx : x ∈ L) (hub : ∀ v ∈ L, v ≤ x) :
    listMax L = x := by
  have hs := foldl_max_spec L (L.headD 0)
  simp only at hs
  obtain ⟨_, h2, h3⟩ := hs
  unfold listMax
  have hmem : L.foldl (fun m v => if v > m then v else m) (L.headD 0) ∈ L := by
    rcases h3 with h3 | h3
    · rw [h3]
      cases L with
      | nil => simp at hx
      | cons a L => simp
    · exact h3
  have := h2 x hx
  have := hub _ hmem
  omega

end Gfs.Proofs.Aux
