/-
  GfsProofs.PadLemmas — pad characters ↔ pad widths (C10), zero filling (C04).
-/
import GfsModel.Pad
import GfsModel.Sequence
import GfsSpec.SeqSpec
import GfsProofs.DigitLemmas

namespace Gfs.Proofs
open Gfs Gfs.Spec

/-! ### helpers -/

theorem udimAngle_toList : "<UDIM>".toList = ['<','U','D','I','M','>'] := by rfl
theorem udimPrintf_toList : "%(UDIM)d".toList = ['%','(','U','D','I','M',')','d'] := by rfl

theorem isPrefixOf_cons_false (a : Char) (p l : Bytes) (h : ∀ c ∈ l, c ≠ a) :
    isPrefixOf (a :: p) l = false := by
  cases l with
  | nil => rfl
  | cons b l =>
    have : a ≠ b := fun e => h b (by simp) e.symm
    simp [isPrefixOf, this]

/-- a string none of whose bytes is '<' or 'd' is not matched by the UDIM test -/
theorem udimMatch_false_of_not_mem (s : Bytes) (h1 : ∀ c ∈ s, c ≠ '<') (h2 : ∀ c ∈ s, c ≠ 'd') :
    udimMatch s = false := by
  unfold udimMatch isSuffixOf
  rw [udimAngle_toList, udimPrintf_toList]
  simp only [List.reverse_cons, List.reverse_nil, List.nil_append, List.cons_append,
    Bool.or_eq_false_iff]
  constructor
  · exact isPrefixOf_cons_false _ _ _ h1
  · exact isPrefixOf_cons_false _ _ _ (fun c hc => h2 c (List.mem_reverse.mp hc))

theorem foldl_charSize_acc (st : PadStyle) (s : Bytes) (a : Int) :
    s.foldl (fun acc c => acc + charSize st c) a =
      a + s.foldl (fun acc c => acc + charSize st c) 0 := by
  induction s generalizing a with
  | nil => simp
  | cons c s ih =>
    simp only [List.foldl_cons]
    rw [ih (a + charSize st c), ih (0 + charSize st c)]
    omega

theorem foldl_charSize_replicate (st : PadStyle) (k : Nat) (c : Char) :
    (List.replicate k c).foldl (fun acc c => acc + charSize st c) 0 = k * charSize st c := by
  induction k with
  | zero => simp
  | succ k ih =>
    simp only [List.replicate_succ, List.foldl_cons]
    rw [foldl_charSize_acc, ih]
    simp only [Int.natCast_succ, Int.add_mul]
    omega

theorem foldl_charSize_chars (st : PadStyle) (s : Bytes) (h : ∀ c ∈ s, c = '#' ∨ c = '@') :
    s.foldl (fun acc c => acc + charSize st c) 0 =
      (if st = .hash4 then 4 else 1) * (countChar '#' s : Int) + countChar '@' s := by
  induction s with
  | nil => simp [countChar]
  | cons c s ih =>
    simp only [List.foldl_cons]
    rw [foldl_charSize_acc, ih (fun c hc => h c (by simp [hc]))]
    rcases h c (by simp) with hc | hc <;> subst hc <;> cases st <;>
      simp [countChar, charSize] <;> omega

/-- a non-empty run over {#,@} is measured character by character -/
theorem padSize_of_chars (st : PadStyle) (s : Bytes) (hne : s ≠ [])
    (h : ∀ c ∈ s, c = '#' ∨ c = '@') :
    padSize st s = s.foldl (fun acc c => acc + charSize st c) 0 := by
  cases s with
  | nil => exact absurd rfl hne
  | cons c s =>
    have hu : udimMatch (c :: s) = false := by
      apply udimMatch_false_of_not_mem
      · intro x hx; rcases h x hx with e | e <;> subst e <;> decide
      · intro x hx; rcases h x hx with e | e <;> subst e <;> decide
    have hp : printfDigits (c :: s) = none := by
      rcases h c (by simp) with e | e <;> subst e <;> rfl
    have hh : houdiniDigits (c :: s) = none := by
      rcases h c (by simp) with e | e <;> subst e <;> rfl
    simp [padSize, hu, hp, hh]

/-- `Atoi` on a non-empty all-digit string -/
theorem atoi_digits (ds : Bytes) (hne : ds ≠ []) (hd : ∀ c ∈ ds, isDigit c = true) :
    atoi ds = if (digitsToNat ds : Int) ≤ maxInt64 then some (digitsToNat ds : Int) else none := by
  cases ds with
  | nil => exact absurd rfl hne
  | cons c r =>
    have hc := hd c (by simp)
    have h1 : c ≠ '-' := isDigit_ne_minus c hc
    have h2 : c ≠ '+' := by intro e; subst e; revert hc; decide
    have hall : (c :: r).all isDigit = true := by
      rw [List.all_eq_true]; exact hd
    have hmin : minInt64 ≤ ((digitsToNat (c :: r) : Nat) : Int) := by
      unfold minInt64; omega
    unfold atoi
    split
    next neg ds heq =>
      split at heq
      · rename_i r' he; exact absurd (List.cons.inj he).1 h1
      · rename_i r' he; exact absurd (List.cons.inj he).1 h2
      · cases heq
        simp only [hall, List.isEmpty_cons, Bool.false_or, Bool.not_true, Bool.false_eq_true,
          if_false, hmin, true_and]

theorem atoi_nil : atoi [] = none := by
  simp [atoi]

theorem digitsWidth_digits (ds : Bytes) (hd : ∀ c ∈ ds, isDigit c = true)
    (hf : fitsWidth ds = true) :
    digitsWidth ds = (match digitsOpt ds with | some k => if k = 0 then 1 else (k : Int) | none => 1) := by
  by_cases hne : ds = []
  · subst hne; simp [digitsWidth, atoi_nil, digitsOpt]
  · have hf' : (digitsToNat ds : Int) ≤ maxInt64 := by simpa [fitsWidth] using hf
    have hemp : ds.isEmpty = false := by cases ds <;> simp_all
    simp only [digitsWidth, atoi_digits ds hne hd, hf', if_true, digitsOpt, hemp]
    by_cases hz : digitsToNat ds = 0
    · simp [hz]
    · have : ¬ ((digitsToNat ds : Int) < 1) := by omega
      simp [hz, this]

theorem mem_takeWhile_pred {α : Type} (p : α → Bool) (l : List α) :
    ∀ c ∈ l.takeWhile p, p c = true := by
  induction l with
  | nil => simp
  | cons a l ih =>
    intro c hc
    rw [List.takeWhile_cons] at hc
    split at hc
    · rcases List.mem_cons.mp hc with e | hc
      · subst e; assumption
      · exact ih c hc
    · simp at hc

theorem udimMatch_false_printf (ds : Bytes) (hd : ∀ c ∈ ds, isDigit c = true) :
    udimMatch ('%' :: (ds ++ ['d'])) = false := by
  unfold udimMatch isSuffixOf
  rw [udimAngle_toList, udimPrintf_toList]
  simp only [List.reverse_cons, List.reverse_nil, List.nil_append, List.cons_append,
    List.reverse_append, Bool.or_eq_false_iff]
  constructor
  · simp [isPrefixOf]
  · have : isPrefixOf [')', 'M', 'I', 'D', 'U', '(', '%'] (ds.reverse ++ ['%']) = false := by
      apply isPrefixOf_cons_false
      intro c hc
      rcases List.mem_append.mp hc with hc | hc
      · have := hd c (List.mem_reverse.mp hc)
        intro e; subst e; revert this; decide
      · simp at hc; subst hc; decide
    simp [isPrefixOf, this]

theorem udimMatch_false_houdini (r : Bytes) (hd : ∀ c ∈ r, isDigit c = true) :
    udimMatch ('$' :: 'F' :: r) = false := by
  apply udimMatch_false_of_not_mem
  · intro c hc
    simp only [List.mem_cons] at hc
    rcases hc with e | e | hc
    · subst e; decide
    · subst e; decide
    · have := hd c hc; intro e; subst e; revert this; decide
  · intro c hc
    simp only [List.mem_cons] at hc
    rcases hc with e | e | hc
    · subst e; decide
    · subst e; decide
    · have := hd c hc; intro e; subst e; revert this; decide

/-- width → pad characters → width is the identity for widths ≥ 1, in both styles -/
theorem padSize_padChars (st : PadStyle) (n : Int) (h : 1 ≤ n) : padSize st (padChars st n) = n := by
  have hrep : ∀ (k : Nat) (c : Char), 0 < k → (c = '#' ∨ c = '@') →
      padSize st (List.replicate k c) = k * charSize st c := by
    intro k c hk hc
    rw [padSize_of_chars st _ (by cases k <;> simp_all [List.replicate_succ])
      (fun x hx => by rw [(List.mem_replicate.mp hx).2]; exact hc)]
    exact foldl_charSize_replicate st k c
  cases st with
  | hash1 =>
    have h0 : ¬ n ≤ 0 := by omega
    simp only [padChars, h0, if_false]
    rw [hrep _ _ (by omega) (Or.inl rfl)]
    simp [charSize]; omega
  | hash4 =>
    have h0 : ¬ n ≤ 0 := by omega
    simp only [padChars, h0, if_false]
    split
    · rw [hrep _ _ (by omega) (Or.inl rfl)]
      simp [charSize]; omega
    · rw [hrep _ _ (by omega) (Or.inr rfl)]
      simp [charSize]; omega

/-- '#' counts 4 (hash4) or 1 (hash1), '@' counts 1 -/
theorem padSize_chars (st : PadStyle) (s : Bytes) (hne : s ≠ [])
    (h : ∀ c ∈ s, c = '#' ∨ c = '@') :
    padSize st s = (if st = .hash4 then 4 else 1) * (countChar '#' s : Int) + countChar '@' s := by
  rw [padSize_of_chars st s hne h]
  exact foldl_charSize_chars st s h

/-- every documented token has the documented width: %0Nd and $FN count N (1 when N is
    absent or zero), the UDIM tokens count 4 -/
theorem padSize_classify (st : PadStyle) (s : Bytes) (t : PadTok) (h : classifyPad s = some t) :
    padSize st s = t.width st ∧ t.render = s := by
  unfold classifyPad at h
  split at h
  · rename_i hs; cases h; subst hs; exact ⟨rfl, rfl⟩
  · split at h
    · rename_i hs; cases h; subst hs; exact ⟨rfl, rfl⟩
    · split at h
      · cases h
      · rename_i r _ _
        dsimp only at h
        split at h
        · rename_i hc
          obtain ⟨hdrop, hfit⟩ := hc
          cases h
          have hr : r = r.takeWhile isDigit ++ ['d'] := by
            rw [← hdrop]; exact (List.takeWhile_append_dropWhile).symm
          have hd : ∀ c ∈ r.takeWhile isDigit, isDigit c = true :=
            mem_takeWhile_pred _ _
          have hu : udimMatch ('%' :: r) = false := by
            rw [hr]; exact udimMatch_false_printf _ hd
          have hp : printfDigits ('%' :: r) = some (r.takeWhile isDigit) := by
            simp [printfDigits, hdrop]
          refine ⟨?_, ?_⟩
          · simp only [padSize, List.isEmpty_cons, Bool.false_eq_true, if_false, hu, hp]
            rw [digitsWidth_digits _ hd hfit]
            simp only [PadTok.width]
            cases digitsOpt (List.takeWhile isDigit r) <;> rfl
          · show '%' :: List.takeWhile isDigit r ++ ['d'] = '%' :: r
            rw [List.cons_append, ← hr]
        · cases h
      · rename_i r _ _
        split at h
        · rename_i hc
          obtain ⟨hall, hfit⟩ := hc
          cases h
          have hd : ∀ c ∈ r, isDigit c = true := List.all_eq_true.mp hall
          have hu := udimMatch_false_houdini r hd
          have hp : printfDigits ('$' :: 'F' :: r) = none := rfl
          have hh : houdiniDigits ('$' :: 'F' :: r) = some r := by
            simp [houdiniDigits, hall]
          refine ⟨?_, rfl⟩
          simp only [padSize, List.isEmpty_cons, Bool.false_eq_true, if_false, hu, hp, hh]
          rw [digitsWidth_digits _ hd hfit]
          simp only [PadTok.width]
          cases digitsOpt r <;> rfl
        · cases h
      · rename_i hnil _ _
        split at h
        · rename_i hall
          cases h
          have hne : s ≠ [] := fun e => hnil e
          have hc : ∀ c ∈ s, c = '#' ∨ c = '@' := by
            intro c hc
            have := List.all_eq_true.mp hall c hc
            simpa using this
          exact ⟨padSize_chars st s hne hc, rfl⟩
        · cases h

/-- `zfillInt` is printf's %0Nd -/
theorem zfillInt_eq_spec (f w : Int) : zfillInt f w = zfillSpec f w := by
  have hpos := natDigits_length_pos f.natAbs
  unfold zfillInt zfillSpec
  by_cases hw : w < 2
  · have hw' : w.toNat ≤ 1 := by omega
    by_cases hf : f < 0
    · have e : w.toNat - 1 - (natDigits f.natAbs).length = 0 := by omega
      simp [hw, hf, itoa, e]
    · have e : w.toNat - (natDigits f.natAbs).length = 0 := by omega
      simp [hw, hf, itoa, e]
  · by_cases hf : f < 0
    · have e : w.toNat - ((natDigits f.natAbs).length + 1) =
          w.toNat - 1 - (natDigits f.natAbs).length := by omega
      simp [hw, hf, e]
    · simp [hw, hf]

theorem zfillSpec_injective (w a b : Int) (h : zfillSpec a w = zfillSpec b w) : a = b := by
  unfold zfillSpec at h
  have hnd : ∀ (k n : Nat), '-' ∉ List.replicate k '0' ++ natDigits n := by
    intro k n hm
    rcases List.mem_append.mp hm with hm | hm
    · exact absurd (List.mem_replicate.mp hm).2 (by decide)
    · exact minus_not_mem_natDigits n hm
  by_cases ha : a < 0 <;> by_cases hb : b < 0 <;>
    simp only [ha, hb, if_true, if_false, List.length_cons, List.length_nil, List.cons_append,
      List.nil_append] at h
  · have h' := congrArg digitsToNat (List.cons.inj h).2
    simp only [digitsToNat_replicate_zero_append, digitsToNat_natDigits] at h'
    omega
  · exfalso
    exact hnd _ _ (by rw [← h]; simp)
  · exfalso
    exact hnd _ _ (by rw [h]; simp)
  · have h' := congrArg digitsToNat h
    simp only [digitsToNat_replicate_zero_append, digitsToNat_natDigits] at h'
    omega

/-- a frame token `t` (optional '-', digits) is reproduced by zero-filling its value to its
    own length, unless it is a negative zero -/
theorem zfillInt_token (neg : Bool) (ds : Bytes) (hne : ds ≠ []) (hd : ∀ c ∈ ds, isDigit c = true)
    (hnz : ¬ (neg = true ∧ digitsToNat ds = 0)) :
    let t := (if neg then ['-'] else []) ++ ds
    let v : Int := if neg then -((digitsToNat ds : Nat) : Int) else ((digitsToNat ds : Nat) : Int)
    zfillInt v t.length = t := by
  intro t v
  rw [zfillInt_eq_spec]
  have key := replicate_zero_natDigits_digitsToNat ds hne hd
  have hle := natDigits_length_le ds hne hd
  cases neg with
  | false =>
    have hv : v = ((digitsToNat ds : Nat) : Int) := by simp [v]
    have ht : t = ds := by simp [t]
    have hnn : ¬ ((digitsToNat ds : Nat) : Int) < 0 := by omega
    rw [hv, ht]
    unfold zfillSpec
    simp only [hnn, if_false, Int.natAbs_natCast, List.length_nil, List.nil_append,
      Int.toNat_natCast, Nat.sub_zero]
    exact key
  | true =>
    have hnz' : digitsToNat ds ≠ 0 := fun e => hnz ⟨rfl, e⟩
    have hv : v = -((digitsToNat ds : Nat) : Int) := by simp [v]
    have ht : t = '-' :: ds := by simp [t]
    have hneg : -((digitsToNat ds : Nat) : Int) < 0 := by omega
    rw [hv, ht]
    unfold zfillSpec
    simp only [hneg, if_true, Int.natAbs_neg, Int.natAbs_natCast, List.length_cons,
      List.length_nil, List.cons_append, List.nil_append]
    have e : ((ds.length + 1 : Nat) : Int).toNat - (0 + 1) - (natDigits (digitsToNat ds)).length =
        ds.length - (natDigits (digitsToNat ds)).length := by omega
    rw [e, key]

/-- switching the pad style of a sequence that has padding keeps the pad width and every
    frame path -/
theorem setStyle_keeps (s : Seq) (st' : PadStyle) (h : 1 ≤ s.zfill) :
    (s.setPaddingStyle st').zfill = s.zfill ∧
    (∀ f, (s.setPaddingStyle st').frameInt f = s.frameInt f) ∧
    (s.frameSet.isSome → ∀ i, (s.setPaddingStyle st').index i = s.index i) ∧
    (s.setPaddingStyle st').pad = padChars st' s.zfill := by
  have hz : (s.setPaddingStyle st').zfill = s.zfill := by
    simp only [Seq.setPaddingStyle, Seq.setPadding]
    exact padSize_padChars st' s.zfill h
  have hf : ∀ f, (s.setPaddingStyle st').frameInt f = s.frameInt f := by
    intro f
    unfold Seq.frameInt
    rw [hz]
    rfl
  refine ⟨hz, hf, ?_, rfl⟩
  intro _ i
  unfold Seq.index
  have hfs : (s.setPaddingStyle st').frameSet = s.frameSet := rfl
  rw [hfs]
  cases hs : s.frameSet with
  | none => simp [hs] at *
  | some fs =>
    simp only
    cases fs.frame i with
    | ok f => exact hf f
    | error e => rfl

end Gfs.Proofs
