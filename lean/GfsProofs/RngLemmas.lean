/-
  GfsProofs.RngLemmas — a well-signed InclusiveRange behaves like its enumeration.
-/
import GfsModel.Ranges
import GfsSpec.Enum
import GfsSpec.WF
import GfsProofs.RngAux

namespace Gfs.Proofs
open Gfs Gfs.Spec

/-- closed form of the recursive spec, ascending -/
theorem up_closed (a b m : Int) (hm : 0 < m) :
    up a b m = (List.range (if a ≤ b then ((b - a) / m).toNat + 1 else 0)).map (fun (k : Nat) => a + m * (k : Int)) := by
  exact Aux.up_closed a b m hm

/-- closed form of the recursive spec, descending -/
theorem down_closed (a b m : Int) (hm : 0 < m) :
    down a b m = (List.range (if b ≤ a then ((a - b) / m).toNat + 1 else 0)).map (fun (k : Nat) => a - m * (k : Int)) := by
  exact Aux.down_closed a b m hm

theorem rng_iter (r : Rng) (h : WellSigned r) : r.iter = rngEnum r := by
  rw [Aux.enum_closed r h]
  unfold Rng.iter
  rw [Aux.len_eq r h]
  have : ((Aux.K r : Int) + 1).toNat = Aux.K r + 1 := by omega
  rw [this]
  apply List.map_congr_left
  intro k hk
  have hk' : k ≤ Aux.K r := by
    have := List.mem_range.mp hk
    omega
  rw [Aux.value_nat r h k, if_pos hk']

theorem rng_len (r : Rng) (h : WellSigned r) : r.len = (rngEnum r).length := by
  rw [Aux.enum_closed r h, Aux.len_eq r h]
  simp

theorem rng_ne_nil (r : Rng) (h : WellSigned r) : rngEnum r ≠ [] := by
  rw [Aux.enum_closed r h]
  simp

theorem rng_head (r : Rng) (h : WellSigned r) : (rngEnum r).head? = some r.start := by
  rw [Aux.enum_closed r h, Aux.range_succ_map]
  simp

theorem rng_fin (r : Rng) (h : WellSigned r) : (rngEnum r).getLast? = some r.fin := by
  rw [Aux.enum_closed r h, Aux.fin_eq r h, List.getLast?_map, List.getLast?_range]
  simp

theorem rng_nodup (r : Rng) (h : WellSigned r) : (rngEnum r).Nodup := by
  rw [Aux.enum_closed r h]
  unfold List.Nodup
  rw [List.pairwise_map]
  apply List.Pairwise.imp _ List.pairwise_lt_range
  intro a b hab heq
  have hst : r.step ≠ 0 := by
    unfold WellSigned at h
    omega
  have h1 : r.step * (a : Int) = r.step * (b : Int) := by omega
  have h2 := (Int.mul_eq_mul_left_iff hst).mp h1
  omega

theorem rng_contains (r : Rng) (h : WellSigned r) (v : Int) :
    r.contains v = true ↔ v ∈ rngEnum r := by
  unfold Rng.contains
  rw [beq_iff_eq, Aux.closest_eq_iff r h v, Aux.mem_enum r h v]

theorem rng_value (r : Rng) (h : WellSigned r) (i : Int) :
    r.value i = valueAt (rngEnum r) i := by
  unfold valueAt
  by_cases hi : i < 0
  · rw [if_neg (by omega)]
    unfold Rng.value
    rw [if_pos hi]
  · obtain ⟨k, rfl⟩ := Int.eq_ofNat_of_zero_le (by omega : 0 ≤ i)
    rw [Aux.value_nat r h k, Aux.enum_closed r h]
    by_cases hk : k ≤ Aux.K r
    · rw [if_pos hk, if_pos (by simp; omega)]
      have hk2 : k < Aux.K r + 1 := by omega
      simp [List.getD_eq_getElem?_getD, List.getElem?_range hk2]
    · rw [if_neg hk, if_neg (by simp; omega)]

theorem rng_index (r : Rng) (h : WellSigned r) (v : Int) :
    r.index v = idxOf (rngEnum r) v := by
  have hst : r.step ≠ 0 := by
    unfold WellSigned at h
    omega
  unfold Rng.index idxOf
  by_cases hv : v ∈ rngEnum r
  · have hc := (Aux.closest_eq_iff r h v).mpr ((Aux.mem_enum r h v).mp hv)
    obtain ⟨k, hk, rfl⟩ := (Aux.mem_enum r h v).mp hv
    rw [if_neg (by simp [hc])]
    rw [Aux.enum_closed r h]
    rw [Aux.idxOf?_map_range (fun (k : Nat) => r.start + r.step * (k : Int)) (Aux.K r + 1) k (by omega)]
    · have : r.start + r.step * (k : Int) - r.start = r.step * (k : Int) := by omega
      simp only [this, Int.mul_tdiv_cancel_left _ hst]
      rw [if_neg (by omega)]
    · intro j hj heq
      have heq' : r.start + r.step * (j : Int) = r.start + r.step * (k : Int) := heq
      have h1 : r.step * (j : Int) = r.step * (k : Int) := by omega
      have h2 := (Int.mul_eq_mul_left_iff hst).mp h1
      omega
  · have hc : closest v r.start r.fin r.step ≠ v := by
      intro hc
      exact hv ((Aux.mem_enum r h v).mpr ((Aux.closest_eq_iff r h v).mp hc))
    rw [if_pos hc, List.idxOf?_eq_none_iff.mpr hv]

theorem rng_mem_fin_bounds (r : Rng) (h : WellSigned r) (v : Int) (hv : v ∈ rngEnum r) :
    (0 < r.step ∧ r.start ≤ v ∧ v ≤ r.fin) ∨ (r.step < 0 ∧ r.fin ≤ v ∧ v ≤ r.start) := by
  obtain ⟨k, hk, rfl⟩ := (Aux.mem_enum r h v).mp hv
  have hfb := Aux.fin_bounds r h
  rw [Aux.fin_eq r h] at hfb ⊢
  rcases hfb with ⟨h2, h3, h4⟩ | ⟨h2, h3, h4⟩
  · have := Aux.mul_mono_pos r.step 0 k h2 (by omega)
    have := Aux.mul_mono_pos r.step k (Aux.K r) h2 (by omega)
    left; omega
  · have := Aux.mul_mono_neg r.step 0 k h2 (by omega)
    have := Aux.mul_mono_neg r.step k (Aux.K r) h2 (by omega)
    right; omega

theorem start_mem (r : Rng) (h : WellSigned r) : r.start ∈ rngEnum r :=
  (Aux.mem_enum r h _).mpr ⟨0, by omega, by simp⟩

theorem fin_mem (r : Rng) (h : WellSigned r) : r.fin ∈ rngEnum r :=
  (Aux.mem_enum r h _).mpr ⟨Aux.K r, by omega, Aux.fin_eq r h⟩

theorem rng_min (r : Rng) (h : WellSigned r) : r.min = listMin (rngEnum r) := by
  have hfb := Aux.fin_bounds r h
  unfold Rng.min
  symm
  split
  · apply Aux.listMin_eq _ _ (start_mem r h)
    intro v hv
    have := rng_mem_fin_bounds r h v hv
    omega
  · apply Aux.listMin_eq _ _ (fin_mem r h)
    intro v hv
    have := rng_mem_fin_bounds r h v hv
    omega

theorem rng_max (r : Rng) (h : WellSigned r) : r.max = listMax (rngEnum r) := by
  have hfb := Aux.fin_bounds r h
  unfold Rng.max
  symm
  split
  · apply Aux.listMax_eq _ _ (start_mem r h)
    intro v hv
    have := rng_mem_fin_bounds r h v hv
    omega
  · apply Aux.listMax_eq _ _ (fin_mem r h)
    intro v hv
    have := rng_mem_fin_bounds r h v hv
    omega

/-- members of a well-signed block lie between start and stop -/
theorem rng_mem_bounds (r : Rng) (h : WellSigned r) (v : Int) (hv : v ∈ rngEnum r) :
    (r.start ≤ v ∧ v ≤ r.stop) ∨ (r.stop ≤ v ∧ v ≤ r.start) := by
  obtain ⟨k, hk, rfl⟩ := (Aux.mem_enum r h v).mp hv
  have hfb := Aux.fin_bounds r h
  rw [Aux.fin_eq r h] at hfb
  rcases hfb with ⟨h2, h3, h4⟩ | ⟨h2, h3, h4⟩
  · have := Aux.mul_mono_pos r.step 0 k h2 (by omega)
    have := Aux.mul_mono_pos r.step k (Aux.K r) h2 (by omega)
    left; omega
  · have := Aux.mul_mono_neg r.step 0 k h2 (by omega)
    have := Aux.mul_mono_neg r.step k (Aux.K r) h2 (by omega)
    right; omega

end Gfs.Proofs
