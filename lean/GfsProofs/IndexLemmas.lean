/-
  GfsProofs.IndexLemmas — Frame and Index yield the real file path of each frame (C04).
-/
import GfsModel.Sequence
import GfsModel.SeqOps
import GfsSpec.SeqSpec
import GfsSpec.WF
import GfsProofs.BlocksLemmas
import GfsProofs.PadLemmas
import GfsProofs.ParseSyn

namespace Gfs.Proofs
open Gfs Gfs.Spec

theorem frameInt_eq (s : Seq) (h : s.frameSet.isSome = true) (f : Int) :
    s.frameInt f = framePath s.dir s.base s.ext s.zfill f := by
  unfold Seq.frameInt framePath
  cases hs : s.frameSet with
  | none => rw [hs] at h; simp at h
  | some fs => simp only [zfillInt_eq_spec]

theorem frameInt_none (s : Seq) (h : s.frameSet = none) (f : Int) :
    s.frameInt f = s.dir ++ s.base ++ s.ext := by
  unfold Seq.frameInt
  rw [h]; simp

/-- the path at index i is the path of the i-th frame; an index outside [0,len) gives "" -/
theorem index_eq (s : Seq) (fs : FrameSet) (h : s.frameSet = some fs) (hwf : WF fs.blocks) (i : Int) :
    s.index i =
      if 0 ≤ i ∧ i < (fs.frames.length : Int)
      then framePath s.dir s.base s.ext s.zfill (fs.frames.getD i.toNat 0) else [] := by
  have hfr : fs.frames = blocksEnum fs.blocks := blocks_iter _ hwf
  have hv : fs.frame i = valueAt (blocksEnum fs.blocks) i := blocks_value _ hwf i
  unfold Seq.index
  rw [h]
  simp only [hfr, hv]
  unfold valueAt
  by_cases hc : 0 ≤ i ∧ i < ((blocksEnum fs.blocks).length : Int)
  · rw [if_pos hc, if_pos hc]
    exact frameInt_eq s (by rw [h]; rfl) _
  · rw [if_neg hc, if_neg hc]

theorem index_none (s : Seq) (h : s.frameSet = none) (i : Int) : s.index i = s.str := by
  unfold Seq.index
  rw [h]

theorem framePath_injective (dir base ext : Bytes) (w a b : Int)
    (h : framePath dir base ext w a = framePath dir base ext w b) : a = b := by
  unfold framePath at h
  have h1 := List.append_cancel_right h
  have h2 := List.append_cancel_left h1
  exact zfillSpec_injective w a b h2

namespace Index

theorem range_map_getD (L : List Int) :
    (List.range L.length).map (fun (i : Nat) => L.getD i 0) = L := by
  apply List.ext_getElem
  · simp
  · intro i h1 h2
    simp [List.getD_eq_getElem?_getD, List.getElem?_eq_getElem h2]

end Index

theorem paths_eq (s : Seq) (fs : FrameSet) (h : s.frameSet = some fs) (hwf : WF fs.blocks) :
    s.paths = fs.frames.map (framePath s.dir s.base s.ext s.zfill) := by
  unfold Seq.paths
  have hlen : s.len.toNat = fs.frames.length := by
    simp only [Seq.len, h, FrameSet.len, FrameSet.frames]
    rw [blocks_len _ hwf, blocks_iter _ hwf]; simp
  rw [hlen]
  conv => rhs; rw [← Index.range_map_getD fs.frames]
  rw [List.map_map]
  apply List.map_congr_left
  intro i hi
  have hi' : i < fs.frames.length := List.mem_range.mp hi
  rw [index_eq s fs h hwf]
  rw [if_pos ⟨by omega, by omega⟩]
  simp

/-- the len paths are pairwise distinct -/
theorem paths_nodup (s : Seq) (fs : FrameSet) (h : s.frameSet = some fs) (hwf : WF fs.blocks) :
    s.paths.Nodup := by
  rw [paths_eq s fs h hwf]
  have hnd : fs.frames.Nodup := by
    simp only [FrameSet.frames]
    rw [blocks_iter _ hwf]; exact blocks_nodup _ hwf
  unfold List.Nodup
  rw [List.pairwise_map]
  exact hnd.imp (fun hab heq => hab (framePath_injective _ _ _ _ _ _ heq))

/-- a concrete file path: no pad-token character and no newline -/
def PlainPath (p : Bytes) : Prop :=
  ∀ c ∈ p, c ≠ '#' ∧ c ≠ '@' ∧ c ≠ '%' ∧ c ≠ '$' ∧ c ≠ '<' ∧ c ≠ '\n'

/-- the frame token recognised in it, if any, is a negative zero ("-0", "-00", …) -/
def NegZeroFrame (p : Bytes) : Prop :=
  ∃ name fr ext, singleFrame p = some (name, fr, ext) ∧
    ∃ zs, zs ≠ [] ∧ (∀ c ∈ zs, c = '0') ∧ fr = '-' :: zs

namespace Index

/-- shape of a frame token: optional '-', one or more digits -/
def FrameTok (fr : Bytes) : Prop :=
  ∃ (neg : Bool) (ds : Bytes), ds ≠ [] ∧ (∀ c ∈ ds, isDigit c = true) ∧
      fr = (if neg then ['-'] else []) ++ ds

theorem frameAt_sound (s fr rest : Bytes) (h : frameAt s = some (fr, rest)) :
    fr ++ rest = s ∧ FrameTok fr := by
  unfold frameAt at h
  split at h
  · rename_i r
    simp only at h
    split at h
    · cases h
    · rename_i hne
      cases h
      refine ⟨?_, true, r.takeWhile isDigit, ?_, mem_takeWhile_pred _ _, rfl⟩
      · simp [List.takeWhile_append_dropWhile]
      · intro e; rw [e] at hne; simp at hne
  · simp only at h
    split at h
    · cases h
    · rename_i hne
      cases h
      refine ⟨List.takeWhile_append_dropWhile, false, s.takeWhile isDigit, ?_,
        mem_takeWhile_pred _ _, rfl⟩
      intro e; rw [e] at hne; simp at hne

theorem singleFrameAux_sound (s : Bytes) : ∀ (acc name fr ext : Bytes),
    singleFrameAux acc s = some (name, fr, ext) →
    name ++ fr ++ ext = acc.reverse ++ s ∧ FrameTok fr := by
  induction s with
  | nil => intro acc name fr ext h; simp [singleFrameAux] at h
  | cons c r ih =>
    intro acc name fr ext h
    have step : singleFrameAux (c :: acc) r = some (name, fr, ext) →
        name ++ fr ++ ext = acc.reverse ++ c :: r ∧ FrameTok fr := by
      intro h'
      have := ih (c :: acc) name fr ext h'
      simpa using this
    unfold singleFrameAux at h
    split at h
    · rename_i fr' rest hf
      split at h
      · cases h
        obtain ⟨h1, h2⟩ := frameAt_sound _ _ _ hf
        refine ⟨?_, h2⟩
        rw [List.append_assoc, h1]
      · split at h
        · cases h
        · exact step h
    · split at h
      · cases h
      · exact step h

theorem dropWhile_head_false {α : Type} {p : α → Bool} {l : List α} {x : α} {r : List α}
    (h : l.dropWhile p = x :: r) : p x = false := by
  induction l with
  | nil => simp at h
  | cons a l ih =>
    rw [List.dropWhile_cons] at h
    split at h
    · exact ih h
    · rename_i hp
      cases h
      simpa using hp

end Index

/-- facts about the recogniser: its three captures concatenate to the input and the frame
    is an optional '-' followed by digits -/
theorem singleFrame_concat (p name fr ext : Bytes) (h : singleFrame p = some (name, fr, ext)) :
    name ++ fr ++ ext = p ∧
    ∃ (neg : Bool) (ds : Bytes), ds ≠ [] ∧ (∀ c ∈ ds, isDigit c = true) ∧
      fr = (if neg then ['-'] else []) ++ ds := by
  have := Index.singleFrameAux_sound p [] name fr ext h
  simpa [Index.FrameTok] using this

theorem pathSplit_concat (p : Bytes) : (pathSplit p).1 ++ (pathSplit p).2 = p := by
  unfold pathSplit
  simp only
  rw [← List.reverse_append, List.takeWhile_append_dropWhile, List.reverse_reverse]

theorem splitLastDot_concat (s b e : Bytes) (h : splitLastDot s = some (b, e)) : b ++ e = s := by
  unfold splitLastDot at h
  split at h
  · simp only at h
    split at h
    · rename_i x baseRev hr
      cases h
      have hx : x = '.' := by
        have := Index.dropWhile_head_false hr
        simpa using this
      have := List.takeWhile_append_dropWhile (p := fun c => decide (c ≠ '.')) (l := s.reverse)
      rw [hr, hx] at this
      have h2 := congrArg List.reverse this
      simp only [List.reverse_append, List.reverse_cons, List.reverse_reverse,
        List.append_assoc] at h2
      simpa using h2
    · cases h
  · cases h

namespace Index

theorem padTokenAt_none_head (c : Char) (r : Bytes)
    (h1 : c ≠ '#') (h2 : c ≠ '@') (h3 : c ≠ '%') (h4 : c ≠ '$') (h5 : c ≠ '<') :
    padTokenAt (c :: r) = none := by
  simp [padTokenAt, h1, h2, h3, h4, isPrefixOf, Ne.symm h5]

theorem findPad_plain (p : Bytes) (hp : PlainPath p) : ∀ acc, findPad acc p = none := by
  induction p with
  | nil => intro acc; rfl
  | cons c r ih =>
    intro acc
    obtain ⟨h1, h2, h3, h4, h5, -⟩ := hp c (by simp)
    rw [findPad, padTokenAt_none_head c r h1 h2 h3 h4 h5]
    exact ih (fun x hx => hp x (by simp [hx])) _

theorem contains_false_of {p : Bytes} {x : Char} (h : ∀ c ∈ p, c ≠ x) : p.contains x = false := by
  rw [Bool.eq_false_iff]
  intro hc
  exact h x (List.contains_iff_mem.mp hc) rfl

theorem splitSeq_plain (p : Bytes) (hp : PlainPath p) : splitSeq p = none := by
  unfold splitSeq
  rw [contains_false_of (fun c hc => (hp c hc).2.2.2.2.2), findPad_plain p hp]
  simp

/-- an all-digit string of value zero consists of '0's -/
theorem digits_zero_all_zero (ds : Bytes) (hne : ds ≠ []) (hd : ∀ c ∈ ds, isDigit c = true)
    (h0 : digitsToNat ds = 0) : ∀ c ∈ ds, c = '0' := by
  have h := replicate_zero_natDigits_digitsToNat ds hne hd
  rw [h0, natDigits_zero] at h
  intro c hc
  rw [← h] at hc
  rcases List.mem_append.mp hc with hc | hc
  · exact (List.mem_replicate.mp hc).2
  · simpa using hc

theorem stripJunk_numText {n : Int} {t : Bytes} (h : NumText n t) : stripJunk t = t := by
  obtain ⟨neg, ds, -, hd, rfl, -⟩ := h
  unfold stripJunk
  rw [List.filter_eq_self]
  intro c hc
  have : c = '-' ∨ isDigit c = true := by
    rcases List.mem_append.mp hc with hc | hc
    · cases neg <;> simp at hc
      exact Or.inl hc
    · exact Or.inr (hd c hc)
  rcases this with rfl | hcd
  · decide
  · have h1 : c ≠ '#' := by rintro rfl; revert hcd; decide
    have h2 : c ≠ '@' := by rintro rfl; revert hcd; decide
    have h3 : c ≠ ' ' := by rintro rfl; revert hcd; decide
    simp [isJunk, h1, h2, h3]

theorem frameRangeMatches_numText {n : Int} {t : Bytes} (h : NumText n t) :
    frameRangeMatches t = .ok [.single t] := by
  unfold frameRangeMatches
  rw [stripJunk_numText h, splitOn_no_sep ',' t (numText_no_comma h)]
  have hm : matchPart t = some (.single t) :=
    matchPart_complete (.single n) (.single t) (.single h)
  simp [List.mapM_cons, hm, bind, Except.bind, pure, Except.pure]

/-- `NewFrameSet` on a single numeral: one block holding its value, or an error when the
    value does not fit an int64 -/
theorem parse_numText {n : Int} {t : Bytes} (h : NumText n t) :
    FrameSet.parse t =
      if minInt64 ≤ n ∧ n ≤ maxInt64 then .ok ⟨t, [mkRng n n 1]⟩ else .error .int := by
  unfold FrameSet.parse
  rw [frameRangeMatches_numText h]
  by_cases hf : minInt64 ≤ n ∧ n ≤ maxInt64
  · simp [bind, Except.bind, handleMatches, handleMatch, parseInt, atoi_numText n t h, hf,
      pure, Except.pure, Blocks.appendUnique, Blocks.normStep]
  · simp [bind, Except.bind, handleMatches, handleMatch, parseInt, atoi_numText n t h, hf]

theorem frame_single (t : Bytes) (v : Int) : (FrameSet.mk t [mkRng v v 1]).frame 0 = .ok v := by
  simp [FrameSet.frame, Blocks.value, Blocks.valueAux, Rng.value, Rng.len, Rng.fin, mkRng]

/-- the sequence without a frame set that the single-file branch falls back to -/
theorem fallback_index (st : PadStyle) (p dir0 base0 ext0 : Bytes) (h : dir0 ++ base0 ++ ext0 = p) :
    (Seq.setPadding ⟨base0, dir0, ext0, [], 0, none, st⟩ []).index 0 = p := by
  simp [Seq.index, Seq.setPadding, Seq.str, Seq.frameRange, h]

/-- the sequence built from a recognised frame token -/
theorem token_index (st : PadStyle) (p name fr ext' : Bytes) (fs : FrameSet)
    (hsf : singleFrame p = some (name, fr, ext')) (hnz : ¬ NegZeroFrame p)
    (hparse : FrameSet.parse fr = .ok fs) (dir base : Bytes) (hps : pathSplit name = (dir, base)) :
    (Seq.setPadding ⟨base, dir, ext', padChars st fr.length, 0, some fs, st⟩
      (padChars st fr.length)).index 0 = p := by
  obtain ⟨hcat, neg, ds, hne, hd, hfr⟩ := singleFrame_concat p name fr ext' hsf
  have hnz' : ¬ (neg = true ∧ digitsToNat ds = 0) := by
    rintro ⟨rfl, h0⟩
    exact hnz ⟨name, fr, ext', hsf, ds, hne, digits_zero_all_zero ds hne hd h0, by simpa using hfr⟩
  have htok := zfillInt_token neg ds hne hd hnz'
  simp only at htok
  rw [← hfr] at htok
  have hnt : NumText (if neg then -((digitsToNat ds : Nat) : Int) else ((digitsToNat ds : Nat) : Int)) fr :=
    ⟨neg, ds, hne, hd, hfr, rfl⟩
  generalize (if neg then -((digitsToNat ds : Nat) : Int) else ((digitsToNat ds : Nat) : Int)) = v
    at htok hnt
  have hfs : fs = ⟨fr, [mkRng v v 1]⟩ := by
    rw [parse_numText hnt] at hparse
    split at hparse
    · cases hparse; rfl
    · cases hparse
  have hlen : (1 : Int) ≤ (fr.length : Int) := by
    have : 0 < ds.length := List.length_pos_iff.mpr hne
    rw [hfr, List.length_append]; omega
  have hname : dir ++ base = name := by
    have := pathSplit_concat name
    rw [hps] at this
    exact this
  subst hfs
  simp only [Seq.index, Seq.setPadding, frame_single, Seq.frameInt,
    padSize_padChars st _ hlen, htok]
  rw [hname, hcat]

end Index

/-- parsing a concrete single-file path and asking for index 0 gives back that same path,
    whether or not a frame number was recognised in it (negative-zero frames excepted) -/
theorem single_file_roundtrip (st : PadStyle) (p : Bytes) (hp : PlainPath p) (hnz : ¬ NegZeroFrame p) :
    ∃ s, Seq.parse st p = .ok s ∧ s.index 0 = p := by
  have hsplit := Index.splitSeq_plain p hp
  have hh : p.contains '#' = false := Index.contains_false_of (fun c hc => (hp c hc).1)
  have ha : p.contains '@' = false := Index.contains_false_of (fun c hc => (hp c hc).2.1)
  have hcat0 := pathSplit_concat p
  unfold Seq.parse
  rw [hsplit]
  simp only [hh, ha, Bool.false_eq_true, or_self, if_false]
  generalize pathSplit p = ps at hcat0
  obtain ⟨dir0, file0⟩ := ps
  simp only at hcat0 ⊢
  -- what remains once the split at the last dot is known
  have rest : ∀ base0 ext0 : Bytes, dir0 ++ base0 ++ ext0 = p →
      ∃ s, (if List.isEmpty dir0 = true ∧ List.isEmpty base0 = true ∧ (!List.isEmpty ext0) = true then
          Except.ok (Seq.setPadding ⟨base0, dir0, ext0, [], 0, none, st⟩ [])
        else
          match singleFrame p with
          | some (name, fr, ext') =>
            match FrameSet.parse fr with
            | Except.ok fs =>
              Except.ok (Seq.setPadding ⟨(pathSplit name).snd, (pathSplit name).fst, ext',
                padChars st ↑(List.length fr), 0, some fs, st⟩ (padChars st ↑(List.length fr)))
            | Except.error _ =>
              Except.ok (Seq.setPadding ⟨base0, dir0, ext0, [], 0, none, st⟩ [])
          | none => Except.ok (Seq.setPadding ⟨base0, dir0, ext0, [], 0, none, st⟩ [])) =
          (Except.ok s : Except Err Seq) ∧ s.index 0 = p := by
    intro base0 ext0 hcat
    have hfb := Index.fallback_index st p dir0 base0 ext0 hcat
    split
    · exact ⟨_, rfl, hfb⟩
    · cases hsf : singleFrame p with
      | none => exact ⟨_, rfl, hfb⟩
      | some t =>
        obtain ⟨name, fr, ext'⟩ := t
        simp only
        cases hparse : FrameSet.parse fr with
        | error e => exact ⟨_, rfl, hfb⟩
        | ok fs =>
          exact ⟨_, rfl, Index.token_index st p name fr ext' fs hsf hnz hparse _ _ rfl⟩
  cases hsl : splitLastDot file0 with
  | none => exact rest file0 [] (by simpa using hcat0)
  | some be =>
    obtain ⟨b, e⟩ := be
    refine rest b e ?_
    rw [List.append_assoc, splitLastDot_concat file0 b e hsl, hcat0]

end Gfs.Proofs

