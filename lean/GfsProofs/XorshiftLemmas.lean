/-
  GfsProofs.XorshiftLemmas — the id generator never yields 0 and never repeats before its
  state returns to the seed (C20).
-/
import GfsModel.Xorshift

namespace Gfs.Proofs
open Gfs.Xorshift

/-! ### xor-shift steps are invertible

`x ↦ x ^^^ (x <<< k)` is `I + L` over GF(2) with `L` nilpotent; squaring gives
`(I + L)² = I + L²`, i.e. the same step with shift `2k`, and a shift `≥ 64` is the identity. -/

private theorem xor_cancel_mid (a b c : BitVec 64) : a ^^^ b ^^^ (b ^^^ c) = a ^^^ c := by
  rw [BitVec.xor_assoc, ← BitVec.xor_assoc b b c, BitVec.xor_self, BitVec.zero_xor]

private theorem shl_step_sq (k : Nat) (x : BitVec 64) :
    (x ^^^ (x <<< k)) ^^^ ((x ^^^ (x <<< k)) <<< k) = x ^^^ (x <<< (k + k)) := by
  rw [BitVec.shiftLeft_xor_distrib, ← BitVec.shiftLeft_add, xor_cancel_mid]

private theorem shr_step_sq (k : Nat) (x : BitVec 64) :
    (x ^^^ (x >>> k)) ^^^ ((x ^^^ (x >>> k)) >>> k) = x ^^^ (x >>> (k + k)) := by
  rw [BitVec.ushiftRight_xor_distrib, ← BitVec.shiftRight_add, xor_cancel_mid]

private theorem shl_inj_double (k m : Nat) (hm : m = k + k)
    (ih : ∀ x y : BitVec 64, x ^^^ (x <<< m) = y ^^^ (y <<< m) → x = y)
    (x y : BitVec 64) (h : x ^^^ (x <<< k) = y ^^^ (y <<< k)) : x = y := by
  subst hm
  apply ih
  rw [← shl_step_sq, ← shl_step_sq, h]

private theorem shr_inj_double (k m : Nat) (hm : m = k + k)
    (ih : ∀ x y : BitVec 64, x ^^^ (x >>> m) = y ^^^ (y >>> m) → x = y)
    (x y : BitVec 64) (h : x ^^^ (x >>> k) = y ^^^ (y >>> k)) : x = y := by
  subst hm
  apply ih
  rw [← shr_step_sq, ← shr_step_sq, h]

private theorem shl_inj_big (k : Nat) (hk : 64 ≤ k) (x y : BitVec 64)
    (h : x ^^^ (x <<< k) = y ^^^ (y <<< k)) : x = y := by
  rw [BitVec.shiftLeft_eq_zero hk, BitVec.shiftLeft_eq_zero hk] at h
  simpa using h

private theorem shr_inj_big (k : Nat) (hk : 64 ≤ k) (x y : BitVec 64)
    (h : x ^^^ (x >>> k) = y ^^^ (y >>> k)) : x = y := by
  rw [BitVec.ushiftRight_eq_zero hk, BitVec.ushiftRight_eq_zero hk] at h
  simpa using h

theorem shl13_injective (x y : BitVec 64) (h : x ^^^ (x <<< 13) = y ^^^ (y <<< 13)) : x = y :=
  shl_inj_double 13 26 rfl (shl_inj_double 26 52 rfl (shl_inj_double 52 104 rfl
    (shl_inj_big 104 (by omega)))) x y h

theorem shr7_injective (x y : BitVec 64) (h : x ^^^ (x >>> 7) = y ^^^ (y >>> 7)) : x = y :=
  shr_inj_double 7 14 rfl (shr_inj_double 14 28 rfl (shr_inj_double 28 56 rfl
    (shr_inj_double 56 112 rfl (shr_inj_big 112 (by omega))))) x y h

theorem shl17_injective (x y : BitVec 64) (h : x ^^^ (x <<< 17) = y ^^^ (y <<< 17)) : x = y :=
  shl_inj_double 17 34 rfl (shl_inj_double 34 68 rfl (shl_inj_big 68 (by omega))) x y h

/-- each xor-shift step is invertible, hence `xor64` is injective -/
theorem xor64_injective (x y : BitVec 64) (h : xor64 x = xor64 y) : x = y := by
  unfold xor64 at h
  exact shl13_injective _ _ (shr7_injective _ _ (shl17_injective _ _ h))

theorem xor64_zero : xor64 0#64 = 0#64 := by
  simp [xor64]

theorem xor64_zero_iff (x : BitVec 64) : xor64 x = 0#64 ↔ x = 0#64 := by
  constructor
  · intro h
    exact xor64_injective _ _ (h.trans xor64_zero.symm)
  · intro h
    rw [h, xor64_zero]

theorem seed_ne_zero (s : BitVec 64) : seed s ≠ 0#64 := by
  unfold seed
  split
  · decide
  · assumption

/-- every handle is non-zero -/
theorem nth_ne_zero (s : BitVec 64) (n : Nat) : nth s n ≠ 0#64 := by
  induction n with
  | zero => exact seed_ne_zero s
  | succ n ih =>
    intro h
    exact ih ((xor64_zero_iff _).mp h)

/-- ids are pairwise distinct until the generator state returns to its seed: a repetition
    at positions i < j forces the seed to reappear at position j - i -/
theorem nth_repeat (s : BitVec 64) (i j : Nat) (hij : i < j) (h : nth s i = nth s j) :
    nth s (j - i) = nth s 0 := by
  induction i generalizing j with
  | zero => exact h.symm
  | succ i ih =>
    cases j with
    | zero => omega
    | succ j =>
      have h' : nth s i = nth s j := xor64_injective _ _ h
      have := ih j (by omega) h'
      rw [Nat.add_sub_add_right]
      exact this

end Gfs.Proofs
