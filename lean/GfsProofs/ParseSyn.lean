/-
  GfsProofs.ParseSyn — the syntactic half of C01: the recogniser for the three anchored
  range patterns, Atoi on numerals, splitting and joining on commas.
-/
import GfsModel.FrameSet
import GfsSpec.Grammar

namespace Gfs.Proofs
open Gfs Gfs.Spec

/-! ### digits -/

theorem digit_ne_minus {d : Char} (h : isDigit d = true) : d ≠ '-' := by
  rintro rfl; revert h; decide

theorem digit_ne_plus {d : Char} (h : isDigit d = true) : d ≠ '+' := by
  rintro rfl; revert h; decide

theorem digit_ne_comma {d : Char} (h : isDigit d = true) : d ≠ ',' := by
  rintro rfl; revert h; decide

theorem takeWhile_digits (ds rest : Bytes) (hd : ∀ c ∈ ds, isDigit c = true)
    (hr : ∀ c ∈ rest.head?, isDigit c = false) :
    (ds ++ rest).takeWhile isDigit = ds ∧ (ds ++ rest).dropWhile isDigit = rest := by
  induction ds with
  | nil =>
    cases rest with
    | nil => simp
    | cons c r =>
      have : isDigit c = false := hr c (by simp)
      simp [this]
  | cons d ds ih =>
    have h1 := ih (fun c hc => hd c (List.mem_cons_of_mem _ hc))
    have h2 : isDigit d = true := hd d List.mem_cons_self
    simp [h2, h1]

theorem mem_takeWhile_pos {p : Char → Bool} {l : List Char} {c : Char}
    (h : c ∈ l.takeWhile p) : p c = true := by
  induction l with
  | nil => simp at h
  | cons a l ih =>
    rw [List.takeWhile_cons] at h
    split at h
    · rename_i ha
      rcases List.mem_cons.1 h with rfl | h'
      · exact ha
      · exact ih h'
    · simp at h

/-! ### takeNum -/

theorem takeNum_minus (r : Bytes) :
    takeNum ('-' :: r) = (if (r.takeWhile isDigit).isEmpty then none
      else some ('-' :: r.takeWhile isDigit, r.dropWhile isDigit)) := by
  simp [takeNum]

theorem takeNum_nosign (s : Bytes) (h : ∀ c ∈ s.head?, c ≠ '-') :
    takeNum s = (if (s.takeWhile isDigit).isEmpty then none
      else some (s.takeWhile isDigit, s.dropWhile isDigit)) := by
  unfold takeNum
  split
  · rename_i r heq
    split at heq
    · simp at h
    · injection heq with h1 h2
      subst h1 h2
      simp

theorem takeNum_numText {n : Int} {t : Bytes} (h : NumText n t) (rest : Bytes)
    (hr : ∀ c ∈ rest.head?, isDigit c = false) : takeNum (t ++ rest) = some (t, rest) := by
  obtain ⟨neg, ds, hne, hd, rfl, -⟩ := h
  obtain ⟨h1, h2⟩ := takeWhile_digits ds rest hd hr
  cases neg
  · rw [takeNum_nosign]
    · simp [h1, h2, hne]
    · cases ds with
      | nil => contradiction
      | cons d ds' =>
        have := digit_ne_minus (hd d List.mem_cons_self)
        simpa using this
  · simp only [if_true, List.cons_append, List.nil_append]
    rw [takeNum_minus]
    simp [h1, h2, hne]

theorem takeNum_sound {s t r : Bytes} (h : takeNum s = some (t, r)) :
    s = t ++ r ∧ ∃ n, NumText n t := by
  by_cases hs : ∀ c ∈ s.head?, c ≠ '-'
  · rw [takeNum_nosign s hs] at h
    split at h
    · contradiction
    · rename_i hne
      injection h with h
      injection h with h1 h2
      subst h1 h2
      refine ⟨(List.takeWhile_append_dropWhile).symm, _, false, s.takeWhile isDigit, ?_, ?_, ?_, rfl⟩
      · simpa using hne
      · intro c hc; exact (mem_takeWhile_pos hc)
      · simp
  · cases s with
    | nil => simp at hs
    | cons c s' =>
      have : c = '-' := by simpa using hs
      subst this
      rw [takeNum_minus] at h
      split at h
      · contradiction
      · rename_i hne
        injection h with h
        injection h with h1 h2
        subst h1 h2
        refine ⟨?_, _, true, s'.takeWhile isDigit, ?_, ?_, ?_, rfl⟩
        · simp [List.takeWhile_append_dropWhile]
        · simpa using hne
        · intro c hc; exact (mem_takeWhile_pos hc)
        · simp

/-! ### atoi -/

theorem atoi_numText (n : Int) (t : Bytes) (h : NumText n t) :
    atoi t = if minInt64 ≤ n ∧ n ≤ maxInt64 then some n else none := by
  obtain ⟨neg, ds, hne, hd, rfl, rfl⟩ := h
  have hall : ds.all isDigit = true := by simpa [List.all_eq_true] using hd
  have hemp : ds.isEmpty = false := by simpa using hne
  cases neg
  · unfold atoi
    split
    rename_i neg' ds' heq
    split at heq
    · rename_i r hr
      cases ds with
      | nil => contradiction
      | cons d ds'' =>
        simp at hr
        exact absurd hr.1 (digit_ne_minus (hd d List.mem_cons_self))
    · rename_i r hr
      cases ds with
      | nil => contradiction
      | cons d ds'' =>
        simp at hr
        exact absurd hr.1 (digit_ne_plus (hd d List.mem_cons_self))
    · injection heq with h1 h2
      subst h1 h2
      simp [hall, hemp]
  · simp [atoi, hall, hemp]


/-! ### matchPart -/

theorem takeNum_numText_nil {n : Int} {t : Bytes} (h : NumText n t) : takeNum t = some (t, []) := by
  have := takeNum_numText h [] (by simp)
  rwa [List.append_nil] at this

theorem matchPart_complete (c : Comp) (m : Match) (h : MatchOf c m) :
    matchPart (matchText m) = some m := by
  cases h with
  | single ha =>
    simp [matchPart, matchText, takeNum_numText_nil ha]
  | @range a b ta tb ha hb =>
    have h1 := takeNum_numText ha ('-' :: tb) (by simp; decide)
    simp [matchPart, matchText, h1, takeNum_numText_nil hb]
  | @stepped a b n ta tb tn m ha hb hn hm =>
    have hmd : isDigit m = false := by
      rcases hm with rfl | rfl | rfl <;> decide
    have h1 : takeNum (ta ++ '-' :: (tb ++ m :: tn)) = some (ta, '-' :: (tb ++ m :: tn)) :=
      takeNum_numText ha _ (by simp; decide)
    have h2 : takeNum (tb ++ m :: tn) = some (tb, m :: tn) :=
      takeNum_numText hb _ (by simpa using hmd)
    have hm' : m = ':' ∨ m = 'x' ∨ m = 'y' := by
      rcases hm with h | h | h <;> simp [h]
    simp only [matchText, List.append_assoc, List.cons_append]
    simp [matchPart, h1, h2, hm', takeNum_numText_nil hn]

theorem matchPart_sound (p : Bytes) (m : Match) (h : matchPart p = some m) :
    p = matchText m ∧ ∃ c, MatchOf c m := by
  unfold matchPart at h
  split at h
  · contradiction
  · rename_i a r1 h1
    obtain ⟨e1, na, hna⟩ := takeNum_sound h1
    split at h
    · injection h with h; subst h
      exact ⟨by simpa [matchText] using e1, _, .single hna⟩
    · rename_i r2
      split at h
      · contradiction
      · rename_i b r3 h2
        obtain ⟨e2, nb, hnb⟩ := takeNum_sound h2
        split at h
        · injection h with h; subst h
          exact ⟨by simp [matchText, e1, e2], _, .range hna hnb⟩
        · rename_i mm r4
          split at h
          · rename_i hm
            split at h
            · rename_i n h3
              obtain ⟨e3, nn, hnn⟩ := takeNum_sound h3
              injection h with h; subst h
              refine ⟨by simp [matchText, e1, e2, e3], _, .stepped hna hnb hnn ?_⟩
              rcases hm with h | h | h <;> simp [h]
            · contradiction
          · contradiction
    · contradiction

theorem numText_no_comma {n : Int} {t : Bytes} (h : NumText n t) : ',' ∉ t := by
  obtain ⟨neg, ds, -, hd, rfl, -⟩ := h
  intro hc
  rcases List.mem_append.1 hc with h | h
  · cases neg
    · simp at h
    · simp at h
  · exact digit_ne_comma (hd _ h) rfl

theorem matchText_no_comma (c : Comp) (m : Match) (h : MatchOf c m) : ',' ∉ matchText m := by
  cases h with
  | single ha => exact numText_no_comma ha
  | range ha hb =>
    have := numText_no_comma ha
    have := numText_no_comma hb
    simp [matchText, *]
  | @stepped a b n ta tb tn m ha hb hn hm =>
    have := numText_no_comma ha
    have := numText_no_comma hb
    have := numText_no_comma hn
    have : ',' ≠ m := by rcases hm with rfl | rfl | rfl <;> decide
    simp [matchText, *]


/-! ### splitOn / joinWith -/

theorem splitOn_ne_nil (sep : Char) (s : Bytes) : splitOn sep s ≠ [] := by
  cases s with
  | nil => simp [splitOn]
  | cons c cs =>
    unfold splitOn
    split
    · simp
    · split <;> simp

theorem splitOn_no_sep (sep : Char) (p : Bytes) (h : sep ∉ p) : splitOn sep p = [p] := by
  induction p with
  | nil => rfl
  | cons c p ih =>
    have hc : c ≠ sep := fun e => h (e ▸ List.mem_cons_self)
    have hp : sep ∉ p := fun e => h (List.mem_cons_of_mem _ e)
    simp [splitOn, ih hp, hc]

theorem splitOn_append_sep (sep : Char) (p rest : Bytes) (h : sep ∉ p) :
    splitOn sep (p ++ sep :: rest) = p :: splitOn sep rest := by
  induction p with
  | nil =>
    simp only [List.nil_append]
    rw [splitOn]
    split
    · rename_i he; exact absurd he (splitOn_ne_nil _ _)
    · rename_i q qs he; simp [he]
  | cons c p ih =>
    have hc : c ≠ sep := fun e => h (e ▸ List.mem_cons_self)
    have hp : sep ∉ p := fun e => h (List.mem_cons_of_mem _ e)
    simp [splitOn, ih hp, hc]

theorem splitOn_joinWith (parts : List Bytes) (hne : parts ≠ []) (h : ∀ p ∈ parts, ',' ∉ p) :
    splitOn ',' (joinWith ',' parts) = parts := by
  induction parts with
  | nil => contradiction
  | cons p ps ih =>
    cases ps with
    | nil => simpa [joinWith] using splitOn_no_sep ',' p (h p List.mem_cons_self)
    | cons q qs =>
      have hp := h p List.mem_cons_self
      have := ih (by simp) (fun x hx => h x (List.mem_cons_of_mem _ hx))
      rw [joinWith, splitOn_append_sep _ _ _ hp, this]
      simp

theorem joinWith_splitOn (s : Bytes) : joinWith ',' (splitOn ',' s) = s := by
  induction s with
  | nil => rfl
  | cons c cs ih =>
    rw [splitOn]
    split
    · rename_i he; exact absurd he (splitOn_ne_nil _ _)
    · rename_i p ps he
      rw [he] at ih
      split
      · rename_i hc
        subst hc
        rw [joinWith] 
        · simp [ih]
        · simp
      · cases ps with
        | nil => simp [joinWith] at ih ⊢; exact ih
        | cons q qs =>
          rw [joinWith] at ih ⊢
          · simp [← ih]
          · simp
          · simp

/-! ### frameRangeMatches -/

/-- the per-part step of `frameRangeMatches` -/
def partStep (p : Bytes) : Except Err Match :=
  match matchPart p with
  | some m => .ok m
  | none => .error .parse

theorem frameRangeMatches_eq (s : Bytes) :
    frameRangeMatches s = (splitOn ',' (stripJunk s)).mapM partStep := rfl

theorem partStep_ok {p : Bytes} {m : Match} : partStep p = .ok m ↔ matchPart p = some m := by
  unfold partStep
  split
  · rename_i m' he; simp [he]
  · rename_i he; simp [he]

theorem mapM_partStep_ok (parts : List Bytes) (ms : List Match) :
    parts.mapM partStep = .ok ms ↔ Forall2 (fun p m => matchPart p = some m) parts ms := by
  induction parts generalizing ms with
  | nil =>
    simp only [List.mapM_nil, pure, Except.pure]
    constructor
    · intro h; injection h with h; subst h; exact .nil
    · intro h; cases h; rfl
  | cons p ps ih =>
    rw [List.mapM_cons]
    constructor
    · intro h
      cases h1 : partStep p with
      | error e => rw [h1] at h; simp [bind, Except.bind] at h
      | ok m =>
        rw [h1] at h
        cases h2 : ps.mapM partStep with
        | error e => rw [h2] at h; simp [bind, Except.bind] at h
        | ok ms' =>
          rw [h2] at h
          simp [bind, Except.bind, pure, Except.pure] at h
          subst h
          exact .cons (partStep_ok.1 h1) ((ih ms').1 h2)
    · intro h
      cases h with
      | cons hp hps =>
        rw [partStep_ok.2 hp, (ih _).2 hps]
        rfl

theorem frameRangeMatches_complete (cs : List Comp) (parts : List Bytes) (txt : Bytes)
    (hne : cs ≠ []) (h : Forall2 CompText cs parts) (ht : stripJunk txt = joinWith ',' parts) :
    ∃ ms, frameRangeMatches txt = .ok ms ∧ Forall2 MatchOf cs ms := by
  have hparts : parts ≠ [] := by
    cases h with
    | nil => contradiction
    | cons _ _ => simp
  have hnc : ∀ p ∈ parts, ',' ∉ p := by
    clear hne hparts ht
    induction h with
    | nil => simp
    | cons hab _ ih =>
      intro p hp
      rcases List.mem_cons.1 hp with rfl | hp
      · obtain ⟨m, hm, rfl⟩ := hab
        exact matchText_no_comma _ _ hm
      · exact ih p hp
  have key : ∃ ms, Forall2 (fun p m => matchPart p = some m) parts ms ∧ Forall2 MatchOf cs ms := by
    clear hne hparts ht hnc
    induction h with
    | nil => exact ⟨[], .nil, .nil⟩
    | cons hab _ ih =>
      obtain ⟨ms, h1, h2⟩ := ih
      obtain ⟨m, hm, rfl⟩ := hab
      exact ⟨m :: ms, .cons (matchPart_complete _ _ hm) h1, .cons hm h2⟩
  obtain ⟨ms, h1, h2⟩ := key
  refine ⟨ms, ?_, h2⟩
  rw [frameRangeMatches_eq, ht, splitOn_joinWith parts hparts hnc]
  exact (mapM_partStep_ok _ _).2 h1

theorem frameRangeMatches_sound (txt : Bytes) (ms : List Match) (h : frameRangeMatches txt = .ok ms) :
    ∃ cs, cs ≠ [] ∧ RangeText cs txt ∧ Forall2 MatchOf cs ms := by
  rw [frameRangeMatches_eq] at h
  have h1 := (mapM_partStep_ok _ _).1 h
  have key : ∀ (parts : List Bytes) (ms : List Match),
      Forall2 (fun p m => matchPart p = some m) parts ms →
      ∃ cs, (parts ≠ [] → cs ≠ []) ∧ Forall2 CompText cs parts ∧ Forall2 MatchOf cs ms := by
    intro parts ms hf
    induction hf with
    | nil => exact ⟨[], fun h => absurd rfl h, .nil, .nil⟩
    | cons hab _ ih =>
      obtain ⟨cs, -, h2, h3⟩ := ih
      obtain ⟨e, c, hc⟩ := matchPart_sound _ _ hab
      exact ⟨c :: cs, fun _ => by simp, .cons ⟨_, hc, e⟩ h2, .cons hc h3⟩
  obtain ⟨cs, hne, h2, h3⟩ := key _ _ h1
  exact ⟨cs, hne (splitOn_ne_nil _ _), ⟨_, h2, (joinWith_splitOn _).symm⟩, h3⟩

end Gfs.Proofs
