/-
  GfsProofs.ListOrder — C05, last clause: when the files of each (dir, basename, extension) key
  share one digit width, the result of FindSequencesInList — as a set of sequences — does not
  depend on the order of the input list.

  Route: an invariant of the scan that describes every bucket extensionally (its frames are the
  tokens of the items of its key, in arrival order; one width), so two scans of permuted inputs
  have, key by key, buckets whose frame lists are permutations of each other; on such buckets
  `bucketSeqs` gives the same sequences (ListOrderAux).
-/
import GfsModel.ListSeqs
import GfsProofs.ListScan
import GfsProofs.ListGroup
import GfsProofs.ListOrderAux

namespace Gfs.Proofs
namespace Order
open Gfs Gfs.Proofs.ListAux

abbrev Key := Bytes × Bytes × Bytes

def mkFI (tok : Bytes) : FrameInfo := ⟨tok, atoiOr0 tok, frameMinSize tok⟩
def bkey (b : SeqInfo) : Key := (b.dir, b.base, b.ext)
def ikey (it : FileItem) : Key := (it.dir, (parts it).1, (parts it).2.2)
def itok (it : FileItem) : Bytes := (parts it).2.1
def bucketable (o : ListOpts) (it : FileItem) : Bool := !hiddenSkip o it && itemOk it

/-- the frame tokens of the items of one key, in list order -/
def toksFor (o : ListOpts) (k : Key) (items : List FileItem) : List Bytes :=
  (items.filter fun it => bucketable o it && decide (ikey it = k)).map itok

/-- every key has one digit width -/
def Uniform (o : ListOpts) (items : List FileItem) : Prop :=
  ∀ it ∈ items, ∀ it' ∈ items, bucketable o it = true → bucketable o it' = true →
    ikey it = ikey it' → (itok it).length = (itok it').length

theorem toksFor_snoc (o : ListOpts) (k : Key) (pre : List FileItem) (it : FileItem) :
    toksFor o k (pre ++ [it]) =
      toksFor o k pre ++ (if bucketable o it = true ∧ ikey it = k then [itok it] else []) := by
  unfold toksFor
  rw [List.filter_append, List.map_append]
  congr 1
  by_cases h : bucketable o it = true ∧ ikey it = k
  · simp [List.filter, h.1, h.2]
  · rw [if_neg h]
    have : (bucketable o it && decide (ikey it = k)) = false := by
      cases hb : bucketable o it
      · simp
      · have : ¬ ikey it = k := fun hk => h ⟨hb, hk⟩
        simp [this]
    simp [List.filter, this]

theorem mem_toksFor {o : ListOpts} {k : Key} {items : List FileItem} {t : Bytes}
    (h : t ∈ toksFor o k items) :
    ∃ it ∈ items, bucketable o it = true ∧ ikey it = k ∧ itok it = t := by
  unfold toksFor at h
  obtain ⟨it, hit, rfl⟩ := List.mem_map.1 h
  obtain ⟨hm, hp⟩ := List.mem_filter.1 hit
  simp only [Bool.and_eq_true, decide_eq_true_eq] at hp
  exact ⟨it, hm, hp.1, hp.2, rfl⟩

/-- what the scan keeps true of one bucket after the items `pre` -/
structure BInv (o : ListOpts) (pre : List FileItem) (b : SeqInfo) : Prop where
  frames : b.frames = (toksFor o (bkey b) pre).map mkFI
  ne : b.frames ≠ []
  width : ∀ f ∈ b.frames, f.frame.length = b.minWidth
  pad : b.padding = padChars o.style b.minWidth

/-- … and of the bucket list -/
structure Inv (o : ListOpts) (pre : List FileItem) (bs : List SeqInfo) : Prop where
  nodup : (bs.map bkey).Nodup
  each : ∀ b ∈ bs, BInv o pre b
  cover : ∀ it ∈ pre, bucketable o it = true → ∃ b ∈ bs, bkey b = ikey it

theorem inv_nil (o : ListOpts) : Inv o [] [] where
  nodup := by simp
  each := fun b hb => by cases hb
  cover := fun it hit => by cases hit

/-- keys after adding a frame -/
theorem addFrame_keys (st : PadStyle) (d b e t : Bytes) : ∀ bs : List SeqInfo,
    (addFrame st d b e t bs).map bkey =
      if (d, b, e) ∈ bs.map bkey then bs.map bkey else bs.map bkey ++ [(d, b, e)]
  | [] => by simp [addFrame, bkey]
  | x :: xs => by
    unfold addFrame
    by_cases hx : x.dir = d ∧ x.base = b ∧ x.ext = e
    · rw [if_pos hx]
      have hk : bkey x = (d, b, e) := by simp [bkey, hx.1, hx.2.1, hx.2.2]
      have : (d, b, e) ∈ (x :: xs).map bkey := by simp [hk]
      rw [if_pos this]
      by_cases hl : t.length < x.minWidth
      · simp [hl, bkey]
      · simp [hl, bkey]
    · rw [if_neg hx]
      have hk : bkey x ≠ (d, b, e) := by
        intro h
        apply hx
        simp only [bkey, Prod.mk.injEq] at h
        exact h
      rw [List.map_cons, addFrame_keys st d b e t xs]
      by_cases hm : (d, b, e) ∈ xs.map bkey
      · have : (d, b, e) ∈ (x :: xs).map bkey := by simp [hm]
        rw [if_pos hm, if_pos this, List.map_cons]
      · have : (d, b, e) ∉ (x :: xs).map bkey := by
          simp only [List.map_cons, List.mem_cons, not_or]
          exact ⟨fun h => hk h.symm, hm⟩
        rw [if_neg hm, if_neg this, List.map_cons, List.cons_append]

/-- the buckets after adding a frame (distinct keys): the one with the key gets the token appended,
    the others are unchanged; without such a bucket a new one is appended -/
theorem addFrame_mem (st : PadStyle) (d b e t : Bytes) : ∀ (bs : List SeqInfo) (x : SeqInfo),
    (bs.map bkey).Nodup → x ∈ addFrame st d b e t bs →
      (x ∈ bs ∧ bkey x ≠ (d, b, e)) ∨
      (∃ y ∈ bs, bkey y = (d, b, e) ∧ x.dir = y.dir ∧ x.base = y.base ∧ x.ext = y.ext ∧
          x.frames = y.frames ++ [mkFI t] ∧
          x.minWidth = (if t.length < y.minWidth then t.length else y.minWidth) ∧
          x.padding = (if t.length < y.minWidth then padChars st t.length else y.padding)) ∨
      ((d, b, e) ∉ bs.map bkey ∧ x.dir = d ∧ x.base = b ∧ x.ext = e ∧ x.frames = [mkFI t] ∧
          x.minWidth = t.length ∧ x.padding = padChars st t.length)
  | [], x, _, h => by
    simp only [addFrame, List.mem_singleton] at h
    subst h
    exact Or.inr (Or.inr ⟨by simp, rfl, rfl, rfl, rfl, rfl, rfl⟩)
  | y :: ys, x, hnd, h => by
    have hnd' : bkey y ∉ ys.map bkey ∧ (ys.map bkey).Nodup := List.nodup_cons.1 hnd
    unfold addFrame at h
    by_cases hy : y.dir = d ∧ y.base = b ∧ y.ext = e
    · rw [if_pos hy] at h
      have hk : bkey y = (d, b, e) := by simp [bkey, hy.1, hy.2.1, hy.2.2]
      rcases List.mem_cons.1 h with hx | hx
      · refine Or.inr (Or.inl ⟨y, List.mem_cons_self, hk, ?_⟩)
        subst hx
        by_cases hl : t.length < y.minWidth <;> simp [hl, mkFI]
      · have hkx : bkey x ≠ (d, b, e) := by
          intro hh
          apply hnd'.1
          rw [hk, ← hh]
          exact List.mem_map.2 ⟨x, hx, rfl⟩
        exact Or.inl ⟨List.mem_cons_of_mem _ hx, hkx⟩
    · rw [if_neg hy] at h
      have hk : bkey y ≠ (d, b, e) := by
        intro hh
        apply hy
        simp only [bkey, Prod.mk.injEq] at hh
        exact hh
      rcases List.mem_cons.1 h with hx | hx
      · subst hx
        exact Or.inl ⟨List.mem_cons_self, hk⟩
      · rcases addFrame_mem st d b e t ys x hnd'.2 hx with h1 | h2 | h3
        · exact Or.inl ⟨List.mem_cons_of_mem _ h1.1, h1.2⟩
        · obtain ⟨z, hz, rest⟩ := h2
          exact Or.inr (Or.inl ⟨z, List.mem_cons_of_mem _ hz, rest⟩)
        · refine Or.inr (Or.inr ⟨?_, h3.2⟩)
          simp only [List.map_cons, List.mem_cons, not_or]
          exact ⟨fun hh => hk hh.symm, h3.1⟩

theorem mkFI_frame (t : Bytes) : (mkFI t).frame = t := rfl

theorem bkey_eq_of_fields {x y : SeqInfo} (h1 : x.dir = y.dir) (h2 : x.base = y.base) (h3 : x.ext = y.ext) :
    bkey x = bkey y := by simp [bkey, h1, h2, h3]

/-- one step of the scan keeps the invariant -/
theorem addFrame_inv (o : ListOpts) (pre : List FileItem) (bs : List SeqInfo) (it : FileItem)
    (hI : Inv o pre bs) (hb : bucketable o it = true) (hU : Uniform o (pre ++ [it])) :
    Inv o (pre ++ [it]) (addFrame o.style it.dir (parts it).1 (parts it).2.2 (itok it) bs) := by
  have hkeys := addFrame_keys o.style it.dir (parts it).1 (parts it).2.2 (itok it) bs
  have hk : ikey it = (it.dir, (parts it).1, (parts it).2.2) := rfl
  -- tokens already seen for this key have the new token's width
  have hwidth : ∀ t0 ∈ toksFor o (ikey it) pre, t0.length = (itok it).length := by
    intro t0 ht0
    obtain ⟨it0, hm0, hb0, hk0, rfl⟩ := mem_toksFor ht0
    exact hU it0 (List.mem_append.2 (Or.inl hm0)) it (List.mem_append.2 (Or.inr (List.mem_singleton.2 rfl)))
      hb0 hb hk0
  refine ⟨?_, ?_, ?_⟩
  · -- distinct keys
    rw [hkeys]
    split
    · exact hI.nodup
    · rename_i hnot
      exact List.nodup_append.2 ⟨hI.nodup, by simp, by
        intro a ha b' hb'
        rw [List.mem_singleton.1 hb']
        intro hab; exact hnot (hab ▸ ha)⟩
  · -- every bucket
    intro x hx
    rcases addFrame_mem o.style it.dir (parts it).1 (parts it).2.2 (itok it) bs x hI.nodup hx with h1 | h2 | h3
    · obtain ⟨hxm, hne⟩ := h1
      have hB := hI.each x hxm
      have hkne : ¬ (bucketable o it = true ∧ ikey it = bkey x) := fun hh => hne (hh.2 ▸ hk ▸ rfl)
      exact ⟨by rw [toksFor_snoc, if_neg hkne, List.append_nil]; exact hB.frames, hB.ne, hB.width, hB.pad⟩
    · obtain ⟨y, hym, hyk, hd, hbse, he, hfr, hmw, hpd⟩ := h2
      have hB := hI.each y hym
      have hxk : bkey x = ikey it := by rw [bkey_eq_of_fields hd hbse he, hyk]; rfl
      have hyk' : bkey y = ikey it := hyk
      -- the new token has the bucket's width
      have hw : (itok it).length = y.minWidth := by
        cases hyf : y.frames with
        | nil => exact absurd hyf hB.ne
        | cons f fs =>
          have hfm : f ∈ y.frames := by rw [hyf]; exact List.mem_cons_self
          have hfw := hB.width f hfm
          have : f ∈ (toksFor o (bkey y) pre).map mkFI := by rw [← hB.frames]; exact hfm
          obtain ⟨t0, ht0, rfl⟩ := List.mem_map.1 this
          rw [hyk'] at ht0
          have := hwidth t0 ht0
          rw [mkFI_frame] at hfw
          omega
      have hnl : ¬ (itok it).length < y.minWidth := by omega
      rw [if_neg hnl] at hmw hpd
      refine ⟨?_, ?_, ?_, ?_⟩
      · rw [hxk, toksFor_snoc, if_pos ⟨hb, rfl⟩, List.map_append, hfr, hB.frames, hyk']
        rfl
      · rw [hfr]; simp
      · intro f hf
        rw [hfr] at hf
        rcases List.mem_append.1 hf with hf | hf
        · rw [hmw]; exact hB.width f hf
        · rw [List.mem_singleton.1 hf, mkFI_frame, hmw]; exact hw
      · rw [hpd, hmw]; exact hB.pad
    · obtain ⟨hnk, hd, hbse, he, hfr, hmw, hpd⟩ := h3
      have hxk : bkey x = ikey it := by simp [bkey, hd, hbse, he, ikey]
      have hnone : toksFor o (ikey it) pre = [] := by
        cases hT : toksFor o (ikey it) pre with
        | nil => rfl
        | cons t0 ts =>
          exfalso
          have : t0 ∈ toksFor o (ikey it) pre := by rw [hT]; exact List.mem_cons_self
          obtain ⟨it0, hm0, hb0, hk0, _⟩ := mem_toksFor this
          obtain ⟨b0, hb0m, hb0k⟩ := hI.cover it0 hm0 hb0
          apply hnk
          rw [← hk, ← hk0, ← hb0k]
          exact List.mem_map.2 ⟨b0, hb0m, rfl⟩
      refine ⟨?_, ?_, ?_, ?_⟩
      · rw [hxk, toksFor_snoc, if_pos ⟨hb, rfl⟩, hnone, hfr]; rfl
      · rw [hfr]; simp
      · intro f hf
        rw [hfr] at hf
        rw [List.mem_singleton.1 hf, mkFI_frame, hmw]
      · rw [hpd, hmw]
  · -- every bucketable item has its bucket
    intro it' hit' hb'
    have hsub : ∀ k, k ∈ bs.map bkey → k ∈ (addFrame o.style it.dir (parts it).1 (parts it).2.2 (itok it) bs).map bkey := by
      intro k hkm
      rw [hkeys]
      split
      · exact hkm
      · exact List.mem_append.2 (Or.inl hkm)
    rcases List.mem_append.1 hit' with hp | hp
    · obtain ⟨b0, hb0m, hb0k⟩ := hI.cover it' hp hb'
      obtain ⟨x, hxm, hxk⟩ := List.mem_map.1 (hsub _ (List.mem_map.2 ⟨b0, hb0m, rfl⟩))
      exact ⟨x, hxm, hxk.trans hb0k⟩
    · rw [List.mem_singleton.1 hp]
      have : ikey it ∈ (addFrame o.style it.dir (parts it).1 (parts it).2.2 (itok it) bs).map bkey := by
        rw [hkeys, ← hk]
        split
        · assumption
        · exact List.mem_append.2 (Or.inr (List.mem_singleton.2 rfl))
      obtain ⟨x, hxm, hxk⟩ := List.mem_map.1 this
      exact ⟨x, hxm, hxk⟩

theorem uniform_subset (o : ListOpts) {l l' : List FileItem} (h : ∀ x ∈ l', x ∈ l) (hU : Uniform o l) :
    Uniform o l' :=
  fun a ha b hb => hU a (h a ha) b (h b hb)

/-- an item that does not go to a bucket leaves the invariant alone -/
theorem inv_skip (o : ListOpts) (pre : List FileItem) (bs : List SeqInfo) (it : FileItem)
    (hI : Inv o pre bs) (hb : bucketable o it = false) : Inv o (pre ++ [it]) bs := by
  refine ⟨hI.nodup, ?_, ?_⟩
  · intro x hx
    have hB := hI.each x hx
    have : ¬ (bucketable o it = true ∧ ikey it = bkey x) := by simp [hb]
    exact ⟨by rw [toksFor_snoc, if_neg this, List.append_nil]; exact hB.frames, hB.ne, hB.width, hB.pad⟩
  · intro it' hit' hb'
    rcases List.mem_append.1 hit' with hp | hp
    · exact hI.cover it' hp hb'
    · rw [List.mem_singleton.1 hp, hb] at hb'; cases hb'

/-- the single-file entries of a list of items -/
def singlesOf (o : ListOpts) (items : List FileItem) : List Seq :=
  (items.filter fun it => !hiddenSkip o it && !itemOk it).map (itemSeq o.style)

theorem singlesOf_cons (o : ListOpts) (it : FileItem) (rest : List FileItem) :
    singlesOf o (it :: rest) =
      (if !hiddenSkip o it && !itemOk it then [itemSeq o.style it] else []) ++ singlesOf o rest := by
  unfold singlesOf
  by_cases h : (!hiddenSkip o it && !itemOk it) = true
  · simp [List.filter, h]
  · simp [List.filter, h]

/-- the whole scan: it never fails, keeps the invariant, and the single files are the items
    that are neither hidden-and-skipped nor bucketed, in list order -/
theorem scan_inv (o : ListOpts) : ∀ (items pre : List FileItem) (bs : List SeqInfo) (files : List Seq),
    Inv o pre bs → Uniform o (pre ++ items) →
    ∃ bs', scanItems o none items bs files =
        .ok (bs', files ++ (if o.single then singlesOf o items else [])) ∧ Inv o (pre ++ items) bs'
  | [], pre, bs, files, hI, _ => by
    refine ⟨bs, ?_, by simpa using hI⟩
    rw [scan_nil]
    cases o.single <;> simp [singlesOf]
  | it :: rest, pre, bs, files, hI, hU => by
    have hU' : Uniform o ((pre ++ [it]) ++ rest) := by simpa [List.append_assoc] using hU
    have hUp : Uniform o (pre ++ [it]) :=
      uniform_subset o (fun x hx => by
        rcases List.mem_append.1 hx with h | h
        · exact List.mem_append.2 (Or.inl h)
        · exact List.mem_append.2 (Or.inr (by rw [List.mem_singleton.1 h]; exact List.mem_cons_self))) hU
    rw [scan_step]
    by_cases hsk : hiddenSkip o it = true
    · rw [if_pos hsk]
      have hb : bucketable o it = false := by simp [bucketable, hsk]
      obtain ⟨bs', hs, hI'⟩ := scan_inv o rest (pre ++ [it]) bs files (inv_skip o pre bs it hI hb) hU'
      refine ⟨bs', ?_, by simpa [List.append_assoc] using hI'⟩
      rw [hs, singlesOf_cons]
      simp [hsk]
    · rw [if_neg hsk]
      have hsk' : hiddenSkip o it = false := by simpa using hsk
      by_cases hok : itemOk it = true
      · rw [if_pos hok]
        have hb : bucketable o it = true := by simp [bucketable, hsk', hok]
        obtain ⟨bs', hs, hI'⟩ := scan_inv o rest (pre ++ [it]) _ files (addFrame_inv o pre bs it hI hb hUp) hU'
        refine ⟨bs', ?_, by simpa [List.append_assoc] using hI'⟩
        rw [show (parts it).2.1 = itok it from rfl, hs, singlesOf_cons]
        simp [hok]
      · rw [if_neg hok]
        have hok' : itemOk it = false := by simpa using hok
        have hb : bucketable o it = false := by simp [bucketable, hok']
        by_cases hsg : o.single = true
        · rw [if_pos hsg]
          obtain ⟨bs', hs, hI'⟩ := scan_inv o rest (pre ++ [it]) bs (files ++ [itemSeq o.style it])
            (inv_skip o pre bs it hI hb) hU'
          refine ⟨bs', ?_, by simpa [List.append_assoc] using hI'⟩
          rw [hs, singlesOf_cons]
          simp [hsg, hsk', hok']
        · rw [if_neg hsg]
          obtain ⟨bs', hs, hI'⟩ := scan_inv o rest (pre ++ [it]) bs files (inv_skip o pre bs it hI hb) hU'
          refine ⟨bs', ?_, by simpa [List.append_assoc] using hI'⟩
          rw [hs]
          simp [hsg]

/-! ### equivalent buckets give the same sequences -/

theorem f2r_congr {l l' : List Int} (h : l.Perm l') (z : Int) :
    framesToFrameRange l true z = framesToFrameRange l' true z := by
  match l, l', h with
  | [], l', h => rw [h.nil_eq]
  | [a], l', h => rw [(List.singleton_perm.1 h)]
  | a :: b :: r, [], h => exact absurd h.symm.nil_eq (by simp)
  | a :: b :: r, [c], h => exact absurd (List.perm_singleton.1 h) (by simp)
  | a :: b :: r, a' :: b' :: r', h =>
    show joinWith ',' ((groups (sortInts (a :: b :: r))).map (renderGroup z)) =
         joinWith ',' ((groups (sortInts (a' :: b' :: r'))).map (renderGroup z))
    rw [sortInts_congr h]

/-- a bucket of two or more frames of one width is one sequence, built from the components -/
theorem bucketSeqs_uniform (st : PadStyle) (b : SeqInfo) (w : Nat) (hlen : 2 ≤ b.frames.length)
    (hw : ∀ f ∈ b.frames, f.frame.length = w) :
    bucketSeqs st b =
      [rebuild st b.dir b.base (framesToFrameRange (b.frames.map (·.num)) true 0) (padChars st w) b.ext] := by
  rw [ListAux.bucketSeqs_multi st b hlen, sortByWidth_uniform b.frames w hw]
  cases hf : b.frames with
  | nil => rw [hf] at hlen; simp at hlen
  | cons f1 r1 =>
    have hh : (((f1 :: r1).head?.map (·.frame.length)).getD 0) = w := by
      simp; exact hw f1 (by rw [hf]; exact List.mem_cons_self)
    rw [hh, regroup_uniform w (f1 :: r1) [] [] (by rw [← hf]; exact hw)]
    simp

theorem bucketSeqs_equiv (st : PadStyle) (b b' : SeqInfo) (w : Nat)
    (hd : b.dir = b'.dir) (hb : b.base = b'.base) (he : b.ext = b'.ext) (hp : b.padding = b'.padding)
    (hperm : b.frames.Perm b'.frames) (hw : ∀ f ∈ b.frames, f.frame.length = w) :
    bucketSeqs st b = bucketSeqs st b' := by
  have hw' : ∀ f ∈ b'.frames, f.frame.length = w := fun f hf => hw f (hperm.mem_iff.2 hf)
  cases hf : b.frames with
  | nil =>
    have hf' : b'.frames = [] := by rw [hf] at hperm; exact hperm.nil_eq.symm ▸ rfl
    unfold bucketSeqs; rw [hf, hf']
  | cons f1 r1 =>
    cases r1 with
    | nil =>
      have hf' : b'.frames = [f1] := by rw [hf] at hperm; exact (List.singleton_perm.1 hperm).symm
      unfold bucketSeqs; rw [hf, hf', hd, hb, he, hp]
    | cons f2 r2 =>
      have hlen : 2 ≤ b.frames.length := by rw [hf]; simp
      have hlen' : 2 ≤ b'.frames.length := by rw [← hperm.length_eq]; exact hlen
      rw [bucketSeqs_multi st b hlen, bucketSeqs_multi st b' hlen',
        sortByWidth_uniform b.frames w hw, sortByWidth_uniform b'.frames w hw']
      have hh : (b.frames.head?.map (·.frame.length)).getD 0 = w := by
        rw [hf]; simp; exact hw f1 (by rw [hf]; exact List.mem_cons_self)
      have hh' : (b'.frames.head?.map (·.frame.length)).getD 0 = w := by
        cases hf' : b'.frames with
        | nil => rw [hf'] at hlen'; simp at hlen'
        | cons g gs => simp; exact hw' g (by rw [hf']; exact List.mem_cons_self)
      rw [hh, hh', regroup_uniform w b.frames [] [] hw, regroup_uniform w b'.frames [] [] hw']
      have hne : (([] : List Int) ++ b.frames.map (·.num)).isEmpty = false := by rw [hf]; rfl
      have hne' : (([] : List Int) ++ b'.frames.map (·.num)).isEmpty = false := by
        cases hf' : b'.frames with
        | nil => rw [hf'] at hlen'; simp at hlen'
        | cons g gs => rfl
      rw [if_neg (by rw [hne]; simp), if_neg (by rw [hne']; simp)]
      simp only [List.nil_append, List.map_cons, List.map_nil]
      rw [f2r_congr (hperm.map (·.num)) 0, hd, hb, he]

/-! ### the result does not depend on the order of the list -/

theorem toksFor_perm (o : ListOpts) (k : Key) {l l' : List FileItem} (h : l.Perm l') :
    (toksFor o k l).Perm (toksFor o k l') := (h.filter _).map _

theorem singlesOf_mem_perm (o : ListOpts) {l l' : List FileItem} (h : l.Perm l') (s : Seq) :
    s ∈ singlesOf o l ↔ s ∈ singlesOf o l' := ((h.filter _).map _).mem_iff

/-- one direction: every sequence of a bucket of the first scan is produced by the second -/
theorem bucket_transfer (o : ListOpts) (items items' : List FileItem) (hperm : items.Perm items')
    (bs bs' : List SeqInfo) (hI : Inv o items bs) (hI' : Inv o items' bs')
    (b : SeqInfo) (hb : b ∈ bs) :
    ∃ b' ∈ bs', bucketSeqs o.style b' = bucketSeqs o.style b := by
  have hB := hI.each b hb
  -- an item of this key
  cases hfr : b.frames with
  | nil => exact absurd hfr hB.ne
  | cons f fs =>
    have hfm : f ∈ b.frames := by rw [hfr]; exact List.mem_cons_self
    have hfm2 : f ∈ (toksFor o (bkey b) items).map mkFI := by rw [← hB.frames]; exact hfm
    obtain ⟨t0, ht0, hft0⟩ := List.mem_map.1 hfm2
    obtain ⟨it0, hm0, hb0, hk0, htk0⟩ := mem_toksFor ht0
    obtain ⟨b', hb'm, hb'k⟩ := hI'.cover it0 (hperm.mem_iff.1 hm0) hb0
    have hkk : bkey b' = bkey b := hb'k.trans hk0
    have hB' := hI'.each b' hb'm
    have hpermF : b'.frames.Perm b.frames := by
      rw [hB'.frames, hB.frames, hkk]
      exact ((toksFor_perm o (bkey b) hperm).symm).map mkFI
    -- one width on both sides
    have hwb : t0.length = b.minWidth := by
      have := hB.width f hfm
      rw [← hft0, mkFI_frame] at this
      exact this
    have hwb' : t0.length = b'.minWidth := by
      have hf' : f ∈ b'.frames := hpermF.mem_iff.2 hfm
      have := hB'.width f hf'
      rw [← hft0, mkFI_frame] at this
      exact this
    have hmw : b'.minWidth = b.minWidth := by omega
    simp only [bkey, Prod.mk.injEq] at hkk
    refine ⟨b', hb'm, bucketSeqs_equiv o.style b' b b'.minWidth hkk.1 hkk.2.1 hkk.2.2 ?_ hpermF hB'.width⟩
    rw [hB'.pad, hB.pad, hmw]

theorem findInItems_eq (o : ListOpts) (items : List FileItem) (bs : List SeqInfo)
    (hs : scanItems o none items [] [] = .ok (bs, [] ++ (if o.single then singlesOf o items else []))) :
    findInItems items o none =
      .ok ((bs.map (bucketSeqs o.style)).flatten ++ (if o.single then singlesOf o items else [])) := by
  unfold findInItems
  rw [hs]
  cases o.single <;> simp [bind, Except.bind, pure, Except.pure]

/-- C05, order clause, on items: for a list in which every (dir, basename, extension) key has one
    digit width, any permutation gives the same SET of sequences (and never an error). -/
theorem findInItems_order (o : ListOpts) (items items' : List FileItem) (hperm : items.Perm items')
    (hU : Uniform o items) :
    ∃ r r', findInItems items o none = .ok r ∧ findInItems items' o none = .ok r' ∧
      ∀ s, s ∈ r ↔ s ∈ r' := by
  have hU' : Uniform o items' := uniform_subset o (fun x hx => hperm.mem_iff.2 hx) hU
  obtain ⟨bs, hs, hI⟩ := scan_inv o items [] [] [] (inv_nil o) (by simpa using hU)
  obtain ⟨bs', hs', hI'⟩ := scan_inv o items' [] [] [] (inv_nil o) (by simpa using hU')
  simp only [List.nil_append] at hI hI'
  refine ⟨_, _, findInItems_eq o items bs hs, findInItems_eq o items' bs' hs', ?_⟩
  intro s
  simp only [List.mem_append, List.mem_flatten, List.mem_map]
  constructor
  · rintro (⟨l, ⟨b, hb, rfl⟩, hsl⟩ | hsing)
    · obtain ⟨b', hb', heq⟩ := bucket_transfer o items items' hperm bs bs' hI hI' b hb
      exact Or.inl ⟨_, ⟨b', hb', rfl⟩, heq ▸ hsl⟩
    · right
      cases hsg : o.single with
      | false => simp [hsg] at hsing
      | true => simp only [hsg, if_true] at hsing ⊢; exact (singlesOf_mem_perm o hperm s).1 hsing
  · rintro (⟨l, ⟨b, hb, rfl⟩, hsl⟩ | hsing)
    · obtain ⟨b', hb', heq⟩ := bucket_transfer o items' items hperm.symm bs' bs hI' hI b hb
      exact Or.inl ⟨_, ⟨b', hb', rfl⟩, heq ▸ hsl⟩
    · right
      cases hsg : o.single with
      | false => simp [hsg] at hsing
      | true => simp only [hsg, if_true] at hsing ⊢; exact (singlesOf_mem_perm o hperm s).2 hsing

end Order
end Gfs.Proofs
