/-
  GfsProofs.ListViews — facts about the list views `valueAt` / `idxOf` of a duplicate-free list.
-/
import GfsSpec.Enum
import GfsSpec.WF

namespace Gfs.Proofs
open Gfs Gfs.Spec

/-- in a duplicate-free list the first position of the `k`-th element is `k` -/
theorem idxOf?_getElem_nodup (L : List Int) (hnd : L.Nodup) (k : Nat) (hk : k < L.length) :
    L.idxOf? L[k] = some k := by
  rw [List.idxOf?_eq_some_iff]
  refine ⟨hk, rfl, ?_⟩
  intro j hj heq
  have hjl : j < L.length := Nat.lt_trans hj hk
  exact (List.pairwise_iff_getElem.mp hnd) j k hjl hk hj heq

/-- a member has a first position, below the length, holding the member -/
theorem idxOf?_of_mem (L : List Int) (v : Int) (hv : v ∈ L) :
    ∃ k, ∃ hk : k < L.length, L.idxOf? v = some k ∧ L[k] = v := by
  cases h : L.idxOf? v with
  | none => exact absurd hv (List.idxOf?_eq_none_iff.mp h)
  | some k =>
    obtain ⟨hk, hget, _⟩ := List.idxOf?_eq_some_iff.mp h
    exact ⟨k, hk, rfl, hget⟩

/-- For a duplicate-free list, `valueAt` and `idxOf` are inverse bijections between
    [0,len) and the members. Stated for arbitrary accessor functions that agree with the
    list views, so that it applies to any container proved to be a view of `L`. -/
theorem views_bijection (L : List Int) (hnd : L.Nodup)
    (len : Int) (hlen : len = L.length)
    (value : Int → Except Err Int) (hval : ∀ i, value i = valueAt L i)
    (index : Int → Int) (hidx : ∀ v, index v = idxOf L v)
    (has : Int → Bool) (hhas : ∀ v, has v = true ↔ v ∈ L) :
    (∀ i, 0 ≤ i → i < len → ∃ v, value i = .ok v ∧ index v = i) ∧
    (∀ v, has v = true → 0 ≤ index v ∧ index v < len ∧ value (index v) = .ok v) := by
  subst hlen
  constructor
  · intro i h0 hi
    obtain ⟨k, rfl⟩ := Int.eq_ofNat_of_zero_le h0
    have hk : k < L.length := by omega
    refine ⟨L[k], ?_, ?_⟩
    · rw [hval]
      unfold valueAt
      rw [if_pos ⟨h0, hi⟩]
      simp [List.getD_eq_getElem?_getD, List.getElem?_eq_getElem hk]
    · rw [hidx]
      unfold idxOf
      rw [idxOf?_getElem_nodup L hnd k hk]
  · intro v hv
    obtain ⟨k, hk, hik, hget⟩ := idxOf?_of_mem L v ((hhas v).mp hv)
    have hi : index v = (k : Int) := by
      rw [hidx]; unfold idxOf; rw [hik]
    rw [hi]
    refine ⟨by omega, by omega, ?_⟩
    rw [hval]
    unfold valueAt
    rw [if_pos ⟨by omega, by omega⟩]
    simp [List.getD_eq_getElem?_getD, List.getElem?_eq_getElem hk, hget]

end Gfs.Proofs
