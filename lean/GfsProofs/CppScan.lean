/-
  GfsProofs.CppScan — the port's two-pass directory scan (Cpp.scan) computes what the Go scan
  (scanDir / findInItems) computes, on the directories of C19: every bucket has two or more
  frames of one digit width, every other kept name is a frame-less file.

  The proof is a simulation: the two first passes keep bucket lists that are related entry by
  entry (`BRel`), the Go buckets keep `padding = padChars minWidth` with `minWidth` attained
  (`PInv`), and the second passes agree bucket by bucket (`cpp_bucketSeq_eq`,
  `Order.bucketSeqs_uniform`).
-/
import GfsProofs.CppLemmas
import GfsProofs.ListOrder

namespace Gfs.Proofs.CppScan
open Gfs Gfs.Spec Gfs.Proofs

/-- a Go bucket and a port bucket hold the same thing -/
def BRel (root : Bytes) (g : SeqInfo) (c : Cpp.CInfo) : Prop :=
  g.dir = root ∧ g.base = c.base ∧ g.ext = c.ext ∧ g.frames.map (·.num) = c.frames ∧
  g.minWidth = c.minWidth ∧ g.padding = c.padding

/-- the pad characters of a bucket are those of its minimum width, which one frame has -/
def PInv (st : PadStyle) (g : SeqInfo) : Prop :=
  g.padding = padChars st g.minWidth ∧ ∃ f ∈ g.frames, f.frame.length = g.minWidth

theorem addFrame_rel (st : PadStyle) (root base ext frame : Bytes) :
    ∀ (gs : List SeqInfo) (cs : List Cpp.CInfo), Forall2 (BRel root) gs cs →
      Forall2 (BRel root) (addFrame st root base ext frame gs) (Cpp.addFrame st base ext frame cs)
  | _, _, .nil => by
    simp only [addFrame, Cpp.addFrame]
    exact .cons ⟨rfl, rfl, rfl, rfl, rfl, rfl⟩ .nil
  | g :: gs, c :: cs, .cons hr hrest => by
    obtain ⟨hd, hb, he, hf, hm, hp⟩ := hr
    unfold addFrame Cpp.addFrame
    by_cases hk : c.base = base ∧ c.ext = ext
    · have hk' : g.dir = root ∧ g.base = base ∧ g.ext = ext := ⟨hd, hb ▸ hk.1, he ▸ hk.2⟩
      rw [if_pos hk, if_pos hk']
      refine .cons ?_ hrest
      by_cases hl : frame.length < c.minWidth
      · have hl' : frame.length < g.minWidth := hm ▸ hl
        simp only [hl, hl', if_true]
        exact ⟨hd, hb, he, by simp [hf, Cpp.num, atoiOr0], rfl, rfl⟩
      · have hl' : ¬ frame.length < g.minWidth := hm ▸ hl
        simp only [hl, hl', if_false]
        exact ⟨hd, hb, he, by simp [hf, Cpp.num, atoiOr0], hm, hp⟩
    · have hk' : ¬ (g.dir = root ∧ g.base = base ∧ g.ext = ext) := by
        intro h; exact hk ⟨hb ▸ h.2.1, he ▸ h.2.2⟩
      rw [if_neg hk, if_neg hk']
      exact .cons ⟨hd, hb, he, hf, hm, hp⟩ (addFrame_rel st root base ext frame gs cs hrest)

theorem addFrame_pinv (st : PadStyle) (d base ext frame : Bytes) :
    ∀ gs : List SeqInfo, (∀ g ∈ gs, PInv st g) → ∀ g ∈ addFrame st d base ext frame gs, PInv st g
  | [], _, g, hg => by
    simp only [addFrame, List.mem_singleton] at hg
    subst hg
    exact ⟨rfl, _, List.mem_singleton.2 rfl, rfl⟩
  | x :: xs, h, g, hg => by
    unfold addFrame at hg
    have hx := h x List.mem_cons_self
    by_cases hk : x.dir = d ∧ x.base = base ∧ x.ext = ext
    · rw [if_pos hk] at hg
      rcases List.mem_cons.1 hg with hg | hg
      · subst hg
        by_cases hl : frame.length < x.minWidth
        · simp only [hl, if_true]
          exact ⟨rfl, _, List.mem_append.2 (Or.inr (List.mem_singleton.2 rfl)), rfl⟩
        · simp only [hl, if_false]
          obtain ⟨hp, f, hf, hw⟩ := hx
          exact ⟨hp, f, List.mem_append.2 (Or.inl hf), hw⟩
      · exact h g (List.mem_cons_of_mem _ hg)
    · rw [if_neg hk] at hg
      rcases List.mem_cons.1 hg with hg | hg
      · subst hg; exact hx
      · exact addFrame_pinv st d base ext frame xs (fun y hy => h y (List.mem_cons_of_mem _ hy)) g hg

/-- the entries the Go scan keeps -/
def kept (e : Entry) : Bool := e.kind = .file ∨ e.kind = .linkFile

/-- the constructor accepts the path -/
def seqParses (st : PadStyle) (p : Bytes) : Bool :=
  match Seq.parse st p with | .ok _ => true | .error _ => false

/-- the range text parses -/
def rangeParses (r : Bytes) : Bool :=
  match FrameSet.parse r with | .ok _ => true | .error _ => false

/-- what a kept, visible name must be when it is not a numbered member of a bucket: the pattern
    reads it, it has no frame number, its extension starts with a dot, and the port's constructor
    accepts the path -/
def SingleOk (o : ListOpts) (root name : Bytes) : Prop :=
  let m := optFrame name
  let p := m.getD ([], [], [])
  (m.isSome ∧ !p.2.1.isEmpty ∧ !(p.1.isEmpty ∧ p.2.2.isEmpty)) ∨ o.single = false ∨
  (m.isSome = true ∧ p.2.1 = [] ∧ (p.2.2 = [] ∨ isPrefixOf ['.'] p.2.2 = true) ∧
    seqParses o.style (root ++ name) = true)

instance (o : ListOpts) (root name : Bytes) : Decidable (SingleOk o root name) := by
  unfold SingleOk; exact inferInstance

theorem scan_sim (o : ListOpts) (root : Bytes)
    (hroot : root.isEmpty = true ∨ isSuffixOf ['/'] root = true) :
    ∀ (entries : List Entry) (gs : List SeqInfo) (cs : List Cpp.CInfo) (files : List Seq),
      (∀ e ∈ entries, e.kind ≠ .dangling) →
      (∀ e ∈ entries, kept e = true → (o.hidden = true ∨ isPrefixOf ['.'] e.name = false) →
          SingleOk o root e.name) →
      Forall2 (BRel root) gs cs → (∀ g ∈ gs, PInv o.style g) →
      ∃ gs' cs' files',
        scanItems o none ((entries.filter fun e => e.kind = .file ∨ e.kind = .linkFile).map
            fun e => ⟨root, e.name⟩) gs files = .ok (gs', files') ∧
        Cpp.scanEntries o root entries cs files = .ok (cs', files') ∧
        Forall2 (BRel root) gs' cs' ∧ (∀ g ∈ gs', PInv o.style g)
  | [], gs, cs, files, _, _, hrel, hinv => by
    exact ⟨gs, cs, files, by simp [scanItems], by simp [Cpp.scanEntries], hrel, hinv⟩
  | e :: rest, gs, cs, files, hnd, hs, hrel, hinv => by
    have hnd' : ∀ e ∈ rest, e.kind ≠ .dangling := fun x hx => hnd x (List.mem_cons_of_mem _ hx)
    have hs' : ∀ e ∈ rest, kept e = true → (o.hidden = true ∨ isPrefixOf ['.'] e.name = false) →
        SingleOk o root e.name := fun x hx => hs x (List.mem_cons_of_mem _ hx)
    have ih := scan_sim o root hroot rest
    have hed := hnd e List.mem_cons_self
    -- the four kinds
    by_cases hkeep : (e.kind = .file ∨ e.kind = .linkFile)
    · -- kept by the Go filter
      have hfil : ((e :: rest).filter fun e => e.kind = .file ∨ e.kind = .linkFile) =
          e :: rest.filter fun e => e.kind = .file ∨ e.kind = .linkFile := by
        simp [hkeep]
      have hnotdir : e.kind ≠ .dir := by rcases hkeep with h | h <;> simp [h]
      have hnotld : e.kind ≠ .linkDir := by rcases hkeep with h | h <;> simp [h]
      rw [hfil, List.map_cons]
      unfold scanItems Cpp.scanEntries
      simp only [if_neg hnotdir]
      by_cases hhid : (!o.hidden ∧ isPrefixOf ['.'] e.name)
      · -- hidden, both skip
        rw [if_pos hhid, if_pos hhid]
        exact ih gs cs files hnd' hs' hrel hinv
      · rw [if_neg hhid, if_neg hhid, if_neg hed, if_neg hnotld]
        have hvis : o.hidden = true ∨ isPrefixOf ['.'] e.name = false := by
          cases hh : o.hidden
          · right
            cases hp : isPrefixOf ['.'] e.name
            · rfl
            · exact absurd ⟨by simp [hh], hp⟩ hhid
          · left; rfl
        have hso := hs e List.mem_cons_self (by simp [kept, hkeep]) hvis
        -- the classification of the name is the same expression on both sides
        generalize hm : optFrame e.name = m at hso ⊢
        unfold SingleOk at hso
        rw [hm] at hso
        simp only at hso
        by_cases hok : (m.isSome ∧ !(m.getD ([], [], [])).2.1.isEmpty ∧
            !((m.getD ([], [], [])).1.isEmpty ∧ (m.getD ([], [], [])).2.2.isEmpty))
        · rw [if_pos hok, if_pos hok]
          exact ih _ _ files hnd' hs' (addFrame_rel o.style root _ _ _ gs cs hrel)
            (addFrame_pinv o.style root _ _ _ gs hinv)
        · rw [if_neg hok, if_neg hok]
          cases hsi : o.single
          · simp only [Bool.false_eq_true, if_false]
            exact ih gs cs files hnd' hs' hrel hinv
          · simp only [if_true]
            rcases hso with h | h | ⟨hsome, hfr, hext, hps⟩
            · exact absurd h hok
            · rw [hsi] at h; cases h
            · obtain ⟨s0, hp⟩ : ∃ s0, Seq.parse o.style (root ++ e.name) = .ok s0 := by
                unfold seqParses at hps
                cases hq : Seq.parse o.style (root ++ e.name) with
                | ok s0 => exact ⟨s0, rfl⟩
                | error _ => rw [hq] at hps; cases hps
              rw [hfr]
              have hc := cpp_singleSeq_frameless o.style (root ++ e.name) root
                (m.getD ([], [], [])).1 (m.getD ([], [], [])).2.2 s0 hroot hext hp
              rw [hc]
              simp only [hsome, if_true]
              exact ih gs cs _ hnd' hs' hrel hinv
    · -- dropped by the Go filter: a directory or a link to one
      have hfil : ((e :: rest).filter fun e => e.kind = .file ∨ e.kind = .linkFile) =
          rest.filter fun e => e.kind = .file ∨ e.kind = .linkFile := by
        simp [hkeep]
      rw [hfil]
      have hk : e.kind = .dir ∨ e.kind = .linkDir := by
        cases hkk : e.kind <;> simp_all
      unfold Cpp.scanEntries
      rcases hk with hk | hk
      · rw [if_pos hk]
        exact ih gs cs files hnd' hs' hrel hinv
      · have hnotdir : e.kind ≠ .dir := by simp [hk]
        rw [if_neg hnotdir]
        by_cases hhid : (!o.hidden ∧ isPrefixOf ['.'] e.name)
        · rw [if_pos hhid]
          exact ih gs cs files hnd' hs' hrel hinv
        · rw [if_neg hhid, if_neg hed, if_pos hk]
          exact ih gs cs files hnd' hs' hrel hinv

/-- the digit width of the first frame of a bucket -/
def width0 (g : SeqInfo) : Nat := (g.frames.head?.map (·.frame.length)).getD 0

/-- the buckets of the property: two or more frames of one digit width, a dotted or empty
    extension, no newline, and a range text that parses -/
def BucketDom (g : SeqInfo) : Prop :=
  2 ≤ g.frames.length ∧ (1 ≤ width0 g ∧ ∀ f ∈ g.frames, f.frame.length = width0 g) ∧
  (g.ext = [] ∨ isPrefixOf ['.'] g.ext = true) ∧
  (g.dir ++ g.base ++ framesToFrameRange (g.frames.map (·.num)) true 0 ++ g.ext).contains '\n' = false ∧
  rangeParses (framesToFrameRange (g.frames.map (·.num)) true 0) = true

instance (g : SeqInfo) : Decidable (BucketDom g) := by
  unfold BucketDom; exact inferInstance

/-- every bucket the Go first pass ends with is one of the property's -/
def BucketsDom : Except Err (List SeqInfo × List Seq) → Prop
  | .ok (gs, _) => ∀ g ∈ gs, BucketDom g
  | .error _ => True

instance : (r : Except Err (List SeqInfo × List Seq)) → Decidable (BucketsDom r)
  | .ok (gs, _) => by unfold BucketsDom; exact inferInstance
  | .error _ => isTrue trivial

theorem padChars_chars (st : PadStyle) (w : Nat) (hw1 : 1 ≤ w) :
    padChars st w ≠ [] ∧ ∀ c ∈ padChars st w, c = '#' ∨ c = '@' := by
  refine ⟨ListAux.padChars_ne_nil st w, ?_⟩
  intro c hc
  cases st with
  | hash4 =>
    simp only [padChars] at hc
    split at hc
    · omega
    · split at hc
      · exact Or.inl (List.eq_of_mem_replicate hc)
      · exact Or.inr (List.eq_of_mem_replicate hc)
  | hash1 =>
    simp only [padChars] at hc
    split at hc
    · omega
    · exact Or.inl (List.eq_of_mem_replicate hc)

theorem bucket_out (st : PadStyle) (root : Bytes)
    (hroot : root.isEmpty = true ∨ isSuffixOf ['/'] root = true)
    (g : SeqInfo) (c : Cpp.CInfo) (hr : BRel root g c) (hi : PInv st g) (hd : BucketDom g) :
    ∃ s, Cpp.bucketOut st root c = .ok s ∧ bucketSeqs st g = [s] := by
  obtain ⟨hdir, hb, he, hf, hm, hp⟩ := hr
  obtain ⟨hlen, ⟨hw1, hw⟩, hext, hnl0, hrp⟩ := hd
  generalize width0 g = w at hw1 hw
  obtain ⟨fs, hparse⟩ : ∃ fs, FrameSet.parse (framesToFrameRange (g.frames.map (·.num)) true 0) = .ok fs := by
    unfold rangeParses at hrp
    cases hq : FrameSet.parse (framesToFrameRange (g.frames.map (·.num)) true 0) with
    | ok fs => exact ⟨fs, rfl⟩
    | error _ => rw [hq] at hrp; cases hrp
  have hnl : (g.dir ++ g.base ++ framesToFrameRange (g.frames.map (·.num)) true 0 ++
      padChars st w ++ g.ext).contains '\n' = false := by
    have hpc := (padChars_chars st w hw1).2
    simp only [List.contains_eq_mem, List.mem_append, decide_eq_false_iff_not, not_or] at hnl0 ⊢
    refine ⟨⟨hnl0.1, ?_⟩, hnl0.2⟩
    intro hmem
    rcases hpc _ hmem with h | h <;> cases h
  obtain ⟨hpad, f0, hf0, hf0w⟩ := hi
  have hmin : g.minWidth = w := by rw [← hf0w]; exact hw f0 hf0
  have hpadw : c.padding = padChars st w := by rw [← hp, hpad, hmin]
  refine ⟨_, ?_, Order.bucketSeqs_uniform st g w hlen hw⟩
  have hne : framesToFrameRange (g.frames.map (·.num)) true 0 ≠ [] := by
    intro h0
    rw [h0] at hparse
    have : (match FrameSet.parse ([] : Bytes) with | .ok _ => true | .error _ => false) = false := by decide
    rw [hparse] at this
    cases this
  have hcl : 2 ≤ c.frames.length := by rw [← hf]; simpa using hlen
  have hout : Cpp.bucketOut st root c =
      Cpp.bucketSeq st root c.base (framesToFrameRange c.frames true 0) c.padding c.ext := by
    unfold Cpp.bucketOut
    cases hcf : c.frames with
    | nil => simp [hcf] at hcl
    | cons a r =>
      cases r with
      | nil => simp [hcf] at hcl
      | cons a2 r2 => rfl
  rw [hout, ← hf, ← hb, ← he, hpadw, ← hdir]
  exact cpp_bucketSeq_eq st g.dir g.base _ (padChars st w) g.ext fs (hdir ▸ hroot) hext
    (padChars_chars st w hw1) hnl hne hparse

theorem buckets_out (st : PadStyle) (root : Bytes)
    (hroot : root.isEmpty = true ∨ isSuffixOf ['/'] root = true) :
    ∀ (gs : List SeqInfo) (cs : List Cpp.CInfo), Forall2 (BRel root) gs cs →
      (∀ g ∈ gs, PInv st g) → (∀ g ∈ gs, BucketDom g) →
      Cpp.bucketsOut st root cs = .ok (gs.map (bucketSeqs st)).flatten
  | _, _, .nil, _, _ => by simp [Cpp.bucketsOut]
  | g :: gs, c :: cs, .cons hr hrest, hi, hd => by
    obtain ⟨s, hs, hg⟩ := bucket_out st root hroot g c hr (hi g List.mem_cons_self) (hd g List.mem_cons_self)
    have ih := buckets_out st root hroot gs cs hrest
      (fun x hx => hi x (List.mem_cons_of_mem _ hx)) (fun x hx => hd x (List.mem_cons_of_mem _ hx))
    unfold Cpp.bucketsOut
    rw [hs, ih]
    simp [hg]

/-- without the single-files option the list of single files stays as it was -/
theorem scanItems_files (o : ListOpts) (hs : o.single = false) :
    ∀ (items : List FileItem) (gs gs' : List SeqInfo) (files files' : List Seq),
      scanItems o none items gs files = .ok (gs', files') → files' = files
  | [], gs, gs', files, files', h => by
    simp only [scanItems] at h
    injection h with h
    injection h with _ h2
    exact h2.symm
  | it :: rest, gs, gs', files, files', h => by
    unfold scanItems at h
    simp only [hs] at h
    split at h
    · exact scanItems_files o hs rest _ _ _ _ h
    · split at h
      · exact scanItems_files o hs rest _ _ _ _ h
      · simp only [Bool.false_eq_true, if_false] at h
        exact scanItems_files o hs rest _ _ _ _ h

end Gfs.Proofs.CppScan
