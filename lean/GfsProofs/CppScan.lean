/-
  GfsProofs.CppScan — the port's two-pass directory scan (Cpp.scan) computes what the Go scan
  (scanDir / findInItems) computes, on the directories of C19: every bucket has two or more
  frames of one digit width, every other kept name is a frame-less file.

  The proof is a simulation: the two first passes keep bucket lists that are related entry by
  entry (`BRel`), the Go buckets keep `padding = padChars minWidth` with `minWidth` attained
  (`PInv`), and the second passes agree bucket by bucket (`cpp_bucketSeq_eq`,
  `Order.bucketSeqs_uniform`).
-/
import GfsProofs.CppLemmas
import GfsProofs.ListOrder
import GfsProofs.PadLemmas

namespace Gfs.Proofs.CppScan
open Gfs Gfs.Spec Gfs.Proofs

/-- a Go bucket and a port bucket hold the same thing -/
def BRel (root : Bytes) (g : SeqInfo) (c : Cpp.CInfo) : Prop :=
  g.dir = root ∧ g.base = c.base ∧ g.ext = c.ext ∧ g.frames.map (·.num) = c.frames ∧
  g.minWidth = c.minWidth

/-- the pad characters of a port bucket are those of its minimum width, in the scan's style -/
def CInv (st : PadStyle) (c : Cpp.CInfo) : Prop := c.padding = padChars st c.minWidth

/-- the pad characters of a bucket are those of its minimum width, which one frame has -/
def PInv (st : PadStyle) (g : SeqInfo) : Prop :=
  g.padding = padChars st g.minWidth ∧ ∃ f ∈ g.frames, f.frame.length = g.minWidth

theorem addFrame_rel (st st' : PadStyle) (root base ext frame : Bytes) :
    ∀ (gs : List SeqInfo) (cs : List Cpp.CInfo), Forall2 (BRel root) gs cs →
      Forall2 (BRel root) (addFrame st root base ext frame gs) (Cpp.addFrame st' base ext frame cs)
  | _, _, .nil => by
    simp only [addFrame, Cpp.addFrame]
    exact .cons ⟨rfl, rfl, rfl, rfl, rfl⟩ .nil
  | g :: gs, c :: cs, .cons hr hrest => by
    obtain ⟨hd, hb, he, hf, hm⟩ := hr
    unfold addFrame Cpp.addFrame
    by_cases hk : c.base = base ∧ c.ext = ext
    · have hk' : g.dir = root ∧ g.base = base ∧ g.ext = ext := ⟨hd, hb ▸ hk.1, he ▸ hk.2⟩
      rw [if_pos hk, if_pos hk']
      refine .cons ?_ hrest
      by_cases hl : frame.length < c.minWidth
      · have hl' : frame.length < g.minWidth := hm ▸ hl
        simp only [hl, hl', if_true]
        exact ⟨hd, hb, he, by simp [hf, Cpp.num, atoiOr0], rfl⟩
      · have hl' : ¬ frame.length < g.minWidth := hm ▸ hl
        simp only [hl, hl', if_false]
        exact ⟨hd, hb, he, by simp [hf, Cpp.num, atoiOr0], hm⟩
    · have hk' : ¬ (g.dir = root ∧ g.base = base ∧ g.ext = ext) := by
        intro h; exact hk ⟨hb ▸ h.2.1, he ▸ h.2.2⟩
      rw [if_neg hk, if_neg hk']
      exact .cons ⟨hd, hb, he, hf, hm⟩ (addFrame_rel st st' root base ext frame gs cs hrest)

theorem addFrame_pinv (st : PadStyle) (d base ext frame : Bytes) :
    ∀ gs : List SeqInfo, (∀ g ∈ gs, PInv st g) → ∀ g ∈ addFrame st d base ext frame gs, PInv st g
  | [], _, g, hg => by
    simp only [addFrame, List.mem_singleton] at hg
    subst hg
    exact ⟨rfl, _, List.mem_singleton.2 rfl, rfl⟩
  | x :: xs, h, g, hg => by
    unfold addFrame at hg
    have hx := h x List.mem_cons_self
    by_cases hk : x.dir = d ∧ x.base = base ∧ x.ext = ext
    · rw [if_pos hk] at hg
      rcases List.mem_cons.1 hg with hg | hg
      · subst hg
        by_cases hl : frame.length < x.minWidth
        · simp only [hl, if_true]
          exact ⟨rfl, _, List.mem_append.2 (Or.inr (List.mem_singleton.2 rfl)), rfl⟩
        · simp only [hl, if_false]
          obtain ⟨hp, f, hf, hw⟩ := hx
          exact ⟨hp, f, List.mem_append.2 (Or.inl hf), hw⟩
      · exact h g (List.mem_cons_of_mem _ hg)
    · rw [if_neg hk] at hg
      rcases List.mem_cons.1 hg with hg | hg
      · subst hg; exact hx
      · exact addFrame_pinv st d base ext frame xs (fun y hy => h y (List.mem_cons_of_mem _ hy)) g hg

theorem addFrame_cinv (st : PadStyle) (base ext frame : Bytes) :
    ∀ cs : List Cpp.CInfo, (∀ c ∈ cs, CInv st c) → ∀ c ∈ Cpp.addFrame st base ext frame cs, CInv st c
  | [], _, c, hc => by
    simp only [Cpp.addFrame, List.mem_singleton] at hc
    subst hc
    rfl
  | x :: xs, h, c, hc => by
    unfold Cpp.addFrame at hc
    have hx := h x List.mem_cons_self
    by_cases hk : x.base = base ∧ x.ext = ext
    · rw [if_pos hk] at hc
      rcases List.mem_cons.1 hc with hc | hc
      · subst hc
        by_cases hl : frame.length < x.minWidth
        · simp only [hl, if_true]; rfl
        · simp only [hl, if_false]; exact hx
      · exact h c (List.mem_cons_of_mem _ hc)
    · rw [if_neg hk] at hc
      rcases List.mem_cons.1 hc with hc | hc
      · subst hc; exact hx
      · exact addFrame_cinv st base ext frame xs (fun y hy => h y (List.mem_cons_of_mem _ hy)) c hc

/-- the entries the Go scan keeps -/
def kept (e : Entry) : Bool := e.kind = .file ∨ e.kind = .linkFile

/-- the constructor accepts the path -/
def seqParses (st : PadStyle) (p : Bytes) : Bool :=
  match Seq.parse st p with | .ok _ => true | .error _ => false

/-- the range text parses -/
def rangeParses (r : Bytes) : Bool :=
  match FrameSet.parse r with | .ok _ => true | .error _ => false

/-- what a kept, visible name must be when it is not a numbered member of a bucket: the pattern
    reads it, it has no frame number, its extension starts with a dot, and the port's constructor
    accepts the path -/
def SingleOk (o : ListOpts) (root name : Bytes) : Prop :=
  let m := optFrame name
  let p := m.getD ([], [], [])
  (m.isSome ∧ !p.2.1.isEmpty ∧ !(p.1.isEmpty ∧ p.2.2.isEmpty)) ∨ o.single = false ∨
  (m.isSome = true ∧ p.2.1 = [] ∧ (p.2.2 = [] ∨ isPrefixOf ['.'] p.2.2 = true) ∧
    seqParses o.style (root ++ name) = true)

instance (o : ListOpts) (root name : Bytes) : Decidable (SingleOk o root name) := by
  unfold SingleOk; exact inferInstance

theorem scan_sim (o : ListOpts) (root : Bytes)
    (hroot : root.isEmpty = true ∨ isSuffixOf ['/'] root = true) :
    ∀ (entries : List Entry) (gs : List SeqInfo) (cs : List Cpp.CInfo) (files : List Seq),
      (∀ e ∈ entries, e.kind ≠ .dangling) →
      (∀ e ∈ entries, kept e = true → (o.hidden = true ∨ isPrefixOf ['.'] e.name = false) →
          SingleOk o root e.name) →
      Forall2 (BRel root) gs cs → (∀ g ∈ gs, PInv o.style g) → (∀ c ∈ cs, CInv o.style c) →
      ∃ gs' cs' files',
        scanItems o none ((entries.filter fun e => e.kind = .file ∨ e.kind = .linkFile).map
            fun e => ⟨root, e.name⟩) gs files = .ok (gs', files') ∧
        Cpp.scanEntries o root entries cs files = .ok (cs', files') ∧
        Forall2 (BRel root) gs' cs' ∧ (∀ g ∈ gs', PInv o.style g) ∧ (∀ c ∈ cs', CInv o.style c)
  | [], gs, cs, files, _, _, hrel, hinv, hcinv => by
    exact ⟨gs, cs, files, by simp [scanItems], by simp [Cpp.scanEntries], hrel, hinv, hcinv⟩
  | e :: rest, gs, cs, files, hnd, hs, hrel, hinv, hcinv => by
    have hnd' : ∀ e ∈ rest, e.kind ≠ .dangling := fun x hx => hnd x (List.mem_cons_of_mem _ hx)
    have hs' : ∀ e ∈ rest, kept e = true → (o.hidden = true ∨ isPrefixOf ['.'] e.name = false) →
        SingleOk o root e.name := fun x hx => hs x (List.mem_cons_of_mem _ hx)
    have ih := scan_sim o root hroot rest
    have hed := hnd e List.mem_cons_self
    -- the four kinds
    by_cases hkeep : (e.kind = .file ∨ e.kind = .linkFile)
    · -- kept by the Go filter
      have hfil : ((e :: rest).filter fun e => e.kind = .file ∨ e.kind = .linkFile) =
          e :: rest.filter fun e => e.kind = .file ∨ e.kind = .linkFile := by
        simp [hkeep]
      have hnotdir : e.kind ≠ .dir := by rcases hkeep with h | h <;> simp [h]
      have hnotld : e.kind ≠ .linkDir := by rcases hkeep with h | h <;> simp [h]
      rw [hfil, List.map_cons]
      unfold scanItems Cpp.scanEntries
      simp only [if_neg hnotdir]
      by_cases hhid : (!o.hidden ∧ isPrefixOf ['.'] e.name)
      · -- hidden, both skip
        rw [if_pos hhid, if_pos hhid]
        exact ih gs cs files hnd' hs' hrel hinv hcinv
      · rw [if_neg hhid, if_neg hhid, if_neg hed, if_neg hnotld]
        have hvis : o.hidden = true ∨ isPrefixOf ['.'] e.name = false := by
          cases hh : o.hidden
          · right
            cases hp : isPrefixOf ['.'] e.name
            · rfl
            · exact absurd ⟨by simp [hh], hp⟩ hhid
          · left; rfl
        have hso := hs e List.mem_cons_self (by simp [kept, hkeep]) hvis
        -- the classification of the name is the same expression on both sides
        generalize hm : optFrame e.name = m at hso ⊢
        unfold SingleOk at hso
        rw [hm] at hso
        simp only at hso
        by_cases hok : (m.isSome ∧ !(m.getD ([], [], [])).2.1.isEmpty ∧
            !((m.getD ([], [], [])).1.isEmpty ∧ (m.getD ([], [], [])).2.2.isEmpty))
        · rw [if_pos hok, if_pos hok]
          exact ih _ _ files hnd' hs' (addFrame_rel o.style o.style root _ _ _ gs cs hrel)
            (addFrame_pinv o.style root _ _ _ gs hinv) (addFrame_cinv o.style _ _ _ cs hcinv)
        · rw [if_neg hok, if_neg hok]
          cases hsi : o.single
          · simp only [Bool.false_eq_true, if_false]
            exact ih gs cs files hnd' hs' hrel hinv hcinv
          · simp only [if_true]
            rcases hso with h | h | ⟨hsome, hfr, hext, hps⟩
            · exact absurd h hok
            · rw [hsi] at h; cases h
            · obtain ⟨s0, hp⟩ : ∃ s0, Seq.parse o.style (root ++ e.name) = .ok s0 := by
                unfold seqParses at hps
                cases hq : Seq.parse o.style (root ++ e.name) with
                | ok s0 => exact ⟨s0, rfl⟩
                | error _ => rw [hq] at hps; cases hps
              rw [hfr]
              have hc := cpp_singleSeq_frameless o.style (root ++ e.name) root
                (m.getD ([], [], [])).1 (m.getD ([], [], [])).2.2 s0 hroot hext hp
              rw [hc]
              simp only [hsome, if_true]
              exact ih gs cs _ hnd' hs' hrel hinv hcinv
    · -- dropped by the Go filter: a directory or a link to one
      have hfil : ((e :: rest).filter fun e => e.kind = .file ∨ e.kind = .linkFile) =
          rest.filter fun e => e.kind = .file ∨ e.kind = .linkFile := by
        simp [hkeep]
      rw [hfil]
      have hk : e.kind = .dir ∨ e.kind = .linkDir := by
        cases hkk : e.kind <;> simp_all
      unfold Cpp.scanEntries
      rcases hk with hk | hk
      · rw [if_pos hk]
        exact ih gs cs files hnd' hs' hrel hinv hcinv
      · have hnotdir : e.kind ≠ .dir := by simp [hk]
        rw [if_neg hnotdir]
        by_cases hhid : (!o.hidden ∧ isPrefixOf ['.'] e.name)
        · rw [if_pos hhid]
          exact ih gs cs files hnd' hs' hrel hinv hcinv
        · rw [if_neg hhid, if_neg hed, if_pos hk]
          exact ih gs cs files hnd' hs' hrel hinv hcinv

/-- the digit width of the first frame of a bucket -/
def width0 (g : SeqInfo) : Nat := (g.frames.head?.map (·.frame.length)).getD 0

/-- the buckets of the property: two or more frames of one digit width, a dotted or empty
    extension, no newline, and a range text that parses -/
def BucketDom (g : SeqInfo) : Prop :=
  2 ≤ g.frames.length ∧ (1 ≤ width0 g ∧ ∀ f ∈ g.frames, f.frame.length = width0 g) ∧
  (g.ext = [] ∨ isPrefixOf ['.'] g.ext = true) ∧
  (g.dir ++ g.base ++ framesToFrameRange (g.frames.map (·.num)) true 0 ++ g.ext).contains '\n' = false ∧
  rangeParses (framesToFrameRange (g.frames.map (·.num)) true 0) = true

instance (g : SeqInfo) : Decidable (BucketDom g) := by
  unfold BucketDom; exact inferInstance

/-- every bucket the Go first pass ends with is one of the property's -/
def BucketsDom : Except Err (List SeqInfo × List Seq) → Prop
  | .ok (gs, _) => ∀ g ∈ gs, BucketDom g
  | .error _ => True

instance : (r : Except Err (List SeqInfo × List Seq)) → Decidable (BucketsDom r)
  | .ok (gs, _) => by unfold BucketsDom; exact inferInstance
  | .error _ => isTrue trivial

theorem padChars_chars (st : PadStyle) (w : Nat) (hw1 : 1 ≤ w) :
    padChars st w ≠ [] ∧ ∀ c ∈ padChars st w, c = '#' ∨ c = '@' := by
  refine ⟨ListAux.padChars_ne_nil st w, ?_⟩
  intro c hc
  cases st with
  | hash4 =>
    simp only [padChars] at hc
    split at hc
    · omega
    · split at hc
      · exact Or.inl (List.eq_of_mem_replicate hc)
      · exact Or.inr (List.eq_of_mem_replicate hc)
  | hash1 =>
    simp only [padChars] at hc
    split at hc
    · omega
    · exact Or.inl (List.eq_of_mem_replicate hc)

/-- the width every frame of a bucket of the domain has -/
def widthOf (g : SeqInfo) : Nat := width0 g

/-- one bucket, the Go side in style `st`, the port in style `st'`: both are `rebuild` of the
    components with the pad characters of the common width in their own style -/
theorem bucket_out (st st' : PadStyle) (root : Bytes)
    (hroot : root.isEmpty = true ∨ isSuffixOf ['/'] root = true)
    (g : SeqInfo) (c : Cpp.CInfo) (hr : BRel root g c) (hi : PInv st g) (hci : CInv st' c)
    (hd : BucketDom g) :
    Cpp.bucketOut st' root c =
        .ok (rebuild st' g.dir g.base (framesToFrameRange (g.frames.map (·.num)) true 0)
              (padChars st' (widthOf g)) g.ext) ∧
    bucketSeqs st g =
        [rebuild st g.dir g.base (framesToFrameRange (g.frames.map (·.num)) true 0)
              (padChars st (widthOf g)) g.ext] := by
  obtain ⟨hdir, hb, he, hf, hm⟩ := hr
  obtain ⟨hlen, ⟨hw1, hw⟩, hext, hnl0, hrp⟩ := hd
  unfold widthOf
  generalize width0 g = w at hw1 hw
  obtain ⟨fs, hparse⟩ : ∃ fs, FrameSet.parse (framesToFrameRange (g.frames.map (·.num)) true 0) = .ok fs := by
    unfold rangeParses at hrp
    cases hq : FrameSet.parse (framesToFrameRange (g.frames.map (·.num)) true 0) with
    | ok fs => exact ⟨fs, rfl⟩
    | error _ => rw [hq] at hrp; cases hrp
  have hnl : (g.dir ++ g.base ++ framesToFrameRange (g.frames.map (·.num)) true 0 ++
      padChars st' w ++ g.ext).contains '\n' = false := by
    have hpc := (padChars_chars st' w hw1).2
    simp only [List.contains_eq_mem, List.mem_append, decide_eq_false_iff_not, not_or] at hnl0 ⊢
    refine ⟨⟨hnl0.1, ?_⟩, hnl0.2⟩
    intro hmem
    rcases hpc _ hmem with h | h <;> cases h
  obtain ⟨_, f0, hf0, hf0w⟩ := hi
  have hmin : g.minWidth = w := by rw [← hf0w]; exact hw f0 hf0
  have hpadw : c.padding = padChars st' w := by rw [hci, ← hm, hmin]
  refine ⟨?_, Order.bucketSeqs_uniform st g w hlen hw⟩
  have hne : framesToFrameRange (g.frames.map (·.num)) true 0 ≠ [] := by
    intro h0
    rw [h0] at hparse
    have : (match FrameSet.parse ([] : Bytes) with | .ok _ => true | .error _ => false) = false := by decide
    rw [hparse] at this
    cases this
  have hcl : 2 ≤ c.frames.length := by rw [← hf]; simpa using hlen
  have hout : Cpp.bucketOut st' root c =
      Cpp.bucketSeq st' root c.base (framesToFrameRange c.frames true 0) c.padding c.ext := by
    unfold Cpp.bucketOut
    cases hcf : c.frames with
    | nil => simp [hcf] at hcl
    | cons a r =>
      cases r with
      | nil => simp [hcf] at hcl
      | cons a2 r2 => rfl
  rw [hout, ← hf, ← hb, ← he, hpadw, ← hdir]
  exact cpp_bucketSeq_eq st' g.dir g.base _ (padChars st' w) g.ext fs (hdir ▸ hroot) hext
    (padChars_chars st' w hw1) hnl hne hparse

/-- what the Go side makes of a bucket of the domain, in style `st` -/
def seqOf (st : PadStyle) (g : SeqInfo) : Seq :=
  rebuild st g.dir g.base (framesToFrameRange (g.frames.map (·.num)) true 0) (padChars st (widthOf g)) g.ext

theorem buckets_out2 (st st' : PadStyle) (root : Bytes)
    (hroot : root.isEmpty = true ∨ isSuffixOf ['/'] root = true) :
    ∀ (gs : List SeqInfo) (cs : List Cpp.CInfo), Forall2 (BRel root) gs cs →
      (∀ g ∈ gs, PInv st g) → (∀ c ∈ cs, CInv st' c) → (∀ g ∈ gs, BucketDom g) →
      Cpp.bucketsOut st' root cs = .ok (gs.map (seqOf st')) ∧
      (gs.map (bucketSeqs st)).flatten = gs.map (seqOf st)
  | _, _, .nil, _, _, _ => by simp [Cpp.bucketsOut]
  | g :: gs, c :: cs, .cons hr hrest, hi, hci, hd => by
    obtain ⟨hs, hg⟩ := bucket_out st st' root hroot g c hr (hi g List.mem_cons_self)
      (hci c List.mem_cons_self) (hd g List.mem_cons_self)
    obtain ⟨ih1, ih2⟩ := buckets_out2 st st' root hroot gs cs hrest
      (fun x hx => hi x (List.mem_cons_of_mem _ hx)) (fun x hx => hci x (List.mem_cons_of_mem _ hx))
      (fun x hx => hd x (List.mem_cons_of_mem _ hx))
    refine ⟨?_, ?_⟩
    · unfold Cpp.bucketsOut
      rw [hs, ih1]
      simp [seqOf]
    · simp only [List.map_cons, List.flatten_cons, hg, ih2]
      simp [seqOf]

theorem buckets_out (st : PadStyle) (root : Bytes)
    (hroot : root.isEmpty = true ∨ isSuffixOf ['/'] root = true)
    (gs : List SeqInfo) (cs : List Cpp.CInfo) (hrel : Forall2 (BRel root) gs cs)
    (hi : ∀ g ∈ gs, PInv st g) (hci : ∀ c ∈ cs, CInv st c) (hd : ∀ g ∈ gs, BucketDom g) :
    Cpp.bucketsOut st root cs = .ok (gs.map (bucketSeqs st)).flatten := by
  obtain ⟨h1, h2⟩ := buckets_out2 st st root hroot gs cs hrel hi hci hd
  rw [h1, h2]

/-- without the single-files option the list of single files stays as it was -/
theorem scanItems_files (o : ListOpts) (hs : o.single = false) :
    ∀ (items : List FileItem) (gs gs' : List SeqInfo) (files files' : List Seq),
      scanItems o none items gs files = .ok (gs', files') → files' = files
  | [], gs, gs', files, files', h => by
    simp only [scanItems] at h
    injection h with h
    injection h with _ h2
    exact h2.symm
  | it :: rest, gs, gs', files, files', h => by
    unfold scanItems at h
    simp only [hs] at h
    split at h
    · exact scanItems_files o hs rest _ _ _ _ h
    · split at h
      · exact scanItems_files o hs rest _ _ _ _ h
      · simp only [Bool.false_eq_true, if_false] at h
        exact scanItems_files o hs rest _ _ _ _ h

/-! ### the pattern lookup -/

theorem dropWhile_nil_iff_all {α : Type} (p : α → Bool) : ∀ t : List α,
    t.dropWhile p = [] ↔ t.all p = true
  | [] => by simp
  | x :: xs => by
    cases hx : p x
    · simp [List.dropWhile_cons, hx]
    · simp [List.dropWhile_cons, hx, dropWhile_nil_iff_all p xs]

theorem takeWhile_of_all {α : Type} (p : α → Bool) : ∀ t : List α, t.all p = true → t.takeWhile p = t
  | [], _ => rfl
  | x :: xs, h => by
    simp only [List.all_cons, Bool.and_eq_true] at h
    simp [List.takeWhile_cons, h.1, takeWhile_of_all p xs h.2]

theorem takeWhile_nil_of_drop_nil {α : Type} (p : α → Bool) (t : List α)
    (h : t.dropWhile p = []) : t.takeWhile p = t :=
  takeWhile_of_all p t ((dropWhile_nil_iff_all p t).1 h)

/-- the digits test shared by the two frame-number tests -/
theorem digits_iff (t : Bytes) :
    ((if (t.takeWhile isDigit).isEmpty then (none : Option (Bytes × Bytes))
      else some (t.takeWhile isDigit, t.dropWhile isDigit)).map (·.2) = some []) ↔
    (t.isEmpty = false ∧ t.all isDigit = true) := by
  constructor
  · intro h
    by_cases he : (t.takeWhile isDigit).isEmpty = true
    · simp [he] at h
    · simp only [he, Bool.false_eq_true, if_false, Option.map_some, Option.some.injEq] at h
      have hall := (dropWhile_nil_iff_all isDigit t).1 h
      refine ⟨?_, hall⟩
      rw [takeWhile_nil_of_drop_nil isDigit t h] at he
      simpa using he
  · intro ⟨hne, hall⟩
    have ht := takeWhile_of_all isDigit t hall
    have hd := (dropWhile_nil_iff_all isDigit t).2 hall
    rw [ht, hd]
    simp [hne]

/-- the port's hand-written frame-number test accepts what the Go test accepts -/
theorem isFrameTok_iff (r : Bytes) :
    Cpp.isFrameTok r = true ↔ ((frameAt r).map (·.2) = some [] ∧ (atoi r).isSome = true) := by
  unfold Cpp.isFrameTok
  have key : ∀ (ds : Bytes) (pre : Bytes → Bytes),
      ((if (ds.takeWhile isDigit).isEmpty then (none : Option (Bytes × Bytes))
        else some (pre (ds.takeWhile isDigit), ds.dropWhile isDigit)).map (·.2) = some []) ↔
      (ds.isEmpty = false ∧ ds.all isDigit = true) := by
    intro ds pre
    have := digits_iff ds
    by_cases he : (ds.takeWhile isDigit).isEmpty = true
    · simp only [he, if_true] at this ⊢; exact this
    · simp only [he, Bool.false_eq_true, if_false, Option.map_some] at this ⊢; exact this
  simp only
  split
  · rename_i t
    have := key t (fun d => '-' :: d)
    simp only [frameAt]
    simp only [Bool.and_eq_true, Bool.not_eq_true']
    rw [this]
  · rename_i hne
    have hfa : frameAt r =
        (if (r.takeWhile isDigit).isEmpty then none
         else some (r.takeWhile isDigit, r.dropWhile isDigit)) := by
      unfold frameAt
      split
      · rename_i t'
        exact absurd rfl (hne t')
      · rfl
    rw [hfa]
    have := key r id
    simp only [id] at this
    simp only [Bool.and_eq_true, Bool.not_eq_true']
    rw [this]

/-- the first passes of a lookup (a template on both sides) keep related bucket lists -/
theorem scanT_sim (oG oC : ListOpts) (hh : oG.hidden = oC.hidden) (t : Seq) (d : Bytes) :
    ∀ (entries : List Entry) (gs : List SeqInfo) (cs : List Cpp.CInfo) (files : List Seq),
      (∀ e ∈ entries, e.kind ≠ .dangling) →
      Forall2 (BRel t.dir) gs cs → (∀ g ∈ gs, PInv oG.style g) → (∀ c ∈ cs, CInv oC.style c) →
      ∃ gs' cs',
        scanItems oG (some t) ((entries.filter fun e => e.kind = .file ∨ e.kind = .linkFile).map
            fun e => ⟨d, e.name⟩) gs files = .ok (gs', files) ∧
        Cpp.scanT oC t entries cs = .ok cs' ∧
        Forall2 (BRel t.dir) gs' cs' ∧ (∀ g ∈ gs', PInv oG.style g) ∧ (∀ c ∈ cs', CInv oC.style c)
  | [], gs, cs, files, _, hrel, hinv, hcinv => by
    exact ⟨gs, cs, by simp [scanItems], by simp [Cpp.scanT], hrel, hinv, hcinv⟩
  | e :: rest, gs, cs, files, hnd, hrel, hinv, hcinv => by
    have hnd' : ∀ e ∈ rest, e.kind ≠ .dangling := fun x hx => hnd x (List.mem_cons_of_mem _ hx)
    have ih := scanT_sim oG oC hh t d rest
    have hed := hnd e List.mem_cons_self
    by_cases hkeep : (e.kind = .file ∨ e.kind = .linkFile)
    · have hfil : ((e :: rest).filter fun e => e.kind = .file ∨ e.kind = .linkFile) =
          e :: rest.filter fun e => e.kind = .file ∨ e.kind = .linkFile := by
        simp [hkeep]
      have hnotdir : e.kind ≠ .dir := by rcases hkeep with h | h <;> simp [h]
      have hnotld : e.kind ≠ .linkDir := by rcases hkeep with h | h <;> simp [h]
      rw [hfil, List.map_cons]
      unfold scanItems Cpp.scanT
      simp only [if_neg hnotdir]
      by_cases hhid : (!oG.hidden ∧ isPrefixOf ['.'] e.name)
      · have hhid' : (!oC.hidden ∧ isPrefixOf ['.'] e.name) := by rw [← hh]; exact hhid
        rw [if_pos hhid, if_pos hhid']
        exact ih gs cs files hnd' hrel hinv hcinv
      · have hhid' : ¬ (!oC.hidden ∧ isPrefixOf ['.'] e.name) := by rw [← hh]; exact hhid
        rw [if_neg hhid, if_neg hhid', if_neg hed, if_neg hnotld]
        by_cases hglob : (isPrefixOf t.base e.name ∧ isSuffixOf t.ext e.name ∧
            t.base.length + t.ext.length ≤ e.name.length)
        · rw [if_pos hglob, if_pos hglob]
          by_cases hfr : Cpp.isFrameTok
              ((e.name.drop t.base.length).take (e.name.length - t.base.length - t.ext.length)) = true
          · have hgo := (isFrameTok_iff _).1 hfr
            rw [if_pos hfr, if_pos hgo]
            exact ih _ _ files hnd' (addFrame_rel oG.style oC.style t.dir _ _ _ gs cs hrel)
              (addFrame_pinv oG.style t.dir _ _ _ gs hinv) (addFrame_cinv oC.style _ _ _ cs hcinv)
          · have hgo : ¬ _ := fun h => hfr ((isFrameTok_iff _).2 h)
            rw [if_neg hfr, if_neg hgo]
            exact ih gs cs files hnd' hrel hinv hcinv
        · rw [if_neg hglob, if_neg hglob]
          exact ih gs cs files hnd' hrel hinv hcinv
    · have hfil : ((e :: rest).filter fun e => e.kind = .file ∨ e.kind = .linkFile) =
          rest.filter fun e => e.kind = .file ∨ e.kind = .linkFile := by
        simp [hkeep]
      rw [hfil]
      have hk : e.kind = .dir ∨ e.kind = .linkDir := by
        cases hkk : e.kind <;> simp_all
      unfold Cpp.scanT
      rcases hk with hk | hk
      · rw [if_pos hk]
        exact ih gs cs files hnd' hrel hinv hcinv
      · have hnotdir : e.kind ≠ .dir := by simp [hk]
        rw [if_neg hnotdir]
        by_cases hhid : (!oC.hidden ∧ isPrefixOf ['.'] e.name)
        · rw [if_pos hhid]
          exact ih gs cs files hnd' hrel hinv hcinv
        · rw [if_neg hhid, if_neg hed, if_pos hk]
          exact ih gs cs files hnd' hrel hinv hcinv

/-- switched to the caller's style, the port's sequence (built in the default style) and the Go
    one (built in the caller's style) are the same sequence -/
theorem seqOf_style (st : PadStyle) (g : SeqInfo) (hd : BucketDom g) :
    (seqOf .hash4 g).setPaddingStyle st = (seqOf st g).setPaddingStyle st := by
  obtain ⟨_, ⟨hw1, _⟩, _, _, hrp⟩ := hd
  have hne : framesToFrameRange (g.frames.map (·.num)) true 0 ≠ [] := by
    intro h0
    rw [h0] at hrp
    revert hrp
    decide
  have hz : ∀ st' : PadStyle, padSize st' (padChars st' (widthOf g)) = widthOf g :=
    fun st' => padSize_padChars st' _ (by unfold widthOf; omega)
  have hform : ∀ st' : PadStyle, (seqOf st' g).setPaddingStyle st =
      { (seqOf st' g) with style := st, pad := padChars st (widthOf g),
                           zfill := padSize st (padChars st (widthOf g)) } := by
    intro st'
    have hpn := ListAux.padChars_ne_nil st' (widthOf g)
    unfold seqOf rebuild
    have hpe : (padChars st' ↑(widthOf g)).isEmpty = false := by
      cases hq : padChars st' ↑(widthOf g) with
      | nil => exact absurd hq hpn
      | cons _ _ => rfl
    have hfe : (framesToFrameRange (g.frames.map (·.num)) true 0).isEmpty = false := by
      cases hq : framesToFrameRange (g.frames.map (·.num)) true 0 with
      | nil => exact absurd hq hne
      | cons _ _ => rfl
    simp only [hpe, hfe, Bool.false_eq_true, false_and, if_false]
    unfold Seq.setFrameRange
    split <;> simp [Seq.setPaddingStyle, Seq.setPadding, hz st']
  rw [hform .hash4, hform st]
  unfold seqOf rebuild
  have hfe : (framesToFrameRange (g.frames.map (·.num)) true 0).isEmpty = false := by
    cases hq : framesToFrameRange (g.frames.map (·.num)) true 0 with
    | nil => exact absurd hq hne
    | cons _ _ => rfl
  have hpe : ∀ st' : PadStyle, (padChars st' ↑(widthOf g)).isEmpty = false := by
    intro st'
    cases hq : padChars st' ↑(widthOf g) with
    | nil => exact absurd hq (ListAux.padChars_ne_nil st' (widthOf g))
    | cons _ _ => rfl
  simp only [hpe, hfe, Bool.false_eq_true, false_and, if_false]
  unfold Seq.setFrameRange
  split <;> simp [Seq.setPadding]

theorem seqOf_key (st : PadStyle) (g : SeqInfo) :
    (seqOf st g).base = g.base ∧ (seqOf st g).ext = g.ext := by
  unfold seqOf rebuild
  simp only
  split
  · simp [Seq.setPadding]
  · unfold Seq.setFrameRange
    split <;> simp [Seq.setPadding]

/-- picking the first result with the pattern's basename and extension, then switching it to the
    caller's style -/
theorem pick_eq (st : PadStyle) (b e : Bytes) : ∀ gs : List SeqInfo, (∀ g ∈ gs, BucketDom g) →
    (((gs.map (seqOf .hash4)).find? fun s => s.base = b ∧ s.ext = e).map fun s => s.setPaddingStyle st) =
    ((((gs.map (seqOf st)).filter fun s => s.base = b ∧ s.ext = e).map
        fun s => s.setPaddingStyle st)).head?
  | [], _ => rfl
  | g :: gs, h => by
    have hk4 := seqOf_key .hash4 g
    have hks := seqOf_key st g
    simp only [List.map_cons, List.find?_cons, List.filter_cons]
    by_cases hp : g.base = b ∧ g.ext = e
    · have h4 : decide ((seqOf .hash4 g).base = b ∧ (seqOf .hash4 g).ext = e) = true := by
        rw [hk4.1, hk4.2]; exact decide_eq_true hp
      have hs : decide ((seqOf st g).base = b ∧ (seqOf st g).ext = e) = true := by
        rw [hks.1, hks.2]; exact decide_eq_true hp
      simp only [h4, hs, if_true, List.map_cons, List.head?_cons, Option.map_some]
      rw [seqOf_style st g (h g List.mem_cons_self)]
    · have h4 : decide ((seqOf .hash4 g).base = b ∧ (seqOf .hash4 g).ext = e) = false := by
        rw [hk4.1, hk4.2]; exact decide_eq_false hp
      have hs : decide ((seqOf st g).base = b ∧ (seqOf st g).ext = e) = false := by
        rw [hks.1, hks.2]; exact decide_eq_false hp
      simp only [h4, hs, Bool.false_eq_true, if_false]
      exact pick_eq st b e gs (fun x hx => h x (List.mem_cons_of_mem _ hx))

end Gfs.Proofs.CppScan
