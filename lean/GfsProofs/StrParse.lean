/-
  GfsProofs.StrParse — the printed form of a well-formed container parses back, as a
  frame range, to the same values (C13 d, C08 re-parse).
-/
import GfsModel.Ranges
import GfsModel.FrameSet
import GfsSpec.Enum
import GfsSpec.WF
import GfsSpec.Grammar
import GfsProofs.BlocksLemmas
import GfsProofs.ParseSyn
import GfsProofs.ParseSem
import GfsProps.C01

namespace Gfs.Proofs
open Gfs Gfs.Spec

/-! ### decimal digits -/

theorem digitChar_spec : ∀ k, k < 10 →
    isDigit (Char.ofNat (k + '0'.toNat)) = true ∧ digitVal (Char.ofNat (k + '0'.toNat)) = k := by
  decide

theorem digitChar_isDigit (n : Nat) : isDigit (digitChar n) = true :=
  (digitChar_spec (n % 10) (Nat.mod_lt _ (by omega))).1

theorem digitChar_val (n : Nat) : digitVal (digitChar n) = n % 10 :=
  (digitChar_spec (n % 10) (Nat.mod_lt _ (by omega))).2

theorem digitsToNat_snoc (ds : List Char) (c : Char) :
    digitsToNat (ds ++ [c]) = digitsToNat ds * 10 + digitVal c := by
  simp [digitsToNat, List.foldl_append]

theorem natDigits_spec (n : Nat) :
    natDigits n ≠ [] ∧ (∀ c ∈ natDigits n, isDigit c = true) ∧ digitsToNat (natDigits n) = n := by
  induction n using Nat.strongRecOn with
  | _ n ih =>
    rw [natDigits]
    by_cases h : n < 10
    · rw [if_pos h]
      refine ⟨by simp, ?_, ?_⟩
      · intro c hc
        rw [List.mem_singleton] at hc
        subst hc
        exact digitChar_isDigit n
      · have := digitsToNat_snoc [] (digitChar n)
        rw [List.nil_append] at this
        rw [this, digitChar_val]
        simp [digitsToNat]
        omega
    · rw [if_neg h]
      obtain ⟨_, h2, h3⟩ := ih (n / 10) (by omega)
      refine ⟨by simp, ?_, ?_⟩
      · intro c hc
        rw [List.mem_append, List.mem_singleton] at hc
        rcases hc with hc | hc
        · exact h2 c hc
        · subst hc; exact digitChar_isDigit _
      · rw [digitsToNat_snoc, h3, digitChar_val]
        omega

/-- `strconv.Itoa` writes a numeral of the grammar. -/
theorem itoa_numText (n : Int) : NumText n (itoa n) := by
  obtain ⟨h1, h2, h3⟩ := natDigits_spec n.natAbs
  unfold itoa
  by_cases hn : n < 0
  · rw [if_pos hn]
    refine ⟨true, natDigits n.natAbs, h1, h2, by simp, ?_⟩
    rw [h3]; simp; omega
  · rw [if_neg hn]
    refine ⟨false, natDigits n.natAbs, h1, h2, by simp, ?_⟩
    rw [h3]; simp; omega

/-- The component a printed block reads as. -/
def compOfRng (r : Rng) : Comp :=
  if r.fin ≠ r.start then
    (if r.step > 1 ∨ r.step < -1 then Comp.stepped r.start r.fin 'x' r.step else Comp.range r.start r.fin)
  else Comp.single r.start

theorem rng_str_compText (r : Rng) : CompText (compOfRng r) r.str := by
  unfold compOfRng Rng.str
  by_cases h1 : r.fin ≠ r.start
  · by_cases h2 : r.step > 1 ∨ r.step < -1
    · simp only [if_pos h1, if_pos h2]
      refine ⟨.complex (itoa r.start) (itoa r.fin) 'x' (itoa r.step),
        .stepped (itoa_numText _) (itoa_numText _) (itoa_numText _) (Or.inl rfl), ?_⟩
      simp [matchText, List.append_assoc]
    · simp only [if_pos h1, if_neg h2]
      exact ⟨.range (itoa r.start) (itoa r.fin), .range (itoa_numText _) (itoa_numText _), rfl⟩
  · simp only [if_neg h1]
    exact ⟨.single (itoa r.start), .single (itoa_numText _), rfl⟩

/-- enumerating up to `End()` instead of the stored stop gives the same values -/
theorem enum_fin (r : Rng) (h : WellSigned r) :
    enum r.start r.fin r.step.natAbs = rngEnum r := by
  have hfe := Aux.fin_eq r h
  have hfb := Aux.fin_bounds r h
  have hw' : WellSigned ⟨r.start, r.fin, r.step⟩ := by
    unfold WellSigned
    rcases hfb with ⟨h1, h2, _⟩ | ⟨h1, _, h3⟩
    · exact Or.inl ⟨h2, h1⟩
    · exact Or.inr ⟨h3, h1⟩
  have hK : Aux.K ⟨r.start, r.fin, r.step⟩ = Aux.K r := by
    rcases hfb with ⟨h1, _, _⟩ | ⟨h1, _, _⟩
    · apply Aux.K_unique_asc _ _ _ h1
      omega
    · apply Aux.K_unique_desc _ _ _ h1
      omega
  have e1 := Aux.enum_closed ⟨r.start, r.fin, r.step⟩ hw'
  rw [hK] at e1
  rw [Aux.enum_closed r h]
  exact e1

/-- a block whose `End()` is its start holds one value -/
theorem enum_fin_start (r : Rng) (h : WellSigned r) (hf : r.fin = r.start) :
    rngEnum r = [r.start] := by
  have hfe := Aux.fin_eq r h
  have hst : r.step ≠ 0 := by unfold WellSigned at h; omega
  have hK : Aux.K r = 0 := by
    have h0 : r.step * (Aux.K r : Int) = 0 := by omega
    rcases Int.mul_eq_zero.mp h0 with h1 | h1
    · exact absurd h1 hst
    · omega
  rw [Aux.enum_closed r h, hK]
  simp

theorem compOfRng_expand (r : Rng) (h : WellSigned r) : expand (compOfRng r) = rngEnum r := by
  unfold compOfRng
  by_cases h1 : r.fin ≠ r.start
  · rw [if_pos h1]
    by_cases h2 : r.step > 1 ∨ r.step < -1
    · rw [if_pos h2]
      simp only [expand, if_true]
      exact enum_fin r h
    · rw [if_neg h2]
      simp only [expand]
      have hn : ((r.step.natAbs : Nat) : Int) = 1 := by unfold WellSigned at h; omega
      have := enum_fin r h
      rw [hn] at this
      exact this
  · rw [if_neg h1]
    simp only [expand]
    exact (enum_fin_start r h (Classical.not_not.mp h1)).symm

/-! ### the printed text contains no junk characters -/

/-- no character of `t` is removed by `stripJunk` -/
def NoJunk (t : Bytes) : Prop := ∀ c ∈ t, isJunk c = false

theorem noJunk_nil : NoJunk [] := by intro c hc; simp at hc

theorem noJunk_append {a b : Bytes} (ha : NoJunk a) (hb : NoJunk b) : NoJunk (a ++ b) := by
  intro c hc
  rcases List.mem_append.mp hc with h | h
  · exact ha c h
  · exact hb c h

theorem noJunk_cons {c : Char} {t : Bytes} (hc : isJunk c = false) (ht : NoJunk t) :
    NoJunk (c :: t) := by
  intro d hd
  rcases List.mem_cons.mp hd with h | h
  · subst h; exact hc
  · exact ht d h

theorem digit_not_junk {d : Char} (h : isDigit d = true) : isJunk d = false := by
  have h1 : d ≠ '#' := by rintro rfl; revert h; decide
  have h2 : d ≠ '@' := by rintro rfl; revert h; decide
  have h3 : d ≠ ' ' := by rintro rfl; revert h; decide
  simp [isJunk, h1, h2, h3]

theorem numText_noJunk {n : Int} {t : Bytes} (h : NumText n t) : NoJunk t := by
  obtain ⟨neg, ds, -, hd, rfl, -⟩ := h
  apply noJunk_append
  · cases neg
    · exact noJunk_nil
    · exact noJunk_cons (by decide) noJunk_nil
  · intro c hc
    exact digit_not_junk (hd c hc)

theorem matchText_noJunk {c : Comp} {m : Match} (h : MatchOf c m) : NoJunk (matchText m) := by
  cases h with
  | single ha => exact numText_noJunk ha
  | range ha hb =>
    exact noJunk_append (numText_noJunk ha) (noJunk_cons (by decide) (numText_noJunk hb))
  | @stepped a b n ta tb tn m ha hb hn hm =>
    have hmj : isJunk m = false := by rcases hm with rfl | rfl | rfl <;> decide
    exact noJunk_append (noJunk_append (numText_noJunk ha)
      (noJunk_cons (by decide) (numText_noJunk hb))) (noJunk_cons hmj (numText_noJunk hn))

theorem joinWith_noJunk (parts : List Bytes) (h : ∀ p ∈ parts, NoJunk p) :
    NoJunk (joinWith ',' parts) := by
  induction parts with
  | nil => exact noJunk_nil
  | cons p ps ih =>
    cases ps with
    | nil => exact h p (by simp)
    | cons q qs =>
      rw [joinWith.eq_3 _ _ _ (by simp)]
      exact noJunk_append (h p (by simp))
        (noJunk_cons (by decide) (ih (fun x hx => h x (List.mem_cons_of_mem _ hx))))

theorem stripJunk_noJunk {t : Bytes} (h : NoJunk t) : stripJunk t = t := by
  unfold stripJunk
  rw [List.filter_eq_self]
  intro c hc
  simp [h c hc]

/-! ### print → parse -/

theorem forall2_compText (bl : Blocks) :
    Forall2 CompText (bl.map compOfRng) (bl.map Rng.str) := by
  induction bl with
  | nil => exact .nil
  | cons r rs ih => exact .cons (rng_str_compText r) ih

theorem str_rangeText (bl : Blocks) : RangeText (bl.map compOfRng) (Blocks.str bl) := by
  refine ⟨bl.map Rng.str, forall2_compText bl, ?_⟩
  apply stripJunk_noJunk
  unfold Blocks.str
  apply joinWith_noJunk
  intro p hp
  obtain ⟨r, -, rfl⟩ := List.mem_map.mp hp
  obtain ⟨m, hm, he⟩ := rng_str_compText r
  rw [he]
  exact matchText_noJunk hm

theorem compOfRng_valid (r : Rng)
    (hfit : Fits r.start ∧ Fits r.fin ∧ Fits r.step) : (compOfRng r).valid := by
  obtain ⟨f1, f2, f3⟩ := hfit
  unfold compOfRng
  by_cases h1 : r.fin ≠ r.start
  · rw [if_pos h1]
    by_cases h2 : r.step > 1 ∨ r.step < -1
    · rw [if_pos h2]
      have hst : r.step ≠ 0 := by omega
      exact ⟨by simp [Comp.ok, hst], f1, f2, f3⟩
    · rw [if_neg h2]
      exact ⟨rfl, f1, f2⟩
  · rw [if_neg h1]
    exact ⟨rfl, f1⟩

theorem flatMap_compOfRng (bl : Blocks) (hw : ∀ r ∈ bl, WellSigned r) :
    (bl.map compOfRng).flatMap expand = blocksEnum bl := by
  induction bl with
  | nil => rfl
  | cons r rs ih =>
    rw [List.map_cons, List.flatMap_cons, blocksEnum_cons,
      compOfRng_expand r (hw r (by simp)), ih (fun x hx => hw x (List.mem_cons_of_mem _ hx))]

/-- print → parse: for a well-formed, non-empty container whose numbers fit an int -/
theorem str_parse (bl : Blocks) (h : WF bl) (hne : bl ≠ [])
    (hfit : ∀ r ∈ bl, Fits r.start ∧ Fits r.fin ∧ Fits r.step) :
    ∃ fs, FrameSet.parse (Blocks.str bl) = .ok fs ∧ fs.frames = blocksEnum bl := by
  have hcne : bl.map compOfRng ≠ [] := by
    intro hc; exact hne (List.map_eq_nil_iff.mp hc)
  have hv : ∀ c ∈ bl.map compOfRng, c.valid := by
    intro c hc
    obtain ⟨r, hr, rfl⟩ := List.mem_map.mp hc
    exact compOfRng_valid r (hfit r hr)
  obtain ⟨fs, hp, hf, _⟩ :=
    Gfs.Props.C01.C01_expand (bl.map compOfRng) (Blocks.str bl) hcne (str_rangeText bl) hv
  refine ⟨fs, hp, ?_⟩
  rw [hf, denote, flatMap_compOfRng bl h.1, dedupFirst_of_nodup _ (blocks_nodup bl h)]

end Gfs.Proofs
