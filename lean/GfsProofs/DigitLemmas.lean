/-
  GfsProofs.DigitLemmas — reusable facts about `natDigits`, `digitsToNat`, `digitChar`,
  `digitVal`, `isDigit` and zero filling.
-/
import GfsModel.Basic

namespace Gfs.Proofs
open Gfs

/-! ### lists -/

theorem list_snoc_induction {α : Type} {P : List α → Prop} (nil : P [])
    (snoc : ∀ l a, P l → P (l ++ [a])) : ∀ l, P l := by
  have h : ∀ l : List α, P l.reverse := by
    intro l
    induction l with
    | nil => exact nil
    | cons a l ih => rw [List.reverse_cons]; exact snoc _ _ ih
  intro l
  have := h l.reverse
  rwa [List.reverse_reverse] at this

theorem head?_append_ne_nil {α : Type} (l l' : List α) (h : l ≠ []) :
    (l ++ l').head? = l.head? := by
  cases l with
  | nil => exact absurd rfl h
  | cons a l => rfl

/-! ### characters -/

theorem digitChar_lt_facts : ∀ k, k < 10 →
    isDigit (digitChar k) = true ∧ digitVal (digitChar k) = k ∧
    (digitChar k = '0' ↔ k = 0) ∧ digitChar k ≠ '-' := by
  decide

theorem digitChar_mod (n : Nat) : digitChar (n % 10) = digitChar n := by
  simp [digitChar]

theorem isDigit_digitChar (n : Nat) : isDigit (digitChar n) = true := by
  rw [← digitChar_mod]
  exact (digitChar_lt_facts (n % 10) (Nat.mod_lt _ (by decide))).1

theorem digitVal_digitChar (n : Nat) (h : n < 10) : digitVal (digitChar n) = n :=
  (digitChar_lt_facts n h).2.1

theorem digitChar_eq_zero_iff (n : Nat) (h : n < 10) : digitChar n = '0' ↔ n = 0 :=
  (digitChar_lt_facts n h).2.2.1

theorem digitChar_ne_minus (n : Nat) : digitChar n ≠ '-' := by
  rw [← digitChar_mod]
  exact (digitChar_lt_facts (n % 10) (Nat.mod_lt _ (by decide))).2.2.2

theorem isDigit_iff (c : Char) : isDigit c = true ↔ 48 ≤ c.toNat ∧ c.toNat ≤ 57 := by
  simp [isDigit]

theorem digitVal_lt (c : Char) (h : isDigit c = true) : digitVal c < 10 := by
  rw [isDigit_iff] at h
  simp only [digitVal, show '0'.toNat = 48 from rfl]
  omega

theorem digitChar_digitVal (c : Char) (h : isDigit c = true) : digitChar (digitVal c) = c := by
  rw [isDigit_iff] at h
  simp only [digitChar, digitVal, show '0'.toNat = 48 from rfl]
  have : (c.toNat - 48) % 10 + 48 = c.toNat := by omega
  rw [this]
  exact Char.ofNat_toNat c

theorem isDigit_ne_minus (c : Char) (h : isDigit c = true) : c ≠ '-' := by
  intro hc; subst hc; revert h; decide

theorem digitVal_zero : digitVal '0' = 0 := rfl

theorem digitVal_eq_zero (c : Char) (h : isDigit c = true) (hv : digitVal c = 0) : c = '0' := by
  have := digitChar_digitVal c h
  rw [hv] at this
  exact this.symm

/-! ### digitsToNat -/

theorem digitsToNat_nil : digitsToNat [] = 0 := rfl

theorem digitsToNat_append_singleton (ds : List Char) (c : Char) :
    digitsToNat (ds ++ [c]) = digitsToNat ds * 10 + digitVal c := by
  simp [digitsToNat, List.foldl_append]

theorem digitsToNat_singleton (c : Char) : digitsToNat [c] = digitVal c := by
  simp [digitsToNat]

theorem foldl_digits_zeros (k : Nat) (acc : Nat) (ds : List Char) :
    (List.replicate k '0' ++ ds).foldl (fun acc c => acc * 10 + digitVal c) (acc * 0) =
      ds.foldl (fun acc c => acc * 10 + digitVal c) 0 := by
  induction k with
  | zero => simp
  | succ k ih =>
    simp only [List.replicate_succ, List.cons_append, List.foldl_cons, Nat.mul_zero, Nat.zero_mul,
      digitVal_zero, Nat.add_zero]
    simpa using ih

/-- leading zeros do not change the value -/
theorem digitsToNat_replicate_zero_append (k : Nat) (ds : List Char) :
    digitsToNat (List.replicate k '0' ++ ds) = digitsToNat ds := by
  have := foldl_digits_zeros k 0 ds
  simpa [digitsToNat] using this

theorem digitsToNat_replicate_zero (k : Nat) : digitsToNat (List.replicate k '0') = 0 := by
  have := digitsToNat_replicate_zero_append k []
  simpa [digitsToNat_nil] using this

/-! ### natDigits -/

theorem natDigits_lt (n : Nat) (h : n < 10) : natDigits n = [digitChar n] := by
  rw [natDigits]; simp [h]

theorem natDigits_ge (n : Nat) (h : 10 ≤ n) :
    natDigits n = natDigits (n / 10) ++ [digitChar (n % 10)] := by
  rw [natDigits]; simp [Nat.not_lt.mpr h]

theorem natDigits_zero : natDigits 0 = ['0'] := by
  rw [natDigits_lt 0 (by decide)]; rfl

/-- appending one digit -/
theorem natDigits_mul_add (m d : Nat) (hd : d < 10) :
    natDigits (m * 10 + d) =
      if m = 0 then [digitChar d] else natDigits m ++ [digitChar d] := by
  by_cases hm : m = 0
  · subst hm; simp [natDigits_lt d hd]
  · rw [natDigits_ge _ (by omega)]
    have h1 : (m * 10 + d) / 10 = m := by omega
    have h2 : (m * 10 + d) % 10 = d := by omega
    simp [hm, h1, h2]

theorem natDigits_ne_nil (n : Nat) : natDigits n ≠ [] := by
  by_cases h : n < 10
  · rw [natDigits_lt n h]; simp
  · rw [natDigits_ge n (by omega)]; simp

theorem natDigits_length_pos (n : Nat) : 0 < (natDigits n).length :=
  List.length_pos_iff.mpr (natDigits_ne_nil n)

theorem natDigits_all_digit (n : Nat) : ∀ c ∈ natDigits n, isDigit c = true := by
  induction n using natDigits.induct with
  | case1 n h =>
    rw [natDigits_lt n h]; intro c hc
    simp at hc; subst hc; exact isDigit_digitChar n
  | case2 n h ih =>
    rw [natDigits_ge n (by omega)]; intro c hc
    rw [List.mem_append] at hc
    rcases hc with hc | hc
    · exact ih c hc
    · simp at hc; subst hc; exact isDigit_digitChar _

theorem natDigits_all (n : Nat) : (natDigits n).all isDigit = true := by
  rw [List.all_eq_true]; exact natDigits_all_digit n

theorem minus_not_mem_natDigits (n : Nat) : '-' ∉ natDigits n := by
  intro h
  exact isDigit_ne_minus _ (natDigits_all_digit n _ h) rfl

/-- `natDigits` is a right inverse of `digitsToNat` -/
theorem digitsToNat_natDigits (n : Nat) : digitsToNat (natDigits n) = n := by
  induction n using natDigits.induct with
  | case1 n h =>
    rw [natDigits_lt n h, digitsToNat_singleton, digitVal_digitChar n h]
  | case2 n h ih =>
    rw [natDigits_ge n (by omega), digitsToNat_append_singleton, ih,
      digitVal_digitChar _ (Nat.mod_lt _ (by decide))]
    omega

theorem natDigits_injective (a b : Nat) (h : natDigits a = natDigits b) : a = b := by
  have := congrArg digitsToNat h
  simpa [digitsToNat_natDigits] using this

/-- no leading zero, except for 0 itself -/
theorem natDigits_head_ne_zero (n : Nat) (hn : n ≠ 0) : (natDigits n).head? ≠ some '0' := by
  induction n using natDigits.induct with
  | case1 n h =>
    rw [natDigits_lt n h]
    simp only [List.head?_cons, ne_eq, Option.some.injEq]
    rw [digitChar_eq_zero_iff n h]; exact hn
  | case2 n h ih =>
    rw [natDigits_ge n (by omega)]
    have hne := natDigits_ne_nil (n / 10)
    rw [head?_append_ne_nil _ _ hne]
    exact ih (by omega)

/-- a digit string is its value's `natDigits`, left-padded with zeros to its own length -/
theorem replicate_zero_natDigits_digitsToNat (ds : List Char) (hne : ds ≠ [])
    (hd : ∀ c ∈ ds, isDigit c = true) :
    List.replicate (ds.length - (natDigits (digitsToNat ds)).length) '0' ++
      natDigits (digitsToNat ds) = ds := by
  induction ds using list_snoc_induction with
  | nil => exact absurd rfl hne
  | snoc ds' c ih =>
    have hc : isDigit c = true := hd c (by simp)
    have hlt := digitVal_lt c hc
    rw [digitsToNat_append_singleton, natDigits_mul_add _ _ hlt, digitChar_digitVal c hc]
    by_cases hds' : ds' = []
    · subst hds'; simp [digitsToNat_nil]
    · have ih' := ih hds' (fun c hc => hd c (by simp [hc]))
      have hpos : 0 < ds'.length := List.length_pos_iff.mpr hds'
      by_cases hm : digitsToNat ds' = 0
      · rw [hm, natDigits_zero] at ih'
        simp only [hm, if_true, List.length_append, List.length_singleton] at ih' ⊢
        have e : ds'.length + 1 - 1 = (ds'.length - 1) + 1 := by omega
        rw [e, List.replicate_succ', List.append_assoc]
        rw [← ih']
        simp
      · simp only [hm, if_false, List.length_append, List.length_singleton]
        have e : ds'.length + 1 - ((natDigits (digitsToNat ds')).length + 1) =
            ds'.length - (natDigits (digitsToNat ds')).length := by omega
        rw [e, ← List.append_assoc, ih']

theorem natDigits_length_le (ds : List Char) (hne : ds ≠ [])
    (hd : ∀ c ∈ ds, isDigit c = true) :
    (natDigits (digitsToNat ds)).length ≤ ds.length := by
  have := congrArg List.length (replicate_zero_natDigits_digitsToNat ds hne hd)
  simp at this
  omega

/-- a digit string without a leading zero (or "0" itself) is `natDigits` of its value -/
theorem natDigits_digitsToNat (ds : List Char) (hne : ds ≠ [])
    (hd : ∀ c ∈ ds, isDigit c = true) (h0 : ds.head? ≠ some '0' ∨ ds = ['0']) :
    natDigits (digitsToNat ds) = ds := by
  rcases h0 with h0 | h0
  · have h := replicate_zero_natDigits_digitsToNat ds hne hd
    generalize ds.length - (natDigits (digitsToNat ds)).length = k at h
    cases k with
    | zero => simpa using h
    | succ k =>
      rw [← h] at h0
      simp [List.replicate_succ] at h0
  · subst h0; rw [digitsToNat_singleton, digitVal_zero, natDigits_zero]

/-! ### itoa / zfill -/

theorem itoa_injective (a b : Int) (h : itoa a = itoa b) : a = b := by
  unfold itoa at h
  by_cases ha : a < 0 <;> by_cases hb : b < 0 <;> simp only [ha, hb, if_true, if_false] at h
  · have := natDigits_injective _ _ (List.cons.inj h).2; omega
  · exfalso
    have : '-' ∈ natDigits b.natAbs := by rw [← h]; simp
    exact minus_not_mem_natDigits _ this
  · exfalso
    have : '-' ∈ natDigits a.natAbs := by rw [h]; simp
    exact minus_not_mem_natDigits _ this
  · have := natDigits_injective _ _ h; omega

end Gfs.Proofs
