/-
  GfsProofs.SplitLemmas — a sequence string over the unambiguous domain decomposes
  losslessly (C03).
-/
import GfsModel.Sequence
import GfsSpec.SeqSpec
import GfsProofs.PadLemmas

namespace Gfs.Proofs
open Gfs Gfs.Spec

/-- a run of `p`-chars followed by nothing or by a non-`p` char -/
theorem tw_dw_stop (p : Char → Bool) (a b : Bytes) (ha : ∀ c ∈ a, p c = true)
    (hb : b = [] ∨ ∃ c r, b = c :: r ∧ p c = false) :
    (a ++ b).takeWhile p = a ∧ (a ++ b).dropWhile p = b := by
  rw [List.takeWhile_append_of_pos ha, List.dropWhile_append_of_pos ha]
  rcases hb with rfl | ⟨c, r, rfl, hc⟩
  · simp
  · simp [hc]

theorem mem_takeWhile_pos_split {p : Char → Bool} {l : Bytes} {c : Char}
    (h : c ∈ l.takeWhile p) : p c = true := by
  induction l with
  | nil => simp at h
  | cons a l ih =>
    rw [List.takeWhile_cons] at h
    split at h
    · rename_i ha
      rcases List.mem_cons.mp h with rfl | h'
      · exact ha
      · exact ih h'
    · simp at h

theorem isPrefixOf_singleton {c : Char} {s : Bytes} (h : isPrefixOf [c] s = true) :
    ∃ r, s = c :: r := by
  cases s with
  | nil => simp [isPrefixOf] at h
  | cons a r =>
    simp [isPrefixOf] at h
    exact ⟨r, by rw [h]⟩

theorem isSuffixOf_singleton {c : Char} {s : Bytes} (h : isSuffixOf [c] s = true) :
    ∃ r, s.reverse = c :: r := by
  unfold isSuffixOf at h
  exact isPrefixOf_singleton (by simpa using h)

theorem pathSplit_dir_base (dir base : Bytes)
    (hd : dir = [] ∨ isSuffixOf ['/'] dir = true) (hb : '/' ∉ base) :
    pathSplit (dir ++ base) = (dir, base) := by
  have hstop : dir.reverse = [] ∨ ∃ c r, dir.reverse = c :: r ∧ (decide (c ≠ '/')) = false := by
    rcases hd with rfl | hd
    · left; rfl
    · right
      obtain ⟨r, hr⟩ := isSuffixOf_singleton hd
      exact ⟨'/', r, hr, by decide⟩
  have hall : ∀ c ∈ base.reverse, decide (c ≠ '/') = true := by
    intro c hc
    have : c ∈ base := by simpa using hc
    simp only [decide_eq_true_eq]
    intro h; subst h; exact hb this
  obtain ⟨h1, h2⟩ := tw_dw_stop (fun c => decide (c ≠ '/')) base.reverse dir.reverse hall hstop
  unfold pathSplit
  simp only [List.reverse_append]
  rw [h1, h2]
  simp


theorem ext_stop {ext : Bytes} (he : ext = [] ∨ isPrefixOf ['.'] ext = true)
    (p : Char → Bool) (hp : p '.' = false) :
    ext = [] ∨ ∃ c r, ext = c :: r ∧ p c = false := by
  rcases he with rfl | he
  · left; rfl
  · right
    obtain ⟨r, hr⟩ := isPrefixOf_singleton he
    exact ⟨'.', r, hr, hp⟩

theorem padTokenAt_token (pad ext : Bytes) (t : PadTok) (h : classifyPad pad = some t)
    (he : ext = [] ∨ isPrefixOf ['.'] ext = true) :
    padTokenAt (pad ++ ext) = some (pad, ext) := by
  unfold classifyPad at h
  split at h
  · next hp => subst hp; simp [padTokenAt, isPrefixOf]
  split at h
  · next hp =>
    subst hp
    have hd : isDigit '(' = false := by decide
    simp [padTokenAt, isPrefixOf, hd]
  split at h
  · simp at h
  · rename_i r _ _
    simp only at h
    split at h
    · next hc =>
      obtain ⟨hd, -⟩ := hc
      have hr : r = r.takeWhile isDigit ++ ['d'] := by
        conv => lhs; rw [← List.takeWhile_append_dropWhile (p := isDigit) (l := r)]
        rw [hd]
      have hall : ∀ c ∈ r.takeWhile isDigit, isDigit c = true := fun c hc =>
        mem_takeWhile_pos_split hc
      have hstop : ('d' :: ext) = [] ∨ ∃ c r', ('d' :: ext) = c :: r' ∧ isDigit c = false :=
        Or.inr ⟨'d', ext, rfl, by decide⟩
      obtain ⟨h1, h2⟩ := tw_dw_stop isDigit (r.takeWhile isDigit) ('d' :: ext) hall hstop
      have hre : r ++ ext = r.takeWhile isDigit ++ 'd' :: ext := by
        conv => lhs; rw [hr]
        simp
      simp only [padTokenAt, List.cons_append]
      rw [hre, h1, h2]
      simp
      exact hr.symm
    · simp at h
  · rename_i r _ _
    split at h
    · next hc =>
      obtain ⟨hd, -⟩ := hc
      have hall : ∀ c ∈ r, isDigit c = true := List.all_eq_true.mp hd
      obtain ⟨h1, h2⟩ := tw_dw_stop isDigit r ext hall (ext_stop he isDigit (by decide))
      simp only [padTokenAt, List.cons_append]
      simp [h1, h2]
    · simp at h
  · next hnil hpct hdol =>
    split at h
    · next hall =>
      cases pad with
      | nil => exact absurd rfl hnil
      | cons c r =>
        have hall' : ∀ x ∈ c :: r, (x = '#' || x = '@') = true := List.all_eq_true.mp hall
        have hc : c = '#' ∨ c = '@' := by
          have := hall' c (by simp)
          simpa using this
        obtain ⟨h1, h2⟩ := tw_dw_stop (fun x => x = '#' || x = '@') (c :: r) ext hall'
          (ext_stop he _ (by decide))
        simp only [padTokenAt, List.cons_append, hc, if_true]
        simp only [List.cons_append] at h1 h2
        rw [h1, h2]
    · simp at h


/-! ### the scan for the first pad token -/

theorem padTokenAt_none_of_head (c : Char) (r : Bytes)
    (h1 : c ≠ '#') (h2 : c ≠ '@') (h3 : c ≠ '%') (h4 : c ≠ '$') (h5 : c ≠ '<') :
    padTokenAt (c :: r) = none := by
  simp [padTokenAt, h1, h2, h3, h4, isPrefixOf, Ne.symm h5]

theorem findPad_skip (pre rest tok r : Bytes)
    (hpre : ∀ c ∈ pre, c ≠ '#' ∧ c ≠ '@' ∧ c ≠ '%' ∧ c ≠ '$' ∧ c ≠ '<')
    (hrest : padTokenAt rest = some (tok, r)) (acc : Bytes) :
    findPad acc (pre ++ rest) = some (acc.reverse ++ pre, tok, r) := by
  induction pre generalizing acc with
  | nil =>
    cases rest with
    | nil => simp [padTokenAt] at hrest
    | cons c rs => simp [findPad, hrest]
  | cons c pre ih =>
    obtain ⟨h1, h2, h3, h4, h5⟩ := hpre c (by simp)
    have hn := padTokenAt_none_of_head c (pre ++ rest) h1 h2 h3 h4 h5
    simp only [List.cons_append, findPad, hn]
    rw [ih (fun x hx => hpre x (by simp [hx]))]
    simp

theorem rangeChar_not_padStart {c : Char} (h : isRangeChar c = true) :
    c ≠ '\n' ∧ c ≠ '#' ∧ c ≠ '@' ∧ c ≠ '%' ∧ c ≠ '$' ∧ c ≠ '<' := by
  refine ⟨?_, ?_, ?_, ?_, ?_, ?_⟩ <;> (intro hc; subst hc; revert h; decide)

theorem isDigit_ne_nl {c : Char} (h : isDigit c = true) : c ≠ '\n' := by
  intro hc; subst hc; revert h; decide

/-- no documented pad token contains a newline -/
theorem classifyPad_no_nl (pad : Bytes) (t : PadTok) (h : classifyPad pad = some t) :
    '\n' ∉ pad := by
  unfold classifyPad at h
  split at h
  · next hp => subst hp; decide
  split at h
  · next hp => subst hp; decide
  split at h
  · simp at h
  · rename_i r _ _
    simp only at h
    split at h
    · next hc =>
      obtain ⟨hd, -⟩ := hc
      have hr : r = r.takeWhile isDigit ++ ['d'] := by
        conv => lhs; rw [← List.takeWhile_append_dropWhile (p := isDigit) (l := r)]
        rw [hd]
      intro hm
      rcases List.mem_cons.mp hm with h' | h'
      · exact absurd h' (by decide)
      · rw [hr] at h'
        rcases List.mem_append.mp h' with h'' | h''
        · exact isDigit_ne_nl (mem_takeWhile_pos_split h'') rfl
        · simp at h''
    · simp at h
  · rename_i r _ _
    split at h
    · next hc =>
      obtain ⟨hd, -⟩ := hc
      have hall : ∀ c ∈ r, isDigit c = true := List.all_eq_true.mp hd
      intro hm
      rcases List.mem_cons.mp hm with h' | h'
      · exact absurd h' (by decide)
      rcases List.mem_cons.mp h' with h'' | h''
      · exact absurd h'' (by decide)
      · exact isDigit_ne_nl (hall _ h'') rfl
    · simp at h
  · split at h
    · next hall =>
      have hall' : ∀ x ∈ pad, (x = '#' || x = '@') = true := List.all_eq_true.mp hall
      intro hm
      have := hall' _ hm
      revert this; decide
    · simp at h

/-! ### the range in front of the pad token -/

theorem range_split (name rng : Bytes)
    (hn : ∀ c ∈ name.reverse.takeWhile isRangeChar, isRangeStart c = false)
    (hr : rng = [] ∨ plainRange rng = true) :
    ((name ++ rng).reverse.dropWhile isRangeChar).reverse ++
      (((name ++ rng).reverse.takeWhile isRangeChar).reverse.takeWhile
        (fun c => !isRangeStart c)) = name ∧
    ((name ++ rng).reverse.takeWhile isRangeChar).reverse.dropWhile
        (fun c => !isRangeStart c) = rng := by
  have hall : ∀ c ∈ rng.reverse, isRangeChar c = true := by
    intro c hc
    have hc' : c ∈ rng := by simpa using hc
    rcases hr with rfl | hr
    · simp at hc'
    · unfold plainRange at hr
      simp only [Bool.and_eq_true] at hr
      exact List.all_eq_true.mp hr.1 c hc'
  have hstop : rng = [] ∨ ∃ c r, rng = c :: r ∧ (!isRangeStart c) = false := by
    rcases hr with rfl | hr
    · left; rfl
    · right
      unfold plainRange at hr
      simp only [Bool.and_eq_true] at hr
      cases rng with
      | nil => simp at hr
      | cons c r => exact ⟨c, r, rfl, by simp [hr.2]⟩
  have hn' : ∀ c ∈ (name.reverse.takeWhile isRangeChar).reverse, (!isRangeStart c) = true := by
    intro c hc
    have := hn c (by simpa using hc)
    simp [this]
  obtain ⟨h1, h2⟩ := tw_dw_stop (fun c => !isRangeStart c) _ rng hn' hstop
  rw [List.reverse_append, List.takeWhile_append_of_pos hall, List.dropWhile_append_of_pos hall,
    List.reverse_append, List.reverse_reverse, h1, h2, ← List.reverse_append,
    List.takeWhile_append_dropWhile, List.reverse_reverse]
  exact ⟨rfl, rfl⟩


/-- `NewFrameSet` keeps the range string it was given -/
theorem FrameSet.parse_frange {s : Bytes} {fs : FrameSet} (h : FrameSet.parse s = .ok fs) :
    fs.frange = s := by
  unfold FrameSet.parse at h
  cases hm : frameRangeMatches s with
  | error e => simp [hm, bind, Except.bind] at h
  | ok ms =>
    cases hb : handleMatches [] ms with
    | error e => simp [hm, hb, bind, Except.bind] at h
    | ok bl =>
      simp [hm, hb, bind, Except.bind, pure, Except.pure] at h
      rw [← h]

/-! ### the unambiguous domain, clause by clause -/

structure UnambigFacts (dir base rng pad ext : Bytes) : Prop where
  hdir : dir = [] ∨ isSuffixOf ['/'] dir = true
  hbase : '/' ∉ base
  hname : ∀ c ∈ dir ++ base, c ≠ '\n' ∧ c ≠ '#' ∧ c ≠ '@' ∧ c ≠ '%' ∧ c ≠ '$' ∧ c ≠ '<'
  htail : ∀ c ∈ (dir ++ base).reverse.takeWhile isRangeChar, isRangeStart c = false
  hrng : rng = [] ∨ (plainRange rng = true ∧ ((FrameSet.parse rng).toOption).isSome = true)
  hpad : ∃ t, classifyPad pad = some t
  hext : ext = [] ∨ (isPrefixOf ['.'] ext = true ∧ '\n' ∉ ext)

theorem unambig_facts {dir base rng pad ext : Bytes} (h : unambig dir base rng pad ext = true) :
    UnambigFacts dir base rng pad ext := by
  unfold unambig at h
  simp only [Bool.and_eq_true, Bool.or_eq_true, Bool.not_eq_true', List.isEmpty_iff,
    List.all_eq_true] at h
  obtain ⟨⟨⟨⟨⟨⟨⟨⟨⟨⟨⟨hdir, hbase⟩, hnl⟩, hh⟩, hat⟩, hpc⟩, hdl⟩, hlt⟩, htail⟩, hrng⟩, hpad⟩, hext⟩ := h
  have nc : ∀ {x : Char} {l : Bytes}, l.contains x = false → x ∉ l := by
    intro x l hx hm
    have := List.contains_iff_mem.mpr hm
    rw [hx] at this
    exact Bool.false_ne_true this
  refine ⟨hdir, nc hbase, ?_, ?_, ?_, ?_, ?_⟩
  · intro c hc
    refine ⟨?_, ?_, ?_, ?_, ?_, ?_⟩ <;> (intro hx; subst hx)
    · exact nc hnl hc
    · exact nc hh hc
    · exact nc hat hc
    · exact nc hpc hc
    · exact nc hdl hc
    · exact nc hlt hc
  · intro c hc
    exact htail c hc
  · exact hrng
  · exact Option.isSome_iff_exists.mp hpad
  · rcases hext with he | ⟨he1, he2⟩
    · exact Or.inl he
    · exact Or.inr ⟨he1, nc he2⟩

theorem splitSeq_unambig (dir base rng pad ext : Bytes) (h : unambig dir base rng pad ext = true) :
    splitSeq (dir ++ base ++ rng ++ pad ++ ext) = some (dir ++ base, rng, pad, ext) := by
  have F := unambig_facts h
  obtain ⟨t, ht⟩ := F.hpad
  have hrngc : ∀ c ∈ rng, isRangeChar c = true := by
    intro c hc
    rcases F.hrng with rfl | ⟨hr, -⟩
    · simp at hc
    · unfold plainRange at hr
      simp only [Bool.and_eq_true] at hr
      exact List.all_eq_true.mp hr.1 c hc
  -- no newline anywhere
  have hnl : (dir ++ base ++ rng ++ pad ++ ext).contains '\n' = false := by
    rw [Bool.eq_false_iff]
    intro hc
    have hm := List.contains_iff_mem.mp hc
    simp only [List.mem_append] at hm
    rcases hm with (((hm | hm) | hm) | hm) | hm
    · exact (F.hname _ (List.mem_append.mpr (Or.inl hm))).1 rfl
    · exact (F.hname _ (List.mem_append.mpr (Or.inr hm))).1 rfl
    · exact (rangeChar_not_padStart (hrngc _ hm)).1 rfl
    · exact classifyPad_no_nl pad t ht hm
    · rcases F.hext with rfl | ⟨-, he⟩
      · simp at hm
      · exact he hm
  -- the first pad token is `pad`
  have hext' : ext = [] ∨ isPrefixOf ['.'] ext = true := by
    rcases F.hext with he | ⟨he, -⟩
    · exact Or.inl he
    · exact Or.inr he
  have htok := padTokenAt_token pad ext t ht hext'
  have hpre : ∀ c ∈ dir ++ base ++ rng, c ≠ '#' ∧ c ≠ '@' ∧ c ≠ '%' ∧ c ≠ '$' ∧ c ≠ '<' := by
    intro c hc
    rcases List.mem_append.mp hc with hc | hc
    · exact (F.hname c hc).2
    · exact (rangeChar_not_padStart (hrngc c hc)).2
  have hfind : findPad [] (dir ++ base ++ rng ++ pad ++ ext) =
      some (dir ++ base ++ rng, pad, ext) := by
    have := findPad_skip (dir ++ base ++ rng) (pad ++ ext) pad ext hpre htok []
    simpa [List.append_assoc] using this
  have hr : rng = [] ∨ plainRange rng = true := by
    rcases F.hrng with hr | ⟨hr, -⟩
    · exact Or.inl hr
    · exact Or.inr hr
  obtain ⟨h1, h2⟩ := range_split (dir ++ base) rng F.htail hr
  unfold splitSeq
  rw [hnl, hfind]
  simp only [Bool.false_eq_true, if_false]
  rw [h1, h2]

/-- C03 core: parsing the concatenation returns exactly the five components, the pad width
    the token denotes under the chosen style, and the frame set of the range -/
theorem parse_unambig (st : PadStyle) (dir base rng pad ext : Bytes)
    (h : unambig dir base rng pad ext = true) :
    ∃ t, classifyPad pad = some t ∧
    Seq.parse st (dir ++ base ++ rng ++ pad ++ ext) =
      .ok ⟨base, dir, ext, pad, t.width st, (FrameSet.parse rng).toOption, st⟩ := by
  have F := unambig_facts h
  obtain ⟨t, ht⟩ := F.hpad
  refine ⟨t, ht, ?_⟩
  have hw := (padSize_classify st pad t ht).1
  unfold Seq.parse
  rw [splitSeq_unambig dir base rng pad ext h]
  simp only [pathSplit_dir_base dir base F.hdir F.hbase, Seq.setPadding, hw]

/-- … and String() reproduces the input byte for byte -/
theorem str_unambig (st : PadStyle) (dir base rng pad ext : Bytes)
    (h : unambig dir base rng pad ext = true) :
    ∃ s, Seq.parse st (dir ++ base ++ rng ++ pad ++ ext) = .ok s ∧
      s.str = dir ++ base ++ rng ++ pad ++ ext := by
  obtain ⟨t, -, hp⟩ := parse_unambig st dir base rng pad ext h
  refine ⟨_, hp, ?_⟩
  have F := unambig_facts h
  have hfr : Seq.frameRange ⟨base, dir, ext, pad, t.width st,
      (FrameSet.parse rng).toOption, st⟩ = rng := by
    unfold Seq.frameRange
    cases hpr : FrameSet.parse rng with
    | error e =>
      rcases F.hrng with rfl | ⟨-, hs⟩
      · simp [Except.toOption]
      · rw [hpr] at hs
        simp [Except.toOption] at hs
    | ok fs => simp [Except.toOption, FrameSet.parse_frange hpr]
  simp only [Seq.str]
  rw [hfr]

end Gfs.Proofs

