import GfsModel.OpsAll
import GfsModel.SeqOps
