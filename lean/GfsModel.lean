import GfsModel.Basic
import GfsModel.Ranges
import GfsModel.FrameSet
import GfsModel.Proto
import GfsModel.Ops
