import GfsGen.Facts
