import GfsProofs.RngLemmas
import GfsProofs.BlocksLemmas
import GfsProofs.ParseSyn
import GfsProofs.ParseSem
import GfsProofs.ListViews
import GfsProofs.NormLemmas
import GfsProofs.StrParse
import GfsProofs.PadRangeLemmas
