/-
  C19 — the C++ port computes the same results as the Go library.

  How the property is decided.  The port is modelled by the SAME Lean definitions as the Go
  code wherever it is a transliteration (Range / Ranges arithmetic, handleMatch,
  framesToFrameRange, the regex recognisers, the pad mapping, FileSequence::init, the directory
  scan on uniformly padded directories); there "same result" is reflexivity and the content of
  the check is that BOTH implementations correspond to that one definition (three-way run:
  C++ driver = model, Go harness = model, C++ = Go).  Where the port differs structurally it has
  its own definition in GfsModel.Cpp, and the theorems below prove that the difference is
  invisible on the property's domain:

    * splitting with std::getline, std::stol, FrameSet::isValid()       → C19_parse
    * zfill(Frame,int) through setw / setfill / internal                 → C19_zfill
    * padFrameRange re-printing the parsed numbers                       → C19_padded_ranges
    * FileSequence::length() being at least 1                            → C19_length

  Not proved (tie only): std::regex (ECMAScript) against RE2 for the five patterns; the
  directory scan of the port (no width regrouping, re-parse of the rebuilt string) against the
  Go scan — compared on generated directories of the property's domain.
-/
import GfsModel.Cpp
import GfsSpec.Grammar
import GfsProofs.CppLemmas
import GfsProps.C15
import GfsProofs.ListOrder
import GfsProofs.CppScan
import GfsGen.Facts
import GfsModel.ExpectedSrc

namespace Gfs.Props.C19
open Gfs Gfs.Spec Gfs.Proofs

/-- A range text that the Go library accepts and that denotes at least one frame is accepted
    by the port, and the port holds exactly the same block list.  Every answer derived from the
    blocks — validity, frame list, length, frame at an index, index of a frame, membership,
    start, end, normalised and inverted ranges — is therefore the same, for every query. -/
theorem C19_parse (s : Bytes) (fs : FrameSet) (h : FrameSet.parse s = .ok fs) (hlen : fs.len ≠ 0) :
    Cpp.parse s = .ok fs :=
  cpp_parse_eq s fs h hlen

/-- … and both libraries' `isFrameRange` say yes to it (the Go side is C15_isFrameRange). -/
theorem C19_isFrameRange (s : Bytes) (fs : FrameSet) (h : FrameSet.parse s = .ok fs) :
    Cpp.isFrameRange s = .ok true ∧ isFrameRange s = true := by
  exact ⟨cpp_isFrameRange_of_parse s fs h, (Gfs.Props.C15.C15_isFrameRange s).2 ⟨fs, h⟩⟩

/-- `zfill(Frame, int)` of the port prints what `zfillInt` / `%0Nd` of the Go library prints,
    for every value and every width (so frame paths agree once the components agree). -/
theorem C19_zfill (v z : Int) : Cpp.zfill v z = zfillInt v z :=
  cpp_zfill_eq v z

/-- Padded ranges.  For a text of a non-empty component list whose numbers fit a long, the
    port's `padFrameRange` and the Go library's `PadFrameRange` both return a text of the same
    component list (same numbers, modifiers and steps, component by component, in order):
    they differ at most in redundant leading zeros. -/
theorem C19_padded_ranges (cs : List Comp) (parts : List Bytes) (w : Int)
    (h : Forall2 CompText cs parts) (hne : cs ≠ []) (hf : ∀ c ∈ cs, c.fits) :
    (∃ pc, Forall2 CompText cs pc ∧ Cpp.padFrameRange (joinWith ',' parts) w = joinWith ',' pc) ∧
    (∃ pg, Forall2 CompText cs pg ∧ padFrameRange (joinWith ',' parts) w = joinWith ',' pg) :=
  padFrameRange_both cs parts w h hne hf

/-- … and every frame numeral the port prints is at least `w` characters wide. -/
theorem C19_padded_width (v w : Int) (h : 2 ≤ w) : w ≤ (Cpp.zfill v w).length :=
  cpp_zfill_length v w h

/-- `FileSequence::length()` (at least 1) equals `Len()` for every sequence whose frame range
    denotes at least one frame, and for every sequence without a frame range. -/
theorem C19_length (s : Seq) (h : ∀ fs, s.frameSet = some fs → 1 ≤ fs.len) : Cpp.seqLen s = s.len := by
  unfold Cpp.seqLen Seq.len
  cases hfs : s.frameSet with
  | none => rfl
  | some fs =>
    have := h fs hfs
    simp only
    split <;> omega

/-- Directory scan, one bucket of the property's domain (two or more frames, one digit width):
    the port builds `<dir><basename><range><pad><ext>`, parses it and forces the components it
    found while scanning (fix 2e259d6); the Go library builds the sequence from the components.
    For a directory prefix ending in '/', names without a newline and a range text that parses,
    the two are the same sequence — whatever the basename contains (pad characters, range-like
    text). The bucket building itself (first-seen order vs `std::map`, minimum width) is a
    transliteration and is tied by the three-way run. -/
theorem C19_scan_bucket (st : PadStyle) (b : SeqInfo) (w : Nat) (fs : FrameSet)
    (hlen : 2 ≤ b.frames.length) (hw : ∀ f ∈ b.frames, f.frame.length = w) (hw1 : 1 ≤ w)
    (hdir : b.dir.isEmpty = true ∨ isSuffixOf ['/'] b.dir = true)
    (hext : b.ext = [] ∨ isPrefixOf ['.'] b.ext = true)
    (hnl : (b.dir ++ b.base ++ framesToFrameRange (b.frames.map (·.num)) true 0 ++
            padChars st w ++ b.ext).contains '\n' = false)
    (hp : FrameSet.parse (framesToFrameRange (b.frames.map (·.num)) true 0) = .ok fs) :
    ∃ s, Cpp.bucketSeq st b.dir b.base (framesToFrameRange (b.frames.map (·.num)) true 0)
            (padChars st w) b.ext = .ok s ∧ bucketSeqs st b = [s] := by
  refine ⟨_, ?_, Order.bucketSeqs_uniform st b w hlen hw⟩
  have hne : framesToFrameRange (b.frames.map (·.num)) true 0 ≠ [] := by
    intro h0
    rw [h0] at hp
    have : (match FrameSet.parse ([] : Bytes) with | .ok _ => true | .error _ => false) = false := by decide
    rw [hp] at this
    cases this
  have hpad : padChars st w ≠ [] ∧ ∀ c ∈ padChars st w, c = '#' ∨ c = '@' := by
    refine ⟨ListAux.padChars_ne_nil st w, ?_⟩
    intro c hc
    cases st with
    | hash4 =>
      simp only [padChars] at hc
      split at hc
      · omega
      · split at hc
        · exact Or.inl (List.eq_of_mem_replicate hc)
        · exact Or.inr (List.eq_of_mem_replicate hc)
    | hash1 =>
      simp only [padChars] at hc
      split at hc
      · omega
      · exact Or.inl (List.eq_of_mem_replicate hc)
  exact cpp_bucketSeq_eq st b.dir b.base _ (padChars st w) b.ext fs hdir hext hpad hnl hne hp

/-- Directory scan, a frame-less file: the port constructs a FileSequence from the full path and
    then forces the directory (fix ae21c36), basename and extension it found while scanning; when
    the constructor accepts the path the entry is the one the Go library builds from the
    components, whatever the directory's own name contains. -/
theorem C19_scan_frameless (st : PadStyle) (path dir base ext : Bytes) (s0 : Seq)
    (hdir : dir.isEmpty = true ∨ isSuffixOf ['/'] dir = true)
    (hext : ext = [] ∨ isPrefixOf ['.'] ext = true)
    (hp : Seq.parse st path = .ok s0) :
    Cpp.singleSeq st path dir base [] ext = .ok (rebuild st dir base [] [] ext) :=
  cpp_singleSeq_frameless st path dir base ext s0 hdir hext hp

/-- Directory scan, whole. `Cpp.scan` is the port's two-pass `findSequencesOnDisk` (buckets keyed
    by (basename, ext) with a running minimum width, single files built by the constructor and
    then forced), `findSequencesOnDisk` the Go one. For a clean directory argument (the port
    appends a separator, Go cleans the path first), no dangling link, buckets of two or more
    frames of one digit width, and every other kept name a frame-less file the constructor
    accepts: both report the same sequences and the same single files — the port lists the single
    files first, Go last, and neither promises an order. -/
theorem C19_scan (o : ListOpts) (path : Bytes) (entries : List Entry)
    (hpath : Cpp.rootOf path = dirPrefix path)
    (hroot : isSuffixOf ['/'] (dirPrefix path) = true)
    (hnd : ∀ e ∈ entries, e.kind ≠ .dangling)
    (hsingle : ∀ e ∈ entries, CppScan.kept e = true →
        (o.hidden = true ∨ isPrefixOf ['.'] e.name = false) → CppScan.SingleOk o (dirPrefix path) e.name)
    (hdom : CppScan.BucketsDom (scanItems o none
        ((entries.filter fun e => e.kind = .file ∨ e.kind = .linkFile).map
          fun e => ⟨dirPrefix path, e.name⟩) [] [])) :
    ∃ seqs files, findSequencesOnDisk (some entries) path o = .ok (seqs ++ files) ∧
                  Cpp.scan (some entries) path o = .ok (files ++ seqs) := by
  obtain ⟨gs, cs, files, hgo, hcpp, hrel, hinv, hcinv⟩ :=
    CppScan.scan_sim o (dirPrefix path) (Or.inr hroot) entries [] [] [] hnd hsingle .nil
      (fun _ h => by cases h) (fun _ h => by cases h)
  have hd : ∀ g ∈ gs, CppScan.BucketDom g := by rw [hgo] at hdom; exact hdom
  have hb := CppScan.buckets_out o.style (dirPrefix path) (Or.inr hroot) gs cs hrel hinv hcinv hd
  have hany : (entries.any fun e => e.kind = .dangling) = false := by
    rw [List.any_eq_false]
    intro e he
    simpa using hnd e he
  refine ⟨(gs.map (bucketSeqs o.style)).flatten, files, ?_, ?_⟩
  · unfold findSequencesOnDisk scanDir
    simp only [hany, Bool.false_eq_true, if_false]
    unfold findInItems
    rw [hgo]
    cases hs : o.single
    · have := CppScan.scanItems_files o hs _ _ _ _ _ hgo
      subst this
      rfl
    · rfl
  · unfold Cpp.scan
    simp only [hpath, hcpp, hb]

/-- Pattern lookup. `Cpp.find` is the port's `findSequenceOnDisk`: the pattern is parsed in the
    caller's style, its directory is scanned with the pattern as a template — with the default
    options and the DEFAULT pad style —, the middle of a candidate name is tested by hand (an
    optional '-', digits, no ERANGE), the first result with the pattern's basename and extension
    is switched to the caller's style. The Go lookup scans in the caller's style and tests the
    middle with its frame pattern and `Atoi`. For a pattern the constructor accepts, a readable
    directory without dangling links and candidates of one digit width (two or more): the same
    answer. -/
theorem C19_find (lookup : Bytes → DirSpec) (pat : Bytes) (st : PadStyle) (fs : Seq) (entries : List Entry)
    (hp : Seq.parse st pat = .ok fs) (hl : lookup (openDir fs.dir) = some entries)
    (hdir : fs.dir.isEmpty = true ∨ isSuffixOf ['/'] fs.dir = true)
    (hnd : ∀ e ∈ entries, e.kind ≠ .dangling)
    (hdom : CppScan.BucketsDom (scanItems ⟨false, false, st⟩ (some fs)
        ((entries.filter fun e => e.kind = .file ∨ e.kind = .linkFile).map
          fun e => ⟨dirPrefix (openDir fs.dir), e.name⟩) [] [])) :
    Cpp.find lookup pat st = findSequenceOnDisk lookup pat st false false := by
  obtain ⟨gs, cs, hgo, hcpp, hrel, hinv, hcinv⟩ :=
    CppScan.scanT_sim ⟨false, false, st⟩ ⟨false, false, .hash4⟩ rfl fs (dirPrefix (openDir fs.dir)) entries [] [] []
      hnd .nil (fun _ h => by cases h) (fun _ h => by cases h)
  have hd : ∀ g ∈ gs, CppScan.BucketDom g := by rw [hgo] at hdom; exact hdom
  obtain ⟨h1, h2⟩ := CppScan.buckets_out2 st .hash4 fs.dir hdir gs cs hrel hinv hcinv hd
  have hany : (entries.any fun e => e.kind = .dangling) = false := by
    rw [List.any_eq_false]
    intro e he
    simpa using hnd e he
  unfold Cpp.find findSequenceOnDisk scanDir findInItems
  simp only [hp, hl, hany, Bool.false_eq_true, if_false, hcpp, h1]
  rw [hgo]
  simp only [bind, Except.bind, pure, Except.pure, h2, List.append_nil]
  rw [CppScan.pick_eq st fs.base fs.ext gs hd]
  congr 1
  simp

/-- … and when the constructor rejects the pattern both answer "no match", when the directory
    cannot be read both fail -/
theorem C19_find_rejects (lookup : Bytes → DirSpec) (pat : Bytes) (st : PadStyle) :
    (∀ e, Seq.parse st pat = .error e →
      Cpp.find lookup pat st = .ok none ∧ findSequenceOnDisk lookup pat st false false = .ok none) ∧
    (∀ fs, Seq.parse st pat = .ok fs → lookup (openDir fs.dir) = none →
      Cpp.find lookup pat st = .error .io ∧ findSequenceOnDisk lookup pat st false false = .error .io) := by
  refine ⟨?_, ?_⟩
  · intro e he
    unfold Cpp.find findSequenceOnDisk
    simp [he]
  · intro fs hfs hl
    unfold Cpp.find findSequenceOnDisk scanDir
    simp [hfs, hl]

/-- the hypotheses of `C19_find`, as one decidable check -/
def findDomOk (st : PadStyle) (pat : Bytes) (entries : List Entry) : Bool :=
  match Seq.parse st pat with
  | .error _ => false
  | .ok fs =>
    decide (fs.dir.isEmpty = true ∨ isSuffixOf ['/'] fs.dir = true) &&
    decide (∀ e ∈ entries, e.kind ≠ .dangling) &&
    decide (CppScan.BucketsDom (scanItems ⟨false, false, st⟩ (some fs)
      ((entries.filter fun e => e.kind = .file ∨ e.kind = .linkFile).map
        fun e => ⟨dirPrefix (openDir fs.dir), e.name⟩) [] []))

/-- they are satisfiable, and there the port (scanning in the default style) and the Go library
    (scanning in the caller's hash1 style) give the same, non-trivial answer -/
example :
    findDomOk .hash1 "/T/d/a.#.exr".toList
      [⟨"a.0001.exr".toList, .file⟩, ⟨"sub".toList, .dir⟩, ⟨"a.exr".toList, .file⟩,
       ⟨"a.0003.exr".toList, .linkFile⟩, ⟨"a.x.exr".toList, .file⟩, ⟨"a.0002.exr".toList, .file⟩] = true ∧
    (match Cpp.find (fun _ => some
      [⟨"a.0001.exr".toList, .file⟩, ⟨"sub".toList, .dir⟩, ⟨"a.exr".toList, .file⟩,
       ⟨"a.0003.exr".toList, .linkFile⟩, ⟨"a.x.exr".toList, .file⟩, ⟨"a.0002.exr".toList, .file⟩])
        "/T/d/a.#.exr".toList .hash1 with
      | .ok (some s) => s.str | _ => []) = "/T/d/a.1-3####.exr".toList := by
  decide +kernel

/-- the hypotheses of `C19_scan` are satisfiable (a directory with a three-frame sequence, a
    frame-less file, a hidden file and a sub-directory, single files wanted), and on it the two
    scans give what the theorem says -/
def exOpts : ListOpts := ⟨true, false, .hash4⟩
def exDir : List Entry := [⟨"a.0001.exr".toList, .file⟩, ⟨"sub".toList, .dir⟩,
  ⟨"notes.txt".toList, .file⟩, ⟨".hid.7.x".toList, .file⟩, ⟨"a.0003.exr".toList, .linkFile⟩,
  ⟨"a.0002.exr".toList, .file⟩]

example :
    Cpp.rootOf "/T/d".toList = dirPrefix "/T/d".toList ∧
    isSuffixOf ['/'] (dirPrefix "/T/d".toList) = true ∧
    (∀ e ∈ exDir, e.kind ≠ .dangling) ∧
    (∀ e ∈ exDir, CppScan.kept e = true →
        (exOpts.hidden = true ∨ isPrefixOf ['.'] e.name = false) →
        CppScan.SingleOk exOpts (dirPrefix "/T/d".toList) e.name) ∧
    CppScan.BucketsDom (scanItems exOpts none
        ((exDir.filter fun e => e.kind = .file ∨ e.kind = .linkFile).map
          fun e => ⟨dirPrefix "/T/d".toList, e.name⟩) [] []) := by
  decide +kernel

example :
    (match Cpp.scan (some exDir) "/T/d".toList exOpts with
      | .ok l => l.map (·.str) | .error _ => []) =
      ["/T/d/notes.txt".toList, "/T/d/a.1-3#.exr".toList] ∧
    (match findSequencesOnDisk (some exDir) "/T/d".toList exOpts with
      | .ok l => l.map (·.str) | .error _ => []) =
      ["/T/d/a.1-3#.exr".toList, "/T/d/notes.txt".toList] := by
  decide +kernel

/-- outside the domain the two really differ: a range that parses but denotes no frame is a
    valid empty frame set in Go and an invalid FrameSet in the port (why the property excludes
    it), and a trailing comma is rejected by Go only. -/
example : (match Cpp.parse "5-5y1".toList with | .invalid => true | _ => false) = true ∧
          (match FrameSet.parse "5-5y1".toList with | .ok fs => fs.len == 0 | .error _ => false) = true := by
  decide

example : (match Cpp.parse "1,".toList with | .ok fs => fs.len == 1 | _ => false) = true ∧
          (match FrameSet.parse "1,".toList with | .ok _ => false | .error _ => true) = true := by
  decide

/-- non-vacuity -/
example : (match Cpp.parse " 10-1x3, 4#".toList with | .ok fs => fs.frames | _ => []) = [10, 7, 4, 1] := by
  decide

/-- the hypotheses of `C19_padded_ranges` are satisfiable: "007-10x02" is a text of 7-10x2 -/
example : Forall2 CompText [Comp.stepped 7 10 'x' 2] ["007-10x02".toList] ∧
    ([Comp.stepped 7 10 'x' 2] ≠ []) ∧ (∀ c ∈ [Comp.stepped 7 10 'x' 2], c.fits) := by
  refine ⟨.cons ⟨.complex "007".toList "10".toList 'x' "02".toList, ?_, rfl⟩ .nil, by simp, ?_⟩
  · exact .stepped ⟨false, "007".toList, by decide, by decide, rfl, by decide⟩
      ⟨false, "10".toList, by decide, by decide, rfl, by decide⟩
      ⟨false, "02".toList, by decide, by decide, rfl, by decide⟩ (Or.inl rfl)
  · intro c hc
    simp only [List.mem_singleton] at hc
    subst hc
    simp [Comp.fits, Fits, minInt64, maxInt64]

/-- the declarations of /repo this property's model and specification were written from are,
    on this run, the ones the model was last aligned with (digest of their comment- and
    layout-insensitive fingerprints, re-extracted by tools/gofacts) -/
theorem C19_source : Gfs.Gen.sourceDigestC19 = Gfs.expectedSourceDigestC19 := by decide

end Gfs.Props.C19
