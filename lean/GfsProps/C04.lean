/-
  C04 — Frame and Index yield the real file path of each frame.
-/
import GfsModel.Sequence
import GfsModel.SeqOps
import GfsSpec.SeqSpec
import GfsSpec.WF
import GfsProofs.IndexLemmas
import GfsProps.C02
import GfsGen.Facts
import GfsModel.ExpectedSrc

namespace Gfs.Props.C04
open Gfs Gfs.Spec Gfs.Proofs

/-- the path of frame f is dirname + basename + f zero-padded to the pad width (the sign
    counts towards the width, as printf %0Nd) + extension — for every sequence that has a
    frame set and every integer f -/
theorem C04_frame (s : Seq) (h : s.frameSet.isSome = true) (f : Int) :
    s.frameInt f = framePath s.dir s.base s.ext s.zfill f :=
  frameInt_eq s h f

/-- the path at index i is the path of the i-th frame of its frame set; an index outside
    [0,len) gives the empty string — for every sequence whose frame set was parsed -/
theorem C04_index (s : Seq) (fs : FrameSet) (r : Bytes) (h : s.frameSet = some fs)
    (hp : FrameSet.parse r = .ok fs) (i : Int) :
    s.index i =
      if 0 ≤ i ∧ i < (fs.frames.length : Int)
      then framePath s.dir s.base s.ext s.zfill (fs.frames.getD i.toNat 0) else [] :=
  index_eq s fs h (C02.C02_wf r fs hp) i

/-- the len paths are pairwise distinct -/
theorem C04_distinct (s : Seq) (fs : FrameSet) (r : Bytes) (h : s.frameSet = some fs)
    (hp : FrameSet.parse r = .ok fs) : s.paths.Nodup :=
  paths_nodup s fs h (C02.C02_wf r fs hp)

/-- zero filling is printf's %0Nd and is injective in the frame number -/
theorem C04_zfill (f w : Int) : zfillInt f w = zfillSpec f w := zfillInt_eq_spec f w

theorem C04_zfill_injective (w a b : Int) (h : zfillSpec a w = zfillSpec b w) : a = b :=
  zfillSpec_injective w a b h

/-- Parsing a concrete single-file path (no pad-token character, no newline) and asking for
    index 0 gives back that same path, whether or not a frame number was recognised in it —
    for every such path whose recognised frame token is not a negative zero ("-0", "-00", …).
    The excluded class is the recorded finding C04/neg-zero: it is false there, see
    `C04_single_file_counterexample`. -/
theorem C04_single_file_partial (st : PadStyle) (p : Bytes) (hp : PlainPath p) (hnz : ¬ NegZeroFrame p) :
    ∃ s, Seq.parse st p = .ok s ∧ s.index 0 = p :=
  single_file_roundtrip st p hp hnz

/-- the parse of the witness "foo.-0.exr" of the recorded finding -/
def negZeroWitness : Seq :=
  ⟨['f','o','o','.'], [], ['.','e','x','r'], ['@','@'], 2, some ⟨['-','0'], [⟨0,0,1⟩]⟩, .hash4⟩

/-- the negation at the witness of the recorded finding: "foo.-0.exr" parses, and index 0
    gives "foo.00.exr", a different path -/
theorem C04_single_file_counterexample :
    Seq.parse .hash4 ['f','o','o','.','-','0','.','e','x','r'] = .ok negZeroWitness ∧
    negZeroWitness.index 0 = ['f','o','o','.','0','0','.','e','x','r'] := by
  refine ⟨rfl, ?_⟩
  have hv : (⟨['-','0'], [⟨0,0,1⟩]⟩ : FrameSet).frame 0 = .ok 0 := rfl
  have h0 : natDigits 0 = ['0'] := natDigits_zero
  simp [negZeroWitness, Seq.index, hv, Seq.frameInt, zfillInt, h0]

/-- non-vacuity of the single-file theorem: "a-12.x" meets its hypotheses -/
example : ∃ s, Seq.parse .hash1 ['a','-','1','2','.','x'] = .ok s ∧ s.index 0 = ['a','-','1','2','.','x'] := by
  apply C04_single_file_partial
  · intro c hc; simp at hc; rcases hc with rfl|rfl|rfl|rfl|rfl|rfl <;> decide
  · rintro ⟨name, fr, ext, h, zs, _, hz, hfr⟩
    have : singleFrame ['a','-','1','2','.','x'] = some (['a'], ['-','1','2'], ['.','x']) := by decide
    rw [this] at h
    simp at h
    obtain ⟨_, rfl, _⟩ := h
    simp at hfr
    have := hz '1' (by rw [← hfr]; simp)
    exact absurd this (by decide)

/-- the declarations of /repo this property's model and specification were written from are,
    on this run, the ones the model was last aligned with (digest of their comment- and
    layout-insensitive fingerprints, re-extracted by tools/gofacts) -/
theorem C04_source : Gfs.Gen.sourceDigestC04 = Gfs.expectedSourceDigestC04 := by decide

end Gfs.Props.C04
