/-
  C07 — FindSequenceOnDisk returns exactly the pattern's on-disk frames, never panics.
  (OS side is a parameter of the model: partial, see C06.)
-/
import GfsModel.Disk
import GfsProofs.DiskLemmas
import GfsGen.Facts
import GfsModel.ExpectedSrc

namespace Gfs.Props.C07
open Gfs Gfs.Spec Gfs.Proofs

/-- an unparsable pattern is a nil result -/
theorem C07_bad_pattern (lookup : Bytes → DirSpec) (pat : Bytes) (st : PadStyle) (strict hidden : Bool)
    (h : ∃ e, Seq.parse st pat = .error e) :
    findSequenceOnDisk lookup pat st strict hidden = .ok none :=
  find_bad_pattern lookup pat st strict hidden h

/-- a missing (unreadable) directory is an error -/
theorem C07_missing_dir (lookup : Bytes → DirSpec) (pat : Bytes) (st : PadStyle) (strict hidden : Bool)
    (fs : Seq) (h : Seq.parse st pat = .ok fs) (hd : lookup fs.dir = none) :
    ∃ e, findSequenceOnDisk lookup pat st strict hidden = .error e :=
  find_missing_dir lookup pat st strict hidden fs h hd

/-- a result has the pattern's basename and extension, the requested pad style, and with
    StrictPadding (pattern with padding) exactly the pattern's pad width -/
theorem C07_result (lookup : Bytes → DirSpec) (pat : Bytes) (st : PadStyle) (strict hidden : Bool)
    (fs s : Seq) (h : Seq.parse st pat = .ok fs)
    (hr : findSequenceOnDisk lookup pat st strict hidden = .ok (some s)) :
    s.base = fs.base ∧ s.ext = fs.ext ∧ s.style = st ∧
    (strict = true → fs.pad ≠ [] → s.zfill = fs.zfill) :=
  find_result lookup pat st strict hidden fs s h hr

/-- sibling files never contribute: the glob buckets only names of the form
    basename + frame number + extension, all under the pattern's own key, and produces no
    single-file entries -/
theorem C07_glob_only_frames (o : ListOpts) (t : Seq) (items : List FileItem)
    (bs' : List SeqInfo) (files' : List Seq)
    (h : scanItems o (some t) items [] [] = .ok (bs', files')) :
    files' = [] ∧ ∀ b ∈ bs', b.dir = t.dir ∧ b.base = t.base ∧ b.ext = t.ext := by
  obtain ⟨hf, hb⟩ := scan_template_tokens o t items [] [] bs' files' h
  refine ⟨hf, ?_⟩
  intro b hbm
  rcases hb b hbm with h0 | h1
  · simp at h0
  · exact h1

/-- the glob's slice expression is within bounds under the guard the code tests -/
theorem C07_slice_in_bounds (base ext name : Bytes) (h : base.length + ext.length ≤ name.length) :
    base.length ≤ name.length - ext.length ∧ name.length - ext.length ≤ name.length := by omega

/-- the declarations of /repo this property's model and specification were written from are,
    on this run, the ones the model was last aligned with (digest of their comment- and
    layout-insensitive fingerprints, re-extracted by tools/gofacts) -/
theorem C07_source : Gfs.Gen.sourceDigestC07 = Gfs.expectedSourceDigestC07 := by decide

end Gfs.Props.C07
