/-
  C07 — FindSequenceOnDisk returns exactly the pattern's on-disk frames, never panics.
  (OS side is a parameter of the model: partial, see C06.)
-/
import GfsProofs.FindComplete
import GfsProofs.CompressLemmas
import GfsModel.Disk
import GfsProofs.DiskLemmas
import GfsGen.Facts
import GfsModel.ExpectedSrc

namespace Gfs.Props.C07
open Gfs Gfs.Spec Gfs.Proofs

/-- an unparsable pattern is a nil result -/
theorem C07_bad_pattern (lookup : Bytes → DirSpec) (pat : Bytes) (st : PadStyle) (strict hidden : Bool)
    (h : ∃ e, Seq.parse st pat = .error e) :
    findSequenceOnDisk lookup pat st strict hidden = .ok none :=
  find_bad_pattern lookup pat st strict hidden h

/-- a missing (unreadable) directory is an error -/
theorem C07_missing_dir (lookup : Bytes → DirSpec) (pat : Bytes) (st : PadStyle) (strict hidden : Bool)
    (fs : Seq) (h : Seq.parse st pat = .ok fs) (hd : lookup (openDir fs.dir) = none) :
    ∃ e, findSequenceOnDisk lookup pat st strict hidden = .error e :=
  find_missing_dir lookup pat st strict hidden fs h hd

/-- a result has the pattern's basename and extension, the requested pad style, and with
    StrictPadding (pattern with padding) exactly the pattern's pad width -/
theorem C07_result (lookup : Bytes → DirSpec) (pat : Bytes) (st : PadStyle) (strict hidden : Bool)
    (fs s : Seq) (h : Seq.parse st pat = .ok fs)
    (hr : findSequenceOnDisk lookup pat st strict hidden = .ok (some s)) :
    s.base = fs.base ∧ s.ext = fs.ext ∧ s.style = st ∧
    (strict = true → fs.pad ≠ [] → s.zfill = fs.zfill) :=
  find_result lookup pat st strict hidden fs s h hr

/-- sibling files never contribute: the glob buckets only names of the form
    basename + frame number + extension, all under the pattern's own key, and produces no
    single-file entries -/
theorem C07_glob_only_frames (o : ListOpts) (t : Seq) (items : List FileItem)
    (bs' : List SeqInfo) (files' : List Seq)
    (h : scanItems o (some t) items [] [] = .ok (bs', files')) :
    files' = [] ∧ ∀ b ∈ bs', b.dir = t.dir ∧ b.base = t.base ∧ b.ext = t.ext := by
  obtain ⟨hf, hb⟩ := scan_template_tokens o t items [] [] bs' files' h
  refine ⟨hf, ?_⟩
  intro b hbm
  rcases hb b hbm with h0 | h1
  · simp at h0
  · exact h1

/-- Completeness: when the visible names `basename + frame number + extension` of the pattern's
    directory (`candToks`: the glob and the frame-number test, hidden names only on request) are
    two or more and share one digit width, the non-strict lookup returns ONE sequence with the
    pattern's directory, basename and extension, in the requested style, of that width, whose
    range text is the compressed list of ALL their numbers — no candidate is dropped, whatever
    else the directory holds and in whatever order it is read. -/
theorem C07_complete (lookup : Bytes → DirSpec) (pat : Bytes) (st : PadStyle) (hidden : Bool)
    (fs : Seq) (entries : List Entry) (w : Nat)
    (hp : Seq.parse st pat = .ok fs) (hl : lookup (openDir fs.dir) = some entries)
    (hnd : ∀ e ∈ entries, e.kind ≠ .dangling)
    (toks : List Bytes)
    (htoks : toks = FindComplete.candToks ⟨false, hidden, st⟩ fs
        ((entries.filter fun e => e.kind = .file ∨ e.kind = .linkFile).map fun e => ⟨dirPrefix (openDir fs.dir), e.name⟩))
    (h2 : 2 ≤ toks.length) (hw : ∀ tk ∈ toks, tk.length = w) :
    ∃ s, findSequenceOnDisk lookup pat st false hidden = .ok (some s) ∧
      s.dir = fs.dir ∧ s.base = fs.base ∧ s.ext = fs.ext ∧ s.style = st ∧
      s = (rebuild st fs.dir fs.base (framesToFrameRange (toks.map atoiOr0) true 0)
            (padChars st w) fs.ext).setPaddingStyle st :=
  FindComplete.find_complete lookup pat st hidden fs entries w hp hl hnd toks htoks h2 hw

/-- … and with StrictPadding: the same sequence when the pattern carries no padding or its pad
    width is the candidates' digit width, nothing otherwise ("only files whose digit width is
    compatible with the pattern's pad width", for a directory of one width) -/
theorem C07_complete_strict (lookup : Bytes → DirSpec) (pat : Bytes) (st : PadStyle) (hidden : Bool)
    (fs : Seq) (entries : List Entry) (w : Nat)
    (hp : Seq.parse st pat = .ok fs) (hl : lookup (openDir fs.dir) = some entries)
    (hnd : ∀ e ∈ entries, e.kind ≠ .dangling)
    (toks : List Bytes)
    (htoks : toks = FindComplete.candToks ⟨false, hidden, st⟩ fs
        ((entries.filter fun e => e.kind = .file ∨ e.kind = .linkFile).map fun e => ⟨dirPrefix (openDir fs.dir), e.name⟩))
    (h2 : 2 ≤ toks.length) (hw : ∀ tk ∈ toks, tk.length = w) (hw1 : 1 ≤ w)
    (hfr : framesToFrameRange (toks.map atoiOr0) true 0 ≠ []) :
    findSequenceOnDisk lookup pat st true hidden =
      .ok (if fs.pad.isEmpty = false ∧ (w : Int) ≠ fs.zfill then none
           else some ((rebuild st fs.dir fs.base (framesToFrameRange (toks.map atoiOr0) true 0)
                        (padChars st w) fs.ext).setPaddingStyle st)) :=
  FindComplete.find_complete_strict lookup pat st hidden fs entries w hp hl hnd toks htoks h2 hw hw1 hfr

/-- … and a single candidate is not dropped either: the non-strict lookup returns a sequence with
    the pattern's directory, basename and extension, in the requested style -/
theorem C07_complete_single (lookup : Bytes → DirSpec) (pat : Bytes) (st : PadStyle) (hidden : Bool)
    (fs : Seq) (entries : List Entry) (tk : Bytes)
    (hp : Seq.parse st pat = .ok fs) (hl : lookup (openDir fs.dir) = some entries)
    (hnd : ∀ e ∈ entries, e.kind ≠ .dangling)
    (htoks : FindComplete.candToks ⟨false, hidden, st⟩ fs
        ((entries.filter fun e => e.kind = .file ∨ e.kind = .linkFile).map fun e => ⟨dirPrefix (openDir fs.dir), e.name⟩) = [tk]) :
    ∃ s, findSequenceOnDisk lookup pat st false hidden = .ok (some s) ∧
      s.dir = fs.dir ∧ s.base = fs.base ∧ s.ext = fs.ext ∧ s.style = st :=
  FindComplete.find_single lookup pat st hidden fs entries tk hp hl hnd htoks

/-- … and that range text denotes exactly their numbers, ascending (C09), when the numbers are
    distinct and fit an int -/
theorem C07_complete_frames (toks : List Bytes) (hne : toks ≠ [])
    (hnd : (toks.map atoiOr0).Nodup)
    (hfit : ∀ a ∈ toks.map atoiOr0, ∀ b ∈ toks.map atoiOr0, Fits a ∧ Fits (a - b)) :
    ∃ fset, FrameSet.parse (framesToFrameRange (toks.map atoiOr0) true 0) = .ok fset ∧
      fset.frames = sortedSet (toks.map atoiOr0) :=
  f2r_sorted (toks.map atoiOr0) 0 (by simpa using hne) hnd hfit

/-- non-vacuity: a directory with three frames of one width among siblings that are no frames
    (nothing between basename and extension, a non-numeric middle, a range-like middle, a hidden
    frame, a sub-directory of a matching name) -/
def exEntries : List Entry :=
  [⟨"a.0001.exr".toList, .file⟩, ⟨"a..exr".toList, .file⟩, ⟨"a.x.exr".toList, .file⟩,
   ⟨"a.0003.exr".toList, .linkFile⟩, ⟨"a.1-5.exr".toList, .file⟩, ⟨".a.0007.exr".toList, .file⟩,
   ⟨"a.0009.exr".toList, .dir⟩, ⟨"a.0002.exr".toList, .file⟩]

example :
    FindComplete.candToks ⟨false, false, .hash4⟩
      ⟨"a.".toList, "/T/d/".toList, ".exr".toList, "#".toList, 4, none, .hash4⟩
      ((exEntries.filter fun e => e.kind = .file ∨ e.kind = .linkFile).map
        fun e => (⟨"/T/d/".toList, e.name⟩ : FileItem)) =
      ["0001".toList, "0003".toList, "0002".toList] := by
  decide +kernel

/-- the glob's slice expression is within bounds under the guard the code tests -/
theorem C07_slice_in_bounds (base ext name : Bytes) (h : base.length + ext.length ≤ name.length) :
    base.length ≤ name.length - ext.length ∧ name.length - ext.length ≤ name.length := by omega

/-- the declarations of /repo this property's model and specification were written from are,
    on this run, the ones the model was last aligned with (digest of their comment- and
    layout-insensitive fingerprints, re-extracted by tools/gofacts) -/
theorem C07_source : Gfs.Gen.sourceDigestC07 = Gfs.expectedSourceDigestC07 := by decide

end Gfs.Props.C07
